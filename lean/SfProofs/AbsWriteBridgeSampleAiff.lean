/-
  SfProofs.AbsWriteBridgeSampleAiff — the AIFF / AIFF-C container model (SfModel/Aiff.lean, SfModel/AiffAudio.lean; theorems in
  SfProps/C04Aiff.lean) as a sample-level container `SCont` of the write-side bridge (SfProofs/AbsWriteBridgeSample.lean), and
  its `SLaws`.

  The AIFF model's write operation takes the PEAK table the call leaves behind as a PARAMETER.  The sample-level machine
  supplies it (`aiffOps`) from `Sf.Peak.upd` — the handle model's `peakUpdate` — threading (PEAK table, write position in
  frames) the way `Sf.Peak.run` / `peakFrom` / `wposAfter` do; the chunk holds the binary32 narrowing of the double the handle
  keeps (`aiffPeaks`).  The closed bytes of a FLOAT / DOUBLE file therefore depend on the SAMPLES handed over; that they do not
  depend on the split is `peak_partition` (C18 `peak_partition_independent`).
  The guard `aiffGuard`: whole frames per call, the 2^32 guard of the FORM / SSND size fields on the number of samples, and — for
  FLOAT / DOUBLE — what the PEAK theorems ask of a call (not empty, finite values).
-/
import SfProofs.AbsWriteBridgeSamplePeak
import SfProofs.CodecFile
import SfModel.AiffAudio
import SfProps.C04
import SfProps.C04Aiff
import SfProps.C01Aiff
namespace Sf.AbsWriteBridge.Sample
open Sf Sf.AbsWrite Sf.AbsWriteBridge Sf.Geometry

/-- the PEAK table of the handle as the AIFF header writer stores it: binary32 value, 32-bit position -/
def aiffPeaks : Option (List Sf.Peak) → List Aiff.Peak
  | none => []
  | some ps => ps.map fun p => { v32 := Float.f64to32 p.value, pos := p.position.toNat }

/-- sample-level operations as operations of the AIFF session machine, from the PEAK table `pk` and the write position `wpos`
    (frames) in force before the first of them -/
def aiffOps (c : Aiff.Cfg) (e : Enc) (ty : Ty) : Option (List Sf.Peak) → Int → List SOp → List Aiff.WOp
  | _, _, [] => []
  | pk, wpos, .write xs a :: r =>
    .write (e.encodeAll {} ty xs) (aiffPeaks (Sf.Peak.upd pk e {} c.ch wpos ty xs)) a ::
      aiffOps c e ty (Sf.Peak.upd pk e {} c.ch wpos ty xs) (wpos + (xs.length : Int) / c.ch) r
  | pk, wpos, .update :: r => .update :: aiffOps c e ty pk wpos r

/-- the PEAK table of the handle right after open -/
def aiffPk0 (c : Aiff.Cfg) : Option (List Sf.Peak) := if c.isFloat then some (mkPeaks c.ch) else none

def aiffGeom (c : Aiff.Cfg) : AbsWrite.Geom := { word := c.endian * 0x10000000 + 0x020000 + c.codec, ch := c.ch, sr := c.sr }

def aiffRes : Aiff.ParseRes → Small2.ParseRes
  | .ok i => .ok { ch := i.ch, fmt := i.fmt, sr := i.sr, frames := i.frames }
  | .err => .err
  | .unmodelled => .unmodelled

/-- the AIFF / AIFF-C model as a sample-level container -/
def aiffCont (c : Aiff.Cfg) (k : Aiff.Kind) (e : Enc) : SCont :=
  { g := aiffGeom c, enc := e, L := Aiff.hdrLen c k,
    closed := fun ty st ops => C04Aiff.closedBytes c k st (aiffOps c e ty (aiffPk0 c) 0 ops),
    store := fun ty st ops => (Aiff.run c k (Aiff.openW c k st) (aiffOps c e ty (aiffPk0 c) 0 ops)).bytes,
    parse := fun bs => aiffRes (Aiff.parse bs) }

theorem aiffCont_closed (c : Aiff.Cfg) (k : Aiff.Kind) (e : Enc) (ty : Ty) (st : Nat) (ops : List SOp) :
    (aiffCont c k e).closed ty st ops = C04Aiff.closedBytes c k st (aiffOps c e ty (aiffPk0 c) 0 ops) := rfl

theorem aiffCont_store (c : Aiff.Cfg) (k : Aiff.Kind) (e : Enc) (ty : Ty) (st : Nat) (ops : List SOp) :
    (aiffCont c k e).store ty st ops = (Aiff.run c k (Aiff.openW c k st) (aiffOps c e ty (aiffPk0 c) 0 ops)).bytes := rfl

theorem aiffCont_parse (c : Aiff.Cfg) (k : Aiff.Kind) (e : Enc) (bs : List Byte) :
    (aiffCont c k e).parse bs = aiffRes (Aiff.parse bs) := rfl

/-- every write call hands over whole frames -/
def aiffWhole (ch : Nat) (ops : List SOp) : Prop :=
  ∀ op ∈ ops, match op with | .write xs _ => xs.length % ch = 0 | .update => True

/-- THE GUARD of AIFF: whole frames per write call, the 2^32 guard of the FORM / SSND size fields (a condition on the number of
    samples handed over only: header + audio + pad byte), and for FLOAT / DOUBLE the well-formedness the PEAK theorems ask -/
def aiffGuard (c : Aiff.Cfg) (k : Aiff.Kind) (e : Enc) (ty : Ty) (ops : List SOp) : Prop :=
  aiffWhole c.ch ops ∧ Aiff.hdrLen c k + (sData ops).length * e.nbytes + 1 < 2 ^ 32 ∧
  (c.isFloat = true → PeakOk e c.ch ty ops)

/-! ## the encoding and the geometry -/

theorem aiff_codec_cases {c : Aiff.Cfg} (ha : Aiff.accepted c = true) :
    (c.codec = 0x01 ∨ c.codec = 0x02 ∨ c.codec = 0x03 ∨ c.codec = 0x04 ∨ c.codec = 0x05 ∨ c.codec = 0x06 ∨ c.codec = 0x07 ∨
      c.codec = 0x10 ∨ c.codec = 0x11) ∧ c.endian < 4 := by
  simp only [Aiff.accepted, decide_eq_true_eq] at ha
  rcases ha with ⟨h1, h2⟩ | ⟨h1, h2⟩
  · exact ⟨by omega, h2⟩
  · exact ⟨by omega, by omega⟩

theorem aiffGeom_codec {c : Aiff.Cfg} (ha : Aiff.accepted c = true) : (aiffGeom c).codec = c.codec := by
  obtain ⟨hc, _⟩ := aiff_codec_cases ha
  show (c.endian * 0x10000000 + 0x020000 + c.codec) % 0x10000 = c.codec
  omega

theorem aiffGeom_major {c : Aiff.Cfg} (ha : Aiff.accepted c = true) : (aiffGeom c).major = 0x02 := by
  obtain ⟨hc, _⟩ := aiff_codec_cases ha
  show (c.endian * 0x10000000 + 0x020000 + c.codec) / 0x10000 % 0x1000 = 0x02
  omega

/-- the encoder `aiff_open` installs is the one the format word names -/
theorem aiff_encOf_raw (c : Aiff.Cfg) (k : Aiff.Kind) (e : Enc) (he : Aiff.encOf c k = some e) :
    encOf .raw c.codec (!k.little) = some e := by
  unfold Aiff.encOf at he
  split at he <;> first | (rename_i h; rw [h]; simpa [encOf] using he) | simp at he

theorem aiff_enc_nbytes (c : Aiff.Cfg) (k : Aiff.Kind) (e : Enc) (ha : Aiff.accepted c = true) (hk : Aiff.kindOf c = some k)
    (he : Aiff.encOf c k = some e) : e.nbytes = Aiff.bytewidthOf c.codec := by
  obtain ⟨e', h1, _, h3, _⟩ := C01Aiff.encOf_props c k ha hk
  rw [he] at h1
  cases h1
  exact h3

/-- a FLOAT / DOUBLE configuration installs a float encoder -/
theorem aiff_enc_float (c : Aiff.Cfg) (k : Aiff.Kind) (e : Enc) (he : Aiff.encOf c k = some e) (hf : c.isFloat = true) :
    e.isFloatData = true := by
  have hc : c.codec = 0x06 ∨ c.codec = 0x07 := by simpa [Aiff.Cfg.isFloat] using hf
  unfold Aiff.encOf at he
  rcases hc with h | h <;> rw [h] at he <;> simp at he <;> subst he <;> rfl

theorem aiff_fmtWord (c : Aiff.Cfg) (k : Aiff.Kind) (hk : Aiff.kindOf c = some k) :
    c.fmtWord % 0x10000000 = (aiffGeom c).word % 0x10000000 := by
  show c.fmtWord % 0x10000000 = (c.endian * 0x10000000 + 0x020000 + c.codec) % 0x10000000
  unfold Aiff.Cfg.fmtWord
  rw [hk]
  dsimp only
  split
  · omega
  · split <;> omega

/-! ## the translated operations -/

theorem aiffOps_append (c : Aiff.Cfg) (e : Enc) (ty : Ty) : ∀ (xs ys : List SOp) (pk : Option (List Sf.Peak)) (wpos : Int),
    aiffOps c e ty pk wpos (xs ++ ys) =
      aiffOps c e ty pk wpos xs ++ aiffOps c e ty (peakFrom e c.ch ty pk wpos xs) (wposAfter c.ch wpos xs) ys
  | [], _, _, _ => rfl
  | .write x a :: xs, ys, pk, wpos => by
    simp only [List.cons_append, aiffOps, peakFrom, sCalls, Sf.Peak.run, wposAfter]
    congr 1
    exact aiffOps_append c e ty xs ys _ _
  | .update :: xs, ys, pk, wpos => by
    simp only [List.cons_append, aiffOps, peakFrom, sCalls, wposAfter]
    congr 1
    exact aiffOps_append c e ty xs ys _ _

/-- the audio bytes of the translated session are the encoded samples -/
theorem opsData_aiffOps (c : Aiff.Cfg) (e : Enc) (ty : Ty) : ∀ (ops : List SOp) (pk : Option (List Sf.Peak)) (wpos : Int),
    Aiff.opsData (aiffOps c e ty pk wpos ops) = e.encodeAll {} ty (sData ops)
  | [], _, _ => by simp [aiffOps, Aiff.opsData, sData, Enc.encodeAll]
  | .write xs a :: r, pk, wpos => by
    simp only [aiffOps, Aiff.opsData, sData, Enc.encodeAll_append]
    rw [opsData_aiffOps c e ty r]
  | .update :: r, pk, wpos => by
    simp only [aiffOps, Aiff.opsData, sData]
    exact opsData_aiffOps c e ty r pk wpos

theorem aiff_run_append (c : Aiff.Cfg) (k : Aiff.Kind) (s : Aiff.St) (a b : List Aiff.WOp) :
    Aiff.run c k s (a ++ b) = Aiff.run c k (Aiff.run c k s a) b := by simp [Aiff.run, List.foldl_append]

/-! ## the PEAK table of the session machine -/

/-- the table the last write call of a list left (`acc` if there is none) -/
def aiffLastPk : Option (List Aiff.Peak) → List Aiff.WOp → Option (List Aiff.Peak)
  | acc, [] => acc
  | _, .write _ pk _ :: r => aiffLastPk (some pk) r
  | acc, .update :: r => aiffLastPk acc r

theorem aiff_applyOp_peaks (c : Aiff.Cfg) (k : Aiff.Kind) (s : Aiff.St) (op : Aiff.WOp) :
    (Aiff.applyOp c k s op).peaks =
      match op with
      | .write _ pk _ => if c.isFloat then some pk else s.peaks
      | .update => s.peaks := by
  cases op with
  | update => rfl
  | write enc pk a =>
    cases a <;> cases h : s.data.isEmpty <;> simp [Aiff.applyOp, Aiff.write, Aiff.writeHeader, h]

/-- the PEAK table of the state after a run: what the last write call handed over (FLOAT / DOUBLE), untouched otherwise -/
theorem aiff_run_peaks (c : Aiff.Cfg) (k : Aiff.Kind) : ∀ (wops : List Aiff.WOp) (s : Aiff.St),
    (Aiff.run c k s wops).peaks = if c.isFloat then aiffLastPk s.peaks wops else s.peaks
  | [], s => by simp [Aiff.run, aiffLastPk]
  | .write enc pk a :: r, s => by
    show (Aiff.run c k (Aiff.applyOp c k s (.write enc pk a)) r).peaks = _
    rw [aiff_run_peaks c k r, aiff_applyOp_peaks]
    cases hf : c.isFloat <;> simp [aiffLastPk]
  | .update :: r, s => by
    show (Aiff.run c k (Aiff.applyOp c k s .update) r).peaks = _
    rw [aiff_run_peaks c k r, aiff_applyOp_peaks]
    simp [aiffLastPk]

/-- the last table of the translated session is the narrowing of the handle's PEAK table after it -/
theorem aiffLastPk_aiffOps (c : Aiff.Cfg) (e : Enc) (ty : Ty) : ∀ (ops : List SOp) (pk : Option (List Sf.Peak)) (wpos : Int),
    aiffLastPk (some (aiffPeaks pk)) (aiffOps c e ty pk wpos ops) = some (aiffPeaks (peakFrom e c.ch ty pk wpos ops))
  | [], _, _ => rfl
  | .write xs a :: r, pk, wpos => by
    simp only [aiffOps, aiffLastPk, peakFrom, sCalls, Sf.Peak.run]
    exact aiffLastPk_aiffOps c e ty r _ _
  | .update :: r, pk, wpos => by
    simp only [aiffOps, aiffLastPk, peakFrom, sCalls]
    exact aiffLastPk_aiffOps c e ty r pk wpos

/-- the all-zero table `aiff_open` starts with -/
theorem aiffPeaks_zero (ch : Nat) : aiffPeaks (some (mkPeaks ch)) = List.replicate ch {} := by
  have h0 : ({ v32 := Float.f64to32 (0 : Nat), pos := (0 : Int).toNat } : Aiff.Peak) = {} := by decide
  simp only [aiffPeaks, mkPeaks, List.map_replicate]
  exact congrArg _ h0

/-- the PEAK table the closed header holds: the narrowing of `peakAfter` -/
theorem aiff_finalPeaks (c : Aiff.Cfg) (k : Aiff.Kind) (e : Enc) (ty : Ty) (st : Nat) (ops : List SOp) :
    (Aiff.run c k (Aiff.openW c k st) (aiffOps c e ty (aiffPk0 c) 0 ops)).peaks =
      if c.isFloat then some (aiffPeaks (peakAfter e c.ch ty ops)) else none := by
  rw [aiff_run_peaks]
  have ho : (Aiff.openW c k st).peaks = if c.isFloat then some (List.replicate c.ch {}) else none := rfl
  rw [ho]
  cases hf : c.isFloat
  · simp
  · simp only [if_true, aiffPk0, hf]
    rw [← aiffPeaks_zero, aiffLastPk_aiffOps]
    rfl

/-! ## closed bytes and store -/

/-- the closed file: header of the final lengths with the narrowed PEAK table, the encoded samples, the pad byte -/
theorem aiff_closed_eq (c : Aiff.Cfg) (k : Aiff.Kind) (e : Enc) (hwf : c.wf) (hk : Aiff.kindOf c = some k) (ty : Ty) (st : Nat)
    (ops : List SOp) :
    (aiffCont c k e).closed ty st ops =
      Aiff.closedHdr c k (e.encodeAll {} ty (sData ops)).length
          (if c.isFloat then some (aiffPeaks (peakAfter e c.ch ty ops)) else none) ++
        e.encodeAll {} ty (sData ops) ++ Aiff.tailBytes (e.encodeAll {} ty (sData ops)).length := by
  rw [aiffCont_closed, C04Aiff.closedBytes_eq c k hwf hk, opsData_aiffOps]
  unfold C04Aiff.finalPeaks
  rw [aiff_finalPeaks]

theorem aiff_hdr_length (c : Aiff.Cfg) (k : Aiff.Kind) (hwf : c.wf) (hk : Aiff.kindOf c = some k) (fr : Nat) (fl dl : Int)
    (pk : List Aiff.Peak) :
    (Aiff.hdrRaw c k fr fl dl (if c.isFloat then some pk else none)).length = Aiff.hdrLen c k := by
  apply Aiff.hdrRaw_length c k hwf.1 hk
  cases c.isFloat <;> simp

/-- the store after a header update at the end of `wops`: header of the lengths so far, the audio so far -/
theorem aiff_snapshot_form (c : Aiff.Cfg) (k : Aiff.Kind) (hwf : c.wf) (hk : Aiff.kindOf c = some k) (st : Nat)
    (wops : List Aiff.WOp) :
    ∃ hdr, hdr.length = Aiff.hdrLen c k ∧ C04Aiff.snapshotBytes c k st wops = hdr ++ Aiff.opsData wops := by
  obtain ⟨_, _, _, fbw, _⟩ := Aiff.cfg_facts c k hwf.1 hk
  have hbw : 0 < c.bw := Nat.mul_pos fbw hwf.2.1
  obtain ⟨i, d⟩ := Aiff.run_inv c k hwf.1 hk wops _ (Aiff.inv_open c k hwf.1 hk st)
  have d' : (Aiff.run c k (Aiff.openW c k st) wops).data = Aiff.opsData wops := by rw [d]; simp [Aiff.openW, Aiff.writeHeader]
  refine ⟨Aiff.snapHdr c k (Aiff.opsData wops).length (Aiff.run c k (Aiff.openW c k st) wops).peaks, ?_, ?_⟩
  · unfold Aiff.snapHdr; exact Aiff.hdrRaw_length c k hwf.1 hk _ _ _ _ i.pk
  · unfold C04Aiff.snapshotBytes; rw [Aiff.update_bytes c k hbw _ i, d']

/-- the store after operations that end in a header rewrite is the update image of operations handing over the same samples -/
theorem aiff_store_snapshot (c : Aiff.Cfg) (k : Aiff.Kind) (e : Enc) (ty : Ty) (st : Nat) (ops : List SOp)
    (he : EndsInRewrite ops) :
    ∃ ops', (aiffCont c k e).store ty st ops = C04Aiff.snapshotBytes c k st (aiffOps c e ty (aiffPk0 c) 0 ops') ∧
      sData ops' = sData ops := by
  obtain ⟨w, x, rfl, hx⟩ := he
  rcases hx with rfl | ⟨xs, _, rfl⟩
  · refine ⟨w, ?_, by simp [sData_append, sData]⟩
    rw [aiffCont_store, aiffOps_append, aiff_run_append]
    rfl
  · refine ⟨w ++ [.write xs false], ?_, by simp [sData_append, sData]⟩
    rw [aiffCont_store]
    unfold C04Aiff.snapshotBytes
    rw [aiffOps_append, aiff_run_append, aiffOps_append, aiff_run_append]
    simp only [aiffOps, Aiff.run, List.foldl_cons, List.foldl_nil, Aiff.applyOp]
    rw [C04Aiff.auto_write_is_update]

/-! ## the laws -/

theorem aiff_slaws (c : Aiff.Cfg) (k : Aiff.Kind) (e : Enc) (hwf : c.wf) (hk : Aiff.kindOf c = some k)
    (he : Aiff.encOf c k = some e) (ty : Ty) : SLaws (aiffCont c k e) ty (aiffGuard c k e ty) := by
  have ha := hwf.1
  have hch : 0 < c.ch := hwf.2.1
  have henc := aiff_encOf_raw c k e he
  obtain ⟨hnb, hewf⟩ := encOf_props _ _ _ _ henc
  obtain ⟨hcd, _⟩ := aiff_codec_cases ha
  have hnbw := aiff_enc_nbytes c k e ha hk he
  have hbw : c.bw = (aiffCont c k e).bw := by
    show Aiff.bytewidthOf c.codec * c.ch = e.nbytes * c.ch
    rw [hnbw]
  have hrate : rateOk (aiffGeom c).major c.sr ((c.sr : Nat) : Int) = true := by
    rw [aiffGeom_major ha]; simp [rateOk, rateClass]
  have hpad : ∀ D : Nat, (Aiff.tailBytes D).length ≤ 1 := by
    intro D; unfold Aiff.tailBytes; split <;> simp
  have hcodec : (aiffCont c k e).g.codec = c.codec := aiffGeom_codec ha
  have hmajor : (aiffCont c k e).g.major = 0x02 := aiffGeom_major ha
  refine { chpos := hch, nb := hnb, wf := hewf,
           block := C04.frames_bound_granular _ _ _ _
             (by rw [hcodec]
                 rcases hcd with h | h | h | h | h | h | h | h | h <;> rw [h] <;> simp [Geometry.sampleGranular])
             (by rw [hmajor]; simp),
           notRaw := by rw [hmajor]; simp,
           codec := ⟨_, by rw [hcodec]; exact henc⟩,
           closedForm := ?_, closedParse := ?_, closedFn := ?_, storeForm := ?_, storeParse := ?_ }
  · intro st ops _
    rw [aiff_closed_eq c k e hwf hk]
    exact ⟨_, _, aiff_hdr_length c k hwf hk _ _ _ _, rfl⟩
  · intro st ops hg
    have hlen : (C04Aiff.closedBytes c k st (aiffOps c e ty (aiffPk0 c) 0 ops)).length < 2 ^ 32 := by
      rw [← aiffCont_closed, aiff_closed_eq c k e hwf hk ty st ops]
      simp only [List.length_append]
      unfold Aiff.closedHdr
      rw [aiff_hdr_length c k hwf hk, Enc.encodeAll_length]
      have := hpad ((sData ops).length * e.nbytes)
      have := hg.2.1
      omega
    have hp := C04Aiff.aiff_reopen_info c k hwf hk st _ hlen
    refine ⟨{ ch := c.ch, fmt := c.fmtWord, sr := c.sr, frames := (Aiff.opsData (aiffOps c e ty (aiffPk0 c) 0 ops)).length / c.bw },
      ?_, ?_, rfl, aiff_fmtWord c k hk, hrate⟩
    · rw [aiffCont_parse, aiffCont_closed, hp]; rfl
    · show (Aiff.opsData (aiffOps c e ty (aiffPk0 c) 0 ops)).length / c.bw = _
      rw [opsData_aiffOps, hbw]; rfl
  · intro a b ops ops' hg hg' hs
    rw [aiff_closed_eq c k e hwf hk, aiff_closed_eq c k e hwf hk, hs]
    cases hf : c.isFloat
    · rfl
    · have hfl := aiff_enc_float c k e he hf
      rw [peak_partition e hfl c.ch hch ty ops ops' (hg.2.2 hf) (hg'.2.2 hf) hs]
  · intro st ops hg hr
    obtain ⟨ops', e1, e2⟩ := aiff_store_snapshot c k e ty st ops hr
    obtain ⟨hdr, h1, h2⟩ := aiff_snapshot_form c k hwf hk st (aiffOps c e ty (aiffPk0 c) 0 ops')
    exact ⟨hdr, [], h1, by rw [e1, h2, opsData_aiffOps, e2]; exact (List.append_nil _).symm⟩
  · intro st ops hg hr
    obtain ⟨ops', e1, e2⟩ := aiff_store_snapshot c k e ty st ops hr
    obtain ⟨hdr, h1, h2⟩ := aiff_snapshot_form c k hwf hk st (aiffOps c e ty (aiffPk0 c) 0 ops')
    have hlen : (C04Aiff.snapshotBytes c k st (aiffOps c e ty (aiffPk0 c) 0 ops')).length < 2 ^ 32 := by
      rw [h2, List.length_append, h1, opsData_aiffOps, e2, Enc.encodeAll_length]
      have := hg.2.1
      omega
    obtain ⟨hp, _⟩ := C04Aiff.aiff_snapshot_valid c k hwf hk st _ hlen
    refine ⟨{ ch := c.ch, fmt := c.fmtWord, sr := c.sr, frames := (Aiff.opsData (aiffOps c e ty (aiffPk0 c) 0 ops')).length / c.bw },
      ?_, ?_, rfl, aiff_fmtWord c k hk⟩
    · rw [aiffCont_parse, e1, hp]; rfl
    · show (Aiff.opsData (aiffOps c e ty (aiffPk0 c) 0 ops')).length / c.bw = _
      rw [opsData_aiffOps, e2, hbw]; rfl

/-! ## non-vacuity: a FLOAT mono AIFF-C session (0.5 | header update | -1.0, 0.25 in auto mode), evaluated -/

def aiffExC : Aiff.Cfg := ⟨0x06, 0, 1, 8000⟩
def aiffExK : Aiff.Kind := ⟨true, Aiff.mk4 "FL32", false⟩
def aiffExOps : List SOp := [.write [0x3F000000] false, .update, .write [0xBF800000, 0x3E800000] true]
def aiffExRef : List SOp := [.write [0x3F000000, 0xBF800000, 0x3E800000] false]

theorem aiff_example_cfg : aiffExC.wf ∧ Aiff.kindOf aiffExC = some aiffExK ∧ Aiff.encOf aiffExC aiffExK = some (.flt true) := by
  decide

/-- the guard holds of the split session and of its one-call reference -/
theorem aiff_example_guard : aiffGuard aiffExC aiffExK (.flt true) .f32 aiffExOps ∧
    aiffGuard aiffExC aiffExK (.flt true) .f32 aiffExRef := by
  refine ⟨⟨?_, by decide, fun _ => ?_⟩, ⟨?_, by decide, fun _ => ?_⟩⟩
  · intro op hop
    simp only [aiffExOps, List.mem_cons, List.not_mem_nil, or_false] at hop
    rcases hop with rfl | rfl | rfl <;> decide
  · intro call hc
    simp only [aiffExOps, sCalls, List.mem_cons, List.not_mem_nil, or_false] at hc
    rcases hc with rfl | rfl <;> exact ⟨by decide, by decide, by decide +kernel⟩
  · intro op hop
    simp only [aiffExRef, List.mem_cons, List.not_mem_nil, or_false] at hop
    subst hop; decide
  · intro call hc
    simp only [aiffExRef, sCalls, List.mem_cons, List.not_mem_nil, or_false] at hc
    subst hc; exact ⟨by decide, by decide, by decide +kernel⟩

/-- by evaluation: the split session (stale frames value 0) and the one-call session (stale 7) close to the same 108 bytes; the
    PEAK chunk (bytes 56 …) holds 1.0f at frame 1; the store after the auto-mode write re-opens with 3 frames -/
example : (aiffCont aiffExC aiffExK (.flt true)).closed .f32 0 aiffExOps = (aiffCont aiffExC aiffExK (.flt true)).closed .f32 7 aiffExRef ∧
    ((aiffCont aiffExC aiffExK (.flt true)).closed .f32 0 aiffExOps).length = 108 ∧
    (((aiffCont aiffExC aiffExK (.flt true)).closed .f32 0 aiffExOps).drop 56).take 24 =
      Aiff.mk4 "PEAK" ++ [0, 0, 0, 16, 0, 0, 0, 1, 0x3B, 0x9A, 0xCA, 0x00, 0x3F, 0x80, 0, 0, 0, 0, 0, 1] ∧
    (aiffCont aiffExC aiffExK (.flt true)).parse ((aiffCont aiffExC aiffExK (.flt true)).closed .f32 0 aiffExOps) =
      .ok ⟨1, 0x020006, 8000, 3⟩ ∧
    (aiffCont aiffExC aiffExK (.flt true)).parse ((aiffCont aiffExC aiffExK (.flt true)).store .f32 0 aiffExOps) =
      .ok ⟨1, 0x020006, 8000, 3⟩ := by decide +kernel

/-- the same equality from the law -/
example : (aiffCont aiffExC aiffExK (.flt true)).closed .f32 0 aiffExOps = (aiffCont aiffExC aiffExK (.flt true)).closed .f32 7 aiffExRef :=
  (aiff_slaws aiffExC aiffExK (.flt true) aiff_example_cfg.1 aiff_example_cfg.2.1 aiff_example_cfg.2.2 .f32).closedFn 0 7 _ _
    aiff_example_guard.1 aiff_example_guard.2 rfl

end Sf.AbsWriteBridge.Sample
