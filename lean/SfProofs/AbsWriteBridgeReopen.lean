/-
  SfProofs.AbsWriteBridgeReopen — re-opening and reading back an image of a Sf.Handle session (the closed file, or the store
  right after a header update): `image_reopen` (C04 / C11: `openHandle_raw_r`, `au_image_reopen`, `wav_image_reopen` as the
  campaign re-opens — RAW with the writer's parameters, everything else with an empty SF_INFO) and `reopen_read` (what
  `infoOf` / `readBack` of AbsWriteBridgeHandle.lean evaluate to on such an image).
-/
import SfProofs.AbsWriteBridgeFacts
namespace Sf.AbsWriteBridge
open Sf Sf.AbsWrite Sf.Geometry

theorem openHandle_raw_r_pos (ix : Nat) (bs : List Byte) (pos fmt : Nat) (ch sr : Int) (enc : Enc)
    (hc : containerOf fmt = some .raw) (hch : 1 ≤ ch ∧ ch ≤ 1024) (hsr : 1 ≤ sr)
    (he : encOf .raw (codecOf fmt) (dataBig .raw fmt) = some enc) :
    ∃ h s', openHandle ix ⟨bs, pos⟩ .r fmt ch sr = .ok h s' ∧ s'.pos = 0 := by
  have h1 : ¬ (ch < 1 ∨ ch > 1024 ∨ sr < 0) := by omega
  have h2 : ¬ sr < 1 := by omega
  unfold openHandle
  simp only [hc, he, h1, h2, Store.seekSet]
  simp

def majorOf : Container → Nat | .raw => 0x04 | .au => 0x03 | .wav => 0x01

theorem containerOf_major {fmt : Nat} {k : Container} (h : containerOf fmt = some k) :
    fmt / 0x10000 % 0x1000 = majorOf k := by
  unfold containerOf at h
  split at h <;> cases h <;> assumption

/-- an image of a session — the closed file or the store after a header update — re-opened as the campaign does -/
theorem image_reopen (S : Sess) (c : Cfg) (hcfg : openCfg S.fmt S.ch S.sr = some c)
    (h1 : 1 ≤ S.ch) (h2 : S.ch ≤ 1024) (h3 : 1 ≤ S.sr) (hsr : S.sr ≤ 0x7FFFFFFF)
    (a : Sf.Abs) (hd : a.data.length = a.frames * c.bw) (hpk : ∀ ps, a.peak = some ps → ps.length = c.ch)
    (hpkS : a.peak.isSome = c.hasPeak)
    (img : List Byte) (himg : img = closedImage c a ∨ img = snapImage c a)
    (hguard : c.container = .wav → img.length < 2 ^ 32) :
    ∃ h' s' tail, reopen S img = .ok h' s' ∧ h'.frames = a.frames ∧ h'.ch = c.ch ∧ h'.sr = S.sr ∧
      (c.container ≠ .raw → h'.fmtWord % 0x10000000 = S.fmt % 0x10000000) ∧ h'.enc = c.enc ∧
      s'.bytes.drop s'.pos = a.data ++ tail := by
  obtain ⟨f1, f2, f3, f4, f5, f6⟩ := openCfg_facts hcfg
  cases hc : c.container with
  | raw =>
    rw [hc] at f1 f5 f6
    have hmaj := containerOf_major f1
    have hi : img = a.data := by
      rcases himg with h | h <;> rw [h] <;> simp [closedImage, snapImage, hdrBytes, hc]
    have hre : reopen S img = openHandle 1 ⟨img, 0⟩ .r S.fmt S.ch S.sr := by simp [reopen, f1]
    obtain ⟨h', s', q1, q2, q3, q4, q5, _, q7⟩ :=
      openHandle_raw_r 1 img 0 S.fmt S.ch S.sr c.enc f1 ⟨h1, h2⟩ h3 (by rw [← f5]; exact f6)
    obtain ⟨h'', s'', r1, r2⟩ := openHandle_raw_r_pos 1 img 0 S.fmt S.ch S.sr c.enc f1 ⟨h1, h2⟩ h3 (by rw [← f5]; exact f6)
    rw [q1] at r1
    have e1 : h'' = h' := by cases r1; rfl
    have e2 : s'' = s' := by cases r1; rfl
    subst e1 e2
    have hbw : 0 < c.enc.nbytes * S.ch.toNat := Nat.mul_pos (encOf_nbytes_pos_ct f6) (by omega)
    refine ⟨h'', s'', [], by rw [hre]; exact q1, ?_, by omega, q4, fun hn => absurd rfl hn, q5, ?_⟩
    · rw [q2, hi, hd, Cfg.bw, f4, Nat.mul_div_cancel _ hbw]
    · rw [q7, r2, hi]; simp
  | au =>
    rw [hc] at f1 f5 f6
    have hmaj : S.fmt / 0x10000 % 0x1000 = 3 := containerOf_major f1
    have hi : img = snapImage c a := by
      rcases himg with h | h
      · rw [h]; simp [closedImage, hc]
      · exact h
    have hre : reopen S img = openHandle 1 ⟨img, 0⟩ .r 0 0 0 := by simp [reopen, f1]
    obtain ⟨p, _, _, _, p3, _, _, p6, p7⟩ :=
      au_image_reopen c a hc (by rw [f2]; exact encOf_au_codecs f6) (by omega) (by omega) (by rw [f2]; exact f6) hd
    obtain ⟨h', s', q1, q2, q3, q4, q5, q6, _, q8⟩ := p7 1 0 0 0 0 (by decide)
    obtain ⟨_, _, _, r4, _⟩ := open_r_fields 1 _ 0 0 0 h' s' q1
    refine ⟨h', s', [], by rw [hre, hi]; exact q1, q2, q3, by rw [q4, f3], fun _ => ?_, q6, ?_⟩
    · rw [q5, p3, f2]
      simp only [codecOf]
      split <;> omega
    · rw [r4, q8]; simp only []; rw [p6]; simp
  | wav =>
    rw [hc] at f1 f5 f6
    have hmaj : S.fmt / 0x10000 % 0x1000 = 1 := containerOf_major f1
    have hL : 44 ≤ c.hdrLen := by simp [Cfg.hdrLen, hc, wavHdrLen_ct, wavFmtLen]; split <;> omega
    have hre : reopen S img = openHandle 1 ⟨img, 0⟩ .r 0 0 0 := by simp [reopen, f1]
    have hg := hguard hc
    -- both images have the form header ++ data ++ tail with at most one pad byte
    obtain ⟨fl, tail, hform, htl⟩ : ∃ (fl : Int) (tail : List Byte),
        img = hdrBytes c a fl a.data.length ++ a.data ++ tail ∧ tail.length ≤ 1 := by
      rcases himg with h | h
      · refine ⟨((c.hdrLen + a.data.length + (wavPad_ct c a).length : Nat) : Int), wavPad_ct c a,
          by rw [h]; simp only [closedImage, hc], ?_⟩
        unfold wavPad_ct; split <;> simp
      · exact ⟨((c.hdrLen + a.data.length : Nat) : Int), [], by rw [h]; simp only [snapImage, List.append_nil], by simp⟩
    have hlen : img.length = c.hdrLen + a.data.length + tail.length := by
      rw [hform]; simp [hdrBytes_length c a _ _ hpkS hpk]; omega
    obtain ⟨p, _, _, _, p3, _, _, p6, p7⟩ :=
      wav_image_reopen c a fl tail hc (by omega) (by omega) (by rw [f2]; exact f6) hd hpk hpkS (by omega) htl
    obtain ⟨h', s', q1, q2, q3, q4, q5, q6, _, q8⟩ := p7 1 0 0 0 0 (by decide)
    obtain ⟨_, _, _, r4, _⟩ := open_r_fields 1 _ 0 0 0 h' s' q1
    refine ⟨h', s', tail, by rw [hre, hform]; exact q1, q2, q3, by rw [q4, f3], fun _ => ?_, q6, ?_⟩
    · rw [q5, p3, f2]
      simp only [codecOf]
      split <;> omega
    · rw [r4, q8]; simp only []; exact p6

/-- the block length of every (container, encoding) of the concrete model is 1 -/
theorem geom_block (S : Sess) (c : Cfg) (hcfg : openCfg S.fmt S.ch S.sr = some c) : S.geom.block = 1 := by
  obtain ⟨f1, _, _, _, _, f6⟩ := openCfg_facts hcfg
  have hmaj := containerOf_major f1
  apply C04.frames_bound_granular
  · show S.fmt % 0x10000 ∈ sampleGranular
    have : codecOf S.fmt ∈ sampleGranular := by
      unfold encOf at f6
      split at f6 <;> (try split at f6) <;> (try cases f6) <;> simp_all [sampleGranular]
    exact this
  · show ¬ (S.fmt / 0x10000 % 0x1000 = 0x05 ∧ _)
    rw [hmaj]; cases c.container <;> simp [majorOf]

theorem geom_rate (S : Sess) (c : Cfg) (hcfg : openCfg S.fmt S.ch S.sr = some c) (h3 : 1 ≤ S.sr) :
    rateOk S.geom.major S.geom.sr S.sr = true := by
  obtain ⟨f1, _⟩ := openCfg_facts hcfg
  have hmaj : S.geom.major = majorOf c.container := containerOf_major f1
  have hsr : ((S.sr.toNat : Nat) : Int) = S.sr := by omega
  rw [hmaj]
  cases c.container <;> simp [rateOk, rateClass, Sess.geom, hsr, majorOf]

theorem geom_snapScope (S : Sess) (c : Cfg) (hcfg : openCfg S.fmt S.ch S.sr = some c) (h : snapScope S.geom = true) :
    c.container ≠ .raw := by
  obtain ⟨f1, _⟩ := openCfg_facts hcfg
  have hmaj : S.geom.major = majorOf c.container := containerOf_major f1
  intro hc
  rw [hc] at hmaj
  simp [snapScope, hmaj, majorOf] at h

/-- WHAT THE CAMPAIGN READS OFF AN IMAGE: the re-open line and the read-back of an image whose session state is the run
    of the operations `ops'` (all of the session's caller type) -/
theorem reopen_read (S : Sess) (c : Cfg) (hcfg : openCfg S.fmt S.ch S.sr = some c)
    (h1 : 1 ≤ S.ch) (h2 : S.ch ≤ 1024) (h3 : 1 ≤ S.sr) (hsr : S.sr ≤ 0x7FFFFFFF)
    (ops' : List SOp) {h : H} {s : Store} (i : Inv c (c.init.run c ops') h s) (ht : ∀ op ∈ ops', SOp.hasTy S.ty op)
    (img : List Byte) (himg : img = closedImage c (c.init.run c ops') ∨ img = snapImage c (c.init.run c ops'))
    (hguard : c.container = .wav → img.length < 2 ^ 32) (m : Nat) (hm : sessFrames S.ch.toNat ops' < m) :
    (infoOf (reopen S img)).null = false ∧ infoOk S.geom (infoOf (reopen S img)) = true ∧
    rateOk S.geom.major S.geom.sr (infoOf (reopen S img)).sr = true ∧
    (infoOf (reopen S img)).frames = (sessFrames S.ch.toNat ops' : Int) ∧
    (readBack S.ty (m * S.ch.toNat) S.ch.toNat (reopen S img)).1 = ((sessFrames S.ch.toNat ops' * S.ch.toNat : Nat) : Int) ∧
    (readBack S.ty (m * S.ch.toNat) S.ch.toNat (reopen S img)).2.2 = 0 ∧
    (readBack S.ty (m * S.ch.toNat) S.ch.toNat (reopen S img)).2.1.length = m * S.ch.toNat ∧
    (readBack S.ty (m * S.ch.toNat) S.ch.toNat (reopen S img)).2.1.take (sessFrames S.ch.toNat ops' * S.ch.toNat) =
      c.enc.decodeAll {} S.ty (c.enc.encodeAll {} S.ty (sampleList S.ch.toNat ops')) := by
  obtain ⟨f1, f2, f3, f4, f5, f6⟩ := openCfg_facts hcfg
  have hF : (c.init.run c ops').frames = sessFrames S.ch.toNat ops' := by rw [run_frames, f4]; simp [Cfg.init]
  have hD : (c.init.run c ops').data = c.enc.encodeAll {} S.ty (sampleList S.ch.toNat ops') := by
    rw [run_data, ← f4, ← sessData_ty c S.ty ops' ht]; simp [Cfg.init]
  obtain ⟨h', s', tail, q1, q2, q3, q4, q5, q6, q7⟩ :=
    image_reopen S c hcfg h1 h2 h3 hsr _ i.dlen i.pkLen i.pkSome img himg hguard
  rw [hF] at q2
  rw [hD] at q7
  have hch : h'.ch = S.ch.toNat := by rw [q3, f4]
  have hdl : (c.enc.encodeAll {} S.ty (sampleList S.ch.toNat ops')).length =
      sessFrames S.ch.toNat ops' * (h'.enc.nbytes * h'.ch) := by
    rw [← hD, i.dlen, hF, Cfg.bw, q6, q3]
  have hro : reopen S img = .ok h' s' := q1
  -- `reopen` is one of two `openHandle` calls: name the arguments
  obtain ⟨fmt0, ch0, sr0, hopen⟩ : ∃ fmt0 ch0 sr0, openHandle 1 ⟨img, 0⟩ .r fmt0 ch0 sr0 = .ok h' s' := by
    unfold reopen at hro; split at hro
    · exact ⟨_, _, _, hro⟩
    · exact ⟨_, _, _, hro⟩
  obtain ⟨r1, r2, r3, r4⟩ := readBack_spec hopen S.ty (sessFrames S.ch.toNat ops') q2 _ tail q7 hdl m hm 1 (by omega)
  rw [hch] at r1 r2 r3 r4
  rw [hro]
  refine ⟨rfl, ?_, ?_, q2, r1, by simpa [readBack] using r4, r2, ?_⟩
  · show infoOk S.geom { ch := (h'.ch : Int), sr := h'.sr, fmt := h'.fmtWord, frames := h'.frames } = true
    unfold infoOk
    simp only [Bool.and_eq_true, Bool.or_eq_true, beq_iff_eq]
    refine ⟨by rw [hch]; rfl, ?_⟩
    by_cases hr : c.container = .raw
    · left
      have := containerOf_major f1
      rw [hr] at this; exact this
    · right; exact q5 hr
  · show rateOk S.geom.major S.geom.sr h'.sr = true
    rw [q4]; exact geom_rate S c hcfg h3
  · rw [q6] at r3; exact r3

end Sf.AbsWriteBridge
