/-
  SfProofs.AbsWriteBridgeSampleCaf — the Core Audio Format container model (SfModel/Caf.lean, theorems in SfProps/C04Caf.lean)
  as a sample-level container `SCont` of the write-side bridge (SfProofs/AbsWriteBridgeSample.lean), and its `SLaws`.

  CAF writes a 'peak' chunk into FLOAT / DOUBLE files: the closed bytes are a function of the SAMPLES handed to the write
  calls (per-channel maxima and their frame positions), not of the audio bytes alone.  A sample-level operation becomes
  operations of the CAF session machine (`cafOps`, threading the PEAK table of `Sf.Peak.upd` and the write position): a write
  call sets the auto flag in force and hands over `xs.length / ch` frames of encoded samples together with the PEAK table after
  it; SFC_UPDATE_HEADER_NOW is `.update`.  The guard `cafGuard`: whole frames per call, the reader's 2^31 − 1 guard on the
  audio byte count, and — for the float configurations — what the PEAK theorems ask of a call (`PeakOk`).
-/
import SfProofs.AbsWriteBridgeSamplePeak
import SfProps.C04Bridge
import SfProps.C04Caf
namespace Sf.Caf
open Sf Sf.HdrRd Sf.CafW64
set_option linter.unusedSimpArgs false

/-! ## the parser on header ++ audio ++ (at most one byte): the closed image and the store after a header rewrite -/

/-- `Caf.parse_image` for an arbitrary tail of at most one byte: the closed file (`tl = Caf.tail c n`) and the store right after
    a header rewrite (`tl = []`, no tailer yet) -/
theorem parse_hdr_tail (c : Caf.Cfg) (hwf : c.wf) (n : Nat) (pk : List Caf.Peak) (data tl : List Byte)
    (hpk : Caf.isFloat c.codec = true → pk.length = c.ch) (hd : data.length = n * c.bw) (hsz : n * c.bw ≤ 0x7FFFFFFF)
    (htl : tl.length ≤ 1) :
    Caf.parse (Caf.hdr c n pk ++ data ++ tl) =
      .ok { fmtWord := (if c.little then 0x10000000 else 0) + 0x180000 + c.codec, ch := c.ch, sr := c.sr, frames := n,
            dataoffset := Caf.dataOffset c, datalength := n * c.bw } := by
  obtain ⟨g1, g2, g3, g4, g5, _⟩ := mk_lengths
  obtain ⟨hcodec, _, hch1, hch2, hsr1, hsr2⟩ := hwf
  have hwf' : c.wf := ⟨hcodec, by assumption, hch1, hch2, hsr1, hsr2⟩
  have hbw : 0 < c.bw := wf_bw_pos hwf'
  have hal := dataOffset_aligned c
  have hpl := peakPart_length c pk hpk
  have hfl : freeLen c < 4096 := by unfold freeLen; omega
  have hoff : preLen c + 12 + freeLen c + 16 = dataOffset c := rfl
  have hpre : preLen c ≤ 12356 := by unfold preLen; split <;> omega
  have hoff2 : dataOffset c ≤ 16384 := by
    have : (preLen c + 28 + freeLen c) % 4096 = 0 := by have := hal.1; unfold dataOffset at this; omega
    unfold dataOffset; omega
  generalize hbs : Caf.hdr c n pk ++ data ++ tl = bs
  have hshape : bs = [] ++ ((flds52 c).flatten ++ (peakPart c pk ++ (mk "free" ++ (beBytes 8 (freeLen c) ++ (zeros (freeLen c) ++ (mk "data" ++
      (beBytes 8 (wrapU 64 (((n * c.bw : Nat) : Int) + 4)) ++ (beBytes 4 0 ++ (data ++ tl))))))))) := by
    rw [← hbs]
    simp only [Caf.hdr, hdrRaw_eq, descChunk_eq, descRest, flds52, List.flatten_cons, List.flatten_nil, List.append_assoc,
      List.append_nil, List.nil_append]
  have hlen : bs.length = dataOffset c + data.length + tl.length := by
    rw [← hbs]; simp [Caf.hdr, hdrRaw_length c _ pk hpk]; omega
  obtain ⟨fl1, fl2⟩ := flds52_lengths c
  -- the 52 fixed bytes
  have h52 : rdSeq bs [4, 2, 2, 4, 8, 8, 4, 4, 4, 4, 4, 4] {} = (flds52 c, ⟨52, 52, false⟩) := by
    have := rdSeq_at (flds52 c) (pre := []) (e := 12) hshape fl1.symm (by simp)
    rw [fl2] at this
    simpa using this
  have t1 : bs.take 4 = mk "caff" := by
    rw [hshape]; simp [flds52, g1]
  have t2 : (bs.drop 8).take 4 = mk "desc" := by
    have hb : bs = (mk "caff" ++ beBytes 2 1 ++ beBytes 2 0) ++ (mk "desc" ++ (((flds52 c).drop 4).flatten ++
        (peakPart c pk ++ (mk "free" ++ (beBytes 8 (freeLen c) ++ (zeros (freeLen c) ++ (mk "data" ++
          (beBytes 8 (wrapU 64 (((n * c.bw : Nat) : Int) + 4)) ++ (beBytes 4 0 ++ (data ++ tl)))))))))) := by
      rw [hshape]; simp [flds52]
    have := slice_mid (mk "caff" ++ beBytes 2 1 ++ beBytes 2 0) (mk "desc") (((flds52 c).drop 4).flatten ++
        (peakPart c pk ++ (mk "free" ++ (beBytes 8 (freeLen c) ++ (zeros (freeLen c) ++ (mk "data" ++
          (beBytes 8 (wrapU 64 (((n * c.bw : Nat) : Int) + 4)) ++ (beBytes 4 0 ++ (data ++ tl)))))))))
    rw [hb]; simpa [beBytes_length, g1, g2] using this
  -- the chunk walk
  have hwalk : walk bs c.ch bs.length ⟨52, 52, false⟩ {} =
      .done { haveData := true, dataoffset := dataOffset c, datalength := data.length,
              dataend := if tl.length = 0 then 0 else ((dataOffset c + data.length : Nat) : Int) } := by
    have hbl : 3 ≤ bs.length := by rw [hlen]; omega
    obtain ⟨fuel, hf⟩ : ∃ fuel, bs.length = fuel + 3 := ⟨bs.length - 3, by omega⟩
    have hw : wrapU 64 (((n * c.bw : Nat) : Int) + 4) = wrapU 64 ((data.length : Int) + 4) := by rw [hd]
    by_cases hfloat : isFloat c.codec = true
    · have hpp : peakPart c pk = peakChunk c pk := by simp [peakPart, hfloat]
      have hb : bs = (flds52 c).flatten ++ (peakChunk c pk ++ (mk "free" ++ (beBytes 8 (freeLen c) ++ (zeros (freeLen c) ++ (mk "data" ++
          (beBytes 8 (wrapU 64 ((data.length : Int) + 4)) ++ (beBytes 4 0 ++ (data ++ tl)))))))) := by
        rw [hshape, hpp, hw]; simp
      have hb2 : bs = ((flds52 c).flatten ++ peakChunk c pk) ++ (mk "free" ++ (beBytes 8 (freeLen c) ++ (zeros (freeLen c) ++ (mk "data" ++
          (beBytes 8 (wrapU 64 ((data.length : Int) + 4)) ++ (beBytes 4 0 ++ (data ++ tl))))))) := by
        rw [hb]; simp
      have hpl2 : ((flds52 c).flatten ++ peakChunk c pk).length = preLen c := by
        simp [fl2, peakChunk_length, hpk hfloat, preLen, hfloat]
      rw [hf]
      have := walk_peak c pk (flds52 c).flatten (mk "free" ++ (beBytes 8 (freeLen c) ++ (zeros (freeLen c) ++ (mk "data" ++
          (beBytes 8 (wrapU 64 ((data.length : Int) + 4)) ++ (beBytes 4 0 ++ (data ++ tl))))))) (fuel + 2) {} (hpk hfloat) hch2
          (by simp [beBytes_length, zeros, g4, g5]; omega)
      rw [← hb, fl2] at this
      rw [this]
      have h2 := walk_free_data ((flds52 c).flatten ++ peakChunk c pk) data tl c.ch (freeLen c) fuel hfl
        (by rw [hpl2]; unfold cacheLimit; omega) (by rw [hd]; exact hsz) htl
      rw [← hb2, hpl2] at h2
      have e0 : 52 + 16 + 12 * c.ch = preLen c := by simp [preLen, hfloat]; omega
      rw [e0, h2, hoff]
    · have hpp : peakPart c pk = [] := by simp [peakPart, hfloat]
      have hb : bs = (flds52 c).flatten ++ (mk "free" ++ (beBytes 8 (freeLen c) ++ (zeros (freeLen c) ++ (mk "data" ++
          (beBytes 8 (wrapU 64 ((data.length : Int) + 4)) ++ (beBytes 4 0 ++ (data ++ tl))))))) := by
        rw [hshape, hpp, hw]; simp
      have hpl2 : (flds52 c).flatten.length = preLen c := by simp [fl2, preLen, hfloat]
      have hf' : bs.length = (fuel + 1) + 2 := by omega
      rw [hf']
      have h2 := walk_free_data (flds52 c).flatten data tl c.ch (freeLen c) (fuel + 1) hfl
        (by rw [hpl2]; unfold cacheLimit; omega) (by rw [hd]; exact hsz) htl
      rw [← hb, hpl2] at h2
      have e0 : (52 : Nat) = preLen c := by simp [preLen, hfloat]
      rw [e0, h2]
      rfl
  -- values of the fixed fields
  have hR : Float.f64.ofInt (c.sr : Int) < 2 ^ 64 := Float.ofDy_lt_width Float.f64 (Or.inr rfl) _
  have hfin : Float.f64.isFinite (Float.f64.ofInt (c.sr : Int)) = true :=
    (Float.ofInt_exact_gen Float.f64 (Or.inr rfl) (c.sr : Int) c.sr 0 (by simp) (by show c.sr < 2 ^ 53; omega) (by omega)).2.2.2
  have hrint := rate_roundtrip c.sr (by omega)
  have e64 : (256 : Nat) ^ 8 = 2 ^ 64 := by decide
  have v1 : ofBE (beBytes 8 32) = 32 := by decide
  have v2 : ofBE (beBytes 8 (Float.f64.ofInt (c.sr : Int))) = Float.f64.ofInt (c.sr : Int) := by
    rw [ofBE_beBytes, e64]; exact Nat.mod_eq_of_lt hR
  have hbwle : c.bw ≤ 8192 := by
    have : bytewidth c.codec ≤ 8 := by unfold bytewidth; split <;> omega
    calc c.bw = bytewidth c.codec * c.ch := rfl
      _ ≤ 8 * 1024 := Nat.mul_le_mul this hch2
  have v3 := ofBE_be4 (fmtFlags c) (by unfold fmtFlags; split <;> split <;> omega)
  have v4 := ofBE_be4 c.bw (by omega)
  have v5 : ofBE (beBytes 4 1) = 1 := by decide
  have v6 := ofBE_be4 c.ch (by omega)
  have hb8 : bytewidth c.codec ≤ 8 := by unfold bytewidth; split <;> omega
  have v7 := ofBE_be4 (8 * bytewidth c.codec) (by omega)
  obtain ⟨dd1, dd2, dd3⟩ := decodeDesc_cfg c hwf'
  have hinit : initData (dataOffset c) (if tl.length = 0 then 0 else ((dataOffset c + data.length : Nat) : Int)) bs.length = (data.length : Int) := by
    unfold initData
    rw [hlen]
    by_cases ht : tl.length = 0
    · simp only [ht, if_true]
      by_cases h0 : data.length = 0
      · simp [h0]
      · have h1 : dataOffset c + data.length + 0 > dataOffset c := by omega
        have k : ¬ ((0 : Int) > 0) := by omega
        rw [if_pos h1, if_neg k]; push_cast; omega
    · have h1 : dataOffset c + data.length + tl.length > dataOffset c := by omega
      have h2 : ((dataOffset c + data.length : Nat) : Int) > 0 := by omega
      simp only [ht, if_false, h1, if_true, h2]
      push_cast; omega
  have hl12 : ¬ bs.length < 12 := by rw [hlen]; omega
  unfold Caf.parse
  simp only [hl12, if_false, t1, t2, bne_self_eq_false, Bool.false_eq_true, or_self, h52, flds52, v1, v2, v3, v4, v5, v6, v7]
  unfold parseDesc
  have s32 : sext 64 32 = 32 := by decide
  have k1 : ¬ ((32 : Int) < 32) := by omega
  have k2 : ¬ ((c.sr : Int) < -0x80000000 ∨ (c.sr : Int) > 0x7FFFFFFF) := by omega
  have k3 : ¬ (c.ch > 1024) := by omega
  have k4 : ¬ ((32 : Int) - 32 > (cacheLimit : Int)) := by unfold cacheLimit; omega
  have k5 : ¬ ((32 : Int) > 32) := by omega
  have k6 : (c.ch == 0) = false := by simp; omega
  have k7 : ¬ ((c.sr : Int) < 1) := by omega
  have k8 : ¬ ((data.length : Int) < 0) := by omega
  simp only [s32, k1, if_false, hfin, Bool.not_true, Bool.false_eq_true, hrint, k2, k3, k4, k5, hwalk, dd1, dd2, k6, hinit, k7, k8, dd3,
    Int.toNat_natCast]
  have hdiv : data.length / (bytewidth c.codec * c.ch) = n := by
    rw [hd]; exact Nat.mul_div_cancel n hbw
  rw [hdiv, hd]

end Sf.Caf

namespace Sf.AbsWriteBridge.Sample
open Sf Sf.AbsWrite Sf.AbsWriteBridge Sf.Geometry
set_option linter.unusedSimpArgs false

/-! ## the container -/

/-- the sample encoding CAF installs for a configuration -/
def cafEnc (c : Caf.Cfg) : Enc := C04Bridge.encFor c.codec (!c.little)

/-- a PEAK entry of the handle model as an entry of the CAF model -/
def cafPk (p : Sf.Peak) : Caf.Peak := { value := p.value, position := p.position }

def cafPeaks : Option (List Sf.Peak) → List Caf.Peak
  | none => []
  | some ps => ps.map cafPk

/-- the PEAK table a write call hands to the session machine (`Caf.Op.valid` wants `ch` entries for every codec; the machine
    ignores them for the integer and companded encodings) -/
def cafWritePeaks (c : Caf.Cfg) (pk : Option (List Sf.Peak)) : List Caf.Peak :=
  if Caf.isFloat c.codec then cafPeaks pk else List.replicate c.ch {}

/-- sample-level operations as operations of the CAF session machine; `pk` / `wpos`: PEAK table and write position (in frames)
    before the first of them -/
def cafOps (c : Caf.Cfg) (e : Enc) (ty : Ty) : Option (List Sf.Peak) → Int → List SOp → List Caf.Op
  | _, _, [] => []
  | pk, wpos, .write xs a :: r =>
    .auto a :: .write (xs.length / c.ch) (e.encodeAll {} ty xs) (cafWritePeaks c (Sf.Peak.upd pk e {} c.ch wpos ty xs)) ::
      cafOps c e ty (Sf.Peak.upd pk e {} c.ch wpos ty xs) (wpos + (xs.length : Int) / c.ch) r
  | pk, wpos, .update :: r => .update :: cafOps c e ty pk wpos r

/-- the PEAK table right after open -/
def cafPk0 (c : Caf.Cfg) : Option (List Sf.Peak) := if Caf.isFloat c.codec then some (mkPeaks c.ch) else none

def cafGeom (c : Caf.Cfg) : AbsWrite.Geom := { word := c.endian * 0x10000000 + 0x180000 + c.codec, ch := c.ch, sr := c.sr }

def cafRes : Caf.ParseRes → Small2.ParseRes
  | .ok i => .ok { ch := i.ch, fmt := i.fmtWord, sr := i.sr.toNat, frames := i.frames }
  | .err => .err
  | .unmodelled => .unmodelled

/-- the CAF model as a sample-level container -/
def cafCont (c : Caf.Cfg) : SCont :=
  { g := cafGeom c, enc := cafEnc c, L := Caf.dataOffset c,
    closed := fun ty st ops => (Caf.close c (Caf.run c (Caf.openW c (st : Int)) (cafOps c (cafEnc c) ty (cafPk0 c) 0 ops))).bytes,
    store := fun ty st ops => (Caf.run c (Caf.openW c (st : Int)) (cafOps c (cafEnc c) ty (cafPk0 c) 0 ops)).bytes,
    parse := fun bs => cafRes (Caf.parse bs) }

/-- every write call hands over whole frames -/
def cafWhole (ch : Nat) (ops : List SOp) : Prop :=
  ∀ op ∈ ops, match op with | .write xs _ => xs.length % ch = 0 | .update => True

/-- THE GUARD of CAF: whole frames per write call, the reader's 2^31 − 1 guard on the audio bytes (a condition on the number of
    samples handed over only), and for FLOAT / DOUBLE what the PEAK theorems ask of the calls (not empty, finite values) -/
def cafGuard (c : Caf.Cfg) (ty : Ty) (ops : List SOp) : Prop :=
  cafWhole c.ch ops ∧ (sData ops).length * (cafEnc c).nbytes ≤ 0x7FFFFFFF ∧
    (Caf.isFloat c.codec = true → PeakOk (cafEnc c) c.ch ty ops)

/-! ## the encoding and the geometry -/

theorem cafCont_parse (c : Caf.Cfg) (bs : List Byte) : (cafCont c).parse bs = cafRes (Caf.parse bs) := rfl

theorem caf_codec_cases {c : Caf.Cfg} (hwf : c.wf) :
    c.codec = 0x01 ∨ c.codec = 0x02 ∨ c.codec = 0x03 ∨ c.codec = 0x04 ∨ c.codec = 0x06 ∨ c.codec = 0x07 ∨ c.codec = 0x10 ∨
      c.codec = 0x11 := by
  have := hwf.1
  simpa [Caf.codecs] using this

theorem cafEnc_encOf {c : Caf.Cfg} (hwf : c.wf) : encOf .raw c.codec (!c.little) = some (cafEnc c) := by
  unfold cafEnc C04Bridge.encFor
  rcases caf_codec_cases hwf with h | h | h | h | h | h | h | h <;> rw [h] <;> simp [encOf]

theorem cafEnc_nbytes {c : Caf.Cfg} (hwf : c.wf) : (cafEnc c).nbytes = Caf.bytewidth c.codec := by
  unfold cafEnc C04Bridge.encFor
  rcases caf_codec_cases hwf with h | h | h | h | h | h | h | h <;> rw [h] <;>
    simp [encOf, Enc.nbytes, PcmFmt.nbytes, Caf.bytewidth]

/-- the float configurations install a float encoding -/
theorem cafEnc_float {c : Caf.Cfg} (hf : Caf.isFloat c.codec = true) : (cafEnc c).isFloatData = true := by
  unfold cafEnc C04Bridge.encFor
  simp only [Caf.isFloat, Bool.or_eq_true, beq_iff_eq] at hf
  rcases hf with h | h <;> rw [h] <;> simp [encOf, Enc.isFloatData]

theorem cafGeom_codec {c : Caf.Cfg} (hwf : c.wf) : (cafGeom c).codec = c.codec := by
  show (c.endian * 0x10000000 + 0x180000 + c.codec) % 0x10000 = c.codec
  rcases caf_codec_cases hwf with h | h | h | h | h | h | h | h <;> omega

theorem cafGeom_major {c : Caf.Cfg} (hwf : c.wf) : (cafGeom c).major = 0x18 := by
  show (c.endian * 0x10000000 + 0x180000 + c.codec) / 0x10000 % 0x1000 = 0x18
  rcases caf_codec_cases hwf with h | h | h | h | h | h | h | h <;> omega

/-! ## whole frames -/

theorem cafWhole_tail {ch : Nat} {x : SOp} {r : List SOp} (h : cafWhole ch (x :: r)) : cafWhole ch r :=
  fun o ho => h o (List.mem_cons_of_mem _ ho)

theorem cafWhole_left {ch : Nat} {a b : List SOp} (h : cafWhole ch (a ++ b)) : cafWhole ch a :=
  fun o ho => h o (List.mem_append_left _ ho)

theorem cafWhole_head {ch : Nat} {xs : List Int} {a : Bool} {r : List SOp} (h : cafWhole ch (.write xs a :: r)) :
    xs.length % ch = 0 := h (.write xs a) (List.mem_cons_self ..)

theorem caf_div_add (ch a n : Nat) (hch : 0 < ch) (h : a % ch = 0) : (a + n) / ch = a / ch + n / ch := by
  obtain ⟨q, rfl⟩ := Nat.dvd_of_mod_eq_zero h
  rw [Nat.mul_add_div hch, Nat.mul_div_cancel_left _ hch]

/-- a call of whole frames that hands over something hands over at least one frame -/
theorem caf_frames_ne_zero (ch : Nat) (xs : List Int) (hne : xs ≠ []) (h : xs.length % ch = 0) : xs.length / ch ≠ 0 := by
  intro h0
  have := Nat.div_add_mod xs.length ch
  rw [h0, h] at this
  have hl : xs.length = 0 := by simpa using this.symm
  exact hne (List.length_eq_zero_iff.mp hl)

/-- a call of whole frames that hands over no frame hands over nothing -/
theorem caf_frames_zero (ch : Nat) (xs : List Int) (h : xs.length % ch = 0) (h0 : xs.length / ch = 0) : xs = [] := by
  have := Nat.div_add_mod xs.length ch
  rw [h0, h] at this
  have hl : xs.length = 0 := by simpa using this.symm
  exact List.length_eq_zero_iff.mp hl

/-- the samples the whole-frame calls hand over are whole frames -/
theorem cafWhole_sData (ch : Nat) : ∀ ops : List SOp, cafWhole ch ops → (sData ops).length % ch = 0
  | [], _ => by simp [sData]
  | .write xs a :: r, hw => by
    have h1 := cafWhole_head hw
    have ih := cafWhole_sData ch r (cafWhole_tail hw)
    simp only [sData, List.length_append]
    rw [Nat.add_mod, h1, ih]; simp
  | .update :: r, hw => by
    simpa [sData] using cafWhole_sData ch r (cafWhole_tail hw)

/-! ## the PEAK table keeps its `ch` entries -/

theorem caf_upd_length (e : Enc) (hfl : e.isFloatData = true) (ch : Nat) (wpos : Int) (ty : Ty) (xs : List Int)
    (ps : List Sf.Peak) (hps : ps.length = ch) :
    ∃ q, Sf.Peak.upd (some ps) e {} ch wpos ty xs = some q ∧ q.length = ch := by
  rw [Sf.Peak.upd_eq e hfl]
  refine ⟨_, rfl, ?_⟩
  have key : ∀ (cs : List (List Nat)) (acc : List Sf.Peak × Nat), acc.1.length = ch →
      (cs.foldl (fun (acc : List Sf.Peak × Nat) c =>
        (peakChunkUpdate (Sf.Peak.fileFmt e) ch wpos ((acc.2 / ch : Nat) : Int) c acc.1, acc.2 + c.length)) acc).1.length = ch := by
    intro cs
    induction cs with
    | nil => intro acc h; simpa using h
    | cons c cs ih =>
      intro acc _
      simp only [List.foldl_cons]
      apply ih
      simp [peakChunkUpdate]
  exact key _ _ hps

theorem caf_peakFrom_length (e : Enc) (hfl : e.isFloatData = true) (ch : Nat) (ty : Ty) :
    ∀ (ops : List SOp) (ps : List Sf.Peak) (wpos : Int), ps.length = ch →
      ∃ q, peakFrom e ch ty (some ps) wpos ops = some q ∧ q.length = ch
  | [], ps, _, h => ⟨ps, rfl, h⟩
  | .write xs _ :: r, ps, wpos, h => by
    simp only [peakFrom, sCalls, Sf.Peak.run]
    obtain ⟨q, hq, hl⟩ := caf_upd_length e hfl ch wpos ty xs ps h
    rw [hq]; exact caf_peakFrom_length e hfl ch ty r q _ hl
  | .update :: r, ps, wpos, h => by
    simp only [peakFrom, sCalls]; exact caf_peakFrom_length e hfl ch ty r ps wpos h

theorem cafPeaks_length (ps : List Sf.Peak) : (cafPeaks (some ps)).length = ps.length := by simp [cafPeaks]

/-- what the translation threads: a float configuration has a table of `ch` entries -/
def cafTableOk (c : Caf.Cfg) (pk : Option (List Sf.Peak)) : Prop :=
  Caf.isFloat c.codec = true → ∃ ps, pk = some ps ∧ ps.length = c.ch

theorem cafTableOk_pk0 (c : Caf.Cfg) : cafTableOk c (cafPk0 c) := by
  intro hf; exact ⟨mkPeaks c.ch, by simp [cafPk0, hf], by simp [mkPeaks]⟩

theorem cafTableOk_upd (c : Caf.Cfg) (e : Enc) (hfl : Caf.isFloat c.codec = true → e.isFloatData = true) (ty : Ty)
    (pk : Option (List Sf.Peak)) (wpos : Int) (xs : List Int) (h : cafTableOk c pk) :
    cafTableOk c (Sf.Peak.upd pk e {} c.ch wpos ty xs) := by
  intro hf
  obtain ⟨ps, rfl, hl⟩ := h hf
  exact caf_upd_length e (hfl hf) c.ch wpos ty xs ps hl

theorem cafWritePeaks_length (c : Caf.Cfg) (pk : Option (List Sf.Peak)) (h : cafTableOk c pk) :
    (cafWritePeaks c pk).length = c.ch := by
  unfold cafWritePeaks
  by_cases hf : Caf.isFloat c.codec = true
  · obtain ⟨ps, rfl, hl⟩ := h hf
    simp [hf, cafPeaks, hl]
  · simp [hf]

/-! ## the translated operations -/

theorem caf_sessData_append (a b : List Caf.Op) : Caf.sessData (a ++ b) = Caf.sessData a ++ Caf.sessData b := by
  simp [Caf.sessData]

theorem caf_sessFrames_append (a b : List Caf.Op) : Caf.sessFrames (a ++ b) = Caf.sessFrames a + Caf.sessFrames b := by
  simp [Caf.sessFrames]

theorem caf_run_append (c : Caf.Cfg) (s : Caf.St) (a b : List Caf.Op) :
    Caf.run c s (a ++ b) = Caf.run c (Caf.run c s a) b := by simp [Caf.run, List.foldl_append]

theorem cafOps_append (c : Caf.Cfg) (e : Enc) (ty : Ty) : ∀ (xs ys : List SOp) (pk : Option (List Sf.Peak)) (wpos : Int),
    cafOps c e ty pk wpos (xs ++ ys) =
      cafOps c e ty pk wpos xs ++ cafOps c e ty (peakFrom e c.ch ty pk wpos xs) (wposAfter c.ch wpos xs) ys
  | [], _, _, _ => rfl
  | .write x a :: xs, ys, pk, wpos => by
    simp only [List.cons_append, cafOps, wposAfter, peakFrom, sCalls, Sf.Peak.run]
    rw [cafOps_append c e ty xs ys]
    rfl
  | .update :: xs, ys, pk, wpos => by
    simp only [List.cons_append, cafOps, wposAfter, peakFrom, sCalls]
    rw [cafOps_append c e ty xs ys]
    rfl

/-- the audio bytes of the translated session are the encoded samples -/
theorem sessData_cafOps (c : Caf.Cfg) (e : Enc) (ty : Ty) : ∀ (ops : List SOp) (pk : Option (List Sf.Peak)) (wpos : Int),
    cafWhole c.ch ops → Caf.sessData (cafOps c e ty pk wpos ops) = e.encodeAll {} ty (sData ops)
  | [], _, _, _ => by simp [cafOps, Caf.sessData, sData, Enc.encodeAll]
  | .write xs a :: r, pk, wpos, hw => by
    have h1 := cafWhole_head hw
    have ih := sessData_cafOps c e ty r (Sf.Peak.upd pk e {} c.ch wpos ty xs) (wpos + (xs.length : Int) / c.ch) (cafWhole_tail hw)
    simp only [Caf.sessData] at ih ⊢
    simp only [cafOps, List.flatMap_cons, ih, sData, Enc.encodeAll_append]
    by_cases hk : xs.length / c.ch = 0
    · have hx := caf_frames_zero c.ch xs h1 hk
      subst hx
      simp [Caf.Op.data, Enc.encodeAll]
    · simp [Caf.Op.data, hk]
  | .update :: r, pk, wpos, hw => by
    have ih := sessData_cafOps c e ty r pk wpos (cafWhole_tail hw)
    simp only [Caf.sessData] at ih ⊢
    simp only [cafOps, List.flatMap_cons, ih, sData]
    simp [Caf.Op.data]

/-- the frames of the translated session are the samples over the channel count -/
theorem sessFrames_cafOps (c : Caf.Cfg) (e : Enc) (ty : Ty) (hch : 0 < c.ch) :
    ∀ (ops : List SOp) (pk : Option (List Sf.Peak)) (wpos : Int),
    cafWhole c.ch ops → Caf.sessFrames (cafOps c e ty pk wpos ops) = (sData ops).length / c.ch
  | [], _, _, _ => by simp [cafOps, Caf.sessFrames, sData]
  | .write xs a :: r, pk, wpos, hw => by
    have h1 := cafWhole_head hw
    have ih := sessFrames_cafOps c e ty hch r (Sf.Peak.upd pk e {} c.ch wpos ty xs) (wpos + (xs.length : Int) / c.ch) (cafWhole_tail hw)
    simp only [Caf.sessFrames] at ih ⊢
    simp only [cafOps, List.map_cons, List.sum_cons, ih, sData, List.length_append]
    rw [caf_div_add _ _ _ hch h1]
    simp [Caf.Op.frames]
  | .update :: r, pk, wpos, hw => by
    have ih := sessFrames_cafOps c e ty hch r pk wpos (cafWhole_tail hw)
    simp only [Caf.sessFrames] at ih ⊢
    simp only [cafOps, List.map_cons, List.sum_cons, ih, sData]
    simp [Caf.Op.frames]

/-- the encoded samples of a call of whole frames are that many frames of the configuration -/
theorem caf_write_valid (c : Caf.Cfg) (e : Enc) (ty : Ty) (hnb : e.nbytes = Caf.bytewidth c.codec) (hch : 0 < c.ch)
    (xs : List Int) (h : xs.length % c.ch = 0) : (e.encodeAll {} ty xs).length = xs.length / c.ch * c.bw := by
  obtain ⟨q, hq⟩ := Nat.dvd_of_mod_eq_zero h
  rw [Enc.encodeAll_length, hnb, hq, Nat.mul_div_cancel_left _ hch, Caf.Cfg.bw]
  ac_rfl

/-- every operation of the translated session is valid for the configuration -/
theorem cafOps_valid (c : Caf.Cfg) (e : Enc) (ty : Ty) (hnb : e.nbytes = Caf.bytewidth c.codec) (hch : 0 < c.ch)
    (hfl : Caf.isFloat c.codec = true → e.isFloatData = true) :
    ∀ (ops : List SOp) (pk : Option (List Sf.Peak)) (wpos : Int), cafWhole c.ch ops → cafTableOk c pk →
      ∀ op ∈ cafOps c e ty pk wpos ops, op.valid c
  | [], _, _, _, _ => by simp [cafOps]
  | .write xs a :: r, pk, wpos, hw, hpk => by
    intro op hop
    have hpk2 := cafTableOk_upd c e hfl ty pk wpos xs hpk
    simp only [cafOps, List.mem_cons] at hop
    rcases hop with rfl | rfl | hop
    · trivial
    · exact ⟨caf_write_valid c e ty hnb hch xs (cafWhole_head hw), cafWritePeaks_length c _ hpk2⟩
    · exact cafOps_valid c e ty hnb hch hfl r _ _ (cafWhole_tail hw) hpk2 op hop
  | .update :: r, pk, wpos, hw, hpk => by
    intro op hop
    simp only [cafOps, List.mem_cons] at hop
    rcases hop with rfl | hop
    · trivial
    · exact cafOps_valid c e ty hnb hch hfl r pk wpos (cafWhole_tail hw) hpk op hop

/-! ## the PEAK table of the translated session -/

/-- integer and companded encodings: the session machine never touches its (empty) table -/
theorem caf_foldPeaks_pcm (c : Caf.Cfg) (hnf : Caf.isFloat c.codec = false) : ∀ (ops : List Caf.Op) (acc : List Caf.Peak),
    ops.foldl (Caf.nextPeaks c) acc = acc
  | [], _ => rfl
  | op :: r, acc => by
    have : Caf.nextPeaks c acc op = acc := by cases op <;> simp [Caf.nextPeaks, hnf]
    simp only [List.foldl_cons, this]
    exact caf_foldPeaks_pcm c hnf r acc

theorem caf_peakOk_tail_write {e : Enc} {ch : Nat} {ty : Ty} {xs : List Int} {a : Bool} {r : List SOp}
    (h : PeakOk e ch ty (.write xs a :: r)) : Sf.Peak.WellFormed e {} ch (ty, xs) ∧ PeakOk e ch ty r :=
  ⟨h (ty, xs) (by simp [sCalls]), fun call hc => h call (by simp [sCalls, hc])⟩

theorem caf_peakOk_tail_update {e : Enc} {ch : Nat} {ty : Ty} {r : List SOp}
    (h : PeakOk e ch ty (.update :: r)) : PeakOk e ch ty r :=
  fun call hc => h call (by simpa [sCalls] using hc)

/-- FLOAT / DOUBLE: the table the session machine ends with is the table of the PEAK bookkeeping (no write call is empty, so
    none is ignored by the machine) -/
theorem caf_foldPeaks_float (c : Caf.Cfg) (e : Enc) (ty : Ty) (hf : Caf.isFloat c.codec = true) :
    ∀ (ops : List SOp) (pk : Option (List Sf.Peak)) (wpos : Int), PeakOk e c.ch ty ops →
      (cafOps c e ty pk wpos ops).foldl (Caf.nextPeaks c) (cafPeaks pk) = cafPeaks (peakFrom e c.ch ty pk wpos ops)
  | [], _, _, _ => rfl
  | .write xs a :: r, pk, wpos, hok => by
    obtain ⟨hwf, hr⟩ := caf_peakOk_tail_write hok
    have hne : xs ≠ [] := by
      intro h0; have := hwf.1; rw [h0] at this; simp at this
    have hk : xs.length / c.ch ≠ 0 := caf_frames_ne_zero c.ch xs hne hwf.2.1
    have hkb : (xs.length / c.ch == 0) = false := by simpa using hk
    have ih := caf_foldPeaks_float c e ty hf r (Sf.Peak.upd pk e {} c.ch wpos ty xs) (wpos + (xs.length : Int) / c.ch) hr
    simp only [cafOps, List.foldl_cons, Caf.nextPeaks, hkb, hf, cafWritePeaks, Bool.not_true, Bool.false_eq_true, or_self,
      if_false, if_true, peakFrom, sCalls, Sf.Peak.run] at ih ⊢
    exact ih
  | .update :: r, pk, wpos, hok => by
    have ih := caf_foldPeaks_float c e ty hf r pk wpos (caf_peakOk_tail_update hok)
    simp only [cafOps, List.foldl_cons, Caf.nextPeaks, peakFrom, sCalls] at ih ⊢
    exact ih

/-- the PEAK table of the closed file: the per-channel maxima and positions of the samples (FLOAT / DOUBLE), none otherwise -/
def cafTable (c : Caf.Cfg) (ty : Ty) (ops : List SOp) : List Caf.Peak :=
  if Caf.isFloat c.codec then cafPeaks (peakAfter (cafEnc c) c.ch ty ops) else []

theorem sessPeaks_cafOps (c : Caf.Cfg) (ty : Ty) (ops : List SOp)
    (hok : Caf.isFloat c.codec = true → PeakOk (cafEnc c) c.ch ty ops) :
    Caf.sessPeaks c (cafOps c (cafEnc c) ty (cafPk0 c) 0 ops) = cafTable c ty ops := by
  rw [Caf.sessPeaks_eq]
  by_cases hf : Caf.isFloat c.codec = true
  · have h0 : Caf.initPeaks c = cafPeaks (cafPk0 c) := by
      simp [Caf.initPeaks, cafPk0, hf, cafPeaks, mkPeaks, List.map_replicate, cafPk]
    have h1 : cafPk0 c = some (mkPeaks c.ch) := by simp [cafPk0, hf]
    rw [h0, caf_foldPeaks_float c (cafEnc c) ty hf ops _ 0 (hok hf), h1]
    simp [cafTable, hf, peakAfter]
  · have hnf : Caf.isFloat c.codec = false := by simpa using hf
    rw [caf_foldPeaks_pcm c hnf]
    simp [cafTable, hnf, Caf.initPeaks]

theorem cafTable_length (c : Caf.Cfg) (ty : Ty) (ops : List SOp) (hf : Caf.isFloat c.codec = true) :
    (cafTable c ty ops).length = c.ch := by
  obtain ⟨q, hq, hl⟩ := caf_peakFrom_length (cafEnc c) (cafEnc_float hf) c.ch ty ops (mkPeaks c.ch) 0 (by simp [mkPeaks])
  simp only [cafTable, hf, if_true, peakAfter, hq]
  rw [cafPeaks_length, hl]

/-- **PEAK value and position of the closed file do not depend on the split** -/
theorem cafTable_partition (c : Caf.Cfg) (hwf : c.wf) (ty : Ty) (ops ops' : List SOp)
    (hok : Caf.isFloat c.codec = true → PeakOk (cafEnc c) c.ch ty ops)
    (hok' : Caf.isFloat c.codec = true → PeakOk (cafEnc c) c.ch ty ops') (h : sData ops = sData ops') :
    cafTable c ty ops = cafTable c ty ops' := by
  unfold cafTable
  by_cases hf : Caf.isFloat c.codec = true
  · simp only [hf, if_true]
    rw [peak_partition (cafEnc c) (cafEnc_float hf) c.ch hwf.2.2.1 ty ops ops' (hok hf) (hok' hf) h]
  · simp [hf]

/-! ## the session machine: the store after a header rewrite -/

/-- the store right after SFC_UPDATE_HEADER_NOW is the header of the whole session followed by its audio -/
theorem caf_store_update (c : Caf.Cfg) (hwf : c.wf) (stale : Int) (pre : List Caf.Op) (hv : ∀ op ∈ pre, op.valid c) :
    (Caf.run c (Caf.openW c stale) (pre ++ [.update])).bytes =
      Caf.hdr c (Caf.sessFrames (pre ++ [.update])) (Caf.sessPeaks c (pre ++ [.update])) ++ Caf.sessData (pre ++ [.update]) := by
  rw [caf_run_append, caf_sessFrames_append, caf_sessData_append]
  have := C04Caf.snapshot_valid_caf c hwf stale pre hv
  simpa [Caf.run, Caf.sessFrames, Caf.sessData, Caf.Op.frames, Caf.Op.data, Caf.sessPeaks_eq, List.foldl_append,
    Caf.nextPeaks] using this

/-- the store right after a write call that transferred something with the auto flag set is the header of the whole session
    followed by its audio -/
theorem caf_store_autowrite (c : Caf.Cfg) (hwf : c.wf) (stale : Int) (pre : List Caf.Op) (hv : ∀ op ∈ pre, op.valid c)
    (k : Nat) (d : List Byte) (p : List Caf.Peak) (hk : k ≠ 0) (hd : d.length = k * c.bw) (hp : p.length = c.ch) :
    (Caf.run c (Caf.openW c stale) (pre ++ [.auto true, .write k d p])).bytes =
      Caf.hdr c (Caf.sessFrames (pre ++ [.auto true, .write k d p])) (Caf.sessPeaks c (pre ++ [.auto true, .write k d p])) ++
        Caf.sessData (pre ++ [.auto true, .write k d p]) := by
  have hsplit : pre ++ [Caf.Op.auto true, .write k d p] = (pre ++ [.auto true]) ++ [.write k d p] := by simp
  have hv2 : ∀ op ∈ pre ++ [Caf.Op.auto true], op.valid c := by
    intro op hop
    rw [List.mem_append] at hop
    rcases hop with hop | hop
    · exact hv op hop
    · simp only [List.mem_cons, List.not_mem_nil, or_false] at hop
      subst hop
      trivial
  have hauto : (Caf.run c (Caf.openW c stale) (pre ++ [.auto true])).auto = true := by
    rw [caf_run_append]; rfl
  have h := C04Caf.auto_write_is_snapshot_caf c hwf stale (pre ++ [.auto true]) hv2 k d p hk hd hp hauto
  have hkb : (k == 0) = false := by simpa using hk
  rw [hsplit, caf_run_append, caf_sessFrames_append, caf_sessData_append]
  simpa [Caf.run, Caf.sessFrames, Caf.sessData, Caf.Op.frames, Caf.Op.data, hkb] using h

/-! ## closed bytes and store as images of the samples -/

theorem cafGuard_valid (c : Caf.Cfg) (hwf : c.wf) (ty : Ty) (ops : List SOp) (hw : cafWhole c.ch ops) :
    ∀ op ∈ cafOps c (cafEnc c) ty (cafPk0 c) 0 ops, op.valid c :=
  cafOps_valid c (cafEnc c) ty (cafEnc_nbytes hwf) hwf.2.2.1 (fun hf => cafEnc_float hf) ops _ 0 hw (cafTableOk_pk0 c)

/-- the closed file of guarded operations is the image of their samples: frames, PEAK table, encoded audio -/
theorem caf_closed_image (c : Caf.Cfg) (hwf : c.wf) (ty : Ty) (st : Nat) (ops : List SOp) (hg : cafGuard c ty ops) :
    (cafCont c).closed ty st ops =
      Caf.image c ((sData ops).length / c.ch) (cafTable c ty ops) ((cafEnc c).encodeAll {} ty (sData ops)) := by
  have hch : 0 < c.ch := hwf.2.2.1
  have hv := cafGuard_valid c hwf ty ops hg.1
  show (Caf.close c (Caf.run c (Caf.openW c (st : Int)) (cafOps c (cafEnc c) ty (cafPk0 c) 0 ops))).bytes = _
  rw [(C04Caf.stale_frames_ignored_caf c hwf _ _ hv).1, sessFrames_cafOps _ _ _ hch ops _ _ hg.1,
    sessData_cafOps _ _ _ ops _ _ hg.1, sessPeaks_cafOps c ty ops hg.2.2]

/-- the store after guarded operations that end in a header rewrite is the header of their samples followed by the encoded
    audio: the closed image without its tailer -/
theorem caf_store_hdr (c : Caf.Cfg) (hwf : c.wf) (ty : Ty) (st : Nat) (ops : List SOp) (hg : cafGuard c ty ops)
    (he : EndsInRewrite ops) :
    (cafCont c).store ty st ops =
      Caf.hdr c ((sData ops).length / c.ch) (cafTable c ty ops) ++ (cafEnc c).encodeAll {} ty (sData ops) := by
  have hch : 0 < c.ch := hwf.2.2.1
  have hnb := cafEnc_nbytes hwf
  have hw := hg.1
  have hvall := cafGuard_valid c hwf ty ops hw
  have key : (Caf.run c (Caf.openW c (st : Int)) (cafOps c (cafEnc c) ty (cafPk0 c) 0 ops)).bytes =
      Caf.hdr c (Caf.sessFrames (cafOps c (cafEnc c) ty (cafPk0 c) 0 ops)) (Caf.sessPeaks c (cafOps c (cafEnc c) ty (cafPk0 c) 0 ops)) ++
        Caf.sessData (cafOps c (cafEnc c) ty (cafPk0 c) 0 ops) := by
    obtain ⟨w, x, e, hx⟩ := he
    subst e
    have hvw := cafGuard_valid c hwf ty w (cafWhole_left hw)
    rw [cafOps_append] at hvall ⊢
    rcases hx with rfl | ⟨xs, hne, rfl⟩
    · exact caf_store_update c hwf _ _ hvw
    · have hmod : xs.length % c.ch = 0 := hw (.write xs true) (by simp)
      simp only [cafOps] at hvall ⊢
      obtain ⟨hd, hp⟩ := hvall (.write (xs.length / c.ch) ((cafEnc c).encodeAll {} ty xs)
        (cafWritePeaks c (Sf.Peak.upd (peakFrom (cafEnc c) c.ch ty (cafPk0 c) 0 w) (cafEnc c) {} c.ch (wposAfter c.ch 0 w) ty xs)))
        (by simp)
      exact caf_store_autowrite c hwf _ _ hvw _ _ _ (caf_frames_ne_zero c.ch xs hne hmod) hd hp
  show (Caf.run c (Caf.openW c (st : Int)) (cafOps c (cafEnc c) ty (cafPk0 c) 0 ops)).bytes = _
  rw [key, sessFrames_cafOps _ _ _ hch ops _ _ hw, sessData_cafOps _ _ _ ops _ _ hw, sessPeaks_cafOps c ty ops hg.2.2]

/-- header ++ encoded samples ++ (at most one byte) re-opens with the requested parameters and all the frames -/
theorem caf_form_parse (c : Caf.Cfg) (hwf : c.wf) (ty : Ty) (xs : List Int) (pk : List Caf.Peak) (tl : List Byte)
    (hmod : xs.length % c.ch = 0) (hsz : xs.length * (cafEnc c).nbytes ≤ 0x7FFFFFFF)
    (hpk : Caf.isFloat c.codec = true → pk.length = c.ch) (htl : tl.length ≤ 1) :
    ∃ i, (cafCont c).parse (Caf.hdr c (xs.length / c.ch) pk ++ (cafEnc c).encodeAll {} ty xs ++ tl) = .ok i ∧
      i.frames = ((cafCont c).enc.encodeAll {} ty xs).length / (cafCont c).bw ∧
      i.ch = (cafCont c).g.ch ∧ i.fmt % 0x10000000 = (cafCont c).g.word % 0x10000000 ∧
      rateOk (cafCont c).g.major (cafCont c).g.sr (i.sr : Int) = true := by
  have hch : 0 < c.ch := hwf.2.2.1
  have hnbw := cafEnc_nbytes hwf
  have hnb : 0 < (cafCont c).enc.nbytes := (encOf_props _ _ _ _ (cafEnc_encOf hwf)).1
  have hd := caf_write_valid c (cafEnc c) ty hnbw hch xs hmod
  have hsz2 : xs.length / c.ch * c.bw ≤ 0x7FFFFFFF := by
    rw [← hd, Enc.encodeAll_length]; exact hsz
  have hp := Caf.parse_hdr_tail c hwf (xs.length / c.ch) pk _ tl hpk hd hsz2 htl
  have hx : xs.length = xs.length / c.ch * (cafCont c).g.ch := by
    show xs.length = xs.length / c.ch * c.ch
    have := Nat.div_add_mod xs.length c.ch
    rw [hmod, Nat.mul_comm] at this
    omega
  have hp2 : (cafCont c).parse (Caf.hdr c (xs.length / c.ch) pk ++ (cafEnc c).encodeAll {} ty xs ++ tl) =
      .ok { ch := c.ch, fmt := (if c.little then 0x10000000 else 0) + 0x180000 + c.codec, sr := c.sr,
            frames := xs.length / c.ch } := by
    rw [cafCont_parse, hp]
    simp [cafRes]
  have hmajor : (cafCont c).g.major = 0x18 := cafGeom_major hwf
  refine ⟨_, hp2, ?_, rfl, ?_, ?_⟩
  · exact (frames_of_samples (cafCont c) hnb hch ty xs _ hx).symm
  · show ((if c.little then 0x10000000 else 0) + 0x180000 + c.codec) % 0x10000000 =
      (c.endian * 0x10000000 + 0x180000 + c.codec) % 0x10000000
    rcases caf_codec_cases hwf with h | h | h | h | h | h | h | h <;> (split <;> omega)
  · rw [hmajor]
    simp [rateOk, rateClass, cafCont, cafGeom]

/-! ## the laws -/

/-- **the CAF model satisfies the laws of a sample-level container** under `cafGuard` -/
theorem caf_slaws (c : Caf.Cfg) (hwf : c.wf) (ty : Ty) : SLaws (cafCont c) ty (cafGuard c ty) := by
  have henc := cafEnc_encOf hwf
  obtain ⟨hnb, hewf⟩ := encOf_props _ _ _ _ henc
  have hcd := caf_codec_cases hwf
  have hcodec : (cafCont c).g.codec = c.codec := cafGeom_codec hwf
  have hmajor : (cafCont c).g.major = 0x18 := cafGeom_major hwf
  have htab : ∀ ops, Caf.isFloat c.codec = true → (cafTable c ty ops).length = c.ch := fun ops => cafTable_length c ty ops
  have htail : ∀ n, (Caf.tail c n).length ≤ 1 := by intro n; unfold Caf.tail; split <;> simp
  refine { chpos := hwf.2.2.1, nb := hnb, wf := hewf,
           block := C04.frames_bound_granular _ _ _ _
             (by rw [hcodec]; rcases hcd with h | h | h | h | h | h | h | h <;> rw [h] <;> simp [Geometry.sampleGranular])
             (by rw [hmajor]; simp),
           notRaw := by rw [hmajor]; simp,
           codec := ⟨!c.little, by rw [hcodec]; exact henc⟩,
           closedForm := ?_, closedParse := ?_, closedFn := ?_, storeForm := ?_, storeParse := ?_ }
  · intro st ops hg
    rw [caf_closed_image c hwf ty st ops hg]
    exact ⟨Caf.hdr c _ _, Caf.tail c _, Caf.hdrRaw_length c _ _ (htab ops), rfl⟩
  · intro st ops hg
    rw [caf_closed_image c hwf ty st ops hg]
    exact caf_form_parse c hwf ty (sData ops) _ _ (cafWhole_sData c.ch ops hg.1) hg.2.1 (htab ops) (htail _)
  · intro a b ops ops' hg hg' e
    rw [caf_closed_image c hwf ty a ops hg, caf_closed_image c hwf ty b ops' hg',
      cafTable_partition c hwf ty ops ops' hg.2.2 hg'.2.2 e, e]
  · intro st ops hg he
    rw [caf_store_hdr c hwf ty st ops hg he]
    exact ⟨Caf.hdr c ((sData ops).length / c.ch) (cafTable c ty ops), [], Caf.hdrRaw_length c _ _ (htab ops),
      (List.append_nil _).symm⟩
  · intro st ops hg he
    rw [caf_store_hdr c hwf ty st ops hg he]
    obtain ⟨i, h1, h2, h3, h4, _⟩ :=
      caf_form_parse c hwf ty (sData ops) _ [] (cafWhole_sData c.ch ops hg.1) hg.2.1 (htab ops) (by simp)
    exact ⟨i, by simpa using h1, h2, h3, h4⟩

/-- the integer and companded configurations: no PEAK chunk, the guard is whole frames and the size guard -/
theorem caf_slaws_pcm (c : Caf.Cfg) (hwf : c.wf) (hnf : Caf.isFloat c.codec = false) (ty : Ty) :
    SLaws (cafCont c) ty (fun ops => cafWhole c.ch ops ∧ (sData ops).length * (cafEnc c).nbytes ≤ 0x7FFFFFFF) := by
  have h := caf_slaws c hwf ty
  have hG : ∀ ops, (cafWhole c.ch ops ∧ (sData ops).length * (cafEnc c).nbytes ≤ 0x7FFFFFFF) → cafGuard c ty ops :=
    fun ops hg => ⟨hg.1, hg.2, fun hf => by rw [hnf] at hf; exact absurd hf (by simp)⟩
  exact { chpos := h.chpos, nb := h.nb, wf := h.wf, block := h.block, notRaw := h.notRaw, codec := h.codec,
          closedForm := fun st ops hg => h.closedForm st ops (hG ops hg),
          closedParse := fun st ops hg => h.closedParse st ops (hG ops hg),
          closedFn := fun a b ops ops' hg hg' e => h.closedFn a b ops ops' (hG ops hg) (hG ops' hg') e,
          storeForm := fun st ops hg he => h.storeForm st ops (hG ops hg) he,
          storeParse := fun st ops hg he => h.storeParse st ops (hG ops hg) he }

end Sf.AbsWriteBridge.Sample
