/-
  Helper lemmas for SfProps/C06Gsm.lean: ranges of the GSM arithmetic layer, lengths and ranges of every stage of the
  decoder (Sf.Gsm, SfModel/Gsm.lean), the decoder state invariant.
-/
import SfModel.Gsm
namespace Sf.Gsm.Proofs
open Sf Sf.Gsm

/-- an `int16_t` value -/
def W16 (x : Int) : Prop := -32768 ≤ x ∧ x ≤ 32767
def AllW16 (l : List Int) : Prop := ∀ x ∈ l, W16 x

theorem pow16 : (2 : Int) ^ 16 = 65536 := by decide

theorem w16_range (x : Int) : W16 (w16 x) := by
  unfold W16 w16 wrapS
  simp only [pow16]
  have h := Int.emod_nonneg x (show (65536 : Int) ≠ 0 by decide)
  have h2 := Int.emod_lt_of_pos x (show (0 : Int) < 65536 by decide)
  split <;> omega

theorem w16_id (x : Int) (h : W16 x) : w16 x = x := by
  unfold W16 at h
  unfold w16 wrapS
  simp only [pow16]
  by_cases hx : 0 ≤ x
  · have : x % 65536 = x := Int.emod_eq_of_lt hx (by omega)
    rw [this]; split <;> omega
  · have : x % 65536 = x + 65536 := by
      have := Int.emod_eq_of_lt (show 0 ≤ x + 65536 by omega) (show x + 65536 < 65536 by omega)
      rw [← this, Int.add_emod_right]
    rw [this]; split <;> omega

theorem add_range (a b : Int) : W16 (add a b) := by
  unfold W16 add; simp only; split
  · omega
  · split <;> omega

theorem sub_range (a b : Int) : W16 (sub a b) := by
  unfold W16 sub; simp only; split
  · omega
  · split <;> omega

theorem sat_range (x : Int) : W16 (sat x) := by
  unfold W16 sat; split
  · omega
  · split <;> omega

theorem gsmMultR_range (a b : Int) : W16 (gsmMultR a b) := by
  unfold gsmMultR
  split
  · unfold W16; omega
  · exact w16_range _

theorem AllW16_nil : AllW16 [] := by intro x h; cases h
theorem AllW16_cons {x : Int} {l : List Int} (hx : W16 x) (hl : AllW16 l) : AllW16 (x :: l) := by
  intro y hy
  cases hy with
  | head => exact hx
  | tail _ h => exact hl y h
theorem AllW16_append {a b : List Int} (ha : AllW16 a) (hb : AllW16 b) : AllW16 (a ++ b) := by
  intro x hx
  rcases List.mem_append.mp hx with h | h
  · exact ha x h
  · exact hb x h
theorem AllW16_take {l : List Int} (n : Nat) (h : AllW16 l) : AllW16 (l.take n) :=
  fun x hx => h x (List.mem_of_mem_take hx)
theorem AllW16_drop {l : List Int} (n : Nat) (h : AllW16 l) : AllW16 (l.drop n) :=
  fun x hx => h x (List.mem_of_mem_drop hx)
theorem AllW16_reverse {l : List Int} (h : AllW16 l) : AllW16 l.reverse :=
  fun x hx => h x (List.mem_reverse.mp hx)
theorem AllW16_replicate (n : Nat) : AllW16 (List.replicate n 0) := by
  intro x hx
  have := List.eq_of_mem_replicate hx
  subst this; unfold W16; omega
theorem AllW16_map_w16 {α} (l : List α) (f : α → Int) : AllW16 (l.map fun a => w16 (f a)) := by
  intro x hx
  obtain ⟨a, _, rfl⟩ := List.mem_map.mp hx
  exact w16_range _
theorem AllW16_zipWith_w16 {α β} (f : α → β → Int) (a : List α) (b : List β) :
    AllW16 (List.zipWith (fun x y => w16 (f x y)) a b) := by
  induction a generalizing b with
  | nil => simp [AllW16_nil]
  | cons x xs ih =>
    cases b with
    | nil => simp [AllW16_nil]
    | cons y ys => simp only [List.zipWith_cons_cons]; exact AllW16_cons (w16_range _) (ih ys)


/-! ## bit fields -/

theorem valLsb_lt (bs : List Bool) : valLsb bs < 2 ^ bs.length := by
  induction bs with
  | nil => simp [valLsb]
  | cons b bs ih => simp only [valLsb, List.length_cons, Nat.pow_succ]; split <;> omega

theorem valMsb_lt (bs : List Bool) : valMsb bs < 2 ^ bs.length := by
  unfold valMsb
  have := valLsb_lt bs.reverse
  simpa using this

theorem fields_length (val : List Bool → Nat) : ∀ (ws : List Nat) (bs : List Bool), (fields val ws bs).length = ws.length := by
  intro ws
  induction ws with
  | nil => intro bs; rfl
  | cons w ws ih => intro bs; simp [fields, ih]

theorem fields_getD (val : List Bool → Nat) (hval : ∀ bs, val bs < 2 ^ bs.length) :
    ∀ (ws : List Nat) (bs : List Bool) (i : Nat), i < ws.length →
      0 ≤ (fields val ws bs).getD i 0 ∧ (fields val ws bs).getD i 0 < ((2 ^ (ws.getD i 0) : Nat) : Int) := by
  intro ws
  induction ws with
  | nil => intro bs i h; simp at h
  | cons w ws ih =>
    intro bs i h
    cases i with
    | zero =>
      simp only [fields, List.getD_cons_zero]
      refine ⟨Int.natCast_nonneg _, ?_⟩
      have h1 := hval (bs.take w)
      have h2 : 2 ^ (bs.take w).length ≤ 2 ^ w := Nat.pow_le_pow_right (by decide) (by rw [List.length_take]; exact Nat.min_le_left _ _)
      exact Int.ofNat_lt.mpr (Nat.lt_of_lt_of_le h1 h2)
    | succ i =>
      simp only [fields, List.getD_cons_succ]
      exact ih (bs.drop w) i (by simpa using h)

theorem expMant_range : ∀ n : Nat, n < 64 →
    (0 ≤ (expMant (n : Int)).2 ∧ (expMant (n : Int)).2 ≤ 7 ∧ -4 ≤ (expMant (n : Int)).1 ∧ (expMant (n : Int)).1 ≤ 6) := by
  decide +kernel


/-! ## parameter invariant: every field is inside its bit width -/

structure SubInv (s : Sub) : Prop where
  nc : 0 ≤ s.nc ∧ s.nc < 128
  bc : 0 ≤ s.bc ∧ s.bc < 4
  mc : 0 ≤ s.mc ∧ s.mc < 4
  xmaxc : 0 ≤ s.xmaxc ∧ s.xmaxc < 64
  xmc_len : s.xmc.length = 13
  xmc_rng : ∀ x ∈ s.xmc, 0 ≤ x ∧ x < 8

structure PInv (p : Params) : Prop where
  larc_len : p.larc.length = 8
  larc_rng : ∀ x ∈ p.larc, 0 ≤ x ∧ x < 64
  subs_len : p.subs.length = 4
  subs : ∀ s ∈ p.subs, SubInv s

theorem pow_cast_lt {x : Int} {w k : Nat} (h : x < ((2 ^ w : Nat) : Int)) (hw : w ≤ k) : x < ((2 ^ k : Nat) : Int) :=
  Int.lt_of_lt_of_le h (Int.ofNat_le.mpr (Nat.pow_le_pow_right (by decide) hw))

theorem mkSub_inv (L : List Int) (b : Nat)
    (hb : ∀ i, i < 76 → 0 ≤ L.getD i 0 ∧ L.getD i 0 < ((2 ^ (fieldWidths.getD i 0) : Nat) : Int))
    (hb0 : b + 17 ≤ 76) (h0 : fieldWidths.getD b 0 = 7) (h1 : fieldWidths.getD (b + 1) 0 = 2)
    (h2 : fieldWidths.getD (b + 2) 0 = 2) (h3 : fieldWidths.getD (b + 3) 0 = 6)
    (h4 : ∀ i, i < 13 → fieldWidths.getD (b + 4 + i) 0 = 3) : SubInv (mkSub L b) := by
  refine ⟨?_, ?_, ?_, ?_, ?_, ?_⟩
  · have := hb b (by omega); rw [h0] at this; exact this
  · have := hb (b + 1) (by omega); rw [h1] at this; exact this
  · have := hb (b + 2) (by omega); rw [h2] at this; exact this
  · have := hb (b + 3) (by omega); rw [h3] at this; exact this
  · simp [mkSub]
  · intro x hx
    simp only [mkSub, List.mem_map, List.mem_range] at hx
    obtain ⟨i, hi, rfl⟩ := hx
    have := hb (b + 4 + i) (by omega); rw [h4 i hi] at this; exact this

theorem mkParams_inv (val : List Bool → Nat) (hval : ∀ bs, val bs < 2 ^ bs.length) (bits : List Bool) :
    PInv (mkParams (fields val fieldWidths bits)) := by
  have hlen : fieldWidths.length = 76 := by decide
  have hb : ∀ i, i < 76 → 0 ≤ (fields val fieldWidths bits).getD i 0 ∧
      (fields val fieldWidths bits).getD i 0 < ((2 ^ (fieldWidths.getD i 0) : Nat) : Int) :=
    fun i hi => fields_getD val hval fieldWidths bits i (by omega)
  refine ⟨by simp [mkParams], ?_, by simp [mkParams], ?_⟩
  · intro x hx
    simp only [mkParams, List.mem_map, List.mem_range] at hx
    obtain ⟨i, hi, rfl⟩ := hx
    have h6 : ∀ i, i < 8 → fieldWidths.getD i 0 ≤ 6 := by decide
    have := hb i (by omega)
    exact ⟨this.1, pow_cast_lt this.2 (h6 i hi)⟩
  · intro s hs
    simp only [mkParams, List.mem_cons, List.mem_nil_iff, or_false] at hs
    rcases hs with rfl | rfl | rfl | rfl
    · exact mkSub_inv _ 8 hb (by decide) (by decide) (by decide) (by decide) (by decide) (by decide)
    · exact mkSub_inv _ 25 hb (by decide) (by decide) (by decide) (by decide) (by decide) (by decide)
    · exact mkSub_inv _ 42 hb (by decide) (by decide) (by decide) (by decide) (by decide) (by decide)
    · exact mkSub_inv _ 59 hb (by decide) (by decide) (by decide) (by decide) (by decide) (by decide)

theorem unpack33_inv (c : List Byte) (p : Params) (h : unpack33 c = some p) : PInv p := by
  unfold unpack33 at h
  split at h
  · cases h
  · cases h; exact mkParams_inv valMsb valMsb_lt _

theorem unpack49a_inv (c : List Byte) : PInv (unpack49a c).1 ∧ (unpack49a c).2 < 16 := by
  unfold unpack49a
  refine ⟨mkParams_inv valLsb valLsb_lt _, ?_⟩
  have := valLsb_lt ((((c.take 33).flatMap bitsLsb).drop 260).take 4)
  have h2 : 2 ^ ((((c.take 33).flatMap bitsLsb).drop 260).take 4).length ≤ 2 ^ 4 :=
    Nat.pow_le_pow_right (by decide) (by rw [List.length_take]; exact Nat.min_le_left _ _)
  exact Nat.lt_of_lt_of_le this h2

theorem unpack49b_inv (chain : Nat) (c : List Byte) : PInv (unpack49b chain c) :=
  mkParams_inv valLsb valLsb_lt _


/-! ## stages of the decoder: lengths and ranges -/

theorem asr_range (a : Int) (k : Nat) (h : W16 a) : W16 (asr a k) := by
  unfold W16 at *
  unfold asr
  have hd : (0 : Int) < 2 ^ k := Int.pow_pos (by decide)
  generalize (2 : Int) ^ k = d at hd
  constructor
  · exact (Int.le_ediv_iff_mul_le hd).mpr (by omega)
  · have : a / d < 32768 := (Int.ediv_lt_iff_lt_mul hd).mpr (by omega)
    omega

theorem gsmAsr_range (a n : Int) (h : W16 a) : W16 (gsmAsr a n) := by
  unfold gsmAsr
  split
  · split <;> (unfold W16; omega)
  · split
    · unfold W16; omega
    · split
      · exact w16_range _
      · exact asr_range a _ h

theorem gridPos_length (mc : Int) (xmp : List Int) : (gridPos mc xmp).length = 40 := by simp [gridPos]

theorem rpeDecode_length (xmaxc mc : Int) (xmc : List Int) : (rpeDecode xmaxc mc xmc).length = 40 := by
  unfold rpeDecode
  split
  exact gridPos_length _ _

theorem nrOf_range (nrp ncr : Int) (h1 : 40 ≤ nrp) (h2 : nrp ≤ 120) : 40 ≤ nrOf nrp ncr ∧ nrOf nrp ncr ≤ 120 := by
  unfold nrOf; split <;> omega

theorem ltSynth_spec (hist : List Int) (nr bcr : Int) (erp : List Int) (hl : hist.length = 120) (h1 : 40 ≤ nr) (h2 : nr ≤ 120)
    (he : erp.length = 40) (hw : AllW16 hist) :
    (ltSynth hist nr bcr erp).1.length = 120 ∧ AllW16 (ltSynth hist nr bcr erp).1 ∧
    (ltSynth hist nr bcr erp).2.length = 40 ∧ AllW16 (ltSynth hist nr bcr erp).2 := by
  unfold ltSynth
  simp only
  have hk : (120 - nr).toNat ≤ 80 := by omega
  have hlen : (List.zipWith (fun e d => w16 (add e (w16 (multR (tab tabQLB bcr) d)))) erp
      (List.take 40 (List.drop (120 - nr).toNat hist))).length = 40 := by
    rw [List.length_zipWith, List.length_take, List.length_drop, he, hl]; omega
  refine ⟨?_, ?_, hlen, AllW16_zipWith_w16 _ _ _⟩
  · rw [List.length_drop, List.length_append, hlen, hl]
  · exact AllW16_drop _ (AllW16_append hw (AllW16_zipWith_w16 _ _ _))

theorem subLoop_spec : ∀ (subs : List Sub) (nrp : Int) (hist : List Int), hist.length = 120 → 40 ≤ nrp → nrp ≤ 120 →
    AllW16 hist →
    40 ≤ (subLoop subs nrp hist).1 ∧ (subLoop subs nrp hist).1 ≤ 120 ∧ (subLoop subs nrp hist).2.1.length = 120 ∧
    AllW16 (subLoop subs nrp hist).2.1 ∧ (subLoop subs nrp hist).2.2.length = 40 * subs.length ∧
    AllW16 (subLoop subs nrp hist).2.2 := by
  intro subs
  induction subs with
  | nil => intro nrp hist hl h1 h2 hw; exact ⟨h1, h2, hl, hw, rfl, AllW16_nil⟩
  | cons sb rest ih =>
    intro nrp hist hl h1 h2 hw
    obtain ⟨n1, n2⟩ := nrOf_range nrp sb.nc h1 h2
    obtain ⟨a1, a2, a3, a4⟩ := ltSynth_spec hist (nrOf nrp sb.nc) sb.bc (rpeDecode sb.xmaxc sb.mc sb.xmc) hl n1 n2
      (rpeDecode_length _ _ _) hw
    obtain ⟨b1, b2, b3, b4, b5, b6⟩ := ih (nrOf nrp sb.nc) _ a1 n1 n2 a2
    simp only [subLoop]
    refine ⟨b1, b2, b3, b4, ?_, AllW16_append a4 b6⟩
    rw [List.length_append, a3, b5, List.length_cons]; omega

theorem synStep_spec : ∀ (ps : List (Int × Int)) (sri : Int), W16 sri →
    W16 (synStep ps sri).1 ∧ (synStep ps sri).2.length = ps.length ∧ AllW16 (synStep ps sri).2 := by
  intro ps
  induction ps with
  | nil => intro sri h; exact ⟨h, rfl, AllW16_nil⟩
  | cons p rest ih =>
    intro sri _
    obtain ⟨r, vi⟩ := p
    simp only [synStep]
    obtain ⟨c1, c2, c3⟩ := ih (w16 (sub sri (gsmMultR r vi))) (w16_range _)
    exact ⟨c1, by simp [c2], AllW16_cons (w16_range _) c3⟩

theorem synFilter_spec (rrp : List Int) (hr : rrp.length = 8) : ∀ (wt v : List Int), v.length = 9 → AllW16 v → AllW16 wt →
    (synFilter rrp v wt).1.length = 9 ∧ AllW16 (synFilter rrp v wt).1 ∧ (synFilter rrp v wt).2.length = wt.length ∧
    AllW16 (synFilter rrp v wt).2 := by
  intro wt
  induction wt with
  | nil => intro v hv hw _; exact ⟨hv, hw, rfl, AllW16_nil⟩
  | cons w ws ih =>
    intro v hv _ hwt
    have hw : W16 w := hwt w (List.mem_cons_self ..)
    have hws : AllW16 ws := fun x hx => hwt x (List.mem_cons_of_mem _ hx)
    obtain ⟨c1, c2, c3⟩ := synStep_spec ((rrp.zip v).reverse) w hw
    have hz : ((rrp.zip v).reverse).length = 8 := by rw [List.length_reverse, List.length_zip, hr, hv]; rfl
    obtain ⟨d1, d2, d3, d4⟩ := ih ((synStep ((rrp.zip v).reverse) w).1 :: (synStep ((rrp.zip v).reverse) w).2.reverse)
      (by simp [c2, hz]) (AllW16_cons c1 (AllW16_reverse c3)) hws
    simp only [synFilter]
    exact ⟨d1, d2, by simp [d3], AllW16_cons c1 d4⟩

theorem larStep_range (a b c d : Int) : W16 (larStep a b c d) := by unfold larStep; exact w16_range _

theorem decodeLar_spec (larc : List Int) : (decodeLar larc).length = 8 ∧ AllW16 (decodeLar larc) := by
  refine ⟨by simp [decodeLar], ?_⟩
  intro x hx
  simp only [decodeLar, List.mem_map] at hx
  obtain ⟨i, _, rfl⟩ := hx
  exact larStep_range _ _ _ _

theorem postproc_spec : ∀ (l : List Int) (msr : Int), W16 msr →
    W16 (postproc msr l).1 ∧ (postproc msr l).2.length = l.length ∧ AllW16 (postproc msr l).2 := by
  intro l
  induction l with
  | nil => intro msr h; exact ⟨h, rfl, AllW16_nil⟩
  | cons s ss ih =>
    intro msr _
    simp only [postproc]
    obtain ⟨c1, c2, c3⟩ := ih (w16 (add s (w16 (multR msr 28180)))) (w16_range _)
    exact ⟨c1, by simp [c2], AllW16_cons (w16_range _) c3⟩


/-! ## the decoder state invariant -/

structure SInv (st : State) : Prop where
  dp0_len : st.dp0.length = 280
  dp0_w   : AllW16 st.dp0
  v_len   : st.v.length = 9
  v_w     : AllW16 st.v
  msr_w   : W16 st.msr
  l0_len  : st.larpp0.length = 8
  l0_w    : AllW16 st.larpp0
  l1_len  : st.larpp1.length = 8
  l1_w    : AllW16 st.larpp1
  j_le    : st.j ≤ 1
  nrp_lo  : 40 ≤ st.nrp
  nrp_hi  : st.nrp ≤ 120
  fi_le   : st.frameIndex ≤ 1
  chain_lt : st.frameChain < 16

theorem W16_zero : W16 0 := by unfold W16; omega

theorem SInv_init : SInv State.init :=
  ⟨List.length_replicate .., AllW16_replicate _, List.length_replicate .., AllW16_replicate _, W16_zero, List.length_replicate ..,
    AllW16_replicate _, List.length_replicate .., AllW16_replicate _, Nat.zero_le _, by decide, by decide, Nat.zero_le _, by decide⟩

theorem SInv_initWav : SInv State.initWav :=
  ⟨List.length_replicate .., AllW16_replicate _, List.length_replicate .., AllW16_replicate _, W16_zero, List.length_replicate ..,
    AllW16_replicate _, List.length_replicate .., AllW16_replicate _, Nat.zero_le _, by decide, by decide, Nat.zero_le _, by decide⟩

theorem coeff_len (f : Int → Int → Int) (p c : List Int) (hp : p.length = 8) (hc : c.length = 8) :
    ((List.zipWith f p c).map larpToRp).length = 8 := by
  rw [List.length_map, List.length_zipWith, hp, hc]; rfl

theorem shortTermSynth_spec (st : State) (larcr wt : List Int) (inv : SInv st) (hwt : wt.length = 160) (hw : AllW16 wt) :
    SInv (shortTermSynth st larcr wt).1 ∧ (shortTermSynth st larcr wt).2.length = 160 ∧
    AllW16 (shortTermSynth st larcr wt).2 ∧ (shortTermSynth st larcr wt).1.msr = st.msr := by
  obtain ⟨cl, cw⟩ := decodeLar_spec larcr
  have hprev : (if st.j = 0 then st.larpp1 else st.larpp0).length = 8 := by split; exact inv.l1_len; exact inv.l0_len
  generalize hpv : (if st.j = 0 then st.larpp1 else st.larpp0) = prev at hprev
  have r1 : ((coeff0_12 prev (decodeLar larcr)).map larpToRp).length = 8 := coeff_len _ _ _ hprev cl
  have r2 : ((coeff13_26 prev (decodeLar larcr)).map larpToRp).length = 8 := coeff_len _ _ _ hprev cl
  have r3 : ((coeff27_39 prev (decodeLar larcr)).map larpToRp).length = 8 := coeff_len _ _ _ hprev cl
  have r4 : ((decodeLar larcr).map larpToRp).length = 8 := by rw [List.length_map, cl]
  obtain ⟨a1, a2, a3, a4⟩ := synFilter_spec _ r1 (wt.take 13) st.v inv.v_len inv.v_w (AllW16_take _ hw)
  obtain ⟨b1, b2, b3, b4⟩ := synFilter_spec _ r2 ((wt.drop 13).take 14) _ a1 a2 (AllW16_take _ (AllW16_drop _ hw))
  obtain ⟨c1, c2, c3, c4⟩ := synFilter_spec _ r3 ((wt.drop 27).take 13) _ b1 b2 (AllW16_take _ (AllW16_drop _ hw))
  obtain ⟨d1, d2, d3, d4⟩ := synFilter_spec _ r4 ((wt.drop 40).take 120) _ c1 c2 (AllW16_take _ (AllW16_drop _ hw))
  unfold shortTermSynth
  simp only [hpv]
  refine ⟨?_, ?_, AllW16_append (AllW16_append (AllW16_append a4 b4) c4) d4, ?_⟩
  · by_cases hj : st.j = 0
    · simp only [hj, if_true]
      exact ⟨inv.dp0_len, inv.dp0_w, d1, d2, inv.msr_w, cl, cw, inv.l1_len, inv.l1_w, Nat.le_refl 1, inv.nrp_lo, inv.nrp_hi,
        inv.fi_le, inv.chain_lt⟩
    · simp only [hj, if_false]
      exact ⟨inv.dp0_len, inv.dp0_w, d1, d2, inv.msr_w, inv.l0_len, inv.l0_w, cl, cw, Nat.zero_le 1, inv.nrp_lo, inv.nrp_hi,
        inv.fi_le, inv.chain_lt⟩
  · simp only [List.length_append, a3, b3, c3, d3, List.length_take, List.length_drop, hwt]; rfl
  · by_cases hj : st.j = 0 <;> simp [hj]

theorem decodeParams_spec (st : State) (p : Params) (inv : SInv st) (pi : PInv p) :
    SInv (decodeParams st p).1 ∧ (decodeParams st p).2.length = 160 ∧ AllW16 (decodeParams st p).2 := by
  have hh : (st.dp0.take 120).length = 120 := by rw [List.length_take, inv.dp0_len]; rfl
  obtain ⟨a1, a2, a3, a4, a5, a6⟩ := subLoop_spec p.subs st.nrp (st.dp0.take 120) hh inv.nrp_lo inv.nrp_hi (AllW16_take _ inv.dp0_w)
  rw [pi.subs_len] at a5
  generalize hsl : subLoop p.subs st.nrp (st.dp0.take 120) = sl at a1 a2 a3 a4 a5 a6
  obtain ⟨nrp, hist1, wt⟩ := sl
  simp only at a1 a2 a3 a4 a5 a6
  have inv1 : SInv { st with nrp := nrp, dp0 := hist1 ++ hist1.drop 80 ++ st.dp0.drop 160 } := by
    refine ⟨?_, AllW16_append (AllW16_append a4 (AllW16_drop _ a4)) (AllW16_drop _ inv.dp0_w), inv.v_len, inv.v_w, inv.msr_w,
      inv.l0_len, inv.l0_w, inv.l1_len, inv.l1_w, inv.j_le, a1, a2, inv.fi_le, inv.chain_lt⟩
    simp only [List.length_append, List.length_drop, a3, inv.dp0_len]
  obtain ⟨b1, b2, b3, b4⟩ := shortTermSynth_spec _ p.larc wt inv1 a5 a6
  unfold decodeParams
  simp only [hsl]
  generalize hst : shortTermSynth { st with nrp := nrp, dp0 := hist1 ++ hist1.drop 80 ++ st.dp0.drop 160 } p.larc wt = sts at b1 b2 b3 b4
  obtain ⟨st2, s⟩ := sts
  simp only at b1 b2 b3 b4
  obtain ⟨c1, c2, c3⟩ := postproc_spec s st2.msr b1.msr_w
  generalize hpp : postproc st2.msr s = pp at c1 c2 c3
  obtain ⟨msr, out⟩ := pp
  simp only at c1 c2 c3 ⊢
  exact ⟨⟨b1.dp0_len, b1.dp0_w, b1.v_len, b1.v_w, c1, b1.l0_len, b1.l0_w, b1.l1_len, b1.l1_w, b1.j_le, b1.nrp_lo, b1.nrp_hi,
    b1.fi_le, b1.chain_lt⟩, by rw [c2, b2], c3⟩

/-- `gsm_decode` keeps the invariant for EVERY input frame, and what it delivers is 160 `int16_t` values -/
theorem gsmDecode_spec (st : State) (c : List Byte) (inv : SInv st) :
    SInv (gsmDecode st c).1 ∧ ∀ o, (gsmDecode st c).2 = some o → o.length = 160 ∧ AllW16 o := by
  unfold gsmDecode
  by_cases hw : st.wavFmt = true
  · rw [if_pos hw]
    by_cases hf : 1 - st.frameIndex = 1
    · simp only [if_pos hf]
      obtain ⟨p1, p2⟩ := unpack49a_inv c
      generalize unpack49a c = u at p1 p2
      obtain ⟨p, chain⟩ := u
      simp only at p1 p2 ⊢
      have inv1 : SInv { st with frameIndex := 1 - st.frameIndex, frameChain := chain } :=
        ⟨inv.dp0_len, inv.dp0_w, inv.v_len, inv.v_w, inv.msr_w, inv.l0_len, inv.l0_w, inv.l1_len, inv.l1_w, inv.j_le, inv.nrp_lo,
          inv.nrp_hi, Nat.sub_le 1 _, p2⟩
      obtain ⟨a1, a2, a3⟩ := decodeParams_spec _ p inv1 p1
      refine ⟨a1, ?_⟩
      intro o ho; have h := Option.some.inj ho; rw [← h]; exact ⟨a2, a3⟩
    · simp only [if_neg hf]
      have inv1 : SInv { st with frameIndex := 1 - st.frameIndex } :=
        ⟨inv.dp0_len, inv.dp0_w, inv.v_len, inv.v_w, inv.msr_w, inv.l0_len, inv.l0_w, inv.l1_len, inv.l1_w, inv.j_le, inv.nrp_lo,
          inv.nrp_hi, Nat.sub_le 1 _, inv.chain_lt⟩
      obtain ⟨a1, a2, a3⟩ := decodeParams_spec _ _ inv1 (unpack49b_inv st.frameChain c)
      refine ⟨a1, ?_⟩
      intro o ho; have h := Option.some.inj ho; rw [← h]; exact ⟨a2, a3⟩
  · rw [if_neg hw]
    cases hu : unpack33 c with
    | none => exact ⟨inv, by intro o ho; cases ho⟩
    | some p =>
      obtain ⟨a1, a2, a3⟩ := decodeParams_spec st p inv (unpack33_inv c p hu)
      refine ⟨a1, ?_⟩
      intro o ho; have h := Option.some.inj ho; rw [← h]; exact ⟨a2, a3⟩

end Sf.Gsm.Proofs
