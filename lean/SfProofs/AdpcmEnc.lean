/-
  Helper lemmas for SfProps/C07Adpcm.lean: whole-frame decomposition of an item list, lengths of the packers and encode loops,
  ranges of the IMA quantiser and of `choose_predictor`, the legal writer geometries, block length of the three encoders, the
  writer invariant over a fold of frames (position in the block, blocks out, block length, buffer lengths, encoder ranges).
-/
import SfModel.AdpcmFile
import SfProofs.BlockWriter
namespace Sf.AdpcmEnc.Proofs
open Sf Sf.Adpcm Sf.AdpcmEnc Sf.Block Sf.Block.Proofs Sf.Float

/-! ## items as whole frames -/

/-- the first `k` frames of `ch` items each -/
def toFrames (ch : Nat) : Nat → List Int → List (List Int)
  | 0, _ => []
  | k + 1, xs => xs.take ch :: toFrames ch k (xs.drop ch)

theorem toFrames_spec (ch : Nat) : ∀ (k : Nat) (xs : List Int), xs.length = k * ch →
    (toFrames ch k xs).flatten = xs ∧ Uniform ch (toFrames ch k xs) ∧ (toFrames ch k xs).length = k := by
  intro k
  induction k with
  | zero =>
    intro xs h
    have : xs = [] := List.length_eq_zero_iff.mp (by simpa using h)
    subst this
    exact ⟨rfl, fun f hf => by simp [toFrames] at hf, rfl⟩
  | succ k ih =>
    intro xs h
    have hl : (xs.drop ch).length = k * ch := by rw [List.length_drop, h, Nat.succ_mul]; omega
    obtain ⟨h1, h2, h3⟩ := ih (xs.drop ch) hl
    refine ⟨?_, ?_, ?_⟩
    · simp only [toFrames, List.flatten_cons, h1, List.take_append_drop]
    · intro f hf
      simp only [toFrames, List.mem_cons] at hf
      rcases hf with rfl | hf
      · rw [List.length_take, h, Nat.succ_mul]; omega
      · exact h2 f hf
    · simp only [toFrames, List.length_cons, h3]

/-- frames of a list whose length is a multiple of `ch` -/
def framesOf (ch : Nat) (xs : List Int) : List (List Int) := toFrames ch (xs.length / ch) xs

theorem framesOf_spec (ch : Nat) (xs : List Int) (h : xs.length % ch = 0) :
    (framesOf ch xs).flatten = xs ∧ Uniform ch (framesOf ch xs) ∧ (framesOf ch xs).length = xs.length / ch := by
  apply toFrames_spec
  have := Nat.div_add_mod xs.length ch
  rw [h, Nat.add_zero, Nat.mul_comm] at this
  exact this.symm

theorem framesOf_map (ch : Nat) (f : Int → Int) : ∀ (k : Nat) (xs : List Int),
    toFrames ch k (xs.map f) = (toFrames ch k xs).map (fun fr => fr.map f) := by
  intro k
  induction k with
  | zero => intro xs; rfl
  | succ k ih => intro xs; simp only [toFrames, List.map_cons, ← List.map_take, ← List.map_drop, ih]

/-- two lists of whole frames with the same items are the same list of frames -/
theorem uniform_flatten_inj (ch : Nat) (hch : 0 < ch) : ∀ (a b : List (List Int)), Uniform ch a → Uniform ch b →
    a.flatten = b.flatten → a = b := by
  intro a
  induction a with
  | nil =>
    intro b _ hb h
    cases b with
    | nil => rfl
    | cons f fs =>
      have := (uniform_cons hb).1
      have h2 : (f :: fs).flatten.length = 0 := by rw [← h]; rfl
      simp only [List.flatten_cons, List.length_append] at h2
      omega
  | cons f fs ih =>
    intro b ha hb h
    obtain ⟨hf, hfs⟩ := uniform_cons ha
    cases b with
    | nil =>
      have h2 : (f :: fs).flatten.length = 0 := by rw [h]; rfl
      simp only [List.flatten_cons, List.length_append] at h2
      omega
    | cons g gs =>
      obtain ⟨hg, hgs⟩ := uniform_cons hb
      simp only [List.flatten_cons] at h
      have h1 : f = g := by
        have := congrArg (List.take ch) h
        rwa [List.take_left' hf, List.take_left' hg] at this
      subst h1
      have h2 : fs.flatten = gs.flatten := List.append_cancel_left h
      rw [ih gs hfs hgs h2]

/-! ## arithmetic of "position in block / blocks out" -/

theorem step_divmod (spb m : Nat) (h : 0 < spb) :
    (m % spb + 1 ≥ spb → (m + 1) % spb = 0 ∧ (m + 1) / spb = m / spb + 1) ∧
    (¬ m % spb + 1 ≥ spb → (m + 1) % spb = m % spb + 1 ∧ (m + 1) / spb = m / spb) := by
  have hdm := Nat.div_add_mod m spb
  have hlt := Nat.mod_lt m h
  generalize m / spb = q at hdm ⊢
  generalize m % spb = r at hdm hlt ⊢
  constructor
  · intro hge
    have hr : r + 1 = spb := by omega
    have hm : m + 1 = spb * (q + 1) := by rw [Nat.mul_add, Nat.mul_one, ← hdm]; omega
    rw [hm]
    exact ⟨Nat.mul_mod_right _ _, Nat.mul_div_cancel_left _ h⟩
  · intro hlt2
    have hm : m + 1 = spb * q + (r + 1) := by omega
    rw [hm]
    constructor
    · rw [Nat.mul_add_mod]; exact Nat.mod_eq_of_lt (by omega)
    · rw [Nat.mul_add_div h, Nat.div_eq_of_lt (by omega)]; rfl

theorem ceil_blocks (spb n : Nat) (h : 0 < spb) :
    (n + (spb - 1)) / spb = if n % spb = 0 then n / spb else n / spb + 1 := by
  have hdm := Nat.div_add_mod n spb
  have hlt := Nat.mod_lt n h
  generalize n / spb = q at hdm ⊢
  generalize n % spb = r at hdm hlt ⊢
  by_cases hr : r = 0
  · rw [if_pos hr]
    have : n + (spb - 1) = spb * q + (spb - 1) := by omega
    rw [this, Nat.mul_add_div h, Nat.div_eq_of_lt (by omega)]; rfl
  · rw [if_neg hr]
    have : n + (spb - 1) = spb * (q + 1) + (r - 1) := by rw [Nat.mul_add, Nat.mul_one]; omega
    rw [this, Nat.mul_add_div h, Nat.div_eq_of_lt (by omega)]

/-! ## IMA quantiser and step: ranges for EVERY input -/

theorem quantBit_code (mask : Nat) (s : Nat × Int × Int × Int) : (quantBit mask s).1 ≤ s.1 + mask := by
  unfold quantBit
  split <;> simp only <;> omega

theorem imaQuant_code_lt (step diff : Int) : (imaQuant step diff).1 < 16 := by
  unfold imaQuant
  simp only
  have h0 : (if diff < 0 then ((8 : Nat), -diff, asr step 3, step) else (0, diff, asr step 3, step)).1 ≤ 8 := by
    split <;> simp
  generalize (if diff < 0 then ((8 : Nat), -diff, asr step 3, step) else (0, diff, asr step 3, step)) = s0 at h0
  have h1 := quantBit_code 4 s0
  have h2 := quantBit_code 2 (quantBit 4 s0)
  have h3 := quantBit_code 1 (quantBit 2 (quantBit 4 s0))
  omega

theorem clamp16_range (x : Int) : -32768 ≤ clamp16 x ∧ clamp16 x ≤ 32767 := by
  unfold clamp16
  split
  · omega
  · split <;> omega

theorem clampIdx_range (x : Int) : 0 ≤ clampImaStepIndex x ∧ clampImaStepIndex x ≤ 88 := by
  unfold clampImaStepIndex
  split
  · omega
  · split <;> omega

/-- the step index is inside `ima_step_size` -/
structure IdxOk (c : Ch) : Prop where
  lo : 0 ≤ c.idx
  hi : c.idx ≤ 88

theorem idxOk_init : IdxOk {} := ⟨by decide, by decide⟩

/-- whatever the state and the sample: the new index is inside the table, the new predictor a `short`, the code a nibble -/
theorem imaStep_ok (c : Ch) (x : Int) :
    IdxOk (imaStep c x).1 ∧ (-32768 ≤ (imaStep c x).1.prev ∧ (imaStep c x).1.prev ≤ 32767) ∧ (imaStep c x).2 < 16 := by
  unfold imaStep
  simp only
  exact ⟨⟨(clampIdx_range _).1, (clampIdx_range _).2⟩, clamp16_range _, imaQuant_code_lt _ _⟩

theorem imaRun_ok : ∀ (xs : List Int) (c : Ch), IdxOk c → IdxOk (imaRun c xs).1 ∧ (∀ k ∈ (imaRun c xs).2, k < 16) ∧
    (imaRun c xs).2.length = xs.length := by
  intro xs
  induction xs with
  | nil => intro c h; exact ⟨h, fun k hk => by simp [imaRun] at hk, rfl⟩
  | cons x xs ih =>
    intro c _
    obtain ⟨h1, _, h2⟩ := imaStep_ok c x
    obtain ⟨h3, h4, h5⟩ := ih (imaStep c x).1 h1
    simp only [imaRun]
    refine ⟨h3, ?_, by simp only [List.length_cons, h5]⟩
    intro k hk
    rcases List.mem_cons.mp hk with rfl | hk
    · exact h2
    · exact h4 k hk

theorem wavEncLoop_ok (channels : Nat) : ∀ (xs : List Int) (k : Nat) (st : Ch × Ch), IdxOk st.1 → IdxOk st.2 →
    IdxOk (wavEncLoop channels k xs st).1.1 ∧ IdxOk (wavEncLoop channels k xs st).1.2 ∧
    (∀ c ∈ (wavEncLoop channels k xs st).2, c < 16) ∧ (wavEncLoop channels k xs st).2.length = xs.length := by
  intro xs
  induction xs with
  | nil => intro k st h1 h2; exact ⟨h1, h2, fun c hc => by simp [wavEncLoop] at hc, rfl⟩
  | cons x xs ih =>
    intro k st h1 h2
    simp only [wavEncLoop]
    by_cases hc : (if channels > 1 then k % 2 else 0) = 0
    · simp only [hc, if_true]
      obtain ⟨a1, _, a2⟩ := imaStep_ok st.1 x
      obtain ⟨b1, b2, b3, b4⟩ := ih (k + 1) ((imaStep st.1 x).1, st.2) a1 h2
      refine ⟨b1, b2, ?_, by simp only [List.length_cons, b4]⟩
      intro c hcm
      rcases List.mem_cons.mp hcm with rfl | hcm
      · exact a2
      · exact b3 c hcm
    · simp only [hc, if_false]
      obtain ⟨a1, _, a2⟩ := imaStep_ok st.2 x
      obtain ⟨b1, b2, b3, b4⟩ := ih (k + 1) (st.1, (imaStep st.2 x).1) h1 a1
      refine ⟨b1, b2, ?_, by simp only [List.length_cons, b4]⟩
      intro c hcm
      rcases List.mem_cons.mp hcm with rfl | hcm
      · exact a2
      · exact b3 c hcm

/-! ## packers: lengths -/

theorem wavPack1_length : ∀ (l : List Nat), (wavPack1 l).length = l.length / 2
  | [] => rfl
  | [_] => by simp [wavPack1]
  | _ :: _ :: rest => by
    simp only [wavPack1, List.length_cons, wavPack1_length rest]
    omega

theorem aiffPack_length : ∀ (l : List Nat), (aiffPack l).length = (l.length + 1) / 2
  | [] => rfl
  | [_] => by simp [aiffPack]
  | _ :: _ :: rest => by
    simp only [aiffPack, List.length_cons, aiffPack_length rest]
    omega

theorem msPack_length : ∀ (l : List Nat), (msPack l).length = l.length / 2
  | [] => rfl
  | [_] => by simp [msPack]
  | _ :: _ :: rest => by
    simp only [msPack, List.length_cons, msPack_length rest]
    omega

theorem exists16 {α : Type} (l : List α) (h : 16 ≤ l.length) :
    ∃ a0 a1 a2 a3 a4 a5 a6 a7 a8 a9 a10 a11 a12 a13 a14 a15 rest,
      l = a0 :: a1 :: a2 :: a3 :: a4 :: a5 :: a6 :: a7 :: a8 :: a9 :: a10 :: a11 :: a12 :: a13 :: a14 :: a15 :: rest := by
  match l, h with
  | a0 :: a1 :: a2 :: a3 :: a4 :: a5 :: a6 :: a7 :: a8 :: a9 :: a10 :: a11 :: a12 :: a13 :: a14 :: a15 :: rest, _ =>
    exact ⟨a0, a1, a2, a3, a4, a5, a6, a7, a8, a9, a10, a11, a12, a13, a14, a15, rest, rfl⟩
  | [], h | [_], h | [_, _], h | [_, _, _], h | [_, _, _, _], h | [_, _, _, _, _], h | [_, _, _, _, _, _], h
  | [_, _, _, _, _, _, _], h | [_, _, _, _, _, _, _, _], h | [_, _, _, _, _, _, _, _, _], h
  | [_, _, _, _, _, _, _, _, _, _], h | [_, _, _, _, _, _, _, _, _, _, _], h | [_, _, _, _, _, _, _, _, _, _, _, _], h
  | [_, _, _, _, _, _, _, _, _, _, _, _, _], h | [_, _, _, _, _, _, _, _, _, _, _, _, _, _], h
  | [_, _, _, _, _, _, _, _, _, _, _, _, _, _, _], h => simp at h

theorem wavPack2_length : ∀ (m : Nat) (l : List Nat), l.length = 16 * m → (wavPack2 l).length = 8 * m := by
  intro m
  induction m with
  | zero =>
    intro l h
    have : l = [] := List.length_eq_zero_iff.mp (by simpa using h)
    subst this; rfl
  | succ m ih =>
    intro l h
    obtain ⟨a0, a1, a2, a3, a4, a5, a6, a7, a8, a9, a10, a11, a12, a13, a14, a15, rest, rfl⟩ := exists16 l (by omega)
    simp only [List.length_cons] at h
    simp only [wavPack2, List.length_append, List.length_cons, List.length_nil, ih rest (by omega)]
    omega

/-! ## MS: ranges -/

theorem msChooseLoop_bpred (channels : Nat) (data : List Int) : ∀ (fuel bpred : Nat) (best : Nat × Nat),
    (msChooseLoop channels data fuel bpred best).1 < bpred + fuel ∨ msChooseLoop channels data fuel bpred best = best := by
  intro fuel
  induction fuel with
  | zero => intro b best; right; rfl
  | succ fuel ih =>
    intro b best
    simp only [msChooseLoop]
    split
    · left; simp only; omega
    · rcases ih (b + 1) (if b = 0 ∨ msTrial channels b data < best.2 then (b, msTrial channels b data) else best) with h | h
      · left; omega
      · rw [h]
        split
        · left; simp only; omega
        · right; rfl

/-- **the chosen predictor is one of the 7 coefficient pairs, the initial delta at least 16** (and below 2^31: it is a sum
    of three absolute values divided by 12) -/
theorem msChoose_range (channels : Nat) (data : List Int) (chan : Nat) :
    (msChoose channels data chan).1 < 7 ∧ 16 ≤ (msChoose channels data chan).2 := by
  unfold msChoose
  simp only
  constructor
  · rcases msChooseLoop_bpred channels data 7 0 (0, 0) with h | h
    · omega
    · rw [h]; decide
  · split <;> omega

theorem wrapU4_lt (e : Int) : wrapU 4 e < 16 := by
  unfold wrapU
  have h1 : (e % (2 ^ 4 : Int)) < 16 := Int.emod_lt_of_pos _ (by decide)
  have h0 : 0 ≤ (e % (2 ^ 4 : Int)) := Int.emod_nonneg _ (by decide)
  omega

/-- one pass: the code is a nibble, the reconstruction a `short` — for every input -/
theorem msStep_ok (channels : Nat) (bpred : Nat × Nat) (k : Nat) (x : Int) (idelta : Int × Int) (hist : List Int) :
    (msStep channels bpred k x idelta hist).2.1 < 16 ∧
    -32768 ≤ (msStep channels bpred k x idelta hist).2.2 ∧ (msStep channels bpred k x idelta hist).2.2 ≤ 32767 := by
  unfold msStep
  simp only
  exact ⟨wrapU4_lt _, (clamp16_range _).1, (clamp16_range _).2⟩

/-- one pass: a delta of at least 16 stays at least 16 (`if (idelta < 16) idelta = 16`) -/
theorem msStep_idelta (channels : Nat) (bpred : Nat × Nat) (k : Nat) (x : Int) (idelta : Int × Int) (hist : List Int) :
    (16 ≤ idelta.1 → 16 ≤ (msStep channels bpred k x idelta hist).1.1) ∧
    (16 ≤ idelta.2 → 16 ≤ (msStep channels bpred k x idelta hist).1.2) := by
  unfold msStep
  simp only
  have hnd : ∀ (v : Int), 16 ≤ (if v < 16 then 16 else v) := by intro v; split <;> omega
  generalize (if channels > 1 then k % 2 else 0) = chan
  by_cases hc : chan = 0
  · simp only [hc, if_true]; exact ⟨fun _ => hnd _, fun h => h⟩
  · simp only [hc, if_false]; exact ⟨fun h => h, fun _ => hnd _⟩

theorem msEncLoop_spec (channels : Nat) (bpred : Nat × Nat) : ∀ (xs : List Int) (k : Nat) (idelta : Int × Int) (hist : List Int),
    (16 ≤ idelta.1 → 16 ≤ (msEncLoop channels bpred k xs idelta hist).1.1) ∧
    (16 ≤ idelta.2 → 16 ≤ (msEncLoop channels bpred k xs idelta hist).1.2) ∧
    (∀ c ∈ (msEncLoop channels bpred k xs idelta hist).2.1, c < 16) ∧
    (msEncLoop channels bpred k xs idelta hist).2.1.length = xs.length ∧
    (msEncLoop channels bpred k xs idelta hist).2.2.length = xs.length ∧
    (∀ s ∈ (msEncLoop channels bpred k xs idelta hist).2.2, -32768 ≤ s ∧ s ≤ 32767) := by
  intro xs
  induction xs with
  | nil =>
    intro k idelta hist
    exact ⟨fun h => h, fun h => h, fun c hc => by simp [msEncLoop] at hc, rfl, rfl, fun s hs => by simp [msEncLoop] at hs⟩
  | cons x xs ih =>
    intro k idelta hist
    obtain ⟨s3, s4, s5⟩ := msStep_ok channels bpred k x idelta hist
    obtain ⟨s1, s2⟩ := msStep_idelta channels bpred k x idelta hist
    obtain ⟨a1, a2, a3, a4, a5, a6⟩ := ih (k + 1) (msStep channels bpred k x idelta hist).1
      ((msStep channels bpred k x idelta hist).2.2 :: hist)
    simp only [msEncLoop]
    refine ⟨fun h => a1 (s1 h), fun h => a2 (s2 h), ?_, by simp only [List.length_cons, a4], by simp only [List.length_cons, a5], ?_⟩
    · intro c hcm
      rcases List.mem_cons.mp hcm with rfl | hcm
      · exact s3
      · exact a3 c hcm
    · intro s hs
      rcases List.mem_cons.mp hs with rfl | hs
      · exact ⟨s4, s5⟩
      · exact a6 s hs

/-! ## the legal writer geometries -/

/-- what `geoOf` produces for 1 and 2 channels, with the block size left general:
    IMA WAV  `m` rounds of 8 samples per channel behind the header sample: blocksize = 4·ch·(m+1), samplesperblock = 8m+1
    IMA AIFF 34-byte packets of 64 samples
    MS       7 header bytes per channel, two samples per following byte -/
def WGeo (g : Geo) : Prop :=
  match g.kind with
  | .imaWav  => (g.ch = 1 ∨ g.ch = 2) ∧ ∃ m, g.ba = 4 * g.ch * (m + 1) ∧ g.spb = 8 * m + 1
  | .imaAiff => (g.ch = 1 ∨ g.ch = 2) ∧ g.ba = 34 ∧ g.spb = 64
  | .ms      => (g.ch = 1 ∧ 7 ≤ g.ba ∧ g.spb = 2 * (g.ba - 6)) ∨ (g.ch = 2 ∧ 14 ≤ g.ba ∧ g.spb = g.ba - 12)

theorem srate2blocksize_cases (p : Nat) :
    Geometry.srate2blocksize p = 256 ∨ Geometry.srate2blocksize p = 512 ∨ Geometry.srate2blocksize p = 1024 ∨
      Geometry.srate2blocksize p = 2048 := by
  unfold Geometry.srate2blocksize
  simp only
  split
  · left; rfl
  · split
    · right; left; rfl
    · split
      · right; right; left; rfl
      · right; right; right; rfl

theorem geoOf_wgeo (kind : Kind) (sr ch : Nat) (hch : ch = 1 ∨ ch = 2) : WGeo (geoOf kind sr ch) := by
  cases kind with
  | imaWav =>
    simp only [geoOf, WGeo]
    refine ⟨hch, ?_⟩
    rcases hch with rfl | rfl <;> rcases srate2blocksize_cases (sr * _) with h | h | h | h <;> rw [h]
    · exact ⟨63, by decide⟩
    · exact ⟨127, by decide⟩
    · exact ⟨255, by decide⟩
    · exact ⟨511, by decide⟩
    · exact ⟨31, by decide⟩
    · exact ⟨63, by decide⟩
    · exact ⟨127, by decide⟩
    · exact ⟨255, by decide⟩
  | imaAiff =>
    simp only [geoOf, WGeo]
    refine ⟨hch, ?_⟩
    rcases hch with rfl | rfl <;> decide
  | ms =>
    simp only [geoOf, WGeo]
    rcases hch with rfl | rfl <;> rcases srate2blocksize_cases (sr * _) with h | h | h | h <;> rw [h] <;> decide

theorem wgeo_pos (g : Geo) (h : WGeo g) : 0 < g.spb ∧ 0 < g.ch ∧ (g.ch = 1 ∨ g.ch = 2) ∧ 0 < g.ba := by
  unfold WGeo at h
  split at h
  · obtain ⟨hc, m, h1, h2⟩ := h
    rcases hc with hc | hc <;> rw [hc] at h1 ⊢ <;> exact ⟨by omega, by omega, by omega, by omega⟩
  · obtain ⟨hc, h1, h2⟩ := h
    rcases hc with hc | hc <;> rw [hc] <;> exact ⟨by omega, by omega, by omega, by omega⟩
  · rcases h with ⟨hc, h1, h2⟩ | ⟨hc, h1, h2⟩ <;> rw [hc] <;> exact ⟨by omega, by omega, by omega, by omega⟩

theorem deinterleave_length (channels chan : Nat) (l : List Int) : (deinterleave channels chan l).length = l.length / channels := by
  simp [deinterleave]

/-! ## block length and buffer length of one encode call -/

theorem imaWav_block_spec (ch m : Nat) (hc : ch = 1 ∨ ch = 2) (st : Ch × Ch) (h1 : IdxOk st.1) (h2 : IdxOk st.2)
    (buf : List Int) (hb : buf.length = (8 * m + 1) * ch) :
    (imaWavEncodeBlock ch (8 * m + 1) st buf).2.1.length = 4 * ch * (m + 1) ∧
    (imaWavEncodeBlock ch (8 * m + 1) st buf).2.2.length = (8 * m + 1) * ch ∧
    IdxOk (imaWavEncodeBlock ch (8 * m + 1) st buf).1.1 ∧ IdxOk (imaWavEncodeBlock ch (8 * m + 1) st buf).1.2 := by
  rcases hc with rfl | rfl
  · have hbody : ((buf.drop 1).take ((8 * m + 1 - 1) * 1)).length = 8 * m := by
      rw [List.length_take, List.length_drop, hb]; omega
    obtain ⟨l1, l2, _, l4⟩ := wavEncLoop_ok 1 ((buf.drop 1).take ((8 * m + 1 - 1) * 1)) 1
      (⟨buf.getD 0 0, st.1.idx⟩, st.2) ⟨h1.lo, h1.hi⟩ h2
    rw [hbody] at l4
    unfold imaWavEncodeBlock
    simp only [Nat.lt_irrefl, if_false, gt_iff_lt]
    generalize wavEncLoop 1 1 ((buf.drop 1).take ((8 * m + 1 - 1) * 1)) (⟨buf.getD 0 0, st.1.idx⟩, st.2) = r at l1 l2 l4
    refine ⟨?_, ?_, l1, l2⟩
    · simp only [List.length_append, wavHeaderBytes, List.length_cons, List.length_nil, wavPack, if_true, wavPack1_length, l4]
      omega
    · simp only [List.length_append, zeros, List.length_replicate, List.length_drop, List.length_take, List.length_map, l4, hb]
      omega
  · have hbody : ((buf.drop 2).take ((8 * m + 1 - 1) * 2)).length = 16 * m := by
      rw [List.length_take, List.length_drop, hb]; omega
    obtain ⟨l1, l2, _, l4⟩ := wavEncLoop_ok 2 ((buf.drop 2).take ((8 * m + 1 - 1) * 2)) 2
      (⟨buf.getD 0 0, st.1.idx⟩, ⟨buf.getD 1 0, st.2.idx⟩) ⟨h1.lo, h1.hi⟩ ⟨h2.lo, h2.hi⟩
    rw [hbody] at l4
    unfold imaWavEncodeBlock
    simp only [show (2 : Nat) > 1 from by decide, if_true]
    generalize wavEncLoop 2 2 ((buf.drop 2).take ((8 * m + 1 - 1) * 2)) (⟨buf.getD 0 0, st.1.idx⟩, ⟨buf.getD 1 0, st.2.idx⟩) = r at l1 l2 l4
    refine ⟨?_, ?_, l1, l2⟩
    · simp only [List.length_append, wavHeaderBytes, List.length_cons, List.length_nil, wavPack,
        show ((2 : Nat) = 1) = False from by simp, if_false, wavPack2_length m r.2 l4]
      omega
    · simp only [List.length_append, zeros, List.length_replicate, List.length_drop, List.length_take, List.length_map, l4, hb]
      omega

theorem aiffChannel_spec (c : Ch) (h : IdxOk c) (xs : List Int) (hx : xs.length = 64) :
    (aiffEncodeChannel c xs).2.length = 34 ∧ IdxOk (aiffEncodeChannel c xs).1 := by
  obtain ⟨r1, _, r3⟩ := imaRun_ok xs c h
  unfold aiffEncodeChannel
  simp only
  refine ⟨?_, r1⟩
  simp only [List.length_append, aiffHeaderBytes, List.length_cons, List.length_nil, aiffPack_length, r3, hx]

theorem imaAiff_block_spec (ch : Nat) (hc : ch = 1 ∨ ch = 2) (st : Ch × Ch) (h1 : IdxOk st.1) (h2 : IdxOk st.2)
    (buf : List Int) (hb : buf.length = 64 * ch) :
    (imaAiffEncodeBlock ch st buf).2.1.length = ch * 34 ∧ (imaAiffEncodeBlock ch st buf).2.2.length = 64 * ch ∧
    IdxOk (imaAiffEncodeBlock ch st buf).1.1 ∧ IdxOk (imaAiffEncodeBlock ch st buf).1.2 := by
  rcases hc with rfl | rfl
  · obtain ⟨a1, a2⟩ := aiffChannel_spec st.1 h1 buf (by omega)
    unfold imaAiffEncodeBlock
    simp only [Nat.lt_irrefl, if_false, gt_iff_lt]
    exact ⟨by rw [a1], hb, a2, h2⟩
  · obtain ⟨a1, a2⟩ := aiffChannel_spec st.1 h1 (deinterleave 2 0 buf) (by rw [deinterleave_length, hb])
    obtain ⟨b1, b2⟩ := aiffChannel_spec st.2 h2 (deinterleave 2 1 buf) (by rw [deinterleave_length, hb])
    unfold imaAiffEncodeBlock
    simp only [show (2 : Nat) > 1 from by decide, if_true]
    exact ⟨by rw [List.length_append, a1, b1], hb, a2, b2⟩

theorem le16_length (x : Int) : (le16 x).length = 2 := rfl

theorem ms_block_spec (ch ba spb : Nat) (hg : (ch = 1 ∧ 7 ≤ ba ∧ spb = 2 * (ba - 6)) ∨ (ch = 2 ∧ 14 ≤ ba ∧ spb = ba - 12))
    (buf : List Int) (hb : buf.length = spb * ch) :
    (msEncodeBlock ch spb buf).1.length = ba ∧ (msEncodeBlock ch spb buf).2.length = spb * ch := by
  rcases hg with ⟨rfl, hba, hspb⟩ | ⟨rfl, hba, hspb⟩
  · have hbody : ((buf.drop (2 * 1)).take ((spb - 2) * 1)).length = spb - 2 := by
      rw [List.length_take, List.length_drop, hb]; omega
    unfold msEncodeBlock
    simp only [if_true]
    obtain ⟨_, _, _, l4, l5, _⟩ := msEncLoop_spec 1 ((msChoose 1 buf 0).1, (if 1 > 1 then msChoose 1 buf 1 else (0, 0)).1)
      ((buf.drop (2 * 1)).take ((spb - 2) * 1)) 2 ((msChoose 1 buf 0).2, (if 1 > 1 then msChoose 1 buf 1 else (0, 0)).2)
      [buf.getD 1 0, buf.getD 0 0]
    rw [hbody] at l4 l5
    generalize msEncLoop 1 ((msChoose 1 buf 0).1, (if 1 > 1 then msChoose 1 buf 1 else (0, 0)).1) 2
      ((buf.drop (2 * 1)).take ((spb - 2) * 1)) ((msChoose 1 buf 0).2, (if 1 > 1 then msChoose 1 buf 1 else (0, 0)).2)
      [buf.getD 1 0, buf.getD 0 0] = r at l4 l5
    constructor
    · simp only [List.length_append, List.length_cons, List.length_nil, le16_length, msPack_length, l4]
      omega
    · simp only [List.length_append, zeros, List.length_replicate, List.length_drop, List.length_take, l5, hb]
      omega
  · have hbody : ((buf.drop (2 * 2)).take ((spb - 2) * 2)).length = (spb - 2) * 2 := by
      rw [List.length_take, List.length_drop, hb]; omega
    unfold msEncodeBlock
    simp only [show ((2 : Nat) = 1) = False from by simp, if_false]
    obtain ⟨_, _, _, l4, l5, _⟩ := msEncLoop_spec 2 ((msChoose 2 buf 0).1, (if 2 > 1 then msChoose 2 buf 1 else (0, 0)).1)
      ((buf.drop (2 * 2)).take ((spb - 2) * 2)) 4 ((msChoose 2 buf 0).2, (if 2 > 1 then msChoose 2 buf 1 else (0, 0)).2)
      [buf.getD 3 0, buf.getD 2 0, buf.getD 1 0, buf.getD 0 0]
    rw [hbody] at l4 l5
    generalize msEncLoop 2 ((msChoose 2 buf 0).1, (if 2 > 1 then msChoose 2 buf 1 else (0, 0)).1) 4
      ((buf.drop (2 * 2)).take ((spb - 2) * 2)) ((msChoose 2 buf 0).2, (if 2 > 1 then msChoose 2 buf 1 else (0, 0)).2)
      [buf.getD 3 0, buf.getD 2 0, buf.getD 1 0, buf.getD 0 0] = r at l4 l5
    constructor
    · simp only [List.length_append, List.length_cons, List.length_nil, le16_length, msPack_length, l4]
      omega
    · simp only [List.length_append, zeros, List.length_replicate, List.length_drop, List.length_take, l5, hb]
      omega

/-- the encoder state a handle can be in: step indices inside the table, the stale buffer of block size -/
structure ESInv (g : Geo) (es : ES) : Prop where
  c0 : IdxOk es.st.1
  c1 : IdxOk es.st.2
  stale : es.stale.length = g.spb * g.ch

theorem esInv_init (g : Geo) : ESInv g (ES.init g) :=
  ⟨idxOk_init, idxOk_init, by simp [ES.init, zeros]⟩

/-- **one encode call**: `blockBytes` bytes, a buffer of the same size left behind, ranges kept — for every buffer content -/
theorem encOf_spec (g : Geo) (hg : WGeo g) (es : ES) (inv : ESInv g es) (buf : List Int) (hb : buf.length = g.spb * g.ch) :
    (encOf g es buf).2.length = g.blockBytes ∧ ESInv g (encOf g es buf).1 := by
  unfold WGeo at hg
  unfold encOf Geo.blockBytes
  split at hg
  · rename_i hk
    obtain ⟨hc, m, hba, hspb⟩ := hg
    rw [hspb] at hb
    obtain ⟨a1, a2, a3, a4⟩ := imaWav_block_spec g.ch m hc es.st inv.c0 inv.c1 buf hb
    simp only [hk, hspb]
    exact ⟨by rw [a1, hba]; simp, ⟨a3, a4, by simp only [a2, hspb]⟩⟩
  · rename_i hk
    obtain ⟨hc, hba, hspb⟩ := hg
    rw [hspb] at hb
    obtain ⟨a1, a2, a3, a4⟩ := imaAiff_block_spec g.ch hc es.st inv.c0 inv.c1 buf hb
    simp only [hk]
    exact ⟨by rw [a1, hba]; simp, ⟨a3, a4, by simp only [a2, hspb]⟩⟩
  · rename_i hk
    obtain ⟨a1, a2⟩ := ms_block_spec g.ch g.ba g.spb hg buf hb
    simp only [hk]
    exact ⟨by rw [a1]; simp, ⟨inv.c0, inv.c1, a2⟩⟩

/-! ## a reader over a data region made of whole blocks -/

theorem flatten_len_const {α : Type} (n : Nat) : ∀ (l : List (List α)), (∀ b ∈ l, b.length = n) → l.flatten.length = l.length * n := by
  intro l
  induction l with
  | nil => intro _; simp
  | cons a l ih =>
    intro h
    rw [List.flatten_cons, List.length_append, h a (by simp), ih (fun b hb => h b (by simp [hb])), List.length_cons, Nat.succ_mul]
    omega

theorem splitBlocksZ_flatten (bsz : Nat) : ∀ (bs : List (List Byte)), (∀ b ∈ bs, b.length = bsz) →
    splitBlocksZ bsz bs.length bs.flatten = bs := by
  intro bs
  induction bs with
  | nil => intro _; rfl
  | cons b bs ih =>
    intro h
    have hb := h b (by simp)
    simp only [List.length_cons, splitBlocksZ, List.flatten_cons]
    rw [List.take_left' hb, List.drop_left' hb, hb, Nat.sub_self, ih (fun c hc => h c (by simp [hc]))]
    simp

/-- over a data region that is the concatenation of whole blocks the generic ADPCM reader finds every block again: block k of
    the stream is the decoder run on block k -/
theorem adpcmReader_blocks (dec : List Byte → List Int) (ch ba spb : Nat) (hba : 0 < ba) (bs : List (List Byte))
    (h : ∀ b ∈ bs, b.length = ba) :
    (adpcmReader dec ch ba spb bs.flatten).frames = spb * bs.length ∧
    ∀ k, k < bs.length → (adpcmReader dec ch ba spb bs.flatten).src k = fixLen (spb * ch) (dec (bs.getD k [])) := by
  have hlen : bs.flatten.length = bs.length * ba := flatten_len_const ba bs h
  have hnb : (if ba = 0 then 0 else if bs.flatten.length % ba ≠ 0 then bs.flatten.length / ba + 1 else bs.flatten.length / ba) = bs.length := by
    rw [if_neg (by omega), hlen, Nat.mul_mod_left, Nat.mul_div_cancel _ hba]; simp
  unfold adpcmReader
  simp only [hnb, splitBlocksZ_flatten ba bs h]
  refine ⟨trivial, ?_⟩
  intro k hk
  simp [hk]

end Sf.AdpcmEnc.Proofs
