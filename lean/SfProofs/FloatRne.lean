/-
  SfProofs.FloatRne — round-half-even on naturals (`rneShr`, `rneScale`): integer facts (core Lean only).
-/
import SfModel.Float
namespace Sf.Float

theorem two_pow_pos' (k : Nat) : 0 < 2 ^ k := Nat.pos_of_ne_zero (by simp)

/-- the two branches of `rneShr`, with quotient and remainder named -/
theorem rneShr_cases (m k : Nat) :
    (rneShr m k = m / 2 ^ k ∧ (2 * (m % 2 ^ k) < 2 ^ k ∨ (2 * (m % 2 ^ k) = 2 ^ k ∧ (m / 2 ^ k) % 2 = 0))) ∨
    (rneShr m k = m / 2 ^ k + 1 ∧ (2 * (m % 2 ^ k) > 2 ^ k ∨ (2 * (m % 2 ^ k) = 2 ^ k ∧ (m / 2 ^ k) % 2 = 1))) := by
  unfold rneShr
  simp only
  split <;> omega

/-- `rneShr m k · 2^k` is within half a unit (2^k / 2) of `m` -/
theorem rneShr_bound (m k : Nat) :
    2 * (rneShr m k * 2 ^ k) ≤ 2 * m + 2 ^ k ∧ 2 * m ≤ 2 * (rneShr m k * 2 ^ k) + 2 ^ k := by
  have hd := two_pow_pos' k
  have hm := Nat.div_add_mod m (2 ^ k)
  have hr := Nat.mod_lt m hd
  rw [Nat.mul_comm] at hm
  rcases rneShr_cases m k with ⟨h, hc⟩ | ⟨h, hc⟩ <;> rw [h] <;> clear h
  · generalize 2 ^ k = d at *
    generalize m / d = q at *
    generalize m % d = r at *
    omega
  · generalize 2 ^ k = d at *
    generalize m / d = q at *
    generalize m % d = r at *
    have e : (q + 1) * d = q * d + d := by rw [Nat.add_mul, Nat.one_mul]
    omega

/-- on a tie the result is even -/
theorem rneShr_tie_even (m k : Nat)
    (h : 2 * (rneShr m k * 2 ^ k) = 2 * m + 2 ^ k ∨ 2 * m = 2 * (rneShr m k * 2 ^ k) + 2 ^ k) :
    rneShr m k % 2 = 0 := by
  have hd := two_pow_pos' k
  have hm := Nat.div_add_mod m (2 ^ k)
  have hr := Nat.mod_lt m hd
  rw [Nat.mul_comm] at hm
  rcases rneShr_cases m k with ⟨h', hc⟩ | ⟨h', hc⟩ <;> rw [h'] at h ⊢ <;> clear h'
  · generalize 2 ^ k = d at *
    generalize m / d = q at *
    generalize m % d = r at *
    omega
  · generalize 2 ^ k = d at *
    generalize m / d = q at *
    generalize m % d = r at *
    have e : (q + 1) * d = q * d + d := by rw [Nat.add_mul, Nat.one_mul]
    omega

/-- `2·|rneShr m k · 2^k − m| ≤ 2^k` (the target statement, over `Int`) -/
theorem rneShr_half_ulp (m k : Nat) :
    2 * ((rneShr m k : Int) * 2 ^ k - m).natAbs ≤ 2 ^ k := by
  have := rneShr_bound m k
  have e : ((rneShr m k : Int) * 2 ^ k) = ((rneShr m k * 2 ^ k : Nat) : Int) := by simp
  rw [e]; omega

theorem rneShr_mono (m₁ m₂ k : Nat) (h : m₁ ≤ m₂) : rneShr m₁ k ≤ rneShr m₂ k := by
  have hd := two_pow_pos' k
  have hq : m₁ / 2 ^ k ≤ m₂ / 2 ^ k := Nat.div_le_div_right h
  have e1 := Nat.div_add_mod m₁ (2 ^ k)
  have e2 := Nat.div_add_mod m₂ (2 ^ k)
  rcases Nat.lt_or_ge (m₁ / 2 ^ k) (m₂ / 2 ^ k) with hlt | hge
  · rcases rneShr_cases m₁ k with ⟨h1, _⟩ | ⟨h1, _⟩ <;> rcases rneShr_cases m₂ k with ⟨h2, _⟩ | ⟨h2, _⟩ <;> omega
  · have heq : m₁ / 2 ^ k = m₂ / 2 ^ k := by omega
    rw [heq] at e1
    rcases rneShr_cases m₁ k with ⟨h1, c1⟩ | ⟨h1, c1⟩ <;> rcases rneShr_cases m₂ k with ⟨h2, c2⟩ | ⟨h2, c2⟩ <;> omega

theorem rneShr_exact (a k : Nat) : rneShr (a * 2 ^ k) k = a := by
  have hd := two_pow_pos' k
  unfold rneShr
  simp only [Nat.mul_div_cancel _ hd, Nat.mul_mod_left]
  split <;> omega

theorem rneShr_zero (m : Nat) : rneShr m 0 = m := by
  have := rneShr_exact m 0; simpa using this

theorem rneScale_mono (m₁ m₂ : Nat) (k : Int) (h : m₁ ≤ m₂) : rneScale m₁ k ≤ rneScale m₂ k := by
  unfold rneScale
  split
  · exact Nat.mul_le_mul_right _ h
  · exact rneShr_mono _ _ _ h

end Sf.Float
