/-
  DWVW encoder state: `last_delta_width` stays inside [0, bit_width) and `last_sample` inside the bit_width-bit range,
  for every sample sequence; quantisation of the caller's 32-bit value.
-/
import SfProofs.DwvwDec
namespace Sf.Dwvw.Proofs
open Sf Sf.Dwvw

/-- the state the encoder is in: width in [0, w), sample in the w-bit range -/
def stOk (c : Cfg) (ldw last : Int) : Prop := (0 ≤ ldw ∧ ldw < c.w) ∧ (-c.maxDelta ≤ last ∧ last < c.maxDelta)

theorem encSample_state (c : Cfg) (hw : c.ok) (ldw last p : Int) (hl : -c.maxDelta ≤ last ∧ last < c.maxDelta)
    (hp : -2 ^ 31 ≤ p ∧ p < 2 ^ 31) : stOk c (encSample c ldw last p).ldw (encSample c ldw last p).last := by
  have hs := asr_range c hw p hp
  have hd := deltaOf_spec c hw (asr p c.shift) last hs hl
  obtain ⟨k1, k2, k3, k4, k5, k6, k7, k8⟩ := cfg_consts c hw
  refine ⟨⟨?_, ?_⟩, hs⟩
  · simp [encSample]
  · simp only [encSample]
    have hlt : (deltaOf c (asr p c.shift - last)).delta.toNat < 2 ^ (c.w - 1) := by
      have : ((deltaOf c (asr p c.shift - last)).delta.toNat : Int) < ((2 ^ (c.w - 1) : Nat) : Int) := by
        rw [Int.toNat_of_nonneg hd.1]; push_cast; rw [← k4]; omega
      exact_mod_cast this
    have h32 : (deltaOf c (asr p c.shift - last)).delta.toNat < 2 ^ 32 :=
      lt_of_lt_of_le hlt (Nat.pow_le_pow_right (by omega) (by omega))
    have := highestBit_le _ (c.w - 1) h32 hlt
    omega

theorem endSt_ok (c : Cfg) (hw : c.ok) (ldw last : Int) (xs : List Int) (h0 : stOk c ldw last)
    (hx : ∀ x ∈ xs, -2 ^ 31 ≤ x ∧ x < 2 ^ 31) : stOk c (endSt c ldw last xs).1 (endSt c ldw last xs).2 := by
  induction xs generalizing ldw last with
  | nil => exact h0
  | cons x xs ih =>
    simp only [endSt]
    exact ih _ _ (encSample_state c hw ldw last x h0.2 (hx x (by simp))) (fun y hy => hx y (by simp [hy]))

/-- a value whose low `32 - bit_width` bits are zero is what the decoder hands back -/
theorem quant_exact (k : Nat) (q : Int) : asr (q * 2 ^ k) k * 2 ^ k = q * 2 ^ k := by
  unfold asr
  rw [Int.mul_ediv_cancel _ (by positivity)]

end Sf.Dwvw.Proofs
