/-
  SfProofs.AbsRefine — accepted RDWR histories refine the abstract file of property C08 (SfProofs/RdwrSpec.lean).

  The ITEM VIEW of an abstract state for a caller type `ty`:  ⟨cells of `ref ty`, rpos·cpf, wpos·cpf⟩ as an `AbsFile Item`
  (the "frames" of that abstract file are cells; a frame of the handle is `cpf = channels · cells ty` of them, so offsets
  scale by `cpf`).  `Abs.writeAt` mirrors `AbsFile.write`, the truncation rule mirrors `AbsFile.truncate`, an accepted read
  delivers what `AbsFile.read` delivers, an accepted (not refused) seek is `AbsFile.seek`.
-/
import SfProofs.AbsCompleteW
import SfProofs.AbsRun
import SfProofs.RdwrSteps
namespace Sf.Abs
open Sf

/-- the item view of an abstract state -/
def view (g : Geom) (st : St) (ty : Ty) : AbsFile Item :=
  { frames := (st.ref ty).toList, rpos := st.rpos * g.cpf ty, wpos := st.wpos * g.cpf ty }

/-! ## the array operations of the predicate are the list operations of the abstract file -/

theorem toList_upTo (a : Array Item) (p : Nat) : (upTo 0 a p).toList = AbsFile.upTo 0 a.toList p := by
  unfold upTo AbsFile.upTo
  rw [Array.toList_append, Array.toList_extract, Array.toList_replicate, List.extract_eq_take_drop]
  simp

theorem toList_writeAt (a : Array Item) (p : Nat) (d : Array Item) :
    (writeAt 0 a p d).toList = AbsFile.upTo 0 a.toList p ++ d.toList ++ a.toList.drop (p + d.size) := by
  unfold writeAt
  rw [Array.toList_append, Array.toList_append, toList_upTo, Array.toList_extract, List.extract_eq_take_drop]
  congr 1
  rw [List.take_of_length_le (by simp)]

theorem toList_truncRule (a : Array Item) (p : Nat) : (upTo 0 (a.extract 0 p) p).toList = AbsFile.upTo 0 a.toList p := by
  rw [toList_upTo]
  unfold AbsFile.upTo
  rw [Array.toList_extract, List.extract_eq_take_drop]
  simp only [List.drop_zero, Nat.sub_zero, List.take_take, Nat.min_self, List.length_take, Array.length_toList]
  congr 2
  omega

/-! ## one accepted line -/

/-- frames a valid request asks for -/
def reqFrames (g : Geom) (fc : Bool) (n : Int) : Nat := reqItems g fc n / g.ch

theorem retItems_le (g : Geom) (fc : Bool) (r n : Int) (h0 : 0 ≤ r) (h : r ≤ n) : retItems g fc r ≤ reqItems g fc n := by
  unfold retItems reqItems
  cases fc
  · simp only [Bool.false_eq_true, if_false]; omega
  · simp only [if_true]; exact Nat.mul_le_mul_right _ (by omega)

theorem retItems_lt (g : Geom) (fc : Bool) (r n : Int) (hch : 0 < g.ch) (h0 : 0 ≤ r) (h : r < n) :
    retItems g fc r < reqItems g fc n := by
  unfold retItems reqItems
  cases fc
  · simp only [Bool.false_eq_true, if_false]; omega
  · simp only [if_true]; exact Nat.mul_lt_mul_of_pos_right (by omega) hch

theorem reqItems_whole (g : Geom) (fc : Bool) (n : Int) (hv : validReq g fc n = true) : reqItems g fc n % g.ch = 0 := by
  unfold validReq at hv
  unfold reqItems
  cases fc
  · simp only [Bool.false_eq_true, if_false, Bool.false_or, Bool.and_eq_true, decide_eq_true_eq, beq_iff_eq] at hv ⊢
    obtain ⟨h1, h2⟩ := hv
    have : ((n.toNat % g.ch : Nat) : Int) = 0 := by
      rw [Int.natCast_emod, Int.toNat_of_nonneg (by omega)]; exact h2
    omega
  · simp only [if_true]; exact Nat.mul_mod_left _ _

/-- READ.  An accepted answer to a valid read request for `m = reqFrames` frames, judged against a stream of `frames·cpf` cells:
    (where the stream is known) the cells delivered are what the abstract read of `m·cpf` cells delivers, and the view moves as the
    abstract file does.  (Reads through another caller type move the view of `ty` the same way: `read_moves_view`.) -/
theorem read_refines (g : Geom) (st : St) (ty : Ty) (fc : Bool) (n : Int) (o : Out) (st' : St) (hch : 0 < g.ch)
    (hr : ReadReq g st fc n) (hs : (st.ref ty).size = st.frames * g.cpf ty)
    (h : readOk g st ty fc n o = .ok st') :
    (st.valid ty = true →
      (o.data.extract 0 (retItems g fc o.ret * cells ty)).toList = ((view g st ty).read (reqFrames g fc n * g.cpf ty)).1) ∧
    view g st' ty = ((view g st ty).read (reqFrames g fc n * g.cpf ty)).2 ∧
    st'.frames = st.frames ∧ st'.ref = st.ref ∧ st'.valid = st.valid ∧ st'.mode = st.mode := by
  obtain ⟨h0, h1, hw, hsz, he, heof, hmain⟩ := readOk_valid g st ty fc n o st' hr h
  have hcells : 0 < cells ty := by cases ty <;> decide
  have hcpf : 0 < g.cpf ty := Nat.mul_pos hch hcells
  have hlen : (st.ref ty).toList.length = st.frames * g.cpf ty := by rw [Array.length_toList, hs]
  unfold view AbsFile.read
  simp only
  by_cases hend : st.frames ≤ st.rpos
  · obtain ⟨hz, _, hst⟩ := heof hend
    subst hst
    have hd : List.drop (st.rpos * g.cpf ty) (st.ref ty).toList = [] :=
      List.drop_of_length_le (by rw [hlen]; exact Nat.mul_le_mul_right _ hend)
    have hri : retItems g fc o.ret = 0 := by unfold retItems; rw [hz]; simp
    rw [hd, hri]
    simp
  · obtain ⟨hst, hin, hdat, hshort⟩ := hmain (by omega)
    subst hst
    have hwc := whole_frames_cells g ty (retItems g fc o.ret) hw
    -- the frames delivered are `min m (frames − rpos)`
    have hk : retItems g fc o.ret / g.ch = min (reqFrames g fc n) (st.frames - st.rpos) := by
      have hle := retItems_le g fc o.ret n h0 h1
      have hle' : retItems g fc o.ret / g.ch ≤ reqFrames g fc n := Nat.div_le_div_right hle
      by_cases hlt : o.ret < n
      · have := hshort hlt; omega
      · have : o.ret = n := by omega
        have : retItems g fc o.ret = reqItems g fc n := by rw [this]; unfold retItems reqItems; rfl
        unfold reqFrames; rw [← this]; omega
    have hgl : ((List.drop (st.rpos * g.cpf ty) (st.ref ty).toList).take (reqFrames g fc n * g.cpf ty)).length =
        retItems g fc o.ret / g.ch * g.cpf ty := by
      rw [List.length_take, List.length_drop, hlen, ← Nat.sub_mul, hk]
      rcases Nat.le_total (reqFrames g fc n) (st.frames - st.rpos) with hle | hle
      · rw [Nat.min_eq_left hle, Nat.min_eq_left (Nat.mul_le_mul_right _ hle)]
      · rw [Nat.min_eq_right hle, Nat.min_eq_right (Nat.mul_le_mul_right _ hle)]
    refine ⟨fun hv => ?_, ?_, rfl, rfl, rfl, rfl⟩
    · have hsl := (sliceEq_extract _ _ _ _ _ (hdat hv)).1
      rw [Nat.zero_add] at hsl
      rw [hsl, hwc, Array.toList_extract, List.extract_eq_take_drop, Nat.add_sub_cancel_left]
      apply List.take_eq_take_iff.mpr
      rw [List.length_drop, hlen, ← Nat.sub_mul, hk]
      rcases Nat.le_total (reqFrames g fc n) (st.frames - st.rpos) with hle | hle
      · rw [Nat.min_eq_left hle]
      · rw [Nat.min_eq_right hle, Nat.min_self, Nat.min_eq_right (Nat.mul_le_mul_right _ hle)]
    · rw [hgl, Nat.add_mul]

/-- WRITE.  An accepted answer to a valid write request through the type of the view, on a file where short writes are
    outside the contract: the count asked for, and the view after the call is `AbsFile.write` of the cells handed over. -/
theorem write_refines (g : Geom) (st : St) (ty : Ty) (fc : Bool) (n : Int) (data : Array Item) (o : Out) (st' : St)
    (hch : 0 < g.ch) (hr : WriteReq g st fc n) (hio : g.ioMayFail = false) (h : writeOk g st ty fc n data o = .ok st') :
    o.ret = n ∧ view g st' ty = (view g st ty).write 0 (data.extract 0 (reqItems g fc n * cells ty)).toList ∧
    st'.frames = max st.frames (st.wpos + reqFrames g fc n) ∧ st'.mode = st.mode ∧
    (st'.ref ty).size = max (st.ref ty).size (st.wpos * g.cpf ty + reqFrames g fc n * g.cpf ty) ∧
    st'.valid ty = (g.lossless ty && st.valid ty && (decide (st.wpos ≤ st.frames) || g.holeZero ty)) := by
  obtain ⟨h0, h1, hw, hsz, hfull, _, hrp, hmo, hwp, _, hpos⟩ := writeOk_valid g st ty fc n data o st' hr h
  have hret := hfull hio
  have hcells : 0 < cells ty := by cases ty <;> decide
  have hri : retItems g fc o.ret = reqItems g fc n := by rw [hret]; unfold retItems reqItems; rfl
  have hn := validReq_pos hr.1
  have hwhole := reqItems_whole g fc n hr.1
  have hri0 : 0 < reqItems g fc n := by
    unfold reqItems; cases fc
    · simp only [Bool.false_eq_true, if_false]; omega
    · simp only [if_true]; exact Nat.mul_pos (by omega) hch
  have hkpos : 0 < reqItems g fc n / g.ch := by
    have := Nat.div_add_mod (reqItems g fc n) g.ch
    rw [hwhole] at this
    rcases Nat.eq_zero_or_pos (reqItems g fc n / g.ch) with hz | hz
    · rw [hz] at this; omega
    · exact hz
  rw [hri] at hpos hwp
  obtain ⟨hfr, href, hval⟩ := hpos hkpos
  have hcc := whole_frames_cells g ty (reqItems g fc n) hwhole
  have hes : (data.extract 0 (reqItems g fc n * cells ty)).size = reqFrames g fc n * g.cpf ty := by
    rw [Array.size_extract, Nat.min_eq_left hsz, Nat.sub_zero, hcc]; rfl
  have hne : (data.extract 0 (reqItems g fc n * cells ty)).toList ≠ [] := by
    intro hx
    have : (data.extract 0 (reqItems g fc n * cells ty)).toList.length = 0 := by rw [hx]; rfl
    rw [Array.length_toList, hes] at this
    have := Nat.mul_pos hkpos (Nat.mul_pos hch hcells)
    unfold reqFrames Geom.cpf at *
    omega
  refine ⟨hret, ?_, by rw [hfr, hwp]; rfl, hmo, ?_, hval⟩
  · unfold view AbsFile.write
    simp only
    rw [if_neg hne, href, toList_writeAt, Array.length_toList, hes, hwp, Nat.add_mul, hrp]
    rfl
  · rw [href, size_writeAt, hes]

/-- SEEK.  An accepted seek line that was not refused, with one of the nine whence values of the statement, is
    `AbsFile.seek` (offsets in cells: `off · cpf`).  (A refused line — −1, error set — moves nothing.) -/
theorem seek_refines (g : Geom) (st : St) (ty : Ty) (w : Whence) (p : Ptr) (off : Int) (o : Out) (st' : St)
    (hm : st.mode = .rw) (hch : 0 < g.ch) (hs : (st.ref ty).size = st.frames * g.cpf ty)
    (h : seekOk g st off (whenceCode w p) o = .ok st') (hk : o.ret ≠ -1) :
    ((view g st ty).seek w p (off * (g.cpf ty : Int))).1 = o.ret * (g.cpf ty : Int) ∧
    view g st' ty = ((view g st ty).seek w p (off * (g.cpf ty : Int))).2 ∧
    st'.frames = st.frames ∧ st'.ref = st.ref ∧ st'.valid = st.valid ∧ st'.mode = st.mode := by
  have hcells : 0 < cells ty := by cases ty <;> decide
  have hcpf : 0 < g.cpf ty := Nat.mul_pos hch hcells
  rcases seekOk_ok g st off _ o st' h with ⟨a, _, _⟩ | ⟨t, _, ht, hr, _, hst⟩
  · exact absurd a hk
  obtain ⟨b, hb, htb, _, _, _⟩ := seekTarget_some st off _ t ht
  obtain ⟨f1, f2, f3, f4⟩ := seekMove_frames st (whenceCode w p) t
  subst hst
  have hlen : (st.ref ty).toList.length = st.frames * g.cpf ty := by rw [Array.length_toList, hs]
  -- the base of the abstract file is the base of the predicate, in cells
  have hbase : (view g st ty).base w p = (b : Int) * (g.cpf ty : Int) := by
    unfold view AbsFile.base
    cases w <;> cases p <;>
      simp [seekBase, whenceCode, hm] at hb <;> subst hb <;> simp [hlen]
  have htgt : (view g st ty).base w p + off * (g.cpf ty : Int) = (t : Int) * (g.cpf ty : Int) := by
    rw [hbase, htb, Int.add_mul]
  have hnn : ¬ ((t : Int) * (g.cpf ty : Int) < 0) := by
    have : (0 : Int) ≤ (t : Int) * (g.cpf ty : Int) := Int.mul_nonneg (by omega) (by omega)
    omega
  have htn : ((t : Int) * (g.cpf ty : Int)).toNat = t * g.cpf ty := by
    rw [← Int.natCast_mul, Int.toNat_natCast]
  unfold AbsFile.seek
  simp only [htgt, hnn, if_false, htn]
  refine ⟨by rw [hr], ?_, f1, f3, f4, f2⟩
  unfold view
  rw [f3]
  cases p
  · rw [seekMove_plain_rw st _ t (by cases w <;> simp [seekQual, whenceCode]) hm]
  · rw [seekMove_rd st _ t (by cases w <;> simp [seekQual, whenceCode])]
  · rw [seekMove_wr st _ t (by cases w <;> simp [seekQual, whenceCode])]

/-- TRUNCATE.  An accepted SFC_FILE_TRUNCATE line on a route with `ftruncate`: 0, and the view is `AbsFile.truncate`. -/
theorem trunc_refines (g : Geom) (st : St) (ty : Ty) (n : Int) (o : Out) (st' : St)
    (hm : st.mode ≠ .r) (hc : g.canTrunc = true) (hn : 0 ≤ n) (h : truncOk g st n o = .ok st') :
    o.ret = 0 ∧ view g st' ty = (view g st ty).truncate 0 (n.toNat * g.cpf ty) ∧ st'.frames = n.toNat ∧ st'.mode = st.mode ∧
    (st'.ref ty).size = n.toNat * g.cpf ty ∧
    st'.valid ty = (st.valid ty && (decide (n.toNat ≤ st.frames) || g.holeZero ty)) := by
  have hx : ¬ (st.mode = .r ∨ (!g.canTrunc) = true ∨ n < 0) := by
    intro hx; rcases hx with hx | hx | hx
    · exact hm hx
    · simp [hc] at hx
    · omega
  unfold truncOk at h
  rw [if_neg hx] at h
  simp only at h
  split at h
  · exact Res.noConfusion h
  · rename_i hr
    injection h with h
    subst h
    refine ⟨by omega, ?_, rfl, rfl, size_upTo 0 _ _, rfl⟩
    unfold view AbsFile.truncate
    simp only
    rw [toList_truncRule]

end Sf.Abs
