/-
  SfProofs.AbsWriteBridgeSampleRun — `sample_pred_good`: the prediction of ANY sample-level container model (`SCont`,
  SfProofs/AbsWriteBridgeSample.lean) that satisfies `SLaws` is `Good`, hence accepted by the write-side predicate
  (`sample_cont_session_accepted`).  The sample-level twin of `small_pred_good` (SfProofs/AbsWriteBridgeSmallRun.lean).
-/
import SfProofs.AbsWriteBridgeSample
import SfProofs.AbsWriteBridgeSmallRun
import SfProofs.AbsWriteBridgeRun
namespace Sf.AbsWriteBridge.Sample
open Sf Sf.AbsWrite Sf.AbsWriteBridge Sf.Geometry

/-- LEVEL B FOR THE SAMPLE-LEVEL CONTAINER MODELS: a lawful container's prediction for any valid job has the list-level
    properties.  `G` (the container's guards) is asked of the reference run and of every prefix (every crash image; the
    whole job is the prefix with nothing behind it). -/
theorem sample_pred_good (K : SCont) (ty : Ty) (G : List SOp → Prop) (L : SLaws K ty G) (stale stale' : Nat) (ops : List Small.Op)
    (hv : Small.Valid K.g.ch ty ops) (hGref : G (toS false (Small.refOps ops)))
    (hG : ∀ p post, ops = p ++ post → G (toS false p)) :
    Good (predOf K ty stale stale' ops) := by
  have hch := L.chpos
  have hnb := L.nb
  obtain ⟨big, hcodec⟩ := L.codec
  have hvR := Small.refOps_valid K.g.ch ty hch ops hv
  obtain ⟨gS1, gS2⟩ := Small.callsOf_good K.g.ch ty ops hv
  obtain ⟨gR1, gR2⟩ := Small.callsOf_good K.g.ch ty (Small.refOps ops) hvR
  rw [Small.refOps_samples] at gR2
  have hrange := Small.range_of_valid K.g.ch ty ops hv
  have hlenS := samples_length K.g.ch _ gS1
  have hlenR := samples_length K.g.ch _ gR1
  rw [gS2] at hlenS
  rw [gR2] at hlenR
  have hNR : framesOf K.g.ch (Small.callsOf K.g.ch (Small.refOps ops)) = framesOf K.g.ch (Small.callsOf K.g.ch ops) := by
    rw [hlenS] at hlenR; exact (Nat.eq_of_mul_eq_mul_right hch hlenR).symm
  have hlossless : ∀ xs : List Int, (∀ v ∈ xs, v ∈ Small.sampleList ops) →
      (∀ v ∈ xs, sampleOk K.g.codec ty v) → K.enc.decodeAll {} ty (K.enc.encodeAll {} ty xs) = xs := by
    intro xs hsub hok
    exact C01.data_roundtrip C01.widenExact K.enc L.wf hnb {} {} ty xs (fun v hv => hrange v (hsub v hv))
      (fun v hv => sampleOk_lossless hcodec ty v (hrange v (hsub v hv)) (hok v hv))
  -- the closed reference file
  have hD1 : sData (toS false (Small.refOps ops)) = Small.sampleList ops := by
    rw [sData_toS, Small.refOps_samples]
  have hD2 : sData (toS false ops) = Small.sampleList ops := sData_toS ops false
  obtain ⟨hdr, tail, hl, hform⟩ := L.closedForm stale _ hGref
  obtain ⟨i, hp, hfr, hich, hifmt, hirate⟩ := L.closedParse stale _ hGref
  rw [hD1] at hform hfr
  rw [frames_of_samples K hnb hch ty _ _ hlenS] at hfr
  have hrb := readBack_eval K ty ((framesOf K.g.ch (Small.callsOf K.g.ch ops) + K.g.block + K.g.pad + 8) * K.g.ch) _ hdr tail
    (Small.sampleList ops) i hnb hp hform hl (by rw [hfr, hlenS])
  have hinfo : ∀ j : Small2.Info, j.ch = K.g.ch → j.fmt % 0x10000000 = K.g.word % 0x10000000 →
      infoOk K.g { ch := (j.ch : Int), sr := (j.sr : Int), fmt := j.fmt, frames := (j.frames : Int) } = true := by
    intro j h1 h2
    unfold infoOk; simp [h1, h2]
  refine {
    chpos := hch, block := Nat.le_of_eq L.block.symm, calls1 := gR1, calls2 := gS1,
    same := by show samples (Small.callsOf _ ops) = samples (Small.callsOf _ (Small.refOps ops)); rw [gS2, gR2],
    reopened := ?_, info := ?_, rate := ?_, framesLo := ?_, framesHi := ?_, eof := ?_, more := rfl, rbLen := ?_,
    roundtrip := ?_, partition := L.closedFn _ _ _ _ hGref (hG ops [] (by simp)) (by rw [hD1, hD2]),
    stale := L.closedFn _ _ _ _ hGref hGref rfl, snaps := ?_ }
  · show (Small.infoOf (K.parse _)).null = false
    rw [hp]; rfl
  · show infoOk K.g (Small.infoOf (K.parse _)) = true
    rw [hp]; exact hinfo i hich hifmt
  · show rateOk K.g.major K.g.sr (Small.infoOf (K.parse _)).sr = true
    rw [hp]; exact hirate
  · show ((framesOf K.g.ch (Small.callsOf K.g.ch (Small.refOps ops)) : Nat) : Int) ≤ (Small.infoOf (K.parse _)).frames
    rw [hp, hNR]; show _ ≤ ((i.frames : Nat) : Int); rw [hfr]
  · show (Small.infoOf (K.parse _)).frames < ((framesOf K.g.ch (Small.callsOf K.g.ch (Small.refOps ops)) : Nat) : Int) + (K.g.block : Int)
    rw [hp, hNR, L.block]; show ((i.frames : Nat) : Int) < _; rw [hfr]; omega
  · show (readBack K ty _ _).1 = (Small.infoOf (K.parse _)).frames * (K.g.ch : Int)
    rw [hrb, hp]; show _ = ((i.frames : Nat) : Int) * _; rw [hfr, hlenS]; push_cast; rfl
  · show (samples (Small.callsOf _ (Small.refOps ops))).length ≤ (readBack K ty _ _).2.length
    rw [hrb, gR2]; simp only [List.length_append]
    rw [Enc.decodeAll_length _ _ _ hnb, Enc.encodeAll_length, Nat.mul_div_cancel _ hnb]; omega
  · intro hok
    show (readBack K ty _ _).2.take (samples (Small.callsOf _ (Small.refOps ops))).length = samples (Small.callsOf _ (Small.refOps ops))
    change ∀ v ∈ samples (Small.callsOf K.g.ch (Small.refOps ops)), sampleOk K.g.codec ty v at hok
    rw [gR2] at hok ⊢
    rw [hrb]
    simp only []
    rw [hlossless _ (fun v hv => hv) hok]
    exact List.take_left' rfl
  · intro _ x hx
    obtain ⟨p, hpm, rfl⟩ := List.mem_map.1 hx
    obtain ⟨mid, post, e1, e2, e3⟩ := crashes_spec ops [] false p hpm
    simp only [List.nil_append] at e1
    subst e1
    have hends := e3 false rfl
    have hGp := hG p post e2
    have hvP : Small.Valid K.g.ch ty p := fun o ho => hv o (by rw [e2]; simp [ho])
    obtain ⟨gP1, gP2⟩ := Small.callsOf_good K.g.ch ty p hvP
    have hlenP := samples_length K.g.ch _ gP1
    rw [gP2] at hlenP
    have hDp : sData (toS false p) = Small.sampleList p := sData_toS p false
    obtain ⟨hdr', tail', hl', hform'⟩ := L.storeForm stale _ hGp hends
    obtain ⟨j, hpj, hfrj, hjch, hjfmt⟩ := L.storeParse stale _ hGp hends
    rw [hDp] at hform' hfrj
    rw [frames_of_samples K hnb hch ty _ _ hlenP] at hfrj
    have hrbP := readBack_eval K ty ((framesOf K.g.ch (Small.callsOf K.g.ch p) + 8) * K.g.ch) _ hdr' tail'
      (Small.sampleList p) j hnb hpj hform' hl' (by rw [hfrj, hlenP])
    have hbefore : (Small.callsOf K.g.ch ops).take (Small.callsOf K.g.ch p).length = Small.callsOf K.g.ch p := by
      conv => lhs; rw [e2, Small.callsOf_append]
      exact List.take_left' rfl
    have hsplit : Small.sampleList ops = Small.sampleList p ++ Small.sampleList post := by
      conv => lhs; rw [e2]
      exact Small.sampleList_append _ _
    have hsub : ∀ v ∈ Small.sampleList p, v ∈ Small.sampleList ops := by
      intro v hv'; rw [hsplit]; exact List.mem_append_left _ hv'
    have hfl : floorToBlock (framesOf K.g.ch (Small.callsOf K.g.ch p)) K.g.block = framesOf K.g.ch (Small.callsOf K.g.ch p) := by
      rw [L.block]; simp [floorToBlock]
    have hdlP : (K.enc.decodeAll {} ty (K.enc.encodeAll {} ty (Small.sampleList p))).length = (Small.sampleList p).length := by
      rw [Enc.decodeAll_length _ _ _ hnb, Enc.encodeAll_length, Nat.mul_div_cancel _ hnb]
    have hk : (snapOf K ty stale p).k = (Small.callsOf K.g.ch p).length := rfl
    have hcalls : (predOf K ty stale stale' ops).split.calls = Small.callsOf K.g.ch ops := rfl
    have hpg : (predOf K ty stale stale' ops).g = K.g := rfl
    have hpty : (predOf K ty stale stale' ops).ty = ty := rfl
    refine { opened := ?_, info := ?_, frames := ?_, short := ?_, len := ?_, final := ?_, exact := ?_ }
    · show (Small.infoOf (K.parse _)).null = false
      rw [hpj]; rfl
    · show infoOk K.g (Small.infoOf (K.parse _)) = true
      rw [hpj]; exact hinfo j hjch hjfmt
    · show (Small.infoOf (K.parse _)).frames = _
      rw [hpj, hk, hcalls, hpg, hbefore, hfl]; show ((j.frames : Nat) : Int) = _; rw [hfrj]
    · show _ ≤ (readBack K ty _ _).1.toNat
      rw [hk, hcalls, hpg, hbefore, hfl, hrbP, hlenP]; exact Nat.le_of_eq (Int.toNat_natCast _).symm
    · show _ ≤ (readBack K ty _ _).2.length
      rw [hk, hcalls, hpg, hbefore, hfl, hrbP]; simp only [List.length_append, hdlP, hlenP]; omega
    · show (readBack K ty _ _).2.take _ = (readBack K ty _ _).2.take _
      rw [hk, hcalls, hpg, hbefore, hfl, hrbP, hrb, ← hlenP]
      simp only []
      rw [List.take_left' hdlP, List.take_append_of_le_length (by
        rw [Enc.decodeAll_length _ _ _ hnb, Enc.encodeAll_length, Nat.mul_div_cancel _ hnb, hsplit]; simp)]
      rw [hsplit]
      exact (decode_prefix K.enc hnb {} ty _ _).symm
    · intro hok
      show (readBack K ty _ _).2.take _ = (samples _).take _
      rw [hk, hcalls, hpg, hpty, hbefore] at hok
      rw [hk, hcalls, hpg, hbefore, hfl, hrbP, ← hlenP]
      rw [gP2] at hok ⊢
      simp only []
      rw [List.take_left' hdlP, List.take_length]
      exact hlossless _ hsub hok

/-- the generic step: a lawful sample-level container's record of a valid job is accepted -/
theorem sample_cont_session_accepted (K : SCont) (ty : Ty) (G : List SOp → Prop) (L : SLaws K ty G) (stale stale' : Nat)
    (ops : List Small.Op) (hv : Small.Valid K.g.ch ty ops) (hGref : G (toS false (Small.refOps ops)))
    (hG : ∀ p post, ops = p ++ post → G (toS false p)) :
    accepted (recordOf K ty stale stale' ops) = true :=
  Pred.accepted_of_good _ (sample_pred_good K ty G L stale stale' ops hv hGref hG)

end Sf.AbsWriteBridge.Sample
