/-
  SfProofs.Peak — helper lemmas for C18: the running (value, bits, position) invariant of the PEAK bookkeeping,
  the per-channel scan of `Sf.peakChunkUpdate`, the staging-buffer chunking of `Sf.peakUpdate`, sequences of calls.
-/
import SfProofs.FloatExact
import SfModel.Peak
namespace Sf.Peak
open Sf Sf.Float

/-! ## abstract invariant: (running maximum, its bit pattern, frame of its first occurrence) -/

/-- after `N` frames of a channel whose magnitudes are `K 0, K 1, …` (stored as the patterns `W 0, W 1, …`) the state is
    `(v, bits, pos)`: untouched (all samples so far are zero), or the first maximum -/
structure PInv (K : Nat → ℚ) (W : Nat → Nat) (N : Nat) (v : ℚ) (bits : Nat) (pos : Int) : Prop where
  nn : 0 ≤ v
  ub : ∀ j < N, K j ≤ v
  at_ : (v = 0 ∧ pos = 0 ∧ bits = 0) ∨ ∃ q < N, pos = (q : Int) ∧ v = K q ∧ 0 < v ∧ bits = W q ∧ ∀ j < q, K j < K q

theorem PInv.init (K : Nat → ℚ) (W : Nat → Nat) : PInv K W 0 0 0 0 :=
  ⟨le_refl _, fun _ h => absurd h (Nat.not_lt_zero _), Or.inl ⟨rfl, rfl, rfl⟩⟩

/-- one update with a block of `n` frames whose own first maximum is at `q'`:
    `if (fmaxval > peaks.value) { value = fmaxval ; position = N + q' }` -/
theorem PInv.step (K : Nat → ℚ) (W : Nat → Nat) (N n q' : Nat)
    (hmax : ∀ j < n, K (N + j) ≤ K (N + q')) (hfirst : ∀ j < q', K (N + j) < K (N + q')) (hq' : q' < n)
    (v : ℚ) (bits : Nat) (pos : Int) (inv : PInv K W N v bits pos) :
    PInv K W (N + n) (if v < K (N + q') then K (N + q') else v) (if v < K (N + q') then W (N + q') else bits)
      (if v < K (N + q') then ((N + q' : Nat) : Int) else pos) := by
  by_cases hlt : v < K (N + q')
  · simp only [hlt, if_true]
    refine ⟨le_trans inv.nn (le_of_lt hlt), ?_, Or.inr ⟨N + q', by omega, rfl, rfl, lt_of_le_of_lt inv.nn hlt, rfl, ?_⟩⟩
    · intro j hj
      by_cases hjN : j < N
      · exact le_trans (inv.ub j hjN) (le_of_lt hlt)
      · have := hmax (j - N) (by omega)
        rwa [show N + (j - N) = j by omega] at this
    · intro j hj
      by_cases hjN : j < N
      · exact lt_of_le_of_lt (inv.ub j hjN) hlt
      · have := hfirst (j - N) (by omega)
        rwa [show N + (j - N) = j by omega] at this
  · simp only [hlt, if_false]
    have hle : K (N + q') ≤ v := not_lt.mp hlt
    refine ⟨inv.nn, ?_, ?_⟩
    · intro j hj
      by_cases hjN : j < N
      · exact inv.ub j hjN
      · have := hmax (j - N) (by omega)
        rw [show N + (j - N) = j by omega] at this
        exact le_trans this hle
    · rcases inv.at_ with h0 | ⟨q, hq, hp, hv, hpos, hb, hf⟩
      · exact Or.inl h0
      · exact Or.inr ⟨q, by omega, hp, hv, hpos, hb, hf⟩

/-- what the invariant says once at least one frame was written: the value is the maximum and the position is the
    first frame attaining it -/
theorem PInv.final (K : Nat → ℚ) (W : Nat → Nat) (hK : ∀ j, 0 ≤ K j) (N : Nat) (hN : 0 < N) (v : ℚ) (bits : Nat) (pos : Int)
    (inv : PInv K W N v bits pos) :
    ∃ q < N, pos = (q : Int) ∧ v = K q ∧ (∀ j < N, K j ≤ K q) ∧ (∀ j < q, K j < K q) ∧ (bits = W q ∨ (bits = 0 ∧ v = 0)) := by
  rcases inv.at_ with ⟨h0, hp, hb⟩ | ⟨q, hq, hp, hv, _, hb, hf⟩
  · refine ⟨0, hN, by simpa using hp, ?_, ?_, fun j hj => absurd hj (Nat.not_lt_zero _), Or.inr ⟨hb, h0⟩⟩
    · have := inv.ub 0 hN; have := hK 0; linarith
    · intro j hj
      have h1 := inv.ub j hj
      have h2 := inv.ub 0 hN
      have := hK 0; have := hK j
      linarith
  · exact ⟨q, hq, hp, hv, fun j hj => by rw [← hv]; exact inv.ub j hj, hf, Or.inl hb⟩

/-- the state is a function of the samples: two states satisfying the invariant for the same channel are equal -/
theorem PInv.unique (K : Nat → ℚ) (W : Nat → Nat) (N : Nat) (v v' : ℚ) (b b' : Nat) (p p' : Int)
    (i1 : PInv K W N v b p) (i2 : PInv K W N v' b' p') : b = b' ∧ p = p' := by
  rcases i1.at_ with ⟨h0, hp, hb⟩ | ⟨q, hq, hp, hv, hpos, hb, hf⟩ <;>
    rcases i2.at_ with ⟨h0', hp', hb'⟩ | ⟨q', hq', hp', hv', hpos', hb', hf'⟩
  · exact ⟨hb.trans hb'.symm, hp.trans hp'.symm⟩
  · exfalso; have := i1.ub q' hq'; rw [h0, ← hv'] at this; linarith
  · exfalso; have := i2.ub q hq; rw [h0', ← hv] at this; linarith
  · have hqq : q = q' := by
      rcases Nat.lt_trichotomy q q' with h | h | h
      · have h1 := hf' q h; have h2 := i1.ub q' hq'; rw [hv] at h2; linarith
      · exact h
      · have h1 := hf q' h; have h2 := i2.ub q hq; rw [hv'] at h2; linarith
    subst hqq
    exact ⟨hb.trans hb'.symm, hp.trans hp'.symm⟩

/-! ## the per-channel scan of `peakChunkUpdate`, named -/

/-- `peaks [chan].value` is a double: a float maximum is widened (exactly) -/
def widenB (f : Fmt) (v : Nat) : Nat := if f == Float.f32 then Float.f32to64 v else v

def stepF (f : Fmt) (vals : List Nat) (acc : Nat × Nat) (k : Nat) : Nat × Nat :=
  let v := absBits f (vals.getD k 0)
  if (f.toDy acc.1).lt (f.toDy v) then (v, k) else acc

/-- the inner loop for channel `c` over `n` frames: (fmaxval, position) -/
def chanScanN (f : Fmt) (ch c : Nat) (vals : List Nat) (n : Nat) : Nat × Nat :=
  ((List.range n).map fun j => c + j * ch).foldl (stepF f vals) (absBits f (vals.getD c 0), 0)

def chanUpd (f : Fmt) (ch : Nat) (wcur indx : Int) (vals : List Nat) (p : Peak) (c : Nat) : Peak :=
  let r := chanScanN f ch c vals ((vals.length + ch - 1 - c) / ch)
  let mx64 := widenB f r.1
  if (Float.f64.toDy p.value).lt (Float.f64.toDy mx64) then
    { value := mx64, position := wcur + indx + (r.2 / ch : Nat) }
  else p

theorem peakChunkUpdate_eq (f : Fmt) (ch : Nat) (wcur indx : Int) (vals : List Nat) (ps : List Peak) :
    peakChunkUpdate f ch wcur indx vals ps = (List.range ch).map fun c => chanUpd f ch wcur indx vals (ps.getD c {}) c := rfl

/-- magnitude pattern of frame `j` of channel `c` in an interleaved buffer -/
def colB (f : Fmt) (ch c : Nat) (vals : List Nat) (j : Nat) : Nat := absBits f (vals.getD (c + j * ch) 0)

/-- its exact value -/
def colK (f : Fmt) (ch c : Nat) (vals : List Nat) (j : Nat) : ℚ := (f.toDy (colB f ch c vals j)).val

/-- the pattern kept in `peaks [c].value` when that sample is the maximum -/
def colW (f : Fmt) (ch c : Nat) (vals : List Nat) (j : Nat) : Nat := widenB f (colB f ch c vals j)

theorem chanScanN_spec (f : Fmt) (ch c : Nat) (hc : c < ch) (vals : List Nat) (n : Nat) :
    ∃ q, q < max n 1 ∧ (chanScanN f ch c vals n).2 / ch = q ∧ (chanScanN f ch c vals n).1 = colB f ch c vals q ∧
      (∀ j < max n 1, colK f ch c vals j ≤ colK f ch c vals q) ∧ (∀ j < q, colK f ch c vals j < colK f ch c vals q) := by
  induction n with
  | zero =>
    refine ⟨0, by decide, ?_, ?_, ?_, ?_⟩
    · simp [chanScanN]
    · simp [chanScanN, colB]
    · intro j hj; have : j = 0 := by simp at hj; omega
      subst this; exact le_refl _
    · intro j hj; omega
  | succ n ih =>
    obtain ⟨q, hq, hpos, hmx, hall, hfirst⟩ := ih
    have hstep : chanScanN f ch c vals (n + 1) = stepF f vals (chanScanN f ch c vals n) (c + n * ch) := by
      simp [chanScanN, List.range_succ, List.map_append, List.foldl_append]
    rw [hstep]
    unfold stepF
    have hv : absBits f (vals.getD (c + n * ch) 0) = colB f ch c vals n := rfl
    simp only [hv]
    have hcmp : ((f.toDy (chanScanN f ch c vals n).1).lt (f.toDy (colB f ch c vals n)) = true) ↔
        colK f ch c vals q < colK f ch c vals n := by
      rw [Dy.lt_iff, hmx]; rfl
    by_cases hlt : colK f ch c vals q < colK f ch c vals n
    · rw [if_pos (hcmp.mpr hlt)]
      refine ⟨n, by omega, ?_, rfl, ?_, ?_⟩
      · show (c + n * ch) / ch = n
        rw [Nat.add_mul_div_right _ _ (by omega : 0 < ch), Nat.div_eq_of_lt hc]; omega
      · intro j hj
        by_cases hj2 : j < max n 1
        · exact le_of_lt (lt_of_le_of_lt (hall j hj2) hlt)
        · have : j = n := by omega
          subst this; exact le_refl _
      · intro j hj
        exact lt_of_le_of_lt (hall j (by omega)) hlt
    · rw [if_neg (fun h => hlt (hcmp.mp h))]
      refine ⟨q, by omega, hpos, hmx, ?_, hfirst⟩
      intro j hj
      by_cases hj2 : j < max n 1
      · exact hall j hj2
      · have : j = n := by omega
        subst this; exact not_lt.mp hlt

/-! ## one chunk, one channel: the invariant is carried -/

/-- exact value of a binary64 pattern -/
def V64 (b : Nat) : ℚ := (Float.f64.toDy b).val

theorem scan_frames (n ch c : Nat) (hc : c < ch) : (n * ch + ch - 1 - c) / ch = n := by
  have h : n * ch + ch - 1 - c = (ch - 1 - c) + n * ch := by omega
  rw [h, Nat.add_mul_div_right _ _ (by omega : 0 < ch), Nat.div_eq_of_lt (by omega)]; omega

theorem chanUpd_inv (f : Fmt) (ch c : Nat) (hc : c < ch) (vals : List Nat) (n : Nat) (hlen : vals.length = n * ch) (hn : 0 < n)
    (hw : ∀ j, V64 (colW f ch c vals j) = colK f ch c vals j)
    (K : Nat → ℚ) (W : Nat → Nat) (N : Nat) (hK : ∀ j < n, K (N + j) = colK f ch c vals j)
    (hW : ∀ j < n, W (N + j) = colW f ch c vals j)
    (wcur indx : Int) (hN : wcur + indx = (N : Int)) (p : Peak) (inv : PInv K W N (V64 p.value) p.value p.position) :
    PInv K W (N + n) (V64 (chanUpd f ch wcur indx vals p c).value) (chanUpd f ch wcur indx vals p c).value
      (chanUpd f ch wcur indx vals p c).position := by
  obtain ⟨q, hq, hpos, hmx, hall, hfirst⟩ := chanScanN_spec f ch c hc vals n
  have hqn : q < n := by omega
  have hmax1 : max n 1 = n := by omega
  rw [hmax1] at hall
  have hbits : widenB f (chanScanN f ch c vals n).1 = W (N + q) := by rw [hmx, hW q hqn]; rfl
  have hval : V64 (widenB f (chanScanN f ch c vals n).1) = K (N + q) := by
    rw [hmx, hK q hqn]; exact hw q
  have hstep := PInv.step K W N n q
    (fun j hj => by rw [hK j hj, hK q hqn]; exact hall j hj)
    (fun j hj => by rw [hK j (by omega), hK q hqn]; exact hfirst j hj) hqn _ _ _ inv
  unfold chanUpd
  rw [hlen, scan_frames n ch c hc]
  simp only []
  have hcmp : ((Float.f64.toDy p.value).lt (Float.f64.toDy (widenB f (chanScanN f ch c vals n).1)) = true) ↔
      V64 p.value < K (N + q) := by
    rw [Dy.lt_iff, ← hval]; rfl
  by_cases hlt : V64 p.value < K (N + q)
  · rw [if_pos (hcmp.mpr hlt)]
    rw [if_pos hlt, if_pos hlt, if_pos hlt] at hstep
    have hval2 : V64 (W (N + q)) = K (N + q) := by rw [← hbits]; exact hval
    simp only [hpos, hbits, hval2]
    have : wcur + indx + ((q : Nat) : Int) = ((N + q : Nat) : Int) := by push_cast; omega
    rw [this]; exact hstep
  · rw [if_neg (fun h => hlt (hcmp.mp h))]
    rw [if_neg hlt, if_neg hlt, if_neg hlt] at hstep
    exact hstep

/-! ## one chunk, all channels -/

theorem getD_map_range {α : Type} (g : Nat → α) (n c : Nat) (hc : c < n) (d : α) : ((List.range n).map g).getD c d = g c := by
  simp [List.getD, List.getElem?_map, List.getElem?_range hc]

/-- state of all channels after `N` frames of the interleaved file-typed samples `all` -/
def AllInv (f : Fmt) (ch : Nat) (all : List Nat) (N : Nat) (ps : List Peak) : Prop :=
  ps.length = ch ∧ ∀ c < ch, PInv (colK f ch c all) (colW f ch c all) N (V64 (ps.getD c {}).value) (ps.getD c {}).value
    (ps.getD c {}).position

theorem colB_append (f : Fmt) (ch c : Nat) (hc : c < ch) (pre vals post : List Nat) (N n : Nat) (hpre : pre.length = N * ch)
    (hlen : vals.length = n * ch) (j : Nat) (hj : j < n) :
    colB f ch c (pre ++ vals ++ post) (N + j) = colB f ch c vals j := by
  unfold colB
  have hidx : c + (N + j) * ch = pre.length + (c + j * ch) := by rw [hpre]; ring
  have hlt : c + j * ch < vals.length := by
    rw [hlen]
    calc c + j * ch < ch + j * ch := by omega
      _ = (j + 1) * ch := by ring
      _ ≤ n * ch := Nat.mul_le_mul_right _ (by omega)
  rw [hidx]
  simp only [List.getD_eq_getElem?_getD]
  rw [List.append_assoc, List.getElem?_append_right (by omega), Nat.add_sub_cancel_left, List.getElem?_append_left hlt]

/-- widening keeps the value: true for every finite pattern -/
def WidenOK (f : Fmt) (b : Nat) : Prop := V64 (widenB f b) = (f.toDy b).val

theorem chunk_inv (f : Fmt) (ch : Nat) (pre vals post : List Nat) (N n : Nat) (hpre : pre.length = N * ch)
    (hlen : vals.length = n * ch) (hn : 0 < n)
    (hw : ∀ c < ch, ∀ j, WidenOK f (colB f ch c vals j))
    (wcur indx : Int) (hN : wcur + indx = (N : Int)) (ps : List Peak)
    (inv : AllInv f ch (pre ++ vals ++ post) N ps) :
    AllInv f ch (pre ++ vals ++ post) (N + n) (peakChunkUpdate f ch wcur indx vals ps) := by
  rw [peakChunkUpdate_eq]
  refine ⟨by simp, ?_⟩
  intro c hc
  rw [getD_map_range _ ch c hc]
  exact chanUpd_inv f ch c hc vals n hlen hn (hw c hc) _ _ N
    (fun j hj => by unfold colK; rw [colB_append f ch c hc pre vals post N n hpre hlen j hj])
    (fun j hj => by unfold colW; rw [colB_append f ch c hc pre vals post N n hpre hlen j hj])
    wcur indx hN _ (inv.2 c hc)

/-! ## magnitudes are non-negative and as finite as the sample; zero is harmless -/

theorem absBits_sign (f : Fmt) (b : Nat) : f.sign (absBits f b) = false := by
  unfold Fmt.sign absBits
  rw [Nat.div_eq_of_lt (Nat.mod_lt _ (Nat.pos_of_ne_zero (by simp)))]
  simp

theorem toDy_neg (f : Fmt) (b : Nat) : (f.toDy b).neg = f.sign b := by
  unfold Fmt.toDy; dsimp only; split <;> rfl

theorem absBits_val_nonneg (f : Fmt) (b : Nat) : 0 ≤ (f.toDy (absBits f b)).val := by
  rw [Dy.val_eq, toDy_neg, absBits_sign]
  simp only [Bool.false_eq_true, if_false]
  exact Dy.mag_nonneg _

theorem colK_nonneg (f : Fmt) (ch c : Nat) (vals : List Nat) (j : Nat) : 0 ≤ colK f ch c vals j :=
  absBits_val_nonneg f _

theorem absBits_expo (f : Fmt) (b : Nat) : f.expo (absBits f b) = f.expo b := by
  unfold Fmt.expo absBits
  rw [Nat.pow_add, Nat.mul_comm (2 ^ f.ebits), Nat.mod_mul_right_div_self, Nat.mod_mod]

theorem absBits_finite (f : Fmt) (b : Nat) : f.isFinite (absBits f b) = f.isFinite b := by
  unfold Fmt.isFinite; rw [absBits_expo]

theorem V64_zero : V64 0 = 0 := by
  unfold V64; rw [Dy.val_eq]; simp [Fmt.toDy, Fmt.expo, Fmt.frac, Dy.mag]

theorem absBits_zero (f : Fmt) : absBits f 0 = 0 := by simp [absBits]

theorem widenOK_of_finite (f : Fmt) (hf : f = Float.f32 ∨ f = Float.f64) (b : Nat) (hfin : f.isFinite b = true) : WidenOK f b := by
  unfold WidenOK widenB V64
  rcases hf with rfl | rfl
  · simp only [beq_self_eq_true, if_true]
    exact (f32to64_exact b hfin).1
  · have : (Float.f64 == Float.f32) = false := by decide
    simp only [this, Bool.false_eq_true, if_false]

theorem widenOK_col (f : Fmt) (hf : f = Float.f32 ∨ f = Float.f64) (ch c : Nat) (vals : List Nat)
    (h : ∀ x ∈ vals, f.isFinite x = true) (j : Nat) : WidenOK f (colB f ch c vals j) := by
  apply widenOK_of_finite f hf
  unfold colB
  rw [absBits_finite]
  by_cases hi : c + j * ch < vals.length
  · rw [List.getD_eq_getElem?_getD, List.getElem?_eq_getElem hi]
    exact h _ (List.getElem_mem hi)
  · rw [List.getD_eq_getElem?_getD, List.getElem?_eq_none (by omega)]
    rcases hf with rfl | rfl <;> decide

/-! ## the staging buffers of one call -/

theorem chunksOf_flatten_take {α : Type} (n : Nat) (l : List α) (k : Nat) :
    ((List.range k).map fun i => (l.drop (i * n)).take n).flatten = l.take (k * n) := by
  induction k with
  | zero => simp
  | succ k ih =>
    rw [List.range_succ, List.map_append, List.flatten_append, ih]
    simp only [List.map_cons, List.map_nil, List.flatten_cons, List.flatten_nil, List.append_nil]
    rw [Nat.succ_mul, List.take_add]

theorem chunksOf_flatten {α : Type} (n : Nat) (l : List α) : (chunksOf n l).flatten = l := by
  unfold chunksOf
  by_cases hn : n = 0
  · simp [hn]
  · have : (n == 0) = false := by simpa using hn
    simp only [this, Bool.false_eq_true, if_false]
    rw [chunksOf_flatten_take]
    apply List.take_of_length_le
    have h1 := Nat.div_add_mod (l.length + n - 1) n
    have h2 := Nat.mod_lt (l.length + n - 1) (Nat.pos_of_ne_zero hn)
    have h3 : n * ((l.length + n - 1) / n) = (l.length + n - 1) / n * n := Nat.mul_comm _ _
    omega

/-- with a buffer of whole frames every chunk of a call of whole frames is a positive number of whole frames -/
theorem chunksOf_frames {α : Type} (n ch : Nat) (l : List α) (hl : 0 < l.length) (hlm : l.length % ch = 0) (hnm : n % ch = 0) :
    ∀ c ∈ chunksOf n l, 0 < c.length ∧ c.length % ch = 0 := by
  unfold chunksOf
  by_cases hn : n = 0
  · simp [hn]; exact ⟨List.ne_nil_of_length_pos hl |> List.length_pos_iff.mpr, hlm⟩
  · have : (n == 0) = false := by simpa using hn
    simp only [this, Bool.false_eq_true, if_false]
    intro c hc
    simp only [List.mem_map, List.mem_range] at hc
    obtain ⟨i, hi, rfl⟩ := hc
    have hlt : i * n < l.length := by
      have h1 := Nat.div_add_mod (l.length + n - 1) n
      have h2 := Nat.mod_lt (l.length + n - 1) (Nat.pos_of_ne_zero hn)
      have h3 : (i + 1) * n ≤ (l.length + n - 1) / n * n := Nat.mul_le_mul_right _ hi
      have h4 : n * ((l.length + n - 1) / n) = (l.length + n - 1) / n * n := Nat.mul_comm _ _
      have h5 : (i + 1) * n = i * n + n := Nat.succ_mul _ _
      omega
    rw [List.length_take, List.length_drop]
    have hpos : 0 < n := Nat.pos_of_ne_zero hn
    refine ⟨by omega, ?_⟩
    have hd1 : ch ∣ n := Nat.dvd_of_mod_eq_zero hnm
    have hd2 : ch ∣ l.length - i * n :=
      Nat.dvd_sub (Nat.dvd_of_mod_eq_zero hlm) (Dvd.dvd.mul_left hd1 i)
    rcases Nat.le_total n (l.length - i * n) with h | h
    · rw [Nat.min_eq_left h]; exact Nat.mod_eq_zero_of_dvd hd1
    · rw [Nat.min_eq_right h]; exact Nat.mod_eq_zero_of_dvd hd2

/-- the fold of `peakUpdate` over the buffers of one call: `done` items of the call are already accounted for -/
theorem chunks_inv (f : Fmt) (hf : f = Float.f32 ∨ f = Float.f64) (ch : Nat) (hch : 0 < ch) (N : Nat) :
    ∀ (cs : List (List Nat)) (pre post : List Nat) (done : Nat) (ps : List Peak),
      (∀ c ∈ cs, 0 < c.length ∧ c.length % ch = 0) → (∀ c ∈ cs, ∀ x ∈ c, f.isFinite x = true) →
      done % ch = 0 → pre.length = N * ch + done →
      AllInv f ch (pre ++ cs.flatten ++ post) (N + done / ch) ps →
      AllInv f ch (pre ++ cs.flatten ++ post) (N + (done + cs.flatten.length) / ch)
        (cs.foldl (fun (acc : List Peak × Nat) c =>
          (peakChunkUpdate f ch (N : Int) ((acc.2 / ch : Nat) : Int) c acc.1, acc.2 + c.length)) (ps, done)).1 := by
  intro cs
  induction cs with
  | nil => intro pre post done ps _ _ _ _ inv; simpa using inv
  | cons c cs ih =>
    intro pre post done ps hfr hfin hdone hpre inv
    obtain ⟨hcpos, hcm⟩ := hfr c List.mem_cons_self
    have hcl : c.length = (c.length / ch) * ch := (Nat.div_mul_cancel (Nat.dvd_of_mod_eq_zero hcm)).symm
    have hn : 0 < c.length / ch := Nat.div_pos (Nat.le_of_dvd hcpos (Nat.dvd_of_mod_eq_zero hcm)) hch
    have hpre' : pre.length = (N + done / ch) * ch := by
      rw [hpre, Nat.add_mul, Nat.div_mul_cancel (Nat.dvd_of_mod_eq_zero hdone)]
    have hassoc : pre ++ (c :: cs).flatten ++ post = pre ++ c ++ (cs.flatten ++ post) := by
      simp [List.append_assoc]
    rw [hassoc] at inv ⊢
    have hci := chunk_inv f ch pre c (cs.flatten ++ post) (N + done / ch) (c.length / ch) hpre' hcl hn
      (fun c' _ j => widenOK_col f hf ch c' c (hfin c List.mem_cons_self) j)
      (N : Int) ((done / ch : Nat) : Int) (by push_cast; rfl) ps inv
    have hassoc2 : pre ++ c ++ (cs.flatten ++ post) = (pre ++ c) ++ cs.flatten ++ post := by simp [List.append_assoc]
    rw [hassoc2] at hci ⊢
    have hdone' : (done + c.length) % ch = 0 := by
      rw [Nat.add_mod, hdone, hcm]; simp
    have hdiv : N + done / ch + c.length / ch = N + (done + c.length) / ch := by
      rw [Nat.add_assoc]; congr 1
      obtain ⟨a, ha⟩ := Nat.dvd_of_mod_eq_zero hdone
      obtain ⟨b, hb⟩ := Nat.dvd_of_mod_eq_zero hcm
      rw [ha, hb, ← Nat.mul_add, Nat.mul_div_cancel_left _ hch, Nat.mul_div_cancel_left _ hch, Nat.mul_div_cancel_left _ hch]
    rw [hdiv] at hci
    have := ih (pre ++ c) post (done + c.length) _ (fun c' hc' => hfr c' (List.mem_cons_of_mem _ hc'))
      (fun c' hc' => hfin c' (List.mem_cons_of_mem _ hc')) hdone' (by rw [List.length_append, hpre]; omega) hci
    simp only [List.foldl_cons, List.flatten_cons, List.length_append]
    rw [← Nat.add_assoc]
    exact this

/-! ## one call -/

def fileFmt : Enc → Fmt | .dbl _ => Float.f64 | _ => Float.f32
def fileTy : Enc → Ty | .dbl _ => .f64 | _ => .f32

/-- the caller's value as the file-typed bit pattern the PEAK bookkeeping looks at (`conv` inside `Sf.peakUpdate`) -/
def convVal (enc : Enc) (conv : Conv) (ty : Ty) (v : Int) : Nat :=
  match enc with
  | .flt _ => (match ty with | .s16 | .s32 => floatOfInt Float.f32 conv.scaleIF ty v | .f32 => v.toNat | .f64 => Float.f64to32 v.toNat)
  | _ => (match ty with | .s16 | .s32 => floatOfInt Float.f64 conv.scaleIF ty v | .f32 => Float.f32to64 v.toNat | .f64 => v.toNat)

theorem fileFmt_std (enc : Enc) : fileFmt enc = Float.f32 ∨ fileFmt enc = Float.f64 := by
  cases enc <;> simp [fileFmt]

/-- buffer length used for a call: the whole call when the caller's type is the file's, else whole frames of the staging buffer -/
def callChunk (enc : Enc) (ch : Nat) (ty : Ty) : Nat := if ty = fileTy enc then 0 else stagingLen (fileFmt enc) ch

theorem stagingLen_mod (f : Fmt) (ch : Nat) : stagingLen f ch % ch = 0 := by
  unfold stagingLen
  generalize 8192 / (f.width / 8) = a
  have h := Nat.div_add_mod a ch
  have : a - a % ch = ch * (a / ch) := by omega
  rw [this]; exact Nat.mul_mod_right _ _

theorem callChunk_mod (enc : Enc) (ch : Nat) (ty : Ty) : callChunk enc ch ty % ch = 0 := by
  unfold callChunk; split
  · exact Nat.zero_mod _
  · exact stagingLen_mod _ _

theorem upd_eq (enc : Enc) (hfl : enc.isFloatData = true) (conv : Conv) (ch : Nat) (wpos : Int) (ty : Ty) (vals : List Int)
    (ps : List Peak) :
    upd (some ps) enc conv ch wpos ty vals =
      some ((chunksOf (callChunk enc ch ty) (vals.map (convVal enc conv ty))).foldl (fun (acc : List Peak × Nat) c =>
        (peakChunkUpdate (fileFmt enc) ch wpos ((acc.2 / ch : Nat) : Int) c acc.1, acc.2 + c.length)) (ps, 0)).1 := by
  cases enc with
  | pcm p => simp [Enc.isFloatData] at hfl
  | ulaw => simp [Enc.isFloatData] at hfl
  | alaw => simp [Enc.isFloatData] at hfl
  | flt b =>
    have hc : (if (ty == Ty.f32) = true then 0 else stagingLen Float.f32 ch) = callChunk (.flt b) ch ty := by
      unfold callChunk fileTy fileFmt; by_cases h : ty = .f32 <;> simp [h]
    simp only [upd, peakUpdate, fileFmt]
    change some ((chunksOf (if (ty == Ty.f32) = true then 0 else stagingLen Float.f32 ch) (vals.map (convVal (.flt b) conv ty))).foldl _ (ps, 0)).1 = _
    rw [hc]
  | dbl b =>
    have hc : (if (ty == Ty.f64) = true then 0 else stagingLen Float.f64 ch) = callChunk (.dbl b) ch ty := by
      unfold callChunk fileTy fileFmt; by_cases h : ty = .f64 <;> simp [h]
    simp only [upd, peakUpdate, fileFmt]
    change some ((chunksOf (if (ty == Ty.f64) = true then 0 else stagingLen Float.f64 ch) (vals.map (convVal (.dbl b) conv ty))).foldl _ (ps, 0)).1 = _
    rw [hc]

/-! ## a sequence of calls -/

/-- every written sample as the file-typed bit pattern, in file order -/
def fileVals (enc : Enc) (conv : Conv) (calls : List (Ty × List Int)) : List Nat :=
  calls.flatMap fun c => c.2.map (convVal enc conv c.1)

/-- a well-formed call: a positive whole number of frames of samples that are finite in the file's type -/
def WellFormed (enc : Enc) (conv : Conv) (ch : Nat) (call : Ty × List Int) : Prop :=
  0 < call.2.length ∧ call.2.length % ch = 0 ∧
  ∀ x ∈ call.2, (fileFmt enc).isFinite (convVal enc conv call.1 x) = true

theorem run_inv (enc : Enc) (hfl : enc.isFloatData = true) (conv : Conv) (ch : Nat) (hch : 0 < ch) :
    ∀ (calls : List (Ty × List Int)) (pre : List Nat) (N : Nat) (post : List Nat) (ps : List Peak),
      (∀ call ∈ calls, WellFormed enc conv ch call) → pre.length = N * ch →
      AllInv (fileFmt enc) ch (pre ++ fileVals enc conv calls ++ post) N ps →
      ∃ ps', run enc conv ch (some ps) (N : Int) calls = some ps' ∧
        AllInv (fileFmt enc) ch (pre ++ fileVals enc conv calls ++ post) (N + (fileVals enc conv calls).length / ch) ps' := by
  intro calls
  induction calls with
  | nil =>
    intro pre N post ps _ _ inv
    exact ⟨ps, rfl, by simpa [fileVals] using inv⟩
  | cons call cs ih =>
    intro pre N post ps hgood hpre inv
    obtain ⟨ty, data⟩ := call
    obtain ⟨hpos, hmod, hfin⟩ := hgood (ty, data) (List.mem_cons_self)
    simp only at hpos hmod hfin
    let vals := data.map (convVal enc conv ty)
    have hvlen : vals.length = data.length := by simp [vals]
    have hfv : fileVals enc conv ((ty, data) :: cs) = vals ++ fileVals enc conv cs := by simp [fileVals, vals]
    have hfl' := chunksOf_flatten (callChunk enc ch ty) vals
    have hassoc : pre ++ fileVals enc conv ((ty, data) :: cs) ++ post =
        pre ++ (chunksOf (callChunk enc ch ty) vals).flatten ++ (fileVals enc conv cs ++ post) := by
      rw [hfv, hfl']; simp [List.append_assoc]
    rw [hassoc] at inv
    have hframes := chunksOf_frames (callChunk enc ch ty) ch vals (by rw [hvlen]; exact hpos) (by rw [hvlen]; exact hmod)
      (callChunk_mod enc ch ty)
    have hfinc : ∀ c ∈ chunksOf (callChunk enc ch ty) vals, ∀ x ∈ c, (fileFmt enc).isFinite x = true := by
      intro c hc x hx
      have hxm : x ∈ (chunksOf (callChunk enc ch ty) vals).flatten := List.mem_flatten.mpr ⟨c, hc, hx⟩
      rw [hfl'] at hxm
      simp only [vals, List.mem_map] at hxm
      obtain ⟨y, hy, rfl⟩ := hxm
      exact hfin y hy
    have hci := chunks_inv (fileFmt enc) (fileFmt_std enc) ch hch N (chunksOf (callChunk enc ch ty) vals) pre
      (fileVals enc conv cs ++ post) 0 ps hframes hfinc (Nat.zero_mod _) (by simpa using hpre) (by simpa using inv)
    rw [hfl'] at hci
    simp only [Nat.zero_add] at hci
    have hpre' : (pre ++ vals).length = (N + vals.length / ch) * ch := by
      rw [List.length_append, hpre, Nat.add_mul, Nat.div_mul_cancel (Nat.dvd_of_mod_eq_zero (by rw [hvlen]; exact hmod))]
    have hassoc2 : pre ++ vals ++ (fileVals enc conv cs ++ post) = (pre ++ vals) ++ fileVals enc conv cs ++ post := by
      simp [List.append_assoc]
    rw [hassoc2] at hci
    obtain ⟨ps', hrun, hinv'⟩ := ih (pre ++ vals) (N + vals.length / ch) post _
      (fun c hc => hgood c (List.mem_cons_of_mem _ hc)) hpre' hci
    refine ⟨ps', ?_, ?_⟩
    · simp only [run]
      rw [upd_eq enc hfl conv ch (N : Int) ty data ps]
      have : (N : Int) + (data.length : Int) / (ch : Int) = ((N + vals.length / ch : Nat) : Int) := by
        rw [hvlen]; push_cast; rfl
      rw [this]; exact hrun
    · have h1 : pre ++ fileVals enc conv ((ty, data) :: cs) ++ post = (pre ++ vals) ++ fileVals enc conv cs ++ post := by
        rw [hfv]; simp [List.append_assoc]
      rw [h1]
      have hcount : N + (fileVals enc conv ((ty, data) :: cs)).length / ch =
          N + vals.length / ch + (fileVals enc conv cs).length / ch := by
        rw [hfv, List.length_append]
        obtain ⟨a, ha⟩ := Nat.dvd_of_mod_eq_zero (show vals.length % ch = 0 by rw [hvlen]; exact hmod)
        rw [ha, Nat.mul_div_cancel_left _ hch, Nat.mul_comm ch a, Nat.add_comm (a * ch), Nat.add_mul_div_right _ _ hch]; omega
      rw [hcount]; exact hinv'

theorem allInv_init (f : Fmt) (ch : Nat) (all : List Nat) : AllInv f ch all 0 (mkPeaks ch) := by
  refine ⟨by simp [mkPeaks], ?_⟩
  intro c hc
  have : (mkPeaks ch).getD c {} = ({} : Peak) := by
    simp [mkPeaks, List.getD, hc]
  rw [this]
  show PInv _ _ 0 (V64 0) 0 0
  rw [V64_zero]; exact PInv.init _ _

/-- two PEAK states satisfying the invariant for the same samples are the same list -/
theorem allInv_unique (f : Fmt) (ch : Nat) (all : List Nat) (N : Nat) (ps1 ps2 : List Peak)
    (h1 : AllInv f ch all N ps1) (h2 : AllInv f ch all N ps2) : ps1 = ps2 := by
  apply List.ext_getElem (by rw [h1.1, h2.1])
  intro c hc1 hc2
  have hc : c < ch := by rw [← h1.1]; exact hc1
  obtain ⟨hb, hp⟩ := PInv.unique _ _ _ _ _ _ _ _ _ (h1.2 c hc) (h2.2 c hc)
  have e1 : ps1.getD c {} = ps1[c] := by simp [List.getD, hc1]
  have e2 : ps2.getD c {} = ps2[c] := by simp [List.getD, hc2]
  rw [e1, e2] at hb hp
  cases h : ps1[c]; cases h' : ps2[c]
  rw [h, h'] at hb hp
  simp only at hb hp
  rw [hb, hp]

end Sf.Peak
