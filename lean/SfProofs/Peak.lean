/-
  SfProofs.Peak — helper lemmas for C18: the running (value, position) invariant of the PEAK bookkeeping,
  the per-channel scan of `Sf.peakChunkUpdate`, and the scan loops of the CALC commands.
-/
import SfProofs.FloatExact
import SfModel.Peak
namespace Sf.Peak
open Sf Sf.Float

/-! ## abstract invariant: (running maximum, frame of its first occurrence) -/

/-- after `N` frames of a channel whose magnitudes are `K 0, K 1, …` the state is `(v, pos)` -/
structure PInv (K : Nat → ℚ) (N : Nat) (v : ℚ) (pos : Int) : Prop where
  nn : 0 ≤ v
  ub : ∀ j < N, K j ≤ v
  at_ : (v = 0 ∧ pos = 0) ∨ ∃ q < N, pos = (q : Int) ∧ v = K q ∧ ∀ j < q, K j < K q

theorem PInv.init (K : Nat → ℚ) : PInv K 0 0 0 := ⟨le_refl _, fun _ h => absurd h (Nat.not_lt_zero _), Or.inl ⟨rfl, rfl⟩⟩

/-- one update with a block of `n` frames whose own first maximum is at `q'`:
    `if (fmaxval > peaks.value) { value = fmaxval ; position = N + q' }` -/
theorem PInv.step (K : Nat → ℚ) (N n q' : Nat)
    (hmax : ∀ j < n, K (N + j) ≤ K (N + q')) (hfirst : ∀ j < q', K (N + j) < K (N + q')) (hq' : q' < n)
    (v : ℚ) (pos : Int) (inv : PInv K N v pos) :
    PInv K (N + n) (if v < K (N + q') then K (N + q') else v) (if v < K (N + q') then ((N + q' : Nat) : Int) else pos) := by
  by_cases hlt : v < K (N + q')
  · simp only [hlt, if_true]
    refine ⟨le_trans inv.nn (le_of_lt hlt), ?_, Or.inr ⟨N + q', by omega, rfl, rfl, ?_⟩⟩
    · intro j hj
      by_cases hjN : j < N
      · exact le_trans (inv.ub j hjN) (le_of_lt hlt)
      · have := hmax (j - N) (by omega)
        rwa [show N + (j - N) = j by omega] at this
    · intro j hj
      by_cases hjN : j < N
      · exact lt_of_le_of_lt (inv.ub j hjN) hlt
      · have := hfirst (j - N) (by omega)
        rwa [show N + (j - N) = j by omega] at this
  · simp only [hlt, if_false]
    have hle : K (N + q') ≤ v := not_lt.mp hlt
    refine ⟨inv.nn, ?_, ?_⟩
    · intro j hj
      by_cases hjN : j < N
      · exact inv.ub j hjN
      · have := hmax (j - N) (by omega)
        rw [show N + (j - N) = j by omega] at this
        exact le_trans this hle
    · rcases inv.at_ with h0 | ⟨q, hq, hp, hv, hf⟩
      · exact Or.inl h0
      · exact Or.inr ⟨q, by omega, hp, hv, hf⟩

/-- an update with an empty block changes nothing -/
theorem PInv.step_empty (K : Nat → ℚ) (N : Nat) (v : ℚ) (pos : Int) (inv : PInv K N v pos) : PInv K (N + 0) v pos := inv

/-- what the invariant says once at least one frame was written: the value is the maximum and the position is the
    first frame attaining it -/
theorem PInv.final (K : Nat → ℚ) (hK : ∀ j, 0 ≤ K j) (N : Nat) (hN : 0 < N) (v : ℚ) (pos : Int) (inv : PInv K N v pos) :
    ∃ q < N, pos = (q : Int) ∧ v = K q ∧ (∀ j < N, K j ≤ K q) ∧ ∀ j < q, K j < K q := by
  rcases inv.at_ with ⟨h0, hp⟩ | ⟨q, hq, hp, hv, hf⟩
  · refine ⟨0, hN, by simpa using hp, ?_, ?_, fun j hj => absurd hj (Nat.not_lt_zero _)⟩
    · have := inv.ub 0 hN; have := hK 0; linarith
    · intro j hj
      have h1 := inv.ub j hj
      have h2 := inv.ub 0 hN
      have := hK 0; have := hK j
      linarith
  · exact ⟨q, hq, hp, hv, fun j hj => by rw [← hv]; exact inv.ub j hj, hf⟩

/-! ## the per-channel scan of `peakChunkUpdate`, named -/

def narrowB (f : Fmt) (v : Nat) : Nat := if f == Float.f32 then v else Float.f64to32 v

def stepF (f : Fmt) (vals : List Nat) (acc : Nat × Nat) (k : Nat) : Nat × Nat :=
  let v := absBits f (vals.getD k 0)
  if (Float.f32.toDy acc.1).lt (f.toDy v) then (narrowB f v, k) else acc

/-- the inner loop for channel `c` over `n` frames: (fmaxval, position) -/
def chanScanN (f : Fmt) (ch c : Nat) (vals : List Nat) (n : Nat) : Nat × Nat :=
  ((List.range n).map fun j => c + j * ch).foldl (stepF f vals) (narrowB f (absBits f (vals.getD c 0)), 0)

def chanUpd (f : Fmt) (ch : Nat) (wcur indx : Int) (vals : List Nat) (p : Peak) (c : Nat) : Peak :=
  let r := chanScanN f ch c vals ((vals.length + ch - 1 - c) / ch)
  let mx64 := Float.f32to64 r.1
  if (Float.f64.toDy p.value).lt (Float.f64.toDy mx64) then
    { value := mx64, position := wcur + indx + (r.2 / ch : Nat) }
  else p

theorem peakChunkUpdate_eq (f : Fmt) (ch : Nat) (wcur indx : Int) (vals : List Nat) (ps : List Peak) :
    peakChunkUpdate f ch wcur indx vals ps = (List.range ch).map fun c => chanUpd f ch wcur indx vals (ps.getD c {}) c := rfl


/-- magnitude pattern of frame `j` of channel `c` in an interleaved buffer -/
def colB (f : Fmt) (ch c : Nat) (vals : List Nat) (j : Nat) : Nat := absBits f (vals.getD (c + j * ch) 0)

/-- its exact value -/
def colK (f : Fmt) (ch c : Nat) (vals : List Nat) (j : Nat) : ℚ := (f.toDy (colB f ch c vals j)).val

/-- the running maximum survives the narrowing to `float fmaxval` unchanged (always true for FLOAT data; for DOUBLE
    data: the magnitude is exactly representable in binary32) -/
def RepOK (f : Fmt) (b : Nat) : Prop :=
  (Float.f32.toDy (narrowB f b)).val = (f.toDy b).val ∧ Float.f32.isFinite (narrowB f b) = true

theorem chanScanN_spec (f : Fmt) (ch c : Nat) (hc : c < ch) (vals : List Nat)
    (hrep : ∀ j, RepOK f (colB f ch c vals j)) (n : Nat) :
    ∃ q, q < max n 1 ∧ (chanScanN f ch c vals n).2 / ch = q ∧ (chanScanN f ch c vals n).1 = narrowB f (colB f ch c vals q) ∧
      (∀ j < max n 1, colK f ch c vals j ≤ colK f ch c vals q) ∧ (∀ j < q, colK f ch c vals j < colK f ch c vals q) := by
  induction n with
  | zero =>
    refine ⟨0, by decide, ?_, ?_, ?_, ?_⟩
    · simp [chanScanN]
    · simp [chanScanN, colB]
    · intro j hj; have : j = 0 := by simp at hj; omega
      subst this; exact le_refl _
    · intro j hj; omega
  | succ n ih =>
    obtain ⟨q, hq, hpos, hmx, hall, hfirst⟩ := ih
    have hstep : chanScanN f ch c vals (n + 1) = stepF f vals (chanScanN f ch c vals n) (c + n * ch) := by
      simp [chanScanN, List.range_succ, List.map_append, List.foldl_append]
    rw [hstep]
    unfold stepF
    have hv : absBits f (vals.getD (c + n * ch) 0) = colB f ch c vals n := rfl
    simp only [hv]
    have hcmp : ((Float.f32.toDy (chanScanN f ch c vals n).1).lt (f.toDy (colB f ch c vals n)) = true) ↔
        colK f ch c vals q < colK f ch c vals n := by
      rw [Dy.lt_iff, hmx, (hrep q).1]; rfl
    by_cases hlt : colK f ch c vals q < colK f ch c vals n
    · rw [if_pos (hcmp.mpr hlt)]
      refine ⟨n, by omega, ?_, rfl, ?_, ?_⟩
      · show (c + n * ch) / ch = n
        rw [Nat.add_mul_div_right _ _ (by omega : 0 < ch), Nat.div_eq_of_lt hc]; omega
      · intro j hj
        by_cases hj2 : j < max n 1
        · exact le_of_lt (lt_of_le_of_lt (hall j hj2) hlt)
        · have : j = n := by omega
          subst this; exact le_refl _
      · intro j hj
        exact lt_of_le_of_lt (hall j (by omega)) hlt
    · rw [if_neg (fun h => hlt (hcmp.mp h))]
      refine ⟨q, by omega, hpos, hmx, ?_, hfirst⟩
      intro j hj
      by_cases hj2 : j < max n 1
      · exact hall j hj2
      · have : j = n := by omega
        subst this; exact not_lt.mp hlt


/-! ## one chunk, one channel: the invariant is carried -/

/-- exact value of a binary64 pattern -/
def V64 (b : Nat) : ℚ := (Float.f64.toDy b).val

theorem scan_frames (n ch c : Nat) (hc : c < ch) : (n * ch + ch - 1 - c) / ch = n := by
  have h : n * ch + ch - 1 - c = (ch - 1 - c) + n * ch := by omega
  rw [h, Nat.add_mul_div_right _ _ (by omega : 0 < ch), Nat.div_eq_of_lt (by omega)]; omega

theorem chanUpd_inv (f : Fmt) (ch c : Nat) (hc : c < ch) (vals : List Nat) (n : Nat) (hlen : vals.length = n * ch) (hn : 0 < n)
    (hrep : ∀ j, RepOK f (colB f ch c vals j)) (K : Nat → ℚ) (N : Nat) (hK : ∀ j < n, K (N + j) = colK f ch c vals j)
    (wcur indx : Int) (hN : wcur + indx = (N : Int)) (p : Peak) (inv : PInv K N (V64 p.value) p.position) :
    PInv K (N + n) (V64 (chanUpd f ch wcur indx vals p c).value) (chanUpd f ch wcur indx vals p c).position := by
  obtain ⟨q, hq, hpos, hmx, hall, hfirst⟩ := chanScanN_spec f ch c hc vals hrep n
  have hqn : q < n := by omega
  have hmax1 : max n 1 = n := by omega
  rw [hmax1] at hall
  have hfin := (hrep q).2
  have hex := f32to64_exact (narrowB f (colB f ch c vals q)) hfin
  have hval : V64 (Float.f32to64 (chanScanN f ch c vals n).1) = K (N + q) := by
    rw [hmx, hK q hqn]; unfold V64; rw [hex.1, (hrep q).1]; rfl
  have hstep := PInv.step K N n q
    (fun j hj => by rw [hK j hj, hK q hqn]; exact hall j hj)
    (fun j hj => by rw [hK j (by omega), hK q hqn]; exact hfirst j hj) hqn _ _ inv
  unfold chanUpd
  rw [hlen, scan_frames n ch c hc]
  simp only []
  have hcmp : ((Float.f64.toDy p.value).lt (Float.f64.toDy (Float.f32to64 (chanScanN f ch c vals n).1)) = true) ↔
      V64 p.value < K (N + q) := by
    rw [Dy.lt_iff, ← hval]; rfl
  by_cases hlt : V64 p.value < K (N + q)
  · rw [if_pos (hcmp.mpr hlt)]
    rw [if_pos hlt, if_pos hlt] at hstep
    simp only [hval, hpos]
    have : wcur + indx + ((q : Nat) : Int) = ((N + q : Nat) : Int) := by push_cast; omega
    rw [this]; exact hstep
  · rw [if_neg (fun h => hlt (hcmp.mp h))]
    rw [if_neg hlt, if_neg hlt] at hstep
    exact hstep

/-! ## one chunk, all channels -/

theorem getD_map_range {α : Type} (g : Nat → α) (n c : Nat) (hc : c < n) (d : α) : ((List.range n).map g).getD c d = g c := by
  simp [List.getD, List.getElem?_map, List.getElem?_range hc]

/-- state of all channels after `N` frames of the interleaved magnitudes `all` -/
def AllInv (f : Fmt) (ch : Nat) (all : List Nat) (N : Nat) (ps : List Peak) : Prop :=
  ps.length = ch ∧ ∀ c < ch, PInv (colK f ch c all) N (V64 (ps.getD c {}).value) (ps.getD c {}).position

theorem colK_append (f : Fmt) (ch c : Nat) (hc : c < ch) (pre vals post : List Nat) (N n : Nat) (hpre : pre.length = N * ch)
    (hlen : vals.length = n * ch) (j : Nat) (hj : j < n) :
    colK f ch c (pre ++ vals ++ post) (N + j) = colK f ch c vals j := by
  unfold colK colB
  have hidx : c + (N + j) * ch = pre.length + (c + j * ch) := by rw [hpre]; ring
  have hlt : c + j * ch < vals.length := by
    rw [hlen]
    calc c + j * ch < ch + j * ch := by omega
      _ = (j + 1) * ch := by ring
      _ ≤ n * ch := Nat.mul_le_mul_right _ (by omega)
  rw [hidx]
  simp only [List.getD_eq_getElem?_getD]
  rw [List.append_assoc, List.getElem?_append_right (by omega), Nat.add_sub_cancel_left, List.getElem?_append_left hlt]

theorem chunk_inv (f : Fmt) (ch : Nat) (pre vals post : List Nat) (N n : Nat) (hpre : pre.length = N * ch)
    (hlen : vals.length = n * ch) (hn : 0 < n)
    (hrep : ∀ c < ch, ∀ j, RepOK f (colB f ch c vals j))
    (wcur indx : Int) (hN : wcur + indx = (N : Int)) (ps : List Peak)
    (inv : AllInv f ch (pre ++ vals ++ post) N ps) :
    AllInv f ch (pre ++ vals ++ post) (N + n) (peakChunkUpdate f ch wcur indx vals ps) := by
  rw [peakChunkUpdate_eq]
  refine ⟨by simp, ?_⟩
  intro c hc
  rw [getD_map_range _ ch c hc]
  exact chanUpd_inv f ch c hc vals n hlen hn (hrep c hc) _ N
    (fun j hj => colK_append f ch c hc pre vals post N n hpre hlen j hj) wcur indx hN _ (inv.2 c hc)


/-! ## one call -/

def fileFmt : Enc → Fmt | .dbl _ => Float.f64 | _ => Float.f32
def fileTy : Enc → Ty | .dbl _ => .f64 | _ => .f32

/-- the caller's value as the file-typed bit pattern the PEAK bookkeeping looks at (`conv` inside `Sf.peakUpdate`) -/
def convVal (enc : Enc) (conv : Conv) (ty : Ty) (v : Int) : Nat :=
  match enc with
  | .flt _ => (match ty with | .s16 | .s32 => floatOfInt Float.f32 conv.scaleIF ty v | .f32 => v.toNat | .f64 => Float.f64to32 v.toNat)
  | _ => (match ty with | .s16 | .s32 => floatOfInt Float.f64 conv.scaleIF ty v | .f32 => Float.f32to64 v.toNat | .f64 => v.toNat)

/-- items per staging-buffer chunk: 8192 / sizeof (file sample) -/
def stagingItems (enc : Enc) : Nat := 8192 / ((fileFmt enc).width / 8)

/-- the call is handed to the PEAK update in one piece: caller type = file type (host_write_f / host_write_d),
    or the converted samples fit into one staging buffer -/
def SingleChunk (enc : Enc) (ty : Ty) (len : Nat) : Prop := ty = fileTy enc ∨ len ≤ stagingItems enc

theorem chunksOf_single {α : Type} (n : Nat) (l : List α) (hl : 0 < l.length) (h : n = 0 ∨ l.length ≤ n) : chunksOf n l = [l] := by
  unfold chunksOf
  rcases h with h | h
  · simp [h]
  · have hn : n ≠ 0 := by omega
    have h1 : (l.length + n - 1) / n = 1 := by
      apply Nat.div_eq_of_lt_le <;> omega
    simp [hn, h1, List.range_succ, List.take_of_length_le h]

theorem upd_single (enc : Enc) (hfl : enc.isFloatData = true) (conv : Conv) (ch : Nat) (wpos : Int) (ty : Ty) (vals : List Int)
    (ps : List Peak) (hne : 0 < vals.length) (hs : SingleChunk enc ty vals.length) :
    upd (some ps) enc conv ch wpos ty vals =
      some (peakChunkUpdate (fileFmt enc) ch wpos ((0 / ch : Nat) : Int) (vals.map (convVal enc conv ty)) ps) := by
  have hlen : 0 < (vals.map (convVal enc conv ty)).length := by simpa using hne
  cases enc with
  | pcm p => simp [Enc.isFloatData] at hfl
  | ulaw => simp [Enc.isFloatData] at hfl
  | alaw => simp [Enc.isFloatData] at hfl
  | flt b =>
    have hc : chunksOf (if (ty == Ty.f32) = true then 0 else 8192 / (Float.f32.width / 8)) (vals.map (convVal (.flt b) conv ty)) =
        [vals.map (convVal (.flt b) conv ty)] := by
      apply chunksOf_single _ _ hlen
      rcases hs with h | h
      · left; simp [h, fileTy]
      · by_cases ht : ty = .f32
        · left; simp [ht]
        · right; simp only [beq_iff_eq, ht, if_false]; simpa [stagingItems, fileFmt] using h
    simp only [upd, peakUpdate, fileFmt]
    change some ((chunksOf _ (vals.map (convVal (.flt b) conv ty))).foldl _ (ps, 0)).1 = _
    rw [hc]
    rfl
  | dbl b =>
    have hc : chunksOf (if (ty == Ty.f64) = true then 0 else 8192 / (Float.f64.width / 8)) (vals.map (convVal (.dbl b) conv ty)) =
        [vals.map (convVal (.dbl b) conv ty)] := by
      apply chunksOf_single _ _ hlen
      rcases hs with h | h
      · left; simp [h, fileTy]
      · by_cases ht : ty = .f64
        · left; simp [ht]
        · right; simp only [beq_iff_eq, ht, if_false]; simpa [stagingItems, fileFmt] using h
    simp only [upd, peakUpdate, fileFmt]
    change some ((chunksOf _ (vals.map (convVal (.dbl b) conv ty))).foldl _ (ps, 0)).1 = _
    rw [hc]
    rfl


/-! ## magnitudes are non-negative; zero is harmless -/

theorem absBits_sign (f : Fmt) (b : Nat) : f.sign (absBits f b) = false := by
  unfold Fmt.sign absBits
  rw [Nat.div_eq_of_lt (Nat.mod_lt _ (Nat.pos_of_ne_zero (by simp)))]
  simp

theorem toDy_neg (f : Fmt) (b : Nat) : (f.toDy b).neg = f.sign b := by
  unfold Fmt.toDy; dsimp only; split <;> rfl

theorem absBits_val_nonneg (f : Fmt) (b : Nat) : 0 ≤ (f.toDy (absBits f b)).val := by
  rw [Dy.val_eq, toDy_neg, absBits_sign]
  simp only [Bool.false_eq_true, if_false]
  exact Dy.mag_nonneg _

theorem colK_nonneg (f : Fmt) (ch c : Nat) (vals : List Nat) (j : Nat) : 0 ≤ colK f ch c vals j :=
  absBits_val_nonneg f _

theorem V64_zero : V64 0 = 0 := by
  unfold V64; rw [Dy.val_eq]; simp [Fmt.toDy, Fmt.expo, Fmt.frac, Dy.mag]

theorem RepOK_zero32 : RepOK Float.f32 0 := by
  refine ⟨rfl, by decide⟩

theorem RepOK_zero64 : RepOK Float.f64 0 := by
  have h : narrowB Float.f64 0 = 0 := by decide
  refine ⟨?_, by rw [h]; decide⟩
  rw [h, Dy.val_eq, Dy.val_eq]
  simp [Fmt.toDy, Fmt.expo, Fmt.frac, Dy.mag]

theorem absBits_zero (f : Fmt) : absBits f 0 = 0 := by simp [absBits]

theorem RepOK_col (f : Fmt) (hf : f = Float.f32 ∨ f = Float.f64) (ch c : Nat) (vals : List Nat)
    (h : ∀ x ∈ vals, RepOK f (absBits f x)) (j : Nat) : RepOK f (colB f ch c vals j) := by
  unfold colB
  by_cases hi : c + j * ch < vals.length
  · rw [List.getD_eq_getElem?_getD, List.getElem?_eq_getElem hi]
    exact h _ (List.getElem_mem hi)
  · rw [List.getD_eq_getElem?_getD, List.getElem?_eq_none (by omega)]
    simp only [Option.getD_none, absBits_zero]
    rcases hf with rfl | rfl
    · exact RepOK_zero32
    · exact RepOK_zero64

/-! ## a sequence of calls -/

/-- every written sample as the file-typed bit pattern, in file order -/
def fileVals (enc : Enc) (conv : Conv) (calls : List (Ty × List Int)) : List Nat :=
  calls.flatMap fun c => c.2.map (convVal enc conv c.1)

/-- a write call outside the two defect classes: whole frames, handed over in one piece, every magnitude exactly
    representable in binary32 and finite -/
def GoodCall (enc : Enc) (conv : Conv) (ch : Nat) (call : Ty × List Int) : Prop :=
  0 < call.2.length ∧ call.2.length % ch = 0 ∧ SingleChunk enc call.1 call.2.length ∧
  ∀ x ∈ call.2, RepOK (fileFmt enc) (absBits (fileFmt enc) (convVal enc conv call.1 x))

theorem fileFmt_std (enc : Enc) : fileFmt enc = Float.f32 ∨ fileFmt enc = Float.f64 := by
  cases enc <;> simp [fileFmt]

theorem run_inv (enc : Enc) (hfl : enc.isFloatData = true) (conv : Conv) (ch : Nat) (hch : 0 < ch) :
    ∀ (calls : List (Ty × List Int)) (pre : List Nat) (N : Nat) (post : List Nat) (ps : List Peak),
      (∀ call ∈ calls, GoodCall enc conv ch call) → pre.length = N * ch →
      AllInv (fileFmt enc) ch (pre ++ fileVals enc conv calls ++ post) N ps →
      ∃ ps', run enc conv ch (some ps) (N : Int) calls = some ps' ∧
        AllInv (fileFmt enc) ch (pre ++ fileVals enc conv calls ++ post) (N + (fileVals enc conv calls).length / ch) ps' := by
  intro calls
  induction calls with
  | nil =>
    intro pre N post ps _ _ inv
    exact ⟨ps, rfl, by simpa [fileVals] using inv⟩
  | cons call cs ih =>
    intro pre N post ps hgood hpre inv
    obtain ⟨ty, data⟩ := call
    obtain ⟨hpos, hmod, hsc, hrep⟩ := hgood (ty, data) (List.mem_cons_self)
    simp only at hpos hmod hsc hrep
    let vals := data.map (convVal enc conv ty)
    have hvl : vals.length = (data.length / ch) * ch := by
      simp only [vals, List.length_map]; exact (Nat.div_mul_cancel (Nat.dvd_of_mod_eq_zero hmod)).symm
    have hn : 0 < data.length / ch := Nat.div_pos (Nat.le_of_dvd hpos (Nat.dvd_of_mod_eq_zero hmod)) hch
    have hfv : fileVals enc conv ((ty, data) :: cs) = vals ++ fileVals enc conv cs := by simp [fileVals, vals]
    have hassoc : pre ++ fileVals enc conv ((ty, data) :: cs) ++ post = pre ++ vals ++ (fileVals enc conv cs ++ post) := by
      rw [hfv]; simp [List.append_assoc]
    have hrepc : ∀ c < ch, ∀ j, RepOK (fileFmt enc) (colB (fileFmt enc) ch c vals j) := by
      intro c _ j
      apply RepOK_col _ (fileFmt_std enc)
      intro x hx
      simp only [vals, List.mem_map] at hx
      obtain ⟨y, hy, rfl⟩ := hx
      exact hrep y hy
    rw [hassoc] at inv
    have hci := chunk_inv (fileFmt enc) ch pre vals (fileVals enc conv cs ++ post) N (data.length / ch) hpre hvl hn hrepc
      (N : Int) ((0 / ch : Nat) : Int) (by simp) ps inv
    have hpre' : (pre ++ vals).length = (N + data.length / ch) * ch := by
      rw [List.length_append, hpre, hvl]; ring
    have hassoc2 : pre ++ vals ++ (fileVals enc conv cs ++ post) = (pre ++ vals) ++ fileVals enc conv cs ++ post := by
      simp [List.append_assoc]
    rw [hassoc2] at hci
    obtain ⟨ps', hrun, hinv'⟩ := ih (pre ++ vals) (N + data.length / ch) post _
      (fun c hc => hgood c (List.mem_cons_of_mem _ hc)) hpre' hci
    refine ⟨ps', ?_, ?_⟩
    · simp only [run]
      rw [upd_single enc hfl conv ch (N : Int) ty data ps hpos hsc]
      have : (N : Int) + (data.length : Int) / (ch : Int) = ((N + data.length / ch : Nat) : Int) := by push_cast; rfl
      rw [this]; exact hrun
    · rw [hassoc, hassoc2]
      have hcount : N + (fileVals enc conv ((ty, data) :: cs)).length / ch =
          N + data.length / ch + (fileVals enc conv cs).length / ch := by
        rw [hfv, List.length_append, hvl, Nat.add_comm (data.length / ch * ch), Nat.add_mul_div_right _ _ hch]; omega
      rw [hcount]; exact hinv'

theorem allInv_init (f : Fmt) (ch : Nat) (all : List Nat) : AllInv f ch all 0 (mkPeaks ch) := by
  refine ⟨by simp [mkPeaks], ?_⟩
  intro c hc
  have : (mkPeaks ch).getD c {} = ({} : Peak) := by
    simp [mkPeaks, List.getD, List.getElem?_replicate, hc]
  rw [this]
  show PInv _ 0 (V64 0) 0
  rw [V64_zero]; exact PInv.init _

end Sf.Peak
