/-
  SfProofs.AbsWriteBridgeSample — level B of the write-side bridge for container models whose closed bytes are a function
  of the SAMPLES handed to the write calls, not of the audio bytes alone (AIFF / AIFF-C, CAF: the PEAK chunk of a FLOAT /
  DOUBLE file holds per-channel maxima and their frame positions; W64 through the same interface): the SAMPLE-LEVEL variant
  of `Cont` / `Laws` (SfProofs/AbsWriteBridgeSmall.lean).

  A container model is seen through `SCont`: the closed bytes and the store after any list of SAMPLE-LEVEL session operations
  `SOp` (a write call handing over samples, with the auto-header flag in force; SFC_UPDATE_HEADER_NOW), per caller type, its
  parser, header length and sample encoding.  The job language (`Small.Op`), the calls, the reference run, the crash points
  and the read-back are those of the byte-level bridge.  `SLaws` is what a container's theorems must supply; the
  partition-independence law `closedFn` is stated ON SAMPLES: two guarded operation lists that hand over the same samples
  close to the same bytes (for a PEAK container this is `Sf.Peak.run_partition`: PEAK value and position do not depend on
  the split).  `sample_pred_good` (SfProofs/AbsWriteBridgeSampleRun.lean) derives `Good`, hence `accepted`.
-/
import SfProofs.AbsWriteBridgeSmallRun
namespace Sf.AbsWriteBridge.Sample
open Sf Sf.AbsWrite Sf.AbsWriteBridge Sf.Geometry

/-- one operation of the sample-level session machine -/
inductive SOp
  | write (xs : List Int) (auto : Bool)
  | update
deriving Repr, DecidableEq, Inhabited

/-- a container model whose images depend on the samples, as the bridge sees it -/
structure SCont where
  g : AbsWrite.Geom
  enc : Enc
  L : Nat                                               -- header length
  closed : Ty → Nat → List SOp → List Byte             -- the closed file (caller type, stale frames value, operations)
  store : Ty → Nat → List SOp → List Byte              -- the store right after the operations
  parse : List Byte → Small2.ParseRes

def SCont.bw (K : SCont) : Nat := K.enc.nbytes * K.g.ch

/-- session-machine operations of a job (`a`: SFC_SET_UPDATE_HEADER_AUTO in force) -/
def toS : Bool → List Small.Op → List SOp
  | _, [] => []
  | a, .write _ xs :: r => .write xs a :: toS a r
  | a, .update :: r => .update :: toS a r
  | _, .auto b :: r => toS b r

/-- the samples a list of operations hands over -/
def sData : List SOp → List Int
  | [] => []
  | .write xs _ :: r => xs ++ sData r
  | .update :: r => sData r

/-- the write calls of a list of operations, as the PEAK bookkeeping sees them -/
def sCalls (ty : Ty) : List SOp → List (Ty × List Int)
  | [] => []
  | .write xs _ :: r => (ty, xs) :: sCalls ty r
  | .update :: r => sCalls ty r

theorem sData_append : ∀ (xs ys : List SOp), sData (xs ++ ys) = sData xs ++ sData ys
  | [], _ => rfl
  | .write _ _ :: xs, ys => by simp [sData, sData_append xs ys]
  | .update :: xs, ys => by simp [sData, sData_append xs ys]

theorem sData_toS : ∀ (ops : List Small.Op) (a : Bool), sData (toS a ops) = Small.sampleList ops
  | [], _ => rfl
  | .write _ xs :: r, a => by simp [toS, sData, Small.sampleList, sData_toS r a]
  | .update :: r, a => by simp [toS, sData, Small.sampleList, sData_toS r a]
  | .auto b :: r, a => by simp [toS, Small.sampleList, sData_toS r b]

theorem toS_append : ∀ (xs ys : List Small.Op) (a : Bool), toS a (xs ++ ys) = toS a xs ++ toS (Small.autoAfter a xs) ys
  | [], _, _ => rfl
  | .write _ _ :: xs, ys, a => by simp [toS, Small.autoAfter, toS_append xs ys a]
  | .update :: xs, ys, a => by simp [toS, Small.autoAfter, toS_append xs ys a]
  | .auto b :: xs, ys, a => by simp [toS, Small.autoAfter, toS_append xs ys b]

/-- the operation list ends in a header rewrite: SFC_UPDATE_HEADER_NOW or a write call that transferred something in auto mode
    (a write call of zero items returns before it reaches the header) -/
def EndsInRewrite (ops : List SOp) : Prop := ∃ w x, ops = w ++ [x] ∧ (x = SOp.update ∨ ∃ xs, xs ≠ [] ∧ x = SOp.write xs true)

/-- every crash prefix is a prefix of the job and ends in a header rewrite -/
theorem crashes_spec : ∀ (rest pre : List Small.Op) (a : Bool) (p : List Small.Op), p ∈ Small.crashes pre rest a →
    ∃ mid post, p = pre ++ mid ∧ rest = mid ++ post ∧ ∀ a0, Small.autoAfter a0 pre = a → EndsInRewrite (toS a0 p)
  | [], _, _, _, hp => by simp [Small.crashes] at hp
  | .write fc xs :: r, pre, a, p, hp => by
    simp only [Small.crashes, List.mem_append] at hp
    rcases hp with hp | hp
    · split at hp
      · rename_i hc
        simp only [List.mem_singleton] at hp
        subst hp
        refine ⟨[.write fc xs], r, rfl, rfl, fun a0 ha => ?_⟩
        rw [toS_append, ha, hc.1]
        exact ⟨_, _, rfl, Or.inr ⟨_, hc.2, rfl⟩⟩
      · simp at hp
    · obtain ⟨mid, post, e1, e2, e3⟩ := crashes_spec r (pre ++ [.write fc xs]) a p hp
      refine ⟨.write fc xs :: mid, post, by rw [e1]; simp, by rw [e2]; rfl, fun a0 ha => e3 a0 ?_⟩
      rw [Small.autoAfter_append, ha]; rfl
  | .update :: r, pre, a, p, hp => by
    simp only [Small.crashes, List.mem_cons] at hp
    rcases hp with hp | hp
    · subst hp
      refine ⟨[.update], r, rfl, rfl, fun a0 _ => ?_⟩
      rw [toS_append]
      exact ⟨_, _, rfl, Or.inl rfl⟩
    · obtain ⟨mid, post, e1, e2, e3⟩ := crashes_spec r (pre ++ [.update]) a p hp
      refine ⟨.update :: mid, post, by rw [e1]; simp, by rw [e2]; rfl, fun a0 ha => e3 a0 ?_⟩
      rw [Small.autoAfter_append, ha]; rfl
  | .auto b :: r, pre, a, p, hp => by
    simp only [Small.crashes] at hp
    obtain ⟨mid, post, e1, e2, e3⟩ := crashes_spec r (pre ++ [.auto b]) b p hp
    refine ⟨.auto b :: mid, post, by rw [e1]; simp, by rw [e2]; rfl, fun a0 _ => e3 a0 ?_⟩
    rw [Small.autoAfter_append]; rfl

/-- the model's reader: the decoded bytes behind the header, cut at the frame count the parser reports; the rest of the
    requested region keeps the harness's fill pattern -/
def readBack (K : SCont) (ty : Ty) (want : Nat) (bytes : List Byte) : Int × List Int :=
  match K.parse bytes with
  | .ok i =>
    let items := (K.enc.decodeAll {} ty (bytes.drop K.L)).take (i.frames * K.g.ch)
    ((items.length : Int), items ++ List.replicate (want - items.length) (pattern ty))
  | _ => (0, [])

def snapOf (K : SCont) (ty : Ty) (stale : Nat) (p : List Small.Op) : LSnap :=
  let img := K.store ty stale (toS false p)
  let rb := readBack K ty ((framesOf K.g.ch (Small.callsOf K.g.ch p) + 8) * K.g.ch) img
  { k := (Small.callsOf K.g.ch p).length, info := Small.infoOf (K.parse img), ret := rb.1, data := rb.2 }

/-- THE PREDICTION of a sample-level container model for a job (`stale` / `stale'`: the two SF_INFO.frames values at open) -/
def predOf (K : SCont) (ty : Ty) (stale stale' : Nat) (ops : List Small.Op) : Pred :=
  let b1 := K.closed ty stale (toS false (Small.refOps ops))
  let N := framesOf K.g.ch (Small.callsOf K.g.ch ops)
  let rb := readBack K ty ((N + K.g.block + K.g.pad + 8) * K.g.ch) b1
  { g := K.g, ty := ty,
    one := { calls := Small.callsOf K.g.ch (Small.refOps ops), bytes := b1 },
    info := Small.infoOf (K.parse b1), rbRet := rb.1, rbData := rb.2, rbMore := 0,
    split := { calls := Small.callsOf K.g.ch ops, bytes := K.closed ty stale (toS false ops) },
    snaps := (Small.crashes [] ops false).map (snapOf K ty stale),
    stale := K.closed ty stale' (toS false (Small.refOps ops)) }

def recordOf (K : SCont) (ty : Ty) (stale stale' : Nat) (ops : List Small.Op) : Record := (predOf K ty stale stale' ops).record

/-! ## what a container's theorems must supply -/

/-- the laws of a sample-level container for the caller type `ty` under the guard `G` (whole frames, the container's size
    guards, and — for a PEAK container — what the PEAK theorems ask of a call: not empty, finite values) -/
structure SLaws (K : SCont) (ty : Ty) (G : List SOp → Prop) : Prop where
  chpos : 0 < K.g.ch
  nb : 0 < K.enc.nbytes
  wf : K.enc.wf
  block : K.g.block = 1
  notRaw : K.g.major ≠ 0x04
  /-- the configuration's encoding is the one the format word names (for the side condition of C01) -/
  codec : ∃ big, encOf .raw K.g.codec big = some K.enc
  /-- C04: the closed file is header ++ encoded samples ++ tail and re-opens with the requested parameters and all the frames -/
  closedForm : ∀ st ops, G ops → ∃ hdr tail, hdr.length = K.L ∧ K.closed ty st ops = hdr ++ K.enc.encodeAll {} ty (sData ops) ++ tail
  closedParse : ∀ st ops, G ops → ∃ i, K.parse (K.closed ty st ops) = .ok i ∧
    i.frames = (K.enc.encodeAll {} ty (sData ops)).length / K.bw ∧
    i.ch = K.g.ch ∧ i.fmt % 0x10000000 = K.g.word % 0x10000000 ∧ rateOk K.g.major K.g.sr (i.sr : Int) = true
  /-- C07 / C04, ON SAMPLES: the closed bytes are a function of the concatenated samples (not of the split, the header updates,
      the stale value) — PEAK value and position included -/
  closedFn : ∀ a b ops ops', G ops → G ops' → sData ops = sData ops' → K.closed ty a ops = K.closed ty b ops'
  /-- C11: the store after a header rewrite is header ++ encoded samples so far (++ nothing the parser counts) and opens with
      the same parameters -/
  storeForm : ∀ st ops, G ops → EndsInRewrite ops →
    ∃ hdr tail, hdr.length = K.L ∧ K.store ty st ops = hdr ++ K.enc.encodeAll {} ty (sData ops) ++ tail
  storeParse : ∀ st ops, G ops → EndsInRewrite ops → ∃ i, K.parse (K.store ty st ops) = .ok i ∧
    i.frames = (K.enc.encodeAll {} ty (sData ops)).length / K.bw ∧ i.ch = K.g.ch ∧ i.fmt % 0x10000000 = K.g.word % 0x10000000

/-- the model's reader on an image header ++ encoded samples ++ tail whose parser reports the samples' frames -/
theorem readBack_eval (K : SCont) (ty : Ty) (want : Nat) (bytes hdr tail : List Byte) (xs : List Int) (i : Small2.Info)
    (hnb : 0 < K.enc.nbytes) (hp : K.parse bytes = .ok i) (hb : bytes = hdr ++ K.enc.encodeAll {} ty xs ++ tail)
    (hl : hdr.length = K.L) (hf : i.frames * K.g.ch = xs.length) :
    readBack K ty want bytes =
      ((xs.length : Int), K.enc.decodeAll {} ty (K.enc.encodeAll {} ty xs) ++ List.replicate (want - xs.length) (pattern ty)) := by
  have hdl : (K.enc.decodeAll {} ty (K.enc.encodeAll {} ty xs)).length = xs.length := by
    rw [Enc.decodeAll_length _ _ _ hnb, Enc.encodeAll_length, Nat.mul_div_cancel _ hnb]
  have hitems : (K.enc.decodeAll {} ty (bytes.drop K.L)).take (i.frames * K.g.ch) =
      K.enc.decodeAll {} ty (K.enc.encodeAll {} ty xs) := by
    rw [hb, List.append_assoc, ← hl, List.drop_left' rfl,
      Enc.decodeAll_append _ _ _ hnb xs.length _ _ (Enc.encodeAll_length _ _ _ _), hf]
    exact List.take_left' hdl
  unfold readBack
  rw [hp]
  simp only [hitems, hdl]

theorem frames_of_samples (K : SCont) (hnb : 0 < K.enc.nbytes) (hch : 0 < K.g.ch) (ty : Ty) (xs : List Int) (n : Nat)
    (hx : xs.length = n * K.g.ch) : (K.enc.encodeAll {} ty xs).length / K.bw = n := by
  rw [Enc.encodeAll_length, hx, SCont.bw, Nat.mul_assoc, Nat.mul_comm K.g.ch, Nat.mul_div_cancel _ (Nat.mul_pos hnb hch)]

end Sf.AbsWriteBridge.Sample
