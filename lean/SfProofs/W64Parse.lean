/-
  W64: `parse` applied to the files the writer produces (helpers for SfProps/C04W64.lean: w64_reopen_info).
-/
import SfProofs.W64Image
import SfProofs.HdrReadLemmas
namespace Sf.W64
open Sf Sf.HdrRd Sf.CafW64
set_option linter.unusedSimpArgs false

theorem rdN_num {bs pre fld rest : List Byte} {k n : Nat} (hb : bs = pre ++ (fld ++ rest)) (hk : pre.length = k) (hn : fld.length = n) :
    rdN bs ⟨k, k, false⟩ n = (some fld, n, ⟨k + n, k + n, false⟩) := by
  subst hk; subst hn
  rw [rdN_at hb rfl]
  have : max pre.length (pre.length + fld.length) = pre.length + fld.length := by omega
  rw [this]

theorem ofLE_le (n : Nat) (v : Nat) (h : v < 2 ^ (8 * n)) : ofLE (le n (v : Int)) = v := by
  unfold le
  rw [wrapU_nat (8 * n) v h, ofLE_leBytes]
  apply Nat.mod_eq_of_lt
  have : (256 : Nat) ^ n = 2 ^ (8 * n) := by rw [Nat.pow_mul]
  rw [this]; exact h

def fmtFlds (c : Cfg) : List (List Byte) :=
  [le 2 (formatTag c.codec), le 2 c.ch, le 4 c.sr, le 4 (c.sr * bytewidth c.codec * c.ch), le 2 (bytewidth c.codec * c.ch), le 2 (bitsOf c.codec)]

theorem fmtBody_flds (c : Cfg) : fmtBody c = (fmtFlds c).flatten := by simp [fmtBody, fmtFlds]

theorem hash_facts : (hash16 riffG == riffH) = true ∧ (hash16 waveG == waveH) = true ∧
    (hash16 fmtG == riffH) = false ∧ (hash16 fmtG == acidH) = false ∧ (hash16 fmtG == fmtH) = true ∧
    (hash16 factG == riffH) = false ∧ (hash16 factG == acidH) = false ∧ (hash16 factG == fmtH) = false ∧ (hash16 factG == factH) = true ∧
    (hash16 dataG == riffH) = false ∧ (hash16 dataG == acidH) = false ∧ (hash16 dataG == fmtH) = false ∧ (hash16 dataG == factH) = false ∧
    (hash16 dataG == dataH) = true := by decide +kernel

/-- the scan state after the 'fmt ' chunk -/
def scanOf (c : Cfg) : Scan :=
  { haveRiff := true, haveWave := true, haveFmt := true, tag := formatTag c.codec, ch := c.ch, sr := c.sr, bits := bitsOf c.codec,
    bytew := bytewidth c.codec, dataoffset := -1 }

theorem codec_cases (c : Cfg) (h : c.codec ∈ codecs) :
    (formatTag c.codec < 65536 ∧ bitsOf c.codec < 65536) ∧ codecOf (scanOf c) = some c.codec ∧
    ((formatTag c.codec = 1 ∨ formatTag c.codec = 3) ∧ (bitsOf c.codec + 7) / 8 = bytewidth c.codec ∨
     (formatTag c.codec = 6 ∨ formatTag c.codec = 7) ∧ bytewidth c.codec = 1) := by
  simp [codecs] at h
  rcases h with h | h | h | h | h | h | h | h <;> simp [h, formatTag, bitsOf, bytewidth, codecOf, scanOf]

/-- `w64_read_header` + codec init on a closed file of the writer -/
theorem parse_image (c : Cfg) (hwf : c.wf) (n : Nat) (data : List Byte) (hd : data.length = n * c.bw)
    (hsz : hdrLen c + n * c.bw + 24 < 2 ^ 62) :
    parse (image c n data) =
      .ok { fmtWord := 0x0B0000 + c.codec, ch := c.ch, sr := c.sr, frames := n, dataoffset := hdrLen c, datalength := n * c.bw } := by
  obtain ⟨hcodec, hch1, hch2, hsr1, hsr2⟩ := hwf
  obtain ⟨g1, g2, g3, g4, g5⟩ := guid_lengths
  obtain ⟨q1, q2, q3, q4, q4b, q5, q6, q7, q7b, q8, q9, q10, q11, q11b⟩ := hash_facts
  obtain ⟨⟨ct, cb⟩, ccodec, ctag⟩ := codec_cases c hcodec
  have hbw : 0 < c.bw := by
    have : 0 < bytewidth c.codec := by
      simp [codecs] at hcodec
      rcases hcodec with h | h | h | h | h | h | h | h <;> rw [h] <;> decide
    exact Nat.mul_pos this (by omega)
  generalize hA : ((hdrLen c + n * c.bw : Nat) : Int) = A
  generalize hbs : image c n data = bs
  have hshape : bs = riffG ++ (le 8 A ++ (waveG ++ (fmtG ++ (le 8 40 ++ ((fmtFlds c).flatten ++ (factPart c n ++ (dataG ++ (le 8 (((n * c.bw : Nat) : Int) + 24) ++ data)))))))) := by
    rw [← hbs, ← hA]; simp only [image, tail, hdr, hdrRaw_eq, fmtBody_flds, List.append_assoc, List.append_nil]
  have hlen : bs.length = hdrLen c + data.length := by rw [← hbs]; exact image_length c n data
  have hL := hdrLen_cases c
  have fl : (fmtFlds c).map List.length = [2, 2, 4, 4, 2, 2] ∧ (fmtFlds c).flatten.length = 16 := by simp [fmtFlds, le_length]
  have hfp := factPart_length c n
  -- the reads of the first 80 bytes
  have R1 : rdN bs ⟨0, 12, false⟩ 16 = (some riffG, 16, ⟨16, 16, false⟩) := by
    have := rdN_at (bs := bs) (pre := []) (fld := riffG) (e := 12) (n := 16) (by rw [hshape]; rfl) g1.symm
    simpa using this
  have R2 : rdN bs ⟨16, 16, false⟩ 8 = (some (le 8 A), 8, ⟨24, 24, false⟩) :=
    rdN_num (pre := riffG) (by rw [hshape]) g1 (le_length 8 A)
  have R3 : rdN bs ⟨24, 24, false⟩ 16 = (some waveG, 16, ⟨40, 40, false⟩) :=
    rdN_num (pre := riffG ++ le 8 A) (by rw [hshape]; simp only [List.append_assoc] <;> rfl) (by simp [g1, le_length]) g2
  have R4 : rdN bs ⟨40, 40, false⟩ 16 = (some fmtG, 16, ⟨56, 56, false⟩) :=
    rdN_num (pre := riffG ++ le 8 A ++ waveG) (by rw [hshape]; simp only [List.append_assoc] <;> rfl) (by simp [g1, g2, le_length]) g3
  have R5 : rdN bs ⟨56, 56, false⟩ 8 = (some (le 8 40), 8, ⟨64, 64, false⟩) :=
    rdN_num (pre := riffG ++ le 8 A ++ waveG ++ fmtG) (by rw [hshape]; simp only [List.append_assoc] <;> rfl) (by simp [g1, g2, g3, le_length]) (le_length 8 40)
  have R6 : rdSeq bs [2, 2, 4, 4, 2, 2] ⟨64, 64, false⟩ = (fmtFlds c, ⟨80, 80, false⟩) := by
    have := rdSeq_at (fmtFlds c) (bs := bs) (pre := riffG ++ le 8 A ++ waveG ++ fmtG ++ le 8 40) (e := 64)
      (by rw [hshape]; simp only [List.append_assoc] <;> rfl) fl.1.symm (by simp [g1, g2, g3, le_length])
    rw [fl.2] at this
    simpa [g1, g2, g3, le_length] using this
  have s40 : sext 64 (ofLE (le 8 40)) = 40 := by decide
  have sA : ∀ x : Int, ¬ ((0 : Int) ≥ (bs.length : Int)) := by intro _; rw [hlen]; omega
  have vtag := ofLE_le 2 (formatTag c.codec) (by omega)
  have vch := ofLE_le 2 c.ch (by omega)
  have vsr := ofLE_le 4 c.sr (by omega)
  have vbits := ofLE_le 2 (bitsOf c.codec) (by omega)
  obtain ⟨fuel, hf⟩ : ∃ fuel, bs.length = fuel + 4 := ⟨bs.length - 4, by omega⟩
  -- iterations 1 and 2: 'riff' + 'wave', 'fmt '
  have hW2 : walk bs (fuel + 4) {} {} = walk bs (fuel + 2) ⟨80, 80, false⟩ (scanOf c) := by
    have z0 : ((0 : Nat) % 8 != 0) = false := by decide
    have z40 : ((40 : Nat) % 8 != 0) = false := by decide
    have e1 : ¬ ((0 : Int) ≥ (bs.length : Int)) := by rw [hlen]; omega
    have e2 : ¬ (((40 : Nat) : Int) ≥ (bs.length : Int) - 8) := by rw [hlen]; omega
    have e3 : ¬ ((0 : Int) > 0 ∧ (0 : Int) < 0xffff0000) := by omega
    rw [walk]
    show (let r : Rd := if ((({} : Rd).indx % 8 != 0) = true) then skip bs {} ((8 - ({} : Rd).indx % 8 : Nat) : Int) else {}; _) = _
    have r0 : (if ((({} : Rd).indx % 8 != 0) = true) then skip bs {} ((8 - ({} : Rd).indx % 8 : Nat) : Int) else ({} : Rd)) = ⟨0, 12, false⟩ := by
      simp [z0]
    simp only [r0, rdHash, R1, R2, R3, q1, q2, if_true]
    simp only [show ((16 + 8 == 0) = false) from by decide, Bool.false_eq_true, if_false, Bool.or_self, or_self, ftell_ok, e1, e2, e3]
    -- second iteration
    rw [walk]
    simp only [z40, Bool.false_eq_true, if_false, rdHash, R4, R5, q3, q4, q4b, q1, s40, Bool.and_self, Bool.not_true, if_true,
      show ((16 + 8 == 0) = false) from by decide]
    have f1 : ¬ ((40 : Int) < 0) := by omega
    have f2 : ¬ (((64 : Nat) : Int) + ((40 : Int) - 24) > (cacheLimit : Int)) := by unfold cacheLimit; omega
    have f3 : ¬ ((40 : Int) - 24 < 16) := by omega
    simp only [f1, f2, f3, if_false, R6, fmtFlds, vtag, vch, vsr, vbits]
    have e80 : ¬ (((80 : Nat) : Int) ≥ (bs.length : Int) - 8) := by rw [hlen]; omega
    have sk : skip bs ⟨80, 80, false⟩ ((40 : Int) - 24 - 16) = ⟨80, 80, false⟩ := by
      have := skip_fwd bs 80 80 0 (by rw [hlen]; omega) (by rw [hlen]; omega)
      simpa using this
    have m8 : (((40 : Int) - 24) % 8 != 0) = false := by decide
    rcases ctag with ⟨ht, hbyt⟩ | ⟨ht, hbyt⟩
    · have t1 : (formatTag c.codec == 1 ∨ formatTag c.codec == 3) := by rcases ht with h | h <;> simp [h]
      simp only [t1, if_true, sk, m8, Bool.false_eq_true, if_false, ftell_ok, e1, e80, e3, hbyt, scanOf]
      simp
    · have t1 : ¬ (formatTag c.codec == 1 ∨ formatTag c.codec == 3) := by rcases ht with h | h <;> simp [h]
      have t2 : (formatTag c.codec == 6 ∨ formatTag c.codec == 7) := by rcases ht with h | h <;> simp [h]
      have f4 : ¬ ((40 : Int) - 24 ≥ 18) := by omega
      simp only [t1, t2, if_true, if_false, f4, sk, m8, Bool.false_eq_true, ftell_ok, e1, e80, e3, hbyt, scanOf]
      simp
  -- the 'data' iteration, at offset o = hdrLen - 24
  have hD : wrapU 64 (((n * c.bw : Nat) : Int) + 24) = n * c.bw + 24 := by
    have := wrapU_nat 64 (n * c.bw + 24) (by omega)
    simpa using this
  have hdataIter : ∀ (fuel' o : Nat), o + 24 = hdrLen c → walk bs (fuel' + 1) ⟨o, o, false⟩ (scanOf c) =
      .done { scanOf c with dataoffset := ((hdrLen c : Nat) : Int) } := by
    intro fuel' o ho
    have ho' : hdrLen c - 24 = o := by omega
    rw [← ho']
    have hpre : (riffG ++ le 8 A ++ waveG ++ fmtG ++ le 8 40 ++ (fmtFlds c).flatten ++ factPart c n).length = hdrLen c - 24 := by
      simp [g1, g2, g3, le_length, fl.2, hfp, hdrLen]; split <;> omega
    have R10 : rdN bs ⟨hdrLen c - 24, hdrLen c - 24, false⟩ 16 = (some dataG, 16, ⟨hdrLen c - 24 + 16, hdrLen c - 24 + 16, false⟩) :=
      rdN_num (pre := riffG ++ le 8 A ++ waveG ++ fmtG ++ le 8 40 ++ (fmtFlds c).flatten ++ factPart c n)
        (by rw [hshape]; simp only [List.append_assoc] <;> rfl) hpre g5
    have R11 : rdN bs ⟨hdrLen c - 24 + 16, hdrLen c - 24 + 16, false⟩ 8 =
        (some (le 8 (((n * c.bw : Nat) : Int) + 24)), 8, ⟨hdrLen c - 24 + 16 + 8, hdrLen c - 24 + 16 + 8, false⟩) :=
      rdN_num (pre := riffG ++ le 8 A ++ waveG ++ fmtG ++ le 8 40 ++ (fmtFlds c).flatten ++ factPart c n ++ dataG)
        (by rw [hshape]; simp only [List.append_assoc] <;> rfl) (by rw [List.length_append, hpre, g5]) (le_length 8 _)
    have z : ((hdrLen c - 24) % 8 != 0) = false := by rcases hL with h | h <;> simp [h]
    have vsz : sext 64 (ofLE (le 8 (((n * c.bw : Nat) : Int) + 24))) = ((n * c.bw + 24 : Nat) : Int) := by
      unfold le; rw [hD, ofLE_leBytes]
      have e64 : (256 : Nat) ^ 8 = 2 ^ 64 := by decide
      rw [e64, Nat.mod_eq_of_lt (by omega)]
      unfold sext; rw [if_pos (by omega)]
    rw [walk]
    simp only [z, Bool.false_eq_true, if_false, rdHash, R10, R11, q8, q9, q10, q11, q11b, beq_self_eq_true, if_true, vsz,
      show ((16 + 8 == 0) = false) from by decide, scanOf, Bool.and_self, Bool.not_true, ftell_ok]
    have d1 : ¬ (((n * c.bw + 24 : Nat) : Int) < 0 ∨ ((n * c.bw + 24 : Nat) : Int) ≥ 2 ^ 62) := by omega
    simp only [d1, if_false]
    have d2 : ((hdrLen c - 24 + 16 + 8 : Nat) : Int) + (if (((n * c.bw + 24 : Nat) : Int) % 8 != 0) = true then ((n * c.bw + 24 : Nat) : Int) + (8 - ((n * c.bw + 24 : Nat) : Int) % 8) else ((n * c.bw + 24 : Nat) : Int)) ≥ (bs.length : Int) - 8 := by
      rw [hlen, hd]; split <;> omega
    simp only [d2, if_true]
    have : hdrLen c - 24 + 16 + 8 = hdrLen c := by omega
    rw [this]
    simp
  have hwalk : walk bs bs.length {} {} = .done { scanOf c with dataoffset := ((hdrLen c : Nat) : Int) } := by
    rw [hf, hW2]
    by_cases hfact : hasFact c.codec = true
    · have h136 : hdrLen c = 136 := by simp [hdrLen, hfact]
      have hfpe : factPart c n = factG ++ (le 8 32 ++ le 8 n) := by simp [factPart, hfact]
      have R7 : rdN bs ⟨80, 80, false⟩ 16 = (some factG, 16, ⟨96, 96, false⟩) :=
        rdN_num (pre := riffG ++ le 8 A ++ waveG ++ fmtG ++ le 8 40 ++ (fmtFlds c).flatten)
          (by rw [hshape, hfpe]; simp only [List.append_assoc] <;> rfl) (by simp [g1, g2, g3, le_length, fl.2]) g4
      have R8 : rdN bs ⟨96, 96, false⟩ 8 = (some (le 8 32), 8, ⟨104, 104, false⟩) :=
        rdN_num (pre := riffG ++ le 8 A ++ waveG ++ fmtG ++ le 8 40 ++ (fmtFlds c).flatten ++ factG)
          (by rw [hshape, hfpe]; simp only [List.append_assoc] <;> rfl) (by simp [g1, g2, g3, g4, le_length, fl.2]) (le_length 8 32)
      have R9 : (rdLE bs ⟨104, 104, false⟩ 8).2 = ⟨112, 112, false⟩ := by
        have := rdLE_at (bs := bs) (pre := riffG ++ le 8 A ++ waveG ++ fmtG ++ le 8 40 ++ (fmtFlds c).flatten ++ factG ++ le 8 32) (fld := le 8 n)
          (e := 104) (n := 8) (by rw [hshape, hfpe]; simp only [List.append_assoc] <;> rfl) (le_length 8 _).symm
        have hl : (riffG ++ le 8 A ++ waveG ++ fmtG ++ le 8 40 ++ (fmtFlds c).flatten ++ factG ++ le 8 32).length = 104 := by
          simp [g1, g2, g3, g4, le_length, fl.2]
        rw [hl] at this
        rw [this]; simp
      have z80 : ((80 : Nat) % 8 != 0) = false := by decide
      have s32 : sext 64 (ofLE (le 8 32)) = 32 := by decide
      have e1 : ¬ ((0 : Int) ≥ (bs.length : Int)) := by rw [hlen]; omega
      have e2 : ¬ (((112 : Nat) : Int) ≥ (bs.length : Int) - 8) := by rw [hlen]; omega
      have e3 : ¬ ((0 : Int) > 0 ∧ (0 : Int) < 0xffff0000) := by omega
      rw [walk]
      simp only [z80, Bool.false_eq_true, if_false, rdHash, R7, R8, q5, q6, q7, q7b, beq_self_eq_true, if_true, R9, ftell_ok, e1, e2, e3,
        show ((16 + 8 == 0) = false) from by decide]
      exact hdataIter fuel 112 (by omega)
    · have h104 : hdrLen c = 104 := by simp [hdrLen, hfact]
      exact hdataIter (fuel + 1) 80 (by omega)
  -- the rest of `parse`
  have hl12 : ¬ bs.length < 12 := by rw [hlen]; omega
  have t1 : bs.take 4 = [114, 105, 102, 102] := by rw [hshape]; simp [riffG]
  unfold parse
  simp only [hl12, if_false, t1, bne_self_eq_false, Bool.false_eq_true, hwalk]
  have hc : codecOf { scanOf c with dataoffset := ((hdrLen c : Nat) : Int) } = some c.codec := ccodec
  have k1 : ¬ (((hdrLen c : Nat) : Int) ≤ 0) := by omega
  have k2 : ¬ (c.ch < 1) := by omega
  have k3 : ¬ (c.ch > 1024) := by omega
  have k4 : ¬ (c.sr < 1 ∨ c.sr > 0x7FFFFFFF) := by omega
  have k5 : bs.length > hdrLen c ∨ data.length = 0 := by rw [hlen]; omega
  simp only [k1, if_false, scanOf, k2, k3]
  simp only [scanOf] at hc
  simp only [hc, k4, if_false, Int.toNat_natCast]
  have hdl : (if bs.length > hdrLen c then bs.length - hdrLen c else 0) = n * c.bw := by
    rw [hlen, hd]; split <;> omega
  have hdiv : n * c.bw / (bytewidth c.codec * c.ch) = n := Nat.mul_div_cancel n hbw
  simp only [hdl, hdiv]

end Sf.W64
