/-
  Arithmetic helper lemmas for SfProps/C20Gsm.lean: product bounds of two int16 values, the value range of
  `(a · b + r) >> 15`, binary digit counts (`bitlen`), the restoring division loop of `gsm_div`.
-/
import SfModel.Gsm
import SfModel.GsmEnc
import SfProofs.GsmLemmas
import Mathlib.Tactic.Linarith
import Mathlib.Tactic.Ring
import Mathlib.Tactic.Positivity
import Mathlib.Tactic.NormNum
namespace Sf.Gsm.Spec
open Sf Sf.Gsm Sf.Gsm.Proofs

/-- |a · b| ≤ 32767² when both are above MIN_WORD -/
theorem prod_small (a b : Int) (ha : -32767 ≤ a ∧ a ≤ 32767) (hb : -32767 ≤ b ∧ b ≤ 32767) :
    -1073676289 ≤ a * b ∧ a * b ≤ 1073676289 := by
  constructor
  · nlinarith [mul_nonneg (show (0 : Int) ≤ a + 32767 by omega) (show (0 : Int) ≤ 32767 - b by omega),
      mul_nonneg (show (0 : Int) ≤ 32767 - a by omega) (show (0 : Int) ≤ b + 32767 by omega)]
  · nlinarith [mul_nonneg (show (0 : Int) ≤ a + 32767 by omega) (show (0 : Int) ≤ b + 32767 by omega),
      mul_nonneg (show (0 : Int) ≤ 32767 - a by omega) (show (0 : Int) ≤ 32767 - b by omega)]

/-- the product of two int16 values that are not both MIN_WORD -/
theorem prod_bound (a b : Int) (ha : W16 a) (hb : W16 b) (hne : ¬ (a = -32768 ∧ b = -32768)) :
    -1073709056 ≤ a * b ∧ a * b ≤ 1073709056 := by
  unfold W16 at ha hb
  by_cases h1 : a = -32768
  · subst h1
    have : b ≠ -32768 := fun h => hne ⟨rfl, h⟩
    constructor <;> omega
  · by_cases h2 : b = -32768
    · subst h2
      constructor <;> omega
    · have := prod_small a b (by omega) (by omega)
      omega

theorem asr15 (x : Int) : asr x 15 = x / 32768 := by simp [asr]

/-- `w16 ∘ (uint16 mask)` is `w16` -/
theorem w16_wrapU (x : Int) : w16 ((wrapU 16 x : Nat) : Int) = w16 x := by
  unfold w16 wrapS wrapU
  simp only [pow16]
  have h := Int.emod_nonneg x (show (65536 : Int) ≠ 0 by decide)
  rw [Int.toNat_of_nonneg h, Int.emod_emod_of_dvd _ (by decide : (65536 : Int) ∣ 65536)]

/-- GSM_MULT_R of two int16 values that are not both MIN_WORD is an int16 value: the `int16_t` assignment keeps it -/
theorem multR_range (a b : Int) (ha : W16 a) (hb : W16 b) (hne : ¬ (a = -32768 ∧ b = -32768)) : W16 (multR a b) := by
  have hp := prod_bound a b ha hb hne
  unfold multR
  rw [asr15]
  unfold W16; omega

/-- with a positive first operand (a table constant) in particular -/
theorem multR_range_pos (a b : Int) (ha : 0 ≤ a ∧ a ≤ 32767) (hb : W16 b) : W16 (multR a b) :=
  multR_range a b (by unfold W16; omega) hb (by omega)

theorem gsmMultR_eq (a b : Int) (ha : W16 a) (hb : W16 b) :
    gsmMultR a b = (if a = -32768 ∧ b = -32768 then 32767 else (a * b + 16384) / 32768) := by
  unfold gsmMultR
  by_cases h : a = -32768 ∧ b = -32768
  · rw [if_pos h, if_pos h]
  · rw [if_neg h, if_neg h, w16_wrapU, asr15]
    have hp := prod_bound a b ha hb h
    exact w16_id _ (by unfold W16; omega)

/-! ## binary digits -/

theorem bitlenAux_zero (f : Nat) : bitlenAux f 0 = 0 := by cases f <;> simp [bitlenAux]

/-- for 0 < n < 2^f: 2^(bitlen − 1) ≤ n < 2^bitlen -/
theorem bitlenAux_spec : ∀ (f n : Nat), 0 < n → n < 2 ^ f → 1 ≤ bitlenAux f n ∧ 2 ^ (bitlenAux f n - 1) ≤ n ∧ n < 2 ^ bitlenAux f n := by
  intro f
  induction f with
  | zero => intro n h1 h2; simp at h2; omega
  | succ f ih =>
    intro n h1 h2
    have hne : n ≠ 0 := by omega
    simp only [bitlenAux, hne, if_false]
    by_cases h : n / 2 = 0
    · rw [h, bitlenAux_zero]
      have : n = 1 := by omega
      subst this
      simp
    · have hlt : n / 2 < 2 ^ f := by
        rw [Nat.pow_succ] at h2; omega
      obtain ⟨i1, i2, i3⟩ := ih (n / 2) (by omega) hlt
      generalize bitlenAux f (n / 2) = b at i1 i2 i3
      obtain ⟨c, rfl⟩ : ∃ c, b = c + 1 := ⟨b - 1, by omega⟩
      simp only [Nat.add_sub_cancel] at i2
      refine ⟨by omega, ?_, ?_⟩
      · have e : 1 + (c + 1) - 1 = c + 1 := by omega
        rw [e, Nat.pow_succ]; omega
      · have e : 1 + (c + 1) = (c + 1) + 1 := by omega
        rw [e, Nat.pow_succ]; rw [Nat.pow_succ] at i3 ⊢; omega

theorem bitlen_spec (n : Nat) (h1 : 0 < n) (h2 : n < 2 ^ 40) : 1 ≤ bitlen n ∧ 2 ^ (bitlen n - 1) ≤ n ∧ n < 2 ^ bitlen n :=
  bitlenAux_spec 40 n h1 h2

/-- a number below 2^31 has at most 31 binary digits -/
theorem bitlen_le (n : Nat) (h1 : 0 < n) (h2 : n < 2 ^ 31) : bitlen n ≤ 31 := by
  obtain ⟨_, i2, _⟩ := bitlen_spec n h1 (Nat.lt_of_lt_of_le h2 (by decide))
  by_contra hc
  have : 2 ^ 31 ≤ 2 ^ (bitlen n - 1) := Nat.pow_le_pow_right (by decide) (by omega)
  omega

/-! ## the restoring division of `gsm_div` -/

/-- `divLoop k lnum ldenum div` on a partial remainder 0 ≤ lnum ≤ ldenum: the quotient bits appended to `div` are
    `min (2^k − 1) (lnum · 2^k / ldenum)` -/
theorem divLoop_spec : ∀ (k : Nat) (lnum ldenum dv : Int), 0 ≤ lnum → lnum ≤ ldenum → 0 < ldenum → ldenum ≤ 32767 →
    0 ≤ dv → dv * 2 ^ k + (2 ^ k - 1) ≤ 32767 →
    divLoop k lnum ldenum dv = dv * 2 ^ k + min (2 ^ k - 1) (lnum * 2 ^ k / ldenum) := by
  intro k
  induction k with
  | zero =>
    intro lnum ldenum dv h0 _ hd _ _ _
    simp only [divLoop, pow_zero, mul_one, sub_self]
    have : 0 ≤ lnum / ldenum := Int.ediv_nonneg h0 (by omega)
    rw [min_eq_left this]; omega
  | succ k ih =>
    intro lnum ldenum dv h0 h1 hd hd2 hv hcap
    have hp : (0 : Int) < 2 ^ k := by positivity
    have hpk : (2 : Int) ^ (k + 1) = 2 * 2 ^ k := by rw [pow_succ]; ring
    rw [hpk] at hcap ⊢
    have hdv2 : w16 (dv * 2) = dv * 2 := w16_id _ (by unfold W16; constructor <;> nlinarith)
    have hl2 : w32 (lnum * 2) = lnum * 2 := by
      unfold w32 wrapS
      have e : (2 : Int) ^ 32 = 4294967296 := by norm_num
      simp only [e]
      have : (lnum * 2) % 4294967296 = lnum * 2 := Int.emod_eq_of_lt (by omega) (by omega)
      rw [this]; split <;> omega
    simp only [divLoop, hdv2, hl2]
    have hX : lnum * (2 * 2 ^ k) / ldenum = (lnum * 2) * 2 ^ k / ldenum := by ring_nf
    by_cases hq : lnum * 2 ≥ ldenum
    · simp only [hq, if_true]
      have hdv1 : w16 (dv * 2 + 1) = dv * 2 + 1 := w16_id _ (by unfold W16; constructor <;> nlinarith)
      rw [hdv1, ih (lnum * 2 - ldenum) ldenum (dv * 2 + 1) (by omega) (by omega) hd hd2 (by omega) (by nlinarith)]
      have e : (lnum * 2 - ldenum) * 2 ^ k / ldenum = lnum * 2 * 2 ^ k / ldenum - 2 ^ k := by
        have : (lnum * 2 - ldenum) * 2 ^ k = lnum * 2 * 2 ^ k + (-(2 ^ k)) * ldenum := by ring
        rw [this, Int.add_mul_ediv_right _ _ (by omega)]; ring
      rw [e, hX]
      rcases le_total (2 ^ k - 1) (lnum * 2 * 2 ^ k / ldenum - 2 ^ k) with hc | hc
      · rw [min_eq_left hc, min_eq_left (by omega)]; ring
      · rw [min_eq_right hc, min_eq_right (by omega)]; ring
    · simp only [hq, if_false]
      rw [ih (lnum * 2) ldenum (dv * 2) (by omega) (by omega) hd hd2 (by omega) (by nlinarith)]
      have hlt : lnum * 2 * 2 ^ k / ldenum < 2 ^ k := by
        apply Int.ediv_lt_of_lt_mul hd
        nlinarith
      rw [hX, min_eq_right (by omega), min_eq_right (by omega)]; ring

end Sf.Gsm.Spec
