/-
  SfProofs.RdwrAbs — facts about the abstract file alone (SfProofs/RdwrSpec.lean): what a write leaves where.
-/
import SfProofs.RdwrSpec
namespace Sf.AbsFile
variable {α : Type}

theorem upTo_length (z : α) (fr : List α) (p : Nat) : (upTo z fr p).length = p := by
  unfold upTo; simp; omega

theorem upTo_of_le (z : α) (fr : List α) (p : Nat) (h : p ≤ fr.length) : upTo z fr p = fr.take p := by
  unfold upTo; rw [Nat.sub_eq_zero_of_le h]; simp

theorem upTo_of_ge (z : α) (fr : List α) (p : Nat) (h : fr.length ≤ p) :
    upTo z fr p = fr ++ List.replicate (p - fr.length) z := by
  unfold upTo; rw [List.take_of_length_le h]

theorem write_frames (z : α) (f : AbsFile α) (fs : List α) (hne : fs ≠ []) :
    (f.write z fs).frames = upTo z f.frames f.wpos ++ fs ++ f.frames.drop (f.wpos + fs.length) := by
  unfold write; rw [if_neg hne]

theorem write_wpos (z : α) (f : AbsFile α) (fs : List α) : (f.write z fs).wpos = f.wpos + fs.length := by
  unfold write; split
  · rename_i h; subst h; rfl
  · rfl

theorem write_rpos (z : α) (f : AbsFile α) (fs : List α) : (f.write z fs).rpos = f.rpos := by
  unfold write; split <;> rfl

/-- the length after a write: unchanged inside the data, `wpos + n` once the end is reached or passed -/
theorem write_length (z : α) (f : AbsFile α) (fs : List α) (hne : fs ≠ []) :
    (f.write z fs).frames.length = max f.frames.length (f.wpos + fs.length) := by
  rw [write_frames z f fs hne]
  simp [upTo_length]; omega

/-- what was written is what is there: the frames at `wpos … wpos + n` are `fs` -/
theorem write_read_back (z : α) (f : AbsFile α) (fs : List α) (hne : fs ≠ []) :
    ((f.write z fs).frames.drop f.wpos).take fs.length = fs := by
  rw [write_frames z f fs hne, List.append_assoc, List.drop_left' (upTo_length z _ _), List.take_left' rfl]

/-- writing inside existing data: same length, only the frames `wpos … wpos + n` replaced -/
theorem write_inside (z : α) (f : AbsFile α) (fs : List α) (hne : fs ≠ []) (h : f.wpos + fs.length ≤ f.frames.length) :
    (f.write z fs).frames = f.frames.take f.wpos ++ fs ++ f.frames.drop (f.wpos + fs.length) ∧
    (f.write z fs).frames.length = f.frames.length := by
  refine ⟨by rw [write_frames z f fs hne, upTo_of_le z _ _ (by omega)], ?_⟩
  rw [write_length z f fs hne]; omega

/-- writing at or past the end: the old frames, then the hole (`zero` frames), then the new frames -/
theorem write_at_end (z : α) (f : AbsFile α) (fs : List α) (hne : fs ≠ []) (h : f.frames.length ≤ f.wpos) :
    (f.write z fs).frames = f.frames ++ List.replicate (f.wpos - f.frames.length) z ++ fs ∧
    (f.write z fs).frames.length = f.wpos + fs.length := by
  refine ⟨by rw [write_frames z f fs hne, upTo_of_ge z _ _ h, List.drop_of_length_le (by omega)]; simp, ?_⟩
  rw [write_length z f fs hne]; omega

/-- frames in front of the write position keep their values -/
theorem write_before (z : α) (f : AbsFile α) (fs : List α) (i : Nat) (hi : i < f.wpos) (hl : i < f.frames.length) :
    (f.write z fs).frames[i]? = f.frames[i]? := by
  by_cases hne : fs = []
  · subst hne; simp [write]
  · rw [write_frames z f fs hne, List.append_assoc, List.getElem?_append_left (by rw [upTo_length]; exact hi)]
    unfold upTo
    rw [List.getElem?_append_left (by rw [List.length_take]; omega), List.getElem?_take_of_lt hi]

/-- frames behind the written range keep their values -/
theorem write_after (z : α) (f : AbsFile α) (fs : List α) (i : Nat) (hi : f.wpos + fs.length ≤ i) :
    (f.write z fs).frames[i]? = f.frames[i]? := by
  by_cases hne : fs = []
  · subst hne; simp [write]
  · rw [write_frames z f fs hne, List.getElem?_append_right (by simp [upTo_length]; omega)]
    simp only [List.length_append, upTo_length, List.getElem?_drop]
    congr 1; omega

/-- SEEK_SET to a frame index `t ≥ 0` -/
theorem seek_set_nat (f : AbsFile α) (p : Ptr) (t : Nat) :
    f.seek .set p (t : Int) = ((t : Int), match p with
      | .both => { f with rpos := t, wpos := t }
      | .rd => { f with rpos := t }
      | .wr => { f with wpos := t }) := by
  unfold seek base
  have : ¬ ((t : Int) < 0) := by omega
  simp only [Int.zero_add, Int.toNat_natCast, this, if_false]
  cases p <;> rfl

theorem seek_frames (f : AbsFile α) (w : Whence) (p : Ptr) (off : Int) : (f.seek w p off).2.frames = f.frames := by
  unfold seek; simp only []; split
  · rfl
  · cases p <;> rfl

theorem read_frames (f : AbsFile α) (k : Nat) : (f.read k).2.frames = f.frames := rfl

theorem truncate_length (z : α) (f : AbsFile α) (n : Nat) : (f.truncate z n).frames.length = n := upTo_length z _ n

/-- truncation keeps the frames that remain -/
theorem truncate_keeps (z : α) (f : AbsFile α) (n i : Nat) (hi : i < n) (hl : i < f.frames.length) :
    (f.truncate z n).frames[i]? = f.frames[i]? := by
  unfold truncate upTo
  simp only
  rw [List.getElem?_append_left (by rw [List.length_take]; omega), List.getElem?_take_of_lt hi]

end Sf.AbsFile
