/-
  SfProofs.AbsWriteBridgeBlock3Dpcm — the WHOLE-FILE byte-level facts of the XI delta coders (DPCM_16, DPCM_8):

    * `run_eq_one_call`   any number of write calls, each started from the `last_16` the call before left, writes the bytes ONE
                          call with the concatenated samples writes (byte level: C07);
    * `decode_data_16/8`  `Dpcm.read` (the model's reader: `groups 2`, little-endian, sign extension, running sum modulo 2^16 /
                          2^8) over those bytes gives the codec values of the samples back (`cur16` / `cur8`) — all wrap-around
                          cases of the delta arithmetic, the two-byte grouping and the sign extension included;
    * `out16_cur16` / `out8_cur8` : on a short / int that meets the side condition of C01 the codec value converts back to
                          the caller's value.
-/
import Mathlib.Tactic.NormNum
import SfModel.BlockFile
import SfProofs.BlockCodecs
import SfProofs.Codec
import SfProofs.AbsWriteBridge
namespace Sf.AbsWriteBridge.Dpcm3
open Sf Sf.Block Sf.Block.Proofs Sf.AbsWriteBridge

def R16 (x : Int) : Prop := -32768 ≤ x ∧ x ≤ 32767
def R8 (x : Int) : Prop := -128 ≤ x ∧ x ≤ 127

theorem wrapS16_range (x : Int) : R16 (wrapS 16 x) := by
  unfold R16 wrapS; norm_num; split <;> omega
theorem wrapS8_range (x : Int) : R8 (wrapS 8 x) := by
  unfold R8 wrapS; norm_num; split <;> omega
theorem wrapS16_id (x : Int) (h : R16 x) : wrapS 16 x = x := by
  obtain ⟨a, b⟩ := h; unfold wrapS; norm_num; split <;> omega
theorem wrapS8_id (x : Int) (h : R8 x) : wrapS 8 x = x := by
  obtain ⟨a, b⟩ := h; unfold wrapS; norm_num; split <;> omega

theorem sext16_wrapU (d : Int) (h : R16 d) : sext 16 (wrapU 16 d) = d := by
  obtain ⟨a, b⟩ := h
  unfold sext wrapU
  have e : ((2:Int) ^ 16) = 65536 := by decide
  simp only [e]
  have h2 := Int.emod_lt_of_pos d (show (0:Int) < 65536 by decide)
  have h3 := Int.emod_nonneg d (show (65536:Int) ≠ 0 by decide)
  have h4 := Int.emod_add_mul_ediv d 65536
  norm_num
  split <;> omega

theorem sext8_wrapU (d : Int) (h : R8 d) : sext 8 (wrapU 8 d) = d := by
  obtain ⟨a, b⟩ := h
  unfold sext wrapU
  have e : ((2:Int) ^ 8) = 256 := by decide
  simp only [e]
  have h2 := Int.emod_lt_of_pos d (show (0:Int) < 256 by decide)
  have h3 := Int.emod_nonneg d (show (256:Int) ≠ 0 by decide)
  have h4 := Int.emod_add_mul_ediv d 256
  norm_num
  split <;> omega

theorem wrapU16_lt (d : Int) : wrapU 16 d < 65536 := by
  unfold wrapU
  have h2 := Int.emod_lt_of_pos d (show (0:Int) < 2 ^ 16 by decide)
  have h3 := Int.emod_nonneg d (show ((2:Int) ^ 16) ≠ 0 by decide)
  omega

/-- two little-endian bytes and back -/
theorem sext16_ofLE (d : Int) (h : R16 d) : sext 16 (ofLE (leBytes 2 (wrapU 16 d))) = d := by
  rw [ofLE_leBytes, Nat.mod_eq_of_lt (by have := wrapU16_lt d; omega)]
  exact sext16_wrapU d h

/-! ## the deltas are 16- / 8-bit numbers, the running value stays one -/

theorem delta16_range : ∀ (xs : List Int) (l : Int), ∀ d ∈ (Dpcm.delta16 l xs).2, R16 d
  | [], _ => by intro d hd; cases hd
  | x :: xs, l => by
    intro d hd
    simp only [Dpcm.delta16, List.mem_cons] at hd
    rcases hd with rfl | hd
    · exact wrapS16_range _
    · exact delta16_range xs x d hd

theorem delta8_range : ∀ (xs : List Int) (l : Int), ∀ d ∈ (Dpcm.delta8 l xs).2, R8 d
  | [], _ => by intro d hd; cases hd
  | x :: xs, l => by
    intro d hd
    simp only [Dpcm.delta8, List.mem_cons] at hd
    rcases hd with rfl | hd
    · exact wrapS8_range _
    · exact delta8_range xs x d hd

theorem delta8_state : ∀ (xs : List Int) (l : Int), R8 l → (∀ x ∈ xs, R8 x) → R8 (Dpcm.delta8 l xs).1
  | [], _, hl, _ => hl
  | x :: xs, _, _, hx => by
    simp only [Dpcm.delta8]
    exact delta8_state xs x (hx x (by simp)) (fun y hy => hx y (by simp [hy]))

theorem delta16_length : ∀ (xs : List Int) (l : Int), (Dpcm.delta16 l xs).2.length = xs.length
  | [], _ => rfl
  | x :: xs, _ => by simp [Dpcm.delta16, delta16_length xs x]
theorem delta8_length : ∀ (xs : List Int) (l : Int), (Dpcm.delta8 l xs).2.length = xs.length
  | [], _ => rfl
  | x :: xs, _ => by simp [Dpcm.delta8, delta8_length xs x]

theorem delta16_append (xs : List Int) : ∀ (l : Int) (ys : List Int),
    (Dpcm.delta16 l (xs ++ ys)).2 = (Dpcm.delta16 l xs).2 ++ (Dpcm.delta16 (Dpcm.delta16 l xs).1 ys).2 ∧
    (Dpcm.delta16 l (xs ++ ys)).1 = (Dpcm.delta16 (Dpcm.delta16 l xs).1 ys).1 := by
  induction xs with
  | nil => intro l ys; exact ⟨rfl, rfl⟩
  | cons x xs ih =>
    intro l ys
    simp only [List.cons_append, Dpcm.delta16]
    obtain ⟨h1, h2⟩ := ih x ys
    rw [h1, h2]
    exact ⟨rfl, rfl⟩

theorem delta8_append (xs : List Int) : ∀ (l : Int) (ys : List Int),
    (Dpcm.delta8 l (xs ++ ys)).2 = (Dpcm.delta8 l xs).2 ++ (Dpcm.delta8 (Dpcm.delta8 l xs).1 ys).2 ∧
    (Dpcm.delta8 l (xs ++ ys)).1 = (Dpcm.delta8 (Dpcm.delta8 l xs).1 ys).1 := by
  induction xs with
  | nil => intro l ys; exact ⟨rfl, rfl⟩
  | cons x xs ih =>
    intro l ys
    simp only [List.cons_append, Dpcm.delta8]
    obtain ⟨h1, h2⟩ := ih x ys
    rw [h1, h2]
    exact ⟨rfl, rfl⟩

/-- the 8-bit coder's view of `last_16` -/
def st8 (l : Int) : Int := wrapS 8 (asr l 8)

theorem st8_mul (m : Int) (h : R8 m) : st8 (m * 256) = m := by
  unfold st8 asr
  have : m * 256 / (2 ^ 8 : Int) = m := by norm_num
  rw [this]; exact wrapS8_id m h

theorem cur8_range (cv : Conv) (ty : Ty) (v : Int) : R8 (Dpcm.cur8 cv ty v) := by
  cases ty <;> exact wrapS8_range _

/-! ## `Dpcm.write` over calls -/

theorem write_wide (cv : Conv) (ty : Ty) (l : Int) (vs : List Int) :
    Dpcm.write true cv ty l vs = ((Dpcm.delta16 l (vs.map (Dpcm.cur16 cv ty))).1,
      (Dpcm.delta16 l (vs.map (Dpcm.cur16 cv ty))).2.flatMap fun d => leBytes 2 (wrapU 16 d)) := by
  simp [Dpcm.write]

theorem write_narrow (cv : Conv) (ty : Ty) (l : Int) (vs : List Int) :
    Dpcm.write false cv ty l vs = ((Dpcm.delta8 (st8 l) (vs.map (Dpcm.cur8 cv ty))).1 * 256,
      (Dpcm.delta8 (st8 l) (vs.map (Dpcm.cur8 cv ty))).2.map fun d => wrapU 8 d) := by
  simp [Dpcm.write, st8]

/-- the state a write call leaves, as the NEXT call sees it -/
def Good8 (l : Int) : Prop := ∃ m, R8 m ∧ l = m * 256

theorem write_narrow_good (cv : Conv) (ty : Ty) (l : Int) (vs : List Int) : Good8 (Dpcm.write false cv ty l vs).1 := by
  rw [write_narrow]
  refine ⟨_, delta8_state _ _ (wrapS8_range _) ?_, rfl⟩
  intro x hx
  obtain ⟨v, _, rfl⟩ := List.mem_map.1 hx
  exact cur8_range cv ty v

/-- two calls are one call with the concatenation (any state for the 16-bit coder, a state a call left for the 8-bit one) -/
theorem write_append (wide : Bool) (cv : Conv) (ty : Ty) (l : Int) (hl : wide = true ∨ Good8 l) (xs ys : List Int) :
    Dpcm.write wide cv ty l (xs ++ ys) =
      ((Dpcm.write wide cv ty (Dpcm.write wide cv ty l xs).1 ys).1,
        (Dpcm.write wide cv ty l xs).2 ++ (Dpcm.write wide cv ty (Dpcm.write wide cv ty l xs).1 ys).2) := by
  cases wide with
  | true =>
    simp only [write_wide, List.map_append]
    obtain ⟨h1, h2⟩ := delta16_append (xs.map (Dpcm.cur16 cv ty)) l (ys.map (Dpcm.cur16 cv ty))
    rw [h1, h2, List.flatMap_append]
  | false =>
    simp only [write_narrow, List.map_append]
    have hs : st8 ((Dpcm.delta8 (st8 l) (xs.map (Dpcm.cur8 cv ty))).1 * 256) = (Dpcm.delta8 (st8 l) (xs.map (Dpcm.cur8 cv ty))).1 := by
      apply st8_mul
      apply delta8_state _ _ (wrapS8_range _)
      intro x hx
      obtain ⟨v, _, rfl⟩ := List.mem_map.1 hx
      exact cur8_range cv ty v
    rw [hs]
    obtain ⟨h1, h2⟩ := delta8_append (xs.map (Dpcm.cur8 cv ty)) (st8 l) (ys.map (Dpcm.cur8 cv ty))
    rw [h1, h2, List.map_append]

/-- the writer over the calls of a run: (`last_16`, the bytes appended to the file so far) -/
def step (wide : Bool) (cv : Conv) (ty : Ty) (s : Int × List Byte) (k : LCall) : Int × List Byte :=
  ((Dpcm.write wide cv ty s.1 k.xs).1, s.2 ++ (Dpcm.write wide cv ty s.1 k.xs).2)

def run (wide : Bool) (cv : Conv) (ty : Ty) (cs : List LCall) : Int × List Byte := cs.foldl (step wide cv ty) (0, [])

/-- the data region of a run (XI writes nothing else behind its headers) -/
def data (wide : Bool) (cv : Conv) (ty : Ty) (cs : List LCall) : List Byte := (run wide cv ty cs).2

theorem write_nil (wide : Bool) (cv : Conv) (ty : Ty) (l : Int) (hl : wide = true ∨ Good8 l) :
    Dpcm.write wide cv ty l [] = (l, []) := by
  cases wide with
  | true => simp [write_wide, Dpcm.delta16]
  | false =>
    rcases hl with h | ⟨m, hm, rfl⟩
    · cases h
    · simp [write_narrow, Dpcm.delta8, st8_mul m hm]

theorem fold_eq (wide : Bool) (cv : Conv) (ty : Ty) : ∀ (cs : List LCall) (l : Int) (acc : List Byte), (wide = true ∨ Good8 l) →
    cs.foldl (step wide cv ty) (l, acc) = ((Dpcm.write wide cv ty l (samples cs)).1, acc ++ (Dpcm.write wide cv ty l (samples cs)).2)
  | [], l, acc, hl => by
    simp only [List.foldl_nil, samples, List.flatMap_nil]
    rw [write_nil wide cv ty l hl]; simp
  | c :: cs, l, acc, hl => by
    have hl2 : wide = true ∨ Good8 (Dpcm.write wide cv ty l c.xs).1 := by
      cases wide with
      | true => exact Or.inl rfl
      | false => exact Or.inr (write_narrow_good cv ty l c.xs)
    have hs : samples (c :: cs) = c.xs ++ samples cs := by simp [samples]
    rw [List.foldl_cons, hs, write_append wide cv ty l hl]
    show cs.foldl (step wide cv ty) ((Dpcm.write wide cv ty l c.xs).1, acc ++ (Dpcm.write wide cv ty l c.xs).2) = _
    rw [fold_eq wide cv ty cs _ _ hl2, List.append_assoc]

/-- **C07 at the byte level**: the data region of any run is what ONE call with the concatenated samples writes -/
theorem run_eq_one_call (wide : Bool) (cv : Conv) (ty : Ty) (cs : List LCall) :
    run wide cv ty cs = Dpcm.write wide cv ty 0 (samples cs) := by
  have h := fold_eq wide cv ty cs 0 [] (by
    cases wide with
    | true => exact Or.inl rfl
    | false => exact Or.inr ⟨0, by unfold R8; omega, by simp⟩)
  unfold run
  rw [h]; simp

theorem data_length (wide : Bool) (cv : Conv) (ty : Ty) (cs : List LCall) :
    (data wide cv ty cs).length = (samples cs).length * (if wide then 2 else 1) := by
  unfold data
  rw [run_eq_one_call]
  cases wide with
  | true =>
    rw [write_wide]
    simp only [if_true]
    have : ∀ ds : List Int, (ds.flatMap fun d => leBytes 2 (wrapU 16 d)).length = ds.length * 2 := by
      intro ds
      induction ds with
      | nil => rfl
      | cons d ds ih => simp only [List.flatMap_cons, List.length_append, ih, leBytes_length, List.length_cons]; omega
    rw [this, delta16_length, List.length_map]
  | false =>
    rw [write_narrow]
    simp [delta8_length]

/-! ## the reader over the whole data region -/

/-- **DPCM_16, whole file**: the model's reader over the bytes of any run gives the 16-bit codec values of the samples back -/
theorem decode_data_16 (cv cv2 : Conv) (ty ty2 : Ty) (cs : List LCall) (hr : ∀ v ∈ samples cs, R16 (Dpcm.cur16 cv ty v)) :
    (Dpcm.read true cv2 ty2 0 (data true cv ty cs)).2 = ((samples cs).map (Dpcm.cur16 cv ty)).map (Dpcm.out16 cv2 ty2) := by
  unfold data
  rw [run_eq_one_call, write_wide]
  simp only [Dpcm.read, if_true]
  rw [groups_flatMap 2 (by decide) _ _ (fun d _ => leBytes_length 2 _), List.map_map]
  have hid : List.map ((fun g => sext 16 (ofLE g)) ∘ fun d => leBytes 2 (wrapU 16 d)) (Dpcm.delta16 0 ((samples cs).map (Dpcm.cur16 cv ty))).2 =
      (Dpcm.delta16 0 ((samples cs).map (Dpcm.cur16 cv ty))).2 := by
    conv => rhs; rw [← List.map_id (Dpcm.delta16 0 ((samples cs).map (Dpcm.cur16 cv ty))).2]
    apply List.map_congr_left
    intro d hd
    exact sext16_ofLE d (delta16_range _ _ d hd)
  rw [hid, undelta16_delta16 _ 0 (by
    intro x hx
    obtain ⟨v, hv, rfl⟩ := List.mem_map.1 hx
    exact hr v hv)]

/-- **DPCM_8, whole file** -/
theorem decode_data_8 (cv cv2 : Conv) (ty ty2 : Ty) (cs : List LCall) :
    (Dpcm.read false cv2 ty2 0 (data false cv ty cs)).2 = ((samples cs).map (Dpcm.cur8 cv ty)).map (Dpcm.out8 cv2 ty2) := by
  unfold data
  rw [run_eq_one_call, write_narrow]
  have h0 : st8 0 = 0 := by decide
  simp only [Dpcm.read, Bool.false_eq_true, if_false, h0]
  have h00 : wrapS 8 (asr 0 8) = 0 := by decide
  rw [h00, List.map_map]
  have hid : List.map ((fun b => sext 8 b) ∘ fun d => wrapU 8 d) (Dpcm.delta8 0 ((samples cs).map (Dpcm.cur8 cv ty))).2 =
      (Dpcm.delta8 0 ((samples cs).map (Dpcm.cur8 cv ty))).2 := by
    conv => rhs; rw [← List.map_id (Dpcm.delta8 0 ((samples cs).map (Dpcm.cur8 cv ty))).2]
    apply List.map_congr_left
    intro d hd
    exact sext8_wrapU d (delta8_range _ _ d hd)
  rw [hid, undelta8_delta8 _ 0 (by
    intro x hx
    obtain ⟨v, _, rfl⟩ := List.mem_map.1 hx
    exact cur8_range cv ty v)]

/-! ## per sample: codec value and back -/

theorem cur16_range (cv : Conv) (ty : Ty) (v : Int) (hr : ty.inRange v) : R16 (Dpcm.cur16 cv ty v) := by
  cases ty with
  | s16 => exact hr
  | s32 =>
    obtain ⟨a, b⟩ := hr
    show R16 (asr v 16)
    unfold R16 asr; norm_num; omega
  | f32 => exact wrapS16_range _
  | f64 => exact wrapS16_range _

/-- DPCM_16: a short always, an int whose low 16 bits are zero -/
theorem out16_cur16 (cv cv2 : Conv) (ty : Ty) (v : Int) (hlow : ty = .s16 ∨ (ty = .s32 ∧ v % 2 ^ 16 = 0)) :
    Dpcm.out16 cv2 ty (Dpcm.cur16 cv ty v) = v := by
  rcases hlow with rfl | ⟨rfl, h⟩
  · rfl
  · show asr v 16 * 65536 = v
    unfold asr
    have : v % 65536 = 0 := by simpa using h
    norm_num; omega

/-- DPCM_8: a short whose low 8 bits are zero, an int whose low 24 bits are zero -/
theorem out8_cur8 (cv cv2 : Conv) (ty : Ty) (v : Int) (hr : ty.inRange v)
    (hlow : (ty = .s16 ∧ v % 2 ^ 8 = 0) ∨ (ty = .s32 ∧ v % 2 ^ 24 = 0)) :
    Dpcm.out8 cv2 ty (Dpcm.cur8 cv ty v) = v := by
  rcases hlow with ⟨rfl, h⟩ | ⟨rfl, h⟩
  · obtain ⟨a, b⟩ := hr
    show wrapS 8 (asr v 8) * 256 = v
    have hm : v % 256 = 0 := by simpa using h
    rw [wrapS8_id _ (by unfold R8 asr; norm_num; omega)]
    unfold asr; norm_num; omega
  · obtain ⟨a, b⟩ := hr
    show wrapS 8 (asr v 24) * 16777216 = v
    have hm : v % 16777216 = 0 := by simpa using h
    rw [wrapS8_id _ (by unfold R8 asr; norm_num; omega)]
    unfold asr; norm_num; omega

/-! ## both widths at once; the read-back through the model's handle `DpcmR` -/

/-- what a sample comes back as: written with (cv, ty), read with (cv2, ty2) -/
def rt (wide : Bool) (cv cv2 : Conv) (ty ty2 : Ty) (v : Int) : Int :=
  if wide then Dpcm.out16 cv2 ty2 (Dpcm.cur16 cv ty v) else Dpcm.out8 cv2 ty2 (Dpcm.cur8 cv ty v)

theorem decode_data (wide : Bool) (cv cv2 : Conv) (ty ty2 : Ty) (cs : List LCall) (hr : ∀ v ∈ samples cs, ty.inRange v) :
    (Dpcm.read wide cv2 ty2 0 (data wide cv ty cs)).2 = (samples cs).map (rt wide cv cv2 ty ty2) := by
  cases wide with
  | true =>
    rw [decode_data_16 cv cv2 ty ty2 cs (fun v hv => cur16_range cv ty v (hr v hv)), List.map_map]
    apply List.map_congr_left; intro v _; simp [rt]
  | false =>
    rw [decode_data_8, List.map_map]
    apply List.map_congr_left; intro v _; simp [rt]

/-- the requested region after `sf_read_T (n items)` on a freshly opened handle over the data region `d` (cells the reader does
    not write keep the fill value 0; at the end of the data the whole request is zero-filled) -/
def back (wide : Bool) (cv : Conv) (ty : Ty) (d : List Byte) (n : Nat) : List Int :=
  match ((DpcmR.open wide d).read cv ty n).2.1 with
  | some vs => (vs ++ List.replicate n 0).take n
  | none => List.replicate n 0

theorem back_length (wide : Bool) (cv : Conv) (ty : Ty) (d : List Byte) (n : Nat) : (back wide cv ty d n).length = n := by
  unfold back
  split
  · rw [List.length_take, List.length_append, List.length_replicate]; omega
  · exact List.length_replicate

/-- **DPCM, whole file through the handle**: a read of at least the frames written delivers, for every caller type and every
    conversion setting, the samples as the codec keeps them -/
theorem back_data (wide : Bool) (cv cv2 : Conv) (ty ty2 : Ty) (cs : List LCall) (hr : ∀ v ∈ samples cs, ty.inRange v) (n : Nat)
    (hn : (samples cs).length ≤ n) :
    back wide cv2 ty2 (data wide cv ty cs) n = ((samples cs).map (rt wide cv cv2 ty ty2) ++ List.replicate n 0).take n := by
  have hlen := data_length wide cv ty cs
  have hdec := decode_data wide cv cv2 ty ty2 cs hr
  generalize hN : (samples cs).length = N at hlen hn
  have hbw : 0 < (if wide = true then 2 else 1) := by split <;> decide
  have hfr : (data wide cv ty cs).length / (if wide = true then 2 else 1) = N := by rw [hlen, Nat.mul_div_cancel _ hbw]
  unfold back DpcmR.read DpcmR.open
  by_cases h0 : n = 0
  · subst h0
    have : N = 0 := by omega
    simp
  · simp only [h0, if_false]
    by_cases hN0 : N = 0
    · have hs : samples cs = [] := List.length_eq_zero_iff.1 (by omega)
      simp only [hfr, hN0, Nat.le_refl, ge_iff_le, if_true, hs, List.map_nil, List.nil_append]
      rw [List.take_of_length_le (by simp)]
    · have hpos : ¬ (0 ≥ (data wide cv ty cs).length / (if wide = true then 2 else 1)) := by rw [hfr]; omega
      simp only [hpos, if_false]
      have hk : min n ((data wide cv ty cs).length / (if wide = true then 2 else 1)) = N := by rw [hfr]; omega
      have ht : List.take (N * if wide = true then 2 else 1) (data wide cv ty cs) = data wide cv ty cs :=
        List.take_of_length_le (by rw [hlen])
      rw [hk, ht, hdec]

end Sf.AbsWriteBridge.Dpcm3
