/-
  SfProofs.AbsRun — accepted TRANSCRIPTS: what a sequence of accepted reads delivers (the concatenation is a slice of the
  reference stream), and the invariant of read-only histories, by induction over the transcript.
-/
import SfProofs.AbsMeaning
namespace Sf.Abs

/-- one read call of a transcript: call variant, count, answer -/
abbrev RdLine := Bool × Int × Out

def rdTr (ty : Ty) (rds : List RdLine) : List (Op × Out) := rds.map fun r => (Op.read ty r.1 r.2.1, r.2.2)

/-- the cells a read call delivered: the first `r` items of the caller's buffer -/
def delivered (g : Geom) (ty : Ty) (r : RdLine) : Array Item := r.2.2.data.extract 0 (retItems g r.1 r.2.2.ret * cells ty)

def deliveredAll (g : Geom) (ty : Ty) : List RdLine → Array Item
  | [] => #[]
  | r :: rs => delivered g ty r ++ deliveredAll g ty rs

theorem whole_frames_cells (g : Geom) (ty : Ty) (items : Nat) (h : items % g.ch = 0) :
    items * cells ty = items / g.ch * g.cpf ty := by
  unfold Geom.cpf
  have : items = items / g.ch * g.ch := by
    have := Nat.div_add_mod items g.ch
    rw [h, Nat.add_zero, Nat.mul_comm] at this; exact this.symm
  conv => lhs; rw [this]
  rw [Nat.mul_assoc]

/-- one accepted valid read on a read-only handle inside the file: the cells delivered are the slice
    `[rpos·cpf, rpos'·cpf)` of the reference stream -/
theorem read_step (g : Geom) (st : St) (ty : Ty) (r : RdLine) (st1 : St)
    (hv : validReq g r.1 r.2.1 = true) (hm : st.mode = .r) (hval : st.valid ty = true) (hle : st.rpos ≤ st.frames)
    (h : check g st (Op.read ty r.1 r.2.1) r.2.2 = .ok st1) :
    delivered g ty r = (st.ref ty).extract (st.rpos * g.cpf ty) (st1.rpos * g.cpf ty) ∧
    st.rpos ≤ st1.rpos ∧ st1.rpos ≤ st.frames ∧ st1.frames = st.frames ∧ st1.ref = st.ref ∧ st1.valid = st.valid ∧
    st1.mode = .r ∧ (r.2.2.ret < r.2.1 → st1.rpos = st.frames) := by
  obtain ⟨fc, n, o⟩ := r
  simp only [check] at h
  simp only at hv
  have hr : ReadReq g st fc n := ⟨hv, by rw [hm]; decide⟩
  obtain ⟨h0, h1, hw, hs, he, heof, hmain⟩ := readOk_valid g st ty fc n o st1 hr h
  unfold delivered
  simp only
  by_cases hend : st.frames ≤ st.rpos
  · obtain ⟨hz, _, hst⟩ := heof hend
    subst hst
    have : retItems g fc o.ret = 0 := by unfold retItems; rw [hz]; simp
    rw [this]
    refine ⟨?_, Nat.le_refl _, hle, rfl, rfl, rfl, hm, fun _ => by simp only; omega⟩
    rw [Array.extract_eq_empty_of_le (by simp), Array.extract_eq_empty_of_le (Nat.min_le_left _ _)]
  · obtain ⟨hst, hin, hdat, hshort⟩ := hmain (by omega)
    subst hst
    have hcells := whole_frames_cells g ty (retItems g fc o.ret) hw
    obtain ⟨hx, _⟩ := sliceEq_extract _ _ _ _ _ (hdat hval)
    refine ⟨?_, Nat.le_add_right _ _, hin, rfl, rfl, rfl, hm, fun hlt => hshort hlt⟩
    simp only
    rw [Nat.zero_add] at hx
    rw [hx, hcells, Nat.add_mul]

/-- C06, partition independence in its general form: the concatenation of what ANY accepted sequence of valid reads
    (any sizes, items or frames calls) delivers from read position `p` is the slice `[p·cpf, p'·cpf)` of the reference
    stream, `p'` the read position afterwards -/
theorem reads_concat (g : Geom) (ty : Ty) : ∀ (rds : List RdLine) (st st' : St),
    (∀ r ∈ rds, validReq g r.1 r.2.1 = true) → st.mode = .r → st.valid ty = true → st.rpos ≤ st.frames →
    accepts g st (rdTr ty rds) = some st' →
    deliveredAll g ty rds = (st.ref ty).extract (st.rpos * g.cpf ty) (st'.rpos * g.cpf ty) ∧
    st.rpos ≤ st'.rpos ∧ st'.rpos ≤ st.frames ∧ st'.frames = st.frames ∧ st'.ref = st.ref ∧ st'.mode = .r := by
  intro rds
  induction rds with
  | nil =>
    intro st st' _ hm _ hle h
    simp only [rdTr, List.map_nil, accepts] at h
    injection h with h; subst h
    refine ⟨?_, Nat.le_refl _, hle, rfl, rfl, hm⟩
    simp only [deliveredAll]
    rw [Array.extract_eq_empty_of_le (Nat.min_le_left _ _)]
  | cons r rs ih =>
    intro st st' hv hm hval hle h
    simp only [rdTr, List.map_cons, accepts] at h
    split at h
    · rename_i st1 hc
      obtain ⟨hd, h1, h2, h3, h4, h5, h6, _⟩ := read_step g st ty r st1 (hv r (by simp)) hm hval hle hc
      have := ih st1 st' (fun x hx => hv x (by simp [hx])) h6 (by rw [h5]; exact hval) (by rw [h3]; exact h2) h
      obtain ⟨hd', g1, g2, g3, g4, g5⟩ := this
      refine ⟨?_, by omega, by rw [h3] at g2; exact g2, by rw [g3, h3], by rw [g4, h4], g5⟩
      simp only [deliveredAll]
      rw [hd, hd', h4, Array.extract_append_extract]
      have a1 : st.rpos * g.cpf ty ≤ st1.rpos * g.cpf ty := Nat.mul_le_mul_right _ h1
      have a2 : st1.rpos * g.cpf ty ≤ st'.rpos * g.cpf ty := Nat.mul_le_mul_right _ g1
      rw [Nat.min_eq_left a1, Nat.max_eq_right a2]
    · exact absurd h (by simp)

/-- partition independence proper: two accepted read sequences of the same file from the same position that end at
    the same position delivered the same cells — however the calls were cut, whichever call variants were used -/
theorem partition_independent (g : Geom) (ty : Ty) (rds1 rds2 : List RdLine) (st st1 st2 : St)
    (hv1 : ∀ r ∈ rds1, validReq g r.1 r.2.1 = true) (hv2 : ∀ r ∈ rds2, validReq g r.1 r.2.1 = true)
    (hm : st.mode = .r) (hval : st.valid ty = true) (hle : st.rpos ≤ st.frames)
    (h1 : accepts g st (rdTr ty rds1) = some st1) (h2 : accepts g st (rdTr ty rds2) = some st2)
    (hp : st1.rpos = st2.rpos) : deliveredAll g ty rds1 = deliveredAll g ty rds2 := by
  rw [(reads_concat g ty rds1 st st1 hv1 hm hval hle h1).1, (reads_concat g ty rds2 st st2 hv2 hm hval hle h2).1, hp]

/-- the accepted history of a read-only handle never leaves `0 ≤ rpos ≤ frames`, and never changes the file -/
def RInv (st : St) : Prop := st.mode = .r ∧ st.rpos ≤ st.frames

def rdOnly : Op → Bool
  | .read _ _ _ | .seek _ _ | .rawRead _ | .info | .other | .close => true
  | _ => false

theorem rawReadOk_ok_r (g : Geom) (st : St) (n : Int) (o : Out) (st' : St) (hi : RInv st)
    (h : rawReadOk g st n o = .ok st') :
    st'.frames = st.frames ∧ st'.ref = st.ref ∧ st'.valid = st.valid ∧ st'.mode = st.mode ∧ st'.rpos ≤ st'.frames := by
  obtain ⟨hm, hle⟩ := hi
  unfold rawReadOk at h
  simp only at h
  repeat' split at h
  all_goals first | (exact Res.noConfusion h) | skip
  all_goals (injection h with h; subst h)
  all_goals first | exact ⟨rfl, rfl, rfl, rfl, hle⟩ | skip
  refine ⟨rfl, rfl, rfl, rfl, ?_⟩
  have := Nat.min_le_right (n.toNat / g.bw) (st.frames - st.rpos)
  simp only
  omega

theorem check_RInv (g : Geom) (st : St) (op : Op) (o : Out) (st' : St) (hi : RInv st) (hop : rdOnly op = true)
    (h : check g st op o = .ok st') :
    RInv st' ∧ st'.frames = st.frames ∧ st'.ref = st.ref ∧ st'.valid = st.valid := by
  obtain ⟨hm, hle⟩ := hi
  cases op with
  | read ty fc n =>
    simp only [check] at h
    by_cases hn : n = 0
    · subst hn
      obtain ⟨_, hs⟩ := readOk_zero g st ty fc o st' h
      subst hs; exact ⟨⟨hm, hle⟩, rfl, rfl, rfl⟩
    · by_cases hr : ReadReq g st fc n
      · obtain ⟨_, _, _, _, _, heof, hmain⟩ := readOk_valid g st ty fc n o st' hr h
        by_cases hend : st.frames ≤ st.rpos
        · obtain ⟨_, _, hs⟩ := heof hend
          subst hs; exact ⟨⟨hm, hle⟩, rfl, rfl, rfl⟩
        · obtain ⟨hs, hin, _, _⟩ := hmain (by omega)
          subst hs; exact ⟨⟨hm, hin⟩, rfl, rfl, rfl⟩
      · obtain ⟨_, _, hs⟩ := readOk_invalid g st ty fc n o st' hn hr h
        subst hs; exact ⟨⟨hm, hle⟩, rfl, rfl, rfl⟩
  | seek off whence =>
    simp only [check] at h
    rcases seekOk_ok g st off whence o st' h with ⟨_, _, hs⟩ | ⟨t, _, ht, _, _, hs⟩
    · subst hs; exact ⟨⟨hm, hle⟩, rfl, rfl, rfl⟩
    · obtain ⟨b, _, _, hb, _⟩ := seekTarget_some st off whence t ht
      obtain ⟨f1, f2, f3, f4⟩ := seekMove_frames st whence t
      subst hs
      refine ⟨⟨by rw [f2]; exact hm, ?_⟩, f1, f3, f4⟩
      rw [seekMove_rpos_r st off whence t hm ht, f1]; exact hb hm
  | rawRead n =>
    simp only [check] at h
    obtain ⟨a, b, c, d, e⟩ := rawReadOk_ok_r g st n o st' ⟨hm, hle⟩ h
    exact ⟨⟨by rw [d]; exact hm, e⟩, a, b, c⟩
  | info =>
    simp only [check, infoOk] at h
    split at h
    · injection h with h; subst h; exact ⟨⟨hm, hle⟩, rfl, rfl, rfl⟩
    · exact Res.noConfusion h
  | close =>
    simp only [check, closeOk] at h
    split at h
    · injection h with h; subst h; exact ⟨⟨hm, hle⟩, rfl, rfl, rfl⟩
    · exact Res.noConfusion h
  | other =>
    simp only [check] at h
    injection h with h; subst h; exact ⟨⟨hm, hle⟩, rfl, rfl, rfl⟩
  | write _ _ _ _ => simp [rdOnly] at hop
  | trunc _ => simp [rdOnly] at hop
  | rawWrite _ _ => simp [rdOnly] at hop
  | reopen _ => simp [rdOnly] at hop

/-- … lifted to every accepted transcript, by induction -/
theorem accepts_RInv (g : Geom) : ∀ (tr : List (Op × Out)) (st st' : St), RInv st → (∀ l ∈ tr, rdOnly l.1 = true) →
    accepts g st tr = some st' → RInv st' ∧ st'.frames = st.frames ∧ st'.ref = st.ref ∧ st'.valid = st.valid := by
  intro tr
  induction tr with
  | nil => intro st st' hi _ h; simp only [accepts] at h; injection h with h; subst h; exact ⟨hi, rfl, rfl, rfl⟩
  | cons l tr ih =>
    intro st st' hi hop h
    obtain ⟨op, o⟩ := l
    simp only [accepts] at h
    split at h
    · rename_i st1 hc
      obtain ⟨i1, a, b, c⟩ := check_RInv g st op o st1 hi (hop (op, o) (by simp)) hc
      obtain ⟨i2, a', b', c'⟩ := ih st1 st' i1 (fun x hx => hop x (by simp [hx])) h
      exact ⟨i2, by rw [a', a], by rw [b', b], by rw [c', c]⟩
    · exact absurd h (by simp)

/-- `holdsFrom` says `ok` exactly when every line is accepted -/
theorem holdsFrom_ok_iff (g : Geom) : ∀ (tr : List (Op × Out)) (k : Nat) (st : St) (n : Nat),
    holdsFrom g k st tr = .ok n ↔ (∃ st', accepts g st tr = some st') ∧ n = k + tr.length := by
  intro tr
  induction tr with
  | nil =>
    intro k st n
    simp only [holdsFrom, accepts, List.length_nil, Nat.add_zero]
    constructor
    · intro h; injection h with h; exact ⟨⟨st, rfl⟩, h.symm⟩
    · intro ⟨_, h⟩; rw [h]
  | cons l tr ih =>
    intro k st n
    obtain ⟨op, o⟩ := l
    simp only [holdsFrom, accepts, List.length_cons]
    cases hc : check g st op o with
    | ok st1 =>
      simp only
      rw [ih (k + 1) st1 n]
      constructor
      · intro ⟨a, b⟩; exact ⟨a, by omega⟩
      · intro ⟨a, b⟩; exact ⟨a, by omega⟩
    | bad tag r =>
      simp only
      constructor
      · intro h; exact Verdict.noConfusion h
      · intro ⟨⟨_, h⟩, _⟩; cases h
    | skip =>
      simp only
      constructor
      · intro h; exact Verdict.noConfusion h
      · intro ⟨⟨_, h⟩, _⟩; cases h

end Sf.Abs
