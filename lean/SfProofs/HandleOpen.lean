/-
  Every handle returned by `openHandle` satisfies `HInv` (new files, RAW, parsed AU and WAV headers),
  hence so does every state reachable from it.
-/
import SfProofs.HandlePres
namespace Sf

theorem encOf_nbytes_pos (c : Container) (codec : Nat) (big : Bool) (enc : Enc) (h : encOf c codec big = some enc) :
    0 < enc.nbytes := by
  unfold encOf at h
  split at h
  all_goals first
    | contradiction
    | (injection h with h; subst h; simp [Enc.nbytes, PcmFmt.nbytes])
    | (split at h <;> first | contradiction | (injection h with h; subst h; simp [Enc.nbytes, PcmFmt.nbytes]))

theorem initFrames_spec (off de fl : Int) (bw : Nat) (L : Int) (hbw : 0 < bw) (hoff : off ≤ L)
    (hde : de > 0 → off ≤ de ∧ de ≤ L) (hfl : fl ≤ L) :
    0 ≤ (initFrames off de fl bw).2 ∧ off + (initFrames off de fl bw).2 * (bw : Int) ≤ L := by
  unfold initFrames
  simp only [hbw, if_true]
  have hb : (0 : Int) < bw := by omega
  have key : ∀ x : Int, 0 ≤ x → off + x ≤ L → 0 ≤ x / (bw : Int) ∧ off + x / (bw : Int) * (bw : Int) ≤ L := by
    intro x hx hl
    have := Int.ediv_mul_le x (Int.ne_of_gt hb)
    have := Int.ediv_nonneg hx (show 0 ≤ (bw : Int) by omega)
    omega
  by_cases h1 : fl > off
  · by_cases h2 : de > 0
    · simp only [h1, h2, if_true]
      obtain ⟨a, b⟩ := hde h2
      exact key _ (by omega) (by omega)
    · simp only [h1, h2, if_true, if_false]
      exact key _ (by omega) (by omega)
  · simp only [h1, if_false]
    exact key 0 (by omega) (by omega)

/-- what `openHandle` needs from a parsed header -/
def Parsed.WF (p : Parsed) (L : Nat) : Prop :=
  0 < p.ch ∧ p.dataoffset ≤ L ∧ p.filelength ≤ (L : Int) ∧
    (p.dataend > 0 → (p.dataoffset : Int) ≤ p.dataend ∧ p.dataend ≤ (L : Int))

theorem auParse_wf (bs : List Byte) (p : Parsed) (h : auParse bs = .ok p) : p.WF bs.length := by
  unfold auParse at h
  simp only at h
  split at h
  · split at h <;> contradiction
  rename_i hlen
  split at h
  · contradiction
  split at h
  · contradiction
  rename_i codec hc
  split at h
  · contradiction
  rename_i hch
  split at h
  · contradiction
  rename_i hoff
  injection h with h
  subst h
  simp only [Parsed.WF]
  simp only [bne_iff_ne, ne_eq, Decidable.not_not] at hoff
  refine ⟨by omega, by omega, ?_, by simp⟩
  split
  · omega
  · split <;> omega

def WavScan.WF (s : WavScan) (flen : Nat) : Prop :=
  s.haveData = true → s.dataoffset ≤ flen ∧ (s.dataend > 0 → (s.dataoffset : Int) ≤ s.dataend ∧ s.dataend ≤ (flen : Int))

theorem wavScan_wf (big : Bool) (bs : List Byte) (flen : Nat) :
    ∀ (fuel pos : Nat) (s s' : WavScan), s.WF flen → wavScan big bs flen fuel pos s = some s' → s'.WF flen := by
  intro fuel
  induction fuel with
  | zero =>
    intro pos s s' hs h
    simp only [wavScan] at h
    injection h with h; subst h; exact hs
  | succ fuel ih =>
    intro pos s s' hs h
    simp only [wavScan] at h
    have next_ok : ∀ (s1 : WavScan) (c1 c2 : Prop) [Decidable c1] [Decidable c2] (p : Nat), s1.WF flen →
        (if c1 then some s1 else if c2 then some s1 else wavScan big bs flen fuel p s1) = some s' → s'.WF flen := by
      intro s1 c1 c2 _ _ p h1 hh
      split at hh
      · injection hh with hh; subst hh; exact h1
      · split at hh
        · injection hh with hh; subst hh; exact h1
        · exact ih _ _ _ h1 hh
    by_cases c0 : pos + 8 > flen
    · rw [if_pos c0] at h; injection h with h; subst h; exact hs
    rw [if_neg c0] at h
    split at h
    · split at h
      · (refine next_ok _ _ _ _ ?_ h; exact hs)
      · split at h
        · contradiction
        · (refine next_ok _ _ _ _ ?_ h; exact hs)
    split at h
    · (refine next_ok _ _ _ _ ?_ h; exact hs)
    split at h
    · (refine next_ok _ _ _ _ ?_ h; exact hs)
    split at h
    · split at h
      · contradiction
      · (refine next_ok _ _ _ _ ?_ h; exact hs)
    split at h
    · split at h
      · contradiction
      · have hnew : ∀ s1 : WavScan, s1.dataoffset = pos + 8 →
            (∃ dl : Int, 0 ≤ dl ∧ dl ≤ (flen : Int) - ((pos + 8 : Nat) : Int) ∧
              s1.dataend = if dl + ((pos + 8 : Nat) : Int) < (flen : Int) then dl + ((pos + 8 : Nat) : Int) else 0) →
            s1.WF flen := by
          intro s1 e1 ⟨dl, d0, d1, e2⟩ _
          rw [e1, e2]
          refine ⟨by omega, ?_⟩
          intro hd
          split at hd <;> omega
        have hdl : ∀ (a b : Int), 0 ≤ a → 0 ≤ b → 0 ≤ (if a > b then b else a) ∧ (if a > b then b else a) ≤ b := by
          intro a b ha hb; split <;> omega
        obtain ⟨d0, d1⟩ := hdl (rd32 big bs (pos + 4) : Int) ((flen : Int) - ((pos + 8 : Nat) : Int)) (by omega) (by omega)
        generalize (if (rd32 big bs (pos + 4) : Int) > (flen : Int) - ((pos + 8 : Nat) : Int)
            then (flen : Int) - ((pos + 8 : Nat) : Int) else (rd32 big bs (pos + 4) : Int)) = dl at h d0 d1
        split at h
        · injection h with h; subst h
          exact hnew _ rfl ⟨_, d0, d1, rfl⟩
        · refine ih _ _ _ ?_ h
          exact hnew _ rfl ⟨_, d0, d1, rfl⟩
    · contradiction

theorem wavParse_wf (bs : List Byte) (p : Parsed) (h : wavParse bs = .ok p) : p.WF bs.length := by
  unfold wavParse at h
  simp only at h
  split at h
  · contradiction
  split at h
  · contradiction
  split at h
  · contradiction
  split at h
  · contradiction
  rename_i sc hsc
  have hwf := wavScan_wf _ bs bs.length 64 12 {} sc (by intro hh; simp at hh) hsc
  split at h
  · contradiction
  rename_i hflags
  split at h
  · contradiction
  rename_i c hc
  split at h
  · contradiction
  rename_i hch
  injection h with h
  subst h
  simp only [Bool.not_eq_true', not_or, Bool.not_eq_false] at hflags
  have := hwf hflags.1
  simp only [Parsed.WF]
  exact ⟨by omega, this.1, by omega, this.2⟩

theorem writeHeader_au (h : H) (s : Store) (hc : h.container = .au) :
    (writeHeader h s false).1 = { h with dataoffset := 24 } := by
  unfold writeHeader; split <;> simp_all

theorem writeHeader_wav (h : H) (s : Store) (hc : h.container = .wav) :
    (writeHeader h s false).1 = { h with dataoffset := ((wavHeader h).length : Int) } := by
  unfold writeHeader; split <;> simp_all

/-- every handle `openHandle` returns satisfies the invariant -/
theorem HInv_openHandle (ix : Nat) (s0 : Store) (mode : Mode) (fmt : Nat) (ch sr : Int) (h : H) (s : Store)
    (ho : openHandle ix s0 mode fmt ch sr = .ok h s) : HInv h s := by
  unfold openHandle at ho
  simp only at ho
  split at ho
  · -- new file, or RAW
    rename_i hfresh
    split at ho
    · contradiction
    rename_i c hc
    split at ho
    · contradiction
    rename_i hargs
    split at ho
    · contradiction
    rename_i enc henc
    split at ho
    · contradiction
    have hnb := encOf_nbytes_pos _ _ _ _ henc
    have hchn : 0 < ch.toNat := by omega
    split at ho
    · -- raw
      injection ho with e1 e2
      subst e1 e2
      have hbw : 0 < enc.nbytes * ch.toNat := Nat.mul_pos hnb hchn
      obtain ⟨f0, f1⟩ := initFrames_spec 0 0 ((s0.seekSet 0).bytes.length : Int) (enc.nbytes * ch.toNat)
        ((s0.seekSet 0).bytes.length : Int) hbw (by omega) (by omega) (by omega)
      refine ⟨hchn, hnb, Int.le_refl _, ?_, Int.le_refl _, fun hm => ⟨hm, f0, f1, fun _ => ?_⟩⟩
      · show 0 ≤ (if (mode == Mode.rw) = true then _ else 0)
        split
        · exact f0
        · exact Int.le_refl _
      · show (((s0.seekSet 0).pos : Nat) : Int) = 0 + 0 * _
        simp [Store.seekSet]
    · -- au, new file
      have hmode : mode ≠ .r := by
        intro hm; subst hm; simp [hc] at hfresh
      rw [writeHeader_au _ _ rfl] at ho
      injection ho with e1 e2
      subst e1
      exact ⟨hchn, hnb, Int.le_refl _, Int.le_refl _, by show (0 : Int) ≤ 24; omega, fun hm => absurd hm hmode⟩
    · -- wav, new file
      have hmode : mode ≠ .r := by
        intro hm; subst hm; simp [hc] at hfresh
      rw [writeHeader_wav _ _ rfl] at ho
      injection ho with e1 e2
      subst e1
      exact ⟨hchn, hnb, Int.le_refl _, Int.le_refl _, Int.natCast_nonneg _, fun hm => absurd hm hmode⟩
  · -- existing file: header parsed
    split at ho
    · contradiction
    · contradiction
    rename_i p hp
    have hwf : p.WF (s0.seekSet 0).bytes.length := by
      split at hp
      · exact wavParse_wf _ _ hp
      · split at hp
        · exact auParse_wf _ _ hp
        · contradiction
    split at ho
    · contradiction
    rename_i c hc
    split at ho
    · contradiction
    rename_i enc henc
    split at ho
    · contradiction
    have hnb := encOf_nbytes_pos _ _ _ _ henc
    obtain ⟨w1, w2, w3, w4⟩ := hwf
    have hbw : 0 < enc.nbytes * p.ch := Nat.mul_pos hnb w1
    obtain ⟨f0, f1⟩ := initFrames_spec p.dataoffset p.dataend p.filelength (enc.nbytes * p.ch)
      ((s0.seekSet 0).bytes.length : Int) hbw (by omega) w4 w3
    injection ho with e1 e2
    subst e1 e2
    refine ⟨w1, hnb, Int.le_refl _, ?_, Int.natCast_nonneg _, fun hm => ⟨hm, f0, f1, fun _ => ?_⟩⟩
    · show 0 ≤ (if (mode == Mode.rw) = true then _ else 0)
      split
      · exact f0
      · exact Int.le_refl _
    · show ((((s0.seekSet 0).seekSet p.dataoffset).pos : Nat) : Int) = (p.dataoffset : Int) + 0 * _
      simp [Store.seekSet]

/-- the invariant holds in every state reachable from a successful open -/
theorem HInv_reachable (ix : Nat) (s0 : Store) (mode : Mode) (fmt : Nat) (ch sr : Int) (h : H) (s : Store)
    (ho : openHandle ix s0 mode fmt ch sr = .ok h s) (ops : List Op) :
    HInv (runOps h s ops).1 (runOps h s ops).2 :=
  HInv_runOps ops h s (HInv_openHandle ix s0 mode fmt ch sr h s ho)

end Sf
