/-
  Helper lemmas for SfProps/C06Gsm.lean about the wrapper model (SfModel/GsmFile.lean): the private-struct invariant,
  every block of the sequential pass has `samplesperblock` int16 samples, the staging loop of the int / float / double
  readers (`Reader.readChunked`) on a one-channel reader.
-/
import SfModel.GsmFile
import SfProofs.GsmLemmas
import SfProofs.BlockReader
namespace Sf.Gsm.Proofs
open Sf Sf.Gsm Sf.Block Sf.Block.Proofs

structure DInv (d : DSt) : Prop where
  g     : SInv d.g
  s_len : d.samples.length = 320
  s_w   : AllW16 d.samples
  b_len : d.block.length = 65

theorem DInv_init (c : Cfg) : DInv (DSt.init c) := by
  refine ⟨?_, List.length_replicate .., AllW16_replicate _, List.length_replicate ..⟩
  unfold DSt.init
  split
  · exact SInv_initWav
  · exact SInv_init

theorem decodeBlock_inv (c : Cfg) (d : DSt) (got : List Byte) (hg : got.length ≤ 65) (inv : DInv d) :
    DInv (decodeBlock c d got) := by
  have hb : (got ++ d.block.drop got.length).length = 65 := by
    rw [List.length_append, List.length_drop, inv.b_len]; omega
  unfold decodeBlock
  simp only
  obtain ⟨a1, a2⟩ := gsmDecode_spec d.g (got ++ d.block.drop got.length) inv.g
  generalize gsmDecode d.g (got ++ d.block.drop got.length) = r1 at a1 a2
  obtain ⟨g1, o1⟩ := r1
  simp only at a1 a2
  have hd : (d.samples.drop 160).length = 160 := by rw [List.length_drop, inv.s_len]
  by_cases hw : c.wav = true
  · rw [if_pos hw]
    cases o1 with
    | none => exact ⟨inv.g, inv.s_len, inv.s_w, hb⟩
    | some o1 =>
      obtain ⟨l1, w1⟩ := a2 o1 rfl
      obtain ⟨b1, b2⟩ := gsmDecode_spec g1 ((got ++ d.block.drop got.length).drop 33) a1
      simp only
      generalize gsmDecode g1 ((got ++ d.block.drop got.length).drop 33) = r2 at b1 b2
      obtain ⟨g2, o2⟩ := r2
      simp only at b1 b2
      cases o2 with
      | none =>
        exact ⟨a1, by simp only [List.length_append, l1, hd], AllW16_append w1 (AllW16_drop _ inv.s_w), hb⟩
      | some o2 =>
        obtain ⟨l2, w2⟩ := b2 o2 rfl
        exact ⟨b1, by simp only [List.length_append, l1, l2], AllW16_append w1 w2, hb⟩
  · rw [if_neg hw]
    cases o1 with
    | none => exact ⟨inv.g, inv.s_len, inv.s_w, hb⟩
    | some o1 =>
      obtain ⟨l1, w1⟩ := a2 o1 rfl
      exact ⟨a1, by simp only [List.length_append, l1, hd], AllW16_append w1 (AllW16_drop _ inv.s_w), hb⟩

theorem blocksize_le (c : Cfg) : c.blocksize ≤ 65 := by unfold Cfg.blocksize; split <;> decide
theorem spb_le (c : Cfg) : c.spb ≤ 320 := by unfold Cfg.spb; split <;> decide
theorem spb_pos (c : Cfg) : 0 < c.spb := by unfold Cfg.spb; split <;> decide

theorem seqDecode_spec (c : Cfg) : ∀ (n : Nat) (d : DSt) (file : List Byte), DInv d →
    (seqDecode c n d file).length = n ∧ ∀ x ∈ seqDecode c n d file, x.length = c.spb ∧ AllW16 x := by
  intro n
  induction n with
  | zero => intro d file _; exact ⟨rfl, by intro x hx; cases hx⟩
  | succ n ih =>
    intro d file inv
    have hg : (file.take c.blocksize).length ≤ 65 := by
      rw [List.length_take]; exact Nat.le_trans (Nat.min_le_left _ _) (blocksize_le c)
    have inv1 := decodeBlock_inv c d (file.take c.blocksize) hg inv
    obtain ⟨h1, h2⟩ := ih (decodeBlock c d (file.take c.blocksize)) (file.drop c.blocksize) inv1
    simp only [seqDecode]
    refine ⟨by simp [h1], ?_⟩
    intro x hx
    rcases List.mem_cons.mp hx with rfl | hx
    · exact ⟨by rw [List.length_take, inv1.s_len]; exact Nat.min_eq_left (spb_le c), AllW16_take _ inv1.s_w⟩
    · exact h2 x hx

theorem fixLen_length (n : Nat) (l : List Int) : (fixLen n l).length = n := by simp [fixLen, zeros]

theorem fixLen_id (n : Nat) (l : List Int) (h : l.length = n) : fixLen n l = l := by
  unfold fixLen
  rw [List.take_append_of_le_length (by omega), List.take_of_length_le (by omega)]

theorem reader_wf (c : Cfg) (file : List Byte) (dlen : Nat) : WF (reader c file dlen) := by
  refine ⟨spb_pos c, Nat.one_pos, ?_⟩
  intro k
  simp only [reader]
  split
  · rw [fixLen_length, Nat.mul_one]
  · simp [zeros]

/-! ## the staging loop on a one-channel reader -/

theorem readChunked_spec (r : Reader) (wf : WF r) (hch : r.ch = 1) (chunk : Nat) : ∀ (fuel : Nat) (st : RState) (n : Nat)
    (acc : List Int) (total : Nat), Inv r st → n < fuel → r.pos st + n ≤ r.frames → acc.length = total →
    ∃ st', r.readChunked chunk fuel st n acc total = (st', acc ++ r.slice (r.pos st) n, total + n) ∧ Inv r st' ∧
      r.pos st' = r.pos st + n := by
  intro fuel
  induction fuel with
  | zero => intro st n acc total _ h; omega
  | succ fuel ih =>
    intro st n acc total inv hf hend hacc
    unfold Reader.readChunked
    by_cases hn : n = 0
    · subst hn
      exact ⟨st, by simp [slice_zero], inv, rfl⟩
    · simp only [hn, if_false]
      generalize hrc : (if chunk = 0 then n else min chunk n) = rc
      have hrc1 : 1 ≤ rc := by subst hrc; split <;> omega
      have hrc2 : rc ≤ n := by subst hrc; split <;> omega
      obtain ⟨st1, h1, inv1, hp1⟩ := readLoop_spec r wf (rc * r.ch + 1) st rc inv
        (Nat.lt_succ_of_le (Nat.le_mul_of_pos_right rc wf.ch_pos)) (by omega)
      rw [hch, Nat.mul_one, Nat.mul_one] at h1
      have hread : r.read st rc = (st1, r.slice (r.pos st) rc, rc) := by unfold Reader.read; exact h1
      rw [hread]
      simp only
      have hacc1 : acc.take total ++ r.slice (r.pos st) rc ++ acc.drop (total + rc) = acc ++ r.slice (r.pos st) rc := by
        rw [List.take_of_length_le (by omega), List.drop_of_length_le (by omega), List.append_nil]
      rw [hacc1]
      obtain ⟨st2, h2, inv2, hp2⟩ := ih st1 (n - rc) (acc ++ r.slice (r.pos st) rc) (total + rc) inv1 (by omega)
        (by rw [hp1]; omega) (by rw [List.length_append, slice_length, hacc])
      rw [h2]
      refine ⟨st2, ?_, inv2, by rw [hp2, hp1]; omega⟩
      have hs : n = rc + (n - rc) := by omega
      rw [hp1, List.append_assoc, ← slice_append, ← hs, Nat.add_assoc, ← hs]

end Sf.Gsm.Proofs
