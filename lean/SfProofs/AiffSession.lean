/-
  SfProofs.AiffSession — the writer state machine of SfModel.Aiff (open, write calls, header updates, close)
  reduced to the closed forms `closedHdr … ++ data ++ tailBytes` and `snapHdr … ++ data`.
-/
import SfModel.Aiff
import SfProofs.AiffImage
namespace Sf.Aiff

inductive WOp
  | write (enc : List Byte) (peaks : List Peak) (auto : Bool)     -- one sf_write_* call (encoded bytes, PEAK table after it)
  | update                                                         -- SFC_UPDATE_HEADER_NOW
deriving Repr

def applyOp (c : Cfg) (k : Kind) (s : St) : WOp → St
  | .write enc pk auto => write c k s enc (some pk) auto
  | .update => update c k s

def run (c : Cfg) (k : Kind) (s : St) (ops : List WOp) : St := ops.foldl (applyOp c k) s

/-- the audio bytes a list of calls stores -/
def opsData : List WOp → List Byte
  | [] => []
  | .write enc _ _ :: r => enc ++ opsData r
  | .update :: r => opsData r

theorem f32beWrite_length (v : Nat) : (f32beWrite v).length = 4 := by
  unfold f32beWrite; simp [beBytes4]

theorem flatMap_len8 (f : Nat → List Byte) (hf : ∀ k, (f k).length = 8) (n : Nat) : ((List.range n).flatMap f).length = 8 * n := by
  induction n with
  | zero => simp
  | succ n ih => simp [List.range_succ, List.flatMap_append, ih, hf]; omega

theorem peakChunk_length (ch : Nat) (ps : List Peak) : (peakChunk ch ps).length = 16 + 8 * ch := by
  unfold peakChunk
  have := flatMap_len8 (fun k => f32beWrite (ps.getD k {}).v32 ++ be32 (ps.getD k {}).pos) (by intro k; simp [f32beWrite_length, be32_length]) ch
  simp only [List.length_append, mk4_length_PEAK, be32_length, this] <;> omega

theorem hdrRaw_length (c : Cfg) (k : Kind) (ha : accepted c = true) (hk : kindOf c = some k) (fr : Nat) (fl dl : Int)
    (peaks : Option (List Peak)) (hpk : peaks.isSome = c.isFloat) : (hdrRaw c k fr fl dl peaks).length = hdrLen c k := by
  obtain ⟨fA, fC, _, _, _⟩ := cfg_facts c k ha hk
  unfold hdrRaw hdrLen
  cases haifc : k.aifc
  · obtain ⟨_, hnf⟩ := fA haifc
    rw [hnf] at hpk
    cases peaks with
    | some ps => simp at hpk
    | none => simp [mk4_length_FORM, mk4_length_AIFF, mk4_length_COMM, mk4_length_SSND, be32_length, be16_length, int2ten_length, hnf]
  · obtain ⟨henc, _⟩ := fC haifc
    cases peaks with
    | some ps =>
      have hf : c.isFloat = true := by simpa using hpk.symm
      simp [mk4_length_FORM, mk4_length_AIFC, mk4_length_FVER, mk4_length_COMM, mk4_length_SSND, be32_length, be16_length, int2ten_length,
        henc, hf, peakChunk_length]; omega
    | none =>
      have hf : c.isFloat = false := by simpa using hpk.symm
      simp [mk4_length_FORM, mk4_length_AIFC, mk4_length_FVER, mk4_length_COMM, mk4_length_SSND, be32_length, be16_length, int2ten_length,
        henc, hf]

/-- what holds of the writer state between calls -/
structure Inv (c : Cfg) (k : Kind) (s : St) : Prop where
  hlen : s.hdr.length = hdrLen c k
  tail : s.tail = []
  dend : s.dataend = 0
  pk : s.peaks.isSome = c.isFloat

theorem writeHeader_fields (c : Cfg) (k : Kind) (s : St) (b : Bool) :
    (writeHeader c k s b).data = s.data ∧ (writeHeader c k s b).tail = s.tail ∧ (writeHeader c k s b).dataend = s.dataend ∧
    (writeHeader c k s b).peaks = s.peaks := ⟨rfl, rfl, rfl, rfl⟩

theorem writeHeader_inv (c : Cfg) (k : Kind) (ha : accepted c = true) (hk : kindOf c = some k) (s : St) (calcLen : Bool)
    (hp : s.peaks.isSome = c.isFloat) (ht : s.tail = []) (hd : s.dataend = 0) : Inv c k (writeHeader c k s calcLen) :=
  ⟨hdrRaw_length c k ha hk _ _ _ _ hp, ht, hd, hp⟩

theorem inv_open (c : Cfg) (k : Kind) (ha : accepted c = true) (hk : kindOf c = some k) (stale : Nat) : Inv c k (openW c k stale) := by
  unfold openW
  apply writeHeader_inv c k ha hk _ _ _ rfl rfl
  cases h : c.isFloat <;> simp

theorem inv_apply (c : Cfg) (k : Kind) (ha : accepted c = true) (hk : kindOf c = some k) (s : St) (i : Inv c k s) (op : WOp) :
    Inv c k (applyOp c k s op) ∧ (applyOp c k s op).data = s.data ++ opsData [op] := by
  cases op with
  | update =>
    exact ⟨writeHeader_inv c k ha hk s true i.pk i.tail i.dend, by simp [applyOp, update, (writeHeader_fields c k s true).1, opsData]⟩
  | write enc pk auto =>
    simp only [applyOp, write, opsData, List.append_nil]
    have i1 : Inv c k (if s.data.isEmpty then writeHeader c k s false else s) ∧ (if s.data.isEmpty then writeHeader c k s false else s).data = s.data := by
      split
      · exact ⟨writeHeader_inv c k ha hk s false i.pk i.tail i.dend, rfl⟩
      · exact ⟨i, rfl⟩
    obtain ⟨j, jd⟩ := i1
    generalize (if s.data.isEmpty then writeHeader c k s false else s) = s1 at j jd ⊢
    have hpk2 : (if c.isFloat = true then some pk else s1.peaks).isSome = c.isFloat := by
      cases h : c.isFloat
      · have := j.pk; rw [h] at this; simpa using this
      · simp
    cases auto
    · simp only [Bool.false_eq_true, if_false]
      exact ⟨⟨j.hlen, j.tail, rfl, hpk2⟩, by rw [jd]⟩
    · simp only [if_true]
      exact ⟨writeHeader_inv c k ha hk _ true hpk2 j.tail rfl, by show s1.data ++ enc = _; rw [jd]⟩

theorem run_inv (c : Cfg) (k : Kind) (ha : accepted c = true) (hk : kindOf c = some k) (ops : List WOp) (s : St) (i : Inv c k s) :
    Inv c k (run c k s ops) ∧ (run c k s ops).data = s.data ++ opsData ops := by
  induction ops generalizing s with
  | nil => simp [run, opsData, i]
  | cons op r ih =>
    obtain ⟨i1, d1⟩ := inv_apply c k ha hk s i op
    obtain ⟨i2, d2⟩ := ih (applyOp c k s op) i1
    refine ⟨i2, ?_⟩
    show (run c k (applyOp c k s op) r).data = _
    rw [d2, d1]
    cases op <;> simp [opsData]

theorem hdrLen_even (c : Cfg) (k : Kind) : hdrLen c k % 2 = 0 := by
  unfold hdrLen; split <;> split <;> omega

theorem nat_ediv_toNat (a b : Nat) : (((a : Int) / (b : Int)).toNat) = a / b := by
  have : (a : Int) / (b : Int) = ((a / b : Nat) : Int) := by simp
  rw [this]; exact Int.toNat_natCast _

/-- `calcLengths` with no data after the audio (`dataend = 0`, no tail): a header-update snapshot -/
theorem calc_snapshot (c : Cfg) (k : Kind) (hbw : 0 < c.bw) (s : St) (i : Inv c k s) :
    calcLengths c k s = (s.data.length / c.bw, ((hdrLen c k + s.data.length : Nat) : Int), (s.data.length : Int)) := by
  unfold calcLengths
  have hbw' : c.bw > 0 := hbw
  have hd : ¬ s.dataend ≠ 0 := by simp [i.dend]
  have hl : s.bytes.length = hdrLen c k + s.data.length := by simp [St.bytes, i.hlen, i.tail]
  simp only [hl, hd, if_false, hbw', if_true]
  have e1 : (((hdrLen c k + s.data.length : Nat) : Int) - (hdrLen c k : Int)) = ((s.data.length : Nat) : Int) := by omega
  rw [e1, nat_ediv_toNat]

/-- SFC_UPDATE_HEADER_NOW on a state between calls -/
theorem update_bytes (c : Cfg) (k : Kind) (hbw : 0 < c.bw) (s : St) (i : Inv c k s) :
    (update c k s).bytes = snapHdr c k s.data.length s.peaks ++ s.data := by
  unfold update writeHeader
  simp only [if_true, calc_snapshot c k hbw s i, St.bytes, i.tail, List.append_nil, snapHdr]

/-- `calcLengths` after the tailer: the pad byte is in the file length only -/
theorem calc_closed (c : Cfg) (k : Kind) (hbw : 0 < c.bw) (s : St) (i : Inv c k s) :
    calcLengths c k (writeTailer s) = (s.data.length / c.bw,
      ((hdrLen c k + s.data.length + padLen s.data.length : Nat) : Int), ((s.data.length : Nat) : Int)) ∧
    (writeTailer s).tail = tailBytes s.data.length ∧ (writeTailer s).data = s.data ∧ (writeTailer s).peaks = s.peaks := by
  have he := hdrLen_even c k
  have hbw' : c.bw > 0 := hbw
  have hlen : (s.hdr ++ s.data).length = hdrLen c k + s.data.length := by simp [i.hlen]
  have hl : hdrLen c k ≥ 54 := by unfold hdrLen; split <;> omega
  unfold writeTailer calcLengths padLen tailBytes
  rw [hlen]
  have hz : ((hdrLen c k + s.data.length : Nat) : Int) ≠ 0 := by omega
  by_cases hodd : s.data.length % 2 = 1
  · have h1 : ((hdrLen c k + s.data.length : Nat) : Int) % 2 = 1 := by omega
    simp only [h1, if_true, hodd, St.bytes, List.length_append, i.hlen, List.length_cons, List.length_nil, hbw']
    simp only [hz, ne_eq, not_false_eq_true, if_true]
    have e1 : (((hdrLen c k + s.data.length + (0 + 1) : Nat) : Int) - (hdrLen c k : Int) - (((hdrLen c k + s.data.length + (0 + 1) : Nat) : Int) - ((hdrLen c k + s.data.length : Nat) : Int))) = ((s.data.length : Nat) : Int) := by omega
    rw [e1, nat_ediv_toNat]
    simp
  · have h0 : s.data.length % 2 = 0 := by omega
    have h1 : ¬ ((hdrLen c k + s.data.length : Nat) : Int) % 2 = 1 := by omega
    have h01 : ¬ ((0 : Nat) = 1) := by decide
    simp only [h1, if_false, h0, h01, St.bytes, List.length_append, i.hlen, List.length_nil, Nat.add_zero, hbw', if_true]
    simp only [hz, ne_eq, not_false_eq_true, if_true]
    have e1 : (((hdrLen c k + s.data.length : Nat) : Int) - (hdrLen c k : Int) - (((hdrLen c k + s.data.length : Nat) : Int) - ((hdrLen c k + s.data.length : Nat) : Int))) = ((s.data.length : Nat) : Int) := by omega
    rw [e1, nat_ediv_toNat]
    simp

/-- `aiff_close` on a state between calls: header of the final lengths, the audio, the pad byte -/
theorem close_bytes (c : Cfg) (k : Kind) (hbw : 0 < c.bw) (s : St) (i : Inv c k s) :
    (close c k s).bytes = closedHdr c k s.data.length s.peaks ++ s.data ++ tailBytes s.data.length := by
  obtain ⟨h1, h2, h3, h4⟩ := calc_closed c k hbw s i
  unfold close writeHeader
  simp only [if_true, h1, St.bytes, h2, h3, h4, closedHdr]

/-- the old tailer: the pad byte entered datalength and the frame count -/
theorem calc_closed_old (c : Cfg) (k : Kind) (hbw : 0 < c.bw) (s : St) (i : Inv c k s) :
    calcLengths c k (writeTailerOld s) = ((s.data.length + padLen s.data.length) / c.bw,
      ((hdrLen c k + s.data.length + padLen s.data.length : Nat) : Int), ((s.data.length + padLen s.data.length : Nat) : Int)) ∧
    (writeTailerOld s).tail = tailBytes s.data.length ∧ (writeTailerOld s).data = s.data ∧ (writeTailerOld s).peaks = s.peaks := by
  have he := hdrLen_even c k
  have hbw' : c.bw > 0 := hbw
  have hlen : (s.hdr ++ s.data).length = hdrLen c k + s.data.length := by simp [i.hlen]
  unfold writeTailerOld calcLengths padLen tailBytes
  rw [hlen]
  by_cases hodd : s.data.length % 2 = 1
  · have h1 : ((hdrLen c k + s.data.length : Nat) : Int) % 2 = 1 := by omega
    simp only [h1, if_true, hodd, St.bytes, List.length_append, i.hlen, List.length_cons, List.length_nil, hbw']
    have hne : ((hdrLen c k + s.data.length : Nat) : Int) + 1 ≠ 0 := by omega
    simp only [hne, ne_eq, not_false_eq_true, if_true]
    have e1 : (((hdrLen c k + s.data.length + (0 + 1) : Nat) : Int) - (hdrLen c k : Int) - (((hdrLen c k + s.data.length + (0 + 1) : Nat) : Int) - (((hdrLen c k + s.data.length : Nat) : Int) + 1))) = ((s.data.length + 1 : Nat) : Int) := by omega
    rw [e1, nat_ediv_toNat]
    simp
  · have h0 : s.data.length % 2 = 0 := by omega
    have h1 : ¬ ((hdrLen c k + s.data.length : Nat) : Int) % 2 = 1 := by omega
    have h01 : ¬ ((0 : Nat) = 1) := by decide
    simp only [h1, if_false, h0, h01, St.bytes, List.length_append, i.hlen, List.length_nil, Nat.add_zero, hbw', if_true]
    have hl : hdrLen c k ≥ 54 := by unfold hdrLen; split <;> omega
    have hz : ((hdrLen c k + s.data.length : Nat) : Int) ≠ 0 := by omega
    simp only [hz, ne_eq, not_false_eq_true, if_true]
    have e1 : (((hdrLen c k + s.data.length : Nat) : Int) - (hdrLen c k : Int) - (((hdrLen c k + s.data.length : Nat) : Int) - ((hdrLen c k + s.data.length : Nat) : Int))) = ((s.data.length : Nat) : Int) := by omega
    rw [e1, nat_ediv_toNat]
    simp

theorem close_bytes_old (c : Cfg) (k : Kind) (hbw : 0 < c.bw) (s : St) (i : Inv c k s) :
    (closeOld c k s).bytes = closedHdrOld c k s.data.length s.peaks ++ s.data ++ tailBytes s.data.length := by
  obtain ⟨h1, h2, h3, h4⟩ := calc_closed_old c k hbw s i
  unfold closeOld writeHeader
  simp only [if_true, h1, St.bytes, h2, h3, h4, closedHdrOld]

/-- `parse` of any header the writer can emit followed by a body the SSND size field describes -/
theorem parse_hdrRaw (c : Cfg) (k : Kind) (hwf : c.wf) (hk : kindOf c = some k) (fr : Nat) (fl : Int)
    (peaks : Option (List Peak)) (hpk : peaks.isSome = c.isFloat) (body tl : List Byte) (htl : tl.length ≤ 8)
    (hB : body.length + 8 < 2 ^ 32) :
    parse (hdrRaw c k fr fl (body.length : Int) peaks ++ (body ++ tl)) =
      .ok { ch := c.ch, fmt := c.fmtWord, sr := (ten2int (int2ten c.sr)).toNat, frames := body.length / c.bw } := by
  obtain ⟨fA, fC, _, _, _⟩ := cfg_facts c k hwf.1 hk
  have hb : ((bytewidthOf c.codec : Int) * 8) = ((bytewidthOf c.codec * 8 : Nat) : Int) := by omega
  cases haifc : k.aifc
  · obtain ⟨_, hnf⟩ := fA haifc
    rw [hnf] at hpk
    cases peaks with
    | some ps => simp at hpk
    | none =>
      have := parse_image_aiff c k hwf hk haifc (if fr > 0xFFFFFFFF then 0xFFFFFFFF else (fr : Int)) (fl - 8) body tl htl hB
      unfold hdrRaw
      simp only [haifc, Bool.false_eq_true, if_false, List.append_assoc, List.nil_append, List.append_nil, hb]
      exact this
  · cases peaks with
    | none =>
      have := parse_image_aifc c k hwf hk haifc (if fr > 0xFFFFFFFF then 0xFFFFFFFF else (fr : Int)) (fl - 8) body tl htl hB
      unfold hdrRaw
      simp only [haifc, if_true, List.append_assoc, List.nil_append, List.append_nil, List.cons_append, hb] at this ⊢
      exact this
    | some ps =>
      have hsz : (8 + 8 * (c.ch : Int)) = ((8 + 8 * c.ch : Nat) : Int) := by omega
      have hq := flatMap_len8 (fun k => f32beWrite (ps.getD k {}).v32 ++ be32 (ps.getD k {}).pos) (by intro k; simp [f32beWrite_length, be32_length]) c.ch
      have := parse_image_peak c k hwf hk haifc (if fr > 0xFFFFFFFF then 0xFFFFFFFF else (fr : Int)) (fl - 8)
        (be32 1 ++ (be32 1000000000 ++ ((List.range c.ch).flatMap fun k => f32beWrite (ps.getD k {}).v32 ++ be32 (ps.getD k {}).pos))) body tl
        (by simp only [List.length_append, be32_length, hq]; omega) htl hB
      unfold hdrRaw peakChunk
      simp only [haifc, if_true, List.append_assoc, List.nil_append, List.append_nil, List.cons_append, hb, hsz] at this ⊢
      exact this


theorem hdrRaw_head (c : Cfg) (k : Kind) (fr : Nat) (fl dl : Int) (peaks : Option (List Peak)) :
    ∃ rest, hdrRaw c k fr fl dl peaks = mk4 "FORM" ++ (be32 (fl - 8) ++ rest) := by
  unfold hdrRaw
  simp only [List.append_assoc]
  exact ⟨_, rfl⟩

theorem hdrRaw_split (c : Cfg) (k : Kind) (fr : Nat) (fl dl : Int) (peaks : Option (List Peak)) :
    ∃ pre, hdrRaw c k fr fl dl peaks = pre ++ (mk4 "SSND" ++ (be32 (dl + 8) ++ (be32 0 ++ be32 0))) := by
  unfold hdrRaw
  refine ⟨mk4 "FORM" ++ be32 (fl - 8) ++
    (if k.aifc then mk4 "AIFC" ++ mk4 "FVER" ++ be32 4 ++ be32 0xA2805140 else mk4 "AIFF") ++
    mk4 "COMM" ++ be32 (if k.aifc then 24 else 18) ++ be16 c.ch ++
      be32 (if fr > 0xFFFFFFFF then 0xFFFFFFFF else fr) ++ be16 (bytewidthOf c.codec * 8) ++ int2ten c.sr ++
    (if k.aifc then k.enc ++ [0, 0] else []) ++
    (match peaks with | some ps => peakChunk c.ch ps | none => []), ?_⟩
  simp only [List.append_assoc]
  rfl

end Sf.Aiff
