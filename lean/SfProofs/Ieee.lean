/-
  SfProofs.Ieee — helper lemmas for SfProps/C20Ieee.lean: byte strings of a pattern, the fields the C routines
  extract from them, and the link between the IEEE 754 §3.4 spec layer and `Sf.Float.Fmt.toDy`.
-/
import SfModel.Ieee
import SfProofs.FloatRound
import SfProofs.Bytes
namespace Sf.Ieee
open Sf Sf.Float

theorem f32_std : f32.Std := Or.inl rfl
theorem f64_std : f64.Std := Or.inr rfl

/-! ### byte strings -/

theorem bytesLE_f32 (b : Nat) :
    Spec.bytesLE f32 b = [b % 256, b / 256 % 256, b / 65536 % 256, b / 16777216 % 256] := by
  have : f32.width / 8 = 4 := by decide
  simp only [Spec.bytesLE, this, leBytes, Nat.div_div_eq_div_mul]

theorem bytesBE_f32 (b : Nat) :
    Spec.bytesBE f32 b = [b / 16777216 % 256, b / 65536 % 256, b / 256 % 256, b % 256] := by
  have : f32.width / 8 = 4 := by decide
  simp only [Spec.bytesBE, beBytes, this, leBytes, Nat.div_div_eq_div_mul]
  rfl

theorem bytesLE_f64 (b : Nat) :
    Spec.bytesLE f64 b = [b % 256, b / 256 % 256, b / 65536 % 256, b / 16777216 % 256, b / 4294967296 % 256,
      b / 1099511627776 % 256, b / 281474976710656 % 256, b / 72057594037927936 % 256] := by
  have : f64.width / 8 = 8 := by decide
  simp only [Spec.bytesLE, this, leBytes, Nat.div_div_eq_div_mul]

theorem bytesBE_f64 (b : Nat) :
    Spec.bytesBE f64 b = [b / 72057594037927936 % 256, b / 281474976710656 % 256, b / 1099511627776 % 256,
      b / 4294967296 % 256, b / 16777216 % 256, b / 65536 % 256, b / 256 % 256, b % 256] := by
  have : f64.width / 8 = 8 := by decide
  simp only [Spec.bytesBE, beBytes, this, leBytes, Nat.div_div_eq_div_mul]
  rfl

end Sf.Ieee

namespace Sf.Ieee
open Sf Sf.Float

/-! ### the fields of a pattern in arithmetic form -/

theorem f32_fields (b : Nat) : f32.expo b = b / 8388608 % 256 ∧ f32.frac b = b % 8388608 ∧
    f32.sign b = decide (b / 2147483648 % 2 = 1) := by
  refine ⟨by simp [Fmt.expo, f32], by simp [Fmt.frac, f32], ?_⟩
  simp only [Fmt.sign, f32]
  norm_num

theorem f64_fields (b : Nat) : f64.expo b = b / 4503599627370496 % 2048 ∧ f64.frac b = b % 4503599627370496 ∧
    f64.sign b = decide (b / 9223372036854775808 % 2 = 1) := by
  refine ⟨by simp [Fmt.expo, f64], by simp [Fmt.frac, f64], ?_⟩
  simp only [Fmt.sign, f64]
  norm_num

/-- rounding a value that already has the shape of a normal number: significand 2^mbits + fr at the quantum of
    exponent field `ex` is packed unchanged, or overflows to ±Inf when `ex` reaches the all-ones field -/
theorem ofDy_normalised (f : Fmt) (s : Bool) (ex fr : Nat) (hex : 1 ≤ ex) (hfr : fr < 2 ^ f.mbits) :
    f.ofDy ⟨s, 2 ^ f.mbits + fr, (ex : Int) - 1 + f.qmin⟩ =
      if ex ≥ f.emax then f.sgnBit s + f.emax * 2 ^ f.mbits else f.sgnBit s + ex * 2 ^ f.mbits + fr := by
  have hp := two_pow_pos' f.mbits
  have e2 : 2 ^ (f.mbits + 1) = 2 * 2 ^ f.mbits := by rw [Nat.pow_succ]; omega
  rw [ofDy_eq]
  have hm0 : 2 ^ f.mbits + fr ≠ 0 := by omega
  simp only [hm0, if_false]
  have hL : bitLen (2 ^ f.mbits + fr) = f.mbits + 1 := bitLen_unique _ _ (by simp) (by omega) (by omega)
  have hq : f.quantum ⟨s, 2 ^ f.mbits + fr, (ex : ℤ) - 1 + f.qmin⟩ = (ex : ℤ) - 1 + f.qmin := by
    unfold Fmt.quantum; simp only; rw [hL]; push_cast; omega
  rw [hq, Int.sub_self, rneScale_zero_exp]
  unfold Fmt.enc Fmt.pack
  have n1 : ¬ (2 ^ f.mbits + fr ≥ 2 ^ (f.mbits + 1)) := by omega
  have n2 : ¬ (2 ^ f.mbits + fr < 2 ^ f.mbits) := by omega
  simp only [n1, n2, if_false]
  by_cases h : ex ≥ f.emax
  · have : ((ex : ℤ) - 1 + f.qmin - f.qmin + 1 ≥ f.emax) := by omega
    simp only [this, h, if_true]
  · have : ¬ ((ex : ℤ) - 1 + f.qmin - f.qmin + 1 ≥ f.emax) := by omega
    simp only [this, h, if_false]
    have : ((ex : ℤ) - 1 + f.qmin - f.qmin + 1).toNat = ex := by omega
    rw [this]; omega

/-! ### readers -/

/-- what `f32ReadCore` computes from the four bytes of `b`, for every pattern -/
theorem f32ReadCore_bytes (b : Nat) (hb : b < 2 ^ 32) :
    f32ReadCore (b / 16777216 % 256) (b / 65536 % 256) (b / 256 % 256) (b % 256) =
      if f32.expo b = 0 ∧ f32.frac b = 0 then 0
      else f32.ofDy ⟨f32.sign b, 2 ^ 23 + f32.frac b, (if f32.expo b ≠ 0 then (f32.expo b : Int) - 127 else 0) - 23⟩ := by
  obtain ⟨h1, h2, h3⟩ := f32_fields b
  have hE : (b / 16777216 % 256 % 128) * 2 + b / 65536 % 256 / 128 % 2 = b / 8388608 % 256 := by omega
  have hM : (b / 65536 % 256 % 128) * 65536 + (b / 256 % 256 % 256) * 256 + b % 256 % 256 = b % 8388608 := by omega
  have hS : b / 16777216 % 256 / 128 % 2 = b / 2147483648 % 2 := by omega
  unfold f32ReadCore
  simp only [hE, hM, hS, h1, h2, h3]
  split
  · rfl
  · congr 1
    congr 1
    · omega
    · split <;> omega

/-- what `f64ReadCore` computes from the eight bytes of `b`, for every pattern -/
theorem f64ReadCore_bytes (b : Nat) (hb : b < 2 ^ 64) :
    f64ReadCore (b / 72057594037927936 % 256) (b / 281474976710656 % 256) (b / 1099511627776 % 256)
        (b / 4294967296 % 256) (b / 16777216 % 256) (b / 65536 % 256) (b / 256 % 256) (b % 256) =
      if f64.expo b = 0 ∧ f64.frac b = 0 then 0
      else f64.ofDy ⟨f64.sign b, 2 ^ 52 + f64.frac b, (f64.expo b : Int) - 1023 - 52⟩ := by
  obtain ⟨h1, h2, h3⟩ := f64_fields b
  have hE : (b / 72057594037927936 % 256 % 128) * 16 + b / 281474976710656 % 256 / 16 % 16 = b / 4503599627370496 % 2048 := by omega
  have hS : b / 72057594037927936 % 256 / 128 % 2 = b / 9223372036854775808 % 2 := by omega
  have hU : (b / 281474976710656 % 256 % 16) * 16777216 + (b / 1099511627776 % 256 % 256) * 65536
        + (b / 4294967296 % 256 % 256) * 256 + b / 16777216 % 256 % 256 = b / 16777216 % 268435456 := by
    have d4 : b / 4294967296 = b / 16777216 / 256 := by rw [Nat.div_div_eq_div_mul]
    have d5 : b / 1099511627776 = b / 16777216 / 256 / 256 := by rw [Nat.div_div_eq_div_mul, Nat.div_div_eq_div_mul]
    have d6 : b / 281474976710656 = b / 16777216 / 256 / 256 / 256 := by
      rw [Nat.div_div_eq_div_mul, Nat.div_div_eq_div_mul, Nat.div_div_eq_div_mul]
    rw [d4, d5, d6]
    generalize b / 16777216 = x
    omega
  have hW : (b / 65536 % 256 % 256) * 65536 + (b / 256 % 256 % 256) * 256 + b % 256 % 256 = b % 16777216 := by
    clear hE hS hU h1 h2 h3 hb; omega
  have hF : (b / 16777216 % 268435456) * 16777216 + b % 16777216 = b % 4503599627370496 := by
    have := Nat.mod_mul_right_div_self b 16777216 268435456
    have e : (16777216 * 268435456 : Nat) = 4503599627370496 := by norm_num
    rw [e] at this
    have k2 := Nat.div_add_mod (b % 4503599627370496) 16777216
    have k3 : b % 4503599627370496 % 16777216 = b % 16777216 :=
      Nat.mod_mod_of_dvd b (by norm_num : (16777216 : Nat) ∣ 4503599627370496)
    rw [this, k3] at k2
    clear hE hS hU hW h1 h2 h3 hb this e k3
    omega
  unfold f64ReadCore
  simp only [hE, hS, hU, hW]
  unfold f64ReadValue
  simp only [h1, h2, h3]
  split
  · rename_i hc
    have : b / 4503599627370496 % 2048 = 0 ∧ b % 4503599627370496 = 0 := by omega
    simp only [this, and_self, if_true]
  · rename_i hc
    have : ¬ (b / 4503599627370496 % 2048 = 0 ∧ b % 4503599627370496 = 0) := by omega
    simp only [this, if_false]
    congr 1
    congr 1
    · omega
    · omega

/-! ### writers -/

/-- the fields `float32_*_write` computes for a normal value that is not flushed: the IEEE fields -/
theorem f32WriteFields_normal (b : Nat) (hn : f32.isNormal b = true) (hfl : flushes f32 b = false) :
    f32WriteFields b = some ((if f32.sign b then 1 else 0), f32.expo b, f32.frac b) := by
  have hne : f32.expo b ≠ f32.emax ∧ f32.expo b ≠ 0 := by simpa [Fmt.isNormal] using hn
  have hfin : f32.isFinite b = true := by simp [Fmt.isFinite, hne.1]
  have hfr : f32.frac b < 2 ^ 23 := by simp [Fmt.frac, f32]; omega
  have hL : bitLen (2 ^ 23 + f32.frac b) = 24 := bitLen_unique _ _ (by simp) (by omega) (by omega)
  unfold f32WriteFields
  simp only [hfin, hfl, Bool.not_true, Bool.false_eq_true, if_false]
  have hd : f32.toDy b = ⟨f32.sign b, 2 ^ 23 + f32.frac b, (f32.expo b : Int) - 1 + f32.qmin⟩ := by
    unfold Fmt.toDy; simp only [hne.2, if_false]; rfl
  rw [hd]
  simp only [frexpOf, hL]
  have hq : f32.qmin = -149 := by decide
  congr 2
  rw [Prod.mk.injEq]
  constructor
  · rw [hq]; push_cast; omega
  · omega

theorem f64WriteFields_normal (b : Nat) (hn : f64.isNormal b = true) (hfl : flushes f64 b = false) :
    f64WriteFields b = some ((if f64.sign b then 1 else 0), f64.expo b, 2 ^ 28 + f64.frac b / 2 ^ 24, f64.frac b % 2 ^ 24) := by
  have hne : f64.expo b ≠ f64.emax ∧ f64.expo b ≠ 0 := by simpa [Fmt.isNormal] using hn
  have hfin : f64.isFinite b = true := by simp [Fmt.isFinite, hne.1]
  have hfr : f64.frac b < 2 ^ 52 := by simp [Fmt.frac, f64]; omega
  have hL : bitLen (2 ^ 52 + f64.frac b) = 53 := bitLen_unique _ _ (by simp) (by omega) (by omega)
  unfold f64WriteFields
  simp only [hfin, hfl, Bool.not_true, Bool.false_eq_true, if_false]
  have hd : f64.toDy b = ⟨f64.sign b, 2 ^ 52 + f64.frac b, (f64.expo b : Int) - 1 + f64.qmin⟩ := by
    unfold Fmt.toDy; simp only [hne.2, if_false]; rfl
  rw [hd]
  simp only [frexpOf, hL]
  have hq : f64.qmin = -1074 := by decide
  congr 2
  rw [Prod.mk.injEq]
  constructor
  · rw [hq]; push_cast; omega
  · rw [Prod.mk.injEq]
    constructor <;> omega

end Sf.Ieee
