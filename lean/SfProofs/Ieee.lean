/-
  SfProofs.Ieee — helper lemmas for SfProps/C20Ieee.lean: byte strings of a pattern, the fields the C routines
  extract from them, and the link between the IEEE 754 §3.4 spec layer and `Sf.Float.Fmt.toDy`.
-/
import SfModel.Ieee
import SfProofs.FloatRound
import SfProofs.FloatExact
import SfProofs.Bytes
namespace Sf.Ieee
open Sf Sf.Float

theorem f32_std : f32.Std := Or.inl rfl
theorem f64_std : f64.Std := Or.inr rfl

/-! ### byte strings -/

theorem bytesLE_f32 (b : Nat) :
    Spec.bytesLE f32 b = [b % 256, b / 256 % 256, b / 65536 % 256, b / 16777216 % 256] := by
  have : f32.width / 8 = 4 := by decide
  simp only [Spec.bytesLE, this, leBytes, Nat.div_div_eq_div_mul]

theorem bytesBE_f32 (b : Nat) :
    Spec.bytesBE f32 b = [b / 16777216 % 256, b / 65536 % 256, b / 256 % 256, b % 256] := by
  have : f32.width / 8 = 4 := by decide
  simp only [Spec.bytesBE, beBytes, this, leBytes, Nat.div_div_eq_div_mul]
  rfl

theorem bytesLE_f64 (b : Nat) :
    Spec.bytesLE f64 b = [b % 256, b / 256 % 256, b / 65536 % 256, b / 16777216 % 256, b / 4294967296 % 256,
      b / 1099511627776 % 256, b / 281474976710656 % 256, b / 72057594037927936 % 256] := by
  have : f64.width / 8 = 8 := by decide
  simp only [Spec.bytesLE, this, leBytes, Nat.div_div_eq_div_mul]

theorem bytesBE_f64 (b : Nat) :
    Spec.bytesBE f64 b = [b / 72057594037927936 % 256, b / 281474976710656 % 256, b / 1099511627776 % 256,
      b / 4294967296 % 256, b / 16777216 % 256, b / 65536 % 256, b / 256 % 256, b % 256] := by
  have : f64.width / 8 = 8 := by decide
  simp only [Spec.bytesBE, beBytes, this, leBytes, Nat.div_div_eq_div_mul]
  rfl

end Sf.Ieee

namespace Sf.Ieee
open Sf Sf.Float

/-! ### the fields of a pattern in arithmetic form -/

theorem f32_fields (b : Nat) : f32.expo b = b / 8388608 % 256 ∧ f32.frac b = b % 8388608 ∧
    f32.sign b = decide (b / 2147483648 % 2 = 1) := by
  refine ⟨by simp [Fmt.expo, f32], by simp [Fmt.frac, f32], ?_⟩
  simp only [Fmt.sign, f32]
  norm_num

theorem f64_fields (b : Nat) : f64.expo b = b / 4503599627370496 % 2048 ∧ f64.frac b = b % 4503599627370496 ∧
    f64.sign b = decide (b / 9223372036854775808 % 2 = 1) := by
  refine ⟨by simp [Fmt.expo, f64], by simp [Fmt.frac, f64], ?_⟩
  simp only [Fmt.sign, f64]
  norm_num

/-- rounding a value that already has the shape of a normal number: significand 2^mbits + fr at the quantum of
    exponent field `ex` is packed unchanged, or overflows to ±Inf when `ex` reaches the all-ones field -/
theorem ofDy_normalised (f : Fmt) (s : Bool) (ex fr : Nat) (hex : 1 ≤ ex) (hfr : fr < 2 ^ f.mbits) :
    f.ofDy ⟨s, 2 ^ f.mbits + fr, (ex : Int) - 1 + f.qmin⟩ =
      if ex ≥ f.emax then f.sgnBit s + f.emax * 2 ^ f.mbits else f.sgnBit s + ex * 2 ^ f.mbits + fr := by
  have hp := two_pow_pos' f.mbits
  have e2 : 2 ^ (f.mbits + 1) = 2 * 2 ^ f.mbits := by rw [Nat.pow_succ]; omega
  rw [ofDy_eq]
  have hm0 : 2 ^ f.mbits + fr ≠ 0 := by omega
  simp only [hm0, if_false]
  have hL : bitLen (2 ^ f.mbits + fr) = f.mbits + 1 := bitLen_unique _ _ (by simp) (by omega) (by omega)
  have hq : f.quantum ⟨s, 2 ^ f.mbits + fr, (ex : ℤ) - 1 + f.qmin⟩ = (ex : ℤ) - 1 + f.qmin := by
    unfold Fmt.quantum; simp only; rw [hL]; push_cast; omega
  rw [hq, Int.sub_self, rneScale_zero_exp]
  unfold Fmt.enc Fmt.pack
  have n1 : ¬ (2 ^ f.mbits + fr ≥ 2 ^ (f.mbits + 1)) := by omega
  have n2 : ¬ (2 ^ f.mbits + fr < 2 ^ f.mbits) := by omega
  simp only [n1, n2, if_false]
  by_cases h : ex ≥ f.emax
  · have : ((ex : ℤ) - 1 + f.qmin - f.qmin + 1 ≥ f.emax) := by omega
    simp only [this, h, if_true]
  · have : ¬ ((ex : ℤ) - 1 + f.qmin - f.qmin + 1 ≥ f.emax) := by omega
    simp only [this, h, if_false]
    have : ((ex : ℤ) - 1 + f.qmin - f.qmin + 1).toNat = ex := by omega
    rw [this]; omega

/-! ### readers -/

/-- what `f32ReadCoreWith` computes from the four bytes of `b`, for every pattern, under both rules -/
theorem f32ReadCoreWith_bytes (old : Bool) (b : Nat) (hb : b < 2 ^ 32) :
    f32ReadCoreWith old (b / 16777216 % 256) (b / 65536 % 256) (b / 256 % 256) (b % 256) =
      if f32.expo b = 0 ∧ f32.frac b = 0 then (if old then 0 else f32.sgnBit (f32.sign b))
      else if old then
        f32.ofDy ⟨f32.sign b, 2 ^ 23 + f32.frac b, (if f32.expo b ≠ 0 then (f32.expo b : Int) - 127 else 0) - 23⟩
      else if f32.expo b ≠ 0 then f32.ofDy ⟨f32.sign b, 2 ^ 23 + f32.frac b, (f32.expo b : Int) - 127 - 23⟩
      else f32.ofDy ⟨f32.sign b, f32.frac b, -149⟩ := by
  obtain ⟨h1, h2, h3⟩ := f32_fields b
  have hE : (b / 16777216 % 256 % 128) * 2 + b / 65536 % 256 / 128 % 2 = b / 8388608 % 256 := by omega
  have hM : (b / 65536 % 256 % 128) * 65536 + (b / 256 % 256 % 256) * 256 + b % 256 % 256 = b % 8388608 := by omega
  have hS : b / 16777216 % 256 / 128 % 2 = b / 2147483648 % 2 := by omega
  unfold f32ReadCoreWith
  simp only [hE, hM, hS, h1, h2, h3]
  by_cases hz : b / 8388608 % 256 = 0 ∧ b % 8388608 = 0
  · simp only [hz, and_self, if_true]
    cases old
    · simp only [Bool.false_eq_true, if_false, Fmt.sgnBit, f32]
      by_cases hs : b / 2147483648 % 2 = 1 <;> simp [hs]
    · simp only [if_true]
  · simp only [hz, if_false]
    cases old
    · simp only [Bool.false_eq_true, if_false]
      by_cases he : b / 8388608 % 256 = 0
      · simp only [he, ne_eq, not_true_eq_false, if_false]
        congr 1
      · simp only [he, ne_eq, not_false_eq_true, if_true]
        congr 1
        congr 1
        · omega
        · omega
    · simp only [if_true]
      congr 1
      congr 1
      · omega
      · split <;> omega

theorem f32ReadCore_bytes (b : Nat) (hb : b < 2 ^ 32) :
    f32ReadCore (b / 16777216 % 256) (b / 65536 % 256) (b / 256 % 256) (b % 256) =
      if f32.expo b = 0 ∧ f32.frac b = 0 then f32.sgnBit (f32.sign b)
      else if f32.expo b ≠ 0 then f32.ofDy ⟨f32.sign b, 2 ^ 23 + f32.frac b, (f32.expo b : Int) - 127 - 23⟩
      else f32.ofDy ⟨f32.sign b, f32.frac b, -149⟩ := by
  have := f32ReadCoreWith_bytes false b hb
  simpa [f32ReadCore] using this

theorem f32ReadCoreOld_bytes (b : Nat) (hb : b < 2 ^ 32) :
    f32ReadCoreOld (b / 16777216 % 256) (b / 65536 % 256) (b / 256 % 256) (b % 256) =
      if f32.expo b = 0 ∧ f32.frac b = 0 then 0
      else f32.ofDy ⟨f32.sign b, 2 ^ 23 + f32.frac b, (if f32.expo b ≠ 0 then (f32.expo b : Int) - 127 else 0) - 23⟩ := by
  have := f32ReadCoreWith_bytes true b hb
  simpa [f32ReadCoreOld] using this

/-- what `f64ReadCoreWith` computes from the eight bytes of `b`, for every pattern, under both rules -/
theorem f64ReadCoreWith_bytes (old : Bool) (b : Nat) (hb : b < 2 ^ 64) :
    f64ReadCoreWith old (b / 72057594037927936 % 256) (b / 281474976710656 % 256) (b / 1099511627776 % 256)
        (b / 4294967296 % 256) (b / 16777216 % 256) (b / 65536 % 256) (b / 256 % 256) (b % 256) =
      if f64.expo b = 0 ∧ f64.frac b = 0 then (if old then 0 else f64.sgnBit (f64.sign b))
      else if old = true ∨ f64.expo b ≠ 0 then f64.ofDy ⟨f64.sign b, 2 ^ 52 + f64.frac b, (f64.expo b : Int) - 1023 - 52⟩
      else f64.ofDy ⟨f64.sign b, f64.frac b, -1074⟩ := by
  obtain ⟨h1, h2, h3⟩ := f64_fields b
  have hE : (b / 72057594037927936 % 256 % 128) * 16 + b / 281474976710656 % 256 / 16 % 16 = b / 4503599627370496 % 2048 := by omega
  have hS : b / 72057594037927936 % 256 / 128 % 2 = b / 9223372036854775808 % 2 := by omega
  have hU : (b / 281474976710656 % 256 % 16) * 16777216 + (b / 1099511627776 % 256 % 256) * 65536
        + (b / 4294967296 % 256 % 256) * 256 + b / 16777216 % 256 % 256 = b / 16777216 % 268435456 := by
    have d4 : b / 4294967296 = b / 16777216 / 256 := by rw [Nat.div_div_eq_div_mul]
    have d5 : b / 1099511627776 = b / 16777216 / 256 / 256 := by rw [Nat.div_div_eq_div_mul, Nat.div_div_eq_div_mul]
    have d6 : b / 281474976710656 = b / 16777216 / 256 / 256 / 256 := by
      rw [Nat.div_div_eq_div_mul, Nat.div_div_eq_div_mul, Nat.div_div_eq_div_mul]
    rw [d4, d5, d6]
    generalize b / 16777216 = x
    omega
  have hW : (b / 65536 % 256 % 256) * 65536 + (b / 256 % 256 % 256) * 256 + b % 256 % 256 = b % 16777216 := by
    clear hE hS hU h1 h2 h3 hb; omega
  have hF : (b / 16777216 % 268435456) * 16777216 + b % 16777216 = b % 4503599627370496 := by
    have := Nat.mod_mul_right_div_self b 16777216 268435456
    have e : (16777216 * 268435456 : Nat) = 4503599627370496 := by norm_num
    rw [e] at this
    have k2 := Nat.div_add_mod (b % 4503599627370496) 16777216
    have k3 : b % 4503599627370496 % 16777216 = b % 16777216 :=
      Nat.mod_mod_of_dvd b (by norm_num : (16777216 : Nat) ∣ 4503599627370496)
    rw [this, k3] at k2
    clear hE hS hU hW h1 h2 h3 hb this e k3
    omega
  unfold f64ReadCoreWith
  simp only [hE, hS, hU, hW]
  unfold f64ReadValueWith
  simp only [h1, h2, h3]
  by_cases hz : b / 4503599627370496 % 2048 = 0 ∧ b % 4503599627370496 = 0
  · have hz2 : b / 4503599627370496 % 2048 = 0 ∧ b / 16777216 % 268435456 = 0 ∧ b % 16777216 = 0 := by omega
    simp only [hz, hz2, and_self, if_true]
    cases old
    · simp only [Bool.false_eq_true, if_false, Fmt.sgnBit, f64]
      by_cases hs : b / 9223372036854775808 % 2 = 1 <;> simp [hs]
    · simp only [if_true]
  · have hz2 : ¬ (b / 4503599627370496 % 2048 = 0 ∧ b / 16777216 % 268435456 = 0 ∧ b % 16777216 = 0) := by omega
    simp only [hz, hz2, if_false]
    by_cases hc : old = true ∨ b / 4503599627370496 % 2048 ≠ 0
    · simp only [hc, if_true]
      congr 1
      congr 1
      · omega
      · omega
    · simp only [hc, if_false]
      congr 1
      congr 1
      all_goals omega

theorem f64ReadCore_bytes (b : Nat) (hb : b < 2 ^ 64) :
    f64ReadCore (b / 72057594037927936 % 256) (b / 281474976710656 % 256) (b / 1099511627776 % 256)
        (b / 4294967296 % 256) (b / 16777216 % 256) (b / 65536 % 256) (b / 256 % 256) (b % 256) =
      if f64.expo b = 0 ∧ f64.frac b = 0 then f64.sgnBit (f64.sign b)
      else if f64.expo b ≠ 0 then f64.ofDy ⟨f64.sign b, 2 ^ 52 + f64.frac b, (f64.expo b : Int) - 1023 - 52⟩
      else f64.ofDy ⟨f64.sign b, f64.frac b, -1074⟩ := by
  have := f64ReadCoreWith_bytes false b hb
  simpa [f64ReadCore] using this

theorem f64ReadCoreOld_bytes (b : Nat) (hb : b < 2 ^ 64) :
    f64ReadCoreOld (b / 72057594037927936 % 256) (b / 281474976710656 % 256) (b / 1099511627776 % 256)
        (b / 4294967296 % 256) (b / 16777216 % 256) (b / 65536 % 256) (b / 256 % 256) (b % 256) =
      if f64.expo b = 0 ∧ f64.frac b = 0 then 0
      else f64.ofDy ⟨f64.sign b, 2 ^ 52 + f64.frac b, (f64.expo b : Int) - 1023 - 52⟩ := by
  have := f64ReadCoreWith_bytes true b hb
  simpa [f64ReadCoreOld] using this

/-! ### writers -/

/-- the fields `float32_*_write` computes for a normal value that is not flushed: the IEEE fields -/
theorem f32WriteFieldsWith_normal (fl : Nat → Bool) (b : Nat) (hn : f32.isNormal b = true) (hfl : fl b = false) :
    f32WriteFieldsWith fl b = some ((if f32.sign b then 1 else 0), f32.expo b, f32.frac b) := by
  have hne : f32.expo b ≠ f32.emax ∧ f32.expo b ≠ 0 := by simpa [Fmt.isNormal] using hn
  have hfin : f32.isFinite b = true := by simp [Fmt.isFinite, hne.1]
  have hfr : f32.frac b < 2 ^ 23 := by simp [Fmt.frac, f32]; omega
  have hL : bitLen (2 ^ 23 + f32.frac b) = 24 := bitLen_unique _ _ (by simp) (by omega) (by omega)
  unfold f32WriteFieldsWith
  simp only [hfin, hfl, Bool.not_true, Bool.false_eq_true, if_false]
  have hd : f32.toDy b = ⟨f32.sign b, 2 ^ 23 + f32.frac b, (f32.expo b : Int) - 1 + f32.qmin⟩ := by
    unfold Fmt.toDy; simp only [hne.2, if_false]; rfl
  rw [hd]
  simp only [frexpOf, hL]
  have hq : f32.qmin = -149 := by decide
  congr 2
  rw [Prod.mk.injEq]
  constructor
  · rw [hq]; push_cast; omega
  · omega

theorem f64WriteFieldsWith_normal (fl : Nat → Bool) (b : Nat) (hn : f64.isNormal b = true) (hfl : fl b = false) :
    f64WriteFieldsWith fl b = some ((if f64.sign b then 1 else 0), f64.expo b, 2 ^ 28 + f64.frac b / 2 ^ 24, f64.frac b % 2 ^ 24) := by
  have hne : f64.expo b ≠ f64.emax ∧ f64.expo b ≠ 0 := by simpa [Fmt.isNormal] using hn
  have hfin : f64.isFinite b = true := by simp [Fmt.isFinite, hne.1]
  have hfr : f64.frac b < 2 ^ 52 := by simp [Fmt.frac, f64]; omega
  have hL : bitLen (2 ^ 52 + f64.frac b) = 53 := bitLen_unique _ _ (by simp) (by omega) (by omega)
  unfold f64WriteFieldsWith
  simp only [hfin, hfl, Bool.not_true, Bool.false_eq_true, if_false]
  have hd : f64.toDy b = ⟨f64.sign b, 2 ^ 52 + f64.frac b, (f64.expo b : Int) - 1 + f64.qmin⟩ := by
    unfold Fmt.toDy; simp only [hne.2, if_false]; rfl
  rw [hd]
  simp only [frexpOf, hL]
  have hq : f64.qmin = -1074 := by decide
  congr 2
  rw [Prod.mk.injEq]
  constructor
  · rw [hq]; push_cast; omega
  · rw [Prod.mk.injEq]
    constructor <;> omega

/-! ### the flush rules as statements about fields and patterns -/

theorem abs_val (a : Dy) : a.abs.val = a.mag := by simp [Dy.abs, Dy.val, Dy.mag]

theorem toDy_normal (f : Fmt) (b : Nat) (h : f.expo b ≠ 0) :
    f.toDy b = ⟨f.sign b, 2 ^ f.mbits + f.frac b, (f.expo b : Int) - 1 + f.qmin⟩ := by
  unfold Fmt.toDy; simp only [h, if_false]
theorem toDy_subnormal (f : Fmt) (b : Nat) (h : f.expo b = 0) : f.toDy b = ⟨f.sign b, f.frac b, f.qmin⟩ := by
  unfold Fmt.toDy; simp only [h, if_true]

theorem frac_lt (f : Fmt) (b : Nat) : f.frac b < 2 ^ f.mbits := Nat.mod_lt _ (two_pow_pos' _)

/-- lower and upper bounds of the magnitude from the fields -/
theorem mag_ge_of_normal (f : Fmt) (b : Nat) (h : f.expo b ≠ 0) :
    (2 : ℚ) ^ ((f.mbits : ℤ) + ((f.expo b : ℤ) - 1 + f.qmin)) ≤ (f.toDy b).mag := by
  rw [toDy_normal f b h]
  simp only [Dy.mag]
  exact le_mul_zpow (2 ^ f.mbits + f.frac b) f.mbits _ (by omega)
theorem mag_lt_of_normal (f : Fmt) (b : Nat) (h : f.expo b ≠ 0) :
    (f.toDy b).mag < (2 : ℚ) ^ (((f.mbits + 1 : Nat) : ℤ) + ((f.expo b : ℤ) - 1 + f.qmin)) := by
  rw [toDy_normal f b h]
  have := frac_lt f b
  simp only [Dy.mag]
  exact mul_zpow_lt (2 ^ f.mbits + f.frac b) (f.mbits + 1) _ (by rw [Nat.pow_succ]; omega)
theorem mag_lt_of_subnormal (f : Fmt) (b : Nat) (h : f.expo b = 0) :
    (f.toDy b).mag < (2 : ℚ) ^ ((f.mbits : ℤ) + f.qmin) := by
  rw [toDy_subnormal f b h]
  simp only [Dy.mag]
  exact mul_zpow_lt (f.frac b) f.mbits _ (frac_lt f b)

/-- the repaired rule: a normal value is never flushed -/
theorem flushes_normal (f : Fmt) (b : Nat) (hn : f.isNormal b = true) : flushes f b = false := by
  have hne : f.expo b ≠ f.emax ∧ f.expo b ≠ 0 := by simpa [Fmt.isNormal] using hn
  have hfin : f.isFinite b = true := by simp [Fmt.isFinite, hne.1]
  unfold flushes
  rw [hfin, Bool.true_and, Bool.eq_false_iff]
  intro h
  rw [Dy.lt_iff, abs_val] at h
  have h1 := mag_ge_of_normal f b hne.2
  have h2 : (flushBound f).val = (2 : ℚ) ^ (1 - (f.bias : ℤ)) := by simp [flushBound, Dy.val]
  have h3 : (2 : ℚ) ^ (1 - (f.bias : ℤ)) ≤ 2 ^ ((f.mbits : ℤ) + ((f.expo b : ℤ) - 1 + f.qmin)) :=
    zpow2_le (by unfold Fmt.qmin; omega)
  rw [h2] at h
  linarith

/-- … and every zero or subnormal is -/
theorem flushes_expo_zero (f : Fmt) (b : Nat) (hfin : f.isFinite b = true) (h0 : f.expo b = 0) : flushes f b = true := by
  unfold flushes
  rw [hfin, Bool.true_and, Dy.lt_iff, abs_val]
  have h1 := mag_lt_of_subnormal f b h0
  have h2 : (flushBound f).val = (2 : ℚ) ^ (1 - (f.bias : ℤ)) := by simp [flushBound, Dy.val]
  have h3 : ((f.mbits : ℤ) + f.qmin) = 1 - (f.bias : ℤ) := by unfold Fmt.qmin; omega
  rw [h2, ← h3]; exact h1

/-- the magnitude is monotone in (exponent field, fraction field), lexicographically -/
theorem toDy_mag_mono (f : Fmt) (a b : Nat)
    (h : f.expo a < f.expo b ∨ (f.expo a = f.expo b ∧ f.frac a ≤ f.frac b)) : (f.toDy a).mag ≤ (f.toDy b).mag := by
  rcases h with h | ⟨he, hfr⟩
  · have hb0 : f.expo b ≠ 0 := by omega
    have hb := mag_ge_of_normal f b hb0
    by_cases ha0 : f.expo a = 0
    · have ha := mag_lt_of_subnormal f a ha0
      have : (2 : ℚ) ^ ((f.mbits : ℤ) + f.qmin) ≤ 2 ^ ((f.mbits : ℤ) + ((f.expo b : ℤ) - 1 + f.qmin)) := zpow2_le (by omega)
      linarith
    · have ha := mag_lt_of_normal f a ha0
      have : (2 : ℚ) ^ (((f.mbits + 1 : Nat) : ℤ) + ((f.expo a : ℤ) - 1 + f.qmin)) ≤ 2 ^ ((f.mbits : ℤ) + ((f.expo b : ℤ) - 1 + f.qmin)) :=
        zpow2_le (by push_cast; omega)
      linarith
  · have hcast : ((f.frac a : ℕ) : ℚ) ≤ (f.frac b : ℚ) := by exact_mod_cast hfr
    by_cases ha0 : f.expo a = 0
    · rw [toDy_subnormal f a ha0, toDy_subnormal f b (by omega)]
      simp only [Dy.mag]
      exact mul_le_mul_of_nonneg_right hcast (le_of_lt (two_zpow_pos _))
    · rw [toDy_normal f a ha0, toDy_normal f b (by omega), he]
      simp only [Dy.mag]
      apply mul_le_mul_of_nonneg_right _ (le_of_lt (two_zpow_pos _))
      push_cast; linarith

/-! ### the repaired writers (`f32WriteFields` / `f64WriteFields`: no early return, exponent field 0 encoded) -/

/-- the repaired `float32_*_write` computes the IEEE fields of a normal value … -/
theorem f32WriteFields_normal (b : Nat) (hn : f32.isNormal b = true) :
    f32WriteFields b = ((if f32.sign b then 1 else 0), f32.expo b, f32.frac b) := by
  have hne : f32.expo b ≠ f32.emax ∧ f32.expo b ≠ 0 := by simpa [Fmt.isNormal] using hn
  have hfin : f32.isFinite b = true := by simp [Fmt.isFinite, hne.1]
  have hfl := flushes_normal f32 b hn
  have hfr : f32.frac b < 2 ^ 23 := by simp [Fmt.frac, f32]; omega
  have hL : bitLen (2 ^ 23 + f32.frac b) = 24 := bitLen_unique _ _ (by simp) (by omega) (by omega)
  unfold f32WriteFields
  simp only [hfin, hfl, Bool.not_true, Bool.false_eq_true, if_false]
  have hd : f32.toDy b = ⟨f32.sign b, 2 ^ 23 + f32.frac b, (f32.expo b : Int) - 1 + f32.qmin⟩ := by
    unfold Fmt.toDy; simp only [hne.2, if_false]; rfl
  rw [hd]
  simp only [frexpOf, hL]
  have hq : f32.qmin = -149 := by decide
  rw [Prod.mk.injEq]
  refine ⟨rfl, ?_⟩
  rw [Prod.mk.injEq]
  constructor
  · rw [hq]; push_cast; omega
  · omega

/-- … and of a zero or subnormal value: sign bit, exponent field 0, the fraction field itself -/
theorem f32WriteFields_tiny (b : Nat) (hfin : f32.isFinite b = true) (h0 : f32.expo b = 0) :
    f32WriteFields b = ((if f32.sign b then 1 else 0), 0, f32.frac b) := by
  have hfl := flushes_expo_zero f32 b hfin h0
  have hfr : f32.frac b < 2 ^ 23 := by simp [Fmt.frac, f32]; omega
  have hq : f32.qmin = -149 := by decide
  unfold f32WriteFields
  simp only [hfin, hfl, Bool.not_true, Bool.false_eq_true, if_false, if_true]
  rw [toDy_subnormal f32 b h0, hq]
  simp only [truncScaled]
  norm_num
  omega

theorem f64WriteFields_normal (b : Nat) (hn : f64.isNormal b = true) :
    f64WriteFields b = ((if f64.sign b then 1 else 0), f64.expo b, 2 ^ 28 + f64.frac b / 2 ^ 24, f64.frac b % 2 ^ 24) := by
  have hne : f64.expo b ≠ f64.emax ∧ f64.expo b ≠ 0 := by simpa [Fmt.isNormal] using hn
  have hfin : f64.isFinite b = true := by simp [Fmt.isFinite, hne.1]
  have hfl := flushes_normal f64 b hn
  have hfr : f64.frac b < 2 ^ 52 := by simp [Fmt.frac, f64]; omega
  have hL : bitLen (2 ^ 52 + f64.frac b) = 53 := bitLen_unique _ _ (by simp) (by omega) (by omega)
  unfold f64WriteFields
  simp only [hfin, hfl, Bool.not_true, Bool.false_eq_true, if_false]
  have hd : f64.toDy b = ⟨f64.sign b, 2 ^ 52 + f64.frac b, (f64.expo b : Int) - 1 + f64.qmin⟩ := by
    unfold Fmt.toDy; simp only [hne.2, if_false]; rfl
  rw [hd]
  simp only [frexpOf, hL]
  have hq : f64.qmin = -1074 := by decide
  rw [Prod.mk.injEq]
  refine ⟨rfl, ?_⟩
  rw [Prod.mk.injEq]
  constructor
  · rw [hq]; push_cast; omega
  · rw [Prod.mk.injEq]
    constructor <;> omega

/-- zero or subnormal double: exponent field 0, upper integer = the top 28 fraction bits WITHOUT hidden bit, lower = the low 24 -/
theorem f64WriteFields_tiny (b : Nat) (hfin : f64.isFinite b = true) (h0 : f64.expo b = 0) :
    f64WriteFields b = ((if f64.sign b then 1 else 0), 0, f64.frac b / 2 ^ 24, f64.frac b % 2 ^ 24) := by
  have hfl := flushes_expo_zero f64 b hfin h0
  have hq : f64.qmin = -1074 := by decide
  unfold f64WriteFields
  simp only [hfin, hfl, Bool.not_true, Bool.false_eq_true, if_false, if_true]
  rw [toDy_subnormal f64 b h0, hq]
  simp only [splitScaled]
  norm_num
  have h24 : Int.toNat 24 = 24 := rfl
  rw [h24]
  constructor <;> omega

end Sf.Ieee
