/-
  SfProofs.WveImage — `Sf.Wve.parse` on the images the WVE writer leaves in the store.
-/
import SfModel.Wve
import SfProofs.Small2Session
namespace Sf.Wve
open Sf Sf.Small2

theorem lawful : Lawful fmt where
  hlen := by intro f; simp [fmt, hdr, magic]
  hindep := by intro n f g; rfl

/-- the header a `calc_length` rewrite puts in front of `D` audio bytes -/
theorem calcHdr_eq (D : Nat) : calcHdr fmt (32 + D) = magic ++ be16 3856 ++ be32 (D : Nat) ++ [0, 0, 0, 0, 0, 0, 0, 0, 0, 0] := by
  show hdr _ = _
  unfold hdr
  have : (((32 + D : Nat) : Int) - 32) = ((D : Nat) : Int) := by push_cast; omega
  show magic ++ be16 3856 ++ be32 (((32 + D : Nat) : Int) - 32) ++ _ = _
  rw [this]

theorem guess_magic (r : List Byte) : guess (magic ++ r) = some (.fmt 0x190000) := by rfl

/-- the reader on `header ++ data`, whatever the fields after the markers hold -/
theorem parse_image (x : List Byte) (hx : x.length = 16) (data : List Byte) :
    parse (magic ++ x ++ data) = .ok { ch := 1, fmt := 0x190011, sr := 8000, frames := data.length } := by
  have hlen : (magic ++ x ++ data).length = 32 + data.length := by simp [magic, hx]; omega
  have e : magic ++ x ++ data = magic ++ (x ++ data) := by simp
  unfold parse
  rw [hlen, if_neg (by omega), e, guess_magic]
  have hm : ¬ ((List.drop 12 (magic ++ (x ++ data))).take 4 ≠ [0x65, 0x2A, 0x2A, 0]) := by
    intro h; apply h; rfl
  simp only []
  rw [if_neg hm]
  have := framesOf_nat 32 data.length 1 (by decide)
  simp only [Nat.div_one] at this
  rw [show ((32 : Int)) = ((32 : Nat) : Int) from rfl, show ((1 : Int)) = ((1 : Nat) : Int) from rfl, this]

end Sf.Wve
