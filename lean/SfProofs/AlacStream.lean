/-
  ALAC wrapper (SfModel/AlacFile.lean): the read side ACROSS packet boundaries (helpers of SfProps/C06AlacStream.lean).
  A good file is a list of packets `pkts` (each 1 … maxPacket bytes) stored back to back, with the table `sizesOf pkts extra`
  (`extra` = nothing, or the zero entry a padded 'pakt' chunk decodes to).  `At cd pkts r pos` says where in the decoded
  stream `streamOf cd pkts` the reader state `r` stands: between two packets, inside the packet decoded last, or behind the
  table.  `readLoop_stream`: from such a state a read of `len` frames delivers `stream[pos .. pos+len)` (cut at the end of the
  stream) and leaves the reader `At` the new position -- by induction on the fuel, for every codec.
-/
import SfModel.AlacFile
namespace Sf.AlacStream
open Sf Sf.Alac

variable {σ α : Type}

def sizesOf (pkts : List (List Byte)) (extra : List Nat) : List Nat := pkts.map List.length ++ extra
def streamOf (cd : Codec σ α) (pkts : List (List Byte)) : List α := (pkts.map cd.dec).flatten

structure Good (pkts : List (List Byte)) (extra : List Nat) : Prop where
  size : ∀ p ∈ pkts, 0 < p.length ∧ p.length ≤ maxPacket
  extra0 : extra = [] ∨ extra = [0]

/-- where the reader stands in the decoded stream -/
def At (cd : Codec σ α) (pkts : List (List Byte)) (r : R α) (pos : Nat) : Prop :=
  (∃ done todo, pkts = done ++ todo ∧ r.cur = done.length ∧ r.inPos = done.flatten.length ∧ r.ftb ≤ r.part ∧
      pos = (streamOf cd done).length) ∨
  (∃ done p todo, pkts = done ++ p :: todo ∧ r.cur = done.length + 1 ∧ r.inPos = done.flatten.length + p.length ∧
      r.block = cd.dec p ∧ r.ftb = (cd.dec p).length ∧ r.part ≤ r.ftb ∧ pos = (streamOf cd done).length + r.part) ∨
  (pkts.length < r.cur ∧ r.ftb ≤ r.part ∧ pos = (streamOf cd pkts).length)

theorem streamOf_append (cd : Codec σ α) (a b : List (List Byte)) : streamOf cd (a ++ b) = streamOf cd a ++ streamOf cd b := by
  simp [streamOf]

theorem streamOf_cons (cd : Codec σ α) (p : List Byte) (b : List (List Byte)) : streamOf cd (p :: b) = cd.dec p ++ streamOf cd b := by
  simp [streamOf]

/-- one iteration of the copy loop, unfolded -/
theorem readLoop_succ (cd : Codec σ α) (io : Alac.IO) (fuel : Nat) (r : R α) (len : Nat) (hl : len ≠ 0) :
    readLoop cd io (fuel + 1) r len =
      (let d := if r.part ≥ r.ftb then decodeBlock cd io r else (r, true)
       if d.2 = false then (d.1, [])
       else
         let rc := min (d.1.ftb - d.1.part) len
         let res := readLoop cd io fuel { d.1 with part := d.1.part + rc } (len - rc)
         (res.1, (d.1.block.drop d.1.part).take rc ++ res.2)) := by
  rw [readLoop, if_neg hl]
  generalize (if r.part ≥ r.ftb then decodeBlock cd io r else (r, true)) = d
  obtain ⟨d1, d2⟩ := d
  cases d2 <;> simp

theorem decodeBlock_good (cd : Codec σ α) (io : Alac.IO) (r : R α) (sz : Nat) (hc : r.cur < r.sizes.length)
    (hs : r.sizes.getD r.cur 0 = sz) (h0 : 0 < sz) (hm : sz ≤ maxPacket) (hio : (io r.inPos sz).length = sz) :
    decodeBlock cd io r = ({ r with cur := r.cur + 1, inPos := r.inPos + sz, block := cd.dec (io r.inPos sz), ftb := (cd.dec (io r.inPos sz)).length, part := 0 }, true) := by
  unfold decodeBlock
  rw [if_neg (by omega)]
  simp only [hs]
  rw [if_neg (by omega), if_neg (by omega), if_neg (by omega)]

theorem decodeBlock_zero (cd : Codec σ α) (io : Alac.IO) (r : R α) (hc : r.cur < r.sizes.length) (hs : r.sizes.getD r.cur 0 = 0) :
    decodeBlock cd io r = ({ r with cur := r.cur + 1 }, false) := by
  unfold decodeBlock
  rw [if_neg (by omega)]
  simp only [hs]
  simp

theorem decodeBlock_end (cd : Codec σ α) (io : Alac.IO) (r : R α) (h : r.cur ≥ r.sizes.length) : decodeBlock cd io r = (r, false) := by
  unfold decodeBlock; rw [if_pos h]

theorem fileIO_packet (done : List (List Byte)) (p : List Byte) (todo : List (List Byte)) :
    fileIO (done ++ p :: todo).flatten done.flatten.length p.length = p := by
  simp [fileIO]

theorem sizes_getD (done : List (List Byte)) (p : List Byte) (todo : List (List Byte)) (extra : List Nat) :
    (sizesOf (done ++ p :: todo) extra).getD done.length 0 = p.length := by
  simp [sizesOf, List.getD_eq_getElem?_getD, List.getElem?_append_left, List.getElem?_append_right]

/-- the in-packet part of an iteration and the recursive call, given the induction hypothesis -/
theorem inside_step (cd : Codec σ α) (pkts : List (List Byte)) (io : Alac.IO) (fuel : Nat) (r1 : R α) (len : Nat)
    (done : List (List Byte)) (p : List Byte) (todo : List (List Byte)) (hp : pkts = done ++ p :: todo)
    (hcur : r1.cur = done.length + 1) (hin : r1.inPos = done.flatten.length + p.length) (hb : r1.block = cd.dec p)
    (hf : r1.ftb = (cd.dec p).length) (hpart : r1.part ≤ r1.ftb)
    (ih : ∀ (r : R α) (len pos : Nat), r.sizes = r1.sizes → At cd pkts r pos → (r.sizes.length - r.cur) + len < fuel →
      (readLoop cd io fuel r len).2 = ((streamOf cd pkts).drop pos).take len ∧ (readLoop cd io fuel r len).1.sizes = r.sizes ∧
      At cd pkts (readLoop cd io fuel r len).1 (pos + (readLoop cd io fuel r len).2.length))
    (hfuel : (r1.sizes.length - r1.cur) + (len - min (r1.ftb - r1.part) len) < fuel) :
    let rc := min (r1.ftb - r1.part) len
    let res := readLoop cd io fuel { r1 with part := r1.part + rc } (len - rc)
    let pos := (streamOf cd done).length + r1.part
    (r1.block.drop r1.part).take rc ++ res.2 = ((streamOf cd pkts).drop pos).take len ∧ res.1.sizes = r1.sizes ∧
      At cd pkts res.1 (pos + ((r1.block.drop r1.part).take rc ++ res.2).length) := by
  intro rc res pos
  have hrc : rc ≤ r1.ftb - r1.part := Nat.min_le_left _ _
  have hrl : rc ≤ len := Nat.min_le_right _ _
  have hat : At cd pkts { r1 with part := r1.part + rc } (pos + rc) :=
    Or.inr (Or.inl ⟨done, p, todo, hp, hcur, hin, hb, hf, by show r1.part + rc ≤ r1.ftb; omega, by show pos + rc = _ + (r1.part + rc); omega⟩)
  obtain ⟨i1, i2, i3⟩ := ih { r1 with part := r1.part + rc } (len - rc) (pos + rc) rfl hat hfuel
  have hout : (r1.block.drop r1.part).take rc = ((streamOf cd pkts).drop pos).take rc := by
    have hs : (streamOf cd pkts).drop pos = (cd.dec p).drop r1.part ++ streamOf cd todo := by
      rw [hp, streamOf_append, streamOf_cons, List.drop_append, List.drop_append]
      have e1 : List.drop pos (streamOf cd done) = [] := List.drop_of_length_le (by omega)
      have e2 : pos - (streamOf cd done).length = r1.part := by omega
      have e3 : r1.part - (cd.dec p).length = 0 := by omega
      rw [e1, e2, e3]; simp
    rw [hs, hb, List.take_append_of_le_length]
    rw [List.length_drop]; omega
  refine ⟨?_, i2, ?_⟩
  · show _ ++ res.2 = _
    rw [hout, i1]
    have : len = rc + (len - rc) := by omega
    conv => rhs; rw [this, List.take_add, List.drop_drop]
  · have hl : ((r1.block.drop r1.part).take rc).length = rc := by
      rw [List.length_take, List.length_drop, hb]; omega
    rw [List.length_append, hl, ← Nat.add_assoc]
    exact i3

/-- a state at a packet boundary (`ftb ≤ part`): either in front of packet `done.length`, or behind the table -/
theorem at_boundary (cd : Codec σ α) (pkts : List (List Byte)) (r : R α) (pos : Nat) (h : At cd pkts r pos) (hb : r.ftb ≤ r.part) :
    (∃ done todo, pkts = done ++ todo ∧ r.cur = done.length ∧ r.inPos = done.flatten.length ∧ pos = (streamOf cd done).length) ∨
    (pkts.length < r.cur ∧ pos = (streamOf cd pkts).length) := by
  rcases h with ⟨done, todo, h1, h2, h3, _, h5⟩ | ⟨done, p, todo, h1, h2, h3, _, h5, h6, h7⟩ | ⟨h1, _, h3⟩
  · exact Or.inl ⟨done, todo, h1, h2, h3, h5⟩
  · refine Or.inl ⟨done ++ [p], todo, by simp [h1], by simp [h2], by simp [h3], ?_⟩
    rw [streamOf_append, streamOf_cons, List.length_append, List.length_append, h7]
    simp [streamOf]; omega
  · exact Or.inr ⟨h1, h3⟩

theorem drop_all_take (l : List α) (n len : Nat) (h : l.length ≤ n) : (l.drop n).take len = [] := by
  rw [List.drop_of_length_le h]; exact List.take_nil

/-- C06 across packets: from a state that stands at stream position `pos`, the copy loop of alac_read_* delivers
    `stream[pos .. pos+len)` (cut at the end of the stream), keeps the table and leaves the reader at the new position -/
theorem readLoop_stream (cd : Codec σ α) (pkts : List (List Byte)) (extra : List Nat) (hg : Good pkts extra) :
    ∀ (fuel : Nat) (r : R α) (len pos : Nat), r.sizes = sizesOf pkts extra → At cd pkts r pos → (r.sizes.length - r.cur) + len < fuel →
      (readLoop cd (fileIO pkts.flatten) fuel r len).2 = ((streamOf cd pkts).drop pos).take len ∧
      (readLoop cd (fileIO pkts.flatten) fuel r len).1.sizes = r.sizes ∧
      At cd pkts (readLoop cd (fileIO pkts.flatten) fuel r len).1 (pos + (readLoop cd (fileIO pkts.flatten) fuel r len).2.length) := by
  intro fuel
  induction fuel with
  | zero => intro r len pos _ _ h; omega
  | succ fuel ih =>
    intro r len pos hs hat hfuel
    by_cases hl : len = 0
    · subst hl
      rw [readLoop]
      simp only [if_true, List.take_zero, List.length_nil, Nat.add_zero]
      exact ⟨trivial, trivial, hat⟩
    rw [readLoop_succ cd _ fuel r len hl]
    have hslen : r.sizes.length = pkts.length + extra.length := by rw [hs]; simp [sizesOf]
    have ih' : ∀ (r' : R α) (len pos : Nat), r'.sizes = sizesOf pkts extra → At cd pkts r' pos → (r'.sizes.length - r'.cur) + len < fuel → _ := ih
    by_cases hbd : r.part ≥ r.ftb
    · rw [if_pos hbd]
      rcases at_boundary cd pkts r pos hat hbd with ⟨done, todo, h1, h2, h3, h5⟩ | ⟨h1, h3⟩
      · cases todo with
        | nil =>
          -- behind the last packet: the table is exhausted, or its next entry is the zero of a padded chunk
          rw [List.append_nil] at h1
          subst h1
          have hend : ((streamOf cd pkts).drop pos).take len = [] := drop_all_take _ _ _ (by omega)
          rcases hg.extra0 with he | he
          · rw [decodeBlock_end cd _ r (by rw [hslen, he]; simp; omega)]
            simp only [if_true, List.length_nil, Nat.add_zero]
            exact ⟨hend.symm, trivial, hat⟩
          · rw [decodeBlock_zero cd _ r (by rw [hslen, he]; simp; omega)
              (by rw [hs, h2, he]; simp [sizesOf, List.getD_eq_getElem?_getD])]
            simp only [if_true, List.length_nil, Nat.add_zero]
            exact ⟨hend.symm, trivial, Or.inr (Or.inr ⟨by show pkts.length < r.cur + 1; omega, hbd, h5⟩)⟩
        | cons p todo =>
          have hp := hg.size p (by rw [h1]; simp)
          have hsz : r.sizes.getD r.cur 0 = p.length := by rw [hs, h2, h1]; exact sizes_getD done p todo extra
          have hio : fileIO pkts.flatten r.inPos p.length = p := by rw [h1, h3]; exact fileIO_packet done p todo
          rw [decodeBlock_good cd _ r p.length (by rw [hslen, h1, h2]; simp; omega) hsz hp.1 hp.2 (by rw [hio]), hio]
          simp only [Bool.true_eq_false, if_false]
          have := inside_step cd pkts (fileIO pkts.flatten) fuel
            { r with cur := r.cur + 1, inPos := r.inPos + p.length, block := cd.dec p, ftb := (cd.dec p).length, part := 0 } len
            done p todo h1 (by show r.cur + 1 = _; omega) (by show r.inPos + p.length = _; omega) rfl rfl (Nat.zero_le _)
            (fun r' len' pos' hs' => ih' r' len' pos' (hs'.trans hs))
            (by show (r.sizes.length - (r.cur + 1)) + _ < fuel
                have : r.cur < r.sizes.length := by rw [hslen, h1, h2]; simp; omega
                omega)
          simp only [Nat.add_zero] at this
          rw [← h5] at this
          exact this
      · rw [decodeBlock_end cd _ r (by rcases hg.extra0 with he | he <;> rw [hslen, he] <;> simp <;> omega)]
        simp only [if_true, List.length_nil, Nat.add_zero]
        exact ⟨(drop_all_take _ _ _ (by omega)).symm, trivial, hat⟩
    · rw [if_neg hbd]
      simp only [Bool.true_eq_false, if_false]
      rcases hat with ⟨_, _, _, _, _, h4, _⟩ | ⟨done, p, todo, h1, h2, h3, h4, h5, h6, h7⟩ | ⟨_, h2, _⟩
      · omega
      · have := inside_step cd pkts (fileIO pkts.flatten) fuel r len done p todo h1 h2 h3 h4 h5 h6
          (fun r' len' pos' hs' => ih' r' len' pos' (hs'.trans hs))
          (by have : 1 ≤ min (r.ftb - r.part) len := by
                rw [Nat.le_min]; omega
              omega)
        rw [← h7] at this
        exact this
      · omega

end Sf.AlacStream
