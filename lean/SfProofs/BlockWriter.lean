/-
  The generic block writer: an inner call with whole frames is a fold of a per-frame step (`pushFrame`) over the
  frames, whatever `encodeBlock` is (helper lemmas for C07Block).
-/
import SfModel.Block
namespace Sf.Block.Proofs
open Sf Sf.Block

variable {σ : Type}

/-- the per-frame step: store the frame at `write_count`, count it, encode + emit when the block is full -/
def pushFrame (w : Writer σ) (st : WState σ) (fr : List Int) : WState σ :=
  let st1 : WState σ := { st with buf := overwrite st.buf (st.cnt * w.ch) fr w.ch, cnt := st.cnt + 1 }
  if st1.cnt ≥ w.spb then w.emit st1 else st1

/-- the end of a loop iteration -/
def finish (w : Writer σ) (st : WState σ) : WState σ := if st.cnt ≥ w.spb then w.emit st else st

structure WWF (w : Writer σ) : Prop where
  spb_pos : 0 < w.spb
  ch_pos  : 0 < w.ch

/-- writer invariant between calls: the buffer has block size and is not full -/
structure WInv (w : Writer σ) (st : WState σ) : Prop where
  cnt : st.cnt < w.spb
  len : st.buf.length = w.spb * w.ch

/-- every frame has `ch` items -/
def Uniform (ch : Nat) (fs : List (List Int)) : Prop := ∀ f ∈ fs, f.length = ch

theorem uniform_cons {ch : Nat} {f : List Int} {fs : List (List Int)} (h : Uniform ch (f :: fs)) :
    f.length = ch ∧ Uniform ch fs :=
  ⟨h f (by simp), fun g hg => h g (by simp [hg])⟩

theorem uniform_flatten_length {ch : Nat} : ∀ (fs : List (List Int)), Uniform ch fs → fs.flatten.length = fs.length * ch := by
  intro fs
  induction fs with
  | nil => intro _; simp
  | cons f fs ih =>
    intro h
    obtain ⟨h1, h2⟩ := uniform_cons h
    simp only [List.flatten_cons, List.length_append, List.length_cons, ih h2, h1, Nat.succ_mul]
    omega

theorem uniform_take {ch : Nat} (fs : List (List Int)) (q : Nat) (h : Uniform ch fs) : Uniform ch (fs.take q) :=
  fun f hf => h f (List.mem_of_mem_take hf)
theorem uniform_drop {ch : Nat} (fs : List (List Int)) (q : Nat) (h : Uniform ch fs) : Uniform ch (fs.drop q) :=
  fun f hf => h f (List.mem_of_mem_drop hf)

theorem flatten_take_uniform {ch : Nat} : ∀ (q : Nat) (fs : List (List Int)), Uniform ch fs →
    fs.flatten.take (q * ch) = (fs.take q).flatten := by
  intro q
  induction q with
  | zero => intro fs _; simp
  | succ q ih =>
    intro fs h
    cases fs with
    | nil => simp
    | cons f fs =>
      obtain ⟨h1, h2⟩ := uniform_cons h
      simp only [List.flatten_cons, List.take_succ_cons]
      rw [List.take_append, h1, Nat.succ_mul, List.take_of_length_le (by omega), ← ih fs h2]
      congr 2; omega

theorem flatten_drop_uniform {ch : Nat} : ∀ (q : Nat) (fs : List (List Int)), Uniform ch fs →
    fs.flatten.drop (q * ch) = (fs.drop q).flatten := by
  intro q
  induction q with
  | zero => intro fs _; simp
  | succ q ih =>
    intro fs h
    cases fs with
    | nil => simp
    | cons f fs =>
      obtain ⟨h1, h2⟩ := uniform_cons h
      simp only [List.flatten_cons, List.drop_succ_cons]
      rw [List.drop_append, h1, Nat.succ_mul, List.drop_of_length_le (by omega), List.nil_append, ← ih fs h2]
      congr 1; omega

/-! ### overwrite algebra -/

theorem overwrite_length (buf : List Int) (off len : Nat) (piece : List Int) (h : off + len ≤ buf.length)
    (hp : piece.length = len) : (overwrite buf off piece len).length = buf.length := by
  simp only [overwrite, List.length_append, List.length_take, List.length_drop, hp]
  omega

theorem overwrite_overwrite (buf : List Int) (off la lb : Nat) (a b : List Int) (ho : off ≤ buf.length)
    (ha : a.length = la) :
    overwrite (overwrite buf off a la) (off + la) b lb = overwrite buf off (a ++ b) (la + lb) := by
  have h1 : (buf.take off ++ a).length = off + la := by
    rw [List.length_append, List.length_take, ha]; omega
  unfold overwrite
  have e1 : List.take (off + la) (buf.take off ++ a ++ buf.drop (off + la)) = buf.take off ++ a := List.take_left' h1
  have e2 : List.drop (off + la + lb) (buf.take off ++ a ++ buf.drop (off + la)) = buf.drop (off + (la + lb)) := by
    rw [← List.drop_drop, List.drop_left' h1, List.drop_drop]
    congr 1; omega
  rw [e1, e2]
  simp only [List.append_assoc]

/-! ### the emit step as an opaque function with three observations -/

theorem emit_cnt (w : Writer σ) (st : WState σ) : (w.emit st).cnt = 0 := by
  unfold Writer.emit; rfl
theorem emit_buf (w : Writer σ) (st : WState σ) : (w.emit st).buf = st.buf := by
  unfold Writer.emit; rfl
/-- `emit` looks only at the encoder state, the buffer, the bytes emitted so far and the block count -/
theorem emit_congr (w : Writer σ) (a b : WState σ) (h1 : a.buf = b.buf) (h2 : a.es = b.es) (h3 : a.out = b.out)
    (h4 : a.nblk = b.nblk) : w.emit a = w.emit b := by
  unfold Writer.emit; rw [h1, h2, h3, h4]

theorem finish_inv (w : Writer σ) (wf : WWF w) (st : WState σ) (hc : st.cnt ≤ w.spb) (hl : st.buf.length = w.spb * w.ch) :
    WInv w (finish w st) := by
  unfold finish
  by_cases h : st.cnt ≥ w.spb
  · rw [if_pos h]; exact ⟨by rw [emit_cnt]; exact wf.spb_pos, by rw [emit_buf]; exact hl⟩
  · rw [if_neg h]; exact ⟨by omega, hl⟩

/-- `c ≥ 1` frames that fit into the block: the fold of `pushFrame` stores them side by side and finishes once -/
theorem push_many (w : Writer σ) (wf : WWF w) : ∀ (fs : List (List Int)) (st : WState σ), fs ≠ [] → Uniform w.ch fs →
    st.cnt + fs.length ≤ w.spb → st.buf.length = w.spb * w.ch →
    fs.foldl (pushFrame w) st =
      finish w { st with buf := overwrite st.buf (st.cnt * w.ch) fs.flatten (fs.length * w.ch), cnt := st.cnt + fs.length } := by
  intro fs
  induction fs with
  | nil => intro st h; exact absurd rfl h
  | cons f fs ih =>
    intro st _ hu hc hl
    obtain ⟨hf, hu2⟩ := uniform_cons hu
    simp only [List.length_cons] at hc
    by_cases hfs : fs = []
    · subst hfs
      simp only [List.foldl_cons, List.foldl_nil, List.flatten_cons, List.flatten_nil, List.append_nil, List.length_cons,
        List.length_nil, Nat.zero_add, Nat.one_mul]
      rfl
    · have hpos : 0 < fs.length := List.length_pos_iff.mpr hfs
      have hlt : ¬ (st.cnt + 1 ≥ w.spb) := by omega
      have hstep : pushFrame w st f = { st with buf := overwrite st.buf (st.cnt * w.ch) f w.ch, cnt := st.cnt + 1 } := by
        unfold pushFrame
        simp only [hlt, if_false]
      have hmul : st.cnt * w.ch + w.ch + fs.length * w.ch ≤ w.spb * w.ch := by
        have := Nat.mul_le_mul_right w.ch (show st.cnt + 1 + fs.length ≤ w.spb by omega)
        rwa [Nat.add_mul, Nat.add_mul, Nat.one_mul] at this
      have hle : st.cnt * w.ch + w.ch ≤ st.buf.length := by
        rw [hl]; omega
      rw [List.foldl_cons, hstep, ih _ hfs hu2 (by simp only; omega) (by simp only; rw [overwrite_length _ _ _ _ hle hf]; exact hl)]
      simp only
      rw [Nat.succ_mul, overwrite_overwrite _ _ _ _ _ _ (by omega) hf]
      have e2 : (f :: fs).length * w.ch = w.ch + fs.length * w.ch := by
        rw [List.length_cons, Nat.succ_mul, Nat.add_comm]
      have e3 : st.cnt + (f :: fs).length = st.cnt + 1 + fs.length := by
        rw [List.length_cons]; omega
      rw [List.flatten_cons, e2, e3]

/-- the inner call on whole frames is the fold of the per-frame step -/
theorem writeLoop_fold (w : Writer σ) (wf : WWF w) : ∀ (fuel : Nat) (st : WState σ) (fs : List (List Int)),
    WInv w st → Uniform w.ch fs → fs.length < fuel →
    w.writeLoop fuel st fs.flatten (fs.length * w.ch) = fs.foldl (pushFrame w) st ∧ WInv w (fs.foldl (pushFrame w) st) := by
  intro fuel
  induction fuel with
  | zero => intro st fs _ _ h; omega
  | succ fuel ih =>
    intro st fs inv hu hf
    unfold Writer.writeLoop
    by_cases hm : fs.length = 0
    · have : fs = [] := List.length_eq_zero_iff.mp hm
      subst this
      simp only [List.length_nil, Nat.zero_mul, if_true, List.foldl_nil]
      exact ⟨trivial, inv⟩
    · have hmc : fs.length * w.ch ≠ 0 := Nat.mul_ne_zero hm (Nat.pos_iff_ne_zero.mp wf.ch_pos)
      simp only [hmc, if_false]
      have hcount : min ((w.spb - st.cnt) * w.ch) (fs.length * w.ch) = min (w.spb - st.cnt) fs.length * w.ch :=
        Nat.mul_min_mul_right _ _ _
      generalize hc : min (w.spb - st.cnt) fs.length = c at hcount
      have hcnt := inv.cnt
      have hc1 : 1 ≤ c := by omega
      have hc2 : st.cnt + c ≤ w.spb := by omega
      have hc3 : c ≤ fs.length := by omega
      rw [hcount, Nat.mul_div_cancel c wf.ch_pos, flatten_take_uniform c fs hu, flatten_drop_uniform c fs hu, ← Nat.sub_mul]
      have hlen1 : (fs.take c).length = c := by rw [List.length_take]; omega
      have hne : fs.take c ≠ [] := by
        intro h; rw [h] at hlen1; simp at hlen1; omega
      have hpm := push_many w wf (fs.take c) st hne (uniform_take fs c hu) (by rw [hlen1]; exact hc2) inv.len
      rw [hlen1] at hpm
      have hfin : (if (st.cnt + c) ≥ w.spb then
            w.emit { st with buf := overwrite st.buf (st.cnt * w.ch) (fs.take c).flatten (c * w.ch), cnt := st.cnt + c }
          else { st with buf := overwrite st.buf (st.cnt * w.ch) (fs.take c).flatten (c * w.ch), cnt := st.cnt + c })
          = (fs.take c).foldl (pushFrame w) st := by
        rw [hpm]; rfl
      have hinv2 : WInv w ((fs.take c).foldl (pushFrame w) st) := by
        rw [hpm]
        apply finish_inv w wf
        · exact hc2
        · simp only
          rw [overwrite_length _ _ _ _ _ (by rw [uniform_flatten_length _ (uniform_take fs c hu), hlen1])]
          · exact inv.len
          · rw [inv.len]
            have := Nat.mul_le_mul_right w.ch hc2
            rw [Nat.add_mul] at this; exact this
      have hdl : (fs.drop c).length = fs.length - c := List.length_drop
      rw [hfin, ← hdl]
      obtain ⟨h1, h2⟩ := ih _ (fs.drop c) hinv2 (uniform_drop fs c hu) (by rw [hdl]; omega)
      rw [h1]
      have : fs.foldl (pushFrame w) st = (fs.drop c).foldl (pushFrame w) ((fs.take c).foldl (pushFrame w) st) := by
        rw [← List.foldl_append, List.take_append_drop]
      rw [this]
      exact ⟨rfl, h2⟩

/-- `Writer.write` on whole frames -/
theorem write_fold (w : Writer σ) (wf : WWF w) (st : WState σ) (fs : List (List Int)) (inv : WInv w st) (hu : Uniform w.ch fs) :
    w.write st fs.flatten = fs.foldl (pushFrame w) st ∧ WInv w (fs.foldl (pushFrame w) st) := by
  unfold Writer.write
  simp only
  rw [uniform_flatten_length fs hu]
  exact writeLoop_fold w wf _ st fs inv hu (Nat.lt_succ_of_le (Nat.le_mul_of_pos_right _ wf.ch_pos))

theorem init_inv_w (w : Writer σ) (wf : WWF w) (s0 : σ) : WInv w (w.init s0) :=
  ⟨wf.spb_pos, by simp [Writer.init, zeros]⟩

/-- the staging loop with pieces of `q` whole frames (`q = 0`: one piece) is the same fold -/
theorem writeChunked_fold (w : Writer σ) (wf : WWF w) (q : Nat) : ∀ (fuel : Nat) (st : WState σ) (fs : List (List Int)),
    WInv w st → Uniform w.ch fs → fs.length < fuel →
    w.writeChunked (q * w.ch) fuel st fs.flatten (fs.length * w.ch) = fs.foldl (pushFrame w) st ∧
      WInv w (fs.foldl (pushFrame w) st) := by
  intro fuel
  induction fuel with
  | zero => intro st fs _ _ h; omega
  | succ fuel ih =>
    intro st fs inv hu hf
    unfold Writer.writeChunked
    by_cases hm : fs.length = 0
    · have : fs = [] := List.length_eq_zero_iff.mp hm
      subst this
      simp only [List.length_nil, Nat.zero_mul, if_true, List.foldl_nil]
      exact ⟨trivial, inv⟩
    · have hmc : fs.length * w.ch ≠ 0 := Nat.mul_ne_zero hm (Nat.pos_iff_ne_zero.mp wf.ch_pos)
      simp only [hmc, if_false]
      -- the piece: c frames
      have hwc : ∃ c, 1 ≤ c ∧ c ≤ fs.length ∧
          (if q * w.ch = 0 then fs.length * w.ch else min (q * w.ch) (fs.length * w.ch)) = c * w.ch := by
        by_cases hq : q * w.ch = 0
        · exact ⟨fs.length, by omega, Nat.le_refl _, by rw [if_pos hq]⟩
        · have hq1 : 1 ≤ q := by
            cases q with
            | zero => simp at hq
            | succ q => omega
          exact ⟨min q fs.length, by omega, by omega, by rw [if_neg hq, Nat.mul_min_mul_right]⟩
      obtain ⟨c, hc1, hc3, hwc⟩ := hwc
      rw [hwc, flatten_take_uniform c fs hu, flatten_drop_uniform c fs hu, ← Nat.sub_mul]
      have hlen1 : (fs.take c).length = c := by rw [List.length_take]; omega
      have hdl : (fs.drop c).length = fs.length - c := List.length_drop
      obtain ⟨h1, h2⟩ := writeLoop_fold w wf (c * w.ch + 1) st (fs.take c) inv (uniform_take fs c hu)
        (by rw [hlen1]; exact Nat.lt_succ_of_le (Nat.le_mul_of_pos_right _ wf.ch_pos))
      rw [hlen1] at h1
      rw [h1, ← hdl]
      obtain ⟨h3, h4⟩ := ih _ (fs.drop c) h2 (uniform_drop fs c hu) (by rw [hdl]; omega)
      rw [h3]
      have : fs.foldl (pushFrame w) st = (fs.drop c).foldl (pushFrame w) ((fs.take c).foldl (pushFrame w) st) := by
        rw [← List.foldl_append, List.take_append_drop]
      rw [this]
      exact ⟨rfl, h4⟩

end Sf.Block.Proofs
