/-
  Helper lemmas about the NMS ADPCM codec core (SfModel/Nms.lean): ranges of the 16-bit wrap, the truncating
  division used by the 14 <-> 16 bit scaling, shapes (list lengths) kept by `update` / `reconstruct`.
-/
import SfModel.Nms
namespace Sf.Nms.Proofs
open Sf Sf.Nms

theorem wrapS16_range (x : Int) : -32768 ≤ wrapS 16 x ∧ wrapS 16 x ≤ 32767 := by
  unfold wrapS
  simp only
  have h1 : (0 : Int) ≤ x % 2 ^ 16 := Int.emod_nonneg _ (by decide)
  have h2 : x % 2 ^ 16 < 2 ^ 16 := Int.emod_lt_of_pos _ (by decide)
  have e : (2 : Int) ^ 16 = 65536 := by decide
  rw [e] at h1 h2 ⊢
  split <;> omega

theorem wrapS16_id (x : Int) (h1 : -32768 ≤ x) (h2 : x ≤ 32767) : wrapS 16 x = x := by
  unfold wrapS
  simp only
  have e : (2 : Int) ^ 16 = 65536 := by decide
  rw [e]
  split <;> omega

/-- C's truncating division by a positive constant, for `omega`: the quotient of a non-negative numerator is the
    floor quotient, of a negative one the negated floor quotient of the negation -/
theorem cdiv_nonneg (a b : Int) (ha : 0 ≤ a) : cdiv a b = a / b := by
  unfold cdiv
  exact Int.tdiv_eq_ediv_of_nonneg ha

theorem cdiv_neg (a b : Int) : cdiv (-a) b = - cdiv a b := by
  unfold cdiv
  exact Int.neg_tdiv ..

/-- shapes: the coefficient and delta arrays keep their C lengths -/
structure Shape (s : St) : Prop where
  b  : s.b.length = 6
  dq : s.dq.length = 7

theorem shape_init (r : Rate) : Shape (St.init r) := ⟨rfl, rfl⟩

theorem update_shape (s : St) (h : Shape s) : Shape (update s) := by
  constructor
  · show (List.zipWith _ s.b s.dq.tail).length = 6
    rw [List.length_zipWith, List.length_tail, h.b, h.dq]; rfl
  · show (s.dq.headD 0 :: s.dq.take 6).length = 7
    rw [List.length_cons, List.length_take, h.dq]; rfl

theorem reconstruct_shape (s : St) (i : Nat) (h : Shape s) : Shape (reconstruct s i).1 := by
  constructor
  · exact h.b
  · show (_ :: s.dq.tail).length = 7
    rw [List.length_cons, List.length_tail, h.dq]

theorem update_tOff (s : St) : (update s).tOff = s.tOff := rfl
theorem reconstruct_tOff (s : St) (i : Nat) : (reconstruct s i).1.tOff = s.tOff := rfl
theorem reconstruct_ik (s : St) (i : Nat) : (reconstruct s i).1.ik = i % 16 := rfl

theorem update_yl_eq (s : St) : (update s).yl = nextYl s := rfl

/-- the scale factor after `update` is clamped to [2171, 20480] whatever the state was -/
theorem nextYl_range (s : St) : 2171 ≤ nextYl s ∧ nextYl s ≤ 20480 := by
  unfold nextYl
  simp only
  split
  · omega
  · split <;> omega

theorem update_yl (s : St) : 2171 ≤ (update s).yl ∧ (update s).yl ≤ 20480 := by
  rw [update_yl_eq]; exact nextYl_range s

theorem update_y (s : St) : (update s).y = antilog (nextYl s) := by
  unfold update
  rfl

end Sf.Nms.Proofs
