/-
  SfProofs.Faults — lemmas about the oracle loops of SfModel.Faults (C15).
-/
import SfModel.Faults
namespace Sf.Faults
open Sf

theorem roundLen_pos {B len : Nat} (h : len ≠ 0) : 0 < roundLen B len := by
  unfold roundLen; split <;> omega

theorem roundLen_le (B len : Nat) : roundLen B len ≤ len := by
  unfold roundLen; split <;> omega

theorem fread_hist_le (o : Oracle) (hist : Hist) (w n : Nat) :
    (fread o hist w n).2.2.length ≤ hist.length + 1 := by
  unfold fread; split <;> simp [call]

theorem fwrite_hist_le (o : Oracle) (hist : Hist) (w n : Nat) (d : List Byte) :
    (fwrite o hist w n d).2.length ≤ hist.length + 1 := by
  unfold fwrite; split
  · simp
  · split <;> simp [call]

/-- under the contract a psf_fread never reports more items than asked -/
theorem fread_count_le (o : Oracle) (hc : o.Contract) (hist : Hist) (w n : Nat) :
    (fread o hist w n).2.1 ≤ n := by
  unfold fread
  split
  · simp
  · rename_i h
    have hw : 0 < w := by omega
    have := hc hist (.read (w * n))
    simp only [Ans.ok] at this
    simp only [call]
    exact (Nat.div_le_iff_le_mul_add_pred hw).2 (by
      have : w * n ≤ w * n + (w - 1) := Nat.le_add_right _ _
      omega)

theorem fwrite_count_le (o : Oracle) (hc : o.Contract) (hist : Hist) (w n : Nat) (d : List Byte) (hd : d.length ≤ n * w) :
    (fwrite o hist w n d).1 ≤ n := by
  unfold fwrite
  split
  · simp
  · rename_i h
    split
    · simp
    · have hw : 0 < w := by omega
      have := hc hist (.write d)
      simp only [Ans.ok] at this
      simp only [call]
      have h2 : (o hist (.write d)).n.toNat ≤ n * w := by omega
      exact (Nat.div_le_iff_le_mul_add_pred hw).2 (by
        have : n * w = w * n := Nat.mul_comm _ _
        omega)

/-! ### the seek latch (psf->file.seek_failed) -/

theorem seekFailed_seek (hist : Hist) (off : Int) (wh : Nat) (a : Ans) :
    seekFailed ((.seek off wh, a) :: hist) = decide (a.n < 0) := rfl

theorem seekFailed_read (hist : Hist) (n : Nat) (a : Ans) : seekFailed ((.read n, a) :: hist) = seekFailed hist := rfl
theorem seekFailed_write (hist : Hist) (d : List Byte) (a : Ans) : seekFailed ((.write d, a) :: hist) = seekFailed hist := rfl
theorem seekFailed_tell (hist : Hist) (a : Ans) : seekFailed ((.tell, a) :: hist) = seekFailed hist := rfl
theorem seekFailed_len (hist : Hist) (a : Ans) : seekFailed ((.len, a) :: hist) = seekFailed hist := rfl

/-- while the latch is set psf_fwrite makes no callback and transfers nothing -/
theorem fwrite_latched (o : Oracle) (hist : Hist) (w n : Nat) (d : List Byte) (hl : seekFailed hist = true) :
    fwrite o hist w n d = (0, hist) := by
  unfold fwrite; split
  · rfl
  · simp [hl]

/-- psf_fwrite never changes the latch -/
theorem fwrite_keeps_latch (o : Oracle) (hist : Hist) (w n : Nat) (d : List Byte) :
    seekFailed (fwrite o hist w n d).2 = seekFailed hist := by
  unfold fwrite; split
  · rfl
  · split
    · rfl
    · simp [call, seekFailed]

/-- with the latch set the whole write loop of a codec transfers nothing and makes no callback -/
theorem writeLoop_latched (o : Oracle) (w B : Nat) (bytes : List Byte) (len : Nat) (hist : Hist) (total attempted : Nat)
    (hl : seekFailed hist = true) :
    (writeLoop o w B bytes len hist total attempted).1 = total ∧ (writeLoop o w B bytes len hist total attempted).2.2 = hist := by
  rw [writeLoop]
  by_cases h0 : len = 0
  · simp [h0]
  · simp only [h0, dite_false]
    have hp : 0 < roundLen B len := by unfold roundLen; split <;> omega
    rw [fwrite_latched o hist w _ _ hl]
    simp [hp]

/-! ### the read loop: callbacks bounded for every oracle, count bounded under the contract -/

theorem readLoop_hist_le (o : Oracle) (w B : Nat) :
    ∀ (len : Nat) (hist : Hist) (acc : List Byte) (total : Nat),
      (readLoop o w B len hist acc total).2.2.length ≤ hist.length + len := by
  intro len
  induction len using Nat.strongRecOn with
  | _ len ih =>
    intro hist acc total
    rw [readLoop]
    by_cases hl : len = 0
    · simp [hl]
    · simp only [hl, dite_false]
      have hp := roundLen_pos (B := B) hl
      have hf := fread_hist_le o hist w (roundLen B len)
      split
      · show (fread o hist w (roundLen B len)).2.2.length ≤ hist.length + len
        omega
      · rename_i hb
        have := ih (len - (fread o hist w (roundLen B len)).2.1) (by omega)
          (fread o hist w (roundLen B len)).2.2
          (acc ++ (fread o hist w (roundLen B len)).1.take ((fread o hist w (roundLen B len)).2.1 * w))
          (total + (fread o hist w (roundLen B len)).2.1)
        omega

theorem fread_hist_extends (o : Oracle) (hist : Hist) (w n : Nat) : ∃ rest, (fread o hist w n).2.2 = rest ++ hist := by
  unfold fread; split
  · exact ⟨[], rfl⟩
  · exact ⟨[(.read (w * n), o hist (.read (w * n)))], rfl⟩

/-- a read loop only ever ADDS callbacks to the history -/
theorem readLoop_hist_extends (o : Oracle) (w B : Nat) :
    ∀ (len : Nat) (hist : Hist) (acc : List Byte) (total : Nat),
      ∃ rest, (readLoop o w B len hist acc total).2.2 = rest ++ hist := by
  intro len
  induction len using Nat.strongRecOn with
  | _ len ih =>
    intro hist acc total
    rw [readLoop]
    by_cases hl : len = 0
    · simp only [hl, dite_true]; exact ⟨[], rfl⟩
    · simp only [hl, dite_false]
      have hp := roundLen_pos (B := B) hl
      obtain ⟨r1, h1⟩ := fread_hist_extends o hist w (roundLen B len)
      split
      · exact ⟨r1, h1⟩
      · rename_i hb
        obtain ⟨r2, h2⟩ := ih (len - (fread o hist w (roundLen B len)).2.1) (by omega)
          (fread o hist w (roundLen B len)).2.2
          (acc ++ (fread o hist w (roundLen B len)).1.take ((fread o hist w (roundLen B len)).2.1 * w))
          (total + (fread o hist w (roundLen B len)).2.1)
        exact ⟨r2 ++ r1, by rw [h2, h1, List.append_assoc]⟩

theorem readLoop_total_le (o : Oracle) (hc : o.Contract) (w B : Nat) :
    ∀ (len : Nat) (hist : Hist) (acc : List Byte) (total : Nat),
      total ≤ (readLoop o w B len hist acc total).2.1 ∧ (readLoop o w B len hist acc total).2.1 ≤ total + len := by
  intro len
  induction len using Nat.strongRecOn with
  | _ len ih =>
    intro hist acc total
    rw [readLoop]
    by_cases hl : len = 0
    · simp [hl]
    · simp only [hl, dite_false]
      have hp := roundLen_pos (B := B) hl
      have hle := roundLen_le B len
      have hf := fread_count_le o hc hist w (roundLen B len)
      split
      · show total ≤ total + (fread o hist w (roundLen B len)).2.1 ∧ total + (fread o hist w (roundLen B len)).2.1 ≤ total + len
        omega
      · rename_i hb
        have := ih (len - (fread o hist w (roundLen B len)).2.1) (by omega)
          (fread o hist w (roundLen B len)).2.2
          (acc ++ (fread o hist w (roundLen B len)).1.take ((fread o hist w (roundLen B len)).2.1 * w))
          (total + (fread o hist w (roundLen B len)).2.1)
        omega

/-! ### the write loop -/

theorem writeLoop_hist_le (o : Oracle) (w B : Nat) (bytes : List Byte) :
    ∀ (len : Nat) (hist : Hist) (total attempted : Nat),
      (writeLoop o w B bytes len hist total attempted).2.2.length ≤ hist.length + len := by
  intro len
  induction len using Nat.strongRecOn with
  | _ len ih =>
    intro hist total attempted
    rw [writeLoop]
    by_cases hl : len = 0
    · simp [hl]
    · simp only [hl, dite_false]
      have hp := roundLen_pos (B := B) hl
      have hf := fwrite_hist_le o hist w (roundLen B len) ((bytes.drop (total * w)).take (roundLen B len * w))
      split
      · show (fwrite o hist w (roundLen B len) ((bytes.drop (total * w)).take (roundLen B len * w))).2.length ≤ hist.length + len
        omega
      · rename_i hb
        have := ih (len - (fwrite o hist w (roundLen B len) ((bytes.drop (total * w)).take (roundLen B len * w))).1) (by omega)
          (fwrite o hist w (roundLen B len) ((bytes.drop (total * w)).take (roundLen B len * w))).2
          (total + (fwrite o hist w (roundLen B len) ((bytes.drop (total * w)).take (roundLen B len * w))).1)
          (attempted + roundLen B len)
        omega

theorem writeLoop_total_le (o : Oracle) (hc : o.Contract) (w B : Nat) (bytes : List Byte) :
    ∀ (len : Nat) (hist : Hist) (total attempted : Nat),
      total ≤ (writeLoop o w B bytes len hist total attempted).1 ∧ (writeLoop o w B bytes len hist total attempted).1 ≤ total + len := by
  intro len
  induction len using Nat.strongRecOn with
  | _ len ih =>
    intro hist total attempted
    rw [writeLoop]
    by_cases hl : len = 0
    · simp [hl]
    · simp only [hl, dite_false]
      have hp := roundLen_pos (B := B) hl
      have hle := roundLen_le B len
      have hf := fwrite_count_le o hc hist w (roundLen B len) ((bytes.drop (total * w)).take (roundLen B len * w))
        (by simp [List.length_take]; exact Nat.min_le_left _ _)
      split
      · show total ≤ total + (fwrite o hist w (roundLen B len) ((bytes.drop (total * w)).take (roundLen B len * w))).1 ∧
             total + (fwrite o hist w (roundLen B len) ((bytes.drop (total * w)).take (roundLen B len * w))).1 ≤ total + len
        omega
      · rename_i hb
        have := ih (len - (fwrite o hist w (roundLen B len) ((bytes.drop (total * w)).take (roundLen B len * w))).1) (by omega)
          (fwrite o hist w (roundLen B len) ((bytes.drop (total * w)).take (roundLen B len * w))).2
          (total + (fwrite o hist w (roundLen B len) ((bytes.drop (total * w)).take (roundLen B len * w))).1)
          (attempted + roundLen B len)
        omega

/-! ### the memory store of the harness: a write never touches bytes before its position -/

theorem writeAt_take (bs : List Byte) (pos : Nat) (d : List Byte) (h : pos ≤ bs.length) :
    (writeAt bs pos d).take pos = bs.take pos := by
  unfold writeAt
  simp only [h, if_true]
  rw [List.append_assoc, List.take_append_of_le_length (by simp [List.length_take]; omega)]
  simp [List.take_take]

theorem writeAt_zero_drop (bs d : List Byte) : (writeAt bs 0 d).drop d.length = bs.drop d.length := by
  unfold writeAt
  simp

end Sf.Faults
