/-
  The staging loop of `g72x_read_i/f/d` (`Reader.readChunkedBrk … true`: pieces of 4096 items, stop after a short
  piece) over a one-channel block reader, and the `sf_read_*` wrapper on top of it (`Sf.G72x.RHandle.read`): what
  a request of ANY size at ANY position delivers.  Helpers for SfProps/C06G72x.lean.
-/
import SfProofs.G72x
import SfProofs.BlockReader
namespace Sf.G72x.Proofs
open Sf Sf.G72x Sf.Block Sf.Block.Proofs

/-- one inner call on a one-channel reader (restatement of `readLoop_general` without the `· ch` factors) -/
theorem read_one (r : Reader) (wf : WF r) (hch : r.ch = 1) (st : RState) (inv : Inv r st) (m : Nat) :
    ∃ t st', t ≤ m ∧ min m (r.frames - r.pos st) ≤ t ∧
      r.read st m = (st', r.slice (r.pos st) t ++ zeros (m - t), t) ∧ Inv r st' ∧ r.pos st' = r.pos st + t := by
  obtain ⟨t, st', h1, h2, h3, h4, h5⟩ := readLoop_general r wf (m + 1) st m inv (Nat.lt_succ_self m)
  refine ⟨t, st', h1, h2, ?_, h4, h5⟩
  unfold Reader.read
  simp only [hch, Nat.mul_one] at h3
  exact h3

/-- the staging loop: from a state at stream position p, a request of n items appends to the cells written so far
    `t` stream items and `k` zeros, `min n (frames − p) ≤ t ≤ n`; when all n were delivered the state is again a
    reader state, at p + n -/
theorem brk_spec (r : Reader) (wf : WF r) (hch : r.ch = 1) (chunk : Nat) : ∀ (fuel : Nat) (st : RState) (n : Nat) (acc : List Int) (total : Nat),
    Inv r st → acc.length = total → n < fuel →
    ∃ t k st', t ≤ n ∧ t + k ≤ n ∧ min n (r.frames - r.pos st) ≤ t ∧
      r.readChunkedBrk chunk true fuel st n acc total = (st', acc ++ (r.slice (r.pos st) t ++ zeros k), total + t) ∧
      (t = n → Inv r st' ∧ r.pos st' = r.pos st + n) := by
  intro fuel
  induction fuel with
  | zero => intro st n acc total _ _ h; omega
  | succ fuel ih =>
    intro st n acc total inv hacc hf
    unfold Reader.readChunkedBrk
    by_cases hn : n = 0
    · subst hn
      refine ⟨0, 0, st, Nat.le_refl _, Nat.le_refl _, by omega, ?_, fun _ => ⟨inv, rfl⟩⟩
      simp [slice_zero, zeros]
    · simp only [hn, if_false]
      generalize hrc : (if chunk = 0 then n else min chunk n) = rc
      have hrc1 : 1 ≤ rc ∧ rc ≤ n := by
        by_cases hc : chunk = 0
        · rw [if_pos hc] at hrc; omega
        · rw [if_neg hc] at hrc; omega
      obtain ⟨t1, st1, ht1, ht2, hread, inv1, hpos1⟩ := read_one r wf hch st inv rc
      rw [hread]
      simp only
      have hacc1 : List.take total acc ++ (r.slice (r.pos st) t1 ++ zeros (rc - t1)) ++ List.drop (total + rc) acc =
          acc ++ (r.slice (r.pos st) t1 ++ zeros (rc - t1)) := by
        rw [List.take_of_length_le (by omega), List.drop_eq_nil_of_le (by omega), List.append_nil]
      have hcond : ¬ (t1 = 0 ∧ (!true) = true) := by simp
      rw [if_neg hcond, hacc1]
      by_cases hshort : t1 ≠ rc
      · rw [if_pos hshort]
        refine ⟨t1, rc - t1, st1, by omega, by omega, by omega, rfl, fun h => by omega⟩
      · rw [if_neg hshort]
        have heq : t1 = rc := by omega
        subst heq
        have hlen : (acc ++ (r.slice (r.pos st) t1 ++ zeros (t1 - t1))).length = total + t1 := by
          simp [slice_length, zeros, hacc]
        obtain ⟨t', k', st', h1, h2, h3, h4, h5⟩ := ih st1 (n - t1) _ (total + t1) inv1 hlen (by omega)
        rw [h4]
        refine ⟨t1 + t', k', st', by omega, by omega, by rw [hpos1] at h3; omega, ?_, ?_⟩
        · rw [hpos1, Nat.sub_self]
          simp only [zeros, List.replicate_zero, List.append_nil, List.append_assoc, slice_append, Nat.add_assoc]
        · intro h
          obtain ⟨hi, hp⟩ := h5 (by omega)
          exact ⟨hi, by rw [hp, hpos1]; omega⟩

theorem slice_take (r : Reader) (p t c : Nat) (h : c ≤ t) : (r.slice p t).take c = r.slice p c := by
  have : t = c + (t - c) := by omega
  rw [this, slice_append, List.take_left' (slice_length r p c)]

/-- invariant of a read handle: its reader is a one-channel well-formed block reader, `sf.frames` is the reader's
    frame count, and unless the end of the data was reached the codec state sits at `read_current` -/
structure HInv (h : RHandle) : Prop where
  wf : WF h.r
  ch : h.r.ch = 1
  fr : h.frames = h.r.frames
  le : h.pos ≤ h.frames
  st : h.pos = h.frames ∨ (Inv h.r h.st ∧ h.r.pos h.st = h.pos)

/-- **sf_read_T, any request at any position**: with c = min (n, frames − position) the call returns c, the caller's
    n cells hold stream items [position, position + c) followed by zeros, the position advances by c, the reader
    and the frame count stay, and the invariant is kept -/
theorem read_spec (h : RHandle) (hi : HInv h) (ty : Ty) (n : Nat) :
    (h.read ty n).2.1 = h.r.slice h.pos (min n (h.frames - h.pos)) ++ zeros (n - min n (h.frames - h.pos)) ∧
    (h.read ty n).2.2 = min n (h.frames - h.pos) ∧
    (h.read ty n).1.pos = h.pos + min n (h.frames - h.pos) ∧
    (h.read ty n).1.r = h.r ∧ (h.read ty n).1.frames = h.frames ∧ HInv (h.read ty n).1 := by
  unfold RHandle.read
  by_cases hn : n = 0
  · subst hn
    simp only [if_true, Nat.zero_min, Nat.add_zero, Nat.sub_zero]
    exact ⟨by simp [slice_zero, zeros], by trivial, by trivial, by trivial, by trivial, hi⟩
  · rw [if_neg hn]
    by_cases hend : h.pos ≥ h.frames
    · rw [if_pos hend]
      have hz : h.frames - h.pos = 0 := by omega
      simp only [hz, Nat.min_zero, Nat.add_zero, Nat.sub_zero]
      exact ⟨by simp [slice_zero], by trivial, by trivial, by trivial, by trivial, hi⟩
    · rw [if_neg hend]
      have hst : Inv h.r h.st ∧ h.r.pos h.st = h.pos := by
        rcases hi.st with e | e
        · omega
        · exact e
      obtain ⟨t, k, st', h1, h2, h3, h4, h5⟩ := brk_spec h.r hi.wf hi.ch (chunkOf ty) (n + 1) h.st n [] 0 hst.1 rfl (Nat.lt_succ_self n)
      rw [h4]
      simp only [hst.2, List.nil_append, Nat.zero_add]
      rw [hst.2, ← hi.fr] at h3
      have hc : min t (h.frames - h.pos) = min n (h.frames - h.pos) := by omega
      rw [hc]
      generalize hcc : min n (h.frames - h.pos) = c at *
      have hct : c ≤ t := by omega
      refine ⟨?_, by trivial, by trivial, by trivial, by trivial, ?_⟩
      · rw [List.take_append_of_le_length (by rw [slice_length]; exact hct), slice_take _ _ _ _ hct]
      · refine ⟨hi.wf, hi.ch, hi.fr, ?_, ?_⟩
        · show h.pos + c ≤ h.frames
          omega
        · show h.pos + c = h.frames ∨ (Inv h.r st' ∧ h.r.pos st' = h.pos + c)
          by_cases hfull : n ≤ h.frames - h.pos
          · right
            have htn : t = n := by omega
            obtain ⟨a, b⟩ := h5 htn
            rw [hst.2] at b
            exact ⟨a, by rw [b]; omega⟩
          · left; omega

/-- the handle `g72x_init` leaves after an open for reading -/
theorem open_inv (r : Rate) (data : List Byte) : HInv (RHandle.open r data) := by
  refine ⟨⟨by show 0 < 120; omega, by show 0 < 1; omega, reader_src_length r data⟩, rfl, rfl, Nat.zero_le _, Or.inr ?_⟩
  exact init_inv _

end Sf.G72x.Proofs
