/-
  SfProofs.AbsBridgeReadStep — the bridge, part 3: ONE READ CALL.  Whatever `stepRead` answers — to a zero-length, negative
  or misaligned request, on a write-only handle, at or beyond the end of the data, inside the data of a read-only handle
  (C05.read_contract_rmode) or of a read/write handle (`rdwr_step`) — is accepted by `Abs.readOk`, and `Sim` / `BInv` hold
  afterwards.
-/
import SfProofs.AbsBridgeRead
namespace Sf.AbsBridge
open Sf

/-- what one read step of the bridge delivers -/
def ReadGoal (g : Abs.Geom) (h : H) (s : Store) (st : Abs.St) (ty : Ty) (fc : Bool) (n : Int) : Prop :=
  ∃ st', Abs.readOk g st ty fc n (outOfRead ty (stepRead h s ty fc n).2.2) = .ok st' ∧
    Sim (stepRead h s ty fc n).1 (stepRead h s ty fc n).2.1 st' ∧ BInv (stepRead h s ty fc n).1 (stepRead h s ty fc n).2.1

theorem absMode_ne_w {m : Sf.Mode} (h : m ≠ .w) : absMode m ≠ .w := by cases m <;> simp_all [absMode]
theorem absMode_w {m : Sf.Mode} (h : m = .w) : absMode m = .w := by subst h; rfl

/-- invalid requests: 0 and an error, nothing else changes -/
theorem read_invalid_goal (g : Abs.Geom) (h : H) (s : Store) (st : Abs.St) (ty : Ty) (fc : Bool) (n : Int) (e : Int)
    (data : List Int) (bi : BInv h s) (sim : Sim h s st) (he : e ≠ 0) (hn : n ≠ 0)
    (hinv : Abs.validReq g fc n = false ∨ st.mode = .w)
    (hs : stepRead h s ty fc n = ({ h with error := e }, s, { ret := 0, err := e, data := data, hasData := true })) :
    ReadGoal g h s st ty fc n := by
  unfold ReadGoal
  rw [hs]
  refine ⟨{ st with err := true }, ?_, sim.set_err e true, bi.set_error e⟩
  exact Abs.readOk_complete_invalid g st ty fc n _ hn hinv rfl (by simp [outOfRead, he])

theorem read_bridge (g : Abs.Geom) (h : H) (s : Store) (st : Abs.St) (ty : Ty) (fc : Bool) (n : Int)
    (gf : GeomFor g h) (bi : BInv h s) (sim : Sim h s st) : ReadGoal g h s st ty fc n := by
  have hi := bi.hinv
  have hch := hi.ch_pos
  have hnb := hi.nb_pos
  by_cases h0 : n = 0
  · -- a zero-length request
    subst h0
    unfold ReadGoal
    rw [stepRead_zero]
    exact ⟨st, by simp [Abs.readOk, outOfRead], sim, bi⟩
  by_cases hneg : n < 0
  · exact read_invalid_goal g h s st ty fc n E_NEG_LEN [] bi sim (by decide) h0
      (Or.inl (by unfold Abs.validReq; simp; omega)) (stepRead_neg h s ty fc n hneg)
  have hn : 0 < n := by omega
  by_cases hw : h.mode = .w
  · exact read_invalid_goal g h s st ty fc n E_NOT_READMODE _ bi sim (by decide) h0
      (Or.inr (by rw [sim.mode]; exact absMode_w hw)) (stepRead_wmode h s ty fc n hn hw)
  by_cases ha' : ¬ (fc = true ∨ n % (h.ch : Int) = 0)
  · obtain ⟨hf, hna⟩ := not_aligned_of fc n h.ch ha'
    subst hf
    exact read_invalid_goal g h s st ty false n E_BAD_ALIGN _ bi sim (by decide) h0
      (Or.inl (by unfold Abs.validReq; rw [gf.ch]; simp [hna])) (stepRead_align h s ty n hn hw hna)
  -- a valid request
  have ha : fc = true ∨ n % (h.ch : Int) = 0 := Decidable.not_not.mp ha'
  obtain ⟨m, hm0, hnm, hreq⟩ := valid_frames h fc n hch hn ha
  have hstm : st.mode ≠ .w := by rw [sim.mode]; exact absMode_ne_w hw
  have hnm' : n = if fc then (m : Int) else ((m * h.ch : Nat) : Int) := by rw [hnm]; rfl
  obtain ⟨F, hF⟩ := Int.eq_ofNat_of_zero_le bi.frames_nn
  obtain ⟨R, hR⟩ := Int.eq_ofNat_of_zero_le hi.rpos_nn
  have hstF : st.frames = F := by have := sim.frames; omega
  have hstR : st.rpos = R := by have := sim.rpos hw; omega
  -- the answer, in list form, for both modes that can read
  suffices key : ∃ d : Nat, d = min m (F - R) ∧
      (stepRead h s ty fc n).2.2.ret = callCount h fc d ∧ (stepRead h s ty fc n).2.2.err = 0 ∧
      (stepRead h s ty fc n).2.2.data.length = m * h.ch ∧
      (h.enc.decodeAll h.conv ty (dataRegion h s)).length = F * h.ch ∧
      (F ≤ R → (stepRead h s ty fc n).2.2.data = List.replicate (m * h.ch) 0) ∧
      (0 < d → (stepRead h s ty fc n).2.2.data.take (d * h.ch) =
        ((h.enc.decodeAll h.conv ty (dataRegion h s)).drop (R * h.ch)).take (d * h.ch)) ∧
      BInv (stepRead h s ty fc n).1 (stepRead h s ty fc n).2.1 by
    obtain ⟨d, hd, hret, herr, hlen, hil, hzero, hdat, bi'⟩ := key
    have hrp : (stepRead h s ty fc n).1.rpos = h.rpos + d := by
      obtain ⟨_, _, _, _, e5, _⟩ := read_contract_any h s ty fc n hi
      rw [e5, hret, framesOf_callCount h fc d hch]
    refine ⟨{ st with rpos := st.rpos + d, err := false }, ?_, sim_after_read h s st ty fc n d false hi sim hrp, bi'⟩
    exact read_accept g st ty fc n m d F R h.ch _ _ gf.ch hch gf.tailClean hstm hstF hstR hnm' hm0 hd
      (by rw [hret]; rfl) herr hlen hil hzero hdat (fun hv => sim.ref hw ty hv)
  rcases mode_cases h.mode with hm | hm | hm
  · -- read-only handle: C05.read_contract_rmode
    have hr := hi.rd hm
    have hle : R ≤ F := by have := hr.rpos_le; omega
    have hcov := hr.covers
    have hoff := hi.off_nn
    obtain ⟨O, hO⟩ := Int.eq_ofNat_of_zero_le hoff
    have hDlen : (dataRegion h s).length = F * h.bw := by
      unfold dataRegion
      rw [List.length_take, List.length_drop, hF, hO, Int.toNat_natCast, Int.toNat_natCast]
      rw [hF, hO] at hcov
      have : O + F * h.bw ≤ s.bytes.length := by
        have : ((O + F * h.bw : Nat) : Int) ≤ (s.bytes.length : Int) := by push_cast; exact hcov
        exact Int.ofNat_le.mp this
      omega
    have hil := items_length h s ty F hnb hDlen
    have hbi' : BInv (stepRead h s ty fc n).1 (stepRead h s ty fc n).2.1 := by
      obtain ⟨f1, _, _, _, _, f6, _⟩ := stepRead_frames h s ty fc n hi
      exact ⟨HInv_stepRead h s ty fc n hi, by rw [f1]; exact bi.frames_nn, fun hx => by rw [f6, hm] at hx; cases hx⟩
    by_cases he : h.frames ≤ h.rpos
    · have hRF : R = F := by omega
      refine ⟨0, by omega, ?_, ?_, ?_, hil, fun _ => ?_, fun hc => absurd hc (by omega), hbi'⟩
      all_goals rw [stepRead_eof h s ty fc n hn hw ha he]
      · unfold callCount; cases fc <;> simp
      · show (List.replicate _ 0).length = _
        rw [List.length_replicate, hreq, Int.toNat_natCast]
      · show List.replicate _ 0 = _
        rw [hreq, Int.toNat_natCast]
    · obtain ⟨m', d, hl', hd', hret, _, herr, hlen, hdat⟩ := read_rmode_full h s ty fc n hi hm hn ha
      have hmm : m' = m := by
        have e : (m' : Int) * (h.ch : Int) = ((m * h.ch : Nat) : Int) := by rw [← hl', hreq]
        have e2 : m' * h.ch = m * h.ch := by
          have : ((m' * h.ch : Nat) : Int) = ((m * h.ch : Nat) : Int) := by push_cast; push_cast at e; exact e
          exact Int.ofNat.inj this
        exact Nat.eq_of_mul_eq_mul_right hch e2
      subst hmm
      have hdn : d = min m' (F - R) := by omega
      refine ⟨d, hdn, ?_, herr, hlen, hil, fun hx => absurd hx (by omega), fun _ => ?_, hbi'⟩
      · rw [hret]; unfold callCount; cases fc <;> simp
      · rw [hdat, hR, Int.toNat_natCast]
        -- the decoded data region is the first `F·ch` items of the item stream
        have hds : h.enc.decodeAll h.conv ty (dataRegion h s) = (itemStream h s.bytes ty).take (F * h.ch) := by
          unfold dataRegion itemStream
          rw [Enc.decodeAll_take _ _ _ hnb, hF, Int.toNat_natCast]
          unfold H.bw
          rw [Nat.mul_comm h.enc.nbytes, ← Nat.mul_assoc, Nat.mul_div_cancel _ hnb]
        rw [hds, take_drop_take _ _ _ _ (by rw [← Nat.add_mul]; exact Nat.mul_le_mul_right _ (by omega))]
  · exact absurd hm hw
  · -- read/write handle: the RDWR refinement step
    have inv := bi.rw hm
    obtain ⟨R', W, F', hdr, D, v⟩ := inv
    have hRR : R' = R := by have := v.rpos; omega
    have hFF : F' = F := by have := v.frames; omega
    subst hRR; subst hFF
    have step := rdwr_step h s (.read ty fc m) ⟨R', W, F', hdr, D, v⟩ trivial
    simp only [ROp.toOp, stepAny, ROp.outOk, ← hnm] at step
    obtain ⟨⟨hret, hrest⟩, inv', habs⟩ := step
    obtain ⟨herr, hdata⟩ := hrest hm0
    rw [v.abs] at hret hdata
    simp only [AbsFile.read] at hret hdata
    have hbw := v.bw_pos
    have hfr : ((groups h.bw D).drop R').take m = groups h.bw ((D.drop (R' * h.bw)).take (m * h.bw)) := by
      rw [groups_take' _ hbw, Nat.mul_div_cancel _ hbw, groups_drop _ hbw]
    have hgl : ((D.drop (R' * h.bw)).take (m * h.bw)).length = min m (F' - R') * h.bw := by
      rw [List.length_take, List.length_drop, v.dlen, ← Nat.sub_mul]
      rcases Nat.le_total m (F' - R') with hle | hle
      · rw [Nat.min_eq_left hle, Nat.min_eq_left (Nat.mul_le_mul_right _ hle)]
      · rw [Nat.min_eq_right hle, Nat.min_eq_right (Nat.mul_le_mul_right _ hle)]
    have hgotlen : (((groups h.bw D).drop R').take m).length = min m (F' - R') := by
      rw [hfr, groups_length' _ hbw, hgl, Nat.mul_div_cancel _ hbw]
    have hflat : (((groups h.bw D).drop R').take m).flatten = (D.drop (R' * h.bw)).take (m * h.bw) := by
      rw [hfr, groups_join _ hbw _ _ hgl]
    have hDR : dataRegion h s = D := v.dataRegion
    have hil : (h.enc.decodeAll h.conv ty (dataRegion h s)).length = F' * h.ch :=
      items_length h s ty F' hnb (by rw [hDR]; exact v.dlen)
    -- the items the call decoded
    have e1 : R' * h.bw = (R' * h.ch) * h.enc.nbytes := by unfold H.bw; rw [Nat.mul_comm h.enc.nbytes, Nat.mul_assoc]
    have e2 : m * h.bw / h.enc.nbytes = m * h.ch := by
      unfold H.bw; rw [Nat.mul_comm h.enc.nbytes, ← Nat.mul_assoc, Nat.mul_div_cancel _ hnb]
    have hdec : h.enc.decodeAll h.conv ty ((D.drop (R' * h.bw)).take (m * h.bw)) =
        ((h.enc.decodeAll h.conv ty D).drop (R' * h.ch)).take (m * h.ch) := by
      rw [Enc.decodeAll_take _ _ _ hnb, e2, e1, Enc.decodeAll_drop _ _ _ hnb]
    have hdl : (h.enc.decodeAll h.conv ty ((D.drop (R' * h.bw)).take (m * h.bw))).length = min m (F' - R') * h.ch := by
      rw [Enc.decodeAll_length _ _ _ hnb, hgl]
      unfold H.bw; rw [Nat.mul_comm h.enc.nbytes, ← Nat.mul_assoc, Nat.mul_div_cancel _ hnb]
    have hbi' : BInv (stepRead h s ty fc n).1 (stepRead h s ty fc n).2.1 := by
      obtain ⟨f1, _, _, _, _, f6, _⟩ := stepRead_frames h s ty fc n hi
      exact ⟨HInv_stepRead h s ty fc n hi, by rw [f1]; exact bi.frames_nn, fun _ => inv'⟩
    rw [hgotlen] at hret hdata
    rw [hflat] at hdata
    have hdm : min m (F' - R') ≤ m := Nat.min_le_left _ _
    refine ⟨min m (F' - R'), rfl, hret, herr, ?_, hil, fun hle => ?_, fun hdp => ?_, hbi'⟩
    · rw [hdata, List.length_append, hdl, List.length_replicate, ← Nat.add_mul]
      congr 1; omega
    · have hd0 : min m (F' - R') = 0 := by omega
      have hlt : ¬ R' < (groups h.bw D).length := by rw [v.nframes]; omega
      have hnil : h.enc.decodeAll h.conv ty ((D.drop (R' * h.bw)).take (m * h.bw)) = [] :=
        List.eq_nil_of_length_eq_zero (by rw [hdl, hd0, Nat.zero_mul])
      rw [hdata, hnil, hd0, if_neg hlt]
      simp
    · rw [hdata, List.take_left' hdl, hdec, hDR]
      apply take_min_len
      rw [List.length_drop, Enc.decodeAll_length _ _ _ hnb, v.dlen]
      have : F' * h.bw / h.enc.nbytes = F' * h.ch := by
        unfold H.bw; rw [Nat.mul_comm h.enc.nbytes, ← Nat.mul_assoc, Nat.mul_div_cancel _ hnb]
      rw [this, ← Nat.sub_mul]
      rcases Nat.le_total m (F' - R') with hle | hle
      · rw [Nat.min_eq_left hle]
      · rw [Nat.min_eq_right hle, Nat.min_self, Nat.min_eq_right (Nat.mul_le_mul_right _ hle)]

end Sf.AbsBridge
