/-
  OKI/VOX: the pair encoder composes over concatenation at even positions; `vox_write_block` on an even number
  of samples is the pair encoder on all of them (helper lemmas for C07Block).
-/
import SfModel.Oki
namespace Sf.Block.Proofs
open Sf

theorem encPairs_nil (st : Oki.St) : Oki.encPairs st [] = (st, []) := by
  unfold Oki.encPairs; rfl

theorem encPairs_cons2 (st : Oki.St) (a b : Int) (rest : List Int) :
    Oki.encPairs st (a :: b :: rest) =
      ((Oki.encPairs (Oki.encode (Oki.encode st a).1 b).1 rest).1,
       ((Oki.encode st a).2 * 16 + (Oki.encode (Oki.encode st a).1 b).2) % 256 ::
         (Oki.encPairs (Oki.encode (Oki.encode st a).1 b).1 rest).2) := by
  rw [Oki.encPairs]

theorem encPairs_append : ∀ (xs : List Int) (st : Oki.St) (ys : List Int), xs.length % 2 = 0 →
    Oki.encPairs st (xs ++ ys) =
      ((Oki.encPairs (Oki.encPairs st xs).1 ys).1, (Oki.encPairs st xs).2 ++ (Oki.encPairs (Oki.encPairs st xs).1 ys).2)
  | [], st, ys, _ => by rw [encPairs_nil]; rfl
  | [_], _, _, h => by simp at h
  | a :: b :: rest, st, ys, h => by
    have ih := encPairs_append rest (Oki.encode (Oki.encode st a).1 b).1 ys (by simp at h; omega)
    rw [List.cons_append, List.cons_append, encPairs_cons2, encPairs_cons2, ih]
    rfl

/-- `vox_write_block` before the repair of KF-VOX-ODD, on an even number of samples: the pair encoder over all of them,
    the count exact -/
theorem writeBlockOld_even : ∀ (fuel : Nat) (st : Oki.St) (xs : List Int), xs.length % 2 = 0 → xs.length < fuel →
    Oki.writeBlockOld fuel st xs xs.length = ((Oki.encPairs st xs).1, (Oki.encPairs st xs).2, xs.length) := by
  intro fuel
  induction fuel with
  | zero => intro st xs _ h; omega
  | succ fuel ih =>
    intro st xs he hf
    unfold Oki.writeBlockOld
    by_cases hn : xs.length = 0
    · have : xs = [] := List.length_eq_zero_iff.mp hn
      subst this
      simp [encPairs_nil]
    · simp only [hn, if_false]
      have hne : ¬ (min 512 xs.length % 2 = 1) := by omega
      simp only [hne, if_false]
      have hdl : (xs.drop (min 512 xs.length)).length = xs.length - min 512 xs.length := List.length_drop
      have h1 := ih (Oki.encPairs st (xs.take (min 512 xs.length))).1 (xs.drop (min 512 xs.length))
        (by rw [hdl]; omega) (by rw [hdl]; omega)
      rw [hdl] at h1
      have hap := encPairs_append (xs.take (min 512 xs.length)) st (xs.drop (min 512 xs.length))
        (by rw [List.length_take]; omega)
      rw [List.take_append_drop] at hap
      simp only [h1, hap]
      congr 2
      omega

end Sf.Block.Proofs
