/-
  SfProofs.Codec — lemmas about the sample-granular codecs of SfModel.Pcm:
  every encode yields `nbytes` bytes, `groups` undoes a `flatMap` of fixed-width pieces,
  `encodeAll` is a monoid homomorphism, per-sample and per-stream round trips.
-/
import SfModel.Pcm
import SfProofs.Bytes
namespace Sf
open Sf.Float

/-! ## `groups` -/

theorem groupsAux_flatten {α} (n : Nat) (hn : 0 < n) :
    ∀ (xs : List (List α)) (fuel : Nat), (∀ x ∈ xs, x.length = n) → xs.length ≤ fuel →
      groupsAux n fuel xs.flatten = xs := by
  intro xs
  induction xs with
  | nil =>
    intro fuel _ _
    cases fuel with
    | zero => rfl
    | succ f => simp [groupsAux]
  | cons x xs ih =>
    intro fuel hx hf
    cases fuel with
    | zero => simp at hf
    | succ f =>
      have hxl : x.length = n := hx x (by simp)
      have htake : (x ++ xs.flatten).take n = x := by
        rw [← hxl]; simp
      have hdrop : (x ++ xs.flatten).drop n = xs.flatten := by
        rw [← hxl]; simp
      simp only [List.flatten_cons, groupsAux, htake, hdrop]
      have : ¬ (x.length < n ∨ n = 0) := by omega
      rw [if_neg this, ih f (fun y hy => hx y (by simp [hy])) (by simpa using hf)]

/-- a concatenation of `n`-byte pieces splits back into the pieces -/
theorem groups_flatten {α} (n : Nat) (hn : 0 < n) (xs : List (List α)) (h : ∀ x ∈ xs, x.length = n) :
    groups n xs.flatten = xs := by
  unfold groups
  apply groupsAux_flatten n hn xs _ h
  have : xs.flatten.length = n * xs.length := by
    induction xs with
    | nil => simp
    | cons x xs ih =>
      simp only [List.flatten_cons, List.length_append, List.length_cons]
      rw [ih (fun y hy => h y (by simp [hy])), h x (by simp), Nat.mul_add]; omega
  rw [this]
  exact Nat.le_mul_of_pos_left _ hn

theorem groups_flatMap {α β} (n : Nat) (hn : 0 < n) (f : β → List α) (vs : List β)
    (h : ∀ v ∈ vs, (f v).length = n) : groups n (vs.flatMap f) = vs.map f := by
  rw [List.flatMap_def]
  apply groups_flatten n hn
  intro x hx
  simp only [List.mem_map] at hx
  obtain ⟨v, hv, rfl⟩ := hx
  exact h v hv

/-! ## every encoded sample has exactly `nbytes` bytes -/

theorem PcmFmt.encCode_length (p : PcmFmt) (c : Int) : (p.encCode c).length = p.nbytes := by
  unfold PcmFmt.encCode
  simp only
  split <;> simp [beBytes_length, leBytes_length]

theorem Enc.encode_length_cw (e : Enc) (c : Conv) (ty : Ty) (v : Int) : (e.encode c ty v).length = e.nbytes := by
  cases e with
  | pcm p => simp [Enc.encode, Enc.nbytes, PcmFmt.encCode_length]
  | flt big => cases big <;> simp [Enc.encode, Enc.nbytes, beBytes_length, leBytes_length]
  | dbl big => cases big <;> simp [Enc.encode, Enc.nbytes, beBytes_length, leBytes_length]
  | ulaw => simp [Enc.encode, Enc.nbytes]
  | alaw => simp [Enc.encode, Enc.nbytes]

theorem Enc.encodeAll_length_cw (e : Enc) (c : Conv) (ty : Ty) (vs : List Int) :
    (e.encodeAll c ty vs).length = vs.length * e.nbytes := by
  unfold Enc.encodeAll
  induction vs with
  | nil => simp
  | cons v vs ih => simp [List.flatMap_cons, ih, Enc.encode_length_cw, Nat.add_mul]; omega

/-! ## `encodeAll` distributes over concatenation (all encodings, all conversion settings) -/

theorem Enc.encodeAll_nil (e : Enc) (c : Conv) (ty : Ty) : e.encodeAll c ty [] = [] := rfl

theorem Enc.encodeAll_append (e : Enc) (c : Conv) (ty : Ty) (xs ys : List Int) :
    e.encodeAll c ty (xs ++ ys) = e.encodeAll c ty xs ++ e.encodeAll c ty ys := by
  simp [Enc.encodeAll, List.flatMap_append]

theorem Enc.encodeAll_flatten (e : Enc) (c : Conv) (ty : Ty) (xss : List (List Int)) :
    e.encodeAll c ty xss.flatten = (xss.map (e.encodeAll c ty)).flatten := by
  induction xss with
  | nil => rfl
  | cons x xs ih => simp [Enc.encodeAll_append, ih]

/-- decoding splits the same way, provided the first part is a whole number of samples -/
theorem Enc.decodeAll_encodeAll_of (e : Enc) (hn : 0 < e.nbytes) (c c' : Conv) (ty : Ty) (vs : List Int)
    (h : ∀ v ∈ vs, e.decode c' ty (e.encode c ty v) = v) :
    e.decodeAll c' ty (e.encodeAll c ty vs) = vs := by
  unfold Enc.decodeAll Enc.encodeAll
  rw [groups_flatMap e.nbytes hn _ _ (fun v _ => Enc.encode_length_cw e c ty v), List.map_map]
  calc vs.map (e.decode c' ty ∘ e.encode c ty) = vs.map id :=
        List.map_congr_left (fun v hv => by simpa using h v hv)
    _ = vs := by simp

end Sf

namespace Sf
open Sf.Float

/-! ## lossless pairs -/

/-- the PCM layouts libsndfile has: 8/16/24/32 bit, unsigned only for 8 bit (same predicate as `C02.PcmFmt.valid`) -/
def PcmFmt.wf (p : PcmFmt) : Prop := (p.w = 8 ∨ p.w = 16 ∨ p.w = 24 ∨ p.w = 32) ∧ (p.unsigned = true → p.w = 8)

instance (p : PcmFmt) : Decidable p.wf := by unfold PcmFmt.wf; infer_instance

def Enc.wf : Enc → Prop
  | .pcm p => p.wf
  | _ => True

instance (e : Enc) : Decidable e.wf := by unfold Enc.wf; split <;> infer_instance

/-- the caller's value is a value of its C type: a short, an int, or a 32/64-bit pattern -/
def Ty.inRange : Ty → Int → Prop
  | .s16, v => -32768 ≤ v ∧ v ≤ 32767
  | .s32, v => -2147483648 ≤ v ∧ v ≤ 2147483647
  | .f32, v => 0 ≤ v ∧ v < 2 ^ 32
  | .f64, v => 0 ≤ v ∧ v < 2 ^ 64

instance (ty : Ty) (v : Int) : Decidable (ty.inRange v) := by unfold Ty.inRange; split <;> infer_instance

/-- C01's side condition: the (encoding, caller type, value) triple is lossless.
    * integer PCM of width `w` with a caller integer type of width `W`: `w ≥ W`, or the low `W − w` bits of the
      value are zero (this covers unsigned 8-bit PCM);
    * float into binary32 data, double into binary64 data: always (every bit pattern, NaNs included);
    * float into binary64 data: finite values (widening is exact; a signalling NaN would come back quiet). -/
def lossless : Enc → Ty → Int → Prop
  | .pcm p, .s16, v => 16 ≤ p.w ∨ v % 2 ^ (16 - p.w) = 0
  | .pcm p, .s32, v => 32 ≤ p.w ∨ v % 2 ^ (32 - p.w) = 0
  | .flt _, .f32, _ => True
  | .dbl _, .f64, _ => True
  | .dbl _, .f32, v => f32.isFinite v.toNat = true
  | _, _, _ => False

instance (e : Enc) (ty : Ty) (v : Int) : Decidable (lossless e ty v) := by
  unfold lossless; split <;> infer_instance

/-! ## per-sample round trips -/

theorem pcm_s16_roundtrip (p : PcmFmt) (hp : p.wf) (v : Int) (hv : -32768 ≤ v ∧ v ≤ 32767)
    (hl : 16 ≤ p.w ∨ v % 2 ^ (16 - p.w) = 0) : p.toS16 (p.decCode (p.encCode (p.ofS16 v))) = v := by
  obtain ⟨hw, hu⟩ := hp
  unfold PcmFmt.toS16 PcmFmt.decCode PcmFmt.encCode PcmFmt.ofS16 PcmFmt.nbytes
  cases hb : p.big <;> cases hs : p.unsigned <;> simp only [hb, hs] at * <;>
    rcases hw with h | h | h | h <;>
    simp [h, ofBE_beBytes, ofLE_leBytes, wrapU, sext, wrapS, asr] at * <;> omega

theorem pcm_s32_roundtrip (p : PcmFmt) (hp : p.wf) (v : Int) (hv : -2147483648 ≤ v ∧ v ≤ 2147483647)
    (hl : 32 ≤ p.w ∨ v % 2 ^ (32 - p.w) = 0) : p.toS32 (p.decCode (p.encCode (p.ofS32 v))) = v := by
  obtain ⟨hw, hu⟩ := hp
  unfold PcmFmt.toS32 PcmFmt.decCode PcmFmt.encCode PcmFmt.ofS32 PcmFmt.nbytes
  cases hb : p.big <;> cases hs : p.unsigned <;> simp only [hb, hs] at * <;>
    rcases hw with h | h | h | h <;>
    simp [h, ofBE_beBytes, ofLE_leBytes, wrapU, sext, wrapS, asr] at * <;> omega

end Sf

namespace Sf
open Sf.Float

/-- The one floating-point fact C01 needs (p-float's territory, taken as an explicit hypothesis where used):
    widening a finite binary32 pattern gives a binary64 pattern that narrows back to it. -/
def WidenExact : Prop :=
  ∀ b : Nat, b < 2 ^ 32 → f32.isFinite b = true → f32to64 b < 2 ^ 64 ∧ f64to32 (f32to64 b) = b

theorem bytes4_roundtrip (big : Bool) (b : Nat) (hb : b < 2 ^ 32) :
    (if big then ofBE (if big then beBytes 4 b else leBytes 4 b) else ofLE (if big then beBytes 4 b else leBytes 4 b)) = b := by
  cases big <;> simp [ofBE_beBytes, ofLE_leBytes] <;> omega

theorem bytes8_roundtrip (big : Bool) (b : Nat) (hb : b < 2 ^ 64) :
    (if big then ofBE (if big then beBytes 8 b else leBytes 8 b) else ofLE (if big then beBytes 8 b else leBytes 8 b)) = b := by
  cases big <;> simp [ofBE_beBytes, ofLE_leBytes] <;> omega

/-- One sample, written with settings `c` and read back with (possibly different) settings `c'`:
    no conversion flag (norm, clip, scale, lrint variant) takes part in a lossless pair. -/
theorem Enc.sample_roundtrip_core (e : Enc) (he : e.wf) (c c' : Conv) (ty : Ty) (v : Int)
    (hv : ty.inRange v) (hl : lossless e ty v)
    (hwiden : ((∃ big, e = .dbl big) ∧ ty = .f32) → WidenExact) : e.decode c' ty (e.encode c ty v) = v := by
  cases e with
  | pcm p =>
    cases ty with
    | s16 => exact pcm_s16_roundtrip p he v hv hl
    | s32 => exact pcm_s32_roundtrip p he v hv hl
    | f32 => exact absurd hl (by simp [lossless])
    | f64 => exact absurd hl (by simp [lossless])
  | flt big =>
    cases ty with
    | f32 =>
      obtain ⟨h0, h1⟩ := hv
      have hb : v.toNat < 2 ^ 32 := by omega
      simp only [Enc.decode, Enc.encode]
      rw [bytes4_roundtrip big _ hb]; omega
    | s16 => exact absurd hl (by simp [lossless])
    | s32 => exact absurd hl (by simp [lossless])
    | f64 => exact absurd hl (by simp [lossless])
  | dbl big =>
    cases ty with
    | f64 =>
      obtain ⟨h0, h1⟩ := hv
      have hb : v.toNat < 2 ^ 64 := by omega
      simp only [Enc.decode, Enc.encode]
      rw [bytes8_roundtrip big _ hb]; omega
    | f32 =>
      obtain ⟨h0, h1⟩ := hv
      have hb : v.toNat < 2 ^ 32 := by omega
      obtain ⟨hlt, hrt⟩ := hwiden ⟨⟨big, rfl⟩, rfl⟩ v.toNat hb hl
      simp only [Enc.decode, Enc.encode]
      rw [bytes8_roundtrip big _ hlt, hrt]; omega
    | s16 => exact absurd hl (by simp [lossless])
    | s32 => exact absurd hl (by simp [lossless])
  | ulaw => exact absurd hl (by simp [lossless])
  | alaw => exact absurd hl (by simp [lossless])

/-- the same without the float hypothesis, for every pair except float-into-binary64 -/
theorem Enc.sample_roundtrip_nowiden (e : Enc) (he : e.wf) (c c' : Conv) (ty : Ty) (v : Int)
    (hv : ty.inRange v) (hl : lossless e ty v) (hne : ¬ ((∃ big, e = .dbl big) ∧ ty = .f32)) :
    e.decode c' ty (e.encode c ty v) = v :=
  Enc.sample_roundtrip_core e he c c' ty v hv hl (fun h => absurd h hne)

theorem Enc.sample_roundtrip (hwiden : WidenExact) (e : Enc) (he : e.wf) (c c' : Conv) (ty : Ty) (v : Int)
    (hv : ty.inRange v) (hl : lossless e ty v) : e.decode c' ty (e.encode c ty v) = v :=
  Enc.sample_roundtrip_core e he c c' ty v hv hl (fun _ => hwiden)

end Sf
