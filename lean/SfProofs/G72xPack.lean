/-
  `pack_bytes` / `unpack_bytes` of src/G72x/g72x.c as arithmetic: the packer writes the little-endian bytes of the
  number whose base-2^bits digits are the codes, the unpacker reads the base-2^bits digits of the number whose
  little-endian bytes it is given.  Hence `unpack (pack codes) = codes` for whole blocks.  Helpers for
  SfProps/C05G72x.lean.
-/
import SfProofs.G72x
import Mathlib.Tactic.Ring
namespace Sf.G72x.Proofs
open Sf Sf.G72x

/-- the number with base-2^bits digits `cs` (least significant first) -/
def valC (bits : Nat) : List Nat → Nat
  | [] => 0
  | c :: cs => c + 2 ^ bits * valC bits cs

/-- the `k` least significant base-2^bits digits of `x` -/
def digitsC (bits : Nat) : Nat → Nat → List Nat
  | 0, _ => []
  | k + 1, x => (x % 2 ^ bits) :: digitsC bits k (x / 2 ^ bits)

theorem digits_valC (bits : Nat) : ∀ (cs : List Nat), (∀ c ∈ cs, c < 2 ^ bits) → digitsC bits cs.length (valC bits cs) = cs := by
  intro cs
  induction cs with
  | nil => intro _; rfl
  | cons c cs ih =>
    intro h
    have hc : c < 2 ^ bits := h c (by simp)
    have hp : 0 < 2 ^ bits := Nat.two_pow_pos bits
    simp only [List.length_cons, digitsC, valC]
    rw [Nat.add_mul_mod_self_left, Nat.mod_eq_of_lt hc, Nat.add_mul_div_left _ _ hp, Nat.div_eq_of_lt hc, Nat.zero_add,
      ih (fun d hd => h d (by simp [hd]))]

theorem or_shift (buf c nb : Nat) (h : buf < 2 ^ nb) : buf ||| (c <<< nb) = buf + c * 2 ^ nb := by
  rw [Nat.or_comm, ← Nat.shiftLeft_add_eq_or_of_lt h, Nat.shiftLeft_eq, Nat.add_comm]

/-- what the packer still holds after the codes `cs` -/
def packEnd (bits : Nat) (buf nb : Nat) : List Nat → Nat × Nat
  | [] => (buf, nb)
  | c :: cs =>
    let buf1 := buf ||| (c <<< nb)
    let nb1 := nb + bits
    if nb1 ≥ 8 then packEnd bits (buf1 >>> 8) (nb1 - 8) cs else packEnd bits buf1 nb1 cs

/-- the packer as arithmetic: bytes out (little endian) + what is still pending = pending before + the codes' number -/
theorem pack_value (bits : Nat) (hb : bits ≤ 8) : ∀ (cs : List Nat) (buf nb : Nat), buf < 2 ^ nb → nb < 8 → (∀ c ∈ cs, c < 2 ^ bits) →
    ofLE (packLoop bits buf nb cs) + 256 ^ (packLoop bits buf nb cs).length * (packEnd bits buf nb cs).1 = buf + 2 ^ nb * valC bits cs ∧
    (packEnd bits buf nb cs).1 < 2 ^ (packEnd bits buf nb cs).2 ∧ (packEnd bits buf nb cs).2 = (nb + bits * cs.length) % 8 := by
  intro cs
  induction cs with
  | nil =>
    intro buf nb h h8 _
    simp only [packLoop, packEnd, ofLE, valC, List.length_nil]
    refine ⟨by omega, h, by omega⟩
  | cons c cs ih =>
    intro buf nb h h8 hc
    have hc0 : c < 2 ^ bits := hc c (by simp)
    have hcs : ∀ d ∈ cs, d < 2 ^ bits := fun d hd => hc d (by simp [hd])
    have hbuf1 : buf + c * 2 ^ nb < 2 ^ (nb + bits) := by
      rw [Nat.pow_add]
      have : c * 2 ^ nb ≤ (2 ^ bits - 1) * 2 ^ nb := Nat.mul_le_mul_right _ (by omega)
      have h2 : (2 ^ bits - 1) * 2 ^ nb = 2 ^ nb * 2 ^ bits - 2 ^ nb := by
        rw [Nat.sub_mul, Nat.one_mul, Nat.mul_comm]
      have h3 : 2 ^ nb ≤ 2 ^ nb * 2 ^ bits := Nat.le_mul_of_pos_right _ (Nat.two_pow_pos bits)
      omega
    simp only [packLoop, packEnd, List.length_cons, valC]
    rw [or_shift buf c nb h]
    by_cases h88 : nb + bits ≥ 8
    · rw [if_pos h88, if_pos h88, Nat.shiftRight_eq_div_pow]
      have hdiv : (buf + c * 2 ^ nb) / 2 ^ 8 < 2 ^ (nb + bits - 8) := by
        apply Nat.div_lt_of_lt_mul
        rw [← Nat.pow_add]
        have : 8 + (nb + bits - 8) = nb + bits := by omega
        rw [this]; exact hbuf1
      obtain ⟨i1, i2, i3⟩ := ih ((buf + c * 2 ^ nb) / 2 ^ 8) (nb + bits - 8) hdiv (by omega) hcs
      refine ⟨?_, i2, by rw [i3, Nat.mul_succ]; omega⟩
      simp only [ofLE, List.length_cons]
      have hsplit : buf + c * 2 ^ nb = (buf + c * 2 ^ nb) % 256 + 256 * ((buf + c * 2 ^ nb) / 2 ^ 8) := by
        have : (2 : Nat) ^ 8 = 256 := by decide
        rw [this]; exact (Nat.mod_add_div _ _).symm
      have hpow : (2 : Nat) ^ (nb + bits) = 256 * 2 ^ (nb + bits - 8) := by
        have : nb + bits = 8 + (nb + bits - 8) := by omega
        conv => lhs; rw [this, Nat.pow_add]
      have e : ((buf + c * 2 ^ nb) % 256 + 256 * ofLE (packLoop bits ((buf + c * 2 ^ nb) / 2 ^ 8) (nb + bits - 8) cs)) +
          256 ^ ((packLoop bits ((buf + c * 2 ^ nb) / 2 ^ 8) (nb + bits - 8) cs).length + 1) *
            (packEnd bits ((buf + c * 2 ^ nb) / 2 ^ 8) (nb + bits - 8) cs).1 =
          (buf + c * 2 ^ nb) % 256 + 256 * (ofLE (packLoop bits ((buf + c * 2 ^ nb) / 2 ^ 8) (nb + bits - 8) cs) +
            256 ^ (packLoop bits ((buf + c * 2 ^ nb) / 2 ^ 8) (nb + bits - 8) cs).length *
              (packEnd bits ((buf + c * 2 ^ nb) / 2 ^ 8) (nb + bits - 8) cs).1) := by ring
      rw [e, i1]
      have e2 : buf + 2 ^ nb * (c + 2 ^ bits * valC bits cs) = (buf + c * 2 ^ nb) + 2 ^ (nb + bits) * valC bits cs := by
        rw [Nat.pow_add]; ring
      rw [e2, hpow]
      conv => rhs; rw [hsplit]
      ring
    · rw [if_neg h88, if_neg h88]
      obtain ⟨i1, i2, i3⟩ := ih (buf + c * 2 ^ nb) (nb + bits) hbuf1 (by omega) hcs
      refine ⟨?_, i2, by rw [i3, Nat.mul_succ]; omega⟩
      rw [i1, Nat.pow_add]; ring

theorem packLoop_bytes (bits : Nat) : ∀ (cs : List Nat) (buf nb : Nat), ∀ b ∈ packLoop bits buf nb cs, b < 256 := by
  intro cs
  induction cs with
  | nil => intro buf nb b hb; simp [packLoop] at hb
  | cons c cs ih =>
    intro buf nb b hb
    simp only [packLoop] at hb
    split at hb
    · rcases List.mem_cons.mp hb with h | h
      · rw [h]; exact Nat.mod_lt _ (by decide)
      · exact ih _ _ b h
    · exact ih _ _ b hb

/-- the unpacker as arithmetic: it reads the base-2^bits digits of pending + 2^nb · (the bytes' number) -/
theorem unpack_value (bits : Nat) (hb1 : 1 ≤ bits) (hb : bits ≤ 8) : ∀ (k buf nb : Nat) (bs : List Nat), buf < 2 ^ nb →
    (∀ b ∈ bs, b < 256) → bits * k ≤ nb + 8 * bs.length →
    unpackLoop bits k buf nb bs = digitsC bits k (buf + 2 ^ nb * ofLE bs) := by
  intro k
  induction k with
  | zero => intro buf nb bs _ _ _; rfl
  | succ k ih =>
    intro buf nb bs h hbs hlen
    have hp : 0 < 2 ^ bits := Nat.two_pow_pos bits
    simp only [unpackLoop, digitsC]
    by_cases hlt : nb < bits
    · rw [if_pos hlt]
      simp only
      match bs, hbs, hlen with
      | [], _, hlen => simp at hlen; rw [Nat.mul_succ] at hlen; omega
      | b0 :: bs', hbs, hlen =>
        have hb0 : @LT.lt Nat _ b0 256 := hbs b0 (by simp)
        have hbs' : ∀ b ∈ bs', b < 256 := fun b hb => hbs b (by simp [hb])
        simp only [List.headD_cons, List.tail_cons, ofLE, List.length_cons] at hlen ⊢
        rw [or_shift buf b0 nb h]
        have hx : buf + 2 ^ nb * (b0 + 256 * ofLE bs') = (buf + b0 * 2 ^ nb) + 2 ^ bits * (2 ^ (nb + 8 - bits) * ofLE bs') := by
          have : (2 : Nat) ^ bits * 2 ^ (nb + 8 - bits) = 2 ^ nb * 256 := by
            rw [← Nat.pow_add, show bits + (nb + 8 - bits) = nb + 8 by omega, Nat.pow_add]
          calc buf + 2 ^ nb * (b0 + 256 * ofLE bs') = (buf + b0 * 2 ^ nb) + (2 ^ nb * 256) * ofLE bs' := by ring
            _ = (buf + b0 * 2 ^ nb) + (2 ^ bits * 2 ^ (nb + 8 - bits)) * ofLE bs' := by rw [this]
            _ = _ := by ring
        rw [hx, Nat.add_mul_mod_self_left, Nat.add_mul_div_left _ _ hp]
        congr 1
        have hb1' : buf + b0 * 2 ^ nb < 2 ^ (nb + 8) := by
          rw [Nat.pow_add]
          have : b0 * 2 ^ nb ≤ 255 * 2 ^ nb := Nat.mul_le_mul_right _ (by omega)
          have h8 : (2 : Nat) ^ 8 = 256 := by decide
          rw [h8]; omega
        have hdiv : (buf + b0 * 2 ^ nb) / 2 ^ bits < 2 ^ (nb + 8 - bits) := by
          apply Nat.div_lt_of_lt_mul
          rw [← Nat.pow_add, show bits + (nb + 8 - bits) = nb + 8 by omega]; exact hb1'
        rw [Nat.shiftRight_eq_div_pow]
        exact ih _ _ bs' hdiv hbs' (by rw [Nat.mul_succ] at hlen; omega)
    · rw [if_neg hlt]
      simp only
      have hx : buf + 2 ^ nb * ofLE bs = buf + 2 ^ bits * (2 ^ (nb - bits) * ofLE bs) := by
        rw [← Nat.mul_assoc, ← Nat.pow_add, show bits + (nb - bits) = nb by omega]
      rw [hx, Nat.add_mul_mod_self_left, Nat.add_mul_div_left _ _ hp]
      congr 1
      have hdiv : buf / 2 ^ bits < 2 ^ (nb - bits) := by
        apply Nat.div_lt_of_lt_mul
        rw [← Nat.pow_add, show bits + (nb - bits) = nb by omega]; exact h
      rw [Nat.shiftRight_eq_div_pow]
      exact ih _ _ bs hdiv hbs (by rw [Nat.mul_succ] at hlen; omega)

end Sf.G72x.Proofs
