/-
  SfProofs.AbsChunkMeaning — what the clauses of the C13 predicate (`Sf.AbsMeta.Chunks`, SfModel/AbsMeta.lean) mean, each as an
  equivalence with the sentence of the statement in mathematical form, and the ties to the concrete model `Sf.Chunk`:
  what `Sf.Chunk.getData` (the model of *_get_chunk_data) leaves in the caller's buffer is what the `data` clause demands, and
  every refusal of the model's `accepts` is one the `set` clause allows.
-/
import SfModel.AbsMeta
import SfProofs.AbsMetaMeaning
namespace Sf.AbsMeta.Chunks
open Sf Sf.AbsMeta Sf.Chunk

/-! ## sf_set_chunk -/

/-- C13: "a chunk set after audio has been written is refused or ignored"; sndfile.h: reserved ids fail — every call returned 0,
    or returned an error for a call made after the audio or for an id the API need not accept -/
theorem setFails_nil_iff (c : CCont) : ∀ (ss : List SetChunk),
    setFails c ss = [] ↔ ∀ s ∈ ss, s.ret0 = true ∨ (s.refused = true ∧ (s.late = true ∨ mayRefuse c s.id = true))
  | [] => by simp [setFails]
  | s :: ss => by
    unfold setFails
    simp only [List.append_eq_nil_iff, setFails_nil_iff c ss, List.mem_cons, forall_eq_or_imp]
    constructor
    · rintro ⟨h1, h2⟩
      refine ⟨?_, h2⟩
      by_cases hr : s.ret0 = true
      · exact Or.inl hr
      · simp only [hr, Bool.false_eq_true, if_false] at h1
        by_cases hq : (s.refused && (s.late || mayRefuse c s.id)) = true
        · simp only [Bool.and_eq_true, Bool.or_eq_true] at hq; exact Or.inr hq
        · simp [hq] at h1
    · rintro ⟨h1, h2⟩
      refine ⟨?_, h2⟩
      rcases h1 with h | ⟨ha, hb⟩
      · simp [h]
      · by_cases hr : s.ret0 = true
        · simp [hr]
        · have : (s.refused && (s.late || mayRefuse c s.id)) = true := by simp only [Bool.and_eq_true, Bool.or_eq_true]; exact ⟨ha, hb⟩
          simp [hr, this]

/-- the chunks the file must hold are those accepted before the audio, in order -/
theorem stored_spec : ∀ (ss : List SetChunk),
    stored ss = (ss.filter fun s => s.ret0 && !s.late).map fun s => (storedId s.id, s.data)
  | [] => rfl
  | s :: ss => by
    unfold stored
    by_cases h : (s.ret0 && !s.late) = true
    · simp [h, stored_spec ss]
    · simp [h, stored_spec ss]

/-! ## one entry: size, payload, datalen -/

/-- C13: "sf_get_chunk_data copies at most the caller's datalen bytes": the expected buffer has the caller's length; its first
    min (datalen, padded size) bytes are the padded payload's, every byte behind them keeps the fill value -/
theorem wantData_spec (payload : List Byte) (buflen : Nat) :
    (wantData payload buflen).length = buflen ∧
    (wantData payload buflen).take (min buflen (pad4 payload.length)) =
      (payload ++ List.replicate (pad4 payload.length - payload.length) 0).take (min buflen (pad4 payload.length)) ∧
    ∀ b ∈ (wantData payload buflen).drop (min buflen (pad4 payload.length)), b = 0xA5 := by
  have hp : payload.length ≤ pad4 payload.length := by unfold pad4; omega
  have hfull : (payload ++ List.replicate (pad4 payload.length - payload.length) 0).length = pad4 payload.length := by
    simp; omega
  unfold wantData
  simp only [hfull]
  generalize hF : payload ++ List.replicate (pad4 payload.length - payload.length) 0 = full at hfull
  refine ⟨?_, ?_, ?_⟩
  · simp only [List.length_append, List.length_take, List.length_replicate, hfull]; omega
  · rw [List.take_append_of_le_length (by simp only [List.length_take, hfull]; omega)]
    rw [List.take_take]
    congr 1
    omega
  · intro b hb
    rw [List.drop_append_of_le_length (by simp only [List.length_take, hfull]; omega)] at hb
    rcases List.mem_append.1 hb with h | h
    · have : (List.drop (min buflen (pad4 payload.length)) (List.take buflen full)) = [] := by
        apply List.drop_eq_nil_of_le
        simp only [List.length_take, hfull]; omega
      rw [this] at h; cases h
    · exact (List.mem_replicate.1 h).2

/-- identical id, "identical size and payload bytes (padded to the container's alignment)", both calls returned 0 -/
theorem entryFails_nil_iff (e : Entry) (x : List Byte × List Byte) :
    entryFails e x = [] ↔ (e.id = x.1 ∧ e.size = pad4 x.2.length ∧ e.data = wantData x.2 e.buflen ∧ e.sizeRet = 0 ∧ e.dataRet = 0) := by
  unfold entryFails
  by_cases h1 : e.id = x.1
  · by_cases h2 : e.size = pad4 x.2.length
    · by_cases h3 : e.data = wantData x.2 e.buflen
      · by_cases h4 : e.sizeRet = 0
        · by_cases h5 : e.dataRet = 0
          · simp [h1, h2, h3, h4, h5]
          · simp [h1, h2, h3, h4, h5]
        · simp [h1, h2, h3, h4]
      · simp [h1, h2, h3]
    · simp [h1, h2]
  · simp [h1]

/-- every visited entry is the chunk that was set at that position -/
theorem entriesFail_nil_iff : ∀ (es : List Entry) (xs : List (List Byte × List Byte)), es.length = xs.length →
    (entriesFail es xs = [] ↔ ∀ p ∈ es.zip xs, entryFails p.1 p.2 = [])
  | [], [], _ => by simp [entriesFail]
  | [], _ :: _, h => by simp at h
  | _ :: _, [], h => by simp at h
  | e :: es, x :: xs, h => by
    have hl : es.length = xs.length := by simpa using h
    unfold entriesFail
    cases hf : entryFails e x with
    | nil => simp [entriesFail_nil_iff es xs hl, hf]
    | cons f fs => simp [hf]

/-! ## a complete iteration by identifier -/

/-- C13: "after re-opening each one is found by the chunk iterator functions - by identifier …  Iteration visits every stored
    chunk exactly once": an accepted iteration by an id that was set (no chunk of the container's own under that id) visited
    exactly the chunks set under it, in order, each with its padded size and payload, and ended there -/
theorem byId_meaning (r : CRecord) (chunks : List (List Byte × List Byte)) (q : List Byte) (ents : List Entry) (endN : Int)
    (hset : (chunks.map (·.1)).contains (storedId q) = true) (hown : ownCount r.own (storedId q) = 0)
    (hfree : ¬ (r.c = .caf ∧ storedId q = [102, 114, 101, 101]))
    (h : allFails r chunks (some q) ents endN = []) :
    endN = (ents.length : Int) ∧ ents.length = (chunks.filter (·.1 == storedId q)).length ∧
    ∀ p ∈ ents.zip (chunks.filter (·.1 == storedId q)),
      p.1.id = p.2.1 ∧ p.1.size = pad4 p.2.2.length ∧ p.1.data = wantData p.2.2 p.1.buflen ∧ p.1.sizeRet = 0 ∧ p.1.dataRet = 0 := by
  unfold allFails at h
  by_cases he' : ¬ endN = (ents.length : Int)
  · simp [he'] at h
  have he : endN = (ents.length : Int) := by simpa using he'
  simp only [he, bne_self_eq_false, Bool.false_eq_true, if_false, hset, Bool.not_true, hown] at h
  have hf : (r.c == .caf && storedId q == [102, 114, 101, 101] && ents.length == (chunks.filter (·.1 == storedId q)).length + 1) = false := by
    by_cases h1 : r.c = .caf
    · by_cases h2 : storedId q = [102, 114, 101, 101]
      · exact absurd ⟨h1, h2⟩ hfree
      · simp [h2]
    · simp [h1]
  simp only [hf, Bool.false_eq_true, if_false, bne_self_eq_false] at h
  by_cases hl' : ¬ ents.length = (chunks.filter (·.1 == storedId q)).length
  · simp [hl'] at h
  have hl : ents.length = (chunks.filter (·.1 == storedId q)).length := by simpa using hl'
  simp only [hl, bne_self_eq_false, Bool.false_eq_true, if_false] at h
  refine ⟨he, hl, ?_⟩
  intro p hp
  exact (entryFails_nil_iff p.1 p.2).mp ((entriesFail_nil_iff ents _ hl).mp h p hp)

/-! ## single steps: next after last is NULL -/

/-- C13 "forall iterator usage patterns (… next after last …)": on an accepted record, `sf_next_chunk_iterator` at position `pos`
    of a listing of `n` chunks returns an iterator exactly when another chunk follows — after the last one it returns NULL -/
theorem next_after_last (all : List Query) (cur : Cursor) (l : List Entry) (it : Bool) (qs : List Query)
    (hlive : cur.live = true) (href : cur.ref = some l) (h : stepFails all cur (.next it :: qs) = []) :
    it = decide (cur.pos + 1 < l.length) := by
  unfold stepFails at h
  simp only [hlive, Bool.not_true, Bool.false_eq_true, if_false, href, List.append_eq_nil_iff] at h
  have := h.1
  by_cases hq : it = decide (cur.pos + 1 < l.length)
  · exact hq
  · simp [hq] at this

/-! ## one run -/

theorem writeFails_nil_iff (m : CRun) : writeFails m = [] ↔ ∀ ret err, m.wret = some (ret, err) → ret = (m.frames : Int) ∧ err = 0 := by
  unfold writeFails
  cases h : m.wret with
  | none => simp
  | some p => obtain ⟨a, b⟩ := p; simp [ite_nil_iff]

theorem closeFails_nil_iff (m : CRun) : closeFails m = [] ↔ ∀ c, m.close = some c → c = 0 := by
  unfold closeFails
  cases h : m.close with
  | none => simp
  | some c => simp [ite_nil_iff]

/-- C13 "without disturbing audio": the read-back delivered exactly the items written and touched nothing behind them -/
theorem readFails_nil_iff (m : CRun) : readFails m = [] ↔
    ∀ rb, m.read = some rb → rb.ret = (m.frames : Int) ∧ rb.err = 0 ∧ rb.data = m.items ++ List.replicate (m.readN - m.frames) 0xA5A5 := by
  unfold readFails
  cases h : m.read with
  | none => simp
  | some rb => simp [ite_nil_iff, and_assoc]

/-- THE STATEMENT of C13 on one run, in mathematical form -/
structure CHolds (r : CRecord) (m : CRun) : Prop where
  complete : m.complete = true
  /-- every sf_set_chunk returned 0, or failed for a call after the audio / an id the API need not accept -/
  sets : ∀ s ∈ m.sets, s.ret0 = true ∨ (s.refused = true ∧ (s.late = true ∨ mayRefuse r.c s.id = true))
  wrote : ∀ ret err, m.wret = some (ret, err) → ret = (m.frames : Int) ∧ err = 0
  closed : ∀ c, m.close = some c → c = 0
  /-- the file re-opens, with the frames written, the audio untouched, every iteration as the statement says -/
  reopened : ∀ ri, m.reopen = some ri → ri.ok = true ∧ (m.wret.isSome = true → ri.frames = (m.frames : Int)) ∧
    (∀ rb, m.read = some rb → rb.ret = (m.frames : Int) ∧ rb.err = 0 ∧ rb.data = m.items ++ List.replicate (m.readN - m.frames) 0xA5A5) ∧
    (∀ q ∈ m.queries, queryFails r (stored m.sets) q = []) ∧ stepFails m.queries {} m.queries = []

/-- MEANING AND COMPLETENESS of the C13 predicate on one run -/
theorem judgeRun_nil_iff (r : CRecord) (m : CRun) : judgeRun r m = [] ↔ CHolds r m := by
  unfold judgeRun
  by_cases hc' : m.complete = false
  · simp only [hc', Bool.not_false, if_true]
    constructor
    · intro h; simp at h
    · intro h; have := h.complete; simp [hc'] at this
  have hc : m.complete = true := by simpa using hc'
  simp only [hc, Bool.not_true, Bool.false_eq_true, if_false, List.append_eq_nil_iff, setFails_nil_iff, writeFails_nil_iff, closeFails_nil_iff]
  unfold reopenFails
  cases hre : m.reopen with
  | none =>
    constructor
    · rintro ⟨⟨⟨h1, h2⟩, h3⟩, _⟩
      exact ⟨hc, h1, h2, h3, by intro ri hri; simp [hre] at hri⟩
    · intro h; exact ⟨⟨⟨h.sets, h.wrote⟩, h.closed⟩, rfl⟩
  | some ri =>
    by_cases hok' : ri.ok = false
    · simp only [hok', Bool.not_false, if_true]
      constructor
      · rintro ⟨_, h⟩; simp at h
      · intro h; have := (h.reopened ri hre).1; simp [hok'] at this
    have hok : ri.ok = true := by simpa using hok'
    unfold reopenedFails
    simp only [hok, Bool.not_true, Bool.false_eq_true, if_false, List.append_eq_nil_iff, readFails_nil_iff, flatMap_nil_iff, ite_nil_iff_not]
    constructor
    · rintro ⟨⟨⟨h1, h2⟩, h3⟩, ⟨⟨⟨h4, h5⟩, h6⟩, h7⟩⟩
      refine ⟨hc, h1, h2, h3, ?_⟩
      intro ri' hri'
      rw [hre] at hri'; cases hri'
      refine ⟨hok, ?_, h5, h6, h7⟩
      intro hw
      simp only [hw, Bool.true_and, bne_iff_ne, ne_eq, Decidable.not_not] at h4
      exact h4
    · intro h
      obtain ⟨_, a, b, c, d⟩ := h.reopened ri hre
      refine ⟨⟨⟨h.sets, h.wrote⟩, h.closed⟩, ⟨⟨⟨?_, b⟩, c⟩, d⟩⟩
      intro hbad
      simp only [Bool.and_eq_true, bne_iff_ne, ne_eq] at hbad
      exact hbad.2 (a hbad.1)

/-- **accepted_iff** for C13: the record is accepted exactly when the statement holds on the main run and (where it was made) the
    twin run without chunks reads the same audio and strings -/
theorem accepted_iff (r : CRecord) : accepted r = true ↔
    CHolds r r.main ∧ ∀ t, r.twin = some t → (r.main.reopen.map (·.ok)) = some true → twinFails r.main t = [] := by
  unfold accepted judge
  simp only [List.isEmpty_iff, List.append_eq_nil_iff, judgeRun_nil_iff]
  constructor
  · rintro ⟨h1, h2⟩
    refine ⟨h1, ?_⟩
    intro t ht hok
    simp only [ht, h1.complete, Bool.true_and, hok, beq_self_eq_true, if_true] at h2
    exact h2
  · rintro ⟨h1, h2⟩
    refine ⟨h1, ?_⟩
    cases ht : r.twin with
    | none => rfl
    | some t =>
      dsimp only
      by_cases hok : (r.main.reopen.map (·.ok)) = some true
      · simp [h1.complete, hok, h2 t ht hok]
      · simp [hok]

/-! ## ties to the concrete model Sf.Chunk -/

/-- what the model of `*_get_chunk_data` (`Sf.Chunk.getData`: `psf_fread (data, MIN (datalen, len), 1)`) leaves in a caller's
    buffer of `buflen` bytes pre-filled with 0xA5, for the read-table entry of a chunk set with `payload`, is exactly what the
    `data` clause demands: the model is never flagged by it -/
theorem model_getData_accepted (m : Mark) (off : Nat) (payload : List Byte) (buflen : Nat) :
    getData ⟨m, off, pad4 payload.length, payload ++ Sf.Chunk.zeros (pad4 payload.length - payload.length)⟩ (List.replicate buflen 0xA5)
      = wantData payload buflen := by
  have hp : payload.length ≤ pad4 payload.length := by unfold pad4; omega
  unfold getData wantData Sf.Chunk.zeros
  simp only [List.length_replicate]
  have hfull : (payload ++ List.replicate (pad4 payload.length - payload.length) 0).length = pad4 payload.length := by simp; omega
  generalize payload ++ List.replicate (pad4 payload.length - payload.length) 0 = full at hfull
  congr 1
  · by_cases hb : buflen ≤ pad4 payload.length
    · rw [Nat.min_eq_left hb]
    · rw [Nat.min_eq_right (by omega), List.take_of_length_le (by omega), List.take_of_length_le (by omega)]
  · rw [List.drop_replicate, hfull]
    congr 1
    omega

/-- every id the model's `sf_set_chunk` refuses before the audio is one the `set` clause lets it refuse: the predicate never
    raises an alarm on a refusal of the repaired library -/
theorem isPrint_false (x : Nat) (h : Sf.Chunk.isPrint x = false) : (decide (x < 0x20) || decide (x > 0x7e)) = true := by
  unfold Sf.Chunk.isPrint at h
  simp only [Bool.or_eq_true, decide_eq_true_eq]
  by_cases h1 : 32 ≤ x
  · by_cases h2 : x ≤ 126
    · simp [h1, h2] at h
    · right; omega
  · left; omega

theorem and4_false (p q r s : Bool) (h : (p && q && r && s) = false) : p = false ∨ q = false ∨ r = false ∨ s = false := by
  cases p <;> cases q <;> cases r <;> cases s <;> simp at h ⊢

theorem model_refusals_allowed (c : CCont) (id : List Byte) (h : accepts (toModel c) false id = false) : mayRefuse c id = true := by
  unfold accepts at h
  unfold mayRefuse storedId reservedIds
  by_cases hres : (reserved (toModel c)).contains (markerOf id) = true
  · have : ((reserved (toModel c)).map (·.bytes)).contains (markerOf id).bytes = true := by
      simp only [List.contains_iff_mem, List.mem_map] at hres ⊢
      exact ⟨_, hres, rfl⟩
    simp only [this, Bool.or_true, Bool.true_or]
  · have hres' : (reserved (toModel c)).contains (markerOf id) = false := by simpa using hres
    simp only [hres', Bool.not_false, Bool.and_true, Bool.true_and] at h
    have hc : (c != .caf) = true := by
      cases c <;> simp [toModel] at h ⊢
    have hpm : printableMark (markerOf id) = false := by
      cases hp : printableMark (markerOf id)
      · rfl
      · simp [hp] at h
    have hany : (markerOf id).bytes.any (fun b => decide (b < 0x20) || decide (b > 0x7e)) = true := by
      unfold printableMark at hpm
      unfold Mark.bytes
      simp only [List.any_cons, List.any_nil, Bool.or_false]
      rcases and4_false _ _ _ _ hpm with h1 | h1 | h1 | h1
      · simp [isPrint_false _ h1]
      · simp [isPrint_false _ h1]
      · simp [isPrint_false _ h1]
      · simp [isPrint_false _ h1]
    simp only [hc, hany, Bool.and_self, Bool.or_true]

end Sf.AbsMeta.Chunks
