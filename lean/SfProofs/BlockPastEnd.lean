/-
  Reads of ANY size at ANY position on a one-channel block-reader handle, through the sf_read_* wrapper and either
  staging loop (`RHandle.readBrk … true`: stop after a short piece — nms_adpcm_read_*, g72x_read_*; `RHandle.read`:
  the loop goes on after a short piece — gsm610_read_*): the call returns `min n (frames − pos)`, delivers that many
  items of the stream and zeros behind them (never more than n cells in all), and the position advances by the count.
  Built on `readLoop_general` (= `block_reader_past_end`).  Helper lemmas for SfProps/C06CodecsPastEnd.lean.
-/
import SfModel.BlockFile
import SfModel.AdpcmReader
import SfProofs.BlockReader
import SfProofs.G72xRead
namespace Sf.Block.PastEnd
open Sf Sf.Block Sf.Block.Proofs

theorem zeros_append (a b : Nat) : zeros a ++ zeros b = zeros (a + b) := by
  simp [zeros, List.replicate_append_replicate]

theorem take_zeros (a b : Nat) : (zeros a).take b = zeros (min b a) := by simp [zeros, List.take_replicate]
theorem drop_zeros (a b : Nat) : (zeros a).drop b = zeros (a - b) := by simp [zeros, List.drop_replicate]

/-- the non-breaking staging loop once the codec is at its end: every further piece is a zero-fill at offset `total` -/
theorem readChunked_eof (r : Reader) (chunk : Nat) : ∀ (fuel : Nat) (st : RState) (n : Nat) (A : List Int) (j total : Nat),
    r.pos st ≥ r.frames → A.length = total →
    ∃ j', j ≤ j' ∧ j' ≤ max j n ∧ r.readChunked chunk fuel st n (A ++ zeros j) total = (st, A ++ zeros j', total) := by
  intro fuel
  induction fuel with
  | zero => intro st n A j total _ _; exact ⟨j, Nat.le_refl _, Nat.le_max_left _ _, rfl⟩
  | succ fuel ih =>
    intro st n A j total hend hA
    unfold Reader.readChunked
    by_cases hn : n = 0
    · exact ⟨j, Nat.le_refl _, Nat.le_max_left _ _, by simp [hn]⟩
    · simp only [hn, if_false]
      generalize hrc : (if chunk = 0 then n else min chunk n) = rc
      have hrc1 : 1 ≤ rc ∧ rc ≤ n := by
        by_cases hc : chunk = 0
        · rw [if_pos hc] at hrc; omega
        · rw [if_neg hc] at hrc; omega
      have hread : r.read st rc = (st, zeros rc, 0) := readLoop_eof r rc st rc (by omega) hend
      rw [hread]
      simp only [Nat.add_zero]
      have hacc : (A ++ zeros j).take total ++ zeros rc ++ (A ++ zeros j).drop (total + rc) = A ++ zeros (max j rc) := by
        rw [List.take_left' hA, ← hA, ← List.drop_drop, List.drop_left' rfl, drop_zeros, List.append_assoc, zeros_append]
        congr 2
        omega
      rw [hacc]
      obtain ⟨j', h1, h2, h3⟩ := ih st (n - rc) A (max j rc) total hend hA
      exact ⟨j', by omega, by omega, h3⟩

/-- the non-breaking staging loop from any reader state: `t` stream items, then `k` zeros, `min n (frames − pos) ≤ t ≤ n`,
    `t + k ≤ n` -/
theorem readChunked_any (r : Reader) (wf : WF r) (hch : r.ch = 1) (chunk : Nat) :
    ∀ (fuel : Nat) (st : RState) (n : Nat) (acc : List Int) (total : Nat), Inv r st → acc.length = total → n < fuel →
    ∃ t k st', t ≤ n ∧ t + k ≤ n ∧ min n (r.frames - r.pos st) ≤ t ∧
      r.readChunked chunk fuel st n acc total = (st', acc ++ (r.slice (r.pos st) t ++ zeros k), total + t) := by
  intro fuel
  induction fuel with
  | zero => intro st n acc total _ _ h; omega
  | succ fuel ih =>
    intro st n acc total inv hacc hf
    unfold Reader.readChunked
    by_cases hn : n = 0
    · subst hn
      refine ⟨0, 0, st, Nat.le_refl _, Nat.le_refl _, by omega, ?_⟩
      simp [slice_zero, zeros]
    · simp only [hn, if_false]
      generalize hrc : (if chunk = 0 then n else min chunk n) = rc
      have hrc1 : 1 ≤ rc ∧ rc ≤ n := by
        by_cases hc : chunk = 0
        · rw [if_pos hc] at hrc; omega
        · rw [if_neg hc] at hrc; omega
      obtain ⟨t1, st1, ht1, ht2, hread, inv1, hpos1⟩ := Sf.G72x.Proofs.read_one r wf hch st inv rc
      rw [hread]
      simp only
      have hacc1 : List.take total acc ++ (r.slice (r.pos st) t1 ++ zeros (rc - t1)) ++ List.drop (total + rc) acc =
          (acc ++ r.slice (r.pos st) t1) ++ zeros (rc - t1) := by
        rw [List.take_of_length_le (by omega), List.drop_eq_nil_of_le (by omega), List.append_nil, List.append_assoc]
      rw [hacc1]
      by_cases hshort : t1 = rc
      · subst hshort
        have hlen : (acc ++ r.slice (r.pos st) t1 ++ zeros (t1 - t1)).length = total + t1 := by
          simp [slice_length, zeros, hacc]
        obtain ⟨t', k', st', h1, h2, h3, h4⟩ := ih st1 (n - t1) _ (total + t1) inv1 hlen (by omega)
        rw [h4]
        refine ⟨t1 + t', k', st', by omega, by omega, by rw [hpos1] at h3; omega, ?_⟩
        rw [hpos1, Nat.sub_self]
        simp only [zeros, List.replicate_zero, List.append_nil, List.append_assoc, slice_append, Nat.add_assoc]
      · -- a short piece: the codec is at its end, the rest of the loop zero-fills at offset total + t1
        have hend : r.pos st1 ≥ r.frames := by rw [hpos1]; omega
        have hA : (acc ++ r.slice (r.pos st) t1).length = total + t1 := by rw [List.length_append, slice_length, hacc]
        obtain ⟨j', h1, h2, h3⟩ := readChunked_eof r chunk fuel st1 (n - rc) (acc ++ r.slice (r.pos st) t1) (rc - t1) (total + t1) hend hA
        rw [h3]
        exact ⟨t1, j', st1, by omega, by omega, by omega, by rw [List.append_assoc]⟩

/-- what the clamp of sf_read_* makes of a staging-loop result `slice pos t ++ zeros k` -/
theorem clamp_result (r : Reader) (pos F n t k : Nat) (hlt : pos < F) (ht : t ≤ n) (hk : t + k ≤ n)
    (hmin : min n (F - pos) ≤ t) :
    (t ≤ F - pos → t = min n (F - pos)) ∧
    (¬ t ≤ F - pos → min n (F - pos) = F - pos ∧
      (r.slice pos t ++ zeros k).take (F - pos) ++ zeros (n - (F - pos)) = r.slice pos (F - pos) ++ zeros (n - (F - pos))) := by
  constructor
  · intro h; omega
  · intro h
    refine ⟨by omega, ?_⟩
    rw [List.take_append_of_le_length (by rw [slice_length]; omega), Sf.G72x.Proofs.slice_take r pos t (F - pos) (by omega)]

/-- **any request, breaking staging loop** (`nms_adpcm_read_*`, `g72x_read_*` shape) -/
theorem readBrk_any (h : RHandle) (wf : WF h.r) (hch : h.r.ch = 1) (inv : Inv h.r h.st) (hpos : h.r.pos h.st = h.pos)
    (hfr : h.frames ≤ h.r.frames) (q n : Nat) :
    ∃ h' k, h.readBrk q true n = (h', h.r.slice h.pos (min n (h.frames - h.pos)) ++ zeros k, min n (h.frames - h.pos)) ∧
      min n (h.frames - h.pos) + k ≤ n ∧ h'.pos = h.pos + min n (h.frames - h.pos) ∧ h'.frames = h.frames ∧ h'.r = h.r := by
  unfold RHandle.readBrk
  by_cases h0 : n = 0
  · subst h0
    exact ⟨h, 0, by simp [slice_zero, zeros], by simp, by simp, rfl, rfl⟩
  · simp only [h0, if_false]
    by_cases hend : h.pos ≥ h.frames
    · simp only [hend, if_true]
      have : h.frames - h.pos = 0 := by omega
      exact ⟨h, n, by simp [this, slice_zero], by simp [this], by simp [this], rfl, rfl⟩
    · simp only [hend, if_false]
      obtain ⟨t, k, st', ht, hk, hmin, hrun, _⟩ := Sf.G72x.Proofs.brk_spec h.r wf hch q (n + 1) h.st n [] 0 inv rfl (Nat.lt_succ_self n)
      rw [hrun]
      simp only [List.nil_append, Nat.zero_add, hch, Nat.mul_one, Nat.div_one]
      rw [hpos] at hmin
      have hmin' : min n (h.frames - h.pos) ≤ t := by omega
      obtain ⟨c1, c2⟩ := clamp_result h.r h.pos h.frames n t k (by omega) ht hk hmin'
      rw [hpos]
      by_cases hc : t ≤ h.frames - h.pos
      · rw [if_pos hc]
        have := c1 hc
        exact ⟨{ h with st := st', pos := h.pos + t }, k, by rw [← this], by omega, by simp only; omega, rfl, rfl⟩
      · rw [if_neg hc]
        obtain ⟨e1, e2⟩ := c2 hc
        exact ⟨{ h with st := st', pos := h.frames }, n - (h.frames - h.pos), by rw [e1, e2], by omega, by simp only; omega, rfl, rfl⟩

/-- **any request, non-breaking staging loop** (`gsm610_read_*` shape) -/
theorem read_any (h : RHandle) (wf : WF h.r) (hch : h.r.ch = 1) (inv : Inv h.r h.st) (hpos : h.r.pos h.st = h.pos)
    (hfr : h.frames ≤ h.r.frames) (q n : Nat) :
    ∃ h' k, h.read q n = (h', h.r.slice h.pos (min n (h.frames - h.pos)) ++ zeros k, min n (h.frames - h.pos)) ∧
      min n (h.frames - h.pos) + k ≤ n ∧ h'.pos = h.pos + min n (h.frames - h.pos) ∧ h'.frames = h.frames ∧ h'.r = h.r := by
  unfold RHandle.read
  by_cases h0 : n = 0
  · subst h0
    exact ⟨h, 0, by simp [slice_zero, zeros], by simp, by simp, rfl, rfl⟩
  · simp only [h0, if_false]
    by_cases hend : h.pos ≥ h.frames
    · simp only [hend, if_true]
      have : h.frames - h.pos = 0 := by omega
      exact ⟨h, n, by simp [this, slice_zero], by simp [this], by simp [this], rfl, rfl⟩
    · simp only [hend, if_false]
      obtain ⟨t, k, st', ht, hk, hmin, hrun⟩ := readChunked_any h.r wf hch q (n + 1) h.st n [] 0 inv rfl (Nat.lt_succ_self n)
      rw [hrun]
      simp only [List.nil_append, Nat.zero_add, hch, Nat.mul_one, Nat.div_one]
      rw [hpos] at hmin
      have hmin' : min n (h.frames - h.pos) ≤ t := by omega
      obtain ⟨c1, c2⟩ := clamp_result h.r h.pos h.frames n t k (by omega) ht hk hmin'
      rw [hpos]
      by_cases hc : t ≤ h.frames - h.pos
      · rw [if_pos hc]
        have := c1 hc
        exact ⟨{ h with st := st', pos := h.pos + t }, k, by rw [← this], by omega, by simp only; omega, rfl, rfl⟩
      · rw [if_neg hc]
        obtain ⟨e1, e2⟩ := c2 hc
        exact ⟨{ h with st := st', pos := h.frames }, n - (h.frames - h.pos), by rw [e1, e2], by omega, by simp only; omega, rfl, rfl⟩

end Sf.Block.PastEnd
