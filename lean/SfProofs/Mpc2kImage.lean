/-
  SfProofs.Mpc2kImage — `Sf.Mpc2k.parse` on the images the MPC2K writer leaves in the store.  The lemmas are stated for
  the writer `fmtQ q` with an arbitrary rate-field rule `q` (the current saturating rule `quant`, and the wrap `quantOld`
  of before the repair of KF-RATE16-WRAP).
-/
import SfModel.Mpc2k
import SfProofs.Small2Session
namespace Sf.Mpc2k
open Sf Sf.Small2

theorem lawfulQ (q : Nat → Nat) (c : Cfg) (hn : c.name.length = 17) : Lawful (fmtQ q c) where
  hlen := by intro f; simp [fmtQ, hdrQ, hn]
  hindep := by intro n f g; rfl

theorem lawful (c : Cfg) (hn : c.name.length = 17) : Lawful (fmt c) := lawfulQ quant c hn

theorem preHtk_0104 (x y : Nat) (b cc : List Byte) : preHtk [1, 4, x, y] b cc = some (.fmt 0x210000) := by
  simp [preHtk, rules, List.find?]

/-- the header a `calc_length` rewrite puts in front of `D` audio bytes -/
theorem calcHdrQ_eq (q : Nat → Nat) (c : Cfg) (D : Nat) :
    calcHdr (fmtQ q c) (42 + D) = hdrQ (q c.sr) c { frames := ((D / (2 * c.ch) : Nat) : Int), filelength := ((42 + D : Nat) : Int), datalength := (D : Nat) } := by
  show hdrQ _ c _ = hdrQ _ c _
  have e : (((42 + D : Nat) : Int) - 42) = ((D : Nat) : Int) := by push_cast; omega
  have : (((42 + D : Nat) : Int) - 42) / ((2 * c.ch : Nat) : Int) = ((D / (2 * c.ch) : Nat) : Int) := by
    rw [e, ← Int.natCast_ediv]
  unfold hdrQ
  simp only [fmtQ, this]

theorem calcHdr_eq (c : Cfg) (D : Nat) :
    calcHdr (fmt c) (42 + D) = hdr c { frames := ((D / (2 * c.ch) : Nat) : Int), filelength := ((42 + D : Nat) : Int), datalength := (D : Nat) } :=
  calcHdrQ_eq quant c D

theorem guess_image (q : Nat) (c : Cfg) (hn : c.name.length = 17) (f : Fields) (data : List Byte) :
    guess (hdrQ q c f ++ data) = some (.fmt 0x210000) := by
  obtain ⟨x, y, rest, hname⟩ : ∃ x y rest, c.name = x :: y :: rest := by
    match h : c.name with
    | [] => rw [h] at hn; cases hn
    | [_] => rw [h] at hn; cases hn
    | x :: y :: rest => exact ⟨x, y, rest, rfl⟩
  unfold guess hdrQ
  rw [hname]
  simp only [List.cons_append, List.nil_append, List.take_succ_cons, List.take_zero, preHtk_0104]

theorem le16_q (q : Nat) : ofLE (le16 (q : Nat)) = q % 65536 := by
  rw [ofLE_le16, wrapU_nat_mod]

theorem quant_field (sr : Nat) : quant sr % 65536 = quant sr := by unfold quant; omega

theorem quant_pos (sr : Nat) (h : 1 ≤ sr) : quant sr ≠ 0 := by unfold quant; omega

/-- mpc2k_read_header on `header ++ data` -/
theorem readHeader_image (q : Nat) (c : Cfg) (hwf : c.wf) (f : Fields) (data : List Byte) (hq : q % 65536 ≠ 0) :
    readHeader (hdrQ q c f ++ data) =
      .ok { ch := c.ch, fmt := 0x210002, sr := q % 65536, frames := data.length / (2 * c.ch) } := by
  obtain ⟨hch, _, _, hn⟩ := hwf
  have hlen : (hdrQ q c f ++ data).length = 42 + data.length := by simp [hdrQ, hn]; omega
  have e : hdrQ q c f ++ data = [1, 4] ++ (c.name ++ ([100, 0, (c.ch - 1) % 2] ++ ((le32 0 ++ le32 f.frames ++ le32 f.frames ++ le32 f.frames) ++
      ([0, 1] ++ (le16 q ++ data))))) := by simp [hdrQ]
  unfold readHeader
  rw [hlen, e]
  simp only [cut_append [1, 4] _ 2 rfl, cut_append [0, 1] _ 2 rfl, cut_append c.name _ 17 hn, cut_append [100, 0, (c.ch - 1) % 2] _ 3 rfl,
    cut_append (le32 0 ++ le32 f.frames ++ le32 f.frames ++ le32 f.frames) _ 16 (by simp), cut_append (le16 (q : Nat)) _ 2 (le16_length _),
    le16_q]
  have hsr : ¬ (q % 65536 < 1) := by omega
  rw [if_neg hsr]
  have hchv : (if ([100, 0, (c.ch - 1) % 2] : List Byte).getD 2 0 ≠ 0 then 2 else 1) = c.ch := by
    rcases hch with h | h <;> rw [h] <;> decide
  rw [hchv]
  have hbw : 0 < 2 * c.ch := by rcases hch with h | h <;> omega
  have := framesOf_nat 42 data.length (2 * c.ch) hbw
  rw [show ((42 : Int)) = ((42 : Nat) : Int) from rfl, this]

/-- a rate field of 0: validate_sfinfo refuses the file -/
theorem readHeader_rate0 (q : Nat) (c : Cfg) (hwf : c.wf) (f : Fields) (data : List Byte) (hq : q % 65536 = 0) :
    readHeader (hdrQ q c f ++ data) = .err := by
  obtain ⟨_, _, _, hn⟩ := hwf
  have e : hdrQ q c f ++ data = [1, 4] ++ (c.name ++ ([100, 0, (c.ch - 1) % 2] ++ ((le32 0 ++ le32 f.frames ++ le32 f.frames ++ le32 f.frames) ++
      ([0, 1] ++ (le16 q ++ data))))) := by simp [hdrQ]
  unfold readHeader
  rw [e]
  simp only [cut_append [1, 4] _ 2 rfl, cut_append [0, 1] _ 2 rfl, cut_append c.name _ 17 hn, cut_append [100, 0, (c.ch - 1) % 2] _ 3 rfl,
    cut_append (le32 0 ++ le32 f.frames ++ le32 f.frames ++ le32 f.frames) _ 16 (by simp), cut_append (le16 (q : Nat)) _ 2 (le16_length _),
    le16_q, hq]
  rfl

theorem parse_image (q : Nat) (c : Cfg) (hwf : c.wf) (f : Fields) (data : List Byte) :
    parse (hdrQ q c f ++ data) = readHeader (hdrQ q c f ++ data) := by
  have hn := hwf.2.2.2
  have hlen : (hdrQ q c f ++ data).length = 42 + data.length := by simp [hdrQ, hn]; omega
  unfold parse
  rw [guess_image q c hn, hlen, if_neg (by omega)]
  simp only []
  rw [if_neg (by omega)]

end Sf.Mpc2k
