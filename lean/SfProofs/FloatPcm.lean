/-
  SfProofs.FloatPcm — the float/double kernels of pcm.c (`PcmFmt.toFloat`, `PcmFmt.ofFloat`): helper lemmas.
-/
import SfModel.Pcm
import SfProofs.FloatExact
namespace Sf.Float
open Sf

/-! ### read kernels: `((T) value) * 2^k` -/

/-- convert an integer n·2^j (n fits the significand) and scale by 2^k, −64 ≤ k ≤ 0: both steps are exact -/
theorem int_scale_exact (f : Fmt) (hf : f.Std) (x : Int) (n j : Nat) (k : Int) (hx : x.natAbs = n * 2 ^ j)
    (hn : n < 2 ^ (f.mbits + 1)) (hj : j ≤ 64) (hk1 : -64 ≤ k) (hk2 : k ≤ 0) :
    (f.toDy (f.ofDy ((f.toDy (f.ofInt x)).mul ⟨false, 1, k⟩))).val = x * 2 ^ k ∧
    f.isFinite (f.ofDy ((f.toDy (f.ofInt x)).mul ⟨false, 1, k⟩)) = true := by
  obtain ⟨r1, r2, r3, r4⟩ := std_ranges f hf
  obtain ⟨a, b, c, d⟩ := ofInt_exact_gen f hf x n j hx hn hj
  have hm : ((f.toDy (f.ofInt x)).mul ⟨false, 1, k⟩).mag = (n : ℚ) * 2 ^ ((j : ℤ) + k) := by
    rw [Dy.mul_mag, c, hx]; unfold Dy.mag; push_cast; rw [zpow2_add, zpow_natCast]; ring
  have hrep := rep_of f hf _ n ((j : ℤ) + k) hn (by omega) (by omega) hm
  obtain ⟨a', b', c', d'⟩ := ofDy_toDy_exact f hf _ hrep
  refine ⟨?_, d'⟩
  rw [c', Dy.mul_val, a]; simp [Dy.val]


/-- the constants of `PcmFmt.toFloat` -/
theorem toFloat_eq (p : PcmFmt) (f : Fmt) (norm : Bool) (c : Int) :
    p.toFloat f norm c = f.ofDy ((f.toDy (f.ofInt (if p.w = 24 then c * 256 else c))).mul
      ⟨false, 1, if norm then -(((if p.w = 24 then 32 else p.w : Nat) : ℤ) - 1) else if p.w = 24 then -8 else 0⟩) := by
  unfold PcmFmt.toFloat
  simp only
  congr 2
  cases norm <;> simp
  split <;> rfl

/-- read kernels, exact case: the significand of the format holds the code -/
theorem toFloat_exact (p : PcmFmt) (f : Fmt) (hf : f.Std) (norm : Bool) (c : Int)
    (hw : p.w = 8 ∨ p.w = 16 ∨ p.w = 24 ∨ p.w = 32)
    (hc : -(2 ^ (p.w - 1) : Int) ≤ c ∧ c < (2 ^ (p.w - 1) : Int)) (hfit : p.w = 32 → f = f64) :
    (f.toDy (p.toFloat f norm c)).val = (if norm then (c : ℚ) / 2 ^ (p.w - 1) else c) ∧
    f.isFinite (p.toFloat f norm c) = true := by
  obtain ⟨r1, r2, r3, r4⟩ := std_ranges f hf
  have hpow : 2 ^ 24 ≤ 2 ^ (f.mbits + 1) := Nat.pow_le_pow_right (by omega) (by omega)
  rw [toFloat_eq]
  rcases hw with h | h | h | h
  · simp only [h, Nat.reduceEqDiff, if_false] at hc ⊢
    have := int_scale_exact f hf c c.natAbs 0 (if norm then -(((8 : Nat) : ℤ) - 1) else 0) (by simp) (by omega) (by omega)
      (by split <;> omega) (by split <;> omega)
    refine ⟨?_, this.2⟩
    rw [this.1]; cases norm <;> simp; norm_num [zpow_neg, div_eq_mul_inv]
  · simp only [h, Nat.reduceEqDiff, if_false] at hc ⊢
    have := int_scale_exact f hf c c.natAbs 0 (if norm then -(((16 : Nat) : ℤ) - 1) else 0) (by simp) (by omega) (by omega)
      (by split <;> omega) (by split <;> omega)
    refine ⟨?_, this.2⟩
    rw [this.1]; cases norm <;> simp; norm_num [zpow_neg, div_eq_mul_inv]
  · simp only [h, if_true] at hc ⊢
    have := int_scale_exact f hf (c * 256) c.natAbs 8 (if norm then -(((32 : Nat) : ℤ) - 1) else -8)
      (by rw [Int.natAbs_mul]; rfl) (by omega) (by omega) (by split <;> omega) (by split <;> omega)
    refine ⟨?_, this.2⟩
    rw [this.1]; cases norm <;> simp <;> norm_num [zpow_neg, div_eq_mul_inv] <;> ring
  · have hf64 := hfit h
    subst hf64
    simp only [h, Nat.reduceEqDiff, if_false] at hc ⊢
    have := int_scale_exact f64 hf c c.natAbs 0 (if norm then -(((32 : Nat) : ℤ) - 1) else 0) (by simp)
      (by simp [f64]; omega) (by omega) (by split <;> omega) (by split <;> omega)
    refine ⟨?_, this.2⟩
    rw [this.1]; cases norm <;> simp; norm_num [zpow_neg, div_eq_mul_inv]


theorem f32_consts : f32.qmin = -149 ∧ f32.mbits = 23 ∧ f32.huge = 2 ^ (128 : ℤ) := by
  refine ⟨by decide, rfl, ?_⟩
  unfold Fmt.huge; congr 1

/-- an int32 converted to float stays below the overflow threshold (it is at most 2^31) -/
theorem rnd_int32_lt_huge (s : Bool) (m : Nat) (e : Int) (hm : m ≤ 2 ^ 31) (he : e ≤ 0) (he2 : -149 ≤ e + 31):
    (f32.rnd ⟨s, m, e⟩).mag < f32.huge := by
  have hrep : f32.RepMag (2 ^ (e + 31)) := repMag_pow2 f32 _ (by rw [f32_consts.1]; omega)
  have hle : (⟨s, m, e⟩ : Dy).mag ≤ 2 ^ (e + 31) := by
    have := mul_zpow_le m 31 e hm
    unfold Dy.mag; simp only
    rwa [add_comm] at this
  have := rnd_le_of_le_rep f32 _ _ hrep hle
  rw [f32_consts.2.2]
  exact lt_of_le_of_lt this (zpow2_lt (by omega))

/-- 32-bit PCM read as float, normalised: one rounding of c / 2^31 to binary32 (ties to even) -/
theorem toFloat_f32_w32_norm (p : PcmFmt) (hw : p.w = 32) (c : Int) (hc : -(2 ^ 31 : Int) ≤ c ∧ c < (2 ^ 31 : Int)) :
    p.toFloat f32 true c = f32.ofDy ⟨decide (c < 0), c.natAbs, -31⟩ := by
  have hf : f32.Std := Or.inl rfl
  obtain ⟨cq, cm, ch⟩ := f32_consts
  rw [toFloat_eq]
  simp only [hw, Nat.reduceEqDiff, if_false, if_true]
  have hm : c.natAbs ≤ 2 ^ 31 := by omega
  obtain ⟨a, b⟩ := toDy_ofDy f32 hf (Dy.ofInt c)
  have hlt0 := rnd_int32_lt_huge (decide (c < 0)) c.natAbs 0 hm (le_refl _) (by omega)
  have hlt1 := rnd_int32_lt_huge (decide (c < 0)) c.natAbs (-31) hm (by omega) (by omega)
  rw [← ofDy_rnd f32 hf ⟨decide (c < 0), c.natAbs, -31⟩ hlt1]
  apply ofDy_congr
  · unfold Fmt.ofInt; unfold Dy.mul; simp only [a, rnd_neg]; simp [Dy.ofInt]
  · unfold Fmt.ofInt
    rw [Dy.mul_mag, b]
    have e0 : Dy.ofInt c = ⟨decide (c < 0), c.natAbs, 0⟩ := rfl
    rw [e0, min_eq_left (le_of_lt hlt0)]
    by_cases hz : c.natAbs = 0
    · rw [rnd_mag_zero f32 _ hz, rnd_mag_zero f32 _ hz]; simp
    · have hL := (bitLen_bounds _ hz).2.2
      have := rnd_scale_mag f32 (decide (c < 0)) c.natAbs 0 (-31) (by rw [cq, cm]; omega) (by rw [cq, cm]; omega)
      have e31 : (0 : ℤ) + -31 = -31 := by norm_num
      rw [e31] at this
      rw [this]; simp [Dy.mag]

/-- 32-bit PCM read as float, not normalised: `(float) c` -/
theorem toFloat_f32_w32_raw (p : PcmFmt) (hw : p.w = 32) (c : Int) (hc : -(2 ^ 31 : Int) ≤ c ∧ c < (2 ^ 31 : Int)) :
    p.toFloat f32 false c = f32.ofInt c := by
  have hf : f32.Std := Or.inl rfl
  rw [toFloat_eq]
  simp only [hw, Nat.reduceEqDiff, if_false]
  have hm : c.natAbs ≤ 2 ^ 31 := by omega
  have hlt0 := rnd_int32_lt_huge (decide (c < 0)) c.natAbs 0 hm (le_refl _) (by omega)
  have hfin : f32.isFinite (f32.ofInt c) = true := (ofDy_finite_iff f32 hf _).mpr hlt0
  have h1 : f32.ofDy ((f32.toDy (f32.ofInt c)).mul ⟨false, 1, 0⟩) = f32.ofDy (f32.toDy (f32.ofInt c)) := by
    apply ofDy_congr
    · simp [Dy.mul]
    · rw [Dy.mul_mag]; simp [Dy.mag]
  simp only [Bool.false_eq_true, if_false]
  rw [h1]
  exact ofDy_toDy f32 hf _ (ofDy_lt_width f32 hf _) hfin


/-- pattern-level form of `int_scale_exact`: the two steps equal one rounding of x·2^k (which is exact) -/
theorem int_scale_pattern (f : Fmt) (hf : f.Std) (x : Int) (n j : Nat) (k : Int) (hx : x.natAbs = n * 2 ^ j)
    (hn : n < 2 ^ (f.mbits + 1)) (hj : j ≤ 64) :
    f.ofDy ((f.toDy (f.ofInt x)).mul ⟨false, 1, k⟩) = f.ofDy ⟨decide (x < 0), x.natAbs, k⟩ := by
  obtain ⟨a, b, c, d⟩ := ofInt_exact_gen f hf x n j hx hn hj
  apply ofDy_congr
  · simp [Dy.mul, b]
  · rw [Dy.mul_mag, c]; simp [Dy.mag]

/-- every normalised read kernel is ONE correctly rounded conversion of c / 2^(w−1) -/
theorem toFloat_norm_pattern (p : PcmFmt) (f : Fmt) (hf : f.Std) (c : Int)
    (hw : p.w = 8 ∨ p.w = 16 ∨ p.w = 24 ∨ p.w = 32)
    (hc : -(2 ^ (p.w - 1) : Int) ≤ c ∧ c < (2 ^ (p.w - 1) : Int)) :
    p.toFloat f true c = f.ofDy ⟨decide (c < 0), c.natAbs, -((p.w : ℤ) - 1)⟩ := by
  obtain ⟨r1, r2, r3, r4⟩ := std_ranges f hf
  have hpow : 2 ^ 24 ≤ 2 ^ (f.mbits + 1) := Nat.pow_le_pow_right (by omega) (by omega)
  rcases hw with h | h | h | h
  · rw [toFloat_eq]
    simp only [h, Nat.reduceEqDiff, if_false, if_true] at hc ⊢
    exact int_scale_pattern f hf c c.natAbs 0 _ (by simp) (by omega) (by omega)
  · rw [toFloat_eq]
    simp only [h, Nat.reduceEqDiff, if_false, if_true] at hc ⊢
    exact int_scale_pattern f hf c c.natAbs 0 _ (by simp) (by omega) (by omega)
  · rw [toFloat_eq]
    simp only [h, if_true] at hc ⊢
    rw [int_scale_pattern f hf (c * 256) c.natAbs 8 _ (by rw [Int.natAbs_mul]; rfl) (by omega) (by omega)]
    apply ofDy_congr
    · simp only [decide_eq_decide]; omega
    · unfold Dy.mag; simp only
      rw [Int.natAbs_mul]; push_cast
      have : (256 : ℚ) = 2 ^ (8 : ℤ) := by norm_num
      rw [this, mul_assoc, ← zpow2_add]; norm_num
  · rcases hf with rfl | rfl
    · have := toFloat_f32_w32_norm p h c (by simpa [h] using hc)
      rw [this, h]; rfl
    · rw [toFloat_eq]
      simp only [h, Nat.reduceEqDiff, if_false, if_true] at hc ⊢
      exact int_scale_pattern f64 (Or.inr rfl) c c.natAbs 0 _ (by simp) (by simp [f64]; omega) (by omega)


/-! ### write kernels with clipping -/

/-- the scaled value `x * normfact` as the clipping kernels form it (in the caller's format) -/
def clipSv (p : PcmFmt) (f : Fmt) (norm : Bool) (x : Nat) : Dy :=
  f.toDy (f.ofDy ((f.toDy x).mul (if norm then ⟨false, 2 ^ (p.w - 1), 0⟩ else ⟨false, 1, 0⟩)))

/-- exponent of the clipping normfact: 2^(w−1) or 2^0 -/
def clipShift (p : PcmFmt) (norm : Bool) : Nat := if norm then p.w - 1 else 0

theorem ofFloat_clip_eq (p : PcmFmt) (f : Fmt) (v : Variant) (norm : Bool) (x : Nat) :
    p.ofFloat f v norm true x =
      if ((2 ^ (p.w - 1) - 1 : ℤ) : ℚ) ≤ (clipSv p f norm x).val then 2 ^ (p.w - 1) - 1
      else if (clipSv p f norm x).val ≤ ((-2 ^ (p.w - 1) : ℤ) : ℚ) then -2 ^ (p.w - 1)
      else if p.w = 8 ∧ (!p.unsigned) = true ∧ f = f64 then lrintInt v (f32.toDy (f64to32 (f.ofDy (clipSv p f norm x))))
      else lrintInt v (clipSv p f norm x) := by
  unfold PcmFmt.ofFloat clipSv
  simp only [Bool.not_true, Bool.false_eq_true, if_false, Dy.le_iff, Dy.ofInt_val]

/-- what the clipping kernels compare: x·2^shift, exactly, capped at ±huge (Inf/NaN patterns and overflowing products) -/
theorem clipSv_val (p : PcmFmt) (f : Fmt) (hf : f.Std) (norm : Bool) (x : Nat) :
    (clipSv p f norm x).val = max (-f.huge) (min ((f.toDy x).val * 2 ^ (clipShift p norm)) f.huge) ∧
    (clipSv p f norm x).neg = (f.toDy x).neg ∧
    (clipSv p f norm x).mag = min ((f.toDy x).mag * 2 ^ (clipShift p norm)) f.huge := by
  have hN : ∃ N : Dy, (if norm then (⟨false, 2 ^ (p.w - 1), 0⟩ : Dy) else ⟨false, 1, 0⟩) = N ∧ N.neg = false ∧
      N.mag = 2 ^ (clipShift p norm) := by
    refine ⟨_, rfl, ?_, ?_⟩
    · cases norm <;> rfl
    · cases norm <;> simp [Dy.mag, clipShift]
  obtain ⟨N, hNe, hNn, hNm⟩ := hN
  unfold clipSv
  rw [hNe]
  obtain ⟨a, b⟩ := toDy_ofDy f hf ((f.toDy x).mul N)
  have hmag : ((f.toDy x).mul N).mag = (f.toDy x).mag * 2 ^ (clipShift p norm) := by rw [Dy.mul_mag, hNm]
  have hrep : f.RepMag ((f.toDy x).mul N).mag := by
    obtain ⟨n, q, hn, hq, hm⟩ := toDy_rep f x
    refine ⟨n, q + (clipShift p norm : ℕ), hn, by omega, ?_⟩
    rw [hmag, hm, zpow2_add, zpow_natCast]; ring
  rw [rnd_exact f _ hrep, hmag] at b
  have hneg : (f.toDy (f.ofDy ((f.toDy x).mul N))).neg = (f.toDy x).neg := by rw [a]; simp [Dy.mul, hNn]
  refine ⟨?_, hneg, b⟩
  have hh : 0 < f.huge := two_zpow_pos _
  have hm0 : 0 ≤ (f.toDy x).mag * 2 ^ (clipShift p norm) := mul_nonneg (Dy.mag_nonneg _) (by positivity)
  rw [Dy.val_eq, Dy.val_eq, b, hneg]
  cases hs : (f.toDy x).neg
  · simp only [Bool.false_eq_true, if_false]
    rw [max_eq_right]; linarith [le_min hm0 (le_of_lt hh)]
  · simp only [if_true]
    rw [neg_mul, min_eq_left (by linarith : -((f.toDy x).mag * 2 ^ clipShift p norm) ≤ f.huge)]
    rcases le_total ((f.toDy x).mag * 2 ^ clipShift p norm) f.huge with h | h
    · rw [min_eq_left h, max_eq_right (by linarith)]
    · rw [min_eq_right h, max_eq_left (by linarith)]


theorem lrintInt_of_range (v : Variant) (a : Dy) (h1 : -2147483648 ≤ a.rint) (h2 : a.rint ≤ 2147483647) :
    lrintInt v a = a.rint := by
  unfold lrintInt
  cases v
  · simp only
    have : ¬ (a.rint < -9223372036854775808 ∨ a.rint > 9223372036854775807) := by omega
    simp only [this, if_false]
    unfold wrapS; simp only; split <;> omega
  · simp only
    have : ¬ (a.rint < -2147483648 ∨ a.rint > 2147483647) := by omega
    simp only [this, if_false]

/-- `lrint` of a value strictly between two int32 bounds -/
theorem lrintInt_between (v : Variant) (a : Dy) (lo hi : ℤ) (hlo : -2147483648 ≤ lo) (hhi : hi ≤ 2147483647)
    (h1 : (lo : ℚ) ≤ a.val) (h2 : a.val ≤ hi) : lrintInt v a = a.rint ∧ lo ≤ a.rint ∧ a.rint ≤ hi := by
  have r := Dy.rint_isRNE a
  have b1 := r.ge_int lo h1
  have b2 := r.le_int hi h2
  exact ⟨lrintInt_of_range v a (by omega) (by omega), b1, b2⟩

/-- `d2sc_clip_array`: the detour through `float` is one extra rounding to binary32 -/
theorem d2sc_narrow (p : PcmFmt) (norm : Bool) (x : Nat) (h : (clipSv p f64 norm x).mag < f64.huge) :
    f32.toDy (f64to32 (f64.ofDy (clipSv p f64 norm x))) = f32.toDy (f32.ofDy (clipSv p f64 norm x)) := by
  have hf : f64.Std := Or.inr rfl
  have hfin : f64.isFinite (f64.ofDy ((f64.toDy x).mul (if norm then ⟨false, 2 ^ (p.w - 1), 0⟩ else ⟨false, 1, 0⟩))) = true :=
    (finite_iff_mag_lt f64 hf _).mpr h
  have e : f64.ofDy (clipSv p f64 norm x) =
      f64.ofDy ((f64.toDy x).mul (if norm then ⟨false, 2 ^ (p.w - 1), 0⟩ else ⟨false, 1, 0⟩)) :=
    ofDy_toDy f64 hf _ (ofDy_lt_width f64 hf _) hfin
  rw [e]
  unfold f64to32
  simp only [hfin, if_true]
  rfl

theorem pow_w_cases (p : PcmFmt) (hw : p.w = 8 ∨ p.w = 16 ∨ p.w = 24 ∨ p.w = 32) :
    (2 : ℤ) ^ (p.w - 1) = 128 ∨ (2 : ℤ) ^ (p.w - 1) = 32768 ∨ (2 : ℤ) ^ (p.w - 1) = 8388608 ∨
    (2 : ℤ) ^ (p.w - 1) = 2147483648 := by
  rcases hw with h | h | h | h <;> simp [h]

/-- **clipping kernels never leave the sample range**, whatever the bit pattern (Inf and NaN included) -/
theorem ofFloat_clip_range (p : PcmFmt) (hw : p.w = 8 ∨ p.w = 16 ∨ p.w = 24 ∨ p.w = 32) (f : Fmt) (hf : f.Std)
    (v : Variant) (norm : Bool) (x : Nat) :
    -(2 ^ (p.w - 1) : ℤ) ≤ p.ofFloat f v norm true x ∧ p.ofFloat f v norm true x ≤ 2 ^ (p.w - 1) - 1 := by
  have hP := pow_w_cases p hw
  rw [ofFloat_clip_eq]
  split
  · omega
  · split
    · omega
    · rename_i h1 h2
      rw [not_le] at h1 h2
      split
      · rename_i hc
        obtain ⟨hw8, _, hf64⟩ := hc
        subst hf64
        have h128 : (2 : ℤ) ^ (p.w - 1) = 128 := by simp [hw8]
        rw [h128] at h1 h2 ⊢
        have hmag : (clipSv p f64 norm x).mag < f64.huge := by
          rw [← Dy.abs_val]
          have : |(clipSv p f64 norm x).val| < 128 := by
            rw [abs_lt]; push_cast at h1 h2; constructor <;> linarith
          exact lt_of_lt_of_le this (le_trans (by norm_num) (std_huge f64 hf))
        rw [d2sc_narrow p norm x hmag]
        have hb := round_val_bounds f32 (Or.inl rfl) (clipSv p f64 norm x) (-128) 127
          (by simpa using repMag_nat f32 (Or.inl rfl) 128 (by norm_num))
          (by simpa using repMag_nat f32 (Or.inl rfl) 127 (by norm_num)) (by norm_num) (by norm_num)
          (by push_cast at h2; linarith) (by push_cast at h1; linarith)
        have := lrintInt_between v _ (-128) 127 (by norm_num) (by norm_num) (by push_cast; exact hb.1) (by push_cast; exact hb.2)
        rw [this.1]; omega
      · have := lrintInt_between v (clipSv p f norm x) (-(2 ^ (p.w - 1))) (2 ^ (p.w - 1) - 1) (by omega) (by omega)
          (by push_cast at h2 ⊢; linarith) (by push_cast at h1 ⊢; linarith)
        rw [this.1]; omega


theorem pow_w_le_huge (p : PcmFmt) (hw : p.w = 8 ∨ p.w = 16 ∨ p.w = 24 ∨ p.w = 32) (f : Fmt) (hf : f.Std) :
    (((2 : ℤ) ^ (p.w - 1) : ℤ) : ℚ) ≤ f.huge := by
  have h1 : (((2 : ℤ) ^ (p.w - 1) : ℤ) : ℚ) ≤ 2 ^ (128 : ℤ) := by
    rcases hw with h | h | h | h <;> simp only [h] <;> norm_num
  exact le_trans h1 (std_huge f hf)

/-- scaled value at or above 2^(w−1) − 1 ⇒ the stored code is the maximum -/
theorem ofFloat_clip_sat_hi (p : PcmFmt) (hw : p.w = 8 ∨ p.w = 16 ∨ p.w = 24 ∨ p.w = 32) (f : Fmt) (hf : f.Std)
    (v : Variant) (norm : Bool) (x : Nat)
    (h : ((2 ^ (p.w - 1) - 1 : ℤ) : ℚ) ≤ (f.toDy x).val * 2 ^ (clipShift p norm)) :
    p.ofFloat f v norm true x = 2 ^ (p.w - 1) - 1 := by
  have hh := pow_w_le_huge p hw f hf
  have hpos : (0 : ℚ) < f.huge := two_zpow_pos _
  rw [ofFloat_clip_eq, (clipSv_val p f hf norm x).1]
  rw [if_pos]
  push_cast at h hh ⊢
  exact le_max_of_le_right (le_min h (by linarith))

/-- scaled value at or below −2^(w−1) ⇒ the stored code is the minimum -/
theorem ofFloat_clip_sat_lo (p : PcmFmt) (hw : p.w = 8 ∨ p.w = 16 ∨ p.w = 24 ∨ p.w = 32) (f : Fmt) (hf : f.Std)
    (v : Variant) (norm : Bool) (x : Nat)
    (h : (f.toDy x).val * 2 ^ (clipShift p norm) ≤ ((-2 ^ (p.w - 1) : ℤ) : ℚ)) :
    p.ofFloat f v norm true x = -2 ^ (p.w - 1) := by
  have hh := pow_w_le_huge p hw f hf
  have hP : (1 : ℚ) ≤ (((2 : ℤ) ^ (p.w - 1) : ℤ) : ℚ) := by
    rcases hw with h | h | h | h <;> simp only [h] <;> norm_num
  have hpos : (0 : ℚ) < f.huge := two_zpow_pos _
  rw [ofFloat_clip_eq, (clipSv_val p f hf norm x).1]
  have hle : max (-f.huge) (min ((f.toDy x).val * 2 ^ clipShift p norm) f.huge) ≤ ((-2 ^ (p.w - 1) : ℤ) : ℚ) := by
    push_cast at h hh hP ⊢
    exact max_le (by linarith) (le_trans (min_le_left _ _) h)
  rw [if_neg, if_pos hle]
  push_cast at hle hP ⊢
  linarith

theorem clipSv_mono (p : PcmFmt) (f : Fmt) (hf : f.Std) (norm : Bool) (x₁ x₂ : Nat)
    (h : (f.toDy x₁).val ≤ (f.toDy x₂).val) : (clipSv p f norm x₁).val ≤ (clipSv p f norm x₂).val := by
  rw [(clipSv_val p f hf norm x₁).1, (clipSv_val p f hf norm x₂).1]
  have : (f.toDy x₁).val * 2 ^ clipShift p norm ≤ (f.toDy x₂).val * 2 ^ clipShift p norm :=
    mul_le_mul_of_nonneg_right h (by positivity)
  exact max_le_max_left _ (min_le_min_right _ this)

/-- **the clipping kernels are monotone** in the real value of the input -/
theorem ofFloat_clip_mono (p : PcmFmt) (hw : p.w = 8 ∨ p.w = 16 ∨ p.w = 24 ∨ p.w = 32) (f : Fmt) (hf : f.Std)
    (v : Variant) (norm : Bool) (x₁ x₂ : Nat) (h : (f.toDy x₁).val ≤ (f.toDy x₂).val) :
    p.ofFloat f v norm true x₁ ≤ p.ofFloat f v norm true x₂ := by
  have hP := pow_w_cases p hw
  have hsv := clipSv_mono p f hf norm x₁ x₂ h
  have r1 := ofFloat_clip_range p hw f hf v norm x₁
  have r2 := ofFloat_clip_range p hw f hf v norm x₂
  by_cases a2 : ((2 ^ (p.w - 1) - 1 : ℤ) : ℚ) ≤ (clipSv p f norm x₂).val
  · have : p.ofFloat f v norm true x₂ = 2 ^ (p.w - 1) - 1 := by rw [ofFloat_clip_eq, if_pos a2]
    omega
  by_cases a1 : ((2 ^ (p.w - 1) - 1 : ℤ) : ℚ) ≤ (clipSv p f norm x₁).val
  · exact absurd (le_trans a1 hsv) a2
  by_cases b1 : (clipSv p f norm x₁).val ≤ ((-2 ^ (p.w - 1) : ℤ) : ℚ)
  · have : p.ofFloat f v norm true x₁ = -2 ^ (p.w - 1) := by rw [ofFloat_clip_eq, if_neg a1, if_pos b1]
    omega
  by_cases b2 : (clipSv p f norm x₂).val ≤ ((-2 ^ (p.w - 1) : ℤ) : ℚ)
  · exact absurd (le_trans hsv b2) b1
  rw [ofFloat_clip_eq, ofFloat_clip_eq, if_neg a1, if_neg b1, if_neg a2, if_neg b2]
  rw [not_le] at a1 a2 b1 b2
  split
  · rename_i hc
    obtain ⟨hw8, _, hf64⟩ := hc
    subst hf64
    have h128 : (2 : ℤ) ^ (p.w - 1) = 128 := by simp [hw8]
    rw [h128] at a1 a2 b1 b2
    push_cast at a1 a2 b1 b2
    have hmag : ∀ x, (-128 : ℚ) < (clipSv p f64 norm x).val → (clipSv p f64 norm x).val < 127 →
        (clipSv p f64 norm x).mag < f64.huge := by
      intro x h1 h2
      rw [← Dy.abs_val]
      have : |(clipSv p f64 norm x).val| < 128 := by rw [abs_lt]; constructor <;> linarith
      exact lt_of_lt_of_le this (le_trans (by norm_num) (std_huge f64 hf))
    have hbnd : ∀ x, (-128 : ℚ) < (clipSv p f64 norm x).val → (clipSv p f64 norm x).val < 127 →
        ((-128 : ℤ) : ℚ) ≤ (f32.toDy (f32.ofDy (clipSv p f64 norm x))).val ∧
        (f32.toDy (f32.ofDy (clipSv p f64 norm x))).val ≤ ((127 : ℤ) : ℚ) := by
      intro x h1 h2
      have := round_val_bounds f32 (Or.inl rfl) (clipSv p f64 norm x) (-128) 127
        (by simpa using repMag_nat f32 (Or.inl rfl) 128 (by norm_num))
        (by simpa using repMag_nat f32 (Or.inl rfl) 127 (by norm_num)) (by norm_num) (by norm_num)
        (by linarith) (by linarith)
      push_cast; exact this
    rw [d2sc_narrow p norm x₁ (hmag x₁ b1 a1), d2sc_narrow p norm x₂ (hmag x₂ b2 a2)]
    have l1 := lrintInt_between v _ (-128) 127 (by norm_num) (by norm_num) (hbnd x₁ b1 a1).1 (hbnd x₁ b1 a1).2
    have l2 := lrintInt_between v _ (-128) 127 (by norm_num) (by norm_num) (hbnd x₂ b2 a2).1 (hbnd x₂ b2 a2).2
    rw [l1.1, l2.1]
    exact (Dy.rint_isRNE _).mono (Dy.rint_isRNE _) (round_mono f32 (Or.inl rfl) _ _ hsv)
  · have l1 := lrintInt_between v (clipSv p f norm x₁) (-(2 ^ (p.w - 1))) (2 ^ (p.w - 1) - 1) (by omega) (by omega)
      (by push_cast at b1 ⊢; linarith) (by push_cast at a1 ⊢; linarith)
    have l2 := lrintInt_between v (clipSv p f norm x₂) (-(2 ^ (p.w - 1))) (2 ^ (p.w - 1) - 1) (by omega) (by omega)
      (by push_cast at b2 ⊢; linarith) (by push_cast at a2 ⊢; linarith)
    rw [l1.1, l2.1]
    exact (Dy.rint_isRNE _).mono (Dy.rint_isRNE _) hsv


/-! ### write kernels without clipping -/

theorem ofFloat_noclip_eq (p : PcmFmt) (f : Fmt) (v : Variant) (norm : Bool) (x : Nat) :
    p.ofFloat f v norm false x = lrintInt v (f.toDy (f.ofDy ((f.toDy x).mul
      (if norm then f.toDy (f.ofInt (2 ^ (p.w - 1) - 1)) else ⟨false, 1, 0⟩)))) := by
  unfold PcmFmt.ofFloat
  simp

/-- the write normfact 2^(w−1) − 1 is exact in the caller's type, except 0x7FFFFFFF as a float -/
theorem normfact_exact (p : PcmFmt) (hw : p.w = 8 ∨ p.w = 16 ∨ p.w = 24 ∨ p.w = 32) (f : Fmt) (hf : f.Std)
    (hfit : p.w = 32 → f = f64) :
    (f.toDy (f.ofInt (2 ^ (p.w - 1) - 1))).neg = false ∧
    (f.toDy (f.ofInt (2 ^ (p.w - 1) - 1))).mag = (((2 ^ (p.w - 1) - 1 : ℤ)) : ℚ) := by
  obtain ⟨r1, r2, r3, r4⟩ := std_ranges f hf
  have hpow : 2 ^ 24 ≤ 2 ^ (f.mbits + 1) := Nat.pow_le_pow_right (by omega) (by omega)
  have key : ∀ B : ℤ, 0 ≤ B → B.natAbs < 2 ^ (f.mbits + 1) →
      (f.toDy (f.ofInt B)).neg = false ∧ (f.toDy (f.ofInt B)).mag = (B : ℚ) := by
    intro B hB hlt
    obtain ⟨a, b, c, d⟩ := ofInt_exact_gen f hf B B.natAbs 0 (by simp) hlt (by omega)
    refine ⟨by rw [b]; simp; omega, ?_⟩
    rw [c, Nat.cast_natAbs, abs_of_nonneg hB]
  rcases hw with h | h | h | h
  · simp only [h]; exact key _ (by norm_num) (by norm_num; omega)
  · simp only [h]; exact key _ (by norm_num) (by norm_num; omega)
  · simp only [h]; exact key _ (by norm_num) (by norm_num; omega)
  · have := hfit h; subst this
    simp only [h]; exact key _ (by norm_num) (by norm_num [f64])

/-- the core of the unclipped write: a product whose magnitude is at most a representable integer bound B ≤ INT_MAX
    is rounded to the format, then to an integer; neither step leaves [−B, B] and `lrint` does not wrap -/
theorem write_core (f : Fmt) (hf : f.Std) (v : Variant) (d : Dy) (B : ℤ) (hB0 : 0 ≤ B) (hB1 : B ≤ 2147483647)
    (hrep : f.RepMag (B : ℚ)) (hle : d.mag ≤ B) :
    lrintInt v (f.toDy (f.ofDy d)) = (f.toDy (f.ofDy d)).rint ∧
    -B ≤ (f.toDy (f.ofDy d)).rint ∧ (f.toDy (f.ofDy d)).rint ≤ B ∧
    (f.toDy (f.ofDy d)).mag = (f.rnd d).mag := by
  have hm := round_mag_le f hf d B hrep hle
  have hv : |(f.toDy (f.ofDy d)).val| ≤ B := by rw [Dy.abs_val]; exact hm
  rw [abs_le] at hv
  have := lrintInt_between v (f.toDy (f.ofDy d)) (-B) B (by omega) (by omega) (by push_cast; exact hv.1) hv.2
  refine ⟨this.1, this.2.1, this.2.2, ?_⟩
  rw [(toDy_ofDy f hf d).2]
  apply min_eq_left
  have h1 := rnd_le_of_le_rep f d B hrep hle
  have h2 : (B : ℚ) ≤ 2 ^ (128 : ℤ) := by
    have : (B : ℚ) ≤ 2147483647 := by exact_mod_cast hB1
    linarith [show (2147483647 : ℚ) ≤ 2 ^ (128 : ℤ) by norm_num]
  exact le_trans h1 (le_trans h2 (std_huge f hf))

/-- quantum of a non-zero value below 2^k -/
theorem quantum_le_of_mag_lt (f : Fmt) (d : Dy) (hm : d.m ≠ 0) (k : ℤ) (h : d.mag < 2 ^ k) (hk : f.qmin ≤ k - 1 - f.mbits) :
    f.quantum d ≤ k - 1 - f.mbits := by
  have := zpow2_lt_iff.mp (lt_of_le_of_lt (Dy.mag_bounds d hm).1 h)
  unfold Fmt.quantum; omega

/-- distance between a rounded value and the value, as rationals with sign -/
theorem round_val_err (f : Fmt) (hf : f.Std) (d : Dy) (h : (f.toDy (f.ofDy d)).mag = (f.rnd d).mag) :
    |(f.toDy (f.ofDy d)).val - d.val| = |(f.rnd d).mag - d.mag| := by
  rw [Dy.val_eq, Dy.val_eq d, (toDy_ofDy f hf d).1, h]
  cases d.neg <;> simp only [Bool.false_eq_true, if_false, if_true]
  rw [← abs_neg]; congr 1; ring


/-- **unclipped, normalised write of |x| ≤ 1** (normfact exact in the caller's type) -/
theorem ofFloat_write_inrange (p : PcmFmt) (hw : p.w = 8 ∨ p.w = 16 ∨ p.w = 24 ∨ p.w = 32) (f : Fmt) (hf : f.Std)
    (hfit : p.w = 32 → f = f64) (v : Variant) (x : Nat) (hx : |(f.toDy x).val| ≤ 1) :
    -(2 ^ (p.w - 1) - 1 : ℤ) ≤ p.ofFloat f v true false x ∧ p.ofFloat f v true false x ≤ 2 ^ (p.w - 1) - 1 ∧
    |((p.ofFloat f v true false x : ℤ) : ℚ) - (f.toDy x).val * ((2 ^ (p.w - 1) - 1 : ℤ) : ℚ)|
        ≤ 1 / 2 + 2 ^ ((p.w : ℤ) - 3 - f.mbits) ∧
    (f.RepMag ((f.toDy x).mag * ((2 ^ (p.w - 1) - 1 : ℤ) : ℚ)) →
        IsRNE ((f.toDy x).val * ((2 ^ (p.w - 1) - 1 : ℤ) : ℚ)) (p.ofFloat f v true false x)) := by
  obtain ⟨r1, r2, r3, r4⟩ := std_ranges f hf
  obtain ⟨nn, nm⟩ := normfact_exact p hw f hf hfit
  have hP := pow_w_cases p hw
  rw [ofFloat_noclip_eq]
  simp only [if_true]
  generalize hN : f.toDy (f.ofInt (2 ^ (p.w - 1) - 1)) = N at nn nm
  generalize hBdef : ((2 : ℤ) ^ (p.w - 1) - 1) = B at nm hP ⊢
  have hB0 : 0 ≤ B := by omega
  have hB1 : B ≤ 2147483647 := by omega
  have hBlt : (B : ℚ) < 2 ^ ((p.w : ℤ) - 1) := by
    have : (B : ℚ) < ((2 ^ (p.w - 1) : ℤ) : ℚ) := by exact_mod_cast (by omega : B < 2 ^ (p.w - 1))
    have e : (((2 : ℤ) ^ (p.w - 1) : ℤ) : ℚ) = 2 ^ ((p.w : ℤ) - 1) := by
      push_cast; rw [← zpow_natCast]; congr 1
      rcases hw with h | h | h | h <;> simp [h]
    rwa [e] at this
  have hBrep : f.RepMag (B : ℚ) := by
    have hpow : 2 ^ 24 ≤ 2 ^ (f.mbits + 1) := Nat.pow_le_pow_right (by omega) (by omega)
    refine ⟨B.natAbs, 0, ?_, by omega, by rw [Nat.cast_natAbs, abs_of_nonneg hB0]; simp⟩
    rcases hw with h | h | h | h
    · simp only [h] at hBdef; omega
    · simp only [h] at hBdef; omega
    · simp only [h] at hBdef; omega
    · have := hfit h; subst this; simp only [h] at hBdef; simp [f64]; omega
  have hmag : ((f.toDy x).mul N).mag = (f.toDy x).mag * B := by rw [Dy.mul_mag, nm]
  have hval : ((f.toDy x).mul N).val = (f.toDy x).val * B := by
    rw [Dy.mul_val, Dy.val_eq N, nn, nm]; simp
  have hle : ((f.toDy x).mul N).mag ≤ B := by
    rw [hmag]; rw [Dy.abs_val] at hx
    have : (0 : ℚ) ≤ B := by exact_mod_cast hB0
    nlinarith
  obtain ⟨c1, c2, c3, c4⟩ := write_core f hf v ((f.toDy x).mul N) B hB0 hB1 hBrep hle
  rw [c1]
  refine ⟨by omega, c3, ?_, ?_⟩
  · have e1 := (Dy.rint_isRNE (f.toDy (f.ofDy ((f.toDy x).mul N)))).abs_le
    have e2 : |(f.toDy (f.ofDy ((f.toDy x).mul N))).val - ((f.toDy x).mul N).val| ≤ 2 ^ ((p.w : ℤ) - 3 - f.mbits) := by
      rw [round_val_err f hf _ c4]
      by_cases hm0 : ((f.toDy x).mul N).m = 0
      · rw [rnd_mag_zero f _ hm0, (Dy.mag_eq_zero_iff _).mpr hm0]; simp; positivity
      · have hq := quantum_le_of_mag_lt f _ hm0 ((p.w : ℤ) - 1) (lt_of_le_of_lt hle hBlt)
          (by rcases hw with h | h | h | h <;> simp only [h] <;> omega)
        exact le_trans (rnd_err f _) (zpow2_le (by omega))
    rw [← hval]
    calc |((f.toDy (f.ofDy ((f.toDy x).mul N))).rint : ℚ) - ((f.toDy x).mul N).val|
        = |(((f.toDy (f.ofDy ((f.toDy x).mul N))).rint : ℚ) - (f.toDy (f.ofDy ((f.toDy x).mul N))).val) +
            ((f.toDy (f.ofDy ((f.toDy x).mul N))).val - ((f.toDy x).mul N).val)| := by congr 1; ring
      _ ≤ _ := le_trans (abs_add_le _ _) (add_le_add e1 e2)
  · intro hr
    rw [← hmag] at hr
    have hm : (f.toDy (f.ofDy ((f.toDy x).mul N))).mag = ((f.toDy x).mul N).mag := by rw [c4, rnd_exact f _ hr]
    have hv : (f.toDy (f.ofDy ((f.toDy x).mul N))).val = ((f.toDy x).mul N).val :=
      val_eq_of (toDy_ofDy f hf _).1 hm
    rw [← hval, ← hv]
    exact Dy.rint_isRNE _


/-- `(float) 0x7FFFFFFF` is 2^31 -/
theorem normfact_f32_w32 : f32.toDy (f32.ofInt 2147483647) = ⟨false, 8388608, 8⟩ := by decide

theorem lrintInt_upto_2p31 (v : Variant) (a : Dy) (h1 : -2147483648 ≤ a.rint) (h2 : a.rint ≤ 2147483648) :
    lrintInt v a = if a.rint = 2147483648 then -2147483648 else a.rint := by
  split
  · rename_i h
    unfold lrintInt
    cases v
    · simp only [h]; decide
    · simp only [h]; decide
  · exact lrintInt_of_range v a h1 (by omega)

/-- 32-bit PCM written from float without clipping: the normfact is 2^31, so the product is exact and the code is
    the nearest integer to x·2^31 — except that the value 2^31 (reached at x = 1.0f) becomes INT_MIN -/
theorem ofFloat_w32_f32 (p : PcmFmt) (hw : p.w = 32) (v : Variant) (x : Nat) (hx : |(f32.toDy x).val| ≤ 1) :
    ∃ r : ℤ, IsRNE ((f32.toDy x).val * 2 ^ 31) r ∧ -2147483648 ≤ r ∧ r ≤ 2147483648 ∧
      p.ofFloat f32 v true false x = if r = 2147483648 then -2147483648 else r := by
  have hf : f32.Std := Or.inl rfl
  rw [ofFloat_noclip_eq]
  simp only [if_true, hw]
  have e : ((2 : ℤ) ^ (32 - 1) - 1) = 2147483647 := by norm_num
  rw [e, normfact_f32_w32]
  generalize hd : (f32.toDy x).mul ⟨false, 8388608, 8⟩ = d
  have hmag : d.mag = (f32.toDy x).mag * 2 ^ (31 : ℤ) := by
    rw [← hd, Dy.mul_mag]; unfold Dy.mag; simp only; norm_num
  have hval : d.val = (f32.toDy x).val * 2 ^ 31 := by
    rw [← hd, Dy.mul_val]; unfold Dy.val; simp only; norm_num
  have hrepm : f32.RepMag d.mag := by
    obtain ⟨n, q, hn, hq, hm⟩ := toDy_rep f32 x
    refine ⟨n, q + 31, hn, by omega, ?_⟩
    rw [hmag, hm, zpow2_add]; ring
  have hle : d.mag ≤ 2 ^ (31 : ℤ) := by
    rw [hmag]; rw [Dy.abs_val] at hx
    have : (0 : ℚ) < 2 ^ (31 : ℤ) := two_zpow_pos _
    nlinarith
  have hrep : f32.Rep d := ⟨hrepm, lt_of_le_of_lt hle (by rw [f32_consts.2.2]; exact zpow2_lt (by norm_num))⟩
  obtain ⟨_, _, hv, _⟩ := Sf.Float.ofDy_toDy_exact f32 hf d hrep
  have hr := Dy.rint_isRNE (f32.toDy (f32.ofDy d))
  rw [hv, hval] at hr
  have habs : |d.val| ≤ 2 ^ (31 : ℤ) := by rw [Dy.abs_val]; exact hle
  rw [abs_le, hval] at habs
  have b1 := hr.ge_int (-2147483648) (by push_cast; norm_num at habs ⊢; linarith [habs.1])
  have b2 := hr.le_int 2147483648 (by push_cast; norm_num at habs ⊢; linarith [habs.2])
  exact ⟨_, hr, b1, b2, lrintInt_upto_2p31 v _ b1 b2⟩

/-- **norm off, clipping off**: an integer-valued finite input inside the `int` range is stored as that integer -/
theorem ofFloat_passthrough (p : PcmFmt) (f : Fmt) (hf : f.Std) (v : Variant) (x : Nat) (hfin : f.isFinite x = true)
    (z : ℤ) (hz : (f.toDy x).val = z) (h1 : -2147483648 ≤ z) (h2 : z ≤ 2147483647) :
    p.ofFloat f v false false x = z := by
  rw [ofFloat_noclip_eq]
  simp only [Bool.false_eq_true, if_false]
  have hrep : f.Rep ((f.toDy x).mul ⟨false, 1, 0⟩) := by
    have hm : ((f.toDy x).mul ⟨false, 1, 0⟩).mag = (f.toDy x).mag := by rw [Dy.mul_mag]; simp [Dy.mag]
    refine ⟨by rw [hm]; exact toDy_rep f x, by rw [hm]; exact (finite_iff_mag_lt f hf x).mp hfin⟩
  obtain ⟨_, _, hv, _⟩ := Sf.Float.ofDy_toDy_exact f hf _ hrep
  have hv2 : (f.toDy (f.ofDy ((f.toDy x).mul ⟨false, 1, 0⟩))).val = z := by
    rw [hv, Dy.mul_val, hz]; simp [Dy.val]
  have hr := (Dy.rint_isRNE _).eq_int z hv2
  rw [lrintInt_of_range v _ (by omega) (by omega), hr]


/-! ### G.711 float entry -/

/-- the argument `Law.encFloat` passes to the encode table -/
def g711Index (l : G711.Law) (f : Fmt) (v : Variant) (norm : Bool) (x : Nat) : Nat :=
  let r := lrintInt v (f.toDy (f.ofDy ((l.wNormfact norm).mul (f.toDy x))))
  if (f.toDy x).nonneg then r.toNat else (-r).toNat

theorem encFloat_eq_index (l : G711.Law) (f : Fmt) (v : Variant) (norm : Bool) (x : Nat) :
    l.encFloat f v norm x =
      if (f.toDy x).nonneg then l.encTab (g711Index l f v norm x) else l.encTab (g711Index l f v norm x) % 128 := by
  unfold G711.Law.encFloat G711.Law.encRounded g711Index
  simp only
  split <;> rfl

/-- |x| ≤ 1, normalisation on ⇒ |lrint (normfact·x)| ≤ K where K = ⌈0x7FFF / 2^shift⌉ -/
theorem g711_index_le (l : G711.Law) (f : Fmt) (hf : f.Std) (v : Variant) (x : Nat) (hx : |(f.toDy x).val| ≤ 1)
    (K : ℤ) (hs : l.shift ≤ 16) (hK0 : 0 ≤ K) (hK1 : K ≤ 2147483647) (hK : (0x7FFF : ℚ) * 2 ^ (-(l.shift : ℤ)) ≤ K) :
    (g711Index l f v true x : ℤ) ≤ K := by
  obtain ⟨r1, r2, r3, r4⟩ := std_ranges f hf
  have hpow : 2 ^ 24 ≤ 2 ^ (f.mbits + 1) := Nat.pow_le_pow_right (by omega) (by omega)
  unfold g711Index
  simp only
  generalize hd : (l.wNormfact true).mul (f.toDy x) = d
  have hmag : d.mag = (0x7FFF : ℚ) * 2 ^ (-(l.shift : ℤ)) * (f.toDy x).mag := by
    rw [← hd, Dy.mul_mag]; unfold G711.Law.wNormfact Dy.mag; simp
  have hB : f.RepMag ((0x7FFF : ℚ) * 2 ^ (-(l.shift : ℤ))) :=
    ⟨0x7FFF, -(l.shift : ℤ), by omega, by omega, by norm_num⟩
  have hle : d.mag ≤ (0x7FFF : ℚ) * 2 ^ (-(l.shift : ℤ)) := by
    rw [hmag]; rw [Dy.abs_val] at hx
    have : (0 : ℚ) ≤ (0x7FFF : ℚ) * 2 ^ (-(l.shift : ℤ)) := by positivity
    nlinarith
  have hm := le_trans (round_mag_le f hf d _ hB hle) hK
  have hv : |(f.toDy (f.ofDy d)).val| ≤ K := by rw [Dy.abs_val]; exact hm
  rw [abs_le] at hv
  have := lrintInt_between v (f.toDy (f.ofDy d)) (-K) K (by omega) (by omega) (by push_cast; exact hv.1) hv.2
  rw [this.1]
  split <;> omega


/-- the largest binary32 below 1 is 1 − 2^-24 -/
theorem f32_lt_one_grid (x : Nat) (h : (f32.toDy x).mag < 1) : (f32.toDy x).mag * 2 ^ (24 : ℤ) ≤ 2 ^ (24 : ℤ) - 1 := by
  obtain ⟨n, q, hn, hq, hm⟩ := toDy_rep f32 x
  have hn' : n < 2 ^ 24 := hn
  have hnq : (n : ℚ) ≤ 2 ^ (24 : ℤ) - 1 := by
    have : n ≤ 2 ^ 24 - 1 := by omega
    have : ((n : ℕ) : ℚ) ≤ ((2 ^ 24 - 1 : ℕ) : ℚ) := by exact_mod_cast this
    norm_num at this ⊢; exact this
  rw [hm] at h ⊢
  rw [mul_assoc, ← zpow2_add]
  by_cases hc : 0 ≤ q + 24
  · have e : (n : ℚ) * 2 ^ (q + 24) = ((n * 2 ^ (q + 24).toNat : ℕ) : ℚ) := by
      push_cast; rw [← zpow_natCast]; congr 2; omega
    have hlt : (n : ℚ) * 2 ^ (q + 24) < 2 ^ (24 : ℤ) := by
      rw [zpow2_add, ← mul_assoc]
      have : (0 : ℚ) < 2 ^ (24 : ℤ) := two_zpow_pos _
      nlinarith
    rw [e] at hlt ⊢
    have : n * 2 ^ (q + 24).toNat < 2 ^ 24 := by
      have h2 : ((n * 2 ^ (q + 24).toNat : ℕ) : ℚ) < ((2 ^ 24 : ℕ) : ℚ) := by norm_num at hlt ⊢; exact hlt
      exact_mod_cast h2
    have : n * 2 ^ (q + 24).toNat ≤ 2 ^ 24 - 1 := by omega
    have : ((n * 2 ^ (q + 24).toNat : ℕ) : ℚ) ≤ ((2 ^ 24 - 1 : ℕ) : ℚ) := by exact_mod_cast this
    norm_num at this ⊢; exact this
  · have : (2 : ℚ) ^ (q + 24) ≤ 2 ^ (0 : ℤ) := zpow2_le (by omega)
    have hn0 : (0 : ℚ) ≤ n := by positivity
    rw [zpow_zero] at this
    nlinarith

/-- … so for x < 1 the 32-bit unclipped float write never reaches 2^31 -/
theorem ofFloat_w32_f32_lt_one (p : PcmFmt) (hw : p.w = 32) (v : Variant) (x : Nat)
    (h1 : -1 ≤ (f32.toDy x).val) (h2 : (f32.toDy x).val < 1) :
    IsRNE ((f32.toDy x).val * 2 ^ 31) (p.ofFloat f32 v true false x) ∧
    -2147483648 ≤ p.ofFloat f32 v true false x ∧ p.ofFloat f32 v true false x ≤ 2147483520 := by
  obtain ⟨r, hr, b1, b2, hc⟩ := ofFloat_w32_f32 p hw v x (by rw [abs_le]; constructor <;> linarith)
  have hle : (f32.toDy x).val * 2 ^ 31 ≤ ((2147483520 : ℤ) : ℚ) := by
    rw [Dy.val_eq] at h2 ⊢
    have hm0 := Dy.mag_nonneg (f32.toDy x)
    split at h2 <;> rename_i hs <;> simp only [hs, if_true, Bool.false_eq_true, if_false]
    · push_cast; nlinarith
    · have := f32_lt_one_grid x h2
      push_cast; norm_num at this ⊢; linarith
  have b3 := hr.le_int _ hle
  have hne : r ≠ 2147483648 := by omega
  rw [if_neg hne] at hc
  rw [hc]
  exact ⟨hr, b1, b3⟩


/-! ### float32.c / double64.c host paths -/

/-- `floatOfInt` for a value whose magnitude fits the significand: exactly x·2^k (k = 0, −15, −31) -/
theorem floatOfInt_exact (f : Fmt) (hf : f.Std) (scaleIF : Bool) (ty : Ty) (x : Int)
    (hx : x.natAbs < 2 ^ (f.mbits + 1)) :
    (f.toDy (floatOfInt f scaleIF ty x)).val =
      (x : ℚ) * 2 ^ (if !scaleIF then (0 : ℤ) else if ty = .s16 then -15 else -31) ∧
    f.isFinite (floatOfInt f scaleIF ty x) = true := by
  unfold floatOfInt
  simp only
  exact int_scale_exact f hf x x.natAbs 0 _ (by simp) hx (by omega)
    (by split <;> [omega; (split <;> omega)]) (by split <;> [omega; (split <;> omega)])

/-- `intOfFloat` with SFC_SET_SCALE_FLOAT_INT_READ off and clipping off: `lrint` of the stored value, wrapped to the
    caller's integer type -/
theorem intOfFloat_plain (f : Fmt) (hf : f.Std) (c : Conv) (ty : Ty) (x : Nat) (hx : x < 2 ^ f.width)
    (hfin : f.isFinite x = true) (hm : c.fiMult = false) (hc : c.clip = false) :
    intOfFloat f c ty x = wrapS (if ty = .s16 then 16 else 32) (lrintInt c.variant (f.toDy x)) := by
  have h1 : f.ofDy ((readScale c ty).mul (f.toDy x)) = x := by
    have : readScale c ty = ⟨false, 1, 0⟩ := by unfold readScale; simp [hm]
    rw [this]
    rw [ofDy_congr f _ (f.toDy x) (by simp [Dy.mul]) (by rw [Dy.mul_mag]; simp [Dy.mag])]
    exact ofDy_toDy f hf x hx hfin
  unfold intOfFloat
  simp only [h1, hc, Bool.false_eq_true, false_and, if_false, Bool.not_false, if_true]

end Sf.Float
