/-
  SfProofs.AbsWriteRate — the EXACT sample-period rate clause of the write-side predicate (`Sf.AbsWrite.rateOk` for the class
  `.period u bits`: HTK, 100 ns units; SDS, nanoseconds in 21 bits): what `periodQuant` evaluates to, what the clause
  accepts (`rateOk_period_iff`), and that it accepts what a quantiser of the documented shape answers
  (`rateOk_period_complete`) — for every rate, with no tolerance.
-/
import SfProofs.AbsWriteComplete
namespace Sf.AbsWriteRate
open Sf Sf.AbsWrite

theorem periodQuant_some (u b sr : Nat) (hp : 0 < u / sr) (hb : u / sr < 2 ^ b) : periodQuant u b sr = some (u / (u / sr)) := by
  unfold periodQuant
  have h1 : (u / sr == 0) = false := by simpa using Nat.ne_of_gt hp
  have h2 : decide (2 ^ b ≤ u / sr) = false := by simpa using hb
  simp only [h1, h2, Bool.or_false, Bool.false_eq_true, if_false]

theorem periodQuant_zero (u b sr : Nat) (hp : u / sr = 0) : periodQuant u b sr = none := by
  unfold periodQuant; simp [hp]

theorem periodQuant_wide (u b sr : Nat) (hb : 2 ^ b ≤ u / sr) : periodQuant u b sr = none := by
  unfold periodQuant; simp [hb]

/-- WHAT THE PERIOD CLAUSE SAYS: exactly the quantiser where the field can express the rate, any positive rate elsewhere -/
theorem rateOk_period_iff (major u b sr : Nat) (got : Int) (hc : rateClass major = .period u b) :
    rateOk major sr got = true ↔
      (0 < u / sr ∧ u / sr < 2 ^ b ∧ got = ((u / (u / sr) : Nat) : Int)) ∨ ((u / sr = 0 ∨ 2 ^ b ≤ u / sr) ∧ 1 ≤ got) := by
  unfold rateOk; rw [hc]; dsimp only
  by_cases hp : u / sr = 0
  · rw [periodQuant_zero u b sr hp]
    simp [hp]
  · by_cases hb : 2 ^ b ≤ u / sr
    · rw [periodQuant_wide u b sr hb]
      simp [hb]
      intro h; omega
    · have hpos : 0 < u / sr := Nat.pos_of_ne_zero hp
      rw [periodQuant_some u b sr hpos (Nat.not_le.1 hb)]
      simp only [beq_iff_eq]
      constructor
      · intro h; exact Or.inl ⟨hpos, Nat.not_le.1 hb, h⟩
      · rintro (⟨_, _, h⟩ | ⟨h | h, _⟩)
        · exact h
        · exact absurd h hp
        · exact absurd h hb

/-- COMPLETENESS: a reader that reports `u / (u / sr)` where the period fits the field and any positive rate elsewhere is accepted -/
theorem rateOk_period_complete (major u b sr q : Nat) (hc : rateClass major = .period u b)
    (hin : 0 < u / sr → u / sr < 2 ^ b → q = u / (u / sr)) (hout : 1 ≤ q) : rateOk major sr (q : Int) = true := by
  rw [rateOk_period_iff major u b sr _ hc]
  by_cases hp : u / sr = 0
  · exact Or.inr ⟨Or.inl hp, by omega⟩
  · by_cases hb : 2 ^ b ≤ u / sr
    · exact Or.inr ⟨Or.inr hb, by omega⟩
    · have hpos : 0 < u / sr := Nat.pos_of_ne_zero hp
      exact Or.inl ⟨hpos, Nat.not_le.1 hb, by rw [hin hpos (Nat.not_le.1 hb)]⟩

theorem rateClass_htk : rateClass 0x10 = .period (10 ^ 7) 31 := by decide
theorem rateClass_sds : rateClass 0x11 = .period (10 ^ 9) 21 := by decide

end Sf.AbsWriteRate
