/-
  SfProofs.RdwrSpec — the abstract file of property C08 and its five operations.

  "A file is a sequence of frames plus a read position and a write position."  Nothing else: no bytes, no
  header, no byte position, no `last_op`.  The frame type is a parameter; `zero` is the content of a hole
  (the frames a seek past the end followed by a write, or an extending truncate, leaves behind).
-/
namespace Sf

structure AbsFile (α : Type) where
  frames : List α
  rpos : Nat
  wpos : Nat

/-- SEEK_SET / SEEK_CUR / SEEK_END -/
inductive Whence | set | cur | fromEnd
deriving DecidableEq, Repr

/-- plain whence value, `| SFM_READ`, `| SFM_WRITE` -/
inductive Ptr | both | rd | wr
deriving DecidableEq, Repr

namespace AbsFile
variable {α : Type}

/-- read up to `k` frames at the read position; the read position advances by what was delivered -/
def read (f : AbsFile α) (k : Nat) : List α × AbsFile α :=
  let got := (f.frames.drop f.rpos).take k
  (got, { f with rpos := f.rpos + got.length })

/-- the frames in front of position `p`; a hole (`p` past the end) is filled with `zero` -/
def upTo (zero : α) (fr : List α) (p : Nat) : List α := fr.take p ++ List.replicate (p - fr.length) zero

/-- write the frames `fs` at the write position: overwrite what is there, extend when the end is passed;
    the write position advances by `fs.length`; an empty write does nothing -/
def write (zero : α) (f : AbsFile α) (fs : List α) : AbsFile α :=
  if fs = [] then f else
  { f with frames := upTo zero f.frames f.wpos ++ fs ++ f.frames.drop (f.wpos + fs.length),
           wpos := f.wpos + fs.length }

/-- the frame an offset is relative to.  A plain SEEK_CUR on a read/write handle is relative to the WRITE position -/
def base (f : AbsFile α) : Whence → Ptr → Int
  | .set, _ => 0
  | .cur, .rd => f.rpos
  | .cur, _ => f.wpos
  | .fromEnd, _ => f.frames.length

/-- seek: the target is `base + off`; a negative target is refused (−1, nothing moves); otherwise the target is
    returned and the read pointer, the write pointer, or both move there.  Any target ≥ 0 is accepted. -/
def seek (f : AbsFile α) (w : Whence) (p : Ptr) (off : Int) : Int × AbsFile α :=
  let t := f.base w p + off
  if t < 0 then (-1, f) else
  (t, match p with
      | .both => { f with rpos := t.toNat, wpos := t.toNat }
      | .rd => { f with rpos := t.toNat }
      | .wr => { f with wpos := t.toNat })

/-- SFC_FILE_TRUNCATE: exactly `n` frames remain (a count past the end extends with `zero`), both pointers at `n` -/
def truncate (zero : α) (f : AbsFile α) (n : Nat) : AbsFile α :=
  { frames := upTo zero f.frames n, rpos := n, wpos := n }

end AbsFile

/-- the operation alphabet of the statement -/
inductive AOp (α : Type)
  | read (k : Nat)
  | write (fs : List α)
  | seek (w : Whence) (p : Ptr) (off : Int)
  | truncate (n : Nat)

/-- what an operation answers: the frames read, or a number (frames written / position / status) -/
inductive AOut (α : Type)
  | frames (fs : List α)
  | num (v : Int)

def AbsFile.step {α : Type} (zero : α) (f : AbsFile α) : AOp α → AOut α × AbsFile α
  | .read k => ((f.read k).1 |> AOut.frames, (f.read k).2)
  | .write fs => (.num fs.length, f.write zero fs)
  | .seek w p off => (.num (f.seek w p off).1, (f.seek w p off).2)
  | .truncate n => (.num 0, f.truncate zero n)

def AbsFile.run {α : Type} (zero : α) (f : AbsFile α) : List (AOp α) → AbsFile α
  | [] => f
  | op :: ops => AbsFile.run zero (f.step zero op).2 ops

end Sf
