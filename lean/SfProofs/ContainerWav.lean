/-
  `wav_read_header` (wavScan / wavParse) on the images `wav_write_header` produces: the walk steps over
  fmt, fact and PEAK and stops at data with the right fields (C04, C11).
-/
import SfProofs.ContainerParse
namespace Sf
set_option linter.unusedSimpArgs false

/-! ### one step of the chunk walk, from the bytes at the cursor -/

theorem wavScan_fmt (big : Bool) (bs : List Byte) (flen fuel pos size : Nat) (s : WavScan)
    (hm : (bs.drop pos).take 4 = marker "fmt ") (hsz : rd32 big bs (pos + 4) = size)
    (h16 : 16 ≤ size) (heven : size % 2 = 0) (hnf : s.haveFmt = false) (hroom : pos + 8 + size + 8 ≤ flen) :
    wavScan big bs flen (fuel + 1) pos s =
      wavScan big bs flen fuel (pos + 8 + size)
        { s with fmtTag := rd16 big bs (pos + 8), ch := rd16 big bs (pos + 8 + 2), sr := rd32 big bs (pos + 8 + 4),
                 bits := rd16 big bs (pos + 8 + 14), haveFmt := true } := by
  have h1 : ¬ (pos + 8 > flen) := by omega
  have h2 : ¬ (size < 16) := by omega
  have h3 : ¬ (size ≥ flen) := by omega
  have h4 : ¬ (pos + 8 + size + 4 ≥ flen + 0 ∧ pos + 8 + size ≥ flen - 4) := by omega
  rw [wavScan]
  simp [h1, hm, hsz, hnf, h2, h3, h4, heven]
  intro h; omega

theorem wavScan_fact (big : Bool) (bs : List Byte) (flen fuel pos size : Nat) (s : WavScan)
    (hm : (bs.drop pos).take 4 = marker "fact") (hsz : rd32 big bs (pos + 4) = size)
    (heven : size % 2 = 0) (hroom : pos + 8 + size + 8 ≤ flen) :
    wavScan big bs flen (fuel + 1) pos s = wavScan big bs flen fuel (pos + 8 + size) s := by
  have h1 : ¬ (pos + 8 > flen) := by omega
  have h3 : ¬ (size ≥ flen) := by omega
  have h4 : ¬ (pos + 8 + size + 4 ≥ flen + 0 ∧ pos + 8 + size ≥ flen - 4) := by omega
  rw [wavScan]
  simp [h1, hm, hsz, h3, h4, heven]
  intro h; omega

theorem wavScan_peak (big : Bool) (bs : List Byte) (flen fuel pos size : Nat) (s : WavScan)
    (hm : (bs.drop pos).take 4 = marker "PEAK") (hsz : rd32 big bs (pos + 4) = size)
    (hf : s.haveFmt = true) (hsize : size = 8 + 8 * s.ch) (hroom : pos + 8 + size + 8 ≤ flen) :
    wavScan big bs flen (fuel + 1) pos s =
      wavScan big bs flen fuel (pos + 8 + size)
        { s with peak := some (parsePeaks big bs (pos + 8 + 8) s.ch), peakAtStart := !s.haveData } := by
  have h1 : ¬ (pos + 8 > flen) := by omega
  have h3 : ¬ (size ≥ flen) := by omega
  have h4 : ¬ (pos + 8 + size + 4 ≥ flen + 0 ∧ pos + 8 + size ≥ flen - 4) := by omega
  have heven : size % 2 = 0 := by omega
  rw [wavScan]
  simp [h1, hm, hsz, hf, ← hsize, h3, h4, heven]
  intro h; omega

theorem wavScan_data (big : Bool) (bs : List Byte) (flen fuel pos size : Nat) (s : WavScan)
    (hm : (bs.drop pos).take 4 = marker "data") (hsz : rd32 big bs (pos + 4) = size)
    (hf : s.haveFmt = true) (hfit : pos + 8 + size ≤ flen) (htail : flen ≤ pos + 8 + size + 1) :
    wavScan big bs flen (fuel + 1) pos s =
      some { s with dataoffset := pos + 8, datalength := ((size + size % 2 : Nat) : Int),
                    dataend := if pos + 8 + size < flen then ((pos + 8 + size : Nat) : Int) else 0, haveData := true } := by
  have h1 : ¬ (pos + 8 > flen) := by omega
  have h2 : ¬ ((size : Int) > (flen : Int) - ((pos + 8 : Nat) : Int)) := by omega
  have h3 : (((size : Int) + ((size % 2 : Nat) : Int)) : Int) = ((size + size % 2 : Nat) : Int) := by omega
  rw [wavScan]
  simp only [h1, hm, hsz, hf, if_false]
  have h2' : ¬ ((flen : Int) - ((pos : Int) + 8) < (size : Int)) := by omega
  have h5 : flen ≤ ((pos : Int) + 8 + ((size : Int) + (size : Int) % 2)).toNat + 4 := by omega
  have h6 : ((pos : Int) + 8 + ((size : Int) + (size : Int) % 2)).toNat ≥ flen - 4 := by omega
  by_cases h7 : pos + 8 + size < flen
  · have h7' : (size : Int) + ((pos : Int) + 8) < (flen : Int) := by omega
    simp [h2', h5, h6, h7, h7']; omega
  · have h7' : ¬ (size : Int) + ((pos : Int) + 8) < (flen : Int) := by omega
    simp [h2', h5, h6, h7, h7']

/-! ### the image, segment by segment -/

def wavCodecs : List Nat := [0x05, 0x02, 0x03, 0x04, 0x06, 0x07, 0x10, 0x11]

def isG711 (codec : Nat) : Bool := codec == 0x10 || codec == 0x11

/-- bits-per-sample field of the fmt chunk -/
def wavBits (codec nb : Nat) : Int := if isG711 codec then 8 else (nb : Int) * 8

/-- the image as a flat chain of fields -/
def wavChain (b : Bool) (codec nb ch : Nat) (sr : Int) (X P : List Byte) (fl dl : Int) (rest : List Byte) : List Byte :=
  (if b then marker "RIFX" else marker "RIFF") ++ (u32 b (if fl < 8 then 8 else (if fl - 8 < 0xFFFFFFFF then fl - 8 else 0xFFFFFFFF)) ++
  (marker "WAVE" ++ (marker "fmt " ++ (u32 b (if isG711 codec then 18 else 16) ++ (u16 b (wavFormatTag codec) ++ (u16 b ch ++
  (u32 b sr ++ (u32 b (sr * (nb : Int) * ch) ++ (u16 b ((nb : Int) * ch) ++ (u16 b (wavBits codec nb) ++
  ((if isG711 codec then u16 b 0 else []) ++ (X ++ (P ++ (marker "data" ++
  (u32 b (if dl < 0xFFFFFFFF then dl else 0xFFFFFFFF) ++ rest)))))))))))))))

theorem wavHdr_chain (b : Bool) (codec nb ch : Nat) (sr frames : Int) (peak : Option (List Peak)) (fl dl : Int)
    (rest : List Byte) :
    wavHdr_ct b codec nb ch sr frames peak true fl dl ++ rest =
      wavChain b codec nb ch sr (wavFact b codec frames) (wavPeakStart b ch peak true) fl dl rest := by
  unfold wavHdr_ct wavChain wavFmtChunk wavBits isG711
  by_cases hg : (codec == 0x10 || codec == 0x11) = true
  · simp only [hg, if_true, List.append_assoc]
  · simp only [hg, if_false, List.append_assoc, List.nil_append]; simp

/-! ### the steps again, from the shape of the file around the cursor -/

theorem u32_small (b : Bool) (bs : List Byte) (off : Nat) (v : Nat) (hv : v < 2 ^ 32) (h : At bs off (u32 b v)) :
    rd32 b bs off = v := by
  rw [rd32_of_At h]
  have := wrapU_of_range 32 (v : Int) (by omega) (by exact_mod_cast hv)
  omega

theorem u16_small (b : Bool) (bs : List Byte) (off : Nat) (v : Nat) (hv : v < 2 ^ 16) (h : At bs off (u16 b v)) :
    rd16 b bs off = v := by
  rw [rd16_of_At h]
  have := wrapU_of_range 16 (v : Int) (by omega) (by exact_mod_cast hv)
  omega

theorem scan_fact_at (b : Bool) (bs pre post : List Byte) (v : Int) (fuel pos : Nat) (s : WavScan)
    (hbs : bs = pre ++ (marker "fact" ++ (u32 b 4 ++ (u32 b v ++ post)))) (hpre : pre.length = pos)
    (hpost : 8 ≤ post.length) :
    wavScan b bs bs.length (fuel + 1) pos s = wavScan b bs bs.length fuel (pos + 12) s := by
  have hlen : bs.length = pos + 12 + post.length := by rw [hbs]; simp [u32_length_ct, hpre]; omega
  have hm : (bs.drop pos).take 4 = marker "fact" := by
    rw [hbs]; exact take4_of_At rfl ((At.skip pre (At.here _ _)).cast (by simp [hpre]))
  have hsz : rd32 b bs (pos + 4) = 4 := by
    rw [hbs]; exact u32_small b _ _ 4 (by decide) ((At.skip pre (At.skip _ (At.here _ _))).cast (by simp [hpre]))
  have := wavScan_fact b bs bs.length fuel pos 4 s hm hsz (by decide) (by omega)
  simpa using this

theorem scan_peak_at (b : Bool) (bs pre body post : List Byte) (ch fuel pos : Nat) (s : WavScan)
    (hbs : bs = pre ++ (marker "PEAK" ++ (u32 b ((8 + 8 * ch : Nat) : Int) ++ (body ++ post)))) (hpre : pre.length = pos)
    (hbody : body.length = 8 + 8 * ch) (hch : ch ≤ 1024) (hsch : s.ch = ch) (hf : s.haveFmt = true)
    (hpost : 8 ≤ post.length) :
    wavScan b bs bs.length (fuel + 1) pos s =
      wavScan b bs bs.length fuel (pos + 16 + 8 * ch)
        { s with peak := some (parsePeaks b bs (pos + 8 + 8) s.ch), peakAtStart := !s.haveData } := by
  have hlen : bs.length = pos + 16 + 8 * ch + post.length := by rw [hbs]; simp [u32_length_ct, hpre, hbody]; omega
  have hm : (bs.drop pos).take 4 = marker "PEAK" := by
    rw [hbs]; exact take4_of_At rfl ((At.skip pre (At.here _ _)).cast (by simp [hpre]))
  have hsz : rd32 b bs (pos + 4) = 8 + 8 * ch := by
    rw [hbs]; exact u32_small b _ _ _ (by omega) ((At.skip pre (At.skip _ (At.here _ _))).cast (by simp [hpre]))
  have := wavScan_peak b bs bs.length fuel pos (8 + 8 * ch) s hm hsz hf (by rw [hsch]) (by omega)
  rw [this]; congr 1; omega

theorem scan_data_at (b : Bool) (bs pre rest : List Byte) (dl fuel pos : Nat) (s : WavScan)
    (hbs : bs = pre ++ (marker "data" ++ (u32 b (dl : Int) ++ rest))) (hpre : pre.length = pos)
    (hdl : dl < 2 ^ 32) (hf : s.haveFmt = true) (hr1 : dl ≤ rest.length) (hr2 : rest.length ≤ dl + 1) :
    wavScan b bs bs.length (fuel + 1) pos s =
      some { s with dataoffset := pos + 8, datalength := ((dl + dl % 2 : Nat) : Int),
                    dataend := if dl < rest.length then ((pos + 8 + dl : Nat) : Int) else 0, haveData := true } := by
  have hlen : bs.length = pos + 8 + rest.length := by rw [hbs]; simp [u32_length_ct, hpre]; omega
  have hm : (bs.drop pos).take 4 = marker "data" := by
    rw [hbs]; exact take4_of_At rfl ((At.skip pre (At.here _ _)).cast (by simp [hpre]))
  have hsz : rd32 b bs (pos + 4) = dl := by
    rw [hbs]; exact u32_small b _ _ dl hdl ((At.skip pre (At.skip _ (At.here _ _))).cast (by simp [hpre]))
  rw [wavScan_data b bs bs.length fuel pos dl s hm hsz hf (by omega) (by omega)]
  have : (pos + 8 + dl < bs.length) ↔ (dl < rest.length) := by omega
  simp only [this]

theorem scan_fmt_at (b : Bool) (bs pre ext tailA : List Byte) (fsz tag ch bits : Nat) (sr br al : Int) (fuel : Nat)
    (hbs : bs = pre ++ (marker "fmt " ++ (u32 b (fsz : Int) ++ (u16 b (tag : Int) ++ (u16 b (ch : Int) ++ (u32 b sr ++
              (u32 b br ++ (u16 b al ++ (u16 b (bits : Int) ++ (ext ++ tailA))))))))))
    (hpre : pre.length = 12) (hfsz : fsz = 16 + ext.length) (hext : ext.length = 0 ∨ ext.length = 2)
    (htail : 8 ≤ tailA.length) (htag : tag < 2 ^ 16) (hch : ch < 2 ^ 16) (hbits : bits < 2 ^ 16) :
    wavScan b bs bs.length (fuel + 1) 12 {} =
      wavScan b bs bs.length fuel (36 + ext.length)
        { fmtTag := tag, ch := ch, sr := wrapU 32 sr, bits := bits, haveFmt := true } := by
  have hlen : bs.length = 36 + ext.length + tailA.length := by rw [hbs]; simp [u32_length_ct, u16_length_ct, hpre]; omega
  have hm : (bs.drop 12).take 4 = marker "fmt " := by
    rw [hbs]; exact take4_of_At rfl ((At.skip pre (At.here _ _)).cast (by simp [hpre]))
  have hsz : rd32 b bs (12 + 4) = fsz := by
    rw [hbs]; exact u32_small b _ _ fsz (by omega) ((At.skip pre (At.skip _ (At.here _ _))).cast (by simp [hpre]))
  have htagr : rd16 b bs (12 + 8) = tag := by
    rw [hbs]; exact u16_small b _ _ tag htag
      ((At.skip pre (At.skip _ (At.skip _ (At.here _ _)))).cast (by simp [hpre, u32_length_ct]))
  have hchr : rd16 b bs (12 + 8 + 2) = ch := by
    rw [hbs]; exact u16_small b _ _ ch hch
      ((At.skip pre (At.skip _ (At.skip _ (At.skip _ (At.here _ _))))).cast (by simp [hpre, u32_length_ct, u16_length_ct]))
  have hsrr : rd32 b bs (12 + 8 + 4) = wrapU 32 sr := by
    rw [hbs]; exact rd32_of_At
      ((At.skip pre (At.skip _ (At.skip _ (At.skip _ (At.skip _ (At.here _ _)))))).cast (by simp [hpre, u32_length_ct, u16_length_ct]))
  have hbitsr : rd16 b bs (12 + 8 + 14) = bits := by
    rw [hbs]; exact u16_small b _ _ bits hbits
      ((At.skip pre (At.skip _ (At.skip _ (At.skip _ (At.skip _ (At.skip _ (At.skip _ (At.skip _ (At.here _ _))))))))).cast
        (by simp [hpre, u32_length_ct, u16_length_ct]))
  have := wavScan_fmt b bs bs.length fuel 12 fsz {} hm hsz (by omega) (by omega) rfl (by omega)
  rw [this, htagr, hchr, hsrr, hbitsr]
  congr 1; omega

theorem wavFormatTag_lt (codec : Nat) : wavFormatTag codec < 2 ^ 16 := by
  unfold wavFormatTag; split <;> decide

/-- the walk over a whole image: fmt, then optionally fact, then optionally PEAK, then data -/
theorem wavScan_chain (b : Bool) (codec nb ch : Nat) (sr : Int) (X P : List Byte) (fl : Int) (dl : Nat) (rest : List Byte)
    (hch : ch ≤ 1024) (hnb : nb ≤ 8)
    (hX : X = [] ∨ ∃ v, X = marker "fact" ++ (u32 b 4 ++ u32 b v))
    (hP : P = [] ∨ ∃ body, P = marker "PEAK" ++ (u32 b ((8 + 8 * ch : Nat) : Int) ++ body) ∧ body.length = 8 + 8 * ch)
    (hdl : dl < 0xFFFFFFFF) (hr1 : dl ≤ rest.length) (hr2 : rest.length ≤ dl + 1) :
    ∃ pk, wavScan b (wavChain b codec nb ch sr X P fl dl rest) (wavChain b codec nb ch sr X P fl dl rest).length 64 12 {} =
      some { fmtTag := wavFormatTag codec, ch := ch, sr := wrapU 32 sr, bits := (wavBits codec nb).toNat, haveFmt := true,
             dataoffset := 16 + wavFmtLen codec + X.length + P.length + 8, datalength := ((dl + dl % 2 : Nat) : Int),
             dataend := if dl < rest.length then ((16 + wavFmtLen codec + X.length + P.length + 8 + dl : Nat) : Int) else 0,
             peak := pk, peakAtStart := true, haveData := true } := by
  have hfl0 : wavFmtLen codec = 20 + (if isG711 codec then u16 b 0 else []).length := by
    unfold wavFmtLen isG711; split <;> simp [u16_length_ct]
  have hfsz0 : (if isG711 codec then (18 : Int) else 16) = ((16 + (if isG711 codec then u16 b 0 else []).length : Nat) : Int) := by
    split <;> simp [u16_length_ct]
  have hbits : wavBits codec nb = (((wavBits codec nb).toNat : Nat) : Int) := by
    unfold wavBits; split <;> omega
  have hbitsl : (wavBits codec nb).toNat < 2 ^ 16 := by unfold wavBits; split <;> omega
  have hdlv : (if (dl : Int) < 0xFFFFFFFF then (dl : Int) else 0xFFFFFFFF) = (dl : Int) := by
    have : (dl : Int) < 0xFFFFFFFF := by omega
    simp [this]
  unfold wavChain
  rw [hfsz0, hbits, hdlv, hfl0]
  generalize (if isG711 codec then u16 b 0 else []) = ext at *
  have hextl : ext.length = 0 ∨ ext.length = 2 := by omega
  generalize hR : (if b then marker "RIFX" else marker "RIFF") = R
  have hRl : R.length = 4 := by rw [← hR]; cases b <;> rfl
  generalize hU : u32 b (if fl < 8 then 8 else (if fl - 8 < 0xFFFFFFFF then fl - 8 else 0xFFFFFFFF)) = U
  have hUl : U.length = 4 := by rw [← hU]; exact u32_length_ct _ _
  generalize hbs : R ++ (U ++ (marker "WAVE" ++ (marker "fmt " ++ (u32 b ((16 + ext.length : Nat) : Int) ++
      (u16 b ((wavFormatTag codec : Nat) : Int) ++ (u16 b (ch : Int) ++ (u32 b sr ++ (u32 b (sr * (nb : Int) * ch) ++
      (u16 b ((nb : Int) * ch) ++ (u16 b (((wavBits codec nb).toNat : Nat) : Int) ++
      (ext ++ (X ++ (P ++ (marker "data" ++ (u32 b (dl : Int) ++ rest))))))))))))))) = bs
  -- stage A: fmt
  have hA : bs = (R ++ (U ++ marker "WAVE")) ++ (marker "fmt " ++ (u32 b ((16 + ext.length : Nat) : Int) ++
      (u16 b ((wavFormatTag codec : Nat) : Int) ++ (u16 b (ch : Int) ++ (u32 b sr ++ (u32 b (sr * (nb : Int) * ch) ++
      (u16 b ((nb : Int) * ch) ++ (u16 b (((wavBits codec nb).toNat : Nat) : Int) ++
      (ext ++ (X ++ (P ++ (marker "data" ++ (u32 b (dl : Int) ++ rest))))))))))))) := by
    rw [← hbs]; simp only [List.append_assoc]
  have eA := scan_fmt_at b bs _ ext _ _ _ ch _ sr _ _ 63 hA (by simp [hRl, hUl]) rfl hextl
    (by simp [u32_length_ct]; omega) (wavFormatTag_lt codec) (by omega) hbitsl
  rw [eA]
  obtain ⟨pa, hpa, hpal⟩ : ∃ pa : List Byte,
      bs = pa ++ (X ++ (P ++ (marker "data" ++ (u32 b (dl : Int) ++ rest)))) ∧ pa.length = 36 + ext.length :=
    ⟨R ++ (U ++ (marker "WAVE" ++ (marker "fmt " ++ (u32 b ((16 + ext.length : Nat) : Int) ++
      (u16 b ((wavFormatTag codec : Nat) : Int) ++ (u16 b (ch : Int) ++ (u32 b sr ++ (u32 b (sr * (nb : Int) * ch) ++
      (u16 b ((nb : Int) * ch) ++ (u16 b (((wavBits codec nb).toNat : Nat) : Int) ++ ext)))))))))),
     by rw [← hbs]; simp only [List.append_assoc], by simp [hRl, hUl, u32_length_ct, u16_length_ct]; omega⟩
  clear hA eA hbs
  rcases hX with hX | ⟨v, hX⟩ <;> rcases hP with hP | ⟨body, hP, hbody⟩ <;> subst hX <;> subst hP
  · -- no fact, no PEAK
    simp only [List.nil_append] at hpa
    rw [scan_data_at b bs pa rest dl 62 _ _ hpa hpal (by omega) rfl hr1 hr2]
    refine ⟨none, ?_⟩
    have e1 : 16 + (20 + ext.length) + 8 = 36 + ext.length + 8 := by omega
    simp only [List.length_nil, Nat.add_zero, Int.toNat_natCast, e1]
  · -- PEAK only
    simp only [List.nil_append, List.append_assoc] at hpa
    rw [scan_peak_at b bs pa body _ ch 62 _ _ hpa hpal hbody hch rfl rfl (by simp [u32_length_ct])]
    have hpa2 : bs = (pa ++ (marker "PEAK" ++ (u32 b ((8 + 8 * ch : Nat) : Int) ++ body))) ++
        (marker "data" ++ (u32 b (dl : Int) ++ rest)) := by rw [hpa]; simp only [List.append_assoc]
    rw [scan_data_at b bs _ rest dl 61 _ _ hpa2 (by simp [hpal, u32_length_ct, hbody] <;> omega) (by omega) rfl hr1 hr2]
    refine ⟨some (parsePeaks b bs (36 + ext.length + 8 + 8) ch), ?_⟩
    have e1 : 16 + (20 + ext.length) + 0 + (4 + (4 + (8 + 8 * ch))) + 8 = 36 + ext.length + 16 + 8 * ch + 8 := by omega
    simp [u32_length_ct, hbody, e1]
    refine ⟨?_, ?_, ?_⟩ <;> (try split) <;> omega
  · -- fact only
    simp only [List.nil_append, List.append_assoc] at hpa
    rw [scan_fact_at b bs pa _ v 62 _ _ hpa hpal (by simp [u32_length_ct])]
    have hpa2 : bs = (pa ++ (marker "fact" ++ (u32 b 4 ++ u32 b v))) ++
        (marker "data" ++ (u32 b (dl : Int) ++ rest)) := by rw [hpa]; simp only [List.append_assoc]
    rw [scan_data_at b bs _ rest dl 61 _ _ hpa2 (by simp [hpal, u32_length_ct] <;> omega) (by omega) rfl hr1 hr2]
    refine ⟨none, ?_⟩
    simp [u32_length_ct]
    refine ⟨?_, ?_, ?_⟩ <;> (try split) <;> omega
  · -- fact and PEAK
    simp only [List.append_assoc] at hpa
    rw [scan_fact_at b bs pa _ v 62 _ _ hpa hpal (by simp [u32_length_ct])]
    have hpa1 : bs = (pa ++ (marker "fact" ++ (u32 b 4 ++ u32 b v))) ++
        (marker "PEAK" ++ (u32 b ((8 + 8 * ch : Nat) : Int) ++ (body ++ (marker "data" ++ (u32 b (dl : Int) ++ rest))))) := by
      rw [hpa]; simp only [List.append_assoc]
    rw [scan_peak_at b bs _ body _ ch 61 _ _ hpa1 (by simp [hpal, u32_length_ct] <;> omega) hbody hch rfl rfl (by simp [u32_length_ct])]
    have hpa2 : bs = (pa ++ (marker "fact" ++ (u32 b 4 ++ u32 b v)) ++ (marker "PEAK" ++ (u32 b ((8 + 8 * ch : Nat) : Int) ++ body))) ++
        (marker "data" ++ (u32 b (dl : Int) ++ rest)) := by rw [hpa]; simp only [List.append_assoc]
    rw [scan_data_at b bs _ rest dl 60 _ _ hpa2 (by simp [hpal, u32_length_ct, hbody] <;> omega) (by omega) rfl hr1 hr2]
    refine ⟨some (parsePeaks b bs (36 + ext.length + 12 + 8 + 8) ch), ?_⟩
    simp [u32_length_ct, hbody]
    refine ⟨?_, ?_, ?_⟩ <;> (try split) <;> omega

/-! ### wavParse on the image -/

/-- bytes per sample of a WAV codec -/
def wavNb : Nat → Nat
  | 0x05 => 1 | 0x02 => 2 | 0x03 => 3 | 0x04 => 4 | 0x06 => 4 | 0x07 => 8 | 0x10 => 1 | 0x11 => 1 | _ => 0

theorem wavParse_chain (b : Bool) (codec ch : Nat) (sr : Int) (X P : List Byte) (fl : Int) (dl : Nat) (rest : List Byte)
    (hcodec : codec ∈ wavCodecs) (hch : 1 ≤ ch ∧ ch ≤ 1024)
    (hX : X = [] ∨ ∃ v, X = marker "fact" ++ (u32 b 4 ++ u32 b v))
    (hP : P = [] ∨ ∃ body, P = marker "PEAK" ++ (u32 b ((8 + 8 * ch : Nat) : Int) ++ body) ∧ body.length = 8 + 8 * ch)
    (hdl : dl < 0xFFFFFFFF) (hr1 : dl ≤ rest.length) (hr2 : rest.length ≤ dl + 1) :
    ∃ pk, wavParse (wavChain b codec (wavNb codec) ch sr X P fl dl rest) =
      .ok { fmtWord := (if b then 0x20000000 else 0) + 0x010000 + codec, ch := ch, sr := wrapU 32 sr, big := b,
            dataoffset := 16 + wavFmtLen codec + X.length + P.length + 8, datalength := ((dl + dl % 2 : Nat) : Int),
            dataend := if dl < rest.length then ((16 + wavFmtLen codec + X.length + P.length + 8 + dl : Nat) : Int) else 0,
            filelength := ((16 + wavFmtLen codec + X.length + P.length + 8 + rest.length : Nat) : Int),
            peak := pk, peakAtStart := true } := by
  obtain ⟨pk, hscan⟩ := wavScan_chain b codec (wavNb codec) ch sr X P fl dl rest hch.2
    (by simp [wavCodecs] at hcodec; rcases hcodec with h | h | h | h | h | h | h | h <;> subst h <;> decide) hX hP hdl hr1 hr2
  refine ⟨pk, ?_⟩
  generalize hbs : wavChain b codec (wavNb codec) ch sr X P fl dl rest = bs at hscan ⊢
  have hlen : bs.length = 16 + wavFmtLen codec + X.length + P.length + 8 + rest.length := by
    rw [← hbs]; unfold wavChain wavFmtLen isG711
    by_cases hg : (codec == 0x10 || codec == 0x11) = true <;> cases b <;>
      simp [hg, u32_length_ct, u16_length_ct] <;> omega
  have htake : bs.take 4 = (if b then marker "RIFX" else marker "RIFF") := by
    rw [← hbs]; unfold wavChain; cases b <;> simp
  have hwave : (bs.drop 8).take 4 = marker "WAVE" := by
    rw [← hbs]; unfold wavChain
    exact take4_of_At rfl ((At.skip _ (At.skip _ (At.here _ _))).cast (by cases b <;> simp [u32_length_ct]))
  have hbig : ((if b then marker "RIFX" else marker "RIFF") == marker "RIFX") = b := by cases b <;> decide
  have hlit : ((if b then marker "RIFX" else marker "RIFF") == marker "RIFF") = !b := by cases b <;> decide
  have hww : (marker "WAVE" != marker "WAVE") = false := by decide
  unfold wavParse
  rw [hlen] at hscan
  simp only [htake, hwave, hlen, hbig, hlit, hscan, hww]
  have h12 : ¬ (16 + wavFmtLen codec + X.length + P.length + 8 + rest.length < 12) := by omega
  have hc1 : ¬ (ch < 1 ∨ ch > 1024) := by omega
  simp [wavCodecs] at hcodec
  rcases hcodec with h | h | h | h | h | h | h | h <;> subst h <;> cases b <;>
    simp [h12, hc1, wavFormatTag, wavBits, isG711, wavNb] <;> omega

/-! ### from the session image to the parser -/

theorem encOf_wav_facts {codec : Nat} {big : Bool} {enc : Enc} (h : encOf .wav codec big = some enc) :
    codec ∈ wavCodecs ∧ enc.nbytes = wavNb codec := by
  unfold encOf at h
  split at h <;> (try split at h) <;> (try cases h) <;> simp_all [wavCodecs, wavNb, Enc.nbytes, PcmFmt.nbytes]

theorem wav_fmtWord_facts (big : Bool) (codec : Nat) (h : codec ∈ wavCodecs) :
    containerOf ((if big then 0x20000000 else 0) + 0x010000 + codec) = some .wav ∧
    codecOf ((if big then 0x20000000 else 0) + 0x010000 + codec) = codec := by
  simp [wavCodecs] at h
  rcases h with h | h | h | h | h | h | h | h <;> subst h <;> cases big <;> decide

theorem wavFact_shape (b : Bool) (codec : Nat) (frames : Int) :
    wavFact b codec frames = [] ∨ ∃ v, wavFact b codec frames = marker "fact" ++ (u32 b 4 ++ u32 b v) := by
  unfold wavFact; split
  · right; exact ⟨frames, by simp only [List.append_assoc]⟩
  · left; rfl

theorem wavPeakStart_shape (b : Bool) (ch : Nat) (peak : Option (List Peak)) (hp : ∀ ps, peak = some ps → ps.length = ch) :
    wavPeakStart b ch peak true = [] ∨
    ∃ body, wavPeakStart b ch peak true = marker "PEAK" ++ (u32 b ((8 + 8 * ch : Nat) : Int) ++ body) ∧ body.length = 8 + 8 * ch := by
  cases peak with
  | none => left; rfl
  | some ps =>
    right
    have hl := hp ps rfl
    have hlen := peakChk_length b ch ps
    refine ⟨u32 b 1 ++ (u32 b 1000000000 ++ ps.flatMap fun p => u32 b (wrF32 (Float.f64to32 p.value)) ++ u32 b p.position), ?_, ?_⟩
    · simp only [wavPeakStart, if_true, peakChk, List.append_assoc]
      have : (8 + 8 * (ch : Int)) = ((8 + 8 * ch : Nat) : Int) := by omega
      rw [this]
    · have : (peakChk b ch ps).length = 4 + (4 + (u32 b 1 ++ (u32 b 1000000000 ++ ps.flatMap fun p => u32 b (wrF32 (Float.f64to32 p.value)) ++ u32 b p.position)).length) := by
        simp only [peakChk, List.append_assoc, List.length_append, u32_length_ct]; rfl
      omega

theorem parseAny_wav (b : Bool) (codec nb ch : Nat) (sr : Int) (X P : List Byte) (fl dl : Int) (rest : List Byte) :
    parseAny (wavChain b codec nb ch sr X P fl dl rest) = wavParse (wavChain b codec nb ch sr X P fl dl rest) := by
  unfold parseAny wavChain
  cases b <;> simp

theorem initFrames_dataend (off len extra bw : Nat) (hbw : 0 < bw) (hx : 0 < extra) (ho : 0 < off) :
    (initFrames (off : Int) ((off + len : Nat) : Int) ((off + len + extra : Nat) : Int) bw).2 = ((len / bw : Nat) : Int) := by
  unfold initFrames
  have h1 : ((off + len + extra : Nat) : Int) > (off : Int) := by omega
  have h2 : ((off + len : Nat) : Int) > 0 := by omega
  have h3 : ((off + len : Nat) : Int) - (off : Int) = (len : Int) := by omega
  simp only [h1, h2, if_true, hbw, h3]
  rfl

/-- WAV: parse and re-open of header ++ data ++ (at most one pad byte), for any RIFF length field -/
theorem wav_image_reopen (c : Cfg) (a : Abs) (fl : Int) (tail : List Byte)
    (hc : c.container = .wav) (hch : 1 ≤ c.ch ∧ c.ch ≤ 1024) (hsr : 1 ≤ c.sr ∧ c.sr ≤ 0x7FFFFFFF)
    (henc : encOf .wav (codecOf c.fmtWord) c.big = some c.enc)
    (hd : a.data.length = a.frames * c.bw) (hpk : ∀ ps, a.peak = some ps → ps.length = c.ch)
    (hpkS : a.peak.isSome = c.hasPeak) (hguard : a.data.length < 0xFFFFFFFF) (htail : tail.length ≤ 1) :
    ∃ p, wavParse (hdrBytes c a fl a.data.length ++ a.data ++ tail) = .ok p ∧ p.ch = c.ch ∧ p.sr = c.sr ∧
      p.fmtWord = (if c.big then 0x20000000 else 0) + 0x010000 + codecOf c.fmtWord ∧ p.big = c.big ∧
      p.dataoffset = c.hdrLen ∧ (hdrBytes c a fl a.data.length ++ a.data ++ tail).drop c.hdrLen = a.data ++ tail ∧
      ∀ (ix pos fmt0 : Nat) (ch0 sr0 : Int), containerOf fmt0 ≠ some .raw →
        ∃ h' s', openHandle ix ⟨hdrBytes c a fl a.data.length ++ a.data ++ tail, pos⟩ .r fmt0 ch0 sr0 = .ok h' s' ∧
          h'.frames = a.frames ∧ h'.ch = c.ch ∧ h'.sr = c.sr ∧ h'.fmtWord = p.fmtWord ∧ h'.enc = c.enc ∧
          h'.container = .wav ∧ s'.pos = c.hdrLen := by
  obtain ⟨hcodec, hnb⟩ := encOf_wav_facts henc
  have hL : c.hdrLen = wavHdrLen_ct (codecOf c.fmtWord) c.ch c.hasPeak := by simp [Cfg.hdrLen, hc]
  have hhl : (hdrBytes c a fl a.data.length).length = c.hdrLen := hdrBytes_length c a _ _ hpkS hpk
  -- the image as a chain
  have himg : hdrBytes c a fl a.data.length ++ a.data ++ tail =
      wavChain c.big (codecOf c.fmtWord) (wavNb (codecOf c.fmtWord)) c.ch c.sr (wavFact c.big (codecOf c.fmtWord) a.frames)
        (wavPeakStart c.big c.ch a.peak true) fl a.data.length (a.data ++ tail) := by
    rw [List.append_assoc, ← wavHdr_chain, ← hnb]; simp [hdrBytes, hc]
  have hoff : 16 + wavFmtLen (codecOf c.fmtWord) + (wavFact c.big (codecOf c.fmtWord) a.frames).length +
      (wavPeakStart c.big c.ch a.peak true).length + 8 = c.hdrLen := by
    rw [hL, ← hpkS, wavFact_length]; unfold wavHdrLen_ct
    cases hp : a.peak with
    | none => simp [wavPeakStart]
    | some ps => simp [wavPeakStart, peakChk_length, hpk ps hp]
  obtain ⟨pk, hparse⟩ := wavParse_chain c.big (codecOf c.fmtWord) c.ch c.sr _ _ fl a.data.length (a.data ++ tail)
    hcodec hch (wavFact_shape _ _ _) (wavPeakStart_shape _ _ _ hpk) hguard (by simp) (by simp; omega)
  rw [hoff] at hparse
  obtain ⟨hf1, hf2⟩ := wav_fmtWord_facts c.big _ hcodec
  have hsrw : ((wrapU 32 c.sr : Nat) : Int) = c.sr := wrapU_of_range 32 c.sr (by omega) (by omega)
  rw [himg]
  refine ⟨_, hparse, rfl, hsrw, rfl, rfl, rfl, ?_, ?_⟩
  · rw [← himg, List.append_assoc, ← hhl]; simp
  · intro ix pos fmt0 ch0 sr0 hraw
    have hbw : 0 < c.enc.nbytes * c.ch := Nat.mul_pos (encOf_nbytes_pos_ct henc) (by omega)
    obtain ⟨h', s', ho, hfr, h1, h2, h3, h4, h5, _, _, _, _, h6⟩ :=
      openHandle_r_parsed ix _ pos fmt0 ch0 sr0 _ .wav c.enc hraw (by rw [parseAny_wav]; exact hparse) hf1
        (by rw [hf2]; exact henc) (by simp only; rw [hsrw]; exact hsr.1)
    refine ⟨h', s', ho, ?_, h1, by rw [h2]; exact hsrw, h3, h4, h5, h6⟩
    rw [hfr]
    have hN : a.data.length / (c.enc.nbytes * c.ch) = a.frames := by rw [hd, Cfg.bw, Nat.mul_div_cancel _ hbw]
    simp only [List.length_append]
    rcases Nat.eq_zero_or_pos tail.length with ht | ht
    · have e1 : ¬ (a.data.length < a.data.length + tail.length) := by omega
      have e2 : c.hdrLen + (a.data.length + tail.length) = c.hdrLen + a.data.length := by omega
      simp only [e1, if_false, e2]
      rw [initFrames_plain c.hdrLen a.data.length _ hbw, hN]
    · have e1 : a.data.length < a.data.length + tail.length := by omega
      have e2 : c.hdrLen + (a.data.length + tail.length) = c.hdrLen + a.data.length + tail.length := by omega
      simp only [e1, if_true, e2]
      rw [initFrames_dataend c.hdrLen a.data.length tail.length _ hbw ht (by rw [hL]; unfold wavHdrLen_ct; omega), hN]

end Sf
