/-
  SfProofs.AiffRate — the 80-bit sample rate of AIFF: `ten2int (int2ten r) = r` for 1 ≤ r < 2^30,
  and the collapse to 800000000 from 2^30 on.
-/
import SfModel.Aiff
namespace Sf.Aiff

theorem beBytes4 (v : Nat) : beBytes 4 v = [v / 2 ^ 24 % 256, v / 2 ^ 16 % 256, v / 2 ^ 8 % 256, v % 256] := by
  simp [beBytes, leBytes, Nat.div_div_eq_div_mul]

theorem beBytes2 (v : Nat) : beBytes 2 v = [v / 2 ^ 8 % 256, v % 256] := by
  simp [beBytes, leBytes]

/-- the bit scan finds the top bit: with `mask = 2^j` and `num < 2^(j+1)`, `num ≥ 1`, enough fuel -/
theorem scan_spec (num : Nat) : ∀ (fuel count j : Nat), j < fuel → 1 ≤ num → num < 2 ^ (j + 1) →
    ∃ k, k ≤ j ∧ scan num fuel count (2 ^ j) = count + k ∧ 2 ^ (j - k) ≤ num ∧ num < 2 ^ (j - k + 1)
  | 0, _, _, h, _, _ => by omega
  | fuel+1, count, j, hf, h1, h2 => by
    unfold scan
    by_cases hb : 2 ^ j ≤ num
    · have hd : num / 2 ^ j = 1 := by
        have hp : 0 < 2 ^ j := Nat.two_pow_pos _
        have : num / 2 ^ j < 2 := by
          rw [Nat.div_lt_iff_lt_mul hp]; rw [Nat.pow_succ] at h2; omega
        have : 1 ≤ num / 2 ^ j := (Nat.le_div_iff_mul_le hp).2 (by omega)
        omega
      simp [hd]
      exact ⟨0, by omega, by omega, by simpa using hb, by simpa using h2⟩
    · have hlt : num < 2 ^ j := by omega
      have hd : num / 2 ^ j = 0 := Nat.div_eq_of_lt hlt
      simp [hd]
      cases j with
      | zero => simp at hlt; omega
      | succ j' =>
        have hm : 2 ^ (j' + 1) / 2 = 2 ^ j' := by rw [Nat.pow_succ]; omega
        rw [hm]
        obtain ⟨k, hk, hs, hlo, hhi⟩ := scan_spec num fuel (count + 1) j' (by omega) h1 hlt
        refine ⟨k + 1, by omega, by rw [hs]; omega, ?_, ?_⟩
        · have : j' + 1 - (k + 1) = j' - k := by omega
          rw [this]; exact hlo
        · have : j' + 1 - (k + 1) = j' - k := by omega
          rw [this]; exact hhi

theorem ten2int_int2ten_exact (r : Nat) (h1 : 1 ≤ r) (h2 : r < 2 ^ 31) : ten2int (int2ten r) = r := by
  by_cases hr1 : r ≤ 1
  · have : r = 1 := by omega
    subst this; decide
  · unfold int2ten
    simp only [hr1, if_false]
    obtain ⟨k, hk, hs, hlo, hhi⟩ := scan_spec r 32 0 31 (by omega) (by omega) (by omega : r < 2 ^ (31 + 1))
    have h31 : (0x80000000 : Nat) = 2 ^ 31 := by decide
    rw [h31, hs]
    simp only [Nat.zero_add]
    have hk1 : 1 ≤ k := by
      rcases Nat.eq_zero_or_pos k with h0 | h0
      · subst h0; simp at hlo; omega
      · exact h0
    have hk30 : k ≤ 30 := by
      rcases Nat.lt_or_ge k 31 with h | h
      · omega
      · have : k = 31 := by omega
        subst this; simp at hhi; omega
    have hpow : 2 ^ (31 - k + 1) * 2 ^ k = 2 ^ 32 := by
      rw [← Nat.pow_add]; congr 1; omega
    have hpow2 : 2 ^ (31 - k) * 2 ^ k = 2 ^ 31 := by
      rw [← Nat.pow_add]; congr 1; omega
    have hp : 0 < 2 ^ k := Nat.two_pow_pos _
    have hlt : r * 2 ^ k < 2 ^ 32 := by
      rw [← hpow]; exact Nat.mul_lt_mul_of_pos_right hhi hp
    have hge31 : 2 ^ 31 ≤ r * 2 ^ k := by
      rw [← hpow2]; exact Nat.mul_le_mul_right _ hlo
    rw [Nat.mod_eq_of_lt hlt]
    generalize hsh : r * 2 ^ k = sh at hlt hge31
    have hb1 : wrapU 8 (30 - (k : Int)) = 30 - k := by
      unfold wrapU
      have : (30 - (k : Int)) % (2 ^ 8 : Int) = ((30 - k : Nat) : Int) := by omega
      rw [this]; simp
    unfold ten2int
    simp only [List.getD_cons_zero, List.getD_cons_succ, hb1]
    have c1 : ¬ (0x40 : Nat) ≥ 0x80 := by decide
    have c2 : ¬ (0x40 : Nat) ≤ 0x3F := by decide
    have c3 : ¬ (0x40 : Nat) > 0x40 := by decide
    have c4 : ¬ (30 - k > 0x1D) := by omega
    simp only [c1, c2, c3, c4, if_false]
    have hsum : sh / 2 ^ 24 % 256 * 2 ^ 23 + sh / 2 ^ 16 % 256 * 2 ^ 15 + sh / 2 ^ 8 % 256 * 2 ^ 7 + sh % 256 / 2 = sh / 2 := by
      simp only [Nat.reducePow]
      omega
    rw [hsum]
    have hsub : 29 - (30 - k) = k - 1 := by omega
    rw [hsub]
    have : sh / 2 / 2 ^ (k - 1) = r := by
      rw [Nat.div_div_eq_div_mul, ← hsh]
      have : 2 * 2 ^ (k - 1) = 2 ^ k := by
        have : k = (k - 1) + 1 := by omega
        rw [this, Nat.pow_succ]; simp; omega
      rw [this, Nat.mul_div_cancel _ hp]
    rw [this]

theorem int2ten_length (r : Nat) : (int2ten r).length = 10 := by
  unfold int2ten; split <;> rfl

/-! ### the old rule -/

theorem ten2intOld_int2tenOld_small (r : Nat) (h1 : 1 ≤ r) (h2 : r < 2 ^ 30) : ten2intOld (int2tenOld r) = r := by
  by_cases hr1 : r ≤ 1
  · have : r = 1 := by omega
    subst this; decide
  · unfold int2tenOld
    have hge : ¬ r ≥ 0x40000000 := by omega
    simp only [hr1, hge, if_false]
    obtain ⟨k, hk, hs, hlo, hhi⟩ := scan_spec r 32 0 30 (by omega) (by omega) (by omega : r < 2 ^ (30 + 1))
    have h30 : (0x40000000 : Nat) = 2 ^ 30 := by decide
    rw [h30, hs]
    simp only [Nat.zero_add]
    -- the top bit is at position 30 - k, and k ≥ 1 because r < 2^30
    have hk1 : 1 ≤ k := by
      rcases Nat.eq_zero_or_pos k with h0 | h0
      · subst h0; simp at hlo; omega
      · exact h0
    have hk29 : k ≤ 29 := by
      rcases Nat.lt_or_ge k 30 with h | h
      · omega
      · have : k = 30 := by omega
        subst this; simp at hhi; omega
    have hk31 : k < 31 := by omega
    simp only [hk31, if_true]
    -- no wrap in the shift: r * 2^(k+1) < 2^32, and it is ≥ 2^31
    have hpow : 2 ^ (30 - k + 1) * 2 ^ (k + 1) = 2 ^ 32 := by
      rw [← Nat.pow_add]; congr 1; omega
    have hpow2 : 2 ^ (30 - k) * 2 ^ (k + 1) = 2 ^ 31 := by
      rw [← Nat.pow_add]; congr 1; omega
    have hp : 0 < 2 ^ (k + 1) := Nat.two_pow_pos _
    have hlt : r * 2 ^ (k + 1) < 2 ^ 32 := by
      rw [← hpow]; exact Nat.mul_lt_mul_of_pos_right hhi hp
    have hge31 : 2 ^ 31 ≤ r * 2 ^ (k + 1) := by
      rw [← hpow2]; exact Nat.mul_le_mul_right _ hlo
    rw [Nat.mod_eq_of_lt hlt]
    generalize hsh : r * 2 ^ (k + 1) = sh at hlt hge31
    have hb1 : wrapU 8 (29 - (k : Int)) = 29 - k := by
      unfold wrapU
      have : (29 - (k : Int)) % (2 ^ 8 : Int) = ((29 - k : Nat) : Int) := by omega
      rw [this]; simp
    unfold ten2intOld
    simp only [List.getD_cons_zero, List.getD_cons_succ, hb1]
    have c1 : ¬ (0x40 : Nat) ≥ 0x80 := by decide
    have c2 : ¬ (0x40 : Nat) ≤ 0x3F := by decide
    have c3 : ¬ (0x40 : Nat) > 0x40 := by decide
    have c4 : ¬ (29 - k > 0x1C) := by omega
    simp only [c1, c2, c3, c4, if_false]
    have hsum : sh / 2 ^ 24 % 256 * 2 ^ 23 + sh / 2 ^ 16 % 256 * 2 ^ 15 + sh / 2 ^ 8 % 256 * 2 ^ 7 + sh % 256 / 2 = sh / 2 := by
      simp only [Nat.reducePow]
      omega
    rw [hsum]
    have hsub : 29 - (29 - k) = k := by omega
    rw [hsub]
    have : sh / 2 / 2 ^ k = r := by
      rw [Nat.div_div_eq_div_mul, ← hsh]
      have : 2 * 2 ^ k = 2 ^ (k + 1) := by rw [Nat.pow_succ]; omega
      rw [this, Nat.mul_div_cancel _ hp]
    rw [this]

theorem ten2intOld_int2tenOld_big (r : Nat) (h : 2 ^ 30 ≤ r) : ten2intOld (int2tenOld r) = 800000000 := by
  unfold int2tenOld
  have h1 : ¬ r ≤ 1 := by omega
  have h2 : r ≥ 0x40000000 := by omega
  simp only [h1, h2, if_false, if_true]
  decide

theorem int2tenOld_length (r : Nat) : (int2tenOld r).length = 10 := by
  unfold int2tenOld; split
  · rfl
  · split <;> rfl

end Sf.Aiff
