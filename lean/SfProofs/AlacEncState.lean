/-
  SfProofs.AlacEncState — the encoder's coefficient rows stay 16 int16 values each through `pc_block`, and EncodeMono's
  output is either the escape element or `compMonoBits` of such a row with order 4 or 8.
-/
import SfProofs.AlacMono
namespace Sf.AlacCore

def CoefsOk (c : List Int) : Prop := c.length = 16 ∧ ∀ x ∈ c, Int16 x
def RowsOk (rows : List (List Int)) : Prop := rows.length = 16 ∧ ∀ r ∈ rows, CoefsOk r

theorem w16_int16 (x : Int) : Int16 (w16 x) := by
  unfold w16 wrapS Int16
  simp only [Int.reducePow]
  split <;> omega

theorem adapt_ok (ds : Nat) (flip : Bool) : ∀ (pairs : List (Int × Int)) (mult : Nat) (del0 : Int), (∀ q ∈ pairs, Int16 q.1) →
    (adapt ds flip pairs mult del0).length = pairs.length ∧ ∀ x ∈ adapt ds flip pairs mult del0, Int16 x
  | [], _, _, _ => by simp [adapt]
  | (c, dd) :: rest, mult, del0, h => by
    have hrest : ∀ q ∈ rest, Int16 q.1 := fun q hq => h q (by simp [hq])
    have key : ∀ (c1 d1 : Int) (b : Prop) [Decidable b], Int16 c1 →
        (if b then c1 :: rest.map (·.1) else c1 :: adapt ds flip rest (mult + 1) d1).length = rest.length + 1 ∧
        ∀ x ∈ (if b then c1 :: rest.map (·.1) else c1 :: adapt ds flip rest (mult + 1) d1), Int16 x := by
      intro c1 d1 b _ hc1
      have ih := adapt_ok ds flip rest (mult + 1) d1 hrest
      split
      · refine ⟨by simp, ?_⟩
        intro x hx
        simp only [List.mem_cons, List.mem_map] at hx
        rcases hx with rfl | ⟨q, hq, rfl⟩
        · exact hc1
        · exact hrest q hq
      · refine ⟨by simp [ih.1], ?_⟩
        intro x hx
        simp only [List.mem_cons] at hx
        rcases hx with rfl | hx
        · exact hc1
        · exact ih.2 x hx
    rw [adapt]
    simp only [List.length_cons]
    cases flip
    · exact key _ _ _ (w16_int16 _)
    · exact key _ _ _ (w16_int16 _)

theorem pcStep_ok (na cb ds : Nat) (coefs hist : List Int) (x : Int) (hl : coefs.length = na) (hh : na ≤ hist.length)
    (hc : ∀ c ∈ coefs, Int16 c) : (pcStep na cb ds coefs hist x).2.length = na ∧ ∀ c ∈ (pcStep na cb ds coefs hist x).2, Int16 c := by
  unfold pcStep
  simp only []
  split
  · exact ⟨hl, hc⟩
  · have hp : ∀ q ∈ (List.zip coefs ((hist.take na).map fun y => w32 (hist.getD na 0 - y))).reverse, Int16 q.1 := by
      intro q hq
      simp only [List.mem_reverse] at hq
      exact hc q.1 (List.of_mem_zip hq).1
    have ha := fun (f : Bool) (d0 : Int) => adapt_ok ds f _ 1 d0 hp
    refine ⟨?_, ?_⟩
    · rw [List.length_reverse, (ha _ _).1, List.length_reverse, List.length_zip, List.length_map, List.length_take]; omega
    · intro c hcm; simp only [List.mem_reverse] at hcm; exact (ha _ _).2 c hcm

theorem pcLoop_ok (na cb ds : Nat) (xs : List Int) : ∀ (j : Nat) (coefs hist : List Int), coefs.length = na → hist.length = j →
    (∀ c ∈ coefs, Int16 c) →
    (pcLoop na cb ds xs j coefs hist).2.length = na ∧ ∀ c ∈ (pcLoop na cb ds xs j coefs hist).2, Int16 c := by
  induction xs with
  | nil => intro j coefs hist hl _ hc; simp only [pcLoop]; exact ⟨hl, hc⟩
  | cons x xs ih =>
    intro j coefs hist hl hh hc
    rw [pcLoop]
    split
    · exact ih (j + 1) coefs (x :: hist) hl (by simp [hh]) hc
    · rename_i hj
      have := pcStep_ok na cb ds coefs hist x hl (by omega) hc
      exact ih (j + 1) _ (x :: hist) this.1 (by simp [hh]) this.2

theorem pcBlock_ok (inp coefs : List Int) (na cb ds : Nat) (hna : na ≤ 16) (hc : CoefsOk coefs) : CoefsOk (pcBlock inp coefs na cb ds).2 := by
  obtain ⟨hl, hi⟩ := hc
  cases inp with
  | nil => exact ⟨hl, hi⟩
  | cons x0 xs =>
    simp only [pcBlock]
    split
    · exact ⟨hl, hi⟩
    · split
      · exact ⟨hl, hi⟩
      · have := pcLoop_ok na cb ds xs 1 (coefs.take na) [x0] (by rw [List.length_take]; omega) rfl
          (fun c hcm => hi c (List.mem_of_mem_take hcm))
        refine ⟨by rw [List.length_append, this.1, List.length_drop]; omega, ?_⟩
        intro c hcm
        rcases List.mem_append.mp hcm with h | h
        · exact this.2 c h
        · exact hi c (List.mem_of_mem_drop h)

theorem rows_set_ok (rows : List (List Int)) (i : Nat) (c : List Int) (hr : RowsOk rows) (hc : CoefsOk c) : RowsOk (rows.set i c) := by
  refine ⟨by simp [hr.1], ?_⟩
  intro r hrm
  rcases List.mem_or_eq_of_mem_set hrm with h | h
  · exact hr.2 r h
  · exact h ▸ hc

theorem rows_getD_ok (rows : List (List Int)) (i : Nat) (hr : RowsOk rows) (hi : i < 16) : CoefsOk (rows.getD i []) := by
  have : i < rows.length := by rw [hr.1]; exact hi
  rw [List.getD_eq_getElem?_getD, List.getElem?_eq_getElem this]
  exact hr.2 _ (List.getElem_mem this)

theorem pcRepeat_ok (inp : List Int) (row na cb : Nat) (hrow : row < 16) (hna : na ≤ 16) : ∀ (c : Nat) (rows : List (List Int)), RowsOk rows →
    RowsOk (pcRepeat inp rows row na cb c).2
  | 0, rows, h => h
  | c + 1, rows, h => by
    rw [pcRepeat]
    simp only []
    have hok := rows_set_ok rows row _ h (pcBlock_ok inp (rows.getD row []) na cb 9 hna (rows_getD_ok rows row h hrow))
    split
    · exact hok
    · exact pcRepeat_ok inp row na cb hrow hna c _ hok

end Sf.AlacCore
