/-
  SfProofs.AlacEncState — the encoder's coefficient rows stay 16 int16 values each through `pc_block`, and EncodeMono's
  output is either the escape element or `compMonoBits` of such a row with order 4 or 8.
-/
import SfProofs.AlacMono
namespace Sf.AlacCore

def CoefsOk (c : List Int) : Prop := c.length = 16 ∧ ∀ x ∈ c, Int16 x
def RowsOk (rows : List (List Int)) : Prop := rows.length = 16 ∧ ∀ r ∈ rows, CoefsOk r

theorem w16_int16 (x : Int) : Int16 (w16 x) := by
  unfold w16 wrapS Int16
  simp only [Int.reducePow]
  split <;> omega

theorem adapt_ok (ds : Nat) (flip : Bool) : ∀ (pairs : List (Int × Int)) (mult : Nat) (del0 : Int), (∀ q ∈ pairs, Int16 q.1) →
    (adapt ds flip pairs mult del0).length = pairs.length ∧ ∀ x ∈ adapt ds flip pairs mult del0, Int16 x
  | [], _, _, _ => by simp [adapt]
  | (c, dd) :: rest, mult, del0, h => by
    have hrest : ∀ q ∈ rest, Int16 q.1 := fun q hq => h q (by simp [hq])
    have key : ∀ (c1 d1 : Int) (b : Prop) [Decidable b], Int16 c1 →
        (if b then c1 :: rest.map (·.1) else c1 :: adapt ds flip rest (mult + 1) d1).length = rest.length + 1 ∧
        ∀ x ∈ (if b then c1 :: rest.map (·.1) else c1 :: adapt ds flip rest (mult + 1) d1), Int16 x := by
      intro c1 d1 b _ hc1
      have ih := adapt_ok ds flip rest (mult + 1) d1 hrest
      split
      · refine ⟨by simp, ?_⟩
        intro x hx
        simp only [List.mem_cons, List.mem_map] at hx
        rcases hx with rfl | ⟨q, hq, rfl⟩
        · exact hc1
        · exact hrest q hq
      · refine ⟨by simp [ih.1], ?_⟩
        intro x hx
        simp only [List.mem_cons] at hx
        rcases hx with rfl | hx
        · exact hc1
        · exact ih.2 x hx
    rw [adapt]
    simp only [List.length_cons]
    cases flip
    · exact key _ _ _ (w16_int16 _)
    · exact key _ _ _ (w16_int16 _)

theorem pcStep_ok (na cb ds : Nat) (coefs hist : List Int) (x : Int) (hl : coefs.length = na) (hh : na ≤ hist.length)
    (hc : ∀ c ∈ coefs, Int16 c) : (pcStep na cb ds coefs hist x).2.length = na ∧ ∀ c ∈ (pcStep na cb ds coefs hist x).2, Int16 c := by
  unfold pcStep
  simp only []
  split
  · exact ⟨hl, hc⟩
  · have hp : ∀ q ∈ (List.zip coefs ((hist.take na).map fun y => w32 (hist.getD na 0 - y))).reverse, Int16 q.1 := by
      intro q hq
      simp only [List.mem_reverse] at hq
      exact hc q.1 (List.of_mem_zip hq).1
    have ha := fun (f : Bool) (d0 : Int) => adapt_ok ds f _ 1 d0 hp
    refine ⟨?_, ?_⟩
    · rw [List.length_reverse, (ha _ _).1, List.length_reverse, List.length_zip, List.length_map, List.length_take]; omega
    · intro c hcm; simp only [List.mem_reverse] at hcm; exact (ha _ _).2 c hcm

theorem pcLoop_ok (na cb ds : Nat) (xs : List Int) : ∀ (j : Nat) (coefs hist : List Int), coefs.length = na → hist.length = j →
    (∀ c ∈ coefs, Int16 c) →
    (pcLoop na cb ds xs j coefs hist).2.length = na ∧ ∀ c ∈ (pcLoop na cb ds xs j coefs hist).2, Int16 c := by
  induction xs with
  | nil => intro j coefs hist hl _ hc; simp only [pcLoop]; exact ⟨hl, hc⟩
  | cons x xs ih =>
    intro j coefs hist hl hh hc
    rw [pcLoop]
    split
    · exact ih (j + 1) coefs (x :: hist) hl (by simp [hh]) hc
    · rename_i hj
      have := pcStep_ok na cb ds coefs hist x hl (by omega) hc
      exact ih (j + 1) _ (x :: hist) this.1 (by simp [hh]) this.2

theorem pcBlock_ok (inp coefs : List Int) (na cb ds : Nat) (hna : na ≤ 16) (hc : CoefsOk coefs) : CoefsOk (pcBlock inp coefs na cb ds).2 := by
  obtain ⟨hl, hi⟩ := hc
  cases inp with
  | nil => exact ⟨hl, hi⟩
  | cons x0 xs =>
    simp only [pcBlock]
    split
    · exact ⟨hl, hi⟩
    · split
      · exact ⟨hl, hi⟩
      · have := pcLoop_ok na cb ds xs 1 (coefs.take na) [x0] (by rw [List.length_take]; omega) rfl
          (fun c hcm => hi c (List.mem_of_mem_take hcm))
        refine ⟨by rw [List.length_append, this.1, List.length_drop]; omega, ?_⟩
        intro c hcm
        rcases List.mem_append.mp hcm with h | h
        · exact this.2 c h
        · exact hi c (List.mem_of_mem_drop h)

theorem rows_set_ok (rows : List (List Int)) (i : Nat) (c : List Int) (hr : RowsOk rows) (hc : CoefsOk c) : RowsOk (rows.set i c) := by
  refine ⟨by simp [hr.1], ?_⟩
  intro r hrm
  rcases List.mem_or_eq_of_mem_set hrm with h | h
  · exact hr.2 r h
  · exact h ▸ hc

theorem rows_getD_ok (rows : List (List Int)) (i : Nat) (hr : RowsOk rows) (hi : i < 16) : CoefsOk (rows.getD i []) := by
  have : i < rows.length := by rw [hr.1]; exact hi
  rw [List.getD_eq_getElem?_getD, List.getElem?_eq_getElem this]
  exact hr.2 _ (List.getElem_mem this)

theorem pcRepeat_ok (inp : List Int) (row na cb : Nat) (hrow : row < 16) (hna : na ≤ 16) : ∀ (c : Nat) (rows : List (List Int)), RowsOk rows →
    RowsOk (pcRepeat inp rows row na cb c).2
  | 0, rows, h => h
  | c + 1, rows, h => by
    rw [pcRepeat]
    simp only []
    have hok := rows_set_ok rows row _ h (pcBlock_ok inp (rows.getD row []) na cb 9 hna (rows_getD_ok rows row h hrow))
    split
    · exact hok
    · exact pcRepeat_ok inp row na cb hrow hna c _ hok

end Sf.AlacCore

namespace Sf.AlacCore

theorem foldl_inv {α β : Type} (P : α → Prop) (f : α → β → α) : ∀ (l : List β) (a : α), P a → (∀ a b, b ∈ l → P a → P (f a b)) → P (l.foldl f a)
  | [], a, h, _ => h
  | b :: l, a, h, hf => by
    simp only [List.foldl_cons]
    exact foldl_inv P f l (f a b) (hf a b (by simp) h) (fun a' b' hb' ha' => hf a' b' (by simp [hb']) ha')

def MixAccOk (a : MixAcc) : Prop := RowsOk a.rowsU ∧ RowsOk a.rowsV ∧ 0 ≤ a.best ∧ a.best ≤ 4

theorem mixStep_ok (depth cb : Nat) (lsd rsd : List Int) (a : MixAcc) (mixRes : Nat) (hm : mixRes ≤ 4) (h : MixAccOk a) :
    MixAccOk (mixStep depth cb lsd rsd a mixRes) := by
  obtain ⟨hu, hv, h0, h4⟩ := h
  unfold mixStep MixAccOk
  simp only []
  refine ⟨rows_set_ok _ 7 _ hu (pcBlock_ok _ _ 8 cb 9 (by decide) (rows_getD_ok _ 7 hu (by decide))),
    rows_set_ok _ 7 _ hv (pcBlock_ok _ _ 8 cb 9 (by decide) (rows_getD_ok _ 7 hv (by decide))), ?_, ?_⟩
  · split <;> omega
  · split <;> omega

theorem mixSearch_ok (depth cb : Nat) (st : EncChan) (lsd rsd : List Int) (hu : RowsOk st.coefsU) (hv : RowsOk st.coefsV)
    (h0 : 0 ≤ st.lastMixRes) (h4 : st.lastMixRes ≤ 4) : MixAccOk (mixSearch depth cb st lsd rsd) := by
  unfold mixSearch
  apply foldl_inv MixAccOk
  · exact ⟨hu, hv, h0, h4⟩
  · intro a b hb ha
    exact mixStep_ok depth cb lsd rsd a b (by simp at hb; omega) ha

def TryAccOk (a : TryAcc) : Prop := RowsOk a.rowsU ∧ RowsOk a.rowsV

theorem pairTry_ok (cb numUV n : Nat) (u v su sv : List Int) (rowsU rowsV : List (List Int)) (h1 : 1 ≤ numUV) (h16 : numUV ≤ 16)
    (hu : RowsOk rowsU) (hv : RowsOk rowsV) :
    RowsOk (pairTry cb numUV n u v su sv rowsU rowsV).2.2.1 ∧ RowsOk (pairTry cb numUV n u v su sv rowsU rowsV).2.2.2 := by
  unfold pairTry
  simp only []
  have : TryAccOk ((List.range 8).foldl (tryStep cb numUV n u v) ⟨[], rowsU, [], rowsV⟩) := by
    apply foldl_inv TryAccOk
    · exact ⟨hu, hv⟩
    · intro a b _ ha
      unfold tryStep TryAccOk
      simp only []
      exact ⟨rows_set_ok _ _ _ ha.1 (pcBlock_ok _ _ numUV cb 9 h16 (rows_getD_ok _ _ ha.1 (by omega))),
        rows_set_ok _ _ _ ha.2 (pcBlock_ok _ _ numUV cb 9 h16 (rows_getD_ok _ _ ha.2 (by omega)))⟩
  exact this

/-- the state of a pair's channel index: both tables and the last mixing ratio -/
def PairStateOk (st : EncChan) : Prop := RowsOk st.coefsU ∧ RowsOk st.coefsV ∧ 0 ≤ st.lastMixRes ∧ st.lastMixRes ≤ 4

theorem pairSearch_ok (depth : Nat) (st : EncChan) (ls rs : List Int) (h : PairStateOk st) :
    RowsOk (pairSearch depth st ls rs).rowsU ∧ RowsOk (pairSearch depth st ls rs).rowsV ∧
    0 ≤ (pairSearch depth st ls rs).bestRes ∧ (pairSearch depth st ls rs).bestRes ≤ 4 ∧
    ((pairSearch depth st ls rs).numU = 4 ∨ (pairSearch depth st ls rs).numU = 8) ∧
    ((pairSearch depth st ls rs).numV = 4 ∨ (pairSearch depth st ls rs).numV = 8) := by
  obtain ⟨hu, hv, h0, h4⟩ := h
  unfold pairSearch
  simp only []
  have hms := mixSearch_ok depth (depth - 8 * bytesShiftedOf depth + 1) st (ls.take (ls.length / 8)) (rs.take (ls.length / 8)) hu hv h0 h4
  obtain ⟨mu, mv, m0, m4⟩ := hms
  have t4 := fun (u v su sv : List Int) => pairTry_ok (depth - 8 * bytesShiftedOf depth + 1) 4 ls.length u v su sv _ _ (by decide) (by decide) mu mv
  have t8 := fun (u v su sv u' v' su' sv' : List Int) => pairTry_ok (depth - 8 * bytesShiftedOf depth + 1) 8 ls.length u' v' su' sv' _ _
    (by decide) (by decide) (t4 u v su sv).1 (t4 u v su sv).2
  refine ⟨(t8 _ _ _ _ _ _ _ _).1, (t8 _ _ _ _ _ _ _ _).2, m0, m4, ?_, ?_⟩
  · split <;> simp
  · split <;> simp

end Sf.AlacCore
