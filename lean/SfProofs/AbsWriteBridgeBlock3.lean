/-
  SfProofs.AbsWriteBridgeBlock3 — level B of the write-side bridge for block codecs WITH CRASH POINTS (round 9).

  `BlockJob` / `BlockFacts` (AbsWriteBridgeBlock.lean) predict no crash points.  A `SnapJob` adds them: `marks` = the numbers of
  split-run calls after which the campaign copies the store (right after SFC_UPDATE_HEADER_NOW or a write made in auto mode),
  `stored cs` = the DATA REGION the store holds at that moment (for the block writers of SfModel/Block.lean: the blocks flushed
  so far — a partly filled block is still in the codec's buffer; for SDS: the flushed packets and the partial packet
  sds_write_header puts behind them).  The image is `hdr n ++ stored ++ tail n` like the closed file.

  `SnapFacts` = `BlockFacts` + the three C11 facts per crash point:
    * `snapFrames`   a reader of the image finds the frames written so far ROUNDED DOWN TO WHOLE BLOCKS (C11's floor clause);
    * `snapFinal`    its read-back agrees, on those frames, with the read-back of the finished file ("exactly that prefix");
    * `snapExact`    for a lossless pair: on those frames it IS the written samples.
  `snap_pred_good` derives `Good`; `snap_facts_of_stream` derives `snapFinal` for a reader that decodes the region front to
  back (`backPrefix`) from "the stored region is a prefix of the closed one" (`storedPrefix`).
-/
import SfProofs.AbsWriteBridgeBlock
namespace Sf.AbsWriteBridge
open Sf Sf.Abs Sf.AbsWrite Sf.Geometry

structure SnapJob extends BlockJob where
  marks : List Nat                       -- crash points: split-run calls made before the copy
  stored : List LCall → List Byte        -- the data region in the store right after those calls and a header update

/-- frames written by the first `k` calls of the split run -/
def SnapJob.nk (J : SnapJob) (k : Nat) : Nat := framesOf J.g.ch (J.split.take k)

/-- the store image at a crash point -/
def SnapJob.image (J : SnapJob) (k : Nat) : List Byte :=
  J.hdr (J.stored (J.split.take k)).length ++ J.stored (J.split.take k) ++ J.tail (J.stored (J.split.take k)).length

def SnapJob.snapOf (J : SnapJob) (k : Nat) : LSnap :=
  let d := J.stored (J.split.take k)
  let F := J.framesAt d.length
  { k := k, info := { ch := J.g.ch, sr := J.g.sr, fmt := J.g.word, frames := F }, ret := ((F * J.g.ch : Nat) : Int),
    data := J.back d ((J.nk k + 8) * J.g.ch) }

/-- THE PREDICTION with crash points -/
def SnapJob.pred (J : SnapJob) : Pred := { J.toBlockJob.pred with snaps := J.marks.map J.snapOf }

/-- items of the whole blocks written by the first `k` calls -/
def SnapJob.items (J : SnapJob) (k : Nat) : Nat := floorToBlock (J.nk k) J.g.block * J.g.ch

structure SnapFacts (J : SnapJob) : Prop where
  base : BlockFacts J.toBlockJob
  /-- C11: "a frame count equal to the frames written so far (rounded down to whole blocks for block encodings)" -/
  snapFrames : ∀ k ∈ J.marks, J.framesAt (J.stored (J.split.take k)).length = floorToBlock (J.nk k) J.g.block
  /-- C11: "and reads back exactly that prefix of the written data" — against the finished file -/
  snapFinal : ∀ k ∈ J.marks, (J.back (J.stored (J.split.take k)) ((J.nk k + 8) * J.g.ch)).take (J.items k) =
    (J.back (J.data J.one) ((framesOf J.g.ch J.one + J.g.block + J.g.pad + 8) * J.g.ch)).take (J.items k)
  /-- … and, for a lossless pair, against the samples themselves -/
  snapExact : losslessLow J.g.codec J.ty = none ∨
    ∀ k ∈ J.marks, (∀ v ∈ samples (J.split.take k), sampleOk J.g.codec J.ty v) →
      (J.back (J.stored (J.split.take k)) ((J.nk k + 8) * J.g.ch)).take (J.items k) = (samples (J.split.take k)).take (J.items k)

theorem floorToBlock_le (n b : Nat) : floorToBlock n b ≤ n := Nat.div_mul_le_self _ _

theorem snap_pred_good (J : SnapJob) (X : SnapFacts J) : Good J.pred := by
  have hb := block_pred_good J.toBlockJob X.base
  refine { chpos := hb.chpos, block := hb.block, calls1 := hb.calls1, calls2 := hb.calls2, same := hb.same,
           reopened := hb.reopened, info := hb.info, rate := hb.rate, framesLo := hb.framesLo, framesHi := hb.framesHi,
           eof := hb.eof, more := hb.more, rbLen := hb.rbLen, roundtrip := hb.roundtrip, partition := hb.partition,
           stale := hb.stale, snaps := ?_ }
  intro _ s hs
  change s ∈ J.marks.map J.snapOf at hs
  obtain ⟨k, hk, rfl⟩ := List.mem_map.1 hs
  have hF := X.snapFrames k hk
  have hle : floorToBlock (J.nk k) J.g.block * J.g.ch ≤ (J.nk k + 8) * J.g.ch :=
    Nat.mul_le_mul_right _ (Nat.le_trans (floorToBlock_le _ _) (Nat.le_add_right _ _))
  refine { opened := rfl,
           info := by show AbsWrite.infoOk J.g { ch := (J.g.ch : Int), sr := (J.g.sr : Int), fmt := J.g.word, frames := _ } = true
                      unfold AbsWrite.infoOk; simp,
           frames := by
             show ((J.framesAt (J.stored (J.split.take k)).length : Nat) : Int) = ((floorToBlock (J.nk k) J.g.block : Nat) : Int)
             rw [hF],
           short := by
             show floorToBlock (J.nk k) J.g.block * J.g.ch ≤ (((J.framesAt (J.stored (J.split.take k)).length * J.g.ch : Nat) : Int)).toNat
             rw [hF, Int.toNat_natCast]; exact Nat.le_refl _,
           len := by
             show floorToBlock (J.nk k) J.g.block * J.g.ch ≤ (J.back _ _).length
             rw [X.base.backLen]; exact hle,
           final := X.snapFinal k hk,
           exact := ?_ }
  intro hok
  change ∀ v ∈ samples (J.split.take k), sampleOk J.g.codec J.ty v at hok
  show (J.back (J.stored (J.split.take k)) ((J.nk k + 8) * J.g.ch)).take (J.items k) = (samples (J.split.take k)).take (J.items k)
  rcases X.snapExact with h | h
  · cases hsm : samples (J.split.take k) with
    | nil =>
      -- no sample written so far: no whole block either
      have hl := samples_length J.g.ch (J.split.take k) (fun c hc => X.base.calls2 c (List.mem_of_mem_take hc))
      rw [hsm] at hl
      have hz : J.nk k * J.g.ch = 0 := by unfold SnapJob.nk; simpa using hl.symm
      have hn : J.nk k = 0 := by
        rcases Nat.mul_eq_zero.1 hz with h0 | h0
        · exact h0
        · have := X.base.chpos; omega
      have hm : J.items k = 0 := by unfold SnapJob.items floorToBlock; rw [hn]; simp
      rw [hm]; simp
    | cons v vs =>
      exfalso
      obtain ⟨lz, hlz, _⟩ := hok v (by rw [hsm]; simp)
      change losslessLow J.g.codec J.ty = some lz at hlz
      rw [h] at hlz; cases hlz
  · exact h k hk hok

/-- a block-codec job with crash points and the facts is accepted by the write-side predicate -/
theorem snap_session_accepted (J : SnapJob) (X : SnapFacts J) : accepted J.pred.record = true :=
  Pred.accepted_of_good _ (snap_pred_good J X)

/-- `snapFinal` for a reader that decodes the data region FRONT TO BACK: what it delivers on the frames a region `d` holds is
    what it delivers on them from any longer region `d ++ e` -/
theorem snap_facts_of_stream (J : SnapJob) (base : BlockFacts J.toBlockJob)
    (snapFrames : ∀ k ∈ J.marks, J.framesAt (J.stored (J.split.take k)).length = floorToBlock (J.nk k) J.g.block)
    (storedPrefix : ∀ k ∈ J.marks, ∃ e, J.data J.split = J.stored (J.split.take k) ++ e)
    (backPrefix : ∀ (d e : List Byte) (n n' : Nat), J.framesAt d.length * J.g.ch ≤ n → J.framesAt d.length * J.g.ch ≤ n' →
      (J.back d n).take (J.framesAt d.length * J.g.ch) = (J.back (d ++ e) n').take (J.framesAt d.length * J.g.ch))
    (snapExact : losslessLow J.g.codec J.ty = none ∨
      ∀ k ∈ J.marks, (∀ v ∈ samples (J.split.take k), sampleOk J.g.codec J.ty v) →
        (J.back (J.stored (J.split.take k)) ((J.nk k + 8) * J.g.ch)).take (J.items k) = (samples (J.split.take k)).take (J.items k)) :
    SnapFacts J := by
  refine { base := base, snapFrames := snapFrames, snapFinal := ?_, snapExact := snapExact }
  intro k hk
  obtain ⟨e, he⟩ := storedPrefix k hk
  have hF := snapFrames k hk
  have hd : J.data J.one = J.stored (J.split.take k) ++ e := by rw [← base.partition base.same]; exact he
  have hnk : J.nk k ≤ framesOf J.g.ch J.one := by
    have h1 := framesOf_take_le J.g.ch J.split k
    have h2 := samples_length J.g.ch J.split base.calls2
    have h3 := samples_length J.g.ch J.one base.calls1
    rw [base.same, h3] at h2
    have := Nat.eq_of_mul_eq_mul_right base.chpos h2
    unfold SnapJob.nk; omega
  have hfl := floorToBlock_le (J.nk k) J.g.block
  have hm : J.items k = J.framesAt (J.stored (J.split.take k)).length * J.g.ch := by unfold SnapJob.items; rw [hF]
  rw [hd, hm]
  apply backPrefix
  · rw [hF]; exact Nat.mul_le_mul_right _ (by omega)
  · rw [hF]; exact Nat.mul_le_mul_right _ (by omega)

end Sf.AbsWriteBridge
