/-
  SfProofs.FloatExact — value-level (ℚ) consequences: exact conversions, order, widening/narrowing.
-/
import SfProofs.FloatRound
namespace Sf.Float

theorem val_eq_of {a b : Dy} (hn : a.neg = b.neg) (hm : a.mag = b.mag) : a.val = b.val := by
  rw [Dy.val_eq, Dy.val_eq, hn, hm]

theorem Dy.abs_val (a : Dy) : |a.val| = a.mag := by
  rw [Dy.val_eq]; split
  · rw [abs_neg, abs_of_nonneg a.mag_nonneg]
  · exact abs_of_nonneg a.mag_nonneg

theorem Dy.mul_mag (a b : Dy) : (a.mul b).mag = a.mag * b.mag := by
  unfold Dy.mul Dy.mag; simp only; push_cast; rw [zpow2_add]; ring

theorem Dy.mul_val (a b : Dy) : (a.mul b).val = a.val * b.val := by
  unfold Dy.mul Dy.val; simp only; push_cast; rw [zpow2_add]
  cases a.neg <;> cases b.neg <;> simp <;> ring

theorem Dy.ofInt_val (x : Int) : (Dy.ofInt x).val = x := by
  unfold Dy.ofInt Dy.val
  simp only [zpow_zero, mul_one]
  rw [Nat.cast_natAbs]
  by_cases h : x < 0
  · simp only [h, decide_true, if_true]
    rw [abs_of_neg h]; push_cast; ring
  · simp only [h, decide_false]
    rw [abs_of_nonneg (not_lt.mp h)]; simp

theorem Dy.ofInt_mag (x : Int) : (Dy.ofInt x).mag = x.natAbs := by
  unfold Dy.ofInt Dy.mag; simp

/-- `d` is exactly representable in `f`: m·2^e = n·2^q with n < 2^(mbits+1), q ≥ qmin, below the overflow threshold -/
def Fmt.Rep (f : Fmt) (d : Dy) : Prop := f.RepMag d.mag ∧ d.mag < f.huge

/-- **`ofDy_toDy_exact`**: rounding a representable dyadic changes nothing -/
theorem ofDy_toDy_exact (f : Fmt) (hf : f.Std) (d : Dy) (h : f.Rep d) :
    (f.toDy (f.ofDy d)).neg = d.neg ∧ (f.toDy (f.ofDy d)).mag = d.mag ∧ (f.toDy (f.ofDy d)).val = d.val ∧
    f.isFinite (f.ofDy d) = true := by
  obtain ⟨h1, h2⟩ := toDy_ofDy f hf d
  have h3 : (f.rnd d).mag = d.mag := rnd_exact f d h.1
  have h4 : (f.toDy (f.ofDy d)).mag = d.mag := by rw [h2, h3, min_eq_left (le_of_lt h.2)]
  refine ⟨h1, h4, val_eq_of h1 h4, ?_⟩
  rw [ofDy_finite_iff f hf, h3]; exact h.2

/-! ### order -/

theorem Dy.toIntScaled_val (a : Dy) (e : Int) (h : e ≤ a.e) : ((a.toIntScaled e : ℤ) : ℚ) = a.val * 2 ^ (-e) := by
  unfold Dy.toIntScaled Dy.val
  push_cast
  rw [mul_assoc _ _ ((2:ℚ) ^ (-e)), ← zpow2_add, ← zpow_natCast]
  have : ((a.e - e).toNat : ℤ) = a.e + -e := by omega
  rw [this]

/-- the model's exact comparison is comparison of the rational values -/
theorem Dy.le_iff (a b : Dy) : a.le b = true ↔ a.val ≤ b.val := by
  unfold Dy.le
  simp only [decide_eq_true_eq]
  have key : ∀ e : Int, e ≤ a.e → e ≤ b.e → (a.toIntScaled e ≤ b.toIntScaled e ↔ a.val ≤ b.val) := by
    intro e h1 h2
    have hp := two_zpow_pos (-e)
    rw [← Int.cast_le (R := ℚ), Dy.toIntScaled_val a e h1, Dy.toIntScaled_val b e h2]
    exact mul_le_mul_iff_of_pos_right hp
  split
  · exact key _ (le_refl _) (by assumption)
  · exact key _ (by omega) (le_refl _)

theorem Dy.lt_iff (a b : Dy) : a.lt b = true ↔ a.val < b.val := by
  unfold Dy.lt
  rw [Bool.not_eq_true', ← Bool.not_eq_true, Dy.le_iff]
  exact not_le


/-! ### exact conversions -/

theorem std_ranges (f : Fmt) (hf : f.Std) :
    f.qmin ≤ -149 ∧ 23 ≤ f.mbits ∧ f.mbits ≤ 52 ∧ (128 : ℤ) ≤ (f.emax : ℤ) - 1 + f.qmin + f.mbits := by
  rcases hf with rfl | rfl <;> simp [Fmt.qmin, Fmt.bias, Fmt.emax, f32, f64]

theorem std_huge (f : Fmt) (hf : f.Std) : (2 : ℚ) ^ (128 : ℤ) ≤ f.huge := by
  unfold Fmt.huge; exact zpow2_le (std_ranges f hf).2.2.2

/-- n·2^q with n < 2^(mbits+1), qmin ≤ q, q + mbits + 1 ≤ 128 is representable -/
theorem rep_of (f : Fmt) (hf : f.Std) (d : Dy) (n : Nat) (q : Int) (hn : n < 2 ^ (f.mbits + 1)) (hq : f.qmin ≤ q)
    (hq2 : q + f.mbits + 1 ≤ 128) (hm : d.mag = (n : ℚ) * 2 ^ q) : f.Rep d := by
  refine ⟨⟨n, q, hn, hq, hm⟩, ?_⟩
  rw [hm]
  have := mul_zpow_lt n (f.mbits + 1) q hn
  exact lt_of_lt_of_le this (le_trans (zpow2_le (by push_cast; omega)) (std_huge f hf))

/-- `(float) x` / `(double) x` is exact when |x| = n·2^j with n below 2^(mbits+1) -/
theorem ofInt_exact_gen (f : Fmt) (hf : f.Std) (x : Int) (n j : Nat) (hx : x.natAbs = n * 2 ^ j)
    (hn : n < 2 ^ (f.mbits + 1)) (hj : j ≤ 64) :
    (f.toDy (f.ofInt x)).val = x ∧ (f.toDy (f.ofInt x)).neg = decide (x < 0) ∧
    (f.toDy (f.ofInt x)).mag = x.natAbs ∧ f.isFinite (f.ofInt x) = true := by
  obtain ⟨r1, r2, r3, r4⟩ := std_ranges f hf
  have hrep : f.Rep (Dy.ofInt x) := rep_of f hf _ n j hn (by omega) (by omega) (by
    rw [Dy.ofInt_mag, hx]; push_cast; rw [zpow_natCast])
  obtain ⟨a, b, c, d⟩ := ofDy_toDy_exact f hf _ hrep
  unfold Fmt.ofInt
  refine ⟨by rw [c, Dy.ofInt_val], by rw [a]; rfl, by rw [b, Dy.ofInt_mag], d⟩

theorem ofInt_exact (f : Fmt) (hf : f.Std) (x : Int) (hx : x.natAbs < 2 ^ (f.mbits + 1)) :
    (f.toDy (f.ofInt x)).val = x :=
  (ofInt_exact_gen f hf x x.natAbs 0 (by simp) hx (by omega)).1

/-- `(float) x` is exact for |x| < 2^24 -/
theorem f32_ofInt_exact (x : Int) (hx : x.natAbs < 2 ^ 24) : (f32.toDy (f32.ofInt x)).val = x :=
  ofInt_exact f32 (Or.inl rfl) x hx
/-- `(double) x` is exact for |x| < 2^53 -/
theorem f64_ofInt_exact (x : Int) (hx : x.natAbs < 2 ^ 53) : (f64.toDy (f64.ofInt x)).val = x :=
  ofInt_exact f64 (Or.inr rfl) x hx

/-- the value of a pattern, scaled by 2^k, is representable as long as the quantum stays ≥ qmin and there is no overflow -/
theorem rep_scale (f : Fmt) (b : Nat) (k : Int) (hq : f.qmin ≤ (f.toDy b).e + k)
    (hh : (f.toDy b).mag * 2 ^ k < f.huge) : f.Rep ((f.toDy b).mul ⟨false, 1, k⟩) := by
  have hm : ((f.toDy b).mul ⟨false, 1, k⟩).mag = (f.toDy b).mag * 2 ^ k := by
    rw [Dy.mul_mag]; simp [Dy.mag]
  refine ⟨?_, by rw [hm]; exact hh⟩
  rw [hm]
  have hfr : f.frac b < 2 ^ f.mbits := Nat.mod_lt _ (two_pow_pos' _)
  have e2 : 2 ^ (f.mbits + 1) = 2 * 2 ^ f.mbits := by rw [Nat.pow_succ]; omega
  refine ⟨(f.toDy b).m, (f.toDy b).e + k, ?_, hq, by unfold Dy.mag; rw [zpow2_add]; ring⟩
  unfold Fmt.toDy; simp only; split <;> simp only <;> omega

/-- multiplication by a power of two is exact (quantum stays in range, no overflow) -/
theorem mul_pow2_exact (f : Fmt) (hf : f.Std) (b : Nat) (k : Int) (hq : f.qmin ≤ (f.toDy b).e + k)
    (hh : (f.toDy b).mag * 2 ^ k < f.huge) :
    (f.toDy (f.ofDy ((f.toDy b).mul ⟨false, 1, k⟩))).val = (f.toDy b).val * 2 ^ k := by
  rw [(ofDy_toDy_exact f hf _ (rep_scale f b k hq hh)).2.2.1, Dy.mul_val]
  simp [Dy.val]

/-- … in particular for a normal `b` (exponent field ex ≥ 1) whose scaled exponent field ex + k stays in 1 … emax−1 -/
theorem mul_pow2_exact_normal (f : Fmt) (hf : f.Std) (b : Nat) (k : Int) (hn : f.isNormal b = true)
    (h1 : 1 ≤ (f.expo b : ℤ) + k) (h2 : (f.expo b : ℤ) + k < f.emax) :
    (f.toDy (f.ofDy ((f.toDy b).mul ⟨false, 1, k⟩))).val = (f.toDy b).val * 2 ^ k := by
  have hfr : f.frac b < 2 ^ f.mbits := Nat.mod_lt _ (two_pow_pos' _)
  have e2 : 2 ^ (f.mbits + 1) = 2 * 2 ^ f.mbits := by rw [Nat.pow_succ]; omega
  have h0 : f.expo b ≠ 0 := by
    unfold Fmt.isNormal at hn; simp at hn; exact hn.2
  have hd : f.toDy b = ⟨f.sign b, 2 ^ f.mbits + f.frac b, (f.expo b : ℤ) - 1 + f.qmin⟩ := by
    unfold Fmt.toDy; simp [h0]
  apply mul_pow2_exact f hf b k
  · rw [hd]; simp only; omega
  · rw [hd]; unfold Dy.mag; simp only
    rw [mul_assoc, ← zpow2_add]
    have := mul_zpow_lt (2 ^ f.mbits + f.frac b) (f.mbits + 1) ((f.expo b : ℤ) - 1 + f.qmin + k) (by omega)
    unfold Fmt.huge
    exact lt_of_lt_of_le this (zpow2_le (by push_cast; omega))

/-! ### widening and narrowing -/

theorem f32_rep_in_f64 (b : Nat) (hfin : f32.isFinite b = true) : f64.Rep (f32.toDy b) := by
  obtain ⟨n, q, hn, hq, hm⟩ := toDy_rep f32 b
  have hlt := (finite_iff_mag_lt f32 (Or.inl rfl) b).mp hfin
  refine ⟨⟨n, q, ?_, ?_, hm⟩, lt_of_lt_of_le hlt ?_⟩
  · simp [f32, f64] at *; omega
  · simp [f32, f64, Fmt.qmin, Fmt.bias] at *; omega
  · unfold Fmt.huge; exact zpow2_le (by simp [f32, f64, Fmt.qmin, Fmt.bias, Fmt.emax])

/-- **float → double is exact** for every finite pattern -/
theorem f32to64_exact (b : Nat) (hfin : f32.isFinite b = true) :
    (f64.toDy (f32to64 b)).val = (f32.toDy b).val ∧ f64.isFinite (f32to64 b) = true := by
  unfold f32to64
  simp only [hfin, if_true]
  have := ofDy_toDy_exact f64 (Or.inr rfl) _ (f32_rep_in_f64 b hfin)
  exact ⟨this.2.2.1, this.2.2.2⟩

/-- **double → float undoes float → double** on every finite binary32 pattern -/
theorem f64to32_f32to64 (b : Nat) (hb : b < 2 ^ 32) (hfin : f32.isFinite b = true) : f64to32 (f32to64 b) = b := by
  have h := ofDy_toDy_exact f64 (Or.inr rfl) _ (f32_rep_in_f64 b hfin)
  unfold f64to32
  have e : f32to64 b = f64.ofDy (f32.toDy b) := by unfold f32to64; simp [hfin]
  rw [e]
  simp only [h.2.2.2, if_true]
  rw [ofDy_congr f32 _ (f32.toDy b) h.1 h.2.1]
  exact ofDy_toDy f32 (Or.inl rfl) b (by simpa [Fmt.width, f32] using hb) hfin


/-! ### scaling commutes with rounding away from the subnormal range; rounding is idempotent -/

theorem rnd_scale (f : Fmt) (s : Bool) (m : Nat) (e k : Int)
    (h1 : f.qmin ≤ e + (bitLen m : ℤ) - 1 - f.mbits) (h2 : f.qmin ≤ e + k + (bitLen m : ℤ) - 1 - f.mbits) :
    f.rnd ⟨s, m, e + k⟩ = ⟨s, (f.rnd ⟨s, m, e⟩).m, (f.rnd ⟨s, m, e⟩).e + k⟩ := by
  have q1 : f.quantum ⟨s, m, e⟩ = e + (bitLen m : ℤ) - 1 - f.mbits := by unfold Fmt.quantum; simp only; omega
  have q2 : f.quantum ⟨s, m, e + k⟩ = e + k + (bitLen m : ℤ) - 1 - f.mbits := by unfold Fmt.quantum; simp only; omega
  unfold Fmt.rnd
  simp only [q1, q2]
  congr 1
  · congr 1; omega
  · omega

theorem rnd_scale_mag (f : Fmt) (s : Bool) (m : Nat) (e k : Int)
    (h1 : f.qmin ≤ e + (bitLen m : ℤ) - 1 - f.mbits) (h2 : f.qmin ≤ e + k + (bitLen m : ℤ) - 1 - f.mbits) :
    (f.rnd ⟨s, m, e + k⟩).mag = (f.rnd ⟨s, m, e⟩).mag * 2 ^ k := by
  rw [rnd_scale f s m e k h1 h2]; unfold Dy.mag; simp only; rw [zpow2_add]; ring

theorem rnd_neg (f : Fmt) (d : Dy) : (f.rnd d).neg = d.neg := rfl

/-- rounding an already rounded value changes nothing (pattern level) -/
theorem ofDy_rnd (f : Fmt) (hf : f.Std) (d : Dy) (h : (f.rnd d).mag < f.huge) : f.ofDy (f.rnd d) = f.ofDy d := by
  obtain ⟨a, b⟩ := toDy_ofDy f hf d
  rw [min_eq_left (le_of_lt h)] at b
  rw [← ofDy_congr f (f.toDy (f.ofDy d)) (f.rnd d) a b]
  exact ofDy_toDy f hf _ (ofDy_lt_width f hf d) ((ofDy_finite_iff f hf d).mpr h)

/-- 2^k is representable (k ≥ qmin) -/
theorem repMag_pow2 (f : Fmt) (k : Int) (hk : f.qmin ≤ k) : f.RepMag (2 ^ k) :=
  ⟨1, k, Nat.one_lt_two_pow (by omega), hk, by simp⟩


/-! ### rounding never crosses a representable number -/

theorem round_mag_le (f : Fmt) (hf : f.Std) (d : Dy) (B : ℚ) (hB : f.RepMag B) (h : d.mag ≤ B) :
    (f.toDy (f.ofDy d)).mag ≤ B := by
  rw [(toDy_ofDy f hf d).2]
  exact le_trans (min_le_left _ _) (rnd_le_of_le_rep f d B hB h)

/-- if lo ≤ d ≤ hi with −lo and hi representable magnitudes then lo ≤ round(d) ≤ hi -/
theorem round_val_bounds (f : Fmt) (hf : f.Std) (d : Dy) (lo hi : ℚ) (hlo : f.RepMag (-lo)) (hhi : f.RepMag hi)
    (hlo0 : lo ≤ 0) (hhi0 : 0 ≤ hi) (h1 : lo ≤ d.val) (h2 : d.val ≤ hi) :
    lo ≤ (f.toDy (f.ofDy d)).val ∧ (f.toDy (f.ofDy d)).val ≤ hi := by
  have hn := (toDy_ofDy f hf d).1
  have hm0 := Dy.mag_nonneg (f.toDy (f.ofDy d))
  rw [Dy.val_eq] at h1 h2
  rw [Dy.val_eq, hn]
  cases hs : d.neg <;> simp only [hs, Bool.false_eq_true, if_false, if_true] at h1 h2 ⊢
  · have := round_mag_le f hf d hi hhi h2
    constructor <;> linarith
  · have := round_mag_le f hf d (-lo) hlo (by linarith)
    constructor <;> linarith

theorem repMag_nat (f : Fmt) (hf : f.Std) (n : Nat) (hn : n < 2 ^ 24) : f.RepMag (n : ℚ) := by
  obtain ⟨r1, r2, r3, r4⟩ := std_ranges f hf
  have hpow : 2 ^ 24 ≤ 2 ^ (f.mbits + 1) := Nat.pow_le_pow_right (by omega) (by omega)
  exact ⟨n, 0, by omega, by omega, by simp⟩


/-! ### rounding to a format is monotone -/

theorem rnd_mag_mono (f : Fmt) (a b : Dy) (h : a.mag ≤ b.mag) : (f.rnd a).mag ≤ (f.rnd b).mag := by
  by_cases ha : a.m = 0
  · rw [rnd_mag_zero f a ha]; exact Dy.mag_nonneg _
  have hapos : 0 < a.mag := lt_of_lt_of_le (two_zpow_pos _) (Dy.mag_bounds a ha).1
  have hb : b.m ≠ 0 := by
    intro hb0; rw [(Dy.mag_eq_zero_iff b).mpr hb0] at h; linarith
  have ba := Dy.mag_bounds a ha
  have bb := Dy.mag_bounds b hb
  have hE : a.e + (bitLen a.m : ℤ) - 1 < b.e + (bitLen b.m : ℤ) :=
    zpow2_lt_iff.mp (lt_of_le_of_lt (le_trans ba.1 h) bb.2)
  have hqle : f.quantum a ≤ f.quantum b := by unfold Fmt.quantum; omega
  rcases Int.lt_or_eq_of_le hqle with hlt | heq
  · -- different quanta: the power of two 2^E_b separates the two values
    have hqb : f.quantum b = b.e + (bitLen b.m : ℤ) - 1 - f.mbits := by
      have := qmin_le_quantum f a; unfold Fmt.quantum at *; omega
    have hne : f.quantum b ≠ f.qmin := by have := qmin_le_quantum f a; omega
    have hge := rnd_mant_ge f b hb hne
    have h2 : (2 : ℚ) ^ ((f.mbits : ℤ) + f.quantum b) ≤ (f.rnd b).mag := by
      rw [rnd_mag]; exact le_mul_zpow _ _ _ hge
    have hEa : a.e + (bitLen a.m : ℤ) ≤ (f.mbits : ℤ) + f.quantum b := by unfold Fmt.quantum at hlt; omega
    have h1 : a.mag ≤ (2 : ℚ) ^ ((f.mbits : ℤ) + f.quantum b) := le_trans (le_of_lt ba.2) (zpow2_le hEa)
    have hrep : f.RepMag ((2 : ℚ) ^ ((f.mbits : ℤ) + f.quantum b)) :=
      repMag_pow2 f _ (by have := qmin_le_quantum f b; omega)
    exact le_trans (rnd_le_of_le_rep f a _ hrep h1) h2
  · have ra := rnd_isRNE f a
    have rb := rnd_isRNE f b
    rw [heq] at ra
    have hm := ra.mono rb (mul_le_mul_of_nonneg_right h (le_of_lt (two_zpow_pos _)))
    rw [rnd_mag, rnd_mag, heq]
    exact mul_le_mul_of_nonneg_right (by exact_mod_cast hm) (le_of_lt (two_zpow_pos _))

/-- **rounding to binary32 / binary64 is monotone** in the real value (overflow to ±Inf included, read as ±huge) -/
theorem round_mono (f : Fmt) (hf : f.Std) (a b : Dy) (h : a.val ≤ b.val) :
    (f.toDy (f.ofDy a)).val ≤ (f.toDy (f.ofDy b)).val := by
  obtain ⟨na, ma⟩ := toDy_ofDy f hf a
  obtain ⟨nb, mb⟩ := toDy_ofDy f hf b
  have pa := Dy.mag_nonneg (f.toDy (f.ofDy a))
  have pb := Dy.mag_nonneg (f.toDy (f.ofDy b))
  have qa := Dy.mag_nonneg a
  have qb := Dy.mag_nonneg b
  rw [Dy.val_eq] at h
  rw [Dy.val_eq (f.toDy (f.ofDy a)), Dy.val_eq (f.toDy (f.ofDy b)), na, nb]
  rw [Dy.val_eq b] at h
  cases hsa : a.neg <;> cases hsb : b.neg <;> simp only [hsa, hsb, Bool.false_eq_true, if_false, if_true] at h ⊢
  · rw [ma, mb]; exact min_le_min_right _ (rnd_mag_mono f a b h)
  · have h0 : a.mag = 0 := by linarith
    have : a.m = 0 := (Dy.mag_eq_zero_iff a).mp h0
    have hb0 : b.mag = 0 := by linarith
    have : b.m = 0 := (Dy.mag_eq_zero_iff b).mp hb0
    rw [ma, mb, rnd_mag_zero f a ‹a.m = 0›, rnd_mag_zero f b ‹b.m = 0›]
    have hh : 0 < f.huge := two_zpow_pos _
    simp [min_eq_left (le_of_lt hh)]
  · linarith
  · rw [ma, mb]
    have := min_le_min_right f.huge (rnd_mag_mono f b a (by linarith))
    linarith

end Sf.Float
