/-
  SfProofs.RdwrBytes — list facts behind the RDWR refinement: the frame view (`groups bw`) of a data section under
  `writeAt` (overwrite, extension, hole) and `truncBytes`.
-/
import SfModel.Handle
import SfProofs.HandleGroups
import SfProofs.CodecStore
import SfProofs.RdwrSpec
namespace Sf

/-! ## `groups` of zeros, and `groups` undone by `flatten` -/

theorem groups_replicate {α} (n : Nat) (hn : 0 < n) (z : α) :
    ∀ k : Nat, groups n (List.replicate (k * n) z) = List.replicate k (List.replicate n z) := by
  intro k
  induction k with
  | zero => simp [groups_short n ([] : List α) (by simpa using hn)]
  | succ k ih =>
    have e : List.replicate ((k + 1) * n) z = List.replicate n z ++ List.replicate (k * n) z := by
      rw [Nat.succ_mul, Nat.add_comm, List.replicate_append_replicate]
    rw [e, groups_append n hn 1 _ _ (by simp), ih, List.replicate_succ]
    congr 1
    rw [groups_cons n hn _ (by simp)]
    simp [groups_short n ([] : List α) (by simpa using hn)]

theorem groups_join {α} (n : Nat) (hn : 0 < n) :
    ∀ (k : Nat) (l : List α), l.length = k * n → (groups n l).flatten = l := by
  intro k
  induction k with
  | zero =>
    intro l h
    have : l = [] := List.eq_nil_of_length_eq_zero (by omega)
    subst this; simp [groups_short n ([] : List α) (by simpa using hn)]
  | succ k ih =>
    intro l h
    have hle : n ≤ l.length := by rw [h, Nat.succ_mul]; omega
    rw [groups_cons n hn l hle, List.flatten_cons, ih (l.drop n) (by rw [List.length_drop, h, Nat.succ_mul]; omega)]
    exact List.take_append_drop n l

/-- every group has `n` elements -/
theorem groups_mem_length {α} (n : Nat) (hn : 0 < n) :
    ∀ (k : Nat) (l : List α), l.length / n = k → ∀ g ∈ groups n l, g.length = n := by
  intro k
  induction k with
  | zero =>
    intro l h g hg
    have : l.length < n := by
      rcases Nat.div_eq_zero_iff.mp h with h | h <;> omega
    rw [groups_short n l this] at hg; simp at hg
  | succ k ih =>
    intro l h g hg
    have hle : n ≤ l.length := by
      apply Nat.le_of_not_lt
      intro hc
      have : l.length / n = 0 := Nat.div_eq_of_lt hc
      omega
    rw [groups_cons n hn l hle, List.mem_cons] at hg
    rcases hg with hg | hg
    · rw [hg, List.length_take]; omega
    · refine ih (l.drop n) ?_ g hg
      rw [List.length_drop]
      have := Nat.div_eq_sub_div hn hle
      omega

/-! ## `writeAt` behind a header -/

theorem writeAt_length (bs : List Byte) (pos : Nat) (d : List Byte) :
    (writeAt bs pos d).length = max bs.length (pos + d.length) := by
  rw [writeAt_eq, List.length_append, List.length_append, prefixAt_length, List.length_drop]
  omega

theorem prefixAt_append (hdr D : List Byte) (p : Nat) :
    prefixAt (hdr ++ D) (hdr.length + p) = hdr ++ prefixAt D p := by
  unfold prefixAt
  by_cases h : p ≤ D.length
  · rw [if_pos (by rw [List.length_append]; omega), if_pos h, List.take_append, List.take_of_length_le (by omega)]
    congr 2; omega
  · rw [if_neg (by rw [List.length_append]; omega), if_neg h, List.append_assoc, List.length_append]
    congr 3; omega

theorem writeAt_append (hdr D : List Byte) (p : Nat) (d : List Byte) :
    writeAt (hdr ++ D) (hdr.length + p) d = hdr ++ writeAt D p d := by
  rw [writeAt_eq, writeAt_eq, prefixAt_append, List.append_assoc, List.append_assoc, List.append_assoc]
  congr 3
  rw [Nat.add_assoc, ← List.drop_drop, List.drop_left' rfl]

/-! ## the frame view -/

/-- the frame a hole consists of: `n` zero bytes -/
def zeroFrame (n : Nat) : List Byte := List.replicate n 0

theorem groups_prefixAt (n : Nat) (hn : 0 < n) (D : List Byte) (F W : Nat) (hD : D.length = F * n) :
    groups n (prefixAt D (W * n)) = AbsFile.upTo (zeroFrame n) (groups n D) W := by
  unfold prefixAt AbsFile.upTo
  have hgl : (groups n D).length = F := by rw [groups_length' n hn, hD, Nat.mul_div_cancel _ hn]
  by_cases h : W ≤ F
  · have : W * n ≤ D.length := by rw [hD]; exact Nat.mul_le_mul_right _ h
    rw [if_pos this, groups_take' n hn, Nat.mul_div_cancel _ hn, hgl, Nat.sub_eq_zero_of_le h]
    simp
  · have hlt : F < W := by omega
    have : ¬ W * n ≤ D.length := by
      rw [hD]; intro hc
      have := Nat.le_of_mul_le_mul_right hc hn
      omega
    rw [if_neg this, groups_append n hn F _ _ hD, List.take_of_length_le (by omega), hgl, hD, ← Nat.sub_mul]
    unfold zeros zeroFrame
    rw [groups_replicate n hn]

/-- the frames of a data section after a write of whole frames at a frame boundary -/
theorem groups_writeAt (n : Nat) (hn : 0 < n) (D d : List Byte) (F W m : Nat) (hD : D.length = F * n)
    (hd : d.length = m * n) :
    groups n (writeAt D (W * n) d) =
      AbsFile.upTo (zeroFrame n) (groups n D) W ++ groups n d ++ (groups n D).drop (W + m) := by
  rw [writeAt_eq, List.append_assoc, groups_append n hn W _ _ (by rw [prefixAt_length]),
    groups_append n hn m _ _ hd, groups_prefixAt n hn D F W hD, hd, ← Nat.add_mul, groups_drop n hn,
    List.append_assoc]

theorem groups_truncBytes (n : Nat) (hn : 0 < n) (D : List Byte) (F k : Nat) (hD : D.length = F * n) :
    groups n (truncBytes D (k * n)) = AbsFile.upTo (zeroFrame n) (groups n D) k :=
  groups_prefixAt n hn D F k hD

theorem truncBytes_length (bs : List Byte) (p : Nat) : (truncBytes bs p).length = p := prefixAt_length bs p

theorem truncBytes_append (hdr D : List Byte) (p : Nat) :
    truncBytes (hdr ++ D) (hdr.length + p) = hdr ++ truncBytes D p := prefixAt_append hdr D p

end Sf

namespace Sf

/-! ## a zero tail behind the data (the RIFF pad byte) is invisible to `writeAt` / `truncBytes` -/

theorem zeros_length (n : Nat) : (zeros n).length = n := by simp [zeros]

theorem take_zeros (k n : Nat) : (zeros n).take k = zeros (min k n) := by simp [zeros, List.take_replicate]

theorem drop_zeros (k n : Nat) : (zeros n).drop k = zeros (n - k) := by simp [zeros, List.drop_replicate]

theorem zeros_append (a b : Nat) : zeros a ++ zeros b = zeros (a + b) := by simp [zeros, List.replicate_append_replicate]

theorem prefixAt_zeros_tail (D : List Byte) (t p : Nat) : prefixAt (D ++ zeros t) p = prefixAt D p := by
  unfold prefixAt
  by_cases h1 : p ≤ D.length
  · rw [if_pos h1, if_pos (by rw [List.length_append]; omega), List.take_append_of_le_length h1]
  · rw [if_neg h1]
    by_cases h2 : p ≤ (D ++ zeros t).length
    · rw [if_pos h2, List.take_append, List.take_of_length_le (by omega), take_zeros]
      rw [List.length_append, zeros_length] at h2
      congr 2; omega
    · rw [if_neg h2, List.append_assoc, zeros_append]
      rw [List.length_append, zeros_length] at h2 ⊢
      congr 2; omega

theorem truncBytes_zeros_tail (D : List Byte) (t p : Nat) : truncBytes (D ++ zeros t) p = truncBytes D p :=
  prefixAt_zeros_tail D t p

/-- a write over data followed by `t` zero bytes: the data part as if the tail were not there; what the write did not
    reach of the tail stays -/
theorem writeAt_zeros_tail (D : List Byte) (t p : Nat) (d : List Byte) :
    writeAt (D ++ zeros t) p d = writeAt D p d ++ zeros (t - (p + d.length - D.length)) := by
  rw [writeAt_eq, writeAt_eq, prefixAt_zeros_tail, List.append_assoc, List.append_assoc, List.append_assoc]
  congr 2
  rw [List.drop_append, drop_zeros]

end Sf
