/-
  SfProofs.AbsWriteBridgeRun — the prediction of the concrete handle model for ANY valid session is `Good`
  (AbsWriteBridge.lean): `handle_pred_good`.  Crash points: `crashPoints_spec` (every recorded image is the snapshot image of
  a prefix of the session: C11 `stepUpdate_inv` / `stepWrite_inv`).
-/
import SfProofs.AbsWriteBridgeReopen
namespace Sf.AbsWriteBridge
open Sf Sf.AbsWrite Sf.Geometry

theorem callsOf_append (ch : Nat) : ∀ (xs ys : List SOp) (hs : H × Store),
    callsOf ch hs (xs ++ ys) = callsOf ch hs xs ++ callsOf ch (runS hs xs) ys
  | [], ys, hs => rfl
  | .write w :: xs, ys, hs => by
    simp only [List.cons_append, callsOf, callsOf_append ch xs ys, runS, List.foldl_cons]
  | .update :: xs, ys, hs => by
    simp only [List.cons_append, callsOf, callsOf_append ch xs ys, runS, List.foldl_cons]
  | .auto b :: xs, ys, hs => by
    simp only [List.cons_append, callsOf, callsOf_append ch xs ys, runS, List.foldl_cons]

theorem sessFrames_append (ch : Nat) (xs ys : List SOp) : sessFrames ch (xs ++ ys) = sessFrames ch xs + sessFrames ch ys := by
  simp [sessFrames]

/-- every crash point is the snapshot image of a prefix of the run -/
theorem crashPoints_spec {c : Cfg} : ∀ (ops : List SOp) {a : Sf.Abs} {h : H} {s : Store}, Inv c a h s →
    (∀ op ∈ ops, op.valid c.ch) → ∀ (k nf : Nat) (x : Nat × Nat × List Byte), x ∈ crashPoints c.ch (h, s) k nf ops →
    ∃ pre post, ops = pre ++ post ∧ x.1 = k + (callsOf c.ch (h, s) pre).length ∧ x.2.1 = nf + sessFrames c.ch pre ∧
      x.2.2 = snapImage c (a.run c pre)
  | [], _, _, _, _, _, _, _, x, hx => by simp [crashPoints] at hx
  | .write w :: ops, a, h, s, i, hv, k, nf, x, hx => by
    have hw : w.valid c.ch := hv (.write w) (by simp)
    obtain ⟨i1, hb⟩ := stepWrite_inv i w hw
    simp only [crashPoints, List.mem_append] at hx
    rcases hx with hx | hx
    · split at hx
      · rename_i hc
        simp only [List.mem_singleton] at hx
        subst hx
        refine ⟨[.write w], ops, rfl, by simp [callsOf], by simp [sessFrames, SOp.frames], ?_⟩
        have := hb (by rw [← i.auto]; exact hc.1) hc.2
        simpa [Sf.Abs.run, Sf.Abs.step] using this
      · simp at hx
    · obtain ⟨pre, post, e, e1, e2, e3⟩ := crashPoints_spec ops i1 (fun o ho => hv o (by simp [ho])) _ _ x hx
      simp only [Prod.mk.eta] at e1
      refine ⟨.write w :: pre, post, by rw [e]; rfl, ?_, ?_, ?_⟩
      · rw [e1]; simp only [callsOf, List.length_cons]; omega
      · rw [e2]; simp only [sessFrames, List.map_cons, List.sum_cons, SOp.frames]; omega
      · rw [e3]; rfl
  | .update :: ops, a, h, s, i, hv, k, nf, x, hx => by
    obtain ⟨i1, hb⟩ := stepUpdate_inv i
    simp only [crashPoints, List.mem_cons] at hx
    rcases hx with hx | hx
    · subst hx
      exact ⟨[.update], ops, rfl, by simp [callsOf], by simp [sessFrames, SOp.frames], by simpa [Sf.Abs.run, Sf.Abs.step] using hb⟩
    · obtain ⟨pre, post, e, e1, e2, e3⟩ := crashPoints_spec ops i1 (fun o ho => hv o (by simp [ho])) _ _ x hx
      simp only [Prod.mk.eta] at e1
      refine ⟨.update :: pre, post, by rw [e]; rfl, ?_, ?_, ?_⟩
      · rw [e1]; simp only [callsOf]
      · rw [e2]; simp only [sessFrames, List.map_cons, List.sum_cons, SOp.frames]; omega
      · rw [e3]; rfl
  | .auto b :: ops, a, h, s, i, hv, k, nf, x, hx => by
    have i1 := stepAuto_inv i b
    simp only [crashPoints] at hx
    obtain ⟨pre, post, e, e1, e2, e3⟩ := crashPoints_spec ops i1 (fun o ho => hv o (by simp [ho])) _ _ x hx
    simp only [Prod.mk.eta] at e1
    refine ⟨.auto b :: pre, post, by rw [e]; rfl, ?_, ?_, ?_⟩
    · rw [e1]; simp only [callsOf]
    · rw [e2]; simp only [sessFrames, List.map_cons, List.sum_cons, SOp.frames]; omega
    · rw [e3]; rfl

theorem predOf_g (S : Sess) (hs : H × Store) : (predOf S hs).g = S.geom := rfl
theorem predOf_ty (S : Sess) (hs : H × Store) : (predOf S hs).ty = S.ty := rfl
theorem predOf_split_calls (S : Sess) (hs : H × Store) : (predOf S hs).split.calls = callsOf S.ch.toNat hs S.ops := rfl
theorem predOf_one_calls (S : Sess) (hs : H × Store) : (predOf S hs).one.calls = callsOf S.ch.toNat hs (refOps S) := rfl
theorem snapOf_k (S : Sess) (y : Nat × Nat × List Byte) : (snapOf S y).k = y.1 := rfl
theorem geom_ch (S : Sess) : S.geom.ch = S.ch.toNat := rfl

/-- decoding the data of a prefix: the first items of the decoded whole -/
theorem decode_prefix (e : Enc) (hnb : 0 < e.nbytes) (c' : Conv) (ty : Ty) (xs ys : List Int) :
    (e.decodeAll c' ty (e.encodeAll {} ty (xs ++ ys))).take xs.length = e.decodeAll c' ty (e.encodeAll {} ty xs) := by
  rw [Enc.encodeAll_append, Enc.decodeAll_append _ _ _ hnb xs.length _ _ (Enc.encodeAll_length _ _ _ _)]
  apply List.take_left'
  rw [Enc.decodeAll_length _ _ _ hnb, Enc.encodeAll_length, Nat.mul_div_cancel _ hnb]

/-- the hypotheses on a session under which the model's prediction is judged: the open succeeded, the calls are what the
    API accepts (`SOp.valid`), one caller type, values of that C type, a rate the 32-bit fields hold, the RIFF guard, and — on
    PEAK-carrying files — finite samples (the quantifier of C07) -/
structure Sess.Ok (S : Sess) (h : H) (s : Store) : Prop where
  opened : openHandle 0 {} .w S.fmt S.ch S.sr = .ok h s
  valid : ∀ op ∈ S.ops, op.valid S.ch.toNat
  oneTy : ∀ op ∈ S.ops, SOp.hasTy S.ty op
  range : ∀ v ∈ sampleList S.ch.toNat S.ops, S.ty.inRange v
  rate : S.sr ≤ 0x7FFFFFFF
  guard : containerOf S.fmt = some .wav → (closedOf (h, s) S.ops).length < 2 ^ 32
  finite : carriesPeak S.fmt = true → FiniteSamples h S.ty (sampleList S.ch.toNat S.ops)

/-- LEVEL B FOR Sf.Handle: the prediction of the concrete model for any such session has the list-level properties -/
theorem handle_pred_good (S : Sess) (h : H) (s : Store) (ok : S.Ok h s) : Good (predOf S (h, s)) := by
  obtain ⟨c, hcfg, h1, h2, h3, i0⟩ := open_ok ok.opened
  obtain ⟨f1, f2, f3, f4, f5, f6⟩ := openCfg_facts hcfg
  have hpos : 0 < S.ch.toNat := by omega
  have hnb : 0 < c.enc.nbytes := encOf_nbytes_pos_ct f6
  have hwf : c.enc.wf := (encOf_props _ _ _ _ f6).2
  have hB := geom_block S c hcfg
  have hvR := refOps_valid S hpos ok.valid
  have htR := refOps_hasTy S
  have hsR := refOps_samples S hpos ok.valid
  -- the two runs
  have iR := runS_inv (refOps S) i0 (by rw [f4]; exact hvR)
  have iS := runS_inv S.ops i0 (by rw [f4]; exact ok.valid)
  obtain ⟨gR1, gR2, gR3⟩ := callsOf_good (refOps S) i0 (by rw [f4]; exact hvR)
  obtain ⟨gS1, gS2, gS3⟩ := callsOf_good S.ops i0 (by rw [f4]; exact ok.valid)
  rw [f4] at gR1 gR2 gR3 gS1 gS2 gS3
  have hlenS := sampleList_length S.ch.toNat hpos S.ops ok.valid
  have hlenR := sampleList_length S.ch.toNat hpos (refOps S) hvR
  have hNR : sessFrames S.ch.toNat (refOps S) = sessFrames S.ch.toNat S.ops := by
    rw [hsR, hlenS] at hlenR
    exact (Nat.eq_of_mul_eq_mul_right hpos hlenR).symm
  have hpart := closed_partition S h s ok.opened ok.valid ok.oneTy ok.finite
  have hclosedR : closedOf (h, s) (refOps S) = closedImage c (c.init.run c (refOps S)) := close_bytes iR
  have hguardR : c.container = .wav → (closedOf (h, s) (refOps S)).length < 2 ^ 32 := by
    intro hc; rw [hpart]; exact ok.guard (by rw [f1, hc])
  -- the re-open and read-back of the finished reference file
  obtain ⟨r1, r2, r3, r4, r5, r6, r7, r8⟩ :=
    reopen_read S c hcfg h1 h2 h3 ok.rate (refOps S) iR htR _ (Or.inl hclosedR) hguardR
      (sessFrames S.ch.toNat S.ops + S.geom.block + S.geom.pad + 8) (by rw [hNR]; omega)
  rw [hNR] at r4 r5 r8
  rw [hsR] at r8
  have hlossless : ∀ xs : List Int, (∀ v ∈ xs, v ∈ sampleList S.ch.toNat S.ops) →
      (∀ v ∈ xs, sampleOk S.geom.codec S.ty v) → c.enc.decodeAll {} S.ty (c.enc.encodeAll {} S.ty xs) = xs := by
    intro xs hsub hok
    exact C01.data_roundtrip C01.widenExact c.enc hwf hnb {} {} S.ty xs (fun v hv => ok.range v (hsub v hv))
      (fun v hv => sampleOk_lossless f6 S.ty v (ok.range v (hsub v hv)) (hok v hv))
  refine {
    chpos := hpos, block := by show 1 ≤ S.geom.block; rw [hB], calls1 := gR1, calls2 := gS1,
    same := by show samples (callsOf _ _ S.ops) = samples (callsOf _ _ (refOps S)); rw [gS2, gR2, hsR],
    reopened := r1, info := r2, rate := r3,
    framesLo := ?_, framesHi := ?_, eof := ?_, more := r6, rbLen := ?_, roundtrip := ?_,
    partition := hpart, stale := rfl, snaps := ?_ }
  · show ((framesOf S.ch.toNat (callsOf _ _ (refOps S)) : Nat) : Int) ≤ _
    rw [gR3, hNR]; exact Int.le_of_eq r4.symm
  · show (infoOf _).frames < ((framesOf S.ch.toNat (callsOf _ _ (refOps S)) : Nat) : Int) + (S.geom.block : Int)
    rw [gR3, hNR, hB, r4]; omega
  · show (readBack _ _ _ _).1 = (infoOf _).frames * _
    rw [r5, r4]; push_cast; rfl
  · show (samples (callsOf _ _ (refOps S))).length ≤ (readBack _ _ _ _).2.1.length
    rw [gR2, hsR, hlenS, r7]
    exact Nat.mul_le_mul_right _ (by omega)
  · intro hok
    show (readBack _ _ _ _).2.1.take (samples (callsOf _ _ (refOps S))).length = samples (callsOf _ _ (refOps S))
    simp only [predOf_g, predOf_ty, predOf_one_calls] at hok
    rw [gR2, hsR] at hok ⊢
    rw [hlenS, r8]
    exact hlossless _ (fun v hv => hv) hok
  · intro hsc x hx
    have hnr := geom_snapScope S c hcfg hsc
    obtain ⟨y, hy, rfl⟩ := List.mem_map.1 hx
    obtain ⟨pre, post, e, e1, e2, e3⟩ := crashPoints_spec S.ops i0 (by rw [f4]; exact ok.valid) 0 0 y (by rw [f4]; exact hy)
    rw [f4] at e1 e2
    simp only [Nat.zero_add] at e1 e2
    have hvP : ∀ op ∈ pre, op.valid S.ch.toNat := fun o ho => ok.valid o (by rw [e]; simp [ho])
    have htP : ∀ op ∈ pre, SOp.hasTy S.ty op := fun o ho => ok.oneTy o (by rw [e]; simp [ho])
    have iP := runS_inv pre i0 (by rw [f4]; exact hvP)
    obtain ⟨gP1, gP2, gP3⟩ := callsOf_good pre i0 (by rw [f4]; exact hvP)
    rw [f4] at gP1 gP2 gP3
    have hlenP := sampleList_length S.ch.toNat hpos pre hvP
    -- the calls made before the crash point are the calls of the prefix
    have hbefore : (callsOf S.ch.toNat (h, s) S.ops).take y.1 = callsOf S.ch.toNat (h, s) pre := by
      rw [e1]; conv => lhs; rw [e]
      rw [callsOf_append]; exact List.take_left' rfl
    have hNk : framesOf S.ch.toNat ((callsOf S.ch.toNat (h, s) S.ops).take y.1) = sessFrames S.ch.toNat pre := by
      rw [hbefore, gP3]
    have hfl : floorToBlock (sessFrames S.ch.toNat pre) S.geom.block = sessFrames S.ch.toNat pre := by
      rw [hB]; simp [floorToBlock]
    -- the image is shorter than the closed file
    have hguardP : c.container = .wav → y.2.2.length < 2 ^ 32 := by
      intro hc
      have hg := ok.guard (by rw [f1, hc])
      have hcl : closedOf (h, s) S.ops = closedImage c (c.init.run c S.ops) := close_bytes iS
      rw [hcl] at hg
      have hl1 : (closedImage c (c.init.run c S.ops)).length =
          c.hdrLen + (c.init.run c S.ops).data.length + (wavPad_ct c (c.init.run c S.ops)).length := by
        simp only [closedImage, hc, List.length_append, hdrBytes_length c _ _ _ iS.pkSome iS.pkLen]
      have hl2 : (snapImage c (c.init.run c pre)).length = c.hdrLen + (c.init.run c pre).data.length := by
        simp only [snapImage, List.length_append, hdrBytes_length c _ _ _ iP.pkSome iP.pkLen]
      have hd : (c.init.run c pre).data.length ≤ (c.init.run c S.ops).data.length := by
        rw [run_data, run_data]; conv => rhs; rw [e]
        simp [sessData]
      rw [e3, hl2]; omega
    obtain ⟨q1, q2, _, q4, q5, _, q7, q8⟩ :=
      reopen_read S c hcfg h1 h2 h3 ok.rate pre iP htP y.2.2 (Or.inr e3) hguardP (y.2.1 + 8) (by rw [e2]; omega)
    have hsplit : sampleList S.ch.toNat S.ops = sampleList S.ch.toNat pre ++ sampleList S.ch.toNat post := by
      conv => lhs; rw [e]
      exact sampleList_append _ _ _
    have hsub : ∀ v ∈ sampleList S.ch.toNat pre, v ∈ sampleList S.ch.toNat S.ops := by
      intro v hv; rw [hsplit]; exact List.mem_append_left _ hv
    refine { opened := q1, info := q2, frames := ?_, short := ?_, len := ?_, final := ?_, exact := ?_ }
    · show (infoOf _).frames = _
      simp only [predOf_g, predOf_split_calls, snapOf_k, geom_ch]
      rw [hNk, hfl]; exact q4
    · show _ ≤ (readBack _ _ _ _).1.toNat
      simp only [predOf_g, predOf_split_calls, snapOf_k, geom_ch]
      rw [hNk, hfl, q5]; exact Nat.le_of_eq (Int.toNat_natCast _).symm
    · show _ ≤ (readBack _ _ _ _).2.1.length
      simp only [predOf_g, predOf_split_calls, snapOf_k, geom_ch]
      rw [hNk, hfl, q7]; exact Nat.mul_le_mul_right _ (by rw [e2]; omega)
    · show (readBack _ _ _ _).2.1.take _ = (readBack _ _ _ _).2.1.take _
      simp only [predOf_g, predOf_split_calls, snapOf_k, geom_ch]
      rw [hNk, hfl, q8]
      have hle : sessFrames S.ch.toNat pre * S.ch.toNat ≤ sessFrames S.ch.toNat S.ops * S.ch.toNat := by
        rw [← hlenP, ← hlenS, hsplit]; simp
      have : (readBack S.ty ((sessFrames S.ch.toNat S.ops + S.geom.block + S.geom.pad + 8) * S.ch.toNat) S.ch.toNat
            (reopen S (closedOf (h, s) (refOps S)))).2.1.take (sessFrames S.ch.toNat pre * S.ch.toNat) =
          ((readBack S.ty ((sessFrames S.ch.toNat S.ops + S.geom.block + S.geom.pad + 8) * S.ch.toNat) S.ch.toNat
            (reopen S (closedOf (h, s) (refOps S)))).2.1.take (sessFrames S.ch.toNat S.ops * S.ch.toNat)).take
              (sessFrames S.ch.toNat pre * S.ch.toNat) := by
        rw [List.take_take, Nat.min_eq_left hle]
      show _ = (readBack _ _ _ _).2.1.take _
      rw [this, r8, hsplit, ← hlenP]
      exact (decode_prefix c.enc hnb {} S.ty _ _).symm
    · intro hok
      show (readBack _ _ _ _).2.1.take _ = (samples _).take _
      simp only [predOf_g, predOf_ty, predOf_split_calls, snapOf_k, geom_ch] at hok ⊢
      rw [hNk, hfl, q8]
      have hb2 : samples ((callsOf S.ch.toNat (h, s) S.ops).take y.1) = sampleList S.ch.toNat pre := by
        rw [hbefore, gP2]
      rw [hb2] at hok ⊢
      rw [← hlenP, List.take_length]
      exact hlossless _ hsub hok

end Sf.AbsWriteBridge
