/-
  SfProofs.AbsBridge — THE MECHANICAL BRIDGE, part 1: the simulation relation between the concrete handle model
  (SfModel/Handle.lean: `H`, `Store`) and the abstract state of the predicate (SfModel/Abs.lean: `St`), and the seek step.

  `Sim h s st` says that the abstract state `st` stands for the handle `h` on the store `s`: same mode, frame count and
  positions, and — for every caller type whose reference stream `st` still claims to know — the reference stream IS the
  decoded data region of the store (`absRef`).  `BInv` is the invariant the concrete side needs: `HInv` (C05), a
  non-negative frame count, and for read/write handles the RDWR invariant `RwInv` (C08).
  `seek_bridge`: every answer `sf_seek` gives in the model is accepted by `Abs.seekOk`, and the relation is kept.
-/
import SfProofs.AbsBridgeEnc
import SfProofs.RdwrCor
namespace Sf.AbsBridge
open Sf

def absMode : Sf.Mode → Abs.Mode | .r => .r | .w => .w | .rw => .rw

/-- the transcript line of a call that returns no buffer -/
def outOf (o : Sf.Out) : Abs.Out := { ret := o.ret, err := decide (o.err ≠ 0) }

/-- what the bridge needs of one seek: the line is accepted, nothing but the named pointers moves -/
def SeekGoal (g : Abs.Geom) (h : H) (st : Abs.St) (off whence : Int) (r : H × Store × Sf.Out) : Prop :=
  ∃ st', Abs.seekOk g st off whence (outOf r.2.2) = .ok st' ∧
      st'.mode = st.mode ∧ st'.frames = st.frames ∧ st'.ref = st.ref ∧ st'.valid = st.valid ∧
      (h.mode ≠ .w → (st'.rpos : Int) = r.1.rpos) ∧ (h.mode ≠ .r → (st'.wpos : Int) = r.1.wpos)

theorem seekGoal_fail (g : Abs.Geom) (h : H) (s : Store) (st : Abs.St) (off whence e : Int) (he : e ≠ 0)
    (hR : h.mode ≠ .w → (st.rpos : Int) = h.rpos) (hW : h.mode ≠ .r → (st.wpos : Int) = h.wpos)
    (hn : g.seekable = false ∨ Abs.seekTarget st off whence = none) :
    SeekGoal g h st off whence (seekFail h s e) := by
  refine ⟨{ st with err := true }, ?_, rfl, rfl, rfl, rfl, hR, hW⟩
  apply Abs.seekOk_complete_refused
  · rfl
  · simp [outOf, seekFail, he]
  · rcases hn with hn | hn
    · exact Or.inl hn
    · exact Or.inr (Or.inl hn)

theorem seekGoal_ok (g : Abs.Geom) (h h' : H) (s' : Store) (st : Abs.St) (off whence : Int) (t : Nat)
    (hg : g.seekable = true) (ht : Abs.seekTarget st off whence = some t)
    (hR : h.mode ≠ .w → ((Abs.seekMove st whence t).rpos : Int) = h'.rpos)
    (hW : h.mode ≠ .r → ((Abs.seekMove st whence t).wpos : Int) = h'.wpos) :
    SeekGoal g h st off whence (h', s', { ret := (t : Int), err := 0 }) := by
  obtain ⟨f1, f2, f3, f4⟩ := Abs.seekMove_frames st whence t
  refine ⟨Abs.seekMove st whence t, ?_, f2, f1, f3, f4, hR, hW⟩
  exact Abs.seekOk_complete_moved g st off whence _ t hg ht rfl (by simp [outOf])


theorem seekGoal_okI (g : Abs.Geom) (h h' : H) (s' : Store) (st : Abs.St) (off whence x : Int)
    (hg : g.seekable = true) (hx : 0 ≤ x) (ht : Abs.seekTarget st off whence = some x.toNat)
    (hR : h.mode ≠ .w → ((Abs.seekMove st whence x.toNat).rpos : Int) = h'.rpos)
    (hW : h.mode ≠ .r → ((Abs.seekMove st whence x.toNat).wpos : Int) = h'.wpos) :
    SeekGoal g h st off whence (h', s', { ret := x, err := 0 }) := by
  have := seekGoal_ok g h h' s' st off whence x.toNat hg ht hR hW
  rwa [Int.toNat_of_nonneg hx] at this

set_option linter.unusedSimpArgs false in
theorem seek_bridge (g : Abs.Geom) (h : H) (s : Store) (st : Abs.St) (off whence : Int)
    (hg : g.seekable = true) (hmode : st.mode = absMode h.mode) (hF : (st.frames : Int) = h.frames)
    (hR : h.mode ≠ .w → (st.rpos : Int) = h.rpos) (hW : h.mode ≠ .r → (st.wpos : Int) = h.wpos)
    (hrle : h.mode = .r → h.rpos ≤ h.frames) (hr0 : 0 ≤ h.rpos) (hw0 : 0 ≤ h.wpos) :
    SeekGoal g h st off whence (seekSpec h s off whence) := by
  have eR : h.mode = .r ∨ h.mode = .rw → (st.rpos : Int) = h.rpos := fun hx => hR (by rcases hx with hx | hx <;> rw [hx] <;> decide)
  have eW : h.mode = .w ∨ h.mode = .rw → (st.wpos : Int) = h.wpos := fun hx => hW (by rcases hx with hx | hx <;> rw [hx] <;> decide)
  by_cases hk : seekKnown whence
  · unfold seekKnown at hk
    rcases hk with hw | hw | hw | hw | hw | hw | hw | hw | hw | hw <;> subst hw <;>
    rcases mode_cases h.mode with hm | hm | hm <;>
    simp only [hm, absMode, true_or, or_true, forall_const, reduceCtorEq, false_or, or_false] at hmode eR eW hrle <;>
    simp [seekSpec, seekWm, Sf.seekBase, seekIsTell, hm] <;>
    repeat' split
    all_goals first
      | (apply seekGoal_fail g h s st _ _ _ (by decide) hR hW; right
         simp [Abs.seekTarget, Abs.seekBase, Abs.seekQual, hmode]
         try omega)
      | (unfold seekTell
         apply seekGoal_okI g h _ _ st _ _ _ hg (by omega)
         · simp [Abs.seekTarget, Abs.seekBase, Abs.seekQual, hmode]; omega
         · intro hx; first | exact absurd hm hx | (simp [Abs.seekMove, Abs.seekPtr, Abs.seekQual, hmode, seekMoveH, modeBits, hm]; try omega)
         · intro hx; first | exact absurd hm hx | (simp [Abs.seekMove, Abs.seekPtr, Abs.seekQual, hmode, seekMoveH, modeBits, hm]; try omega))
      | (apply seekGoal_okI g h _ _ st _ _ _ hg (by omega)
         · simp [Abs.seekTarget, Abs.seekBase, Abs.seekQual, hmode]; omega
         · intro hx; first | exact absurd hm hx | (simp [Abs.seekMove, Abs.seekPtr, Abs.seekQual, hmode, seekMoveH, modeBits, hm]; try omega)
         · intro hx; first | exact absurd hm hx | (simp [Abs.seekMove, Abs.seekPtr, Abs.seekQual, hmode, seekMoveH, modeBits, hm]; try omega))
  · unfold seekKnown at hk
    simp only [not_or] at hk
    obtain ⟨a0, a1, a2, a3, a4, a5, a6, a7, a8, a9⟩ := hk
    have hn : Abs.seekTarget st off whence = none := by
      simp [Abs.seekTarget, Abs.seekBase, a0, a1, a2, a3, a4, a5, a6, a7, a8, a9]
    have hb : Sf.seekBase h whence = none := by
      simp [Sf.seekBase, a0, a1, a2, a3, a4, a5, a6, a7, a8, a9]
    unfold seekSpec
    rw [hb]
    split
    · exact seekGoal_fail g h s st _ _ _ (by decide) hR hW (Or.inr hn)
    · exact seekGoal_fail g h s st _ _ _ (by decide) hR hW (Or.inr hn)
end Sf.AbsBridge
