/-
  DWVW decoder, call structure: how `dwvw_decode_data` behaves when one request is cut into several calls.  Since the
  repair of KF-DWVW-TAIL-CALL the loop body is the same in every iteration (the end test `b.end == 0 && bit_count <
  pad_bits` looks at the reservoir, not at the call boundary), so a call of `a + b` cells IS a call of `a` cells
  followed by a call of `b` cells (`decLoop_add`).  `tailStart` is the state in which the test of the old rule
  (`b.end == 0 && count == 0`, SfModel/DwvwOld.lean) fired at the start of a call.
-/
import SfProofs.DwvwBits
import SfModel.DwvwOld
namespace Sf.Dwvw.Proofs
open Sf Sf.Dwvw

/-- the look-ahead of the next sample finds (or has found) the end of the file: under the OLD rule a call that started
    here delivered nothing (class of the repaired KF-DWVW-TAIL-CALL) -/
def tailStart (c : Cfg) (d : DSt) : Prop := (getDwm c d).1.endZero = true

instance (c : Cfg) (d : DSt) : Decidable (tailStart c d) := by unfold tailStart; infer_instance

theorem decLoop_zero (c : Cfg) (d : DSt) : decLoop c 0 d = (d, []) := rfl

/-- one call of `a + b` cells = a call of `a` cells followed, when it was not cut short, by a call of `b` cells -/
theorem decLoop_add (c : Cfg) (a b : Nat) (d : DSt) :
    decLoop c (a + b) d =
      if (decLoop c a d).2.length = a then
        ((decLoop c b (decLoop c a d).1).1, (decLoop c a d).2 ++ (decLoop c b (decLoop c a d).1).2)
      else decLoop c a d := by
  induction a generalizing d with
  | zero => simp [decLoop_zero]
  | succ a ih =>
    have e : a + 1 + b = (a + b) + 1 := by omega
    rw [e]
    simp only [decLoop]
    cases hs : decStep c d with
    | stop d1 => simp
    | sample d1 x =>
      simp only
      split
      · simp
      · rw [ih d1]
        split <;> simp_all

/-- a call never delivers more than it was asked for -/
theorem decLoop_length_le (c : Cfg) (n : Nat) (d : DSt) : (decLoop c n d).2.length ≤ n := by
  induction n generalizing d with
  | zero => simp [decLoop_zero]
  | succ n ih =>
    simp only [decLoop]
    cases hs : decStep c d with
    | stop d1 => simp
    | sample d1 x =>
      simp only
      split
      · simp
      · have := ih d1
        simp only [List.length_cons]; omega

/-- calls none of which is cut short (the last one may be) -/
def fullCalls (c : Cfg) : DSt → List Nat → Prop
  | _, [] => True
  | d, n :: ns => (ns.sum = 0 ∨ (decodeData c n d).2.length = n) ∧ fullCalls c (decodeData c n d).1 ns

theorem decodeCalls_flatten (c : Cfg) (d : DSt) (ns : List Nat) (h : fullCalls c d ns) :
    (decodeCalls c d ns).flatten = (decodeData c ns.sum d).2 := by
  induction ns generalizing d with
  | nil => simp [decodeCalls, decodeData, decLoop_zero]
  | cons n ns ih =>
    obtain ⟨h1, h3⟩ := h
    simp only [decodeCalls, List.flatten_cons, List.sum_cons]
    rw [ih _ h3]
    unfold decodeData at h1 ⊢
    rcases h1 with h1 | h1
    · rw [h1]; simp [decLoop_zero]
    · rw [decLoop_add c n ns.sum d, if_pos h1]

/-- a prefix of a call that was delivered completely is delivered completely -/
theorem decLoop_prefix_full (c : Cfg) (a b : Nat) (d : DSt) (h : (decLoop c (a + b) d).2.length = a + b) :
    (decLoop c a d).2.length = a := by
  rw [decLoop_add] at h
  split at h
  · assumption
  · have := decLoop_length_le c a d
    omega

end Sf.Dwvw.Proofs
