/-
  DWVW decoder, call structure: how `dwvw_decode_data` behaves when one request is cut into several calls.  The loop
  body is the same in every iteration except for the test `b.end == 0 && count == 0`, which looks at the call
  boundary; `tailStart` is the state in which that test fires.
-/
import SfProofs.DwvwBits
namespace Sf.Dwvw.Proofs
open Sf Sf.Dwvw

/-- the look-ahead of the next sample finds (or has found) the end of the file: a call that starts here delivers
    nothing (known finding KF-DWVW-TAIL-CALL) -/
def tailStart (c : Cfg) (d : DSt) : Prop := (getDwm c d).1.endZero = true

instance (c : Cfg) (d : DSt) : Decidable (tailStart c d) := by unfold tailStart; infer_instance

theorem decStep_first_irrelevant (c : Cfg) (d : DSt) (h : ¬ tailStart c d) : decStep c true d = decStep c false d := by
  unfold tailStart at h
  unfold decStep
  simp only [h, Bool.false_eq_true, false_and, and_false]

theorem decLoop_first_irrelevant (c : Cfg) (n : Nat) (d : DSt) (h : ¬ tailStart c d) : decLoop c true n d = decLoop c false n d := by
  cases n with
  | zero => rfl
  | succ n => simp only [decLoop, decStep_first_irrelevant c d h]

theorem decLoop_zero (c : Cfg) (first : Bool) (d : DSt) : decLoop c first 0 d = (d, []) := by
  cases first <;> rfl

/-- one call of `a + b` cells = a call of `a` cells followed, when it was not cut short, by the loop continuing
    (with `count ≠ 0`) for `b` cells -/
theorem decLoop_add (c : Cfg) (first : Bool) (a b : Nat) (d : DSt) (ha : 0 < a) :
    decLoop c first (a + b) d =
      if (decLoop c first a d).2.length = a then
        ((decLoop c false b (decLoop c first a d).1).1, (decLoop c first a d).2 ++ (decLoop c false b (decLoop c first a d).1).2)
      else decLoop c first a d := by
  induction a generalizing first d with
  | zero => omega
  | succ a ih =>
    have e : a + 1 + b = (a + b) + 1 := by omega
    rw [e]
    simp only [decLoop]
    cases hs : decStep c first d with
    | stop d1 => simp
    | sample d1 x =>
      simp only
      split
      · simp
      · by_cases ha0 : a = 0
        · subst ha0
          simp [decLoop_zero]
        · rw [ih false d1 (by omega)]
          split <;> simp_all

/-- calls that are never cut short and never start in the tail -/
def safeCalls (c : Cfg) : DSt → List Nat → Prop
  | _, [] => True
  | d, n :: ns =>
    (decodeData c n d).2.length = n ∧ (ns.sum = 0 ∨ ¬ tailStart c (decodeData c n d).1) ∧ safeCalls c (decodeData c n d).1 ns

theorem decodeCalls_flatten (c : Cfg) (d : DSt) (ns : List Nat) (h : safeCalls c d ns) :
    (decodeCalls c d ns).flatten = (decodeData c ns.sum d).2 := by
  induction ns generalizing d with
  | nil => simp [decodeCalls, decodeData, decLoop_zero]
  | cons n ns ih =>
    obtain ⟨h1, h2, h3⟩ := h
    simp only [decodeCalls, List.flatten_cons, List.sum_cons]
    rw [ih _ h3]
    by_cases hn : n = 0
    · subst hn
      simp [decodeData, decLoop_zero]
    · unfold decodeData at h1 h2 ⊢
      rw [decLoop_add c true n ns.sum d (by omega), if_pos h1]
      simp only
      rcases h2 with h2 | h2
      · rw [h2]; simp [decLoop_zero]
      · rw [decLoop_first_irrelevant c _ _ h2]

end Sf.Dwvw.Proofs
