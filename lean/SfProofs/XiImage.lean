/-
  SfProofs.XiImage — the XI write session (the header serialises the running frame count, which is
  `audio bytes / bytewidth` in every reachable state) and `Sf.Xi.parse` on the images the writer leaves.
-/
import SfModel.Xi
import SfProofs.Small2Session
namespace Sf.Xi
open Sf Sf.Small2

theorem part_lengths : partA.length = 44 ∧ partB.length = 234 ∧ (∀ codec, (partC codec).length = 36) := by
  refine ⟨by decide +kernel, by decide +kernel, ?_⟩
  intro codec; unfold partC; split <;> decide +kernel

theorem hdr_length (c : Cfg) (hwf : c.wf) (f : Fields) : (hdr c f).length = 338 := by
  obtain ⟨hA, hB, hC⟩ := part_lengths
  unfold hdr
  simp only [List.length_append, hA, hB, hC, hwf.2, le32_length]

/-! ### positional reads -/

theorem byteAt_left (A X : List Byte) (i : Nat) (h : i < A.length) : byteAt (A ++ X) i = byteAt A i := by
  unfold byteAt; rw [List.getD_eq_getElem?_getD, List.getD_eq_getElem?_getD, List.getElem?_append_left h]

theorem byteAt_right (A X : List Byte) (i : Nat) (h : A.length ≤ i) : byteAt (A ++ X) i = byteAt X (i - A.length) := by
  unfold byteAt; rw [List.getD_eq_getElem?_getD, List.getD_eq_getElem?_getD, List.getElem?_append_right h]

theorem drop_right (A X : List Byte) (n : Nat) (h : A.length ≤ n) : (A ++ X).drop n = X.drop (n - A.length) := by
  induction A generalizing n with
  | nil => simp
  | cons a t ih =>
    cases n with
    | zero => simp at h
    | succ m =>
      simp only [List.cons_append, List.drop_succ_cons, List.length_cons]
      rw [ih m (by simpa using h)]; congr 1; omega

theorem leAt_right (A X : List Byte) (i n : Nat) (h : A.length ≤ i) : leAt (A ++ X) i n = leAt X (i - A.length) n := by
  unfold leAt; rw [drop_right A X i h]

theorem leAt_left (A X : List Byte) (i n : Nat) (h : i + n ≤ A.length) : leAt (A ++ X) i n = leAt A i n := by
  unfold leAt
  rw [List.drop_append_of_le_length (by omega), List.take_append_of_le_length (by rw [List.length_drop]; omega)]

theorem partA_facts : partA.take 20 = asc "Extended Instrument:" ∧ byteAt partA 43 = 0x1A ∧ partA.take 12 = [0x45, 0x78, 0x74, 0x65, 0x6E, 0x64, 0x65, 0x64, 0x20, 0x49, 0x6E, 0x73] := by
  decide +kernel

theorem partB_facts : leAt partB 232 2 = 1 := by decide +kernel

theorem partC_flags (codec : Nat) : byteAt (partC codec) 10 = if codec = 0x51 then 16 else 0 := by
  unfold partC; split <;> decide +kernel

theorem guess_image (c : Cfg) (f : Fields) (data : List Byte) : guess (hdr c f ++ data) = some (.fmt 0x0F0000) := by
  have h : partA = [0x45, 0x78, 0x74, 0x65, 0x6E, 0x64, 0x65, 0x64, 0x20, 0x49, 0x6E, 0x73] ++ partA.drop 12 := by decide +kernel
  unfold hdr
  rw [h]
  simp only [List.append_assoc, List.cons_append, List.nil_append]
  rfl

/-- **xi_read_header on a library image**: whatever the sample length field holds, the frame count is the audio
    bytes / bytewidth -/
theorem parse_image (c : Cfg) (hwf : c.wf) (f : Fields) (data : List Byte) :
    parse (hdr c f ++ data) = .ok { ch := 1, fmt := c.fmtWord, sr := 44100, frames := data.length / c.bw } := by
  obtain ⟨hA, hB, hC⟩ := part_lengths
  obtain ⟨a1, a2, _⟩ := partA_facts
  have hS := hwf.2
  have hlen : (hdr c f ++ data).length = 338 + data.length := by rw [List.length_append, hdr_length c hwf]
  unfold parse
  rw [if_neg (by omega), guess_image]
  simp only []
  unfold readHeader
  rw [if_neg (by omega)]
  have e1 : (hdr c f ++ data).take 20 = asc "Extended Instrument:" := by
    unfold hdr; rw [List.append_assoc, List.take_append_of_le_length (by omega)]; exact a1
  have e2 : byteAt (hdr c f ++ data) 43 = 0x1A := by
    unfold hdr; rw [List.append_assoc, byteAt_left _ _ 43 (by omega)]; exact a2
  have e3 : leAt (hdr c f ++ data) 296 2 = 1 := by
    unfold hdr
    rw [List.append_assoc, leAt_right _ _ 296 2 (by omega), hA, List.append_assoc, leAt_right _ _ _ 2 (by omega), hS,
      List.append_assoc, leAt_left _ _ _ 2 (by omega)]
    exact partB_facts
  have e4 : byteAt (hdr c f ++ data) 312 = if c.codec = 0x51 then 16 else 0 := by
    unfold hdr
    rw [List.append_assoc, byteAt_right _ _ 312 (by omega), hA, List.append_assoc, byteAt_right _ _ _ (by omega), hS,
      List.append_assoc, byteAt_right _ _ _ (by omega), hB, List.append_assoc, byteAt_right _ _ _ (by rw [le32_length]; omega), le32_length,
      byteAt_left _ _ _ (by rw [hC]; omega)]
    exact partC_flags c.codec
  have s1 : sext 16 1 = 1 := by decide
  rw [e1, e2, e3]
  simp only [ne_eq, not_true_eq_false, if_false, s1]
  rw [if_neg (by decide), if_neg (by decide)]
  have t1 : (1 : Int).toNat = 1 := rfl
  rw [t1, hlen, if_neg (by omega)]
  have t2 : trimCount (hdr c f ++ data) 1 = 1 := by simp [trimCount]
  rw [t2, if_neg (by decide), e4]
  rcases hwf.1 with h | h <;> simp [h, Cfg.fmtWord, Cfg.bw, bytewidth]

/-! ### sessions -/

/-- the running frame count is audio bytes / bytewidth and the header has its 338 bytes -/
def Inv (c : Cfg) (s : St) : Prop := s.f.frames = ((s.data.length / c.bw : Nat) : Int) ∧ s.hdr.length = 338

theorem inv_open (c : Cfg) (hwf : c.wf) (F : Fmt) (hF : F = fmt c ∨ F = fmtOld c) (stale : Nat) : Inv c (openW F stale) ∧ (openW F stale).data = [] := by
  rcases hF with h | h <;> subst h <;>
    exact ⟨⟨by simp [openW, emit], by simp only [openW, emit]; exact hdr_length c hwf _⟩, rfl⟩

theorem inv_step (c : Cfg) (hwf : c.wf) (F : Fmt) (hF : F = fmt c ∨ F = fmtOld c) (s : St) (op : WOp) (h : Inv c s) :
    Inv c (stepOp F s op) ∧ (stepOp F s op).data = s.data ++ opsData [op] := by
  have hb : F.bw = c.bw := by rcases hF with h | h <;> subst h <;> rfl
  have hh : ∀ f, (F.hdr f).length = 338 := by rcases hF with h | h <;> subst h <;> exact hdr_length c hwf
  have hr : ∀ n f, F.recalc n f = f := by rcases hF with h | h <;> subst h <;> intros <;> rfl
  cases op with
  | write enc auto =>
    refine ⟨?_, by simp [stepOp, write_data, opsData]⟩
    simp only [stepOp, write]
    by_cases hd : s.data.isEmpty = true <;> cases auto <;> simp [hd, emit, Inv, hb, hh, hr, h.2]
  | update => exact ⟨⟨by simp [stepOp, update, emit, hr, h.1], by simp [stepOp, update, emit, hh]⟩, by simp [stepOp, update, emit, opsData]⟩

theorem inv_run (c : Cfg) (hwf : c.wf) (F : Fmt) (hF : F = fmt c ∨ F = fmtOld c) (ops : List WOp) : ∀ s, Inv c s →
    Inv c (run F s ops) ∧ (run F s ops).data = s.data ++ opsData ops := by
  induction ops with
  | nil => intro s h; exact ⟨h, by simp [run, opsData]⟩
  | cons op r ih =>
    intro s h
    obtain ⟨h1, h2⟩ := inv_step c hwf F hF s op h
    obtain ⟨h3, h4⟩ := ih (stepOp F s op) h1
    have e : run F s (op :: r) = run F (stepOp F s op) r := rfl
    rw [e]
    refine ⟨h3, ?_⟩
    rw [h4, h2]; cases op <;> simp [opsData]

/-- the closed file and every update image under the repaired rule: the header with the frames written, then the audio -/
theorem closed_eq (c : Cfg) (hwf : c.wf) (stale : Nat) (ops : List WOp) :
    closedBytes (fmt c) stale ops = hdr c { frames := (((opsData ops).length / c.bw : Nat) : Int) } ++ opsData ops ∧
    snapshotBytes (fmt c) stale ops = hdr c { frames := (((opsData ops).length / c.bw : Nat) : Int) } ++ opsData ops := by
  obtain ⟨hi, hd0⟩ := inv_open c hwf (fmt c) (Or.inl rfl) stale
  obtain ⟨⟨h1, _⟩, h2⟩ := inv_run c hwf (fmt c) (Or.inl rfl) ops _ hi
  rw [hd0, List.nil_append] at h2
  have hh : ∀ f g : Fields, f.frames = g.frames → hdr c f = hdr c g := by intro f g e; unfold hdr; rw [e]
  have e1 : closedBytes (fmt c) stale ops = hdr c (run (fmt c) (openW (fmt c) stale) ops).f ++ (run (fmt c) (openW (fmt c) stale) ops).data := rfl
  have e2 : snapshotBytes (fmt c) stale ops = hdr c (run (fmt c) (openW (fmt c) stale) ops).f ++ (run (fmt c) (openW (fmt c) stale) ops).data := rfl
  rw [e1, e2, h2]
  have e3 : hdr c (run (fmt c) (openW (fmt c) stale) ops).f = hdr c { frames := (((opsData ops).length / c.bw : Nat) : Int) } := by
    apply hh; rw [h1, h2]
  rw [e3]
  exact ⟨rfl, rfl⟩

end Sf.Xi
