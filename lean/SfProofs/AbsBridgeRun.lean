/-
  SfProofs.AbsBridgeRun — the bridge, part 5: the TRUNCATE and flag-command steps, one step of `stepAny`, and the induction
  over `runOps`: the transcript the concrete model produces for ANY judged operation list from ANY state satisfying `BInv` is
  accepted by the predicate, line by line.
-/
import SfProofs.AbsBridgeSteps
namespace Sf.AbsBridge
open Sf

/-! ## SFC_FILE_TRUNCATE -/

theorem upTo_full (a : Array Abs.Item) (p : Nat) (h : a.size = p) : Abs.upTo 0 a p = a := by
  unfold Abs.upTo
  rw [h, Nat.sub_self]
  simp [← h]

theorem trunc_refused_goal (g : Abs.Geom) (h : H) (s : Store) (st : Abs.St) (n e : Int)
    (bi : BInv h s) (sim : Sim h s st) (hc : st.mode = .r ∨ g.canTrunc = false ∨ n < 0)
    (hs : stepTruncate h s n = ({ h with error := e }, s, { ret := 1, err := e })) :
    StepGoal g st (.trunc n) (outOf (stepTruncate h s n).2.2) (stepTruncate h s n).1 (stepTruncate h s n).2.1 := by
  rw [hs]
  exact ⟨_, Abs.truncOk_complete_refused g st n _ hc (by simp [outOf]), sim.set_err e _, bi.set_error e⟩

theorem trunc_step (g : Abs.Geom) (h : H) (s : Store) (st : Abs.St) (n : Int)
    (gf : GeomFor g h) (bi : BInv h s) (sim : Sim h s st) (hj : n = -1 → h.mode = .r ∨ h.canTruncate = false) :
    StepGoal g st (.trunc n) (outOf (stepTruncate h s n).2.2) (stepTruncate h s n).1 (stepTruncate h s n).2.1 := by
  have hi := bi.hinv
  by_cases hr : h.mode = .r
  · exact trunc_refused_goal g h s st n 0 bi sim (Or.inl (by rw [sim.mode]; exact absMode_r hr)) (stepTruncate_rmode h s n hr)
  by_cases hc : h.canTruncate = false
  · exact trunc_refused_goal g h s st n 0 bi sim (Or.inr (Or.inl (by rw [gf.canTrunc]; exact hc))) (stepTruncate_vio h s n hr hc)
  have hct : h.canTruncate = true := by simpa using hc
  by_cases hneg : n < 0
  · have hn1 : n ≠ -1 := by
      intro hx
      rcases hj hx with hx | hx
      · exact hr hx
      · exact hc hx
    exact trunc_refused_goal g h s st n E_BAD_SEEK bi sim (Or.inr (Or.inr hneg)) (stepTruncate_neg h s n hr hct hneg hn1)
  have hn : 0 ≤ n := by omega
  obtain ⟨k, hk⟩ := Int.eq_ofNat_of_zero_le hn
  have hstm : st.mode ≠ .r := by rw [sim.mode]; exact absMode_ne_r hr
  rcases mode_cases h.mode with hm | hm | hm
  · exact absurd hm hr
  · -- write-only handle
    have hs := stepTruncate_ok h s n hr hn
    rw [if_pos hct] at hs
    have hmv : seekMoveH h 0 n = { h with error := 0, wpos := n, lastOp := .w } := by
      simp [seekMoveH, hm, modeBits]
    rw [hmv] at hs
    have hacc := Abs.truncOk_complete g st n (outOf (stepTruncate h s n).2.2) hstm (by rw [gf.canTrunc]; exact hct) hn
      (by rw [hs]; rfl) (by rw [hs]; rfl)
    refine ⟨_, hacc, ?_, ?_⟩
    · rw [hs]
      refine ⟨sim.mode, by simp only [Abs.afterTrunc]; omega, fun hx => absurd hm hx,
        fun _ => by simp only [Abs.afterTrunc]; omega, fun hx => absurd hm hx⟩
    · have := HInv_stepTruncate h s n hi
      rw [hs] at this ⊢
      exact ⟨this, hn, fun hx => by rw [hm] at hx; cases hx⟩
  · -- read/write handle: C08Refine.truncate_shortens
    have inv := bi.rw hm
    obtain ⟨R, W, F, hdr, D, v⟩ := inv
    subst hk
    obtain ⟨t1, t2, inv', habs⟩ := v.truncate_refines k hct
    have hs := stepTruncate_ok h s (k : Int) hr hn
    rw [if_pos hct] at hs
    have hmv := seekMoveH_rw h hm .both (k : Int)
    simp only [ptrBits] at hmv
    rw [hmv] at hs
    have hacc := Abs.truncOk_complete g st (k : Int) (outOf (stepTruncate h s (k : Int)).2.2) hstm
      (by rw [gf.canTrunc]; exact hct) hn (by simp [outOf, t1]) (by simp [outOf, t2])
    have hF : st.frames = F := by have := sim.frames; have := v.frames; omega
    refine ⟨_, hacc, ?_, ⟨HInv_stepTruncate h s _ hi, by rw [hs]; exact hn, fun _ => inv'⟩⟩
    refine ⟨?_, ?_, fun _ => ?_, fun _ => ?_, fun _ t hv => ?_⟩
    · rw [hs]; exact sim.mode
    · rw [hs]; simp only [Abs.afterTrunc, Int.toNat_natCast]
    · rw [hs]; simp only [Abs.afterTrunc, Int.toNat_natCast]
    · rw [hs]; simp only [Abs.afterTrunc, Int.toNat_natCast]
    · simp only [Abs.afterTrunc, gf.holeZero, Bool.or_false, Bool.and_eq_true, decide_eq_true_eq, Int.toNat_natCast] at hv ⊢
      obtain ⟨hvt, hle⟩ := hv
      rw [hF] at hle
      have hnb := v.nb_pos
      have hbw := v.bw_pos
      -- the data region after the cut: the first `k` frames of the old one
      have hbw' : (stepTruncate h s (k : Int)).1.bw = h.bw := by rw [hs]; rfl
      have hX : (D.take (k * h.bw)).length = k * h.bw := by
        rw [List.length_take, v.dlen]; exact Nat.min_eq_left (Nat.mul_le_mul_right _ hle)
      have hD' : dataRegion (stepTruncate h s (k : Int)).1 (stepTruncate h s (k : Int)).2.1 = D.take (k * h.bw) := by
        apply dataRegion_of_frames _ _ inv' _ k (by rw [hbw']; exact hX)
        rw [habs, v.abs, hbw']
        simp only [AbsFile.truncate]
        rw [AbsFile.upTo_of_le _ _ _ (by rw [v.nframes]; exact hle), groups_take' _ hbw, Nat.mul_div_cancel _ hbw]
      have href : absRef (stepTruncate h s (k : Int)).1 (stepTruncate h s (k : Int)).2.1 t =
          encBuf t ((h.enc.decodeAll h.conv t D).take (k * h.ch)) := by
        unfold absRef
        rw [hD']
        have e1 : (stepTruncate h s (k : Int)).1.enc = h.enc := by rw [hs]
        have e2 : (stepTruncate h s (k : Int)).1.conv = h.conv := by rw [hs]
        rw [e1, e2, Enc.decodeAll_take _ _ _ hnb]
        have : k * h.bw / h.enc.nbytes = k * h.ch := by
          unfold H.bw; rw [Nat.mul_comm h.enc.nbytes, ← Nat.mul_assoc, Nat.mul_div_cancel _ hnb]
        rw [this]
      rw [href, sim.ref (by rw [hm]; decide) t hvt]
      unfold absRef
      rw [v.dataRegion]
      have hcpf : k * g.cpf t = (k * h.ch) * Abs.cells t := by unfold Abs.Geom.cpf; rw [gf.ch, Nat.mul_assoc]
      rw [hcpf, encBuf_extract_zero]
      apply upTo_full
      rw [encBuf_size, List.length_take, Enc.decodeAll_length _ _ _ hnb, v.dlen]
      have : F * h.bw / h.enc.nbytes = F * h.ch := by
        unfold H.bw; rw [Nat.mul_comm h.enc.nbytes, ← Nat.mul_assoc, Nat.mul_div_cancel _ hnb]
      rw [this, Nat.min_eq_left (Nat.mul_le_mul_right _ hle)]

/-! ## flag commands -/

/-- a command that is not a conversion setting leaves the conversion settings alone -/
theorem stepCmdFlag_conv (h : H) (s : Store) (cmd : Nat) (size : Int) (hc : ¬ convCmd cmd) :
    (stepCmdFlag h s cmd size).1.conv = h.conv := by
  unfold convCmd at hc
  simp only [not_or] at hc
  obtain ⟨c1, c2, c3, c4⟩ := hc
  unfold stepCmdFlag
  simp only
  split
  all_goals first
    | rfl
    | (exfalso; omega)
    | skip
  have := SameCfg.of_WHRel (WHRel.cond (({ h with error := 0 } : H).mode != .r ∧ ({ h with error := 0 } : H).container != .raw)
    { h with error := 0 } s true)
  obtain ⟨fl, dl, off, e, _⟩ := WHRel.cond (({ h with error := 0 } : H).mode != .r ∧ ({ h with error := 0 } : H).container != .raw)
    { h with error := 0 } s true
  show (if _ then _ else _ : H × Store).1.conv = _
  rw [e]

theorem cmd_step (g : Abs.Geom) (h : H) (s : Store) (st : Abs.St) (cmd : Nat) (size : Int)
    (bi : BInv h s) (sim : Sim h s st) (hc : ¬ convCmd cmd) :
    StepGoal g st .other (outOf (stepCmdFlag h s cmd size).2.2) (stepCmdFlag h s cmd size).1 (stepCmdFlag h s cmd size).2.1 := by
  have hi := bi.hinv
  have hconv := stepCmdFlag_conv h s cmd size hc
  obtain ⟨cv, ah, ⟨fl, dl, off, e, _⟩, _, hsr⟩ := stepCmdFlag_fields h s cmd size
  have hmode : (stepCmdFlag h s cmd size).1.mode = h.mode := by rw [e]
  have hfr : (stepCmdFlag h s cmd size).1.frames = h.frames := by rw [e]
  have hrp : (stepCmdFlag h s cmd size).1.rpos = h.rpos := by rw [e]
  have hwp : (stepCmdFlag h s cmd size).1.wpos = h.wpos := by rw [e]
  have henc : (stepCmdFlag h s cmd size).1.enc = h.enc := by rw [e]
  have hch : (stepCmdFlag h s cmd size).1.ch = h.ch := by rw [e]
  have hbi : BInv (stepCmdFlag h s cmd size).1 (stepCmdFlag h s cmd size).2.1 := by
    refine ⟨HInv_stepCmdFlag h s cmd size hi, by rw [hfr]; exact bi.frames_nn, fun hm => ?_⟩
    obtain ⟨R, W, F, hdr, D, v⟩ := bi.rw (by rw [← hmode]; exact hm)
    exact (v.cmdFlag_refines cmd size).1
  refine ⟨st, rfl, ⟨by rw [hmode]; exact sim.mode, by rw [hfr]; exact sim.frames,
    fun hm => by rw [hrp]; exact sim.rpos (by rw [← hmode]; exact hm),
    fun hm => by rw [hwp]; exact sim.wpos (by rw [← hmode]; exact hm), fun hm t hv => ?_⟩, hbi⟩
  have hmw : h.mode ≠ .w := by rw [← hmode]; exact hm
  rw [sim.ref hmw t hv]
  symm
  apply absRef_congr_region _ _ _ _ t henc hconv
  rcases mode_cases h.mode with hm' | hm' | hm'
  · -- read-only: the store and the data offset are untouched
    obtain ⟨cv', ah', e1, e2⟩ := stepCmdFlag_rmode h s cmd size hm'
    rw [e1, e2]; rfl
  · exact absurd hm' hmw
  · obtain ⟨R, W, F, hdr, D, v⟩ := bi.rw hm'
    obtain ⟨inv', habs⟩ := v.cmdFlag_refines cmd size
    have hbw : (stepCmdFlag h s cmd size).1.bw = h.bw := by unfold H.bw; rw [henc, hch]
    rw [v.dataRegion]
    apply dataRegion_of_frames _ _ inv' D F (by rw [hbw]; exact v.dlen)
    rw [habs, v.abs, hbw]

/-! ## one step, every sequence -/

def isClose : Sf.Op → Bool | .close _ => true | _ => false

/-- ONE STEP of the concrete model, any operation but `close`: the line is accepted, relation and invariant are kept -/
theorem step_bridge (hwid : WidenExact) (g : Abs.Geom) (h : H) (s : Store) (st : Abs.St) (op : Sf.Op)
    (gf : GeomFor g h) (bi : BInv h s) (sim : Sim h s st) (hj : Judged g h op) (hc : isClose op = false) :
    StepGoal g st (absOp op) (absOut op (stepAny h s op).2.2) (stepAny h s op).1 (stepAny h s op).2.1 := by
  cases op with
  | read ix ty fc n =>
    obtain ⟨st', a, b, c⟩ := read_bridge g h s st ty fc n gf bi sim
    exact ⟨st', a, b, c⟩
  | write ix ty fc n data => exact write_step hwid g h s st ty fc n data gf bi sim hj.1 hj.2
  | seek ix off whence => exact seek_step g h s st off whence gf bi sim
  | cmdFlag ix cmd size => exact cmd_step g h s st cmd size bi sim hj
  | truncate ix n => exact trunc_step g h s st n gf bi sim hj
  | close ix => simp [isClose] at hc

/-- the transcript of a run of the concrete model: one (script line, transcript line) pair per operation -/
def transcript (h : H) (s : Store) : List Sf.Op → List (Abs.Op × Abs.Out)
  | [] => []
  | op :: ops => (absOp op, absOut op (stepAny h s op).2.2) :: transcript (stepAny h s op).1 (stepAny h s op).2.1 ops

/-- `close` ends the use of a handle: it may only be the last operation -/
def CloseLast : List Sf.Op → Prop
  | [] => True
  | op :: ops => (isClose op = true → ops = []) ∧ CloseLast ops

/-- every sequence, by induction over `runOps`: the abstract state reached accepts the whole transcript -/
theorem run_bridge (hwid : WidenExact) (g : Abs.Geom) : ∀ (ops : List Sf.Op) (h : H) (s : Store) (st : Abs.St),
    GeomFor g h → BInv h s → Sim h s st → (∀ op ∈ ops, Judged g h op) → CloseLast ops →
    ∃ st', Abs.accepts g st (transcript h s ops) = some st' := by
  intro ops
  induction ops with
  | nil => intro h s st _ _ _ _ _; exact ⟨st, rfl⟩
  | cons op ops ih =>
    intro h s st gf bi sim hj hcl
    simp only [transcript, Abs.accepts]
    by_cases hc : isClose op = true
    · have : ops = [] := hcl.1 hc
      subst this
      cases op with
      | close ix => exact ⟨st, by simp [absOp, absOut, Abs.check, Abs.closeOk, outOf, stepAny, transcript, Abs.accepts]⟩
      | _ => simp [isClose] at hc
    · have hc' : isClose op = false := by simpa using hc
      obtain ⟨st1, hok, sim1, bi1⟩ := step_bridge hwid g h s st op gf bi sim (hj op (by simp)) hc'
      rw [hok]
      have c := SameCfg.stepAny h s op
      exact ih _ _ st1 (GeomFor_congr c gf) bi1 sim1 (fun op' hm => Judged_congr c op' (hj op' (by simp [hm]))) hcl.2

end Sf.AbsBridge
