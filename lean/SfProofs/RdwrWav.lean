/-
  SfProofs.RdwrWav — the WAV parser on a header ++ data image WITHOUT a PEAK chunk returns `peak = none`.
  (`wavScan_chain` / `wavParse_chain` of SfProofs/ContainerWav.lean leave the PEAK table existentially quantified; the
  two proofs are repeated here for the PEAK-less chain with the table pinned to `none`, which the RDWR re-open needs.)
-/
import SfProofs.ContainerWav
namespace Sf
set_option linter.unusedSimpArgs false

theorem wavScan_chain_nopeak (b : Bool) (codec nb ch : Nat) (sr : Int) (X P : List Byte) (fl : Int) (dl : Nat) (rest : List Byte)
    (hch : ch ≤ 1024) (hnb : nb ≤ 8)
    (hX : X = [] ∨ ∃ v, X = marker "fact" ++ (u32 b 4 ++ u32 b v))
    (hP : P = [])
    (hdl : dl < 0xFFFFFFFF) (hr1 : dl ≤ rest.length) (hr2 : rest.length ≤ dl + 1) :
    wavScan b (wavChain b codec nb ch sr X P fl dl rest) (wavChain b codec nb ch sr X P fl dl rest).length 64 12 {} =
      some { fmtTag := wavFormatTag codec, ch := ch, sr := wrapU 32 sr, bits := (wavBits codec nb).toNat, haveFmt := true,
             dataoffset := 16 + wavFmtLen codec + X.length + P.length + 8, datalength := ((dl + dl % 2 : Nat) : Int),
             dataend := if dl < rest.length then ((16 + wavFmtLen codec + X.length + P.length + 8 + dl : Nat) : Int) else 0,
             peak := none, peakAtStart := true, haveData := true } := by
  have hfl0 : wavFmtLen codec = 20 + (if isG711 codec then u16 b 0 else []).length := by
    unfold wavFmtLen isG711; split <;> simp [u16_length_ct]
  have hfsz0 : (if isG711 codec then (18 : Int) else 16) = ((16 + (if isG711 codec then u16 b 0 else []).length : Nat) : Int) := by
    split <;> simp [u16_length_ct]
  have hbits : wavBits codec nb = (((wavBits codec nb).toNat : Nat) : Int) := by
    unfold wavBits; split <;> omega
  have hbitsl : (wavBits codec nb).toNat < 2 ^ 16 := by unfold wavBits; split <;> omega
  have hdlv : (if (dl : Int) < 0xFFFFFFFF then (dl : Int) else 0xFFFFFFFF) = (dl : Int) := by
    have : (dl : Int) < 0xFFFFFFFF := by omega
    simp [this]
  unfold wavChain
  rw [hfsz0, hbits, hdlv, hfl0]
  generalize (if isG711 codec then u16 b 0 else []) = ext at *
  have hextl : ext.length = 0 ∨ ext.length = 2 := by omega
  generalize hR : (if b then marker "RIFX" else marker "RIFF") = R
  have hRl : R.length = 4 := by rw [← hR]; cases b <;> rfl
  generalize hU : u32 b (if fl < 8 then 8 else (if fl - 8 < 0xFFFFFFFF then fl - 8 else 0xFFFFFFFF)) = U
  have hUl : U.length = 4 := by rw [← hU]; exact u32_length_ct _ _
  generalize hbs : R ++ (U ++ (marker "WAVE" ++ (marker "fmt " ++ (u32 b ((16 + ext.length : Nat) : Int) ++
      (u16 b ((wavFormatTag codec : Nat) : Int) ++ (u16 b (ch : Int) ++ (u32 b sr ++ (u32 b (sr * (nb : Int) * ch) ++
      (u16 b ((nb : Int) * ch) ++ (u16 b (((wavBits codec nb).toNat : Nat) : Int) ++
      (ext ++ (X ++ (P ++ (marker "data" ++ (u32 b (dl : Int) ++ rest))))))))))))))) = bs
  -- stage A: fmt
  have hA : bs = (R ++ (U ++ marker "WAVE")) ++ (marker "fmt " ++ (u32 b ((16 + ext.length : Nat) : Int) ++
      (u16 b ((wavFormatTag codec : Nat) : Int) ++ (u16 b (ch : Int) ++ (u32 b sr ++ (u32 b (sr * (nb : Int) * ch) ++
      (u16 b ((nb : Int) * ch) ++ (u16 b (((wavBits codec nb).toNat : Nat) : Int) ++
      (ext ++ (X ++ (P ++ (marker "data" ++ (u32 b (dl : Int) ++ rest))))))))))))) := by
    rw [← hbs]; simp only [List.append_assoc]
  have eA := scan_fmt_at b bs _ ext _ _ _ ch _ sr _ _ 63 hA (by simp [hRl, hUl]) rfl hextl
    (by simp [u32_length_ct]; omega) (wavFormatTag_lt codec) (by omega) hbitsl
  rw [eA]
  obtain ⟨pa, hpa, hpal⟩ : ∃ pa : List Byte,
      bs = pa ++ (X ++ (P ++ (marker "data" ++ (u32 b (dl : Int) ++ rest)))) ∧ pa.length = 36 + ext.length :=
    ⟨R ++ (U ++ (marker "WAVE" ++ (marker "fmt " ++ (u32 b ((16 + ext.length : Nat) : Int) ++
      (u16 b ((wavFormatTag codec : Nat) : Int) ++ (u16 b (ch : Int) ++ (u32 b sr ++ (u32 b (sr * (nb : Int) * ch) ++
      (u16 b ((nb : Int) * ch) ++ (u16 b (((wavBits codec nb).toNat : Nat) : Int) ++ ext)))))))))),
     by rw [← hbs]; simp only [List.append_assoc], by simp [hRl, hUl, u32_length_ct, u16_length_ct]; omega⟩
  clear hA eA hbs
  rcases hX with hX | ⟨v, hX⟩ <;> subst hX <;> subst hP
  · -- no fact, no PEAK
    simp only [List.nil_append] at hpa
    rw [scan_data_at b bs pa rest dl 62 _ _ hpa hpal (by omega) rfl hr1 hr2]
    have e1 : 16 + (20 + ext.length) + 8 = 36 + ext.length + 8 := by omega
    simp only [List.length_nil, Nat.add_zero, Int.toNat_natCast, e1]
  · -- fact only
    simp only [List.nil_append, List.append_assoc] at hpa
    rw [scan_fact_at b bs pa _ v 62 _ _ hpa hpal (by simp [u32_length_ct])]
    have hpa2 : bs = (pa ++ (marker "fact" ++ (u32 b 4 ++ u32 b v))) ++
        (marker "data" ++ (u32 b (dl : Int) ++ rest)) := by rw [hpa]; simp only [List.append_assoc]
    rw [scan_data_at b bs _ rest dl 61 _ _ hpa2 (by simp [hpal, u32_length_ct] <;> omega) (by omega) rfl hr1 hr2]
    simp [u32_length_ct]
    refine ⟨?_, ?_, ?_⟩ <;> (try split) <;> omega

theorem wavParse_chain_nopeak (b : Bool) (codec ch : Nat) (sr : Int) (X P : List Byte) (fl : Int) (dl : Nat) (rest : List Byte)
    (hcodec : codec ∈ wavCodecs) (hch : 1 ≤ ch ∧ ch ≤ 1024)
    (hX : X = [] ∨ ∃ v, X = marker "fact" ++ (u32 b 4 ++ u32 b v))
    (hP : P = [])
    (hdl : dl < 0xFFFFFFFF) (hr1 : dl ≤ rest.length) (hr2 : rest.length ≤ dl + 1) :
    wavParse (wavChain b codec (wavNb codec) ch sr X P fl dl rest) =
      .ok { fmtWord := (if b then 0x20000000 else 0) + 0x010000 + codec, ch := ch, sr := wrapU 32 sr, big := b,
            dataoffset := 16 + wavFmtLen codec + X.length + P.length + 8, datalength := ((dl + dl % 2 : Nat) : Int),
            dataend := if dl < rest.length then ((16 + wavFmtLen codec + X.length + P.length + 8 + dl : Nat) : Int) else 0,
            filelength := ((16 + wavFmtLen codec + X.length + P.length + 8 + rest.length : Nat) : Int),
            peak := none, peakAtStart := true } := by
  have hscan := wavScan_chain_nopeak b codec (wavNb codec) ch sr X P fl dl rest hch.2
    (by simp [wavCodecs] at hcodec; rcases hcodec with h | h | h | h | h | h | h | h <;> subst h <;> decide) hX hP hdl hr1 hr2
  generalize hbs : wavChain b codec (wavNb codec) ch sr X P fl dl rest = bs at hscan ⊢
  have hlen : bs.length = 16 + wavFmtLen codec + X.length + P.length + 8 + rest.length := by
    rw [← hbs]; unfold wavChain wavFmtLen isG711
    by_cases hg : (codec == 0x10 || codec == 0x11) = true <;> cases b <;>
      simp [hg, u32_length_ct, u16_length_ct] <;> omega
  have htake : bs.take 4 = (if b then marker "RIFX" else marker "RIFF") := by
    rw [← hbs]; unfold wavChain; cases b <;> simp
  have hwave : (bs.drop 8).take 4 = marker "WAVE" := by
    rw [← hbs]; unfold wavChain
    exact take4_of_At rfl ((At.skip _ (At.skip _ (At.here _ _))).cast (by cases b <;> simp [u32_length_ct]))
  have hbig : ((if b then marker "RIFX" else marker "RIFF") == marker "RIFX") = b := by cases b <;> decide
  have hlit : ((if b then marker "RIFX" else marker "RIFF") == marker "RIFF") = !b := by cases b <;> decide
  have hww : (marker "WAVE" != marker "WAVE") = false := by decide
  unfold wavParse
  rw [hlen] at hscan
  simp only [htake, hwave, hlen, hbig, hlit, hscan, hww]
  have h12 : ¬ (16 + wavFmtLen codec + X.length + P.length + 8 + rest.length < 12) := by omega
  have hc1 : ¬ (ch < 1 ∨ ch > 1024) := by omega
  simp [wavCodecs] at hcodec
  rcases hcodec with h | h | h | h | h | h | h | h <;> subst h <;> cases b <;>
    simp [h12, hc1, wavFormatTag, wavBits, isG711, wavNb] <;> omega

/-! ## … and WITH a PEAK chunk in front of the data: the table has one entry per channel -/

theorem parsePeaks_length (big : Bool) (bs : List Byte) (off n : Nat) : (parsePeaks big bs off n).length = n := by
  induction n generalizing off with
  | zero => rfl
  | succ n ih => simp [parsePeaks, ih]

theorem wavScan_chain_peak (b : Bool) (codec nb ch : Nat) (sr : Int) (X P : List Byte) (fl : Int) (dl : Nat) (rest : List Byte)
    (hch : ch ≤ 1024) (hnb : nb ≤ 8)
    (hX : X = [] ∨ ∃ v, X = marker "fact" ++ (u32 b 4 ++ u32 b v))
    (hP : ∃ body, P = marker "PEAK" ++ (u32 b ((8 + 8 * ch : Nat) : Int) ++ body) ∧ body.length = 8 + 8 * ch)
    (hdl : dl < 0xFFFFFFFF) (hr1 : dl ≤ rest.length) (hr2 : rest.length ≤ dl + 1) :
    ∃ ps : List Peak, ps.length = ch ∧ wavScan b (wavChain b codec nb ch sr X P fl dl rest) (wavChain b codec nb ch sr X P fl dl rest).length 64 12 {} =
      some { fmtTag := wavFormatTag codec, ch := ch, sr := wrapU 32 sr, bits := (wavBits codec nb).toNat, haveFmt := true,
             dataoffset := 16 + wavFmtLen codec + X.length + P.length + 8, datalength := ((dl + dl % 2 : Nat) : Int),
             dataend := if dl < rest.length then ((16 + wavFmtLen codec + X.length + P.length + 8 + dl : Nat) : Int) else 0,
             peak := some ps, peakAtStart := true, haveData := true } := by
  have hfl0 : wavFmtLen codec = 20 + (if isG711 codec then u16 b 0 else []).length := by
    unfold wavFmtLen isG711; split <;> simp [u16_length_ct]
  have hfsz0 : (if isG711 codec then (18 : Int) else 16) = ((16 + (if isG711 codec then u16 b 0 else []).length : Nat) : Int) := by
    split <;> simp [u16_length_ct]
  have hbits : wavBits codec nb = (((wavBits codec nb).toNat : Nat) : Int) := by
    unfold wavBits; split <;> omega
  have hbitsl : (wavBits codec nb).toNat < 2 ^ 16 := by unfold wavBits; split <;> omega
  have hdlv : (if (dl : Int) < 0xFFFFFFFF then (dl : Int) else 0xFFFFFFFF) = (dl : Int) := by
    have : (dl : Int) < 0xFFFFFFFF := by omega
    simp [this]
  unfold wavChain
  rw [hfsz0, hbits, hdlv, hfl0]
  generalize (if isG711 codec then u16 b 0 else []) = ext at *
  have hextl : ext.length = 0 ∨ ext.length = 2 := by omega
  generalize hR : (if b then marker "RIFX" else marker "RIFF") = R
  have hRl : R.length = 4 := by rw [← hR]; cases b <;> rfl
  generalize hU : u32 b (if fl < 8 then 8 else (if fl - 8 < 0xFFFFFFFF then fl - 8 else 0xFFFFFFFF)) = U
  have hUl : U.length = 4 := by rw [← hU]; exact u32_length_ct _ _
  generalize hbs : R ++ (U ++ (marker "WAVE" ++ (marker "fmt " ++ (u32 b ((16 + ext.length : Nat) : Int) ++
      (u16 b ((wavFormatTag codec : Nat) : Int) ++ (u16 b (ch : Int) ++ (u32 b sr ++ (u32 b (sr * (nb : Int) * ch) ++
      (u16 b ((nb : Int) * ch) ++ (u16 b (((wavBits codec nb).toNat : Nat) : Int) ++
      (ext ++ (X ++ (P ++ (marker "data" ++ (u32 b (dl : Int) ++ rest))))))))))))))) = bs
  -- stage A: fmt
  have hA : bs = (R ++ (U ++ marker "WAVE")) ++ (marker "fmt " ++ (u32 b ((16 + ext.length : Nat) : Int) ++
      (u16 b ((wavFormatTag codec : Nat) : Int) ++ (u16 b (ch : Int) ++ (u32 b sr ++ (u32 b (sr * (nb : Int) * ch) ++
      (u16 b ((nb : Int) * ch) ++ (u16 b (((wavBits codec nb).toNat : Nat) : Int) ++
      (ext ++ (X ++ (P ++ (marker "data" ++ (u32 b (dl : Int) ++ rest))))))))))))) := by
    rw [← hbs]; simp only [List.append_assoc]
  have eA := scan_fmt_at b bs _ ext _ _ _ ch _ sr _ _ 63 hA (by simp [hRl, hUl]) rfl hextl
    (by simp [u32_length_ct]; omega) (wavFormatTag_lt codec) (by omega) hbitsl
  rw [eA]
  obtain ⟨pa, hpa, hpal⟩ : ∃ pa : List Byte,
      bs = pa ++ (X ++ (P ++ (marker "data" ++ (u32 b (dl : Int) ++ rest)))) ∧ pa.length = 36 + ext.length :=
    ⟨R ++ (U ++ (marker "WAVE" ++ (marker "fmt " ++ (u32 b ((16 + ext.length : Nat) : Int) ++
      (u16 b ((wavFormatTag codec : Nat) : Int) ++ (u16 b (ch : Int) ++ (u32 b sr ++ (u32 b (sr * (nb : Int) * ch) ++
      (u16 b ((nb : Int) * ch) ++ (u16 b (((wavBits codec nb).toNat : Nat) : Int) ++ ext)))))))))),
     by rw [← hbs]; simp only [List.append_assoc], by simp [hRl, hUl, u32_length_ct, u16_length_ct]; omega⟩
  clear hA eA hbs
  obtain ⟨body, hP, hbody⟩ := hP
  rcases hX with hX | ⟨v, hX⟩ <;> subst hX <;> subst hP
  · -- PEAK only
    simp only [List.nil_append, List.append_assoc] at hpa
    rw [scan_peak_at b bs pa body _ ch 62 _ _ hpa hpal hbody hch rfl rfl (by simp [u32_length_ct])]
    have hpa2 : bs = (pa ++ (marker "PEAK" ++ (u32 b ((8 + 8 * ch : Nat) : Int) ++ body))) ++
        (marker "data" ++ (u32 b (dl : Int) ++ rest)) := by rw [hpa]; simp only [List.append_assoc]
    rw [scan_data_at b bs _ rest dl 61 _ _ hpa2 (by simp [hpal, u32_length_ct, hbody] <;> omega) (by omega) rfl hr1 hr2]
    refine ⟨parsePeaks b bs (36 + ext.length + 8 + 8) ch, parsePeaks_length _ _ _ _, ?_⟩
    have e1 : 16 + (20 + ext.length) + 0 + (4 + (4 + (8 + 8 * ch))) + 8 = 36 + ext.length + 16 + 8 * ch + 8 := by omega
    simp [u32_length_ct, hbody, e1]
    refine ⟨?_, ?_, ?_⟩ <;> (try split) <;> omega
  · -- fact and PEAK
    simp only [List.append_assoc] at hpa
    rw [scan_fact_at b bs pa _ v 62 _ _ hpa hpal (by simp [u32_length_ct])]
    have hpa1 : bs = (pa ++ (marker "fact" ++ (u32 b 4 ++ u32 b v))) ++
        (marker "PEAK" ++ (u32 b ((8 + 8 * ch : Nat) : Int) ++ (body ++ (marker "data" ++ (u32 b (dl : Int) ++ rest))))) := by
      rw [hpa]; simp only [List.append_assoc]
    rw [scan_peak_at b bs _ body _ ch 61 _ _ hpa1 (by simp [hpal, u32_length_ct] <;> omega) hbody hch rfl rfl (by simp [u32_length_ct])]
    have hpa2 : bs = (pa ++ (marker "fact" ++ (u32 b 4 ++ u32 b v)) ++ (marker "PEAK" ++ (u32 b ((8 + 8 * ch : Nat) : Int) ++ body))) ++
        (marker "data" ++ (u32 b (dl : Int) ++ rest)) := by rw [hpa]; simp only [List.append_assoc]
    rw [scan_data_at b bs _ rest dl 60 _ _ hpa2 (by simp [hpal, u32_length_ct, hbody] <;> omega) (by omega) rfl hr1 hr2]
    refine ⟨parsePeaks b bs (36 + ext.length + 12 + 8 + 8) ch, parsePeaks_length _ _ _ _, ?_⟩
    simp [u32_length_ct, hbody]
    refine ⟨?_, ?_, ?_⟩ <;> (try split) <;> omega


theorem wavParse_chain_peak (b : Bool) (codec ch : Nat) (sr : Int) (X P : List Byte) (fl : Int) (dl : Nat) (rest : List Byte)
    (hcodec : codec ∈ wavCodecs) (hch : 1 ≤ ch ∧ ch ≤ 1024)
    (hX : X = [] ∨ ∃ v, X = marker "fact" ++ (u32 b 4 ++ u32 b v))
    (hP : ∃ body, P = marker "PEAK" ++ (u32 b ((8 + 8 * ch : Nat) : Int) ++ body) ∧ body.length = 8 + 8 * ch)
    (hdl : dl < 0xFFFFFFFF) (hr1 : dl ≤ rest.length) (hr2 : rest.length ≤ dl + 1) :
    ∃ ps : List Peak, ps.length = ch ∧ wavParse (wavChain b codec (wavNb codec) ch sr X P fl dl rest) =
      .ok { fmtWord := (if b then 0x20000000 else 0) + 0x010000 + codec, ch := ch, sr := wrapU 32 sr, big := b,
            dataoffset := 16 + wavFmtLen codec + X.length + P.length + 8, datalength := ((dl + dl % 2 : Nat) : Int),
            dataend := if dl < rest.length then ((16 + wavFmtLen codec + X.length + P.length + 8 + dl : Nat) : Int) else 0,
            filelength := ((16 + wavFmtLen codec + X.length + P.length + 8 + rest.length : Nat) : Int),
            peak := some ps, peakAtStart := true } := by
  obtain ⟨ps, hpsl, hscan⟩ := wavScan_chain_peak b codec (wavNb codec) ch sr X P fl dl rest hch.2
    (by simp [wavCodecs] at hcodec; rcases hcodec with h | h | h | h | h | h | h | h <;> subst h <;> decide) hX hP hdl hr1 hr2
  refine ⟨ps, hpsl, ?_⟩
  generalize hbs : wavChain b codec (wavNb codec) ch sr X P fl dl rest = bs at hscan ⊢
  have hlen : bs.length = 16 + wavFmtLen codec + X.length + P.length + 8 + rest.length := by
    rw [← hbs]; unfold wavChain wavFmtLen isG711
    by_cases hg : (codec == 0x10 || codec == 0x11) = true <;> cases b <;>
      simp [hg, u32_length_ct, u16_length_ct] <;> omega
  have htake : bs.take 4 = (if b then marker "RIFX" else marker "RIFF") := by
    rw [← hbs]; unfold wavChain; cases b <;> simp
  have hwave : (bs.drop 8).take 4 = marker "WAVE" := by
    rw [← hbs]; unfold wavChain
    exact take4_of_At rfl ((At.skip _ (At.skip _ (At.here _ _))).cast (by cases b <;> simp [u32_length_ct]))
  have hbig : ((if b then marker "RIFX" else marker "RIFF") == marker "RIFX") = b := by cases b <;> decide
  have hlit : ((if b then marker "RIFX" else marker "RIFF") == marker "RIFF") = !b := by cases b <;> decide
  have hww : (marker "WAVE" != marker "WAVE") = false := by decide
  unfold wavParse
  rw [hlen] at hscan
  simp only [htake, hwave, hlen, hbig, hlit, hscan, hww]
  have h12 : ¬ (16 + wavFmtLen codec + X.length + P.length + 8 + rest.length < 12) := by omega
  have hc1 : ¬ (ch < 1 ∨ ch > 1024) := by omega
  simp [wavCodecs] at hcodec
  rcases hcodec with h | h | h | h | h | h | h | h <;> subst h <;> cases b <;>
    simp [h12, hc1, wavFormatTag, wavBits, isG711, wavNb] <;> omega

end Sf
