/- byte (de)serialisation round trips -/
import SfModel.Basic
namespace Sf

theorem ofLE_leBytes (n v : Nat) : ofLE (leBytes n v) = v % 256 ^ n := by
  induction n generalizing v with
  | zero => simp [leBytes, ofLE, Nat.mod_one]
  | succ n ih =>
    simp only [leBytes, ofLE, ih]
    rw [Nat.pow_succ, Nat.mul_comm (256 ^ n) 256, Nat.mod_mul]

theorem leBytes_length (n v : Nat) : (leBytes n v).length = n := by
  induction n generalizing v with
  | zero => rfl
  | succ n ih => simp [leBytes, ih]

theorem ofBE_beBytes (n v : Nat) : ofBE (beBytes n v) = v % 256 ^ n := by
  simp [ofBE, beBytes, ofLE_leBytes]

theorem beBytes_length (n v : Nat) : (beBytes n v).length = n := by
  simp [beBytes, leBytes_length]

theorem leBytes_lt (n v : Nat) : ∀ b ∈ leBytes n v, b < 256 := by
  induction n generalizing v with
  | zero => simp [leBytes]
  | succ n ih =>
    intro b hb
    simp only [leBytes, List.mem_cons] at hb
    rcases hb with h | h
    · subst h; exact Nat.mod_lt _ (by decide)
    · exact ih _ b h

end Sf
