/-
  NMS ADPCM block shapes: lengths of the packers / unpackers, of `encodeBlock` (always `blockBytes` bytes for 160
  samples) and of `decodeBlock` (always 160 samples for `shorts` words).  Helper lemmas for SfProps/C07CodecsClosed.lean
  and C06CodecsPastEnd.lean.
-/
import SfModel.NmsFile
namespace Sf.Nms.Proofs
open Sf Sf.Nms Sf.Block

theorem encodeSamples_length : ∀ (xs : List Int) (s : St) (rms : Nat), (encodeSamples s xs rms).2.1.length = xs.length := by
  intro xs
  induction xs with
  | nil => intro s rms; rfl
  | cons x xs ih =>
    intro s rms
    simp only [encodeSamples, List.length_cons]
    rw [ih]

theorem decodeCodes_length : ∀ (cs : List Nat) (s : St), (decodeCodes s cs).2.length = cs.length := by
  intro cs
  induction cs with
  | nil => intro s; rfl
  | cons c cs ih =>
    intro s
    simp only [decodeCodes, List.length_cons]
    rw [ih]

theorem pack32_length : ∀ (n : Nat) (cs : List Nat), cs.length = 4 * n → (pack32 cs).length = n := by
  intro n
  induction n with
  | zero => intro cs h; have : cs = [] := List.eq_nil_of_length_eq_zero (by omega); subst this; rfl
  | succ n ih =>
    intro cs h
    match cs, h with
    | c0 :: c1 :: c2 :: c3 :: rest, h =>
      have hr : rest.length = 4 * n := by simp only [List.length_cons] at h; omega
      simp only [pack32, List.length_cons, ih rest hr]

theorem pack16_length : ∀ (n : Nat) (cs : List Nat), cs.length = 8 * n → (pack16 cs).length = n := by
  intro n
  induction n with
  | zero => intro cs h; have : cs = [] := List.eq_nil_of_length_eq_zero (by omega); subst this; rfl
  | succ n ih =>
    intro cs h
    match cs, h with
    | c0 :: c1 :: c2 :: c3 :: c4 :: c5 :: c6 :: c7 :: rest, h =>
      have hr : rest.length = 8 * n := by simp only [List.length_cons] at h; omega
      simp only [pack16, List.length_cons, ih rest hr]

theorem group24_three (c : List Nat) : ∃ a b d, group24 c = [a, b, d] := ⟨_, _, _, rfl⟩

theorem pack24_length : ∀ (n fuel : Nat) (cs : List Nat), cs.length = 16 * n → n < fuel → (pack24 fuel cs).length = 3 * n := by
  intro n
  induction n with
  | zero =>
    intro fuel cs h hf
    have : cs = [] := List.eq_nil_of_length_eq_zero (by omega)
    subst this
    cases fuel <;> simp [pack24]
  | succ n ih =>
    intro fuel cs h hf
    obtain ⟨fuel, rfl⟩ : ∃ k, fuel = k + 1 := ⟨fuel - 1, by omega⟩
    unfold pack24
    have hlt : ¬ cs.length < 16 := by omega
    simp only [hlt, if_false]
    obtain ⟨a, b, d, hg⟩ := group24_three (cs.take 16)
    rw [hg, List.length_append, ih fuel (cs.drop 16) (by rw [List.length_drop]; omega) (by omega)]
    simp only [List.length_cons, List.length_nil]
    omega

theorem nibbles_length (m w : Nat) : (nibbles m w).length = 4 := rfl

theorem unpack32_length (ws : List Nat) : (unpack32 ws).length = 4 * ws.length := by
  unfold unpack32
  induction ws with
  | nil => rfl
  | cons w ws ih => simp only [List.flatMap_cons, List.length_append, nibbles_length, ih, List.length_cons]; omega

theorem unpack16_length (ws : List Nat) : (unpack16 ws).length = 8 * ws.length := by
  unfold unpack16
  induction ws with
  | nil => rfl
  | cons w ws ih => simp only [List.flatMap_cons, List.length_append, nibbles_length, ih, List.length_cons]; omega

theorem ungroup24_length (a b c : Nat) : (ungroup24 a b c).length = 16 := rfl

theorem unpack24_length : ∀ (n : Nat) (ws : List Nat), ws.length = 3 * n → (unpack24 ws).length = 16 * n := by
  intro n
  induction n with
  | zero => intro ws h; have : ws = [] := List.eq_nil_of_length_eq_zero (by omega); subst this; rfl
  | succ n ih =>
    intro ws h
    match ws, h with
    | a :: b :: c :: rest, h =>
      have hr : rest.length = 3 * n := by simp only [List.length_cons] at h; omega
      simp only [unpack24, List.length_append, ungroup24_length, ih rest hr]
      omega

theorem wordsLE_length (ws : List Nat) : (wordsLE ws).length = 2 * ws.length := by
  unfold wordsLE
  induction ws with
  | nil => rfl
  | cons w ws ih => simp only [List.flatMap_cons, List.length_append, ih, List.length_cons, List.length_nil]; omega

/-- the packer of every rate turns the 160 codewords of a block into `shorts − 1` words -/
theorem pack_length (r : Rate) (codes : List Nat) (h : codes.length = 160) : (pack r codes).length = r.shorts - 1 := by
  cases r
  · exact pack16_length 20 codes (by omega)
  · show (pack24 (codes.length / 16 + 1) codes).length = 30
    rw [h]
    exact pack24_length 10 11 codes (by omega) (by omega)
  · exact pack32_length 40 codes (by omega)

/-- **`nms_adpcm_encode_block` always writes `shortsperblock` words** -/
theorem encodeBlock_length (r : Rate) (s : St) (samples : List Int) (h : samples.length = spb) :
    (encodeBlock r s samples).2.length = r.blockBytes := by
  unfold encodeBlock
  simp only
  have hc : (encodeSamples s samples 0).2.1.length = 160 := by rw [encodeSamples_length]; exact h
  rw [wordsLE_length, List.length_append, pack_length r _ hc]
  cases r <;> rfl

/-- the unpacker of every rate turns `shorts − 1` words into 160 codewords -/
theorem unpack_length (r : Rate) (ws : List Nat) (h : ws.length = r.shorts - 1) : (unpack r ws).length = 160 := by
  cases r
  · have : ws.length = 20 := h
    show (unpack16 ws).length = 160
    rw [unpack16_length, this]
  · have : ws.length = 30 := h
    exact unpack24_length 10 ws (by omega)
  · have : ws.length = 40 := h
    show (unpack32 ws).length = 160
    rw [unpack32_length, this]

/-- **`nms_adpcm_decode_block` always yields 160 samples** (for the `shortsperblock` words the wrapper hands it) -/
theorem decodeBlock_length (r : Rate) (s : St) (ws : List Nat) (h : ws.length = r.shorts) :
    (decodeBlock r s ws).2.length = spb := by
  unfold decodeBlock
  rw [decodeCodes_length, unpack_length]
  · rfl
  · rw [List.length_take, h]
    cases r <;> rfl

theorem blockWords_length (r : Rate) (prev : List Nat) (got : List Byte) : (blockWords r prev got).length = r.shorts := by
  unfold blockWords
  simp only [List.length_take, List.length_append, List.length_replicate]
  omega

/-- every block of the sequential decode (current short-block rule) has 160 samples -/
theorem decodeBlocks_length (r : Rate) : ∀ (n : Nat) (s : St) (buf : List Nat) (data : List Byte),
    ∀ b ∈ decodeBlocks r blockWords n s buf data, b.length = spb := by
  intro n
  induction n with
  | zero => intro s buf data b hb; simp [decodeBlocks] at hb
  | succ n ih =>
    intro s buf data b hb
    simp only [decodeBlocks, List.mem_cons] at hb
    rcases hb with rfl | hb
    · exact decodeBlock_length r s _ (blockWords_length r buf _)
    · exact ih _ _ _ b hb

theorem decodeBlocks_count (r : Rate) (fill : Rate → List Nat → List Byte → List Nat) : ∀ (n : Nat) (s : St) (buf : List Nat) (data : List Byte),
    (decodeBlocks r fill n s buf data).length = n := by
  intro n
  induction n with
  | zero => intro s buf data; rfl
  | succ n ih => intro s buf data; simp only [decodeBlocks, List.length_cons, ih]

end Sf.Nms.Proofs
