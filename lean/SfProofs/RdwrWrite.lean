/-
  SfProofs.RdwrWrite — a write call on a read/write handle against the abstract file.
-/
import SfProofs.RdwrSteps
namespace Sf

theorem write_nonempty (s : Store) (d : List Byte) (hd : 0 < d.length) :
    s.write d = { bytes := writeAt s.bytes s.pos d, pos := s.pos + d.length } := by
  unfold Store.write
  cases d with
  | nil => simp at hd
  | cons x t => simp

/-- the frames a write call hands over: the encoded samples, `bw` bytes per frame -/
def writtenFrames (h : H) (ty : Ty) (data : List Int) : List (List Byte) :=
  groups h.bw (h.enc.encodeAll h.conv ty data)

/-- `wCore` never reads `lastOp` -/
theorem wCore_lastOp (hp : H) (sp : Store) (ty : Ty) (len : Int) (data : List Int) :
    wCore (hp, sp) ty len data = wCore ({ hp with lastOp := .w }, sp) ty len data := rfl

theorem TailOk.mono {h : H} {t t' : Nat} (ht : TailOk h t) (hle : t' ≤ t) : TailOk h t' := by
  rcases ht with h0 | ⟨h1, hc⟩
  · left; omega
  · rcases Nat.eq_zero_or_pos t' with hz | hp
    · left; exact hz
    · right; exact ⟨by omega, hc⟩

/-- the samples phase of a write call, from a handle positioned at its write pointer -/
theorem RwView.wCore_refines {h : H} {s : Store} {R W F : Nat} {hdr D : List Byte} (v : RwView h s R W F hdr D)
    (hl : h.lastOp = .w) (ty : Ty) (k : Nat) (data : List Int) (hk : 0 < k) (hdata : data.length = k * h.ch) :
    ∃ h' s', wCore (h, s) ty ((k * h.ch : Nat) : Int) data = (h', s') ∧ h'.ch = h.ch ∧
      (writtenFrames h ty data).length = k ∧
      RwInv h' s' ∧ absOf h' s' = (absOf h s).write (zeroFrame h.bw) (writtenFrames h ty data) := by
  have hch := v.ch_pos
  have hnb := v.nb_pos
  have hbw := v.bw_pos
  obtain ⟨t, hb, ht⟩ := v.bytes
  unfold wCore
  simp only []
  have hlenNat : (((k * h.ch : Nat) : Int)).toNat = k * h.ch := Int.toNat_natCast _
  have htake : data.take (k * h.ch) = data := List.take_of_length_le (by omega)
  rw [hlenNat, htake]
  generalize hpk : peakUpdate { h with haveWritten := true } ty data = pk'
  have key : ∀ hh : H, hh.peak = h.peak → hh.ch = h.ch →
      (peakUpdate hh ty data).map List.length = h.peak.map List.length := by
    intro hh e1 e2
    cases hp : h.peak with
    | none => rw [hp] at e1; rw [peakUpdate_none _ _ _ e1]
    | some ps =>
      rw [hp] at e1
      obtain ⟨ps', e, l⟩ := peakUpdate_some hh ty data ps e1 (by rw [e2]; exact (v.peak ps hp).1)
      rw [e]
      show some ps'.length = some ps.length
      rw [l, e2, (v.peak ps hp).1]
  have hpkl : pk'.map List.length = h.peak.map List.length := by
    rw [← hpk]; exact key _ rfl rfl
  generalize henc : h.enc.encodeAll h.conv ty data = enc
  have hel : enc.length = k * h.bw := by
    rw [← henc, Enc.encodeAll_length, hdata]; unfold H.bw; rw [Nat.mul_assoc, Nat.mul_comm h.ch]
  have hfs : (writtenFrames h ty data).length = k := by
    unfold writtenFrames; rw [henc, groups_length' _ hbw, hel, Nat.mul_div_cancel _ hbw]
  generalize ht' : t - (W * h.bw + enc.length - D.length) = t'
  have hwr : s.write enc = { bytes := hdr ++ (writeAt D (W * h.bw) enc ++ zeros t'), pos := hdr.length + (W + k) * h.bw } := by
    rw [write_nonempty _ _ (by rw [hel]; exact Nat.mul_pos hk hbw), v.syncW hl, hb, ← v.hlen, writeAt_append,
      writeAt_zeros_tail, ht', hel]
    congr 1; rw [Nat.add_mul]; omega
  rw [hwr]
  have hdiv : ((k * h.ch : Nat) : Int) / (h.ch : Int) = (k : Int) := by
    rw [← Int.natCast_ediv, Nat.mul_div_cancel _ hch]
  simp only [hdiv, v.wpos, v.frames]
  have hDl : (writeAt D (W * h.bw) enc).length = max F (W + k) * h.bw := by
    rw [writeAt_length, v.dlen, hel, ← Nat.add_mul]
    rcases Nat.le_total F (W + k) with hle | hle
    · rw [Nat.max_eq_right hle, Nat.max_eq_right (Nat.mul_le_mul_right _ hle)]
    · rw [Nat.max_eq_left hle, Nat.max_eq_left (Nat.mul_le_mul_right _ hle)]
  generalize hS2 : ({ bytes := hdr ++ (writeAt D (W * h.bw) enc ++ zeros t'), pos := hdr.length + (W + k) * h.bw } : Store) = S2
  -- the handle before the automatic header update
  have vw : ∀ (fr : Int) (de : Int), fr = ((max F (W + k) : Nat) : Int) → (h.container ≠ .wav → de = 0) →
      RwView { h with haveWritten := true, wpos := (W : Int) + (k : Int), lastOp := .w, peak := pk', frames := fr, dataend := de }
        S2 R (W + k) (max F (W + k)) hdr (writeAt D (W * h.bw) enc) := by
    intro fr de hfr hde
    subst hS2
    exact v.rebuild _ _ R (W + k) (max F (W + k)) hdr _ rfl rfl rfl rfl hpkl hde rfl rfl rfl v.rpos
      (by simp) hfr ⟨t', rfl, ht.mono (by omega)⟩ rfl hDl (by simp) (fun _ => rfl) (fun hc => by simp at hc)
  have habs : groups h.bw (writeAt D (W * h.bw) enc) =
      AbsFile.upTo (zeroFrame h.bw) (groups h.bw D) W ++ groups h.bw enc ++ (groups h.bw D).drop (W + k) :=
    groups_writeAt _ hbw D enc F W k v.dlen hel
  have hne : writtenFrames h ty data ≠ [] := by
    intro hc; rw [hc] at hfs; simp at hfs; omega
  have hfinal : ∀ (hh : H) (_ : RwView hh S2 R (W + k) (max F (W + k)) hdr (writeAt D (W * h.bw) enc)), hh.bw = h.bw →
      hh.ch = h.ch →
      ∃ h' s', (if hh.autoHeader = true ∧ (hh.container != Container.raw) = true then Sf.writeHeader hh S2 true
          else (hh, S2)) = (h', s') ∧
        h'.ch = h.ch ∧ (writtenFrames h ty data).length = k ∧
        RwInv h' s' ∧ absOf h' s' = (absOf h s).write (zeroFrame h.bw) (writtenFrames h ty data) := by
    intro hh vv ebw ech
    obtain ⟨fl2, dl2, hdr2, e2, l2⟩ := vv.condHeader (hh.autoHeader = true ∧ (hh.container != Container.raw) = true) true
    rw [e2]
    have vf := vv.upd_lengths fl2 dl2 hdr2 l2
    refine ⟨_, _, rfl, ech, hfs, ⟨_, _, _, _, _, vf⟩, ?_⟩
    rw [vf.abs, v.abs]
    unfold AbsFile.write
    rw [if_neg hne, hfs]
    have : ({ hh with filelength := fl2, datalength := dl2 } : H).bw = h.bw := ebw
    rw [this, habs]
    unfold writtenFrames; rw [henc]
  by_cases hgt : (W : Int) + (k : Int) > (F : Int)
  · simp only [hgt, if_true]
    exact hfinal _ (vw _ _ (by omega) (fun _ => rfl)) rfl rfl
  · simp only [hgt, if_false]
    exact hfinal _ (vw _ _ (by omega) v.dataend) rfl rfl

theorem RwView.write_refines {h : H} {s : Store} {R W F : Nat} {hdr D : List Byte} (v : RwView h s R W F hdr D)
    (ty : Ty) (fc : Bool) (k : Nat) (data : List Int) (hk : 0 < k) (hdata : data.length = k * h.ch) :
    ∃ h' s' o, stepWrite h s ty fc (callCount h fc k) data = (h', s', o) ∧
      o.ret = callCount h fc k ∧ o.err = 0 ∧ (writtenFrames h ty data).length = k ∧
      RwInv h' s' ∧ absOf h' s' = (absOf h s).write (zeroFrame h.bw) (writtenFrames h ty data) := by
  have hch := v.ch_pos
  obtain ⟨t, hb, ht⟩ := v.bytes
  have hn : 0 < callCount h fc k := by
    unfold callCount; cases fc
    · simp only [Bool.false_eq_true, if_false]; exact Int.ofNat_lt.mpr (Nat.mul_pos hk hch)
    · simp only [if_true]; exact Int.ofNat_lt.mpr hk
  have ha : fc = true ∨ callCount h fc k % (h.ch : Int) = 0 := by
    cases fc
    · right; simp [callCount]
    · left; rfl
  rw [stepWrite_main h s ty fc _ data hn (by rw [v.mode]; decide) ha, reqLen_callCount]
  -- phase 1: re-seek, first-write header
  have v0 := v.setError 0
  obtain ⟨fl1, dl1, hdr1, e1, l1⟩ : ∃ fl dl hdr', wPre h s =
      ({ h with error := 0, filelength := fl, datalength := dl },
       { bytes := hdr' ++ (D ++ zeros t), pos := hdr.length + W * h.bw }) ∧
      hdr'.length = hdr.length := by
    unfold wPre
    simp only []
    have hs1 : (if (h.lastOp != Mode.w) = true then Sf.defaultSeek { h with error := 0 } s h.wpos else s) =
        { bytes := s.bytes, pos := hdr.length + W * h.bw } := by
      by_cases hl : h.lastOp = .w
      · rw [if_neg (by simp [hl]), v.hlen, ← v.syncW hl]
      · rw [if_pos (by simp [hl]), v.wpos]; exact v0.defaultSeek W
    rw [hs1]
    split
    · obtain ⟨fl, dl, hdr', e, l⟩ := writeHeader_shape { h with error := 0 } { bytes := s.bytes, pos := hdr.length + W * h.bw }
        false hdr (D ++ zeros t) hb v0.hlen v0.doff (by rw [← v0.hlen]; exact Nat.le_add_right _ _)
      exact ⟨fl, dl, hdr', e, by rw [l, v0.hlen]⟩
    · exact ⟨h.filelength, h.datalength, hdr, by rw [← hb], rfl⟩
  rw [e1, wCore_lastOp]
  -- phase 2
  have vp : RwView { h with error := 0, filelength := fl1, datalength := dl1, lastOp := .w }
      { bytes := hdr1 ++ (D ++ zeros t), pos := hdr.length + W * h.bw } R W F hdr1 D :=
    v.rebuild _ _ R W F hdr1 D rfl rfl rfl rfl rfl v.dataend rfl rfl rfl v.rpos v.wpos v.frames ⟨t, rfl, ht⟩ l1 v.dlen
      (by simp) (fun _ => rfl) (fun hc => by simp at hc)
  obtain ⟨h', s', e2, hc2, hfs, inv, habs⟩ := vp.wCore_refines rfl ty k data hk hdata
  have e2' : wCore ({ h with error := 0, filelength := fl1, datalength := dl1, lastOp := .w },
      { bytes := hdr1 ++ (D ++ zeros t), pos := hdr.length + W * h.bw }) ty ((k * h.ch : Nat) : Int) data = (h', s') := e2
  rw [e2']
  refine ⟨h', s', _, rfl, ?_, rfl, hfs, inv, ?_⟩
  · simp only [hc2]
    have hdiv : ((k * h.ch : Nat) : Int) / (h.ch : Int) = (k : Int) := by
      rw [← Int.natCast_ediv, Nat.mul_div_cancel _ hch]
    rw [hdiv]; rfl
  · rw [habs, vp.abs, v.abs]; rfl

/-- a zero-count write call does nothing -/
theorem write_zero_rw (h : H) (s : Store) (ty : Ty) (fc : Bool) (data : List Int) :
    stepWrite h s ty fc (callCount h fc 0) data = (h, s, { ret := 0, err := h.error }) := by
  have : callCount h fc 0 = 0 := by unfold callCount; cases fc <;> simp
  rw [this, stepWrite_zero]

/-! ## flag commands, SFC_UPDATE_HEADER_NOW -/

theorem RwView.cmdFlag_refines {h : H} {s : Store} {R W F : Nat} {hdr D : List Byte} (v : RwView h s R W F hdr D)
    (cmd : Nat) (size : Int) :
    RwInv (stepCmdFlag h s cmd size).1 (stepCmdFlag h s cmd size).2.1 ∧
    absOf (stepCmdFlag h s cmd size).1 (stepCmdFlag h s cmd size).2.1 = absOf h s := by
  unfold stepCmdFlag
  simp only []
  split
  case h_9 =>
    obtain ⟨fl, dl, hdr', e, l⟩ := (v.setError 0).condHeader
      ((({ h with error := 0 } : H).mode != Mode.r) = true ∧ (({ h with error := 0 } : H).container != Container.raw) = true) true
    rw [e]
    have vf := (v.setError 0).upd_lengths fl dl hdr' l
    exact ⟨⟨_, _, _, _, _, vf⟩, by rw [vf.abs, v.abs]; rfl⟩
  all_goals
    refine ⟨⟨R, W, F, hdr, D, v.rebuild _ _ R W F hdr D rfl rfl rfl rfl rfl v.dataend rfl rfl rfl v.rpos v.wpos v.frames
      v.bytes rfl v.dlen (by rw [v.hlen]; exact v.posGe) (by rw [v.hlen]; exact v.syncW) (by rw [v.hlen]; exact v.syncR)⟩, rfl⟩

end Sf
