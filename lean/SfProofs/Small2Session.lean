/-
  SfProofs.Small2Session — the write-session machine of SfModel/Small2.lean, for every container at once:
  the store is always `header ++ audio`, the audio is the concatenation of what the write calls stored, and after
  a header update (SFC_UPDATE_HEADER_NOW, a write call in auto mode, or the close function of a container that
  rewrites its header) the header is `F.hdr (F.recalc (store length) _)`.

  Also the byte-field lemmas the container parsers need (`cut` on an appended field, `ofBE (be32 v)`, …).
-/
import SfModel.Small2
import SfProofs.Bytes
namespace Sf.Small2
open Sf

/-! ### byte fields -/

@[simp] theorem be32_length (v : Int) : (be32 v).length = 4 := by simp [be32, beBytes_length]
@[simp] theorem be16_length (v : Int) : (be16 v).length = 2 := by simp [be16, beBytes_length]
@[simp] theorem le32_length (v : Int) : (le32 v).length = 4 := by simp [le32, leBytes_length]
@[simp] theorem le16_length (v : Int) : (le16 v).length = 2 := by simp [le16, leBytes_length]

theorem wrapU_lt (bits : Nat) (v : Int) : wrapU bits v < 2 ^ bits := by
  unfold wrapU
  have hp : (0 : Int) < 2 ^ bits := Int.pow_pos (by decide)
  have h1 := Int.emod_lt_of_pos v hp
  have h0 := Int.emod_nonneg v (Int.ne_of_gt hp)
  have : ((v % 2 ^ bits).toNat : Int) < ((2 ^ bits : Nat) : Int) := by
    rw [Int.toNat_of_nonneg h0]; push_cast; exact h1
  exact Int.ofNat_lt.mp this

theorem ofBE_be32 (v : Int) : ofBE (be32 v) = wrapU 32 v := by
  unfold be32; rw [ofBE_beBytes]; exact Nat.mod_eq_of_lt (wrapU_lt 32 v)
theorem ofBE_be16 (v : Int) : ofBE (be16 v) = wrapU 16 v := by
  unfold be16; rw [ofBE_beBytes]; exact Nat.mod_eq_of_lt (wrapU_lt 16 v)
theorem ofLE_le32 (v : Int) : ofLE (le32 v) = wrapU 32 v := by
  unfold le32; rw [ofLE_leBytes]; exact Nat.mod_eq_of_lt (wrapU_lt 32 v)
theorem ofLE_le16 (v : Int) : ofLE (le16 v) = wrapU 16 v := by
  unfold le16; rw [ofLE_leBytes]; exact Nat.mod_eq_of_lt (wrapU_lt 16 v)

theorem wrapU_nat (bits : Nat) (v : Nat) (h : v < 2 ^ bits) : wrapU bits (v : Int) = v := by
  unfold wrapU
  have : ((v : Int) % (2 ^ bits : Int)) = (v : Int) := by
    apply Int.emod_eq_of_lt (Int.natCast_nonneg v)
    exact_mod_cast h
  rw [this]; simp

theorem wrapU_nat_mod (bits : Nat) (v : Nat) : wrapU bits (v : Int) = v % 2 ^ bits := by
  unfold wrapU
  have : ((v : Int) % (2 ^ bits : Int)) = ((v % 2 ^ bits : Nat) : Int) := by push_cast; rfl
  rw [this]; exact Int.toNat_natCast _

theorem sext_small' (v : Nat) (h : v < 2 ^ 31) : sext 32 v = v := by
  unfold sext; simp; omega

/-- reading a field that was appended in front -/
theorem cut_append (f r : List Byte) (n : Nat) (h : f.length = n) : cut n (f ++ r) = (f, r) := by
  subst h; simp [cut]

theorem take_append_len (f r : List Byte) (n : Nat) (h : f.length = n) : (f ++ r).take n = f := by
  subst h; simp
theorem drop_append_len (f r : List Byte) (n : Nat) (h : f.length = n) : (f ++ r).drop n = r := by
  subst h; simp

/-- the frame count every codec init derives from the file length, on a store `header ++ D bytes` -/
theorem framesOf_nat (H D : Nat) (bw : Nat) (hbw : 0 < bw) :
    (framesOf ((H + D : Nat) : Int) (H : Nat) 0 (bw : Nat)).toNat = D / bw := by
  unfold framesOf
  have h0 : ¬ ((0 : Int) > 0) := by decide
  have hb : ((bw : Nat) : Int) > 0 := by exact_mod_cast hbw
  rw [if_neg h0, if_pos hb]
  by_cases hz : D = 0
  · subst hz
    have : ¬ (((H + 0 : Nat) : Int) > ((H : Nat) : Int)) := by push_cast; omega
    rw [if_neg this]; simp
  · have : ((H + D : Nat) : Int) > ((H : Nat) : Int) := by push_cast; omega
    rw [if_pos this]
    have e : ((H + D : Nat) : Int) - ((H : Nat) : Int) = ((D : Nat) : Int) := by push_cast; omega
    rw [e, Int.tdiv_eq_ediv_of_nonneg (Int.natCast_nonneg _), ← Int.natCast_ediv, Int.toNat_natCast]

/-! ### sessions -/

structure Lawful (F : Fmt) : Prop where
  hlen : ∀ f, (F.hdr f).length = F.hdrLen
  hindep : ∀ n f g, F.hdr (F.recalc n f) = F.hdr (F.recalc n g)

/-- the header a `calc_length` rewrite leaves in a store of `n` bytes -/
def calcHdr (F : Fmt) (n : Nat) : List Byte := F.hdr (F.recalc n {})

theorem emit_data (F : Fmt) (s : St) (b : Bool) : (emit F s b).data = s.data := rfl

theorem emit_hdr_len (F : Fmt) (L : Lawful F) (s : St) (b : Bool) : (emit F s b).hdr.length = F.hdrLen := by
  simp [emit, L.hlen]

theorem emit_true_hdr (F : Fmt) (L : Lawful F) (s : St) :
    (emit F s true).hdr = calcHdr F (s.hdr.length + s.data.length) := by
  simp only [emit, calcHdr, if_true]; exact L.hindep _ _ _

theorem open_data (F : Fmt) (stale : Nat) : (openW F stale).data = [] := rfl
theorem open_hdr_len (F : Fmt) (L : Lawful F) (stale : Nat) : (openW F stale).hdr.length = F.hdrLen := by
  simp [openW, emit, L.hlen]

theorem write_data (F : Fmt) (s : St) (enc : List Byte) (auto : Bool) : (write F s enc auto).data = s.data ++ enc := by
  unfold write; cases auto <;> (split <;> simp [emit])

theorem write_hdr_len (F : Fmt) (L : Lawful F) (s : St) (enc : List Byte) (auto : Bool) (h : s.hdr.length = F.hdrLen) :
    (write F s enc auto).hdr.length = F.hdrLen := by
  unfold write; cases auto <;> (split <;> simp [emit, L.hlen, h])

theorem step_inv (F : Fmt) (L : Lawful F) (s : St) (op : WOp) (h : s.hdr.length = F.hdrLen) :
    (stepOp F s op).hdr.length = F.hdrLen ∧ (stepOp F s op).data = s.data ++ opsData [op] := by
  cases op with
  | write enc auto => exact ⟨write_hdr_len F L s enc auto h, by simp [stepOp, write_data, opsData]⟩
  | update => exact ⟨emit_hdr_len F L s true, by simp [stepOp, update, emit_data, opsData]⟩

theorem run_inv (F : Fmt) (L : Lawful F) (ops : List WOp) : ∀ s : St, s.hdr.length = F.hdrLen →
    (run F s ops).hdr.length = F.hdrLen ∧ (run F s ops).data = s.data ++ opsData ops := by
  induction ops with
  | nil => intro s h; exact ⟨h, by simp [run, opsData]⟩
  | cons op r ih =>
    intro s h
    obtain ⟨h1, h2⟩ := step_inv F L s op h
    obtain ⟨h3, h4⟩ := ih (stepOp F s op) h1
    refine ⟨by simpa [run] using h3, ?_⟩
    have : run F s (op :: r) = run F (stepOp F s op) r := rfl
    rw [this, h4, h2]
    cases op <;> simp [opsData]

/-- **the store after a header update**: the recomputed header in front of everything written so far -/
theorem snapshotBytes_eq (F : Fmt) (L : Lawful F) (stale : Nat) (ops : List WOp) :
    snapshotBytes F stale ops = calcHdr F (F.hdrLen + (opsData ops).length) ++ opsData ops := by
  obtain ⟨h1, h2⟩ := run_inv F L ops (openW F stale) (open_hdr_len F L stale)
  unfold snapshotBytes update St.bytes
  rw [emit_true_hdr F L, emit_data, h1, h2, open_data]; simp

/-- **the closed file** of a container whose close function rewrites the header -/
theorem closedBytes_eq (F : Fmt) (L : Lawful F) (hc : F.closeRewrites = true) (stale : Nat) (ops : List WOp) :
    closedBytes F stale ops = calcHdr F (F.hdrLen + (opsData ops).length) ++ opsData ops := by
  have := snapshotBytes_eq F L stale ops
  unfold closedBytes close; rw [hc]; simpa [snapshotBytes, update] using this

theorem closed_is_snapshot (F : Fmt) (hc : F.closeRewrites = true) (stale : Nat) (ops : List WOp) :
    closedBytes F stale ops = snapshotBytes F stale ops := by
  unfold closedBytes snapshotBytes close update; rw [hc]; rfl

/-- the caller's frames value never reaches a rewritten header -/
theorem stale_ignored (F : Fmt) (L : Lawful F) (hc : F.closeRewrites = true) (a b : Nat) (ops : List WOp) :
    closedBytes F a ops = closedBytes F b ops := by
  rw [closedBytes_eq F L hc, closedBytes_eq F L hc]

theorem stale_ignored_snapshot (F : Fmt) (L : Lawful F) (a b : Nat) (ops : List WOp) :
    snapshotBytes F a ops = snapshotBytes F b ops := by
  rw [snapshotBytes_eq F L, snapshotBytes_eq F L]

/-! ### containers whose header does not depend on the running lengths (PVF) -/

theorem run_inv_const (F : Fmt) (hc : ∀ f g, F.hdr f = F.hdr g) (ops : List WOp) : ∀ s : St, s.hdr = F.hdr {} →
    (run F s ops).hdr = F.hdr {} ∧ (run F s ops).data = s.data ++ opsData ops := by
  induction ops with
  | nil => intro s h; exact ⟨h, by simp [run, opsData]⟩
  | cons op r ih =>
    intro s h
    have h1 : (stepOp F s op).hdr = F.hdr {} ∧ (stepOp F s op).data = s.data ++ opsData [op] := by
      cases op with
      | write enc auto =>
        refine ⟨?_, by simp [stepOp, write_data, opsData]⟩
        simp only [stepOp, write]
        by_cases hd : s.data.isEmpty = true <;> cases auto <;> simp [hd, emit, h, hc _ ({} : Fields)]
      | update => exact ⟨by simp [stepOp, update, emit, hc _ ({} : Fields)], by simp [stepOp, update, emit_data, opsData]⟩
    obtain ⟨h3, h4⟩ := ih (stepOp F s op) h1.1
    have : run F s (op :: r) = run F (stepOp F s op) r := rfl
    rw [this]
    refine ⟨h3, ?_⟩
    rw [h4, h1.2]
    cases op <;> simp [opsData]

theorem closedBytes_const (F : Fmt) (hc : ∀ f g, F.hdr f = F.hdr g) (stale : Nat) (ops : List WOp) :
    closedBytes F stale ops = F.hdr {} ++ opsData ops ∧ snapshotBytes F stale ops = F.hdr {} ++ opsData ops := by
  have ho : (openW F stale).hdr = F.hdr {} := by simp [openW, emit, hc _ ({} : Fields)]
  obtain ⟨h1, h2⟩ := run_inv_const F hc ops (openW F stale) ho
  have hd : (run F (openW F stale) ops).data = opsData ops := by rw [h2, open_data]; simp
  refine ⟨?_, ?_⟩
  · unfold closedBytes close St.bytes
    split
    · simp only [emit]; rw [hd]; simp [hc _ ({} : Fields)]
    · rw [h1, hd]
  · unfold snapshotBytes update St.bytes
    simp only [emit]; rw [hd]; simp [hc _ ({} : Fields)]

/-- every write call stores whole frames -/
def wholeOp (bw : Nat) : WOp → Prop
  | .write enc _ => enc.length % bw = 0
  | .update => True

instance (bw : Nat) (op : WOp) : Decidable (wholeOp bw op) := by cases op <;> (unfold wholeOp; infer_instance)

def WholeFrames (bw : Nat) (ops : List WOp) : Prop := ∀ op ∈ ops, wholeOp bw op

instance (bw : Nat) (ops : List WOp) : Decidable (WholeFrames bw ops) := by unfold WholeFrames; infer_instance

theorem opsData_whole (bw : Nat) (ops : List WOp) (h : WholeFrames bw ops) : (opsData ops).length % bw = 0 := by
  induction ops with
  | nil => simp [opsData]
  | cons op r ih =>
    have h1 := h op (List.mem_cons_self ..)
    have h2 : WholeFrames bw r := fun o ho => h o (List.mem_cons_of_mem _ ho)
    cases op with
    | write enc auto =>
      simp only [opsData, List.length_append]
      have h1 : enc.length % bw = 0 := h1
      rw [Nat.add_mod, h1, ih h2]; simp
    | update => exact ih h2

end Sf.Small2
