/-
  SD2: every byte read of the resource-fork parser lies inside the fork, for arbitrary bytes (helpers of
  SfProps/C04Sd2.lean).  `Prog.Bounded L p` quantifies over every value a read can deliver, so these lemmas do not
  mention the bytes at all.
-/
import SfModel.Sd2
namespace Sf.Sd2
open Sf Sf.Small2

namespace Prog

theorem bounded_bind {L : Nat} {p : Prog α} {f : α → Prog β} (hp : Bounded L p) (hf : ∀ a, Bounded L (f a)) :
    Bounded L (p >>= f) := by
  show Bounded L (Prog.bind p f)
  induction hp with
  | pure a => exact hf a
  | read i k hi _ ih => exact Bounded.read i _ hi ih

theorem bounded_pure {L : Nat} (a : α) : Bounded L (pure a : Prog α) := Bounded.pure a

/-- the offsets a bounded program reads are below the bound, whatever the bytes are -/
theorem run_reads_lt {L : Nat} {p : Prog α} (hp : Bounded L p) (g : Nat → Byte) : ∀ i ∈ (p.run g).2, i < L := by
  induction hp with
  | pure a => intro i hi; simp [run] at hi
  | read j k hj _ ih =>
    intro i hi
    simp only [run, List.mem_cons] at hi
    rcases hi with rfl | hi
    · exact hj
    · exact ih (g j) i hi

end Prog

open Prog

variable {L : Nat}

theorem byteAt_bounded (off : Int) (h0 : 0 ≤ off) (h1 : off < L) : Bounded L (byteAt off) := by
  unfold byteAt
  exact Bounded.read _ _ (by omega) (fun b => Bounded.pure _)

theorem rdChar_bounded (off : Int) : Bounded L (rdChar L off) := by
  unfold rdChar
  split
  · exact bounded_pure _
  · exact byteAt_bounded _ (by omega) (by omega)

theorem rdShort_bounded (off : Int) : Bounded L (rdShort L off) := by
  unfold rdShort
  split
  · exact bounded_pure _
  · refine bounded_bind (byteAt_bounded _ (by omega) (by omega)) (fun a => ?_)
    refine bounded_bind (byteAt_bounded _ (by omega) (by omega)) (fun b => ?_)
    exact bounded_pure _

theorem rdInt_bounded (off : Int) : Bounded L (rdInt L off) := by
  unfold rdInt
  split
  · exact bounded_pure _
  · refine bounded_bind (byteAt_bounded _ (by omega) (by omega)) (fun a => ?_)
    refine bounded_bind (byteAt_bounded _ (by omega) (by omega)) (fun b => ?_)
    refine bounded_bind (byteAt_bounded _ (by omega) (by omega)) (fun c => ?_)
    refine bounded_bind (byteAt_bounded _ (by omega) (by omega)) (fun d => ?_)
    exact bounded_pure _

theorem rdMarker_bounded (off : Int) : Bounded L (rdMarker L off) := by
  unfold rdMarker
  split
  · exact bounded_pure _
  · refine bounded_bind (byteAt_bounded _ (by omega) (by omega)) (fun a => ?_)
    refine bounded_bind (byteAt_bounded _ (by omega) (by omega)) (fun b => ?_)
    refine bounded_bind (byteAt_bounded _ (by omega) (by omega)) (fun c => ?_)
    refine bounded_bind (byteAt_bounded _ (by omega) (by omega)) (fun d => ?_)
    exact bounded_pure _

theorem copyLoop_bounded : ∀ (n : Nat) (off : Int), 0 ≤ off → (n = 0 ∨ off + n ≤ L) → Bounded L (copyLoop n off)
  | 0, _, _, _ => Bounded.pure _
  | n + 1, off, h0, h1 => by
    unfold copyLoop
    refine Bounded.read _ _ (by omega) (fun b => ?_)
    split
    · exact bounded_bind (copyLoop_bounded n (off + 1) (by omega) (by omega)) (fun r => Bounded.pure _)
    · exact Bounded.pure _

theorem rdStr_bounded (off bufLen : Int) : Bounded L (rdStr L off bufLen) := by
  unfold rdStr
  split
  · exact bounded_pure _
  · exact copyLoop_bounded _ _ (by omega) (by omega)

/-- the string loop, for any fuel, iteration number and state -/
theorem strLoopK_bounded (dOff itemOff : Int) : ∀ (fuel : Nat) (k : Int) (s : LoopSt), Bounded L (strLoopK L dOff itemOff fuel k s)
  | 0, _, _ => bounded_pure _
  | fuel + 1, k, s => by
    unfold strLoopK
    split
    · exact bounded_pure _
    · refine bounded_bind (rdChar_bounded _) (fun slen => ?_)
      refine bounded_bind (rdStr_bounded _ _) (fun _ => ?_)
      try dsimp only
      split
      · exact bounded_pure _
      · refine bounded_bind (rdShort_bounded _) (fun id => ?_)
        refine bounded_bind (rdInt_bounded _) (fun rel => ?_)
        skip
        split
        · exact bounded_pure _
        · refine bounded_bind (rdInt_bounded _) (fun dl => ?_)
          split
          · exact bounded_pure _
          · refine bounded_bind (rdChar_bounded _) (fun vlen => ?_)
            refine bounded_bind (rdStr_bounded _ _) (fun value => ?_)
            try dsimp only
            split
            · exact bounded_pure _
            · exact strLoopK_bounded dOff itemOff fuel _ _

theorem parseStr_bounded (dOff itemOff strOff : Int) : Bounded L (parseStr L dOff itemOff strOff) := by
  unfold parseStr
  refine bounded_bind (strLoopK_bounded _ _ _ _ _) (fun r => ?_)
  split <;> exact bounded_pure _

theorem typeLoop_bounded (dOff typeOff itemOff strOff : Int) : ∀ (n : Nat) (k : Int), Bounded L (typeLoop L dOff typeOff itemOff strOff n k)
  | 0, _ => bounded_pure _
  | n + 1, k => by
    unfold typeLoop
    refine bounded_bind (rdMarker_bounded _) (fun m => ?_)
    split
    · exact bounded_bind (rdShort_bounded _) (fun _ => parseStr_bounded _ _ _)
    · exact typeLoop_bounded dOff typeOff itemOff strOff n _

theorem parseFork_bounded : Bounded L (parseFork L) := by
  unfold parseFork
  refine bounded_bind (rdInt_bounded _) (fun d0 => ?_)
  refine bounded_bind (rdInt_bounded _) (fun m0 => ?_)
  refine bounded_bind (rdInt_bounded _) (fun dl0 => ?_)
  refine bounded_bind (rdInt_bounded _) (fun ml0 => ?_)
  refine bounded_bind ?_ (fun q => ?_)
  · split
    · refine bounded_bind (rdInt_bounded _) (fun a => ?_)
      refine bounded_bind (rdInt_bounded _) (fun b => ?_)
      refine bounded_bind (rdInt_bounded _) (fun c => ?_)
      refine bounded_bind (rdInt_bounded _) (fun d => ?_)
      exact bounded_pure _
    · exact bounded_pure _
  · obtain ⟨dOff, mOff, dLen, mLen⟩ := q
    try dsimp only
    repeat (first | exact bounded_pure _ | split)
    refine bounded_bind (rdShort_bounded _) (fun so => ?_)
    skip
    split
    · exact bounded_pure _
    · refine bounded_bind (rdShort_bounded _) (fun tc => ?_)
      try dsimp only
      repeat (first | exact bounded_pure _ | split)
      exact typeLoop_bounded _ _ _ _ _ _

end Sf.Sd2
