/-
  SfProofs.PvfImage — `Sf.Pvf.parse` on the images the PVF writer leaves in the store: printf "%d" followed by
  sscanf "%d" is the identity, the line read stops at the newline the writer put, and the data offset is the
  file position after that line — or 12 when the line ends before the 12 bytes the type detection has cached.
-/
import SfModel.Pvf
import SfProofs.Small2Session
namespace Sf.Pvf
open Sf Sf.Small2

/-! ### decimal digits -/

theorem digits_all (n : Nat) : ∀ b : Nat, b ∈ digits n → 48 ≤ b ∧ b ≤ 57 := by
  induction n using Nat.strongRecOn with
  | _ n ih =>
    intro b hb
    unfold digits at hb
    split at hb
    · simp at hb; omega
    · rename_i h
      rcases List.mem_append.mp hb with h1 | h1
      · exact ih (n / 10) (by omega) b h1
      · simp at h1; omega

theorem digits_ne_nil (n : Nat) : digits n ≠ [] := by
  unfold digits; split <;> simp

theorem digits_head (n : Nat) : ∃ (d : Nat) (r : List Nat), digits n = d :: r ∧ 48 ≤ d ∧ d ≤ 57 := by
  match h : digits n with
  | [] => exact absurd h (digits_ne_nil n)
  | d :: r => exact ⟨d, r, rfl, digits_all n d (by rw [h]; simp)⟩

theorem scanDigits_digits (n : Nat) : ∀ (acc : Nat) (rest : List Byte),
    scanDigits acc (digits n ++ rest) = scanDigits (acc * 10 ^ (digits n).length + n) rest := by
  induction n using Nat.strongRecOn with
  | _ n ih =>
    intro acc rest
    by_cases h : n < 10
    · have hd : digits n = [n + 48] := by rw [digits]; simp [h]
      rw [hd]
      have : isDigit (n + 48) = true := by simp [isDigit]; omega
      simp [scanDigits, this]
    · have hd : digits n = digits (n / 10) ++ [n % 10 + 48] := by rw [digits]; simp [h]
      rw [hd, List.append_assoc, ih (n / 10) (by omega)]
      have : isDigit (n % 10 + 48) = true := by simp [isDigit]; omega
      simp only [List.singleton_append, scanDigits, this, if_true, List.length_append, List.length_singleton]
      congr 1
      have e : n % 10 + 48 - 48 = n % 10 := by omega
      rw [e, Nat.pow_succ]
      have := Nat.div_add_mod n 10
      rw [Nat.add_mul, Nat.mul_assoc]
      omega

theorem digits_length_le (k : Nat) : ∀ n, 0 < k → n < 10 ^ k → (digits n).length ≤ k := by
  induction k with
  | zero => intro n h; omega
  | succ k ih =>
    intro n _ hn
    by_cases h : n < 10
    · have hd : digits n = [n + 48] := by rw [digits]; simp [h]
      rw [hd]; simp
    · have hd : digits n = digits (n / 10) ++ [n % 10 + 48] := by rw [digits]; simp [h]
      rw [hd, List.length_append, List.length_singleton]
      have hk : 0 < k := by
        rcases Nat.eq_zero_or_pos k with hz | hz
        · subst hz; simp at hn; omega
        · exact hz
      have : n / 10 < 10 ^ k := by
        rw [Nat.pow_succ] at hn
        exact Nat.div_lt_of_lt_mul (by rw [Nat.mul_comm]; exact hn)
      have := ih (n / 10) hk this
      omega

/-! ### sscanf -/

theorem scanDigits_stop (acc : Nat) (rest : List Byte) (h : ∀ (b : Nat) r, rest = b :: r → isDigit b = false) :
    scanDigits acc rest = (acc, rest) := by
  cases rest with
  | nil => rfl
  | cons b r => simp [scanDigits, h b r rfl]

theorem skipWs_digit (d : Nat) (r : List Byte) (h1 : 48 ≤ d) (h2 : d ≤ 57) : skipWs (d :: r) = d :: r := by
  have : isWs d = false := by simp [isWs]; simp only [Byte] at *; omega
  simp [skipWs, this]

/-- printf "%d" then sscanf "%d" -/
theorem scanInt_digits (n : Nat) (rest : List Byte) (h : ∀ (b : Nat) r, rest = b :: r → isDigit b = false) :
    scanInt (digits n ++ rest) = some ((n : Int), rest) := by
  obtain ⟨d, r, hd, h1, h2⟩ := digits_head n
  have hs := scanDigits_digits n 0 rest
  rw [scanDigits_stop _ rest h] at hs
  simp only [Nat.zero_mul, Nat.zero_add] at hs
  unfold scanInt
  rw [hd, List.cons_append, skipWs_digit d _ h1 h2]
  have e1 : ¬ ((some d : Option Byte) = some 0x2D) := by simp; simp only [Byte] at *; omega
  have e2 : ¬ ((some d : Option Byte) = some 0x2B) := by simp; simp only [Byte] at *; omega
  have e3 : isDigit d = true := by simp [isDigit]; simp only [Byte] at *; omega
  simp only [List.head?_cons, e1, e2, or_self, if_false, Option.map_some, Option.getD_some, e3, if_true, decide_false]
  rw [← List.cons_append, ← hd, hs]
  simp

theorem scanInt_space (s : List Byte) : scanInt (0x20 :: s) = scanInt s := by
  unfold scanInt
  have : skipWs (0x20 :: s) = skipWs s := by simp [skipWs, isWs]
  rw [this]

/-! ### the line read -/

theorem getLine_line (T : List Byte) (rest : List Byte) (hT : ∀ b : Nat, b ∈ T → b ≠ 0x0A) :
    ∀ fuel, T.length < fuel → getLine fuel (T ++ 0x0A :: rest) = (T, T.length + 1) := by
  induction T with
  | nil => intro fuel hf; cases fuel with
    | zero => omega
    | succ f => simp [getLine]
  | cons b r ih =>
    intro fuel hf
    cases fuel with
    | zero => omega
    | succ f =>
      have hb : b ≠ 0x0A := hT b (by simp)
      have := ih (fun x hx => hT x (by simp [hx])) f (by simp at hf; omega)
      simp [getLine, hb, this]

theorem takeWhile_all (T : List Byte) (hT : ∀ b : Nat, b ∈ T → b ≠ 0) : T.takeWhile (· ≠ 0) = T := by
  induction T with
  | nil => rfl
  | cons b r ih =>
    have hb : (b : Nat) ≠ 0 := hT b (by simp)
    rw [List.takeWhile_cons, if_pos (by simpa using hb), ih (fun x hx => hT x (by simp [hx]))]

theorem line_bytes (c : Cfg) : ∀ b : Nat, b ∈ line c → b = 0x20 ∨ (48 ≤ b ∧ b ≤ 57) := by
  intro b hb
  simp only [line, List.mem_append, List.mem_singleton] at hb
  rcases hb with (((h | h) | h) | h) | h
  · exact Or.inr (digits_all _ b h)
  · exact Or.inl h
  · exact Or.inr (digits_all _ b h)
  · exact Or.inl h
  · exact Or.inr (digits_all _ b h)

theorem line_length (c : Cfg) (hwf : c.wf) : (line c).length < 31 := by
  obtain ⟨hc, _, h1, _, h2⟩ := hwf
  have a := digits_length_le 4 c.ch (by decide) (by omega)
  have b := digits_length_le 10 c.sr (by decide) (by omega)
  have d : (digits (bytewidth c.codec * 8)).length ≤ 2 := digits_length_le 2 _ (by decide) (by
    unfold bytewidth; rcases hc with h | h | h <;> simp [h])
  simp only [line, List.length_append, List.length_singleton]
  omega

theorem scan_line (c : Cfg) :
    scanInt (line c) = some ((c.ch : Int), [0x20] ++ digits c.sr ++ [0x20] ++ digits (bytewidth c.codec * 8)) ∧
    scanInt ([0x20] ++ digits c.sr ++ [0x20] ++ digits (bytewidth c.codec * 8)) = some ((c.sr : Int), [0x20] ++ digits (bytewidth c.codec * 8)) ∧
    scanInt ([0x20] ++ digits (bytewidth c.codec * 8)) = some (((bytewidth c.codec * 8 : Nat) : Int), []) := by
  have sp : ∀ (t : List Byte) (b : Nat) r, [0x20] ++ t = b :: r → isDigit b = false := by
    intro t b r h; simp at h; rw [← h.1]; decide
  refine ⟨?_, ?_, ?_⟩
  · have := scanInt_digits c.ch ([0x20] ++ digits c.sr ++ [0x20] ++ digits (bytewidth c.codec * 8))
      (by intro b r h; exact sp (digits c.sr ++ [0x20] ++ digits (bytewidth c.codec * 8)) b r (by simpa using h))
    simpa [line, List.append_assoc] using this
  · have := scanInt_digits c.sr ([0x20] ++ digits (bytewidth c.codec * 8)) (sp _)
    rw [show [0x20] ++ digits c.sr ++ [0x20] ++ digits (bytewidth c.codec * 8) =
        0x20 :: (digits c.sr ++ ([0x20] ++ digits (bytewidth c.codec * 8))) by simp, scanInt_space]
    exact this
  · have := scanInt_digits (bytewidth c.codec * 8) [] (by intro b r h; cases h)
    rw [show [0x20] ++ digits (bytewidth c.codec * 8) = 0x20 :: (digits (bytewidth c.codec * 8) ++ []) by simp, scanInt_space]
    exact this

theorem lawfulConst (c : Cfg) : ∀ f g : Fields, (fmt c).hdr f = (fmt c).hdr g := fun _ _ => rfl

theorem preHtk_pvf (b cc : List Byte) : preHtk [0x50, 0x56, 0x46, 0x31] b cc = some (.fmt 0x0E0000) := by
  simp [preHtk, rules, List.find?]

theorem hdr_length (c : Cfg) : (hdr c).length = 5 + (line c).length + 1 := by simp [hdr]; omega

/-- the data offset either reader finds on `header ++ data`: the header length — or, before the repair, 12 for an
    11-byte header -/
def offOf (fx : Bool) (c : Cfg) : Nat := if fx then (hdr c).length else max 12 (hdr c).length

/-- **the reader on `header ++ data`** -/
theorem probe12_ge (bs : List Byte) (h : 12 ≤ bs.length) : probe12 bs = bs.take 12 := by
  unfold probe12; exact List.take_append_of_le_length h

/-- on a file of at least 12 bytes the padded probe is the probe -/
theorem guessProbe_eq_guess (bs : List Byte) (h : 12 ≤ bs.length) : guessProbe bs = guess bs := by
  unfold guessProbe guess
  rw [probe12_ge bs h]
  have e1 : (bs.take 12).take 4 = bs.take 4 := by rw [List.take_take]; congr 1
  have e2 : ((bs.take 12).drop 4).take 4 = (bs.drop 4).take 4 := by rw [List.drop_take, List.take_take]; congr 1
  have e3 : ((bs.take 12).drop 8).take 4 = (bs.drop 8).take 4 := by rw [List.drop_take, List.take_take]; congr 1
  simp only [e1, e2, e3]

/-- the first four bytes of the probe of a file that has them -/
theorem probe12_take4 (bs : List Byte) (h : 4 ≤ bs.length) : (probe12 bs).take 4 = bs.take 4 := by
  unfold probe12
  rw [List.take_take, show min 4 12 = 4 from rfl]
  exact List.take_append_of_le_length h

theorem parseWith_image (fx : Bool) (c : Cfg) (hwf : c.wf) (data : List Byte) (h12 : fx = false → 12 ≤ (hdr c ++ data).length) :
    parseWith fx (hdr c ++ data) =
      .ok { ch := c.ch, fmt := 0x0E0000 + c.codec, sr := c.sr,
            frames := ((hdr c).length + data.length - offOf fx c) / (bytewidth c.codec * c.ch) } := by
  have hlen : (hdr c ++ data).length = (hdr c).length + data.length := by simp
  have hl := hdr_length c
  have e : hdr c ++ data = [0x50, 0x56, 0x46, 0x31, 0x0A] ++ (line c ++ 0x0A :: data) := by simp [hdr]
  have hg : guessProbe (hdr c ++ data) = some (.fmt 0x0E0000) := by
    unfold guessProbe
    simp only []
    rw [probe12_take4 _ (by omega), e]
    simp only [List.cons_append, List.nil_append, List.take_succ_cons, List.take_zero, preHtk_pvf]
  have hlb := line_bytes c
  have hgl : getLine 31 ((hdr c ++ data).drop 5) = (line c, (line c).length + 1) := by
    rw [e, drop_append_len _ _ 5 rfl]
    exact getLine_line (line c) data (fun b hb => by rcases hlb b hb with h | h <;> omega) 31 (line_length c hwf)
  have htw : (line c).takeWhile (· ≠ 0) = line c := takeWhile_all _ (fun b hb => by rcases hlb b hb with h | h <;> omega)
  obtain ⟨s1, s2, s3⟩ := scan_line c
  obtain ⟨hc, hch1, hch2, hsr1, hsr2⟩ := hwf
  unfold parseWith parseWithP
  rw [if_neg (by
    rintro ⟨_, h | h⟩
    · cases h
    · rw [hlen, hl] at h; omega), hg]
  simp only []
  unfold readHeaderWith
  rw [hgl]
  simp only [htw, s1, s2, s3]
  have hbits : bytewidth c.codec * 8 = 8 ∨ bytewidth c.codec * 8 = 16 ∨ bytewidth c.codec * 8 = 32 := by
    unfold bytewidth; rcases hc with h | h | h <;> simp [h]
  have g1 : ¬ (((c.ch : Nat) : Int) > 0x7FFFFFFF ∨ ((c.sr : Nat) : Int) > 0x7FFFFFFF ∨ ((bytewidth c.codec * 8 : Nat) : Int) > 0x7FFFFFFF ∨
      ((c.ch : Nat) : Int) < -0x7FFFFFFF ∨ ((c.sr : Nat) : Int) < -0x7FFFFFFF ∨ ((bytewidth c.codec * 8 : Nat) : Int) < -0x7FFFFFFF) := by omega
  have g2 : ¬ (((bytewidth c.codec * 8 : Nat) : Int) ≠ 8 ∧ ((bytewidth c.codec * 8 : Nat) : Int) ≠ 16 ∧ ((bytewidth c.codec * 8 : Nat) : Int) ≠ 32) := by omega
  have g3 : ¬ (((c.ch : Nat) : Int) < 1 ∨ ((c.ch : Nat) : Int) > 1024 ∨ ((c.sr : Nat) : Int) < 1) := by omega
  rw [if_neg g1, if_neg g2, if_neg g3]
  have hfmt : (if ((bytewidth c.codec * 8 : Nat) : Int) = 8 then 1 else if ((bytewidth c.codec * 8 : Nat) : Int) = 16 then 2 else 4) = c.codec := by
    unfold bytewidth; rcases hc with h | h | h <;> simp [h]
  have hbw : ((bytewidth c.codec * 8 : Nat) : Int) / 8 * ((c.ch : Nat) : Int) = ((bytewidth c.codec * c.ch : Nat) : Int) := by
    have : ((bytewidth c.codec * 8 : Nat) : Int) / 8 = ((bytewidth c.codec : Nat) : Int) := by
      push_cast; exact Int.mul_ediv_cancel _ (by decide)
    rw [this]; push_cast; rfl
  have hoff : dataOffset fx ((hdr c).length + data.length) ((line c).length + 1) = offOf fx c := by
    unfold dataOffset offOf
    rw [hl, Nat.min_eq_right (by omega), Nat.add_assoc]
  rw [hfmt, hbw, hlen, hoff]
  have hpos : 0 < bytewidth c.codec * c.ch := by
    have : 0 < bytewidth c.codec := by unfold bytewidth; split <;> (try split) <;> omega
    exact Nat.mul_pos this (by omega)
  have hle : offOf fx c ≤ (hdr c).length + data.length := by
    rw [hlen] at h12
    unfold offOf; split
    · omega
    · exact Nat.max_le.mpr ⟨h12 (by simp_all), by omega⟩
  have hsplit : (hdr c).length + data.length = offOf fx c + ((hdr c).length + data.length - offOf fx c) := by omega
  have := framesOf_nat (offOf fx c) ((hdr c).length + data.length - offOf fx c) _ hpos
  rw [← hsplit] at this
  rw [this]
  simp

end Sf.Pvf
