/-
  W64: lengths and size fields of the header the writer produces (helpers for SfProps/C04W64.lean).
-/
import SfProofs.CafBytes
namespace Sf.W64
open Sf Sf.CafW64

theorem le_length (n : Nat) (v : Int) : (le n v).length = n := by simp [le, leBytes_length]

theorem guid_lengths : riffG.length = 16 ∧ waveG.length = 16 ∧ fmtG.length = 16 ∧ factG.length = 16 ∧ dataG.length = 16 := by decide

/-- the 16-byte body of the 'fmt ' chunk -/
def fmtBody (c : Cfg) : List Byte :=
  le 2 (formatTag c.codec) ++ le 2 c.ch ++ le 4 c.sr ++ le 4 (c.sr * bytewidth c.codec * c.ch) ++
    le 2 (bytewidth c.codec * c.ch) ++ le 2 (bitsOf c.codec)
def factPart (c : Cfg) (frames : Int) : List Byte := if hasFact c.codec then factG ++ le 8 32 ++ le 8 frames else []

theorem hdrRaw_eq (c : Cfg) (a b f : Int) :
    hdrRaw c a b f = riffG ++ le 8 a ++ waveG ++ fmtG ++ le 8 40 ++ fmtBody c ++ factPart c f ++ dataG ++ le 8 (b + 24) := by
  simp only [hdrRaw, fmtBody, factPart, List.append_assoc]

theorem fmtBody_length (c : Cfg) : (fmtBody c).length = 16 := by simp [fmtBody, le_length]
theorem factPart_length (c : Cfg) (f : Int) : (factPart c f).length = if hasFact c.codec then 32 else 0 := by
  unfold factPart; split <;> simp [le_length, factG, guidTail2]

theorem hdrRaw_length (c : Cfg) (a b f : Int) : (hdrRaw c a b f).length = hdrLen c := by
  unfold hdrRaw hdrLen
  by_cases h : hasFact c.codec = true <;> simp [h, le_length, riffG, waveG, fmtG, factG, dataG, guidTail1, guidTail2]

theorem hdr_length (c : Cfg) (n : Nat) : (hdr c n).length = hdrLen c := hdrRaw_length c _ _ _

theorem hdrLen_cases (c : Cfg) : hdrLen c = 104 ∨ hdrLen c = 136 := by
  unfold hdrLen; by_cases h : hasFact c.codec = true <;> simp [h]

theorem image_length (c : Cfg) (n : Nat) (data : List Byte) : (image c n data).length = hdrLen c + data.length := by
  simp [image, tail, hdr_length]

end Sf.W64
