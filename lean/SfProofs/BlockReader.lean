/-
  The generic block reader delivers slices of the concatenated block stream (helper lemmas for C06Block).
-/
import SfModel.Block
namespace Sf.Block.Proofs
open Sf Sf.Block

/-- well-formed reader: positive geometry, every decoded block has `spb * ch` items -/
structure WF (r : Reader) : Prop where
  spb_pos : 0 < r.spb
  ch_pos  : 0 < r.ch
  len     : ∀ k, (r.src k).length = r.spb * r.ch

/-- the reader invariant: the buffer is the decoded current block, the in-block counter is in range -/
structure Inv (r : Reader) (st : RState) : Prop where
  buf : st.buf = r.src st.cur
  cnt : st.cnt ≤ r.spb

theorem slice_zero (r : Reader) (p : Nat) : r.slice p 0 = [] := rfl

theorem slice_length (r : Reader) (p n : Nat) : (r.slice p n).length = n := by simp [Reader.slice]

theorem slice_append (r : Reader) (p a b : Nat) : r.slice p (a + b) = r.slice p a ++ r.slice (p + a) b := by
  simp only [Reader.slice, List.range_add, List.map_append, List.map_map]
  congr 1
  apply List.map_congr_left
  intro i _
  simp [Function.comp, Nat.add_assoc]

theorem chunk_eq (r : Reader) (wf : WF r) (cur cnt c : Nat) (hc : cnt + c ≤ r.spb) :
    ((r.src cur).drop (cnt * r.ch)).take (c * r.ch) = r.slice ((cur * r.spb + cnt) * r.ch) (c * r.ch) := by
  have hlen := wf.len cur
  have hB : 0 < r.spb * r.ch := Nat.mul_pos wf.spb_pos wf.ch_pos
  have hle : cnt * r.ch + c * r.ch ≤ r.spb * r.ch := by
    have := Nat.mul_le_mul_right r.ch hc
    rwa [Nat.add_mul] at this
  apply List.ext_getElem
  · rw [List.length_take, List.length_drop, slice_length, hlen]; omega
  · intro i h1 h2
    rw [slice_length] at h2
    have hq : cnt * r.ch + i < r.spb * r.ch := by omega
    rw [List.getElem_take, List.getElem_drop]
    simp only [Reader.slice, List.getElem_map, List.getElem_range]
    unfold Reader.itemAt
    have hp : (cur * r.spb + cnt) * r.ch + i = r.spb * r.ch * cur + (cnt * r.ch + i) := by
      rw [Nat.add_mul, Nat.mul_assoc, Nat.mul_comm cur (r.spb * r.ch)]; omega
    rw [hp, Nat.mul_add_div hB, Nat.mul_add_mod, Nat.div_eq_of_lt hq, Nat.mod_eq_of_lt hq, Nat.add_zero]
    have hq' : cnt * r.ch + i < (r.src cur).length := by rw [hlen]; exact hq
    rw [List.drop_eq_getElem_cons hq']
    rfl

theorem reload_spec (r : Reader) (st : RState) (inv : Inv r st) (hlt : r.pos st < r.frames ∨ True) :
    Inv r (r.reload st) ∧ r.pos (r.reload st) = r.pos st ∧ ((r.reload st).cnt < r.spb ∨ r.spb = 0) := by
  unfold Reader.reload
  by_cases h : st.cnt ≥ r.spb
  · rw [if_pos h]
    refine ⟨⟨rfl, Nat.zero_le _⟩, ?_, ?_⟩
    · show (st.cur + 1) * r.spb + 0 = st.cur * r.spb + st.cnt
      have := inv.cnt
      rw [Nat.succ_mul]; omega
    · show 0 < r.spb ∨ r.spb = 0
      omega
  · rw [if_neg h]
    exact ⟨inv, rfl, Or.inl (by omega)⟩

/-- a request of `m` whole frames that ends inside the data returns exactly the next `m` frames of the stream -/
theorem readLoop_spec (r : Reader) (wf : WF r) : ∀ (fuel : Nat) (st : RState) (m : Nat), Inv r st → m < fuel →
    r.pos st + m ≤ r.frames →
    ∃ st', r.readLoop fuel st (m * r.ch) = (st', r.slice (r.pos st * r.ch) (m * r.ch), m * r.ch) ∧ Inv r st' ∧
      r.pos st' = r.pos st + m := by
  intro fuel
  induction fuel with
  | zero => intro st m _ h; omega
  | succ fuel ih =>
    intro st m inv hf hend
    unfold Reader.readLoop
    by_cases hm : m = 0
    · subst hm
      simp only [Nat.zero_mul, if_true]
      exact ⟨st, rfl, inv, rfl⟩
    · have hmc : m * r.ch ≠ 0 := Nat.mul_ne_zero hm (Nat.pos_iff_ne_zero.mp wf.ch_pos)
      have hnot : ¬ (r.pos st ≥ r.frames) := by omega
      simp only [hmc, hnot, if_false]
      obtain ⟨inv1, hpos1, hcnt1⟩ := reload_spec r st inv (Or.inr trivial)
      have hcnt1 : (r.reload st).cnt < r.spb := by
        cases hcnt1 with
        | inl h => exact h
        | inr h => have := wf.spb_pos; omega
      generalize hst1 : r.reload st = st1 at inv1 hpos1 hcnt1
      have hcount : min ((r.spb - st1.cnt) * r.ch) (m * r.ch) = min (r.spb - st1.cnt) m * r.ch :=
        Nat.mul_min_mul_right _ _ _
      generalize hc : min (r.spb - st1.cnt) m = c at hcount
      have hc1 : 1 ≤ c := by omega
      have hc2 : st1.cnt + c ≤ r.spb := by omega
      have hc3 : c ≤ m := by omega
      rw [hcount, Nat.mul_div_cancel c wf.ch_pos, ← Nat.sub_mul]
      have inv2 : Inv r ⟨st1.cur, st1.cnt + c, st1.buf⟩ := ⟨inv1.buf, hc2⟩
      have hpos2 : r.pos ⟨st1.cur, st1.cnt + c, st1.buf⟩ = r.pos st + c := by
        rw [← hpos1]; simp only [Reader.pos]; omega
      obtain ⟨st', hrec, inv', hpos'⟩ := ih ⟨st1.cur, st1.cnt + c, st1.buf⟩ (m - c) inv2 (by omega) (by rw [hpos2]; omega)
      rw [hrec]
      refine ⟨st', ?_, inv', by rw [hpos', hpos2]; omega⟩
      have hpiece : (st1.buf.drop (st1.cnt * r.ch)).take (c * r.ch) = r.slice (r.pos st * r.ch) (c * r.ch) := by
        rw [inv1.buf, chunk_eq r wf st1.cur st1.cnt c hc2, ← hpos1]; rfl
      have hsplit : m * r.ch = c * r.ch + (m - c) * r.ch := by
        rw [← Nat.add_mul]; congr 1; omega
      rw [hpiece, hpos2, Nat.add_mul]
      conv => rhs; rw [hsplit, slice_append]

/-- any request of `m` whole frames, also one that runs past `frames` (and `frames` need not be a whole number of
    blocks): the call delivers `t` frames of the stream with `min m (frames − pos) ≤ t ≤ m` (it stops at the first
    block boundary at or after `frames`), and zero-fills the rest of the request -/
theorem readLoop_general (r : Reader) (wf : WF r) : ∀ (fuel : Nat) (st : RState) (m : Nat), Inv r st → m < fuel →
    ∃ t st', t ≤ m ∧ min m (r.frames - r.pos st) ≤ t ∧
      r.readLoop fuel st (m * r.ch) = (st', r.slice (r.pos st * r.ch) (t * r.ch) ++ zeros ((m - t) * r.ch), t * r.ch) ∧
      Inv r st' ∧ r.pos st' = r.pos st + t := by
  intro fuel
  induction fuel with
  | zero => intro st m _ h; omega
  | succ fuel ih =>
    intro st m inv hf
    unfold Reader.readLoop
    by_cases hm : m = 0
    · subst hm
      refine ⟨0, st, Nat.le_refl _, by omega, ?_, inv, rfl⟩
      simp [slice_zero, zeros]
    · have hmc : m * r.ch ≠ 0 := Nat.mul_ne_zero hm (Nat.pos_iff_ne_zero.mp wf.ch_pos)
      by_cases hend : r.pos st ≥ r.frames
      · refine ⟨0, st, Nat.zero_le _, by omega, ?_, inv, rfl⟩
        simp only [hmc, hend, if_false, if_true, Nat.zero_mul, slice_zero, List.nil_append, Nat.sub_zero]
      · simp only [hmc, hend, if_false]
        obtain ⟨inv1, hpos1, hcnt1⟩ := reload_spec r st inv (Or.inr trivial)
        have hcnt1 : (r.reload st).cnt < r.spb := by
          cases hcnt1 with
          | inl h => exact h
          | inr h => have := wf.spb_pos; omega
        generalize hst1 : r.reload st = st1 at inv1 hpos1 hcnt1
        have hcount : min ((r.spb - st1.cnt) * r.ch) (m * r.ch) = min (r.spb - st1.cnt) m * r.ch :=
          Nat.mul_min_mul_right _ _ _
        generalize hc : min (r.spb - st1.cnt) m = c at hcount
        have hc1 : 1 ≤ c := by omega
        have hc2 : st1.cnt + c ≤ r.spb := by omega
        have hc3 : c ≤ m := by omega
        rw [hcount, Nat.mul_div_cancel c wf.ch_pos, ← Nat.sub_mul]
        have inv2 : Inv r ⟨st1.cur, st1.cnt + c, st1.buf⟩ := ⟨inv1.buf, hc2⟩
        have hpos2 : r.pos ⟨st1.cur, st1.cnt + c, st1.buf⟩ = r.pos st + c := by
          rw [← hpos1]; simp only [Reader.pos]; omega
        obtain ⟨t', st', ht1, ht2, hrec, inv', hpos'⟩ := ih ⟨st1.cur, st1.cnt + c, st1.buf⟩ (m - c) inv2 (by omega)
        rw [hrec]
        refine ⟨c + t', st', by omega, by rw [hpos2] at ht2; omega, ?_, inv', by rw [hpos', hpos2]; omega⟩
        have hpiece : (st1.buf.drop (st1.cnt * r.ch)).take (c * r.ch) = r.slice (r.pos st * r.ch) (c * r.ch) := by
          rw [inv1.buf, chunk_eq r wf st1.cur st1.cnt c hc2, ← hpos1]; rfl
        rw [hpiece, hpos2, Nat.add_mul, Nat.add_mul c t', slice_append, Nat.sub_sub, List.append_assoc]

/-- at or after the end of the data an inner call delivers nothing and zero-fills the request -/
theorem readLoop_eof (r : Reader) (fuel : Nat) (st : RState) (n : Nat) (hn : n ≠ 0) (h : r.pos st ≥ r.frames) :
    r.readLoop (fuel + 1) st n = (st, zeros n, 0) := by
  unfold Reader.readLoop
  simp [hn, h]

theorem seek_inv (r : Reader) (wf : WF r) (k : Nat) : Inv r (r.seek k) ∧ r.pos (r.seek k) = k := by
  refine ⟨⟨rfl, ?_⟩, ?_⟩
  · exact Nat.le_of_lt (Nat.mod_lt _ wf.spb_pos)
  · simp only [Reader.pos, Reader.seek]
    rw [Nat.mul_comm]; exact Nat.div_add_mod k r.spb

theorem init_inv (r : Reader) : Inv r r.init ∧ r.pos r.init = 0 := by
  refine ⟨⟨rfl, Nat.zero_le _⟩, ?_⟩
  simp [Reader.pos, Reader.init, Reader.load]

end Sf.Block.Proofs
