/-
  Opening for write establishes the session invariant; closing produces header ++ data (++ pad) (C04, C11).
-/
import SfProofs.ContainerWrite
namespace Sf
set_option linter.unusedSimpArgs false

/-- the configuration `openHandle … .w fmt ch sr` fixes, when it accepts the request -/
def openCfg (fmt : Nat) (ch : Int) (sr : Int) : Option Cfg :=
  match containerOf fmt with
  | none => none
  | some c =>
    match encOf c (codecOf fmt) (dataBig c fmt) with
    | none => none
    | some enc => some { container := c, enc := enc, big := dataBig c fmt, ch := ch.toNat, sr := sr, fmtWord := fmt }

/-- the session state right after open -/
def Cfg.init (c : Cfg) : Abs :=
  { frames := 0, data := [], peak := if c.hasPeak then some (mkPeaks c.ch) else none, auto := false }

/-- what `openHandle … .w` returns for an accepted configuration on an empty store -/
def openW (ix : Nat) (c : Cfg) : H × Store :=
  let h0 : H := { store := ix, mode := .w, container := c.container, enc := c.enc, big := c.big, ch := c.ch, sr := c.sr,
                  fmtWord := c.fmtWord, frames := 0, lastOp := .w }
  match c.container with
  | .raw => (h0, {})
  | .au =>
    let r := writeHeader { h0 with datalength := -1, dataoffset := -1 } {} false
    ({ r.1 with datalength := 0, frames := 0 }, r.2)
  | .wav =>
    writeHeader { h0 with peak := if c.enc.isFloatData then some (mkPeaks c.ch) else none,
                          filelength := 0, datalength := 0, dataoffset := 0 } {} false

theorem openHandle_w (ix : Nat) (fmt : Nat) (ch sr : Int) :
    openHandle ix {} .w fmt ch sr =
      match openCfg fmt ch sr with
      | none => if containerOf fmt = none then .unmodelled else if ch < 1 ∨ ch > 1024 ∨ sr < 0 then .fail {} else .unmodelled
      | some c => if ch < 1 ∨ ch > 1024 ∨ sr < 1 then .fail {} else .ok (openW ix c).1 (openW ix c).2 := by
  unfold openHandle openCfg
  cases hc : containerOf fmt with
  | none => simp
  | some c =>
    cases he : encOf c (codecOf fmt) (dataBig c fmt) with
    | none => simp [he, Store.seekSet]
    | some enc =>
      simp only [he, Store.seekSet]
      by_cases h1 : ch < 1 ∨ ch > 1024 ∨ sr < 0
      · have : ch < 1 ∨ ch > 1024 ∨ sr < 1 := by omega
        simp [h1, this]
      · by_cases h2 : sr < 1
        · have : ch < 1 ∨ ch > 1024 ∨ sr < 1 := by omega
          simp [h1, h2, this]
        · have : ¬ (ch < 1 ∨ ch > 1024 ∨ sr < 1) := by omega
          simp only [h1, h2, this, if_false]
          cases c with
          | raw => simp [openW, initFrames]; omega
          | au => simp [openW]; omega
          | wav => simp [openW]; omega

theorem mkPeaks_length (n : Nat) : (mkPeaks n).length = n := by simp [mkPeaks]

theorem openW_inv (ix : Nat) (c : Cfg) (hch : 0 < c.ch) : Inv c c.init (openW ix c).1 (openW ix c).2 := by
  cases hc : c.container with
  | raw =>
    constructor
    case bytes => exact ⟨[], by simp [openW, hc, Cfg.init], by simp [Cfg.hdrLen, hc]⟩
    all_goals simp [openW, hc, Cfg.init, Cfg.hasPeak, Cfg.hdrLen, Cfg.bw, hch]
  | au =>
    have hlen : (auHdr_ct c.big (codecOf c.fmtWord) c.sr c.ch (-1)).length = 24 := by
      cases hb : c.big <;> simp [auHdr_ct, u32_length_ct]
    have hne : (auHdr_ct c.big (codecOf c.fmtWord) c.sr c.ch (-1)).isEmpty = false := by
      cases hx : auHdr_ct c.big (codecOf c.fmtWord) c.sr c.ch (-1) with
      | nil => rw [hx] at hlen; simp at hlen
      | cons x xs => rfl
    constructor
    case bytes =>
      refine ⟨auHdr_ct c.big (codecOf c.fmtWord) c.sr c.ch (-1), ?_, by simp [Cfg.hdrLen, hc, hlen]⟩
      simp [openW, hc, Cfg.init, writeHeader, auHeader_eq_ct, Store.write, Store.seekSet, hne, writeAt_nil]
    case pos =>
      simp [openW, hc, Cfg.init, writeHeader, auHeader_eq_ct, Store.write, Store.seekSet, hne, writeAt_nil]
    all_goals simp [openW, hc, Cfg.init, Cfg.hasPeak, Cfg.hdrLen, Cfg.bw, hch, writeHeader]
  | wav =>
    have hHP : c.hasPeak = c.enc.isFloatData := by simp [Cfg.hasPeak, hc]
    let pk : Option (List Peak) := if c.enc.isFloatData then some (mkPeaks c.ch) else none
    have hpk1 : pk.isSome = c.hasPeak := by rw [hHP]; simp only [pk]; split <;> simp_all
    have hpk2 : ∀ ps, pk = some ps → ps.length = c.ch := by
      intro ps; simp only [pk]; split
      · intro e; cases e; exact mkPeaks_length _
      · intro e; cases e
    let hdr := wavHdr_ct c.big (codecOf c.fmtWord) c.enc.nbytes c.ch c.sr 0 pk true 0 0
    have hlen : hdr.length = c.hdrLen := by
      rw [show c.hdrLen = wavHdrLen_ct (codecOf c.fmtWord) c.ch c.hasPeak from by simp [Cfg.hdrLen, hc], ← hpk1]
      exact wavHdr_length _ _ _ _ _ _ _ _ _ hpk2
    have hne : hdr.isEmpty = false := by
      cases hx : hdr with
      | nil => rw [hx] at hlen; simp [Cfg.hdrLen, hc, wavHdrLen_ct] at hlen
      | cons x xs => rfl
    constructor
    case bytes =>
      refine ⟨hdr, ?_, hlen⟩
      simp [openW, hc, Cfg.init, writeHeader, wavHeader_eq_ct, H.nb, Store.write, Store.seekSet, hne, writeAt_nil, hdr, pk]
    case pos =>
      simp [openW, hc, Cfg.init, writeHeader, wavHeader_eq_ct, H.nb, Store.write, Store.seekSet, hne, writeAt_nil, hdr, pk]
    case doff =>
      rw [← hlen]
      simp [openW, hc, Cfg.init, writeHeader, wavHeader_eq_ct, H.nb, hdr, pk]
    case pkSome => simp only [Cfg.init]; rw [hHP]; rw [hHP] at hpk1; exact hpk1
    case pkLen => simp only [Cfg.init]; rw [hHP]; exact hpk2
    case peak => simp [openW, hc, Cfg.init, writeHeader, hHP]
    all_goals simp [openW, hc, Cfg.init, Cfg.bw, hch, writeHeader]

/-! ### close -/

/-- the pad byte `wav_write_tailer` appends after an odd-length data chunk -/
def wavPad_ct (c : Cfg) (a : Abs) : List Byte := if (c.hdrLen + a.data.length) % 2 = 1 then [0] else []

/-- the bytes of the closed file -/
def closedImage (c : Cfg) (a : Abs) : List Byte :=
  match c.container with
  | .wav =>
    hdrBytes c a ((c.hdrLen + a.data.length + (wavPad_ct c a).length : Nat) : Int) (a.data.length : Int) ++ a.data ++ wavPad_ct c a
  | _ => snapImage c a

theorem wavTailer_fst (h : H) (s : Store) (hp : h.dataoffset + h.frames * (h.nb : Int) * (h.ch : Int) > 0) :
    (wavTailer h s).1 = { h with datalength := h.frames * h.nb * h.ch, dataend := h.dataoffset + h.frames * h.nb * h.ch } := by
  simp only [wavTailer, hp, if_true]

theorem natmod2 (n : Nat) : (((n : Nat) : Int) % 2 == 1) = decide (n % 2 = 1) := by
  by_cases h : n % 2 = 1 <;> simp [h] <;> omega

theorem writeHeader_wav_bytes (h : H) (s : Store) (hc : h.container = .wav) :
    (writeHeader h s true).2.bytes =
      ((s.seekSet 0).write (wavHeader { h with
          filelength := (s.bytes.length : Int)
          datalength := (if h.dataend != 0 then (s.bytes.length : Int) - h.dataoffset - ((s.bytes.length : Int) - h.dataend)
                        else h.frames * h.nb * h.ch) })).bytes := by
  simp only [writeHeader, hc, if_true]
  (repeat' split) <;> rfl

theorem close_wav_eq (h : H) (s : Store) (hm : h.mode = .w) (hc : h.container = .wav) :
    closeHandle h s = (writeHeader (wavTailer h s).1 (wavTailer h s).2 true).2 := by
  have : (wavTailer h s).1.mode = .w := by simp only [wavTailer]; split <;> exact hm
  simp [closeHandle, hm, hc, this]

theorem close_bytes {c : Cfg} {a : Abs} {h : H} {s : Store} (i : Inv c a h s) :
    (closeHandle h s).bytes = closedImage c a := by
  obtain ⟨hdr, hb, hl⟩ := i.bytes
  cases hc : c.container with
  | raw =>
    have hcont : h.container = .raw := by rw [i.cont, hc]
    have : hdr = [] := by
      have : c.hdrLen = 0 := by simp [Cfg.hdrLen, hc]
      rw [this] at hl; exact List.eq_nil_of_length_eq_zero hl
    simp [closeHandle, i.mode, hcont, closedImage, hc, snapImage, hdrBytes, hb, this]
  | au =>
    have hcont : h.container = .au := by rw [i.cont, hc]
    have e : closeHandle h s = (writeHeader h s true).2 := by simp [closeHandle, i.mode, hcont]
    rw [e, (updHdr_inv i).2]; simp [closedImage, hc]
  | wav =>
    have hcont : h.container = .wav := by rw [i.cont, hc]
    have hL : c.hdrLen = wavHdrLen_ct (codecOf c.fmtWord) c.ch c.hasPeak := by simp [Cfg.hdrLen, hc]
    have hLpos : 0 < c.hdrLen := by rw [hL]; unfold wavHdrLen_ct; omega
    have hdl : h.frames * (h.nb : Int) * (h.ch : Int) = (a.data.length : Int) := by
      rw [i.dlen, i.frames, i.ch, H.nb, i.enc, Cfg.bw]; simp [Int.mul_assoc]
    have hde : h.dataoffset + h.frames * (h.nb : Int) * (h.ch : Int) = ((c.hdrLen + a.data.length : Nat) : Int) := by
      rw [hdl, i.doff]; simp
    have hslen : s.bytes.length = c.hdrLen + a.data.length := i.length
    -- the tailer: seek to the end of the data, append the pad byte
    have hTs : (wavTailer h s).2 = (s.seekSet (c.hdrLen + a.data.length)).write (wavPad_ct c a) := by
      have hgt : ((c.hdrLen + a.data.length : Nat) : Int) > 0 := by omega
      have hpad : (if (((c.hdrLen + a.data.length : Nat) : Int) % 2 == 1) = true then ([0] : List Byte) else []) = wavPad_ct c a := by
        rw [natmod2]; unfold wavPad_ct; by_cases hp : (c.hdrLen + a.data.length) % 2 = 1 <;> simp [hp]
      cases hpk : h.peak <;>
        simp only [wavTailer, hde, hpk, i.pas, hgt, if_true, Int.toNat_natCast, hpad, List.append_nil, Bool.not_true,
          Bool.false_eq_true, if_false]
    have hgt : ((c.hdrLen + a.data.length : Nat) : Int) > 0 := by omega
    have hne : (((c.hdrLen + a.data.length : Nat) : Int) != 0) = true := by simp; omega
    have hT1 := wavTailer_fst h s (by rw [hde]; exact hgt)
    have hTc : (wavTailer h s).1.container = .wav := by rw [hT1]; exact hcont
    have hTde : (wavTailer h s).1.dataend = ((c.hdrLen + a.data.length : Nat) : Int) := by rw [hT1]; exact hde
    have hTdo : (wavTailer h s).1.dataoffset = c.hdrLen := by rw [hT1]; exact i.doff
    have hTf : (wavTailer h s).1.big = c.big ∧ (wavTailer h s).1.fmtWord = c.fmtWord ∧ (wavTailer h s).1.enc = c.enc ∧
        (wavTailer h s).1.ch = c.ch ∧ (wavTailer h s).1.sr = c.sr ∧ (wavTailer h s).1.frames = a.frames ∧
        (wavTailer h s).1.peak = a.peak ∧ (wavTailer h s).1.peakAtStart = true := by
      rw [hT1]; exact ⟨i.big, i.fmt, i.enc, i.ch, i.sr, i.frames, i.peak, i.pas⟩
    obtain ⟨f1, f2, f3, f4, f5, f6, f7, f8⟩ := hTf
    -- the store after the tailer
    have hS1 : ((s.seekSet (c.hdrLen + a.data.length)).write (wavPad_ct c a)).bytes = hdr ++ (a.data ++ wavPad_ct c a) := by
      have := (write_end (s.seekSet (c.hdrLen + a.data.length)) (wavPad_ct c a) (by rw [seekSet_pos, seekSet_bytes, hslen])).1
      rw [this, seekSet_bytes, hb, List.append_assoc]
    rw [close_wav_eq h s i.mode hcont, writeHeader_wav_bytes _ _ hTc, wavHeader_eq_ct]
    simp only [H.nb, f1, f2, f3, f4, f5, f6, f7, f8, hTde, hTdo, hne, if_true]
    rw [hTs]
    have hlen' : (wavHdr_ct c.big (codecOf c.fmtWord) c.enc.nbytes c.ch c.sr a.frames a.peak true
        ((((s.seekSet (c.hdrLen + a.data.length)).write (wavPad_ct c a)).bytes.length : Nat) : Int)
        ((((s.seekSet (c.hdrLen + a.data.length)).write (wavPad_ct c a)).bytes.length : Nat) - (c.hdrLen : Int) -
          ((((s.seekSet (c.hdrLen + a.data.length)).write (wavPad_ct c a)).bytes.length : Nat) - ((c.hdrLen + a.data.length : Nat) : Int)))).length = hdr.length := by
      rw [hl, hL, ← i.pkSome]; exact wavHdr_length _ _ _ _ _ _ _ _ _ i.pkLen
    have := (hdr_rewrite _ hdr (a.data ++ wavPad_ct c a) _ hS1 hlen' (by rw [hlen', hl]; exact hLpos)).1
    rw [this]
    simp only [closedImage, hc, hdrBytes, hS1, List.length_append, hl, List.append_assoc]
    congr 3
    · omega
    · omega

end Sf
