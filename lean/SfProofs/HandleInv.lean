/-
  The handle invariant `HInv`, its preservation by every step function, and the lift to operation lists.
-/
import SfProofs.HandleSteps
namespace Sf

/-- what a read-only handle additionally guarantees: the store is never modified, so the audio data the header
    announced stays in place and the byte position tracks the frame position -/
structure RInv (h : H) (s : Store) : Prop where
  lastOp : h.lastOp = .r
  rpos_le : h.rpos ≤ h.frames
  covers : h.dataoffset + h.frames * (h.bw : Int) ≤ (s.bytes.length : Int)
  sync : h.rpos < h.frames → (s.pos : Int) = h.dataoffset + h.rpos * (h.bw : Int)

structure HInv (h : H) (s : Store) : Prop where
  ch_pos : 0 < h.ch
  nb_pos : 0 < h.enc.nbytes
  rpos_nn : 0 ≤ h.rpos
  wpos_nn : 0 ≤ h.wpos
  off_nn : 0 ≤ h.dataoffset
  rd : h.mode = .r → RInv h s

theorem HInv.frames_nn {h : H} {s : Store} (hi : HInv h s) (hm : h.mode = .r) : 0 ≤ h.frames := by
  have := (hi.rd hm).rpos_le; have := hi.rpos_nn; omega

/-- the invariant does not look at the error field -/
theorem HInv.set_error {h : H} {s : Store} (hi : HInv h s) (e : Int) : HInv { h with error := e } s :=
  ⟨hi.ch_pos, hi.nb_pos, hi.rpos_nn, hi.wpos_nn, hi.off_nn,
   fun hm => ⟨(hi.rd hm).lastOp, (hi.rd hm).rpos_le, (hi.rd hm).covers, (hi.rd hm).sync⟩⟩

/-- for handles that can write, only the sign conditions matter -/
theorem HInv.of_writable {h h' : H} {s s' : Store} (hi : HInv h s) (hm : h'.mode ≠ .r)
    (hch : h'.ch = h.ch) (henc : h'.enc = h.enc) (hr : 0 ≤ h'.rpos) (hw : 0 ≤ h'.wpos) (ho : 0 ≤ h'.dataoffset) :
    HInv h' s' :=
  ⟨by rw [hch]; exact hi.ch_pos, by rw [henc]; exact hi.nb_pos, hr, hw, ho, fun h => absurd h hm⟩

/-! ## arithmetic of one read -/

theorem read_arith (nb ch m A L P : Nat) (hnb : 0 < nb) (hcov : P + A * (nb * ch) ≤ L) :
    (m ≤ A → min (m * ch * nb) (L - P) = m * ch * nb) ∧
    (A ≤ m → A * ch ≤ min (m * ch * nb) (L - P) / nb) := by
  have e1 : ∀ x : Nat, x * ch * nb = x * (nb * ch) := by
    intro x; rw [Nat.mul_assoc, Nat.mul_comm ch nb]
  constructor
  · intro hle
    have : m * (nb * ch) ≤ A * (nb * ch) := Nat.mul_le_mul_right _ hle
    rw [e1]; omega
  · intro hle
    have h1 : A * (nb * ch) ≤ m * (nb * ch) := Nat.mul_le_mul_right _ hle
    rw [Nat.le_div_iff_mul_le hnb, e1, e1]
    omega

/-- the requested length is a whole number of frames for every valid request -/
theorem reqLen_frames (h : H) (fc : Bool) (n : Int) (hch : 0 < h.ch) (hn : 0 < n) (ha : fc = true ∨ n % h.ch = 0) :
    ∃ m : Nat, 0 < m ∧ reqLen h fc n = (m : Int) * h.ch ∧ (fc = true → n = m) ∧ (fc = false → n = (m : Int) * h.ch) := by
  cases fc with
  | true =>
    refine ⟨n.toNat, by omega, ?_, fun _ => by omega, fun hf => by simp at hf⟩
    simp only [reqLen, if_true]
    congr 1; omega
  | false =>
    have ha' : n % (h.ch : Int) = 0 := by rcases ha with ha | ha; simp at ha; exact ha
    have hdvd : n = n / (h.ch : Int) * h.ch :=
      (Int.ediv_mul_cancel (Int.dvd_of_emod_eq_zero ha')).symm
    have hq : 0 < n / (h.ch : Int) := by
      have hc : (0 : Int) < h.ch := by omega
      apply Int.lt_of_mul_lt_mul_right (a := (h.ch : Int)) _ (by omega)
      rw [← hdvd]; simpa using hn
    refine ⟨(n / (h.ch : Int)).toNat, by omega, ?_, fun hf => by simp at hf, fun _ => ?_⟩
    · simp only [reqLen, Bool.false_eq_true, if_false]
      rw [Int.toNat_of_nonneg (by omega)]; exact hdvd
    · rw [Int.toNat_of_nonneg (by omega)]; exact hdvd

end Sf
