/-
  SfProofs.AbsWriteBridgeBlock3Writer — what the STORE holds of a block-coded file between two write calls, for every
  instance of the generic block writer `Sf.Block.Writer` (G.72x, NMS, GSM 06.10, PAF24, SDS): the blocks emitted so far
  (`WState.bytes` without the close).

    * `fold_push_prefix` / `close_prefix` : bytes are only ever appended — the store at a crash point is a PREFIX of the closed
      data region;
    * `fold_push_acc`    : after N frames the writer has emitted N / spb blocks and holds N % spb frames in its buffer — the
      frames in COMPLETE blocks are `floorToBlock N spb` (C11's floor clause);
    * `flushed_frames`   : the byte length of the store's data region, for an encoder that answers `bpb` bytes per block.
-/
import SfModel.Block
import SfProofs.BlockWriter
import SfProofs.BlockClosed
namespace Sf.Block.Snap
open Sf Sf.Block Sf.Block.Proofs

variable {σ : Type}

theorem emit_bytes (w : Writer σ) (st : WState σ) : (w.emit st).bytes = st.bytes ++ (w.enc st.es st.buf).2 := by
  simp [Writer.emit, WState.bytes]

theorem emit_nblk (w : Writer σ) (st : WState σ) : (w.emit st).nblk = st.nblk + 1 := rfl

theorem pushFrame_prefix (w : Writer σ) (st : WState σ) (f : List Int) : ∃ e, (pushFrame w st f).bytes = st.bytes ++ e := by
  unfold pushFrame
  simp only
  split
  · exact ⟨_, emit_bytes w _⟩
  · exact ⟨[], by simp [WState.bytes]⟩

/-- bytes are only appended by write calls -/
theorem fold_push_prefix (w : Writer σ) : ∀ (fs : List (List Int)) (st : WState σ),
    ∃ e, (fs.foldl (pushFrame w) st).bytes = st.bytes ++ e
  | [], st => ⟨[], by simp⟩
  | f :: fs, st => by
    obtain ⟨e1, h1⟩ := pushFrame_prefix w st f
    obtain ⟨e2, h2⟩ := fold_push_prefix w fs (pushFrame w st f)
    exact ⟨e1 ++ e2, by rw [List.foldl_cons, h2, h1, List.append_assoc]⟩

/-- … and by the close -/
theorem close_prefix (w : Writer σ) (pad : Bool) (st : WState σ) : ∃ e, (w.close pad st).bytes = st.bytes ++ e := by
  unfold Writer.close
  split
  · exact ⟨[], by simp⟩
  · exact ⟨_, emit_bytes w _⟩

/-- THE STORE AT A CRASH POINT IS A PREFIX OF THE CLOSED DATA REGION: frames `p` pushed, then any further frames `r`, then close -/
theorem stored_prefix_closed (w : Writer σ) (pad : Bool) (st : WState σ) (p r : List (List Int)) :
    ∃ e, (w.close pad ((p ++ r).foldl (pushFrame w) st)).bytes = (p.foldl (pushFrame w) st).bytes ++ e := by
  obtain ⟨e1, h1⟩ := close_prefix w pad ((p ++ r).foldl (pushFrame w) st)
  rw [List.foldl_append] at h1 ⊢
  obtain ⟨e2, h2⟩ := fold_push_prefix w r (p.foldl (pushFrame w) st)
  exact ⟨e2 ++ e1, by rw [h1, h2, List.append_assoc]⟩

/-- the accounting invariant: `N` frames pushed so far -/
structure Acc (w : Writer σ) (bpb : Nat) (st : WState σ) (N : Nat) : Prop where
  bytes : st.bytes.length = N / w.spb * bpb
  cnt : st.cnt = N % w.spb

theorem succ_div_mod (N s : Nat) (hs : 0 < s) :
    (N % s + 1 = s → (N + 1) / s = N / s + 1 ∧ (N + 1) % s = 0) ∧
    (N % s + 1 < s → (N + 1) / s = N / s ∧ (N + 1) % s = N % s + 1) := by
  have h := Nat.div_add_mod N s
  constructor
  · intro hr
    have e : N + 1 = s * (N / s + 1) := by rw [Nat.mul_add, Nat.mul_one]; omega
    rw [e]
    exact ⟨Nat.mul_div_cancel_left _ hs, Nat.mul_mod_right _ _⟩
  · intro hr
    have e : N + 1 = s * (N / s) + (N % s + 1) := by omega
    constructor
    · conv => lhs; rw [e]
      rw [Nat.mul_add_div hs, Nat.div_eq_of_lt hr, Nat.add_zero]
    · conv => lhs; rw [e]
      rw [Nat.mul_add_mod, Nat.mod_eq_of_lt hr]

theorem pushFrame_acc (w : Writer σ) (wf : WWF w) (bpb : Nat)
    (henc : ∀ (s : σ) (b : List Int), b.length = w.spb * w.ch → (w.enc s b).2.length = bpb)
    (st : WState σ) (N : Nat) (inv : WInv w st) (acc : Acc w bpb st N) (f : List Int) (hf : f.length = w.ch) :
    WInv w (pushFrame w st f) ∧ Acc w bpb (pushFrame w st f) (N + 1) := by
  have hcnt := inv.cnt
  have hoff : st.cnt * w.ch + w.ch ≤ st.buf.length := by
    rw [inv.len]
    have := Nat.mul_le_mul_right w.ch (show st.cnt + 1 ≤ w.spb by omega)
    rwa [Nat.add_mul, Nat.one_mul] at this
  have hlen1 : (overwrite st.buf (st.cnt * w.ch) f w.ch).length = w.spb * w.ch := by
    rw [overwrite_length _ _ _ _ hoff hf]; exact inv.len
  obtain ⟨hA, hB⟩ := succ_div_mod N w.spb wf.spb_pos
  by_cases hfull : st.cnt + 1 ≥ w.spb
  · have hstep : pushFrame w st f = w.emit { st with buf := overwrite st.buf (st.cnt * w.ch) f w.ch, cnt := st.cnt + 1 } := by
      unfold pushFrame; simp only [hfull, if_true]
    obtain ⟨h1, h2⟩ := hA (by rw [← acc.cnt]; omega)
    rw [hstep]
    refine ⟨⟨by rw [emit_cnt]; exact wf.spb_pos, by rw [emit_buf]; exact hlen1⟩, ?_, ?_⟩
    · rw [emit_bytes, List.length_append, henc _ _ hlen1, h1, Nat.add_mul, Nat.one_mul]
      show st.bytes.length + bpb = _
      rw [acc.bytes]
    · rw [emit_cnt, h2]
  · have hstep : pushFrame w st f = { st with buf := overwrite st.buf (st.cnt * w.ch) f w.ch, cnt := st.cnt + 1 } := by
      unfold pushFrame; simp only [hfull, if_false]
    obtain ⟨h1, h2⟩ := hB (by rw [← acc.cnt]; omega)
    rw [hstep]
    refine ⟨⟨by simp only; omega, hlen1⟩, ?_, ?_⟩
    · show st.bytes.length = _
      rw [h1]; exact acc.bytes
    · show st.cnt + 1 = _
      rw [h2, acc.cnt]

theorem fold_push_acc (w : Writer σ) (wf : WWF w) (bpb : Nat)
    (henc : ∀ (s : σ) (b : List Int), b.length = w.spb * w.ch → (w.enc s b).2.length = bpb) :
    ∀ (fs : List (List Int)) (st : WState σ) (N : Nat), WInv w st → Acc w bpb st N → Uniform w.ch fs →
      WInv w (fs.foldl (pushFrame w) st) ∧ Acc w bpb (fs.foldl (pushFrame w) st) (N + fs.length)
  | [], st, N, inv, acc, _ => ⟨inv, acc⟩
  | f :: fs, st, N, inv, acc, hu => by
    obtain ⟨hf, hu2⟩ := uniform_cons hu
    obtain ⟨i1, a1⟩ := pushFrame_acc w wf bpb henc st N inv acc f hf
    have := fold_push_acc w wf bpb henc fs (pushFrame w st f) (N + 1) i1 a1 hu2
    rw [List.foldl_cons, List.length_cons]
    have e : N + (fs.length + 1) = N + 1 + fs.length := by omega
    rw [e]; exact this

theorem init_acc (w : Writer σ) (bpb : Nat) (s0 : σ) : Acc w bpb (w.init s0) 0 :=
  ⟨by simp [Writer.init, WState.bytes], by simp [Writer.init]⟩

/-- **the store between two calls**: after `N` whole frames the data region in the store has `N / spb` blocks of `bpb` bytes -/
theorem flushed_length (w : Writer σ) (wf : WWF w) (bpb : Nat)
    (henc : ∀ (s : σ) (b : List Int), b.length = w.spb * w.ch → (w.enc s b).2.length = bpb)
    (s0 : σ) (fs : List (List Int)) (hu : Uniform w.ch fs) :
    (fs.foldl (pushFrame w) (w.init s0)).bytes.length = fs.length / w.spb * bpb := by
  have := (fold_push_acc w wf bpb henc fs (w.init s0) 0 (init_inv_w w wf s0) (init_acc w bpb s0) hu).2.bytes
  rwa [Nat.zero_add] at this

/-- a frame count a reader derives as (length / bpb) · spb from that region is `floorToBlock N spb` -/
theorem flushed_frames (N spb bpb : Nat) (hb : 0 < bpb) : N / spb * bpb / bpb * spb = N / spb * spb := by
  rw [Nat.mul_div_cancel _ hb]

end Sf.Block.Snap
