/-
  SfProofs.AbsSized — the size invariant of the reference streams: `ref.size = frames · cpf` for every caller type whose stream
  the state claims to know (`RefSized`, SfProofs/AbsCompleteW.lean), kept by EVERY accepted line (reads, writes at and past
  the end, seeks, truncations, raw calls, queries, re-opens) and hence along every accepted transcript.
-/
import SfProofs.AbsCompleteW
import SfProofs.AbsRun
namespace Sf.Abs

theorem RefSized_of_same {g : Geom} {st st' : St} (hs : RefSized g st) (hf : st'.frames = st.frames) (hr : st'.ref = st.ref)
    (hv : st'.valid = st.valid) : RefSized g st' := by
  intro t ht
  rw [hr, hf]; exact hs t (by rw [← hv]; exact ht)

theorem retItems_le_req (g : Geom) (fc : Bool) (r n : Int) (h0 : 0 ≤ r) (h : r ≤ n) : retItems g fc r ≤ reqItems g fc n := by
  unfold retItems reqItems
  cases fc
  · simp only [Bool.false_eq_true, if_false]; omega
  · simp only [if_true]; exact Nat.mul_le_mul_right _ (by omega)

/-- one accepted line keeps `ref.size = frames · cpf` (geometries whose channel count is positive) -/
theorem check_RefSized (g : Geom) (st st' : St) (op : Op) (o : Out) (hs : RefSized g st)
    (hc : check g st op o = .ok st') : RefSized g st' := by
  cases op with
  | read ty fc n =>
    simp only [check] at hc
    by_cases hn : n = 0
    · subst hn; obtain ⟨_, e⟩ := readOk_zero g st ty fc o st' hc; subst e; exact hs
    · by_cases hr : ReadReq g st fc n
      · obtain ⟨_, _, _, _, _, heof, hmain⟩ := readOk_valid g st ty fc n o st' hr hc
        by_cases hend : st.frames ≤ st.rpos
        · obtain ⟨_, _, e⟩ := heof hend; subst e; exact RefSized_of_same hs rfl rfl rfl
        · obtain ⟨e, _⟩ := hmain (by omega); subst e; exact RefSized_of_same hs rfl rfl rfl
      · obtain ⟨_, _, e⟩ := readOk_invalid g st ty fc n o st' hn hr hc; subst e; exact RefSized_of_same hs rfl rfl rfl
  | write ty fc n data =>
    simp only [check] at hc
    unfold writeOk at hc
    by_cases hn : n = 0
    · simp only [hn, if_true] at hc
      split at hc
      · injection hc with hc; subst hc; exact hs
      · exact Res.noConfusion hc
    · simp only [hn, if_false] at hc
      split at hc
      · split at hc
        · injection hc with hc; subst hc; exact RefSized_of_same hs rfl rfl rfl
        · exact Res.noConfusion hc
      · repeat' split at hc
        all_goals first | exact Res.noConfusion hc | skip
        all_goals (injection hc with hc; subst hc)
        · -- nothing was written
          exact RefSized_of_same hs rfl rfl rfl
        · -- `k` frames were written at the write position
          rename_i hsz _ hw _ _ hk
          intro t ht
          simp only [Bool.and_eq_true, decide_eq_true_eq] at ht
          obtain ⟨htt, ⟨_, hvt⟩, _⟩ := ht
          subst htt
          simp only [if_true]
          have hcc := whole_frames_cells g t (retItems g fc o.ret) (by omega)
          have hle : retItems g fc o.ret * cells t ≤ data.size := by
            have h1 : retItems g fc o.ret ≤ reqItems g fc n := by
              rename_i hrng _ _
              exact retItems_le_req g fc o.ret n (by omega) (by omega)
            exact Nat.le_trans (Nat.mul_le_mul_right _ h1) (by omega)
          rw [size_writeAt, hs t hvt, Array.size_extract, Nat.min_eq_left hle, Nat.sub_zero, hcc, ← Nat.add_mul]
          rcases Nat.le_total st.frames (st.wpos + retItems g fc o.ret / g.ch) with h1 | h1
          · rw [Nat.max_eq_right h1, Nat.max_eq_right (Nat.mul_le_mul_right _ h1)]
          · rw [Nat.max_eq_left h1, Nat.max_eq_left (Nat.mul_le_mul_right _ h1)]
  | seek off whence =>
    simp only [check] at hc
    rcases seekOk_ok g st off whence o st' hc with ⟨_, _, e⟩ | ⟨t, _, _, _, _, e⟩
    · subst e; exact RefSized_of_same hs rfl rfl rfl
    · obtain ⟨f1, _, f3, f4⟩ := seekMove_frames st whence t
      subst e; exact RefSized_of_same hs f1 f3 f4
  | trunc n =>
    simp only [check] at hc
    unfold truncOk at hc
    split at hc
    · split at hc
      · injection hc with hc; subst hc; exact RefSized_of_same hs rfl rfl rfl
      · exact Res.noConfusion hc
    · simp only at hc
      split at hc
      · exact Res.noConfusion hc
      · injection hc with hc; subst hc
        intro t _
        exact size_upTo 0 _ _
  | rawRead n =>
    simp only [check] at hc
    unfold rawReadOk at hc
    simp only at hc
    repeat' split at hc
    all_goals first | exact Res.noConfusion hc | skip
    all_goals (injection hc with hc; subst hc; exact RefSized_of_same hs rfl rfl rfl)
  | rawWrite n data =>
    simp only [check] at hc
    unfold rawWriteOk at hc
    simp only at hc
    repeat' split at hc
    all_goals first | exact Res.noConfusion hc | skip
    all_goals (injection hc with hc; subst hc)
    all_goals first
      | exact RefSized_of_same hs rfl rfl rfl
      | (intro t ht; exact absurd ht (by simp))
  | info =>
    simp only [check, infoOk] at hc
    split at hc
    · injection hc with hc; subst hc; exact hs
    · exact Res.noConfusion hc
  | close =>
    simp only [check, closeOk] at hc
    split at hc
    · injection hc with hc; subst hc; exact hs
    · exact Res.noConfusion hc
  | reopen m =>
    simp only [check] at hc
    unfold reopenOk at hc
    simp only at hc
    repeat' split at hc
    all_goals first | exact Res.noConfusion hc | skip
    all_goals (injection hc with hc; subst hc)
    all_goals first
      | (intro t _; simp; done)
      | (intro t ht; simp only [Bool.true_and] at ht; exact hs t ht)
      | (intro t ht; simp at ht)
  | other =>
    simp only [check] at hc
    injection hc with hc; subst hc; exact hs

/-- … hence along every accepted transcript -/
theorem accepts_RefSized (g : Geom) : ∀ (tr : List (Op × Out)) (st st' : St), RefSized g st → accepts g st tr = some st' →
    RefSized g st' := by
  intro tr
  induction tr with
  | nil => intro st st' hs h; simp only [accepts] at h; injection h with h; subst h; exact hs
  | cons l tr ih =>
    intro st st' hs h
    obtain ⟨op, o⟩ := l
    simp only [accepts] at h
    split at h
    · rename_i st1 hc
      exact ih st1 st' (check_RefSized g st st1 op o hs hc) h
    · exact absurd h (by simp)

end Sf.Abs
