/-
  SfProofs.CodecInv — the appending-writer invariant `WInv`, the exact effect of `stepWrite` and of
  SFC_UPDATE_HEADER_NOW on a state that satisfies it, and its preservation.
-/
import SfProofs.CodecWriter
namespace Sf

/-- A handle opened for write that has only been written to, and its store:
    the store is `hdr ++ dat`, positioned at its end; `dat` is `wpos` whole frames. -/
structure WInv (h : H) (s : Store) (hdr dat : List Byte) : Prop where
  mode : h.mode = .w
  lastOp : h.lastOp = .w
  ch_pos : 0 < h.ch
  wpos_nonneg : 0 ≤ h.wpos
  frames : h.frames = h.wpos
  dataend : h.dataend = 0
  doff : h.dataoffset = hdrLenOf h
  hdr_len : hdr.length = hdrLenOf h
  bytes : s.bytes = hdr ++ dat
  pos : s.pos = s.bytes.length
  dat_len : (dat.length : Int) = h.wpos * ((h.enc.nbytes * h.ch : Nat) : Int)
  peak_len : ∀ ps, h.peak = some ps → ps.length = h.ch

theorem hdrLenOf_congr (h h' : H) (h0 : h'.container = h.container) (h1 : h'.fmtWord = h.fmtWord)
    (h2 : h'.peakAtStart = h.peakAtStart) (h3 : h'.peak.map List.length = h.peak.map List.length) :
    hdrLenOf h' = hdrLenOf h := by
  unfold hdrLenOf wavHdrLen
  rw [h0, h1, h2, h3]

/-- the header is unchanged by fields it does not read -/
theorem hdrOf_congr (h h' : H) (h0 : h'.container = h.container) (h1 : h'.big = h.big) (h2 : h'.datalength = h.datalength)
    (h3 : h'.fmtWord = h.fmtWord) (h4 : h'.sr = h.sr) (h5 : h'.ch = h.ch) (h6 : h'.filelength = h.filelength)
    (h7 : h'.enc = h.enc) (h8 : h'.frames = h.frames) (h9 : h'.peak = h.peak) (h10 : h'.peakAtStart = h.peakAtStart) :
    hdrOf h' = hdrOf h := by
  unfold hdrOf
  rw [h0, auHeader_eq, wavHeader_eq, auHeader_eq, wavHeader_eq, h1, h2, h3, h4, h5, h6, h7, h8, h9, h10]

theorem recalc_dataoffset' (h : H) (fl : Nat) (cl : Bool) (hd : h.dataoffset = hdrLenOf h) :
    (recalc h fl cl).dataoffset = hdrLenOf h := by
  rw [recalc_dataoffset]
  unfold hdrLenOf at *
  split <;> simp_all

/-- `write_header (psf, SF_FALSE)` leaves the handle alone once the data offset is the header length -/
theorem recalc_false_eq (h : H) (fl : Nat) (hd : h.dataoffset = hdrLenOf h) : recalc h fl false = h := by
  apply H.ext
  case dataoffset => rw [recalc_dataoffset' h fl false hd, hd]
  all_goals simp [recalc_filelength, recalc_datalength]

/-! ### the three phases on a state satisfying the invariant -/

theorem wPre_spec (h : H) (s : Store) (hdr dat : List Byte) (inv : WInv h s hdr dat) :
    wPre_cw h s = ({ h with error := 0, haveWritten := true },
                { bytes := (if !h.haveWritten ∧ h.container != .raw then hdrOf h else hdr) ++ dat, pos := s.pos }) := by
  unfold wPre_cw
  simp only []
  by_cases hc : (!h.haveWritten) = true ∧ (h.container != Container.raw) = true
  · rw [if_pos hc, if_pos hc]
    have hE : hdrLenOf { h with error := 0 } = hdrLenOf h := hdrLenOf_congr _ _ rfl rfl rfl rfl
    have hd : ({ h with error := 0 } : H).dataoffset = hdrLenOf { h with error := 0 } := by rw [hE]; exact inv.doff
    have hsnd := writeHeader_snd { h with error := 0 } s false hdr dat inv.bytes (by rw [hE]; exact inv.hdr_len)
      hd (by rw [hE, inv.pos, inv.bytes, List.length_append, inv.hdr_len]; omega)
    rw [recalc_false_eq _ _ hd] at hsnd
    refine Prod.ext ?_ ?_
    · simp only [writeHeader_fst_cw, recalc_false_eq _ _ hd]
    · simp only [hsnd]
      congr 2
  · rw [if_neg hc, if_neg hc]
    have := inv.bytes
    cases s
    simp_all

theorem wCore_spec (h : H) (s : Store) (ty : Ty) (vals : List Int) (hf : h.frames = h.wpos) (hde : h.dataend = 0)
    (hpos : s.pos = s.bytes.length) :
    wCore_cw h s ty vals =
      ({ h with wpos := h.wpos + (vals.length : Int) / h.ch, lastOp := Mode.w, peak := peakUpdate h ty vals,
                frames := h.wpos + (vals.length : Int) / h.ch, dataend := 0 },
       { bytes := s.bytes ++ h.enc.encodeAll h.conv ty vals,
         pos := s.pos + (h.enc.encodeAll h.conv ty vals).length }) := by
  unfold wCore_cw
  simp only []
  have hq : 0 ≤ (vals.length : Int) / h.ch := Int.ediv_nonneg (by omega) (by omega)
  refine Prod.ext ?_ (Store.write_end s _ hpos)
  by_cases hg : h.wpos + (vals.length : Int) / h.ch > h.frames
  · simp only [hg, if_true]
  · simp only [hg, if_false]
    have : h.wpos + (vals.length : Int) / h.ch = h.frames := by omega
    apply H.ext <;> simp [this, hde]

theorem wPost_spec (h : H) (s : Store) (hdr body : List Byte) (hb : s.bytes = hdr ++ body)
    (hl : hdr.length = hdrLenOf h) (hd : h.dataoffset = hdrLenOf h) (hpos : hdrLenOf h ≤ s.pos) :
    wPost h s =
      (if h.autoHeader ∧ h.container != .raw then recalc h s.bytes.length true else h,
       { bytes := (if h.autoHeader ∧ h.container != .raw then hdrOf (recalc h s.bytes.length true) else hdr) ++ body,
         pos := s.pos }) := by
  unfold wPost
  by_cases hc : h.autoHeader = true ∧ (h.container != Container.raw) = true
  · simp only [hc, and_self, if_true]
    exact Prod.ext (writeHeader_fst_cw h s true) (writeHeader_snd h s true hdr body hb hl hd hpos)
  · simp only [hc, if_false]
    cases s
    simp_all

theorem peakUpdate_maplen (h : H) (ty : Ty) (vals : List Int) (hl : ∀ ps, h.peak = some ps → ps.length = h.ch) :
    (peakUpdate h ty vals).map List.length = h.peak.map List.length := by
  cases hp : h.peak with
  | none => rw [peakUpdate_none h ty vals hp]
  | some ps =>
    obtain ⟨ps', e, l⟩ := peakUpdate_some h ty vals ps hp (hl ps hp)
    rw [e]; simp [l, hl ps hp]

/-! ### the exact effect of one valid write call -/

/-- the handle after the samples of a write call, before a possible automatic header update -/
def wrMid (h : H) (ty : Ty) (vals : List Int) : H :=
  { h with error := 0, haveWritten := true, wpos := h.wpos + (vals.length : Int) / h.ch, lastOp := Mode.w,
           peak := peakUpdate h ty vals, frames := h.wpos + (vals.length : Int) / h.ch, dataend := 0 }

/-- the handle after a write call that leaves the file `fl` bytes long -/
def wrH (h : H) (ty : Ty) (vals : List Int) (fl : Nat) : H :=
  if h.autoHeader ∧ h.container != .raw then recalc (wrMid h ty vals) fl true else wrMid h ty vals

/-- the header bytes in the store after that call -/
def wrHdr (h : H) (ty : Ty) (vals : List Int) (fl : Nat) (hdr : List Byte) : List Byte :=
  if h.autoHeader ∧ h.container != .raw then hdrOf (recalc (wrMid h ty vals) fl true)
  else if !h.haveWritten ∧ h.container != .raw then hdrOf h else hdr

theorem wrMid_hdrLen (h : H) (ty : Ty) (vals : List Int) (hl : ∀ ps, h.peak = some ps → ps.length = h.ch) :
    hdrLenOf (wrMid h ty vals) = hdrLenOf h :=
  hdrLenOf_congr _ _ rfl rfl rfl (peakUpdate_maplen h ty vals hl)

theorem stepWrite_spec (h : H) (s : Store) (hdr dat : List Byte) (inv : WInv h s hdr dat)
    (ty : Ty) (fc : Bool) (n : Int) (data : List Int) (v : ValidW h fc n data) :
    stepWrite h s ty fc n data =
      (wrH h ty data (s.bytes.length + (h.enc.encodeAll h.conv ty data).length),
       { bytes := wrHdr h ty data (s.bytes.length + (h.enc.encodeAll h.conv ty data).length) hdr ++
                    (dat ++ h.enc.encodeAll h.conv ty data),
         pos := s.pos + (h.enc.encodeAll h.conv ty data).length },
       { ret := n, err := 0 }) := by
  let hdr1 := if !h.haveWritten ∧ h.container != .raw then hdrOf h else hdr
  let new := h.enc.encodeAll h.conv ty data
  have hdr1_len : hdr1.length = hdrLenOf h := by
    simp only [hdr1]; split
    · exact hdrOf_length h
    · exact inv.hdr_len
  have e1 : wPre_cw h s = (({ h with error := 0, haveWritten := true } : H), ({ bytes := hdr1 ++ dat, pos := s.pos } : Store)) :=
    wPre_spec h s hdr dat inv
  have hspos : s.pos = hdr.length + dat.length := by rw [inv.pos, inv.bytes, List.length_append]
  have e2 : wCore_cw ({ h with error := 0, haveWritten := true } : H) ({ bytes := hdr1 ++ dat, pos := s.pos } : Store) ty data
      = (wrMid h ty data, ({ bytes := hdr1 ++ (dat ++ new), pos := s.pos + new.length } : Store)) := by
    rw [wCore_spec ({ h with error := 0, haveWritten := true } : H) _ ty data inv.frames inv.dataend
      (by simp [hspos, hdr1_len, inv.hdr_len])]
    refine Prod.ext ?_ ?_
    · simp only [wrMid, peakUpdate_eq]
    · simp [new]
  have hml : hdrLenOf (wrMid h ty data) = hdrLenOf h := wrMid_hdrLen h ty data inv.peak_len
  have e3 := wPost_spec (wrMid h ty data) ({ bytes := hdr1 ++ (dat ++ new), pos := s.pos + new.length } : Store) hdr1 (dat ++ new)
    rfl (by rw [hml]; exact hdr1_len) (by rw [hml]; exact inv.doff) (by rw [hml]; simp only []; rw [hspos, inv.hdr_len]; omega)
  rw [stepWrite_phases h s ty fc n data inv.ch_pos (by rw [inv.mode]; decide) inv.lastOp v]
  simp only []
  rw [e1]
  simp only []
  rw [e2]
  simp only []
  rw [e3]
  have hfl : (hdr1 ++ (dat ++ new)).length = s.bytes.length + new.length := by
    simp [inv.bytes, hdr1_len, inv.hdr_len]; omega
  simp only [hfl]
  rfl

/-! ### the invariant is preserved -/

@[simp] theorem wrH_store (h : H) (ty : Ty) (vals : List Int) (fl : Nat) : (wrH h ty vals fl).store = (wrMid h ty vals).store := by
  unfold wrH; split <;> simp
@[simp] theorem wrH_mode (h : H) (ty : Ty) (vals : List Int) (fl : Nat) : (wrH h ty vals fl).mode = (wrMid h ty vals).mode := by
  unfold wrH; split <;> simp
@[simp] theorem wrH_container (h : H) (ty : Ty) (vals : List Int) (fl : Nat) : (wrH h ty vals fl).container = (wrMid h ty vals).container := by
  unfold wrH; split <;> simp
@[simp] theorem wrH_enc (h : H) (ty : Ty) (vals : List Int) (fl : Nat) : (wrH h ty vals fl).enc = (wrMid h ty vals).enc := by
  unfold wrH; split <;> simp
@[simp] theorem wrH_big (h : H) (ty : Ty) (vals : List Int) (fl : Nat) : (wrH h ty vals fl).big = (wrMid h ty vals).big := by
  unfold wrH; split <;> simp
@[simp] theorem wrH_ch (h : H) (ty : Ty) (vals : List Int) (fl : Nat) : (wrH h ty vals fl).ch = (wrMid h ty vals).ch := by
  unfold wrH; split <;> simp
@[simp] theorem wrH_sr (h : H) (ty : Ty) (vals : List Int) (fl : Nat) : (wrH h ty vals fl).sr = (wrMid h ty vals).sr := by
  unfold wrH; split <;> simp
@[simp] theorem wrH_fmtWord (h : H) (ty : Ty) (vals : List Int) (fl : Nat) : (wrH h ty vals fl).fmtWord = (wrMid h ty vals).fmtWord := by
  unfold wrH; split <;> simp
@[simp] theorem wrH_frames (h : H) (ty : Ty) (vals : List Int) (fl : Nat) : (wrH h ty vals fl).frames = (wrMid h ty vals).frames := by
  unfold wrH; split <;> simp
@[simp] theorem wrH_rpos (h : H) (ty : Ty) (vals : List Int) (fl : Nat) : (wrH h ty vals fl).rpos = (wrMid h ty vals).rpos := by
  unfold wrH; split <;> simp
@[simp] theorem wrH_wpos (h : H) (ty : Ty) (vals : List Int) (fl : Nat) : (wrH h ty vals fl).wpos = (wrMid h ty vals).wpos := by
  unfold wrH; split <;> simp
@[simp] theorem wrH_lastOp (h : H) (ty : Ty) (vals : List Int) (fl : Nat) : (wrH h ty vals fl).lastOp = (wrMid h ty vals).lastOp := by
  unfold wrH; split <;> simp
@[simp] theorem wrH_haveWritten (h : H) (ty : Ty) (vals : List Int) (fl : Nat) : (wrH h ty vals fl).haveWritten = (wrMid h ty vals).haveWritten := by
  unfold wrH; split <;> simp
@[simp] theorem wrH_autoHeader (h : H) (ty : Ty) (vals : List Int) (fl : Nat) : (wrH h ty vals fl).autoHeader = (wrMid h ty vals).autoHeader := by
  unfold wrH; split <;> simp
@[simp] theorem wrH_error (h : H) (ty : Ty) (vals : List Int) (fl : Nat) : (wrH h ty vals fl).error = (wrMid h ty vals).error := by
  unfold wrH; split <;> simp
@[simp] theorem wrH_conv (h : H) (ty : Ty) (vals : List Int) (fl : Nat) : (wrH h ty vals fl).conv = (wrMid h ty vals).conv := by
  unfold wrH; split <;> simp
@[simp] theorem wrH_dataend (h : H) (ty : Ty) (vals : List Int) (fl : Nat) : (wrH h ty vals fl).dataend = (wrMid h ty vals).dataend := by
  unfold wrH; split <;> simp
@[simp] theorem wrH_peak (h : H) (ty : Ty) (vals : List Int) (fl : Nat) : (wrH h ty vals fl).peak = (wrMid h ty vals).peak := by
  unfold wrH; split <;> simp
@[simp] theorem wrH_peakAtStart (h : H) (ty : Ty) (vals : List Int) (fl : Nat) : (wrH h ty vals fl).peakAtStart = (wrMid h ty vals).peakAtStart := by
  unfold wrH; split <;> simp
@[simp] theorem wrH_canTruncate (h : H) (ty : Ty) (vals : List Int) (fl : Nat) : (wrH h ty vals fl).canTruncate = (wrMid h ty vals).canTruncate := by
  unfold wrH; split <;> simp

theorem wrH_hdrLen (h : H) (ty : Ty) (vals : List Int) (fl : Nat) (hl : ∀ ps, h.peak = some ps → ps.length = h.ch) :
    hdrLenOf (wrH h ty vals fl) = hdrLenOf h := by
  rw [← wrMid_hdrLen h ty vals hl]
  unfold wrH; split
  · exact recalc_hdrLen _ _ _
  · rfl

theorem wrH_dataoffset (h : H) (ty : Ty) (vals : List Int) (fl : Nat) (hl : ∀ ps, h.peak = some ps → ps.length = h.ch)
    (hd : h.dataoffset = hdrLenOf h) : (wrH h ty vals fl).dataoffset = hdrLenOf h := by
  have hm : (wrMid h ty vals).dataoffset = hdrLenOf (wrMid h ty vals) := by
    rw [wrMid_hdrLen h ty vals hl]; exact hd
  unfold wrH; split
  · rw [recalc_dataoffset' _ _ _ hm, wrMid_hdrLen h ty vals hl]
  · rw [hm, wrMid_hdrLen h ty vals hl]

theorem wrHdr_length (h : H) (ty : Ty) (vals : List Int) (fl : Nat) (hdr : List Byte)
    (hl : ∀ ps, h.peak = some ps → ps.length = h.ch) (hh : hdr.length = hdrLenOf h) :
    (wrHdr h ty vals fl hdr).length = hdrLenOf h := by
  unfold wrHdr
  split
  · rw [hdrOf_length, recalc_hdrLen, wrMid_hdrLen h ty vals hl]
  · split
    · exact hdrOf_length h
    · exact hh

theorem ValidW.len_mod (h : H) (fc : Bool) (n : Int) (data : List Int) (v : ValidW h fc n data) :
    (data.length : Int) % h.ch = 0 := by
  rw [v.len]; unfold callLen
  cases fc
  · simpa using v.align rfl
  · simp

theorem stepWrite_winv (h : H) (s : Store) (hdr dat : List Byte) (inv : WInv h s hdr dat)
    (ty : Ty) (fc : Bool) (n : Int) (data : List Int) (v : ValidW h fc n data) :
    WInv (stepWrite h s ty fc n data).1 (stepWrite h s ty fc n data).2.1
      (wrHdr h ty data (s.bytes.length + (h.enc.encodeAll h.conv ty data).length) hdr)
      (dat ++ h.enc.encodeAll h.conv ty data) := by
  rw [stepWrite_spec h s hdr dat inv ty fc n data v]
  have hq : 0 ≤ (data.length : Int) / h.ch := Int.ediv_nonneg (by omega) (by omega)
  have hl := inv.peak_len
  constructor
  · simp [wrMid, inv.mode]
  · simp [wrMid]
  · simp [wrMid, inv.ch_pos]
  · simp only [wrH_wpos, wrMid]; have := inv.wpos_nonneg; omega
  · simp [wrMid]
  · simp [wrMid]
  · simp only []; rw [wrH_dataoffset _ _ _ _ hl inv.doff, wrH_hdrLen _ _ _ _ hl]
  · simp only []; rw [wrHdr_length _ _ _ _ _ hl inv.hdr_len, wrH_hdrLen _ _ _ _ hl]
  · rfl
  · simp only [List.length_append]
    rw [wrHdr_length _ _ _ _ _ hl inv.hdr_len, inv.pos, inv.bytes, List.length_append, inv.hdr_len]; omega
  · simp only [wrH_wpos, wrH_enc, wrH_ch, wrMid, List.length_append, Enc.encodeAll_length_cw]
    have hm := ValidW.len_mod h fc n data v
    have hd := inv.dat_len
    have hc : (h.ch : Int) ≠ 0 := by have := inv.ch_pos; omega
    have : (data.length : Int) = (data.length : Int) / h.ch * h.ch := by
      rw [Int.ediv_mul_cancel (Int.dvd_of_emod_eq_zero hm)]
    push_cast
    rw [hd, Int.add_mul]
    congr 1
    push_cast
    calc (data.length : Int) * h.enc.nbytes = ((data.length : Int) / h.ch * h.ch) * h.enc.nbytes := by rw [← this]
      _ = _ := by rw [Int.mul_assoc, Int.mul_comm (h.ch : Int)]
  · intro ps hps
    simp only [wrH_peak, wrH_ch, wrMid] at hps ⊢
    cases hp : h.peak with
    | none => rw [peakUpdate_none h ty data hp] at hps; cases hps
    | some ps0 =>
      obtain ⟨ps', e, l⟩ := peakUpdate_some h ty data ps0 hp (hl ps0 hp)
      rw [e] at hps; cases hps; exact l

end Sf
