/-
  SfProofs.AiffRead — how `Sf.Aiff.step` acts on the chunk kinds the writer emits, stated against a cursor
  (`bs.drop pos = chunk ++ rest`), so that the same lemmas serve closed files and header-update snapshots.
-/
import SfModel.Aiff
import SfProofs.AiffRate
namespace Sf.Aiff

/-! ### cursor lemmas -/

theorem rdN_of_drop {bs : List Byte} {pos : Nat} {x rest : List Byte} (h : bs.drop pos = x ++ rest) (hx : 0 < x.length) :
    rdN bs pos x.length = (x, pos + x.length) := by
  have hl : (bs.drop pos).length = x.length + rest.length := by rw [h]; simp
  simp only [List.length_drop] at hl
  have hle : pos + x.length ≤ bs.length := by omega
  unfold rdN
  simp only [hle, if_true, h, List.take_left']

theorem rdN_snd_of_drop {bs : List Byte} {pos n : Nat} {x rest : List Byte} (h : bs.drop pos = x ++ rest) (hn : x.length = n) :
    (rdN bs pos n).2 = pos + n := by
  subst hn
  have hl : (bs.drop pos).length = x.length + rest.length := by rw [h]; simp
  simp only [List.length_drop] at hl
  by_cases hle : pos + x.length ≤ bs.length
  · simp [rdN, hle]
  · have : x.length = 0 := by omega
    have hp : ¬ pos < bs.length := by omega
    simp [rdN, hle, this, hp]

theorem drop_step {bs : List Byte} {pos : Nat} {x rest : List Byte} (h : bs.drop pos = x ++ rest) :
    bs.drop (pos + x.length) = rest := by
  rw [← List.drop_drop, h, List.drop_left]

theorem len_of_drop {bs : List Byte} {pos : Nat} {x : List Byte} (h : bs.drop pos = x) (hx : 0 < x.length) :
    bs.length = pos + x.length := by
  have hl : (bs.drop pos).length = x.length := by rw [h]
  simp only [List.length_drop] at hl
  omega

/-! ### small facts about the serialisers -/

theorem mk4_FORM : mk4 "FORM" = [70, 79, 82, 77] := by decide
theorem mk4_AIFF : mk4 "AIFF" = [65, 73, 70, 70] := by decide
theorem mk4_AIFC : mk4 "AIFC" = [65, 73, 70, 67] := by decide
theorem mk4_COMM : mk4 "COMM" = [67, 79, 77, 77] := by decide
theorem mk4_SSND : mk4 "SSND" = [83, 83, 78, 68] := by decide
theorem mk4_PEAK : mk4 "PEAK" = [80, 69, 65, 75] := by decide
theorem mk4_FVER : mk4 "FVER" = [70, 86, 69, 82] := by decide

theorem be32_length (v : Int) : (be32 v).length = 4 := by simp [be32, beBytes4]
theorem be16_length (v : Int) : (be16 v).length = 2 := by simp [be16, beBytes2]

theorem wrapU_lt (bits : Nat) (x : Int) : wrapU bits x < 2 ^ bits := by
  unfold wrapU
  have hp : (0 : Int) < 2 ^ bits := Int.pow_pos (by decide)
  have h1 := Int.emod_lt_of_pos x hp
  have h2 := Int.emod_nonneg x (Int.ne_of_gt hp)
  have : ((x % 2 ^ bits).toNat : Int) < ((2 ^ bits : Nat) : Int) := by
    rw [Int.toNat_of_nonneg h2]; simpa using h1
  exact Int.ofNat_lt.mp this

theorem ofBE_be32 (v : Int) : ofBE (be32 v) = wrapU 32 v := by
  have h := wrapU_lt 32 v
  unfold be32
  generalize wrapU 32 v = w at h ⊢
  simp only [beBytes4, ofBE, List.reverse_cons, List.reverse_nil, List.nil_append, List.cons_append, ofLE]
  simp only [Nat.reducePow] at h ⊢
  omega

theorem ofBE_be16 (v : Int) : ofBE (be16 v) = wrapU 16 v := by
  have h := wrapU_lt 16 v
  unfold be16
  generalize wrapU 16 v = w at h ⊢
  simp only [beBytes2, ofBE, List.reverse_cons, List.reverse_nil, List.nil_append, List.cons_append, ofLE]
  simp only [Nat.reducePow] at h ⊢
  omega

theorem wrapU_nat (bits n : Nat) (h : n < 2 ^ bits) : wrapU bits (n : Int) = n := by
  unfold wrapU
  have : ((n : Int) % (2 ^ bits : Int)) = (n : Int) := by
    apply Int.emod_eq_of_lt (by omega)
    have : ((n : Nat) : Int) < ((2 ^ bits : Nat) : Int) := Int.ofNat_lt.mpr h
    simpa using this
  rw [this]; simp

end Sf.Aiff
