/-
  SfProofs.AiffRead — how `Sf.Aiff.step` acts on the chunk kinds the writer emits, stated against a cursor
  (`bs.drop pos = chunk ++ rest`), so that the same lemmas serve closed files and header-update snapshots.
-/
import SfModel.Aiff
import SfProofs.AiffRate
namespace Sf.Aiff

/-! ### cursor lemmas -/

theorem rdN_of_drop {bs : List Byte} {pos : Nat} {x rest : List Byte} (h : bs.drop pos = x ++ rest) (hx : 0 < x.length) :
    rdN bs pos x.length = (x, pos + x.length) := by
  have hl : (bs.drop pos).length = x.length + rest.length := by rw [h]; simp
  simp only [List.length_drop] at hl
  have hle : pos + x.length ≤ bs.length := by omega
  unfold rdN
  simp only [hle, if_true, h, List.take_left']

theorem rdN_snd_of_drop {bs : List Byte} {pos n : Nat} {x rest : List Byte} (h : bs.drop pos = x ++ rest) (hn : x.length = n) :
    (rdN bs pos n).2 = pos + n := by
  subst hn
  have hl : (bs.drop pos).length = x.length + rest.length := by rw [h]; simp
  simp only [List.length_drop] at hl
  by_cases hle : pos + x.length ≤ bs.length
  · simp [rdN, hle]
  · have : x.length = 0 := by omega
    have hp : ¬ pos < bs.length := by omega
    simp [rdN, hle, this, hp]

theorem drop_step {bs : List Byte} {pos : Nat} {x rest : List Byte} (h : bs.drop pos = x ++ rest) :
    bs.drop (pos + x.length) = rest := by
  rw [← List.drop_drop, h, List.drop_left]

theorem len_of_drop {bs : List Byte} {pos : Nat} {x : List Byte} (h : bs.drop pos = x) (hx : 0 < x.length) :
    bs.length = pos + x.length := by
  have hl : (bs.drop pos).length = x.length := by rw [h]
  simp only [List.length_drop] at hl
  omega

/-! ### small facts about the serialisers -/

theorem mk4_FORM : mk4 "FORM" = [70, 79, 82, 77] := by decide
theorem mk4_AIFF : mk4 "AIFF" = [65, 73, 70, 70] := by decide
theorem mk4_AIFC : mk4 "AIFC" = [65, 73, 70, 67] := by decide
theorem mk4_COMM : mk4 "COMM" = [67, 79, 77, 77] := by decide
theorem mk4_SSND : mk4 "SSND" = [83, 83, 78, 68] := by decide
theorem mk4_PEAK : mk4 "PEAK" = [80, 69, 65, 75] := by decide
theorem mk4_FVER : mk4 "FVER" = [70, 86, 69, 82] := by decide

theorem be32_length (v : Int) : (be32 v).length = 4 := by simp [be32, beBytes4]
theorem be16_length (v : Int) : (be16 v).length = 2 := by simp [be16, beBytes2]

theorem wrapU_lt (bits : Nat) (x : Int) : wrapU bits x < 2 ^ bits := by
  unfold wrapU
  have hp : (0 : Int) < 2 ^ bits := Int.pow_pos (by decide)
  have h1 := Int.emod_lt_of_pos x hp
  have h2 := Int.emod_nonneg x (Int.ne_of_gt hp)
  have : ((x % 2 ^ bits).toNat : Int) < ((2 ^ bits : Nat) : Int) := by
    rw [Int.toNat_of_nonneg h2]; simpa using h1
  exact Int.ofNat_lt.mp this

theorem ofBE_be32 (v : Int) : ofBE (be32 v) = wrapU 32 v := by
  have h := wrapU_lt 32 v
  unfold be32
  generalize wrapU 32 v = w at h ⊢
  simp only [beBytes4, ofBE, List.reverse_cons, List.reverse_nil, List.nil_append, List.cons_append, ofLE]
  simp only [Nat.reducePow] at h ⊢
  omega

theorem ofBE_be16 (v : Int) : ofBE (be16 v) = wrapU 16 v := by
  have h := wrapU_lt 16 v
  unfold be16
  generalize wrapU 16 v = w at h ⊢
  simp only [beBytes2, ofBE, List.reverse_cons, List.reverse_nil, List.nil_append, List.cons_append, ofLE]
  simp only [Nat.reducePow] at h ⊢
  omega

theorem wrapU_nat (bits n : Nat) (h : n < 2 ^ bits) : wrapU bits (n : Int) = n := by
  unfold wrapU
  have : ((n : Int) % (2 ^ bits : Int)) = (n : Int) := by
    apply Int.emod_eq_of_lt (by omega)
    have : ((n : Nat) : Int) < ((2 ^ bits : Nat) : Int) := Int.ofNat_lt.mpr h
    simpa using this
  rw [this]; simp

end Sf.Aiff

namespace Sf.Aiff

theorem rdN_at {bs : List Byte} {p n : Nat} {x rest : List Byte} (hd : bs.drop p = x ++ rest) (hx : x.length = n) (hn : 0 < n) :
    rdN bs p n = (x, p + n) := by
  subst hx; exact rdN_of_drop hd hn

theorem drop_at {bs : List Byte} {p n : Nat} {x rest : List Byte} (hd : bs.drop p = x ++ rest) (hx : x.length = n) :
    bs.drop (p + n) = rest := by
  subst hx; exact drop_step hd

theorem mk4_length_SSND : (mk4 "SSND").length = 4 := by decide
theorem mk4_length_COMM : (mk4 "COMM").length = 4 := by decide
theorem mk4_length_PEAK : (mk4 "PEAK").length = 4 := by decide
theorem mk4_length_FVER : (mk4 "FVER").length = 4 := by decide

/-! ### the chunk kinds of a written file -/

theorem ssndCalc_exact (p B T : Nat) :
    ssndCalc ((p + B + T : Nat) : Int) ((B + 8 : Nat) : Int) (p : Int) 0 0 =
      ((p : Int), (B : Int), if T > 0 then ((p + B : Nat) : Int) else 0) := by
  unfold ssndCalc
  have c1 : ¬ ((((B + 8 : Nat) : Int) - 8 > ((p + B + T : Nat) : Int) - (p : Int)) ∨ ((B + 8 : Nat) : Int) - 8 < 0) := by omega
  simp only [c1, if_false]
  by_cases hT : T > 0
  · have c2 : (((B + 8 : Nat) : Int) - 8 - 0 + ((p : Int) + 0) < ((p + B + T : Nat) : Int)) := by omega
    simp only [c2, hT, if_true]
    refine Prod.ext ?_ (Prod.ext ?_ ?_) <;> simp <;> omega
  · have c2 : ¬ (((B + 8 : Nat) : Int) - 8 - 0 + ((p : Int) + 0) < ((p + B + T : Nat) : Int)) := by omega
    simp only [c2, hT, if_false]
    refine Prod.ext ?_ (Prod.ext ?_ rfl) <;> simp <;> omega

/-- what `fin` does with a `.cont` -/
def finOf (flen : Nat) (s' : Sc) : Step :=
  if s'.csize ≥ flen then .stop s' else if (s'.pos : Int) ≥ (flen : Int) - 8 then .stop s' else .cont s'

theorem step_ssnd (bs : List Byte) (s : Sc) (B : Nat) (body tl : List Byte)
    (hd : bs.drop s.pos = mk4 "SSND" ++ (be32 ((B : Int) + 8) ++ (be32 0 ++ (be32 0 ++ (body ++ tl)))))
    (hB : body.length = B) (htl : tl.length ≤ 8) (hB32 : B + 8 < 2 ^ 32) (hc : s.csize % 2 = 0) (hu : s.used ≤ cacheLimit) (he : s.dataend = 0) :
    bs.length = s.pos + 16 + B + tl.length ∧
    step bs s = .stop { s with pos := s.pos + 16 + B, used := s.used + 8 + 8, csize := B + 8, dataoffset := ((s.pos + 16 : Nat) : Int),
                               datalength := (B : Int), dataend := if tl.length > 0 then ((s.pos + 16 + B : Nat) : Int) else 0 } := by
  have r1 := rdN_at hd mk4_length_SSND (by decide)
  have d1 := drop_at hd mk4_length_SSND
  have r2 := rdN_at d1 (be32_length _) (by decide)
  have d2 := drop_at d1 (be32_length _)
  have r3 := rdN_at d2 (be32_length _) (by decide)
  have d3 := drop_at d2 (be32_length _)
  have r4 := rdN_at d3 (be32_length _) (by decide)
  have hlen : bs.length = s.pos + 16 + B + tl.length := by
    have hl3 : (bs.drop (s.pos + 4 + 4 + 4)).length = 4 + (B + tl.length) := by rw [d3]; simp [be32_length, hB]
    simp only [List.length_drop] at hl3
    omega
  refine ⟨hlen, ?_⟩
  have hsz : ofBE (be32 ((B : Int) + 8)) = B + 8 := by
    rw [ofBE_be32]
    have : ((B : Int) + 8) = ((B + 8 : Nat) : Int) := by omega
    rw [this, wrapU_nat _ _ hB32]
  have hoff : ofBE (be32 0) = 0 := by decide
  have hu' : ¬ s.used > cacheLimit := by omega
  have hm0 : ¬ mk4 "SSND" = [0, 0, 0, 0] := by decide
  have hm1 : ¬ mk4 "SSND" = mk4 "FORM" := by decide
  have hm2 : ¬ mk4 "SSND" = mk4 "COMM" := by decide
  have hm3 : ¬ mk4 "SSND" = mk4 "PEAK" := by decide
  have hcalc := ssndCalc_exact (s.pos + 16) B tl.length
  have hp16 : s.pos + 4 + 4 + 4 + 4 = s.pos + 16 := by omega
  unfold step
  simp only [hu', if_false, hc, Nat.add_zero, r1, r2, hm0, hm1, hm2, hm3, if_true, hsz]
  unfold readSsnd
  simp only [r3, r4, hoff, hlen, he, hp16, Int.natCast_zero]
  rw [hcalc]
  have k1 : ¬ (B + 8 ≥ s.pos + 16 + B + tl.length) := by omega
  have k2 : ((((s.pos + 16 : Nat) : Int) + (B : Int)).toNat : Int) ≥ ((s.pos + 16 + B + tl.length : Nat) : Int) - 8 := by omega
  simp only [k1, k2, if_false, if_true]
  have ht : (((s.pos + 16 : Nat) : Int) + (B : Int)).toNat = s.pos + 16 + B := by omega
  rw [ht]

end Sf.Aiff

namespace Sf.Aiff

/-- FVER (the chunk every AIFF-C header starts with) -/
theorem step_fver (bs : List Byte) (s : Sc) (rest : List Byte)
    (hd : bs.drop s.pos = mk4 "FVER" ++ (be32 4 ++ (be32 0xA2805140 ++ rest)))
    (hlen : s.pos + 12 + 8 < bs.length) (hc : s.csize % 2 = 0) (hu : s.used ≤ cacheLimit) :
    step bs s = .cont { s with pos := s.pos + 4 + 4 + 4, used := s.used + 8 + 4, csize := 4 } := by
  have r1 := rdN_at hd mk4_length_FVER (by decide)
  have d1 := drop_at hd mk4_length_FVER
  have r2 := rdN_at d1 (be32_length _) (by decide)
  have hsz : ofBE (be32 4) = 4 := by decide
  have hu' : ¬ s.used > cacheLimit := by omega
  have hm0 : ¬ mk4 "FVER" = [0, 0, 0, 0] := by decide
  have hm1 : ¬ mk4 "FVER" = mk4 "FORM" := by decide
  have hm2 : ¬ mk4 "FVER" = mk4 "COMM" := by decide
  have hm3 : ¬ mk4 "FVER" = mk4 "PEAK" := by decide
  have hm4 : ¬ mk4 "FVER" = mk4 "SSND" := by decide
  unfold step
  simp only [hu', if_false, hc, Nat.add_zero, r1, r2, hm0, hm1, hm2, hm3, hm4, if_true, hsz, true_or]
  have k0 : ¬ (4 ≥ 2 ^ 31) := by decide
  have k1 : ¬ (4 ≥ bs.length) := by omega
  have k2 : ¬ (((s.pos + 4 + 4 + 4 : Nat) : Int) ≥ (bs.length : Int) - 8) := by omega
  simp only [k0, k1, k2, if_false]

/-- PEAK: `body` is the 8 + 8·ch bytes after the size word -/
theorem step_peak (bs : List Byte) (s : Sc) (body rest : List Byte)
    (hd : bs.drop s.pos = mk4 "PEAK" ++ (be32 ((8 + 8 * s.ch : Nat) : Int) ++ (body ++ rest)))
    (hb : body.length = 8 + 8 * s.ch) (hch : s.ch ≤ 1024) (hcomm : s.haveComm = true)
    (hlen : s.pos + 8 + (8 + 8 * s.ch) + 8 < bs.length) (hc : s.csize % 2 = 0) (hu : s.used ≤ cacheLimit) :
    step bs s = .cont { s with pos := s.pos + 4 + 4 + (8 + 8 * s.ch), used := s.used + 8 + (8 + 8 * s.ch), csize := 8 + 8 * s.ch } := by
  have r1 := rdN_at hd mk4_length_PEAK (by decide)
  have d1 := drop_at hd mk4_length_PEAK
  have r2 := rdN_at d1 (be32_length _) (by decide)
  have d2 := drop_at d1 (be32_length _)
  have r3 := rdN_at d2 hb (by omega)
  have hsz : ofBE (be32 ((8 + 8 * s.ch : Nat) : Int)) = 8 + 8 * s.ch := by
    rw [ofBE_be32, wrapU_nat _ _ (by omega)]
  have hu' : ¬ s.used > cacheLimit := by omega
  have hm0 : ¬ mk4 "PEAK" = [0, 0, 0, 0] := by decide
  have hm1 : ¬ mk4 "PEAK" = mk4 "FORM" := by decide
  have hm2 : ¬ mk4 "PEAK" = mk4 "COMM" := by decide
  unfold step
  simp only [hu', if_false, hc, Nat.add_zero, r1, r2, r3, hm0, hm1, hm2, if_true, hsz, hcomm, Bool.not_true, ne_eq, not_true_eq_false]
  have k1 : ¬ (8 + 8 * s.ch ≥ bs.length) := by omega
  have k2 : ¬ (((s.pos + 4 + 4 + (8 + 8 * s.ch) : Nat) : Int) ≥ (bs.length : Int) - 8) := by omega
  simp only [k1, k2, if_false, Bool.false_eq_true]

end Sf.Aiff

namespace Sf.Aiff

theorem sext16_small (n : Nat) (h : n < 2 ^ 15) : sext 16 (wrapU 16 (n : Int)) = n := by
  rw [wrapU_nat 16 n (by omega)]
  unfold sext
  have : n < 2 ^ (16 - 1) := h
  simp [this]

/-- the COMM chunk of a plain AIFF header (18 bytes) -/
theorem step_comm18 (bs : List Byte) (s : Sc) (ch bits : Nat) (frames : Int) (ten rest : List Byte) (w : Nat) (ss : Int)
    (hd : bs.drop s.pos = mk4 "COMM" ++ (be32 18 ++ (be16 ch ++ (be32 frames ++ (be16 bits ++ (ten ++ rest))))))
    (hten : ten.length = 10) (hch : 1 ≤ ch ∧ ch ≤ 1024) (hbits : bits < 2 ^ 15)
    (hf : commFmt (mk4 "NONE") bits = (some (some w), ss))
    (hlen : s.pos + 26 + 8 < bs.length) (hc : s.csize % 2 = 0) (hu : s.used ≤ cacheLimit) :
    step bs s = .cont { s with pos := s.pos + 4 + 4 + 2 + 4 + 2 + 10, used := s.used + 8 + 18 + 0, csize := 18, haveComm := true,
                               ch := ch, sr := ten2int ten, fmt := w, sampleSize := ss } := by
  have r1 := rdN_at hd mk4_length_COMM (by decide)
  have d1 := drop_at hd mk4_length_COMM
  have r2 := rdN_at d1 (be32_length _) (by decide)
  have d2 := drop_at d1 (be32_length _)
  have r3 := rdN_at d2 (be16_length _) (by decide)
  have d3 := drop_at d2 (be16_length _)
  have r4 := rdN_at d3 (be32_length _) (by decide)
  have d4 := drop_at d3 (be32_length _)
  have r5 := rdN_at d4 (be16_length _) (by decide)
  have d5 := drop_at d4 (be16_length _)
  have r6 := rdN_at d5 hten (by decide)
  have hsz : ofBE (be32 18) = 18 := by decide
  have hnc : sext 16 (ofBE (be16 (ch : Int))) = (ch : Int) := by rw [ofBE_be16]; exact sext16_small ch (by omega)
  have hss : sext 16 (ofBE (be16 (bits : Int))) = (bits : Int) := by rw [ofBE_be16]; exact sext16_small bits hbits
  have hu' : ¬ s.used > cacheLimit := by omega
  have hm0 : ¬ mk4 "COMM" = [0, 0, 0, 0] := by decide
  have hm1 : ¬ mk4 "COMM" = mk4 "FORM" := by decide
  unfold step
  simp only [hu', if_false, hc, Nat.add_zero, r1, r2, hm0, hm1, if_true, hsz]
  unfold readComm
  simp only [r3, r4, r5, r6, hnc, hss]
  have e0 : (18 + 18 % 2 : Nat) = 18 := by decide
  have e1 : ¬ ((18 : Nat) > 0x10000 ∧ 18 % 0x10000 = 0) := by decide
  have e3 : ¬ ((ch : Int) < 1 ∨ (ch : Int) > 1024) := by omega
  simp only [e0, e1, if_false, if_true, e3, hf, Int.toNat_natCast]
  have k1 : ¬ (18 ≥ bs.length) := by omega
  have k2 : ¬ (((s.pos + 4 + 4 + 2 + 4 + 2 + 10 : Nat) : Int) ≥ (bs.length : Int) - 8) := by omega
  simp only [k1, k2, if_false]

/-- the COMM chunk of an AIFF-C header (24 bytes: compression type and an empty Pascal string) -/
theorem step_comm24 (bs : List Byte) (s : Sc) (ch bits : Nat) (frames : Int) (ten enc rest : List Byte) (w : Nat) (ss : Int)
    (hd : bs.drop s.pos = mk4 "COMM" ++ (be32 24 ++ (be16 ch ++ (be32 frames ++ (be16 bits ++ (ten ++ (enc ++ ([0] ++ ([0] ++ rest)))))))))
    (hten : ten.length = 10) (henc : enc.length = 4) (hch : 1 ≤ ch ∧ ch ≤ 1024) (hbits : bits < 2 ^ 15)
    (hf : commFmt enc bits = (some (some w), ss))
    (hlen : s.pos + 32 + 8 < bs.length) (hc : s.csize % 2 = 0) (hu : s.used ≤ cacheLimit) :
    step bs s = .cont { s with pos := s.pos + 4 + 4 + 2 + 4 + 2 + 10 + 4 + 1 + 1, used := s.used + 8 + 18 + (5 + 1), csize := 24, haveComm := true,
                               ch := ch, sr := ten2int ten, fmt := w, sampleSize := ss } := by
  have r1 := rdN_at hd mk4_length_COMM (by decide)
  have d1 := drop_at hd mk4_length_COMM
  have r2 := rdN_at d1 (be32_length _) (by decide)
  have d2 := drop_at d1 (be32_length _)
  have r3 := rdN_at d2 (be16_length _) (by decide)
  have d3 := drop_at d2 (be16_length _)
  have r4 := rdN_at d3 (be32_length _) (by decide)
  have d4 := drop_at d3 (be32_length _)
  have r5 := rdN_at d4 (be16_length _) (by decide)
  have d5 := drop_at d4 (be16_length _)
  have r6 := rdN_at d5 hten (by decide)
  have d6 := drop_at d5 hten
  have r7 := rdN_at d6 henc (by decide)
  have d7 := drop_at d6 henc
  have r8 := rdN_at (x := [0]) (n := 1) d7 rfl (by decide)
  have d8 := drop_at (x := [0]) (n := 1) d7 rfl
  have r9 := rdN_at (x := [0]) (n := 1) d8 rfl (by decide)
  have hsz : ofBE (be32 24) = 24 := by decide
  have hnc : sext 16 (ofBE (be16 (ch : Int))) = (ch : Int) := by rw [ofBE_be16]; exact sext16_small ch (by omega)
  have hss : sext 16 (ofBE (be16 (bits : Int))) = (bits : Int) := by rw [ofBE_be16]; exact sext16_small bits hbits
  have hu' : ¬ s.used > cacheLimit := by omega
  have hm0 : ¬ mk4 "COMM" = [0, 0, 0, 0] := by decide
  have hm1 : ¬ mk4 "COMM" = mk4 "FORM" := by decide
  unfold step
  simp only [hu', if_false, hc, Nat.add_zero, r1, r2, hm0, hm1, if_true, hsz]
  unfold readComm
  simp only [r3, r4, r5, r6, hnc, hss]
  have e0 : (24 + 24 % 2 : Nat) = 24 := by decide
  have e1 : ¬ ((24 : Nat) > 0x10000 ∧ 24 % 0x10000 = 0) := by decide
  have e2 : ¬ ((24 : Nat) = 18) := by decide
  have e2b : ¬ ((24 : Nat) = 22) := by decide
  have e2c : (24 : Nat) ≥ 24 := by decide
  have e2d : ¬ ((24 : Nat) > 8192) := by decide
  have e2e : (24 - 24 + 1 : Nat) = 1 := by decide
  have e3 : ¬ ((ch : Int) < 1 ∨ (ch : Int) > 1024) := by omega
  simp only [e0, e1, e2, e2b, e2c, e2d, e2e, if_false, if_true, r7, r8, r9, e3, hf, Int.toNat_natCast]
  have k1 : ¬ (24 ≥ bs.length) := by omega
  have k2 : ¬ (((s.pos + 4 + 4 + 2 + 4 + 2 + 10 + 4 + 1 + 1 : Nat) : Int) ≥ (bs.length : Int) - 8) := by omega
  simp only [k1, k2, if_false]

end Sf.Aiff
