/-
  SfProofs.AbsMeaning — what an ACCEPTED line means: for each checker of SfModel/Abs.lean, `… = .ok st'` implies the
  clauses of the statement in mathematical form, whatever produced the line.
-/
import SfProofs.AbsSeq
namespace Sf.Abs

/-- the wrappers look at the request (`validReq`) and at the mode -/
def ReadReq (g : Geom) (st : St) (fc : Bool) (n : Int) : Prop := validReq g fc n = true ∧ st.mode ≠ .w
def WriteReq (g : Geom) (st : St) (fc : Bool) (n : Int) : Prop := validReq g fc n = true ∧ st.mode ≠ .r

theorem validReq_pos {g : Geom} {fc : Bool} {n : Int} (h : validReq g fc n = true) : 0 < n := by
  unfold validReq at h; simp at h; omega

/-! ## read -/

/-- an accepted answer to a valid read request -/
theorem readOk_valid (g : Geom) (st : St) (ty : Ty) (fc : Bool) (n : Int) (o : Out) (st' : St)
    (hr : ReadReq g st fc n) (h : readOk g st ty fc n o = .ok st') :
    0 ≤ o.ret ∧ o.ret ≤ n ∧ retItems g fc o.ret % g.ch = 0 ∧ o.data.size = reqItems g fc n * cells ty ∧ o.err = false ∧
    (st.frames ≤ st.rpos → o.ret = 0 ∧ allOf o.data 0 0 0 (reqItems g fc n * cells ty) = true ∧ st' = { st with err := false }) ∧
    (st.rpos < st.frames →
      st' = { st with rpos := st.rpos + retItems g fc o.ret / g.ch, err := false } ∧
      st.rpos + retItems g fc o.ret / g.ch ≤ st.frames ∧
      (st.valid ty = true → sliceEq o.data 0 (st.ref ty) (st.rpos * g.cpf ty) (retItems g fc o.ret * cells ty) = true) ∧
      (o.ret < n → st.rpos + retItems g fc o.ret / g.ch = st.frames)) := by
  obtain ⟨hv, hm⟩ := hr
  have hn0 : ¬ n = 0 := by have := validReq_pos hv; omega
  unfold readOk at h
  simp only [hn0, if_false, hv, hm, Bool.not_true, Bool.false_or, decide_false, Bool.false_eq_true] at h
  repeat' split at h
  all_goals first | (exact Res.noConfusion h) | skip
  · rename_i h1 h2 h3 h4 h5 h6
    injection h with h
    refine ⟨by omega, by omega, by omega, by omega, ?_, ?_, fun hlt => by omega⟩
    · cases he : o.err <;> simp_all
    · intro _
      refine ⟨by omega, ?_, h.symm⟩
      simpa using h6
  · rename_i h1 h2 h3 h4 h5 h6 h7 h8 h9
    injection h with h
    refine ⟨by omega, by omega, by omega, by omega, ?_, fun hle => by omega, fun _ => ⟨h.symm, by omega, ?_, ?_⟩⟩
    · cases he : o.err <;> simp_all
    · intro hval
      rw [hval] at h6
      simpa using h6
    · intro hlt
      by_cases hx : st.rpos + retItems g fc o.ret / g.ch = st.frames
      · exact hx
      · exact absurd ⟨hlt, hx⟩ h7

/-- an accepted answer to an invalid read request (negative or misaligned count, write-only handle): 0, an error, and
    nothing but the error flag changes -/
theorem readOk_invalid (g : Geom) (st : St) (ty : Ty) (fc : Bool) (n : Int) (o : Out) (st' : St)
    (hn : n ≠ 0) (hr : ¬ ReadReq g st fc n) (h : readOk g st ty fc n o = .ok st') :
    o.ret = 0 ∧ o.err = true ∧ st' = { st with err := true } := by
  unfold ReadReq at hr
  unfold readOk at h
  have hc : (!validReq g fc n || decide (st.mode = .w)) = true := by
    cases hv : validReq g fc n
    · simp
    · simp only [hv, true_and, ne_eq, Decidable.not_not] at hr; simp [hr]
  simp only [hn, if_false, hc, if_true] at h
  split at h
  · rename_i h1; injection h with h; exact ⟨h1.1, h1.2, h.symm⟩
  · exact Res.noConfusion h

/-- a zero-length read: 0, nothing changes -/
theorem readOk_zero (g : Geom) (st : St) (ty : Ty) (fc : Bool) (o : Out) (st' : St)
    (h : readOk g st ty fc 0 o = .ok st') : o.ret = 0 ∧ st' = st := by
  unfold readOk at h
  simp only [if_true] at h
  split at h
  · rename_i h1; injection h with h; exact ⟨h1, h.symm⟩
  · exact Res.noConfusion h

/-! ## seek -/

theorem seekTarget_some (st : St) (off whence : Int) (t : Nat) (h : seekTarget st off whence = some t) :
    ∃ b, seekBase st whence = some b ∧ (t : Int) = (b : Int) + off ∧ (st.mode = .r → t ≤ st.frames) ∧
      ¬ (seekQual whence = 0x20 ∧ st.mode = .r) ∧ ¬ (seekQual whence = 0x10 ∧ st.mode = .w) := by
  unfold seekTarget at h
  split at h
  · exact absurd h (by simp)
  · rename_i b hb
    simp only at h
    split at h
    · exact absurd h (by simp)
    · split at h
      · exact absurd h (by simp)
      · split at h
        · exact absurd h (by simp)
        · rename_i h1 h2 h3
          injection h with h
          refine ⟨b, hb, by omega, fun hm => ?_, fun hx => h1 (Or.inl hx), fun hx => h1 (Or.inr hx)⟩
          have : ¬ (st.frames : Int) < (b : Int) + off := fun hx => h3 ⟨hm, hx⟩
          omega

/-- C06 `seek_result`: an accepted seek line is either a refusal — −1, an error set, no position changes — or reports
    exactly the requested absolute frame `base + offset`, with no error, and moves the pointer(s) the whence value names -/
theorem seekOk_ok (g : Geom) (st : St) (off whence : Int) (o : Out) (st' : St) (h : seekOk g st off whence o = .ok st') :
    (o.ret = -1 ∧ o.err = true ∧ st' = { st with err := true }) ∨
    (∃ t : Nat, g.seekable = true ∧ seekTarget st off whence = some t ∧ o.ret = (t : Int) ∧ o.err = false ∧
      st' = seekMove st whence t) := by
  unfold seekOk at h
  simp only at h
  split at h
  · rename_i hm1
    split at h
    · exact Res.noConfusion h
    · rename_i he
      have he' : o.err = true := by cases hx : o.err <;> simp_all
      split at h
      · split at h
        · exact Res.noConfusion h
        · split at h
          · exact Res.noConfusion h
          · injection h with h; exact Or.inl ⟨hm1, he', h.symm⟩
      · injection h with h; exact Or.inl ⟨hm1, he', h.symm⟩
  · split at h
    · exact Res.noConfusion h
    · rename_i t ht
      split at h
      · exact Res.noConfusion h
      · split at h
        · exact Res.noConfusion h
        · rename_i h1 h2
          injection h with h
          have hs : g.seekable = true := by
            cases hx : g.seekable
            · simp [hx] at ht
            · rfl
          simp only [hs, if_true] at ht
          refine Or.inr ⟨t, hs, ht, by omega, ?_, h.symm⟩
          cases hx : o.err <;> simp_all

theorem seekMove_rd (st : St) (whence : Int) (t : Nat) (h : seekQual whence = 0x10) :
    seekMove st whence t = { st with rpos := t, err := false } := by
  unfold seekMove seekPtr; simp [h]

theorem seekMove_wr (st : St) (whence : Int) (t : Nat) (h : seekQual whence = 0x20) :
    seekMove st whence t = { st with wpos := t, err := false } := by
  unfold seekMove seekPtr; simp [h]

theorem seekMove_plain_rw (st : St) (whence : Int) (t : Nat) (h : seekQual whence = 0) (hm : st.mode = .rw) :
    seekMove st whence t = { st with rpos := t, wpos := t, err := false } := by
  unfold seekMove seekPtr; simp [h, hm]

theorem seekMove_plain_r (st : St) (whence : Int) (t : Nat) (h : seekQual whence = 0) (hm : st.mode = .r) :
    seekMove st whence t = { st with rpos := t, err := false } := by
  unfold seekMove seekPtr; simp [h, hm]

theorem seekMove_frames (st : St) (whence : Int) (t : Nat) :
    (seekMove st whence t).frames = st.frames ∧ (seekMove st whence t).mode = st.mode ∧
    (seekMove st whence t).ref = st.ref ∧ (seekMove st whence t).valid = st.valid := by
  unfold seekMove
  split
  · exact ⟨rfl, rfl, rfl, rfl⟩
  · split <;> exact ⟨rfl, rfl, rfl, rfl⟩

/-- in read mode every accepted move sets the read position -/
theorem seekMove_rpos_r (st : St) (off whence : Int) (t : Nat) (hm : st.mode = .r) (ht : seekTarget st off whence = some t) :
    (seekMove st whence t).rpos = t := by
  obtain ⟨b, hb, _, _, hq, _⟩ := seekTarget_some st off whence t ht
  have hq' : seekQual whence ≠ 0x20 := fun hx => hq ⟨hx, hm⟩
  unfold seekMove seekPtr
  by_cases h0 : seekQual whence = 0
  · simp [h0, hm]
  · simp only [h0, if_false]
    split
    · rfl
    · simp

end Sf.Abs
