/- Finite tables: a linear-time, kernel-friendly check that a list is the table of a function. -/
namespace Sf

/-- `tabIs f n i l` : `l` is `[f i, f (i+1), …, f (n-1)]` -/
def tabIs [DecidableEq α] (f : Nat → α) (n : Nat) : Nat → List α → Bool
  | i, [] => i == n
  | i, x :: xs => decide (x = f i) && tabIs f n (i + 1) xs

theorem tabIs_range' [DecidableEq α] (f : Nat → α) (n : Nat) :
    ∀ (l : List α) (i : Nat), tabIs f n i l = true → l = (List.range' i (n - i)).map f ∧ i ≤ n := by
  intro l
  induction l with
  | nil =>
    intro i h
    simp [tabIs] at h
    subst h; simp
  | cons x xs ih =>
    intro i h
    simp [tabIs] at h
    obtain ⟨hx, hr⟩ := h
    obtain ⟨hxs, hle⟩ := ih (i + 1) hr
    have : n - i = (n - (i + 1)) + 1 := by omega
    refine ⟨?_, by omega⟩
    rw [this, List.range'_succ, List.map_cons, ← hxs, hx]

theorem tabIs_spec [DecidableEq α] (f : Nat → α) (n : Nat) (l : List α) (h : tabIs f n 0 l = true) :
    l = (List.range n).map f := by
  have := (tabIs_range' f n l 0 h).1
  simpa [List.range_eq_range'] using this

end Sf
