/-
  SD2: the resource-fork parser EVALUATED on the fork the writer makes (helpers of SfProps/C04Sd2All.lean).
  `Prog.eval g p` = the answer of the read program `p` over the bytes `g` (`run_fst`: the first component of `Prog.run`);
  `eval_bind` lets a proof step over a read whose result is not used without computing it.  The `eval_rd…` lemmas give
  what read_rsrc_char / _short / _int / _marker / _str deliver when their guard lets the offset through; `G c` is the
  byte function of `rsrc c`, located piecewise (`G_head`, `G_data` + `data_entries`, `G_map` + `map_bytes` / `map_rel`);
  `strLoopK_step` / `strLoopK_end` are one iteration of the string loop of parse_str_rsrc in terms of what its reads deliver.
-/
import SfModel.Sd2
import SfProofs.Sd2Fuel
import SfProofs.PvfImage
import SfProofs.AiffRate
namespace Sf.Sd2
open Sf Sf.Small2
open Sf.Pvf (digits scanInt isDigit)

namespace Prog
def eval (g : Nat → Byte) : Prog α → α
  | .pure a => a
  | .read i k => (k (g i)).eval g

theorem run_fst (g : Nat → Byte) : ∀ (p : Prog α), (p.run g).1 = p.eval g
  | .pure a => rfl
  | .read i k => by simp only [run, eval]; exact run_fst g (k (g i))

theorem eval_bind (g : Nat → Byte) (p : Prog α) (f : α → Prog β) : (p >>= f).eval g = (f (p.eval g)).eval g := by
  show (Prog.bind p f).eval g = _
  induction p with
  | pure a => rfl
  | read i k ih => simp only [Prog.bind, eval]; exact ih (g i)

theorem eval_pure (g : Nat → Byte) (a : α) : (pure a : Prog α).eval g = a := rfl
end Prog
open Prog

variable (g : Nat → Byte)

theorem eval_byteAt (n : Nat) : (byteAt (n : Int)).eval g = (g n : Int) := by
  simp [byteAt, Prog.eval]

theorem eval_rdChar (len off : Int) (n : Nat) (hn : off = n) (h : off < len) : (rdChar len off).eval g = (g n : Int) := by
  subst hn
  unfold rdChar
  rw [if_neg (by omega)]
  exact eval_byteAt g n

theorem eval_rdShort (len off : Int) (n : Nat) (hn : off = n) (h : off + 1 < len) :
    (rdShort len off).eval g = (g n : Int) * 256 + g (n + 1) := by
  subst hn
  unfold rdShort
  rw [if_neg (by omega)]
  have e1 : ((n : Int) + 1) = ((n + 1 : Nat) : Int) := by push_cast; rfl
  simp only [eval_bind, e1, eval_byteAt]
  exact Prog.eval_pure g _

theorem eval_rdInt (len off : Int) (n : Nat) (hn : off = n) (h : off + 3 < len) :
    (rdInt len off).eval g = wrapS 32 ((g n : Int) * 16777216 + g (n + 1) * 65536 + g (n + 2) * 256 + g (n + 3)) := by
  subst hn
  unfold rdInt
  rw [if_neg (by omega)]
  have e1 : ((n : Int) + 1) = ((n + 1 : Nat) : Int) := by push_cast; rfl
  have e2 : ((n : Int) + 2) = ((n + 2 : Nat) : Int) := by push_cast; rfl
  have e3 : ((n : Int) + 3) = ((n + 3 : Nat) : Int) := by push_cast; rfl
  simp only [eval_bind, e1, e2, e3, eval_byteAt]
  exact Prog.eval_pure g _

theorem eval_rdMarker (len off : Int) (n : Nat) (hn : off = n) (h : off + 3 < len) :
    (rdMarker len off).eval g = some [(g n : Int), g (n + 1), g (n + 2), g (n + 3)] := by
  subst hn
  unfold rdMarker
  rw [if_neg (by omega)]
  have e1 : ((n : Int) + 1) = ((n + 1 : Nat) : Int) := by push_cast; rfl
  have e2 : ((n : Int) + 2) = ((n + 2 : Nat) : Int) := by push_cast; rfl
  have e3 : ((n : Int) + 3) = ((n + 3 : Nat) : Int) := by push_cast; rfl
  simp only [eval_bind, e1, e2, e3, eval_byteAt]
  exact Prog.eval_pure g _

/-- the copy loop delivers a text of printable characters that lies at the offset -/
theorem eval_copyLoop : ∀ (t : List Byte) (n : Nat), (∀ u, u < t.length → g (n + u) = t.getD u 0) → (∀ b ∈ t, isPrint b = true) →
    (copyLoop t.length (n : Int)).eval g = t
  | [], _, _, _ => rfl
  | b :: t, n, hg, hp => by
    have h0 : g n = b := by simpa using hg 0 (by simp)
    have ih := eval_copyLoop t (n + 1) (fun u hu => by
      have := hg (u + 1) (by simp; omega)
      simpa [Nat.add_assoc, Nat.add_comm 1 u] using this) (fun x hx => hp x (List.mem_cons_of_mem _ hx))
    show (copyLoop (t.length + 1) (n : Int)).eval g = b :: t
    unfold copyLoop
    simp only [Prog.eval, Int.toNat_natCast, h0, hp b (List.mem_cons_self ..), if_true]
    have e1 : ((n : Int) + 1) = ((n + 1 : Nat) : Int) := by push_cast; rfl
    have := eval_bind g (copyLoop t.length ((n : Int) + 1)) (fun r => Prog.pure (b :: r))
    show ((copyLoop t.length ((n : Int) + 1)) >>= (fun r => Prog.pure (b :: r))).eval g = _
    rw [this, e1, ih]; rfl

theorem eval_rdStr (len off : Int) (n : Nat) (t : List Byte) (hn : off = n) (h : off + (t.length + 1) < len)
    (hg : ∀ u, u < t.length → g (n + u) = t.getD u 0) (hp : ∀ b ∈ t, isPrint b = true) (hl : t.length ≤ 31) :
    (rdStr len off (min 32 ((t.length : Int) + 1))).eval g = t := by
  subst hn
  unfold rdStr
  rw [if_neg (by omega)]
  have : (min 32 ((t.length : Int) + 1) - 1).toNat = t.length := by omega
  rw [this]
  exact eval_copyLoop g t n hg hp


theorem getD_mid (pre a post : List Byte) (u : Nat) (hu : u < a.length) :
    (pre ++ a ++ post).getD (pre.length + u) 0 = a.getD u 0 := by
  simp [List.getD_eq_getElem?_getD, List.getElem?_append_right, List.getElem?_append_left, hu]

theorem gap_length (f : Nat → Byte) (s n : Nat) : (gap f s n).length = n := by simp [gap]

theorem poke_length (buf : List Byte) (off : Nat) (bs : List Byte) (h : off + bs.length ≤ buf.length) :
    (poke buf off bs).length = buf.length := by
  simp [poke]; omega

theorem pascal_length_le (s : List Byte) (h : s.length ≤ 200) : (pascal s).length ≤ 202 := by
  unfold pascal
  simp only [List.length_cons, List.length_take, List.length_append, List.length_replicate]
  split <;> omega

theorem be32_len (v : Int) : (be32 v).length = 4 := by simp [be32, beBytes, Sf.leBytes]
theorem be16_len (v : Int) : (be16 v).length = 2 := by simp [be16, beBytes, Sf.leBytes]

theorem head_length (f : Nat → Byte) (c : Cfg) (h : c.name.length ≤ 200) : (head f c).length = 256 := by
  have hp := pascal_length_le c.name h
  unfold head
  dsimp only
  have l1 : (poke (gap f 0 256) 0x30 (pascal c.name)).length = 256 := by
    rw [poke_length _ _ _ (by rw [gap_length]; omega), gap_length]
  have e : ([0, 0] ++ asc "Sd2f" ++ asc "lsf1" ++ be32 (mapOff c : Int) ++ be32 256 ++ be32 (mapOff c : Int) ++ be32 (dataLen c : Int)).length = 26 := by
    simp [be32_len, asc]
  rw [poke_length, poke_length, l1]
  · rw [l1, e]; omega
  · rw [poke_length _ _ _ (by rw [l1, e]; omega), l1]; simp [be32_len, mapLen]

/-- the background of the fork the library writes -/
def bg : Nat → Byte := fill true (fun _ => 0)

theorem rsrc_eq (c : Cfg) : rsrc c = head bg c ++ dataRegion c ++ mapRegion bg c := rfl

theorem bg_zero (i : Nat) (h : 256 ≤ i) : bg i = 0 := by
  unfold bg fill
  rw [if_neg (by omega)]
  split <;> rfl

/-- the byte function of the fork -/
def G (c : Cfg) : Nat → Byte := fun i => (rsrc c).getD i 0

theorem entry_length (v : List Byte) : (entry v).length = v.length + 4 := by
  simp [entry, be32_len]; omega

theorem dataRegion_length (c : Cfg) : (dataRegion c).length = dataLen c := by
  simp [dataRegion, entry_length, pstr, dataLen, off3, off2, off1]
  omega

theorem mapRegion_length (f : Nat → Byte) (c : Cfg) : (mapRegion f c).length = 147 := by
  simp [mapRegion, item, gap_length, be32_len, be16_len, asc, strArea]

theorem rsrc_length (c : Cfg) (h : c.name.length ≤ 200) : (rsrc c).length = total c := by
  rw [rsrc_eq]
  simp [head_length _ c h, dataRegion_length, mapRegion_length, total, mapOff, mapLen]
  omega

theorem G_map (c : Cfg) (h : c.name.length ≤ 200) (u : Nat) (hu : u < 147) : G c (mapOff c + u) = (mapRegion bg c).getD u 0 := by
  unfold G
  rw [rsrc_eq]
  have := getD_mid (head bg c ++ dataRegion c) (mapRegion bg c) [] u (by rw [mapRegion_length]; exact hu)
  rw [List.append_nil, List.length_append, head_length _ c h, dataRegion_length] at this
  exact this



theorem be32_cons (x : Int) : be32 x = [wrapU 32 x / 2 ^ 24 % 256, wrapU 32 x / 2 ^ 16 % 256, wrapU 32 x / 2 ^ 8 % 256, wrapU 32 x % 256] := by
  simp [be32, Sf.Aiff.beBytes4]
theorem be16_cons (x : Int) : be16 x = [wrapU 16 x / 2 ^ 8 % 256, wrapU 16 x % 256] := by
  simp [be16, Sf.Aiff.beBytes2]



theorem getD_at (bs pre a post : List Byte) (hbs : bs = pre ++ a ++ post) (n : Nat) (hn : n = pre.length) (u : Nat) (hu : u < a.length) :
    bs.getD (n + u) 0 = a.getD u 0 := by
  subst hbs; subst hn; exact getD_mid pre a post u hu

/-- the bytes of the resource map the parser looks at (offsets relative to the map) -/
theorem map_bytes (f : Nat → Byte) (c : Cfg) :
    (mapRegion f c).getD 26 0 = 0 ∧ (mapRegion f c).getD 27 0 = 106 ∧ (mapRegion f c).getD 28 0 = 0 ∧ (mapRegion f c).getD 29 0 = 1 ∧
    (mapRegion f c).getD 30 0 = 0x53 ∧ (mapRegion f c).getD 31 0 = 0x54 ∧ (mapRegion f c).getD 32 0 = 0x52 ∧ (mapRegion f c).getD 33 0 = 0x20 ∧
    (mapRegion f c).getD 46 0 = 3 ∧ (mapRegion f c).getD 47 0 = 232 ∧
    (mapRegion f c).getD 58 0 = 3 ∧ (mapRegion f c).getD 59 0 = 233 ∧
    (mapRegion f c).getD 70 0 = 3 ∧ (mapRegion f c).getD 71 0 = 234 ∧
    (mapRegion f c).getD 82 0 = 3 ∧ (mapRegion f c).getD 83 0 = 232 ∧
    (mapRegion f c).getD 94 0 = f (mapOff c + 94) ∧ (mapRegion f c).getD 95 0 = f (mapOff c + 95) ∧
    (mapRegion f c).getD 98 0 = f (mapOff c + 98) ∧ (mapRegion f c).getD 99 0 = f (mapOff c + 99) ∧
    (mapRegion f c).getD 100 0 = f (mapOff c + 100) ∧ (mapRegion f c).getD 101 0 = f (mapOff c + 101) ∧
    (mapRegion f c).getD 106 0 = 13 ∧ (mapRegion f c).getD 107 0 = 11 ∧
    (mapRegion f c).getD 110 0 = 109 ∧ (mapRegion f c).getD 111 0 = 112 ∧ (mapRegion f c).getD 112 0 = 108 ∧ (mapRegion f c).getD 113 0 = 101 := by
  simp [mapRegion, item, gap, be16_cons, mapLen, asc, strArea, List.range, List.range.loop, wrapU]

theorem map_rel (f : Nat → Byte) (c : Cfg) (u : Nat) (hu : u < 4) :
    (mapRegion f c).getD (50 + u) 0 = (be32 (off0 c : Int)).getD u 0 ∧ (mapRegion f c).getD (62 + u) 0 = (be32 (off1 c : Int)).getD u 0 ∧
    (mapRegion f c).getD (74 + u) 0 = (be32 (off2 c : Int)).getD u 0 ∧ (mapRegion f c).getD (86 + u) 0 = (be32 (off3 c : Int)).getD u 0 := by
  have : u = 0 ∨ u = 1 ∨ u = 2 ∨ u = 3 := by omega
  rcases this with rfl | rfl | rfl | rfl <;>
    simp [mapRegion, item, gap, be16_cons, be32_cons, mapLen, asc, strArea, List.range, List.range.loop, wrapU]

theorem be32_lit (v : Nat) (h : v < 4294967296) : be32 (v : Int) = [v / 16777216 % 256, v / 65536 % 256, v / 256 % 256, v % 256] := by
  have : wrapU 32 (v : Int) = v := by
    unfold wrapU
    have e : (2 : Int) ^ 32 = 4294967296 := by decide
    rw [e]; omega
  rw [be32_cons, this]

theorem wrapS32_be (v : Nat) (hv : v < 2147483648) :
    wrapS 32 (((v / 16777216 % 256 : Nat) : Int) * 16777216 + ((v / 65536 % 256 : Nat) : Int) * 65536 + ((v / 256 % 256 : Nat) : Int) * 256 + ((v % 256 : Nat) : Int)) = v := by
  unfold wrapS
  have e : (2 : Int) ^ 32 = 4294967296 := by decide
  simp only [e]
  split <;> omega

theorem eval_rdInt_be32 (g : Nat → Byte) (len off : Int) (n v : Nat) (hn : off = n) (h : off + 3 < len) (hv : v < 2147483648)
    (hg : ∀ u, u < 4 → g (n + u) = (be32 (v : Int)).getD u 0) : (rdInt len off).eval g = v := by
  rw [eval_rdInt g len off n hn h]
  have h0 := hg 0 (by omega)
  have h1 := hg 1 (by omega)
  have h2 := hg 2 (by omega)
  have h3 := hg 3 (by omega)
  rw [be32_lit v (by omega)] at h0 h1 h2 h3
  simp only [List.getD_cons_zero, List.getD_cons_succ, Nat.add_zero] at h0 h1 h2 h3
  rw [h0, h1, h2, h3]
  exact wrapS32_be v hv

theorem G_head (c : Cfg) (u : Nat) (hu : u < 16) :
    G c u = (be32 256 ++ be32 (mapOff c : Int) ++ be32 (dataLen c : Int) ++ be32 (mapLen : Int)).getD u 0 := by
  have := getD_at (rsrc c) [] (be32 256 ++ be32 (mapOff c : Int) ++ be32 (dataLen c : Int) ++ be32 (mapLen : Int))
    ((poke (poke (gap bg 0 256) 0x30 (pascal c.name)) 0x50 ([0, 0] ++ asc "Sd2f" ++ asc "lsf1" ++ be32 (mapOff c : Int) ++ be32 256 ++ be32 (mapOff c : Int) ++ be32 (dataLen c : Int))).drop 16
      ++ dataRegion c ++ mapRegion bg c)
    (by rw [rsrc_eq]; simp [head, poke, be32_len]) 0 rfl u (by simp [be32_len]; omega)
  rw [Nat.zero_add] at this
  exact this

theorem G_data (c : Cfg) (h : c.name.length ≤ 200) (u : Nat) (hu : u < dataLen c) : G c (256 + u) = (dataRegion c).getD u 0 :=
  getD_at (rsrc c) (head bg c) (dataRegion c) (mapRegion bg c) (rsrc_eq c) 256 (head_length _ c h).symm u (by rw [dataRegion_length]; exact hu)

theorem data_entries (c : Cfg) (u : Nat) :
    (u < (sizeText c).length + 5 → (dataRegion c).getD (off0 c + u) 0 = (entry (pstr (sizeText c))).getD u 0) ∧
    (u < (rateText c).length + 5 → (dataRegion c).getD (off1 c + u) 0 = (entry (pstr (rateText c))).getD u 0) ∧
    (u < (chText c).length + 5 → (dataRegion c).getD (off2 c + u) 0 = (entry (pstr (chText c))).getD u 0) ∧
    (u < 12 → (dataRegion c).getD (off3 c + u) 0 = (entry (List.replicate 8 0)).getD u 0) := by
  refine ⟨fun hu => ?_, fun hu => ?_, fun hu => ?_, fun hu => ?_⟩
  · exact getD_at _ [] (entry (pstr (sizeText c))) (entry (pstr (rateText c)) ++ entry (pstr (chText c)) ++ entry (List.replicate 8 0))
      (by simp [dataRegion]) _ (by simp [off0]) u (by simp [entry_length, pstr]; omega)
  · exact getD_at _ (entry (pstr (sizeText c))) (entry (pstr (rateText c))) (entry (pstr (chText c)) ++ entry (List.replicate 8 0))
      (by simp [dataRegion]) _ (by simp [off1, entry_length, pstr]; omega) u (by simp [entry_length, pstr]; omega)
  · exact getD_at _ (entry (pstr (sizeText c)) ++ entry (pstr (rateText c))) (entry (pstr (chText c))) (entry (List.replicate 8 0))
      (by simp [dataRegion]) _ (by simp [off2, off1, entry_length, pstr]; omega) u (by simp [entry_length, pstr]; omega)
  · exact getD_at _ (entry (pstr (sizeText c)) ++ entry (pstr (rateText c)) ++ entry (pstr (chText c))) (entry (List.replicate 8 0)) []
      (by simp [dataRegion]) _ (by simp [off3, off2, off1, entry_length, pstr]; omega) u (by simp [entry_length]; omega)

/-- the three reads parse_str_rsrc makes of a Pascal-string resource that lies at offset `n` -/
theorem entry_reads (g : Nat → Byte) (len : Int) (n : Nat) (t : List Byte) (ht : t.length ≤ 31) (hp : ∀ b ∈ t, isPrint b = true)
    (hlen : (n : Int) + t.length + 6 < len) (hg : ∀ u, u < t.length + 5 → g (n + u) = (entry (pstr t)).getD u 0) :
    (rdInt len (n : Int)).eval g = ((t.length + 1 : Nat) : Int) ∧ (rdChar len ((n : Int) + 4)).eval g = (t.length : Int) ∧
    (rdStr len ((n : Int) + 5) (min 32 ((t.length : Int) + 1))).eval g = t := by
  have he : entry (pstr t) = be32 ((t.length + 1 : Nat) : Int) ++ (t.length :: t) := by simp [entry, pstr]
  refine ⟨?_, ?_, ?_⟩
  · refine eval_rdInt_be32 g len n n (t.length + 1) rfl (by omega) (by omega) (fun u hu => ?_)
    rw [hg u (by omega), he]
    simp [List.getD_eq_getElem?_getD, List.getElem?_append_left, be32_len, hu]
  · rw [eval_rdChar g len _ (n + 4) (by push_cast; rfl) (by omega), hg 4 (by omega), he]
    simp [List.getD_eq_getElem?_getD, List.getElem?_append_right, be32_len]
  · refine eval_rdStr g len _ (n + 5) t (by push_cast; rfl) (by omega) (fun u hu => ?_) hp ht
    rw [Nat.add_assoc, hg (5 + u) (by omega), he]
    have : 5 + u = (be32 ((t.length + 1 : Nat) : Int)).length + (u + 1) := by rw [be32_len]; omega
    rw [this, List.getD_eq_getElem?_getD, List.getElem?_append_right (by omega)]
    simp [List.getD_eq_getElem?_getD]


/-- what one iteration of the string loop does with the numbers -/
def upd (s1 : LoopSt) (id : Int) (value : List Byte) : LoopSt :=
  if id = 1000 ∧ s1.size = 0 then { s1 with size := strtol value }
  else if id = 1001 ∧ s1.rate = 0 then { s1 with rate := strtol value }
  else if id = 1002 ∧ s1.ch = 0 then { s1 with ch := strtol value }
  else s1

/-- one complete iteration of the string loop, in terms of what its reads deliver -/
theorem strLoopK_step (g : Nat → Byte) (len dOff itemOff : Int) (fuel : Nat) (k : Int) (s : LoopSt)
    (id rel dl : Int) (value : List Byte)
    (hcont : s.dataOff + s.dataLen < len)
    (hid : ¬ (itemOff + k * 12 < 0 ∨ itemOff + k * 12 + 1 ≥ len))
    (e_id : (rdShort len (itemOff + k * 12)).eval g = id)
    (e_rel : (rdInt len (itemOff + k * 12 + 4)).eval g = rel)
    (hdo : ¬ (wrapS 32 (dOff + rel) < 0 ∨ wrapS 32 (dOff + rel) > len))
    (e_dl : (rdInt len (wrapS 32 (dOff + rel))).eval g = dl)
    (hdl : ¬ (dl < 0 ∨ dl > len))
    (e_val : (rdStr len (wrapS 32 (dOff + rel) + 5) (min 32 ((rdChar len (wrapS 32 (dOff + rel) + 4)).eval g + 1))).eval g = value)
    (hph : hasInfix (asc "Photoshop") value = false) :
    ∃ so, (strLoopK len dOff itemOff (fuel + 1) k s).eval g =
      (strLoopK len dOff itemOff fuel (k + 1) (upd { s with strOff := so, dataOff := wrapS 32 (dOff + rel), dataLen := dl } id value)).eval g := by
  refine ⟨s.strOff + (rdChar len s.strOff).eval g + 1, ?_⟩
  rw [strLoopK]
  rw [if_neg (by omega)]
  simp only [eval_bind]
  rw [if_neg hid]
  simp only [eval_bind, e_id, e_rel]
  rw [if_neg hdo]
  simp only [eval_bind, e_dl]
  rw [if_neg hdl]
  simp only [eval_bind, e_val, hph]
  rfl

/-- an iteration that ends the loop through the data-offset test -/
theorem strLoopK_end (g : Nat → Byte) (len dOff itemOff : Int) (fuel : Nat) (k : Int) (s : LoopSt) (rel : Int)
    (hcont : s.dataOff + s.dataLen < len)
    (hid : ¬ (itemOff + k * 12 < 0 ∨ itemOff + k * 12 + 1 ≥ len))
    (e_rel : (rdInt len (itemOff + k * 12 + 4)).eval g = rel)
    (hdo : wrapS 32 (dOff + rel) < 0 ∨ wrapS 32 (dOff + rel) > len) :
    ∃ so dO, (strLoopK len dOff itemOff (fuel + 1) k s).eval g = some { s with strOff := so, dataOff := dO } := by
  refine ⟨s.strOff + (rdChar len s.strOff).eval g + 1, wrapS 32 (dOff + rel), ?_⟩
  rw [strLoopK]
  rw [if_neg (by omega)]
  simp only [eval_bind]
  rw [if_neg hid]
  simp only [eval_bind, e_rel]
  rw [if_pos hdo]
  rfl

end Sf.Sd2
