/-
  SfProofs.AbsWriteBridgeSampleW64 — the Sony Wave64 container model (SfModel/W64.lean, theorems in SfProps/C04W64.lean) as a
  sample-level container `SCont` of the write-side bridge (SfProofs/AbsWriteBridgeSample.lean), and its `SLaws`.

  W64 has no PEAK chunk: its images are a function of the audio bytes.  It goes through the sample-level interface only for
  uniformity with AIFF / CAF.  A sample-level operation becomes operations of the W64 session machine (`w64Ops`): a write call
  sets the auto flag in force and hands over `xs.length / ch` frames of encoded samples; SFC_UPDATE_HEADER_NOW is `.update`.
  The guard `w64Guard`: whole frames per call, and the 2^62 guard of the reader on the audio byte count.
-/
import SfProofs.AbsWriteBridgeSample
import SfProps.C04Bridge
import SfProps.C04W64
namespace Sf.AbsWriteBridge.Sample
open Sf Sf.AbsWrite Sf.AbsWriteBridge Sf.Geometry

/-- the sample encoding W64 installs for a codec code (little-endian data) -/
def w64Enc (codec : Nat) : Enc := C04Bridge.encFor codec false

def w64Geom (c : W64.Cfg) : AbsWrite.Geom := { word := 0x0B0000 + c.codec, ch := c.ch, sr := c.sr }

/-- one sample-level operation as operations of the W64 session machine -/
def w64OpOf (e : Enc) (ch : Nat) (ty : Ty) : SOp → List W64.Op
  | .write xs a => [.auto a, .write (xs.length / ch) (e.encodeAll {} ty xs)]
  | .update => [.update]

def w64Ops (e : Enc) (ch : Nat) (ty : Ty) (ops : List SOp) : List W64.Op := ops.flatMap (w64OpOf e ch ty)

def w64Res : W64.ParseRes → Small2.ParseRes
  | .ok i => .ok { ch := i.ch, fmt := i.fmtWord, sr := i.sr.toNat, frames := i.frames }
  | .err => .err
  | .unmodelled => .unmodelled

/-- the W64 model as a sample-level container -/
def w64Cont (c : W64.Cfg) : SCont :=
  { g := w64Geom c, enc := w64Enc c.codec, L := W64.hdrLen c,
    closed := fun ty st ops => (W64.close c (W64.run c (W64.openW c (st : Int)) (w64Ops (w64Enc c.codec) c.ch ty ops))).bytes,
    store := fun ty st ops => (W64.run c (W64.openW c (st : Int)) (w64Ops (w64Enc c.codec) c.ch ty ops)).bytes,
    parse := fun bs => w64Res (W64.parse bs) }

/-- every write call hands over whole frames -/
def w64Whole (ch : Nat) (ops : List SOp) : Prop :=
  ∀ op ∈ ops, match op with | .write xs _ => xs.length % ch = 0 | .update => True

/-- THE GUARD of W64: whole frames per write call, and the 2^62 guard of the reader on the audio bytes (a condition on the number
    of samples handed over only) -/
def w64Guard (c : W64.Cfg) (_ty : Ty) (ops : List SOp) : Prop :=
  w64Whole c.ch ops ∧ W64.hdrLen c + (sData ops).length * (w64Enc c.codec).nbytes + 24 < 2 ^ 62

/-! ## the encoding and the geometry -/

theorem w64Cont_parse (c : W64.Cfg) (bs : List Byte) : (w64Cont c).parse bs = w64Res (W64.parse bs) := rfl

theorem w64_codec_cases {c : W64.Cfg} (hwf : c.wf) :
    c.codec = 0x05 ∨ c.codec = 0x02 ∨ c.codec = 0x03 ∨ c.codec = 0x04 ∨ c.codec = 0x06 ∨ c.codec = 0x07 ∨ c.codec = 0x10 ∨
      c.codec = 0x11 := by
  have := hwf.1
  simpa [W64.codecs] using this

theorem w64Enc_encOf {c : W64.Cfg} (hwf : c.wf) : encOf .raw c.codec false = some (w64Enc c.codec) := by
  unfold w64Enc C04Bridge.encFor
  rcases w64_codec_cases hwf with h | h | h | h | h | h | h | h <;> rw [h] <;> simp [encOf]

theorem w64Enc_nbytes {c : W64.Cfg} (hwf : c.wf) : (w64Enc c.codec).nbytes = W64.bytewidth c.codec := by
  unfold w64Enc C04Bridge.encFor
  rcases w64_codec_cases hwf with h | h | h | h | h | h | h | h <;> rw [h] <;>
    simp [encOf, Enc.nbytes, PcmFmt.nbytes, W64.bytewidth]

theorem w64Geom_codec {c : W64.Cfg} (hwf : c.wf) : (w64Geom c).codec = c.codec := by
  show (0x0B0000 + c.codec) % 0x10000 = c.codec
  rcases w64_codec_cases hwf with h | h | h | h | h | h | h | h <;> omega

theorem w64Geom_major {c : W64.Cfg} (hwf : c.wf) : (w64Geom c).major = 0x0B := by
  show (0x0B0000 + c.codec) / 0x10000 % 0x1000 = 0x0B
  rcases w64_codec_cases hwf with h | h | h | h | h | h | h | h <;> omega

/-! ## the translated operations -/

theorem w64Ops_cons (e : Enc) (ch : Nat) (ty : Ty) (x : SOp) (r : List SOp) :
    w64Ops e ch ty (x :: r) = w64OpOf e ch ty x ++ w64Ops e ch ty r := by simp [w64Ops]

theorem w64Ops_append (e : Enc) (ch : Nat) (ty : Ty) (xs ys : List SOp) :
    w64Ops e ch ty (xs ++ ys) = w64Ops e ch ty xs ++ w64Ops e ch ty ys := by simp [w64Ops]

theorem w64Ops_snoc (e : Enc) (ch : Nat) (ty : Ty) (w : List SOp) (x : SOp) :
    w64Ops e ch ty (w ++ [x]) = w64Ops e ch ty w ++ w64OpOf e ch ty x := by simp [w64Ops]

theorem w64_sessData_append (a b : List W64.Op) : W64.sessData (a ++ b) = W64.sessData a ++ W64.sessData b := by
  simp [W64.sessData]

theorem w64_sessFrames_append (a b : List W64.Op) : W64.sessFrames (a ++ b) = W64.sessFrames a + W64.sessFrames b := by
  simp [W64.sessFrames]

theorem w64_run_append (c : W64.Cfg) (s : W64.St) (a b : List W64.Op) :
    W64.run c s (a ++ b) = W64.run c (W64.run c s a) b := by simp [W64.run, List.foldl_append]

theorem w64Whole_tail {ch : Nat} {x : SOp} {r : List SOp} (h : w64Whole ch (x :: r)) : w64Whole ch r :=
  fun o ho => h o (List.mem_cons_of_mem _ ho)

theorem w64Whole_left {ch : Nat} {a b : List SOp} (h : w64Whole ch (a ++ b)) : w64Whole ch a :=
  fun o ho => h o (List.mem_append_left _ ho)

theorem w64Whole_head {ch : Nat} {xs : List Int} {a : Bool} {r : List SOp} (h : w64Whole ch (.write xs a :: r)) :
    xs.length % ch = 0 := h (.write xs a) (List.mem_cons_self ..)

theorem w64_div_add (ch a n : Nat) (hch : 0 < ch) (h : a % ch = 0) : (a + n) / ch = a / ch + n / ch := by
  obtain ⟨q, rfl⟩ := Nat.dvd_of_mod_eq_zero h
  rw [Nat.mul_add_div hch, Nat.mul_div_cancel_left _ hch]

/-- a call of whole frames that hands over something hands over at least one frame -/
theorem w64_frames_ne_zero (ch : Nat) (xs : List Int) (hne : xs ≠ []) (h : xs.length % ch = 0) : xs.length / ch ≠ 0 := by
  intro h0
  have := Nat.div_add_mod xs.length ch
  rw [h0, h] at this
  have hl : xs.length = 0 := by simpa using this.symm
  exact hne (List.length_eq_zero_iff.mp hl)

/-- a call of whole frames that hands over no frame hands over nothing -/
theorem w64_frames_zero (ch : Nat) (xs : List Int) (h : xs.length % ch = 0) (h0 : xs.length / ch = 0) : xs = [] := by
  have := Nat.div_add_mod xs.length ch
  rw [h0, h] at this
  have hl : xs.length = 0 := by simpa using this.symm
  exact List.length_eq_zero_iff.mp hl

/-- the samples the whole-frame calls hand over are whole frames -/
theorem w64Whole_sData (ch : Nat) : ∀ ops : List SOp, w64Whole ch ops → (sData ops).length % ch = 0
  | [], _ => by simp [sData]
  | .write xs a :: r, hw => by
    have h1 := w64Whole_head hw
    have ih := w64Whole_sData ch r (w64Whole_tail hw)
    simp only [sData, List.length_append]
    rw [Nat.add_mod, h1, ih]; simp
  | .update :: r, hw => by
    simpa [sData] using w64Whole_sData ch r (w64Whole_tail hw)

/-- the audio bytes of the translated session are the encoded samples -/
theorem sessData_w64Ops (e : Enc) (ch : Nat) (ty : Ty) : ∀ ops : List SOp, w64Whole ch ops →
    W64.sessData (w64Ops e ch ty ops) = e.encodeAll {} ty (sData ops)
  | [], _ => by simp [w64Ops, W64.sessData, sData, Enc.encodeAll]
  | .write xs a :: r, hw => by
    have h1 := w64Whole_head hw
    have ih := sessData_w64Ops e ch ty r (w64Whole_tail hw)
    rw [w64Ops_cons, w64_sessData_append, ih]
    simp only [sData, Enc.encodeAll_append]
    congr 1
    by_cases hk : xs.length / ch = 0
    · have hx := w64_frames_zero ch xs h1 hk
      subst hx
      simp [w64OpOf, W64.sessData, W64.Op.data, Enc.encodeAll]
    · simp [w64OpOf, W64.sessData, W64.Op.data, hk]
  | .update :: r, hw => by
    have ih := sessData_w64Ops e ch ty r (w64Whole_tail hw)
    rw [w64Ops_cons, w64_sessData_append, ih]
    simp [w64OpOf, W64.sessData, W64.Op.data, sData]

/-- the frames of the translated session are the samples over the channel count -/
theorem sessFrames_w64Ops (e : Enc) (ch : Nat) (ty : Ty) (hch : 0 < ch) : ∀ ops : List SOp, w64Whole ch ops →
    W64.sessFrames (w64Ops e ch ty ops) = (sData ops).length / ch
  | [], _ => by simp [w64Ops, W64.sessFrames, sData]
  | .write xs a :: r, hw => by
    have h1 := w64Whole_head hw
    have ih := sessFrames_w64Ops e ch ty hch r (w64Whole_tail hw)
    rw [w64Ops_cons, w64_sessFrames_append, ih]
    simp only [sData, List.length_append]
    rw [w64_div_add _ _ _ hch h1]
    simp [w64OpOf, W64.sessFrames, W64.Op.frames]
  | .update :: r, hw => by
    have ih := sessFrames_w64Ops e ch ty hch r (w64Whole_tail hw)
    rw [w64Ops_cons, w64_sessFrames_append, ih]
    simp [w64OpOf, W64.sessFrames, W64.Op.frames, sData]

/-- the encoded samples of a call of whole frames are that many frames of the configuration -/
theorem w64_write_valid (c : W64.Cfg) (e : Enc) (ty : Ty) (hnb : e.nbytes = W64.bytewidth c.codec) (hch : 0 < c.ch)
    (xs : List Int) (h : xs.length % c.ch = 0) : (e.encodeAll {} ty xs).length = xs.length / c.ch * c.bw := by
  obtain ⟨q, hq⟩ := Nat.dvd_of_mod_eq_zero h
  rw [Enc.encodeAll_length, hnb, hq, Nat.mul_div_cancel_left _ hch, W64.Cfg.bw]
  ac_rfl

/-- every operation of the translated session is valid for the configuration -/
theorem w64Ops_valid (c : W64.Cfg) (e : Enc) (ty : Ty) (hnb : e.nbytes = W64.bytewidth c.codec) (hch : 0 < c.ch) :
    ∀ ops : List SOp, w64Whole c.ch ops → ∀ op ∈ w64Ops e c.ch ty ops, op.valid c
  | [], _ => by simp [w64Ops]
  | .write xs a :: r, hw => by
    intro op hop
    rw [w64Ops_cons, List.mem_append] at hop
    rcases hop with hop | hop
    · simp only [w64OpOf, List.mem_cons, List.not_mem_nil, or_false] at hop
      rcases hop with rfl | rfl
      · trivial
      · exact w64_write_valid c e ty hnb hch xs (w64Whole_head hw)
    · exact w64Ops_valid c e ty hnb hch r (w64Whole_tail hw) op hop
  | .update :: r, hw => by
    intro op hop
    rw [w64Ops_cons, List.mem_append] at hop
    rcases hop with hop | hop
    · simp only [w64OpOf, List.mem_cons, List.not_mem_nil, or_false] at hop
      subst hop
      trivial
    · exact w64Ops_valid c e ty hnb hch r (w64Whole_tail hw) op hop

/-! ## the session machine: the store after a header rewrite -/

/-- the store right after SFC_UPDATE_HEADER_NOW is the image of the whole session -/
theorem w64_store_update (c : W64.Cfg) (hwf : c.wf) (stale : Int) (pre : List W64.Op) (hv : ∀ op ∈ pre, op.valid c) :
    (W64.run c (W64.openW c stale) (pre ++ [.update])).bytes =
      W64.image c (W64.sessFrames (pre ++ [.update])) (W64.sessData (pre ++ [.update])) := by
  rw [w64_run_append, w64_sessFrames_append, w64_sessData_append]
  have := C04W64.snapshot_valid_w64 c hwf stale pre hv
  simpa [W64.run, W64.sessFrames, W64.sessData, W64.Op.frames, W64.Op.data] using this

/-- the store right after a write call that transferred something with the auto flag set is the image of the whole session -/
theorem w64_store_autowrite (c : W64.Cfg) (hwf : c.wf) (stale : Int) (pre : List W64.Op) (hv : ∀ op ∈ pre, op.valid c)
    (k : Nat) (d : List Byte) (hk : k ≠ 0) (hd : d.length = k * c.bw) :
    (W64.run c (W64.openW c stale) (pre ++ [.auto true, .write k d])).bytes =
      W64.image c (W64.sessFrames (pre ++ [.auto true, .write k d])) (W64.sessData (pre ++ [.auto true, .write k d])) := by
  have hsplit : pre ++ [W64.Op.auto true, .write k d] = (pre ++ [.auto true]) ++ [.write k d] := by simp
  have hv2 : ∀ op ∈ pre ++ [W64.Op.auto true], op.valid c := by
    intro op hop
    rw [List.mem_append] at hop
    rcases hop with hop | hop
    · exact hv op hop
    · simp only [List.mem_cons, List.not_mem_nil, or_false] at hop
      subst hop
      trivial
  have hauto : (W64.run c (W64.openW c stale) (pre ++ [.auto true])).auto = true := by
    rw [w64_run_append]; rfl
  have h := C04W64.auto_write_is_snapshot_w64 c hwf stale (pre ++ [.auto true]) hv2 k d hk hd hauto
  have hkb : (k == 0) = false := by simpa using hk
  rw [hsplit, w64_run_append, w64_sessFrames_append, w64_sessData_append]
  simpa [W64.run, W64.sessFrames, W64.sessData, W64.Op.frames, W64.Op.data, hkb] using h

/-! ## closed bytes and store as images of the samples -/

/-- the closed file of guarded operations is the image of their samples -/
theorem w64_closed_image (c : W64.Cfg) (hwf : c.wf) (ty : Ty) (st : Nat) (ops : List SOp) (hw : w64Whole c.ch ops) :
    (w64Cont c).closed ty st ops =
      W64.image c ((sData ops).length / c.ch) ((w64Enc c.codec).encodeAll {} ty (sData ops)) := by
  have hch : 0 < c.ch := hwf.2.1
  have hv := w64Ops_valid c (w64Enc c.codec) ty (w64Enc_nbytes hwf) hch ops hw
  show (W64.close c (W64.run c (W64.openW c (st : Int)) (w64Ops (w64Enc c.codec) c.ch ty ops))).bytes = _
  rw [C04W64.stale_frames_ignored_w64 c hwf _ _ hv, sessFrames_w64Ops _ _ _ hch ops hw, sessData_w64Ops _ _ _ ops hw]

/-- the store after guarded operations that end in a header rewrite is the image of their samples -/
theorem w64_store_image (c : W64.Cfg) (hwf : c.wf) (ty : Ty) (st : Nat) (ops : List SOp) (hw : w64Whole c.ch ops)
    (he : EndsInRewrite ops) :
    (w64Cont c).store ty st ops =
      W64.image c ((sData ops).length / c.ch) ((w64Enc c.codec).encodeAll {} ty (sData ops)) := by
  have hch : 0 < c.ch := hwf.2.1
  have hnb := w64Enc_nbytes hwf
  rw [← sessFrames_w64Ops (w64Enc c.codec) c.ch ty hch ops hw, ← sessData_w64Ops (w64Enc c.codec) c.ch ty ops hw]
  show (W64.run c (W64.openW c (st : Int)) (w64Ops (w64Enc c.codec) c.ch ty ops)).bytes = _
  obtain ⟨w, x, e, hx⟩ := he
  subst e
  have hvw := w64Ops_valid c (w64Enc c.codec) ty hnb hch w (w64Whole_left hw)
  rw [w64Ops_snoc]
  rcases hx with rfl | ⟨xs, hne, rfl⟩
  · exact w64_store_update c hwf _ _ hvw
  · have hmod : xs.length % c.ch = 0 := hw (.write xs true) (by simp)
    exact w64_store_autowrite c hwf _ _ hvw _ _ (w64_frames_ne_zero c.ch xs hne hmod)
      (w64_write_valid c (w64Enc c.codec) ty hnb hch xs hmod)

/-- the image of guarded samples is header ++ encoded samples, nothing behind -/
theorem w64_image_form (c : W64.Cfg) (n : Nat) (data : List Byte) :
    ∃ hdr tail : List Byte, hdr.length = W64.hdrLen c ∧ W64.image c n data = hdr ++ data ++ tail :=
  ⟨W64.hdr c n, [], W64.hdr_length c n, rfl⟩

/-- the image of guarded samples re-opens with the requested parameters and all the frames -/
theorem w64_image_parse (c : W64.Cfg) (hwf : c.wf) (ty : Ty) (xs : List Int) (hmod : xs.length % c.ch = 0)
    (hsz : W64.hdrLen c + xs.length * (w64Enc c.codec).nbytes + 24 < 2 ^ 62) :
    ∃ i, (w64Cont c).parse (W64.image c (xs.length / c.ch) ((w64Enc c.codec).encodeAll {} ty xs)) = .ok i ∧
      i.frames = ((w64Cont c).enc.encodeAll {} ty xs).length / (w64Cont c).bw ∧
      i.ch = (w64Cont c).g.ch ∧ i.fmt % 0x10000000 = (w64Cont c).g.word % 0x10000000 ∧
      rateOk (w64Cont c).g.major (w64Cont c).g.sr (i.sr : Int) = true := by
  have hch : 0 < c.ch := hwf.2.1
  have hnbw := w64Enc_nbytes hwf
  have hnb : 0 < (w64Cont c).enc.nbytes := (encOf_props _ _ _ _ (w64Enc_encOf hwf)).1
  have hd := w64_write_valid c (w64Enc c.codec) ty hnbw hch xs hmod
  have hsz2 : W64.hdrLen c + xs.length / c.ch * c.bw + 24 < 2 ^ 62 := by
    rw [← hd, Enc.encodeAll_length]; exact hsz
  have hp := C04W64.w64_reopen_info c hwf (xs.length / c.ch) _ hd hsz2
  have hx : xs.length = xs.length / c.ch * (w64Cont c).g.ch := by
    show xs.length = xs.length / c.ch * c.ch
    have := Nat.div_add_mod xs.length c.ch
    rw [hmod, Nat.mul_comm] at this
    omega
  have hp2 : (w64Cont c).parse (W64.image c (xs.length / c.ch) ((w64Enc c.codec).encodeAll {} ty xs)) =
      .ok { ch := c.ch, fmt := 0x0B0000 + c.codec, sr := c.sr, frames := xs.length / c.ch } := by
    rw [w64Cont_parse, hp]
    simp [w64Res]
  have hmajor : (w64Cont c).g.major = 0x0B := w64Geom_major hwf
  refine ⟨_, hp2, ?_, rfl, rfl, ?_⟩
  · exact (frames_of_samples (w64Cont c) hnb hch ty xs _ hx).symm
  · rw [hmajor]
    simp [rateOk, rateClass, w64Cont, w64Geom]

/-! ## the laws -/

theorem w64_slaws (c : W64.Cfg) (hwf : c.wf) (ty : Ty) : SLaws (w64Cont c) ty (w64Guard c ty) := by
  have henc := w64Enc_encOf hwf
  obtain ⟨hnb, hewf⟩ := encOf_props _ _ _ _ henc
  have hcd := w64_codec_cases hwf
  have hcodec : (w64Cont c).g.codec = c.codec := w64Geom_codec hwf
  have hmajor : (w64Cont c).g.major = 0x0B := w64Geom_major hwf
  refine { chpos := hwf.2.1, nb := hnb, wf := hewf,
           block := C04.frames_bound_granular _ _ _ _
             (by rw [hcodec]; rcases hcd with h | h | h | h | h | h | h | h <;> rw [h] <;> simp [Geometry.sampleGranular])
             (by rw [hmajor]; simp),
           notRaw := by rw [hmajor]; simp,
           codec := ⟨false, by rw [hcodec]; exact henc⟩,
           closedForm := ?_, closedParse := ?_, closedFn := ?_, storeForm := ?_, storeParse := ?_ }
  · intro st ops hg
    rw [w64_closed_image c hwf ty st ops hg.1]
    exact w64_image_form c _ _
  · intro st ops hg
    rw [w64_closed_image c hwf ty st ops hg.1]
    exact w64_image_parse c hwf ty (sData ops) (w64Whole_sData c.ch ops hg.1) hg.2
  · intro a b ops ops2 hg hg2 e
    rw [w64_closed_image c hwf ty a ops hg.1, w64_closed_image c hwf ty b ops2 hg2.1, e]
  · intro st ops hg he
    rw [w64_store_image c hwf ty st ops hg.1 he]
    exact w64_image_form c _ _
  · intro st ops hg he
    rw [w64_store_image c hwf ty st ops hg.1 he]
    obtain ⟨i, h1, h2, h3, h4, _⟩ := w64_image_parse c hwf ty (sData ops) (w64Whole_sData c.ch ops hg.1) hg.2
    exact ⟨i, h1, h2, h3, h4⟩

end Sf.AbsWriteBridge.Sample
