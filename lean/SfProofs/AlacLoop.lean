/-
  SfProofs.AlacLoop — the element loop of `alac_decode` on a packet in which every element was written uncompressed.
-/
import SfProofs.AlacEscape
namespace Sf.AlacCore

/-- channels an element list covers -/
def layoutWidth : List Nat → Nat
  | [] => 0
  | t :: ts => (if t = ID_CPE then 2 else 1) + layoutWidth ts

/-- channels `c … c + k - 1` of the frames, as they come back -/
def chansFrom (depth : Nat) (frames : List (List Int)) (c k : Nat) : List (List Int) :=
  (List.range' c k).map fun i => (chanOf frames i).map (trunc depth)

theorem chansFrom_zero (depth : Nat) (frames : List (List Int)) (c : Nat) : chansFrom depth frames c 0 = [] := rfl

theorem chansFrom_succ (depth : Nat) (frames : List (List Int)) (c k : Nat) :
    chansFrom depth frames c (k + 1) = (chanOf frames c).map (trunc depth) :: chansFrom depth frames (c + 1) k := by
  simp [chansFrom, List.range'_succ]

theorem layoutWidth_pos {ts : List Nat} (h : ts ≠ []) : 0 < layoutWidth ts := by
  cases ts with
  | nil => exact absurd rfl h
  | cons t ts => unfold layoutWidth; split <;> omega

theorem encElemsEsc_length_pos (ru : Rules) (depth : Nat) (frames : List (List Int)) (stale : Nat → List Int × List Int)
    {ts : List Nat} (h : ts ≠ []) (c m s : Nat) : 0 < (encElemsEsc ru depth frames stale ts c m s).length := by
  cases ts with
  | nil => exact absurd rfl h
  | cons t ts =>
    unfold encElemsEsc
    split <;> simp [List.length_append, bitsOf_length] <;> omega

theorem chanOf_length (frames : List (List Int)) (c : Nat) : (chanOf frames c).length = frames.length := by simp [chanOf]

theorem decLoop_esc (cd : CompDec) {cfg : Config} (hd : Depth cfg.bitDepth) (byteSize : Nat) (frames : List (List Int))
    (hI : ∀ c, ∀ x ∈ chanOf frames c, I32 x) (hn : frames.length ≤ frameLen) (stale : Nat → List Int × List Int) (rest : Bits) :
    ∀ (ts : List Nat) (fuel c m s p ns on : Nat) (written : List (List Int)),
      ts ≠ [] → (∀ t ∈ ts, t = ID_SCE ∨ t = ID_CPE) → ts.length ≤ fuel → written.length = c →
      c + layoutWidth ts = cfg.numChannels → (frames.length = frameLen → ns = frameLen) →
      p + (encElemsEsc Rules.current cfg.bitDepth frames stale ts c m s).length < 8 * byteSize →
      decLoop cd Rules.current cfg byteSize fuel
          ⟨⟨encElemsEsc Rules.current cfg.bitDepth frames stale ts c m s ++ rest, p⟩, ns, on, written⟩ =
        ⟨.ok, frames.length, written ++ chansFrom cfg.bitDepth frames c (layoutWidth ts),
          p + (encElemsEsc Rules.current cfg.bitDepth frames stale ts c m s).length⟩ := by
  intro ts
  induction ts with
  | nil => intro _ _ _ _ _ _ _ _ h; exact absurd rfl h
  | cons t ts ih =>
    intro fuel c m s p ns on written _ hts hfuel hw hc hns hpos
    obtain ⟨fuel, rfl⟩ : ∃ f, fuel = f + 1 := ⟨fuel - 1, by simp at hfuel; omega⟩
    have hlenpos := encElemsEsc_length_pos Rules.current cfg.bitDepth frames stale (List.cons_ne_nil t ts) c m s
    have hcur : ¬ (Rd.mk (encElemsEsc Rules.current cfg.bitDepth frames stale (t :: ts) c m s ++ rest) p).curByte ≥ byteSize := by
      simp only [Rd.curByte]; omega
    have ht := hts t (by simp)
    have hts' : ∀ t' ∈ ts, t' = ID_SCE ∨ t' = ID_CPE := fun t' h' => hts t' (by simp [h'])
    rw [decLoop]
    simp only [hcur, if_false]
    rcases ht with rfl | rfl
    · -- a mono element
      have e : encElemsEsc Rules.current cfg.bitDepth frames stale (ID_SCE :: ts) c m s =
          bitsOf ID_SCE 3 ++ (bitsOf m 4 ++ (encMonoEsc cfg.bitDepth frames.length (chanOf frames c) ++
            encElemsEsc Rules.current cfg.bitDepth frames stale ts (c + 1) (m + 1) s)) := by
        rw [encElemsEsc]; simp [ID_SCE, ID_CPE]
      rw [e] at hpos ⊢
      simp only [List.append_assoc, read_bitsOf]
      simp only [ID_SCE, ID_LFE, ID_CPE, Nat.zero_mod, true_or, if_true]
      have hm := decMono_esc cd hd m ns (chanOf frames c) (hI c) (by rw [chanOf_length]; exact hn)
        (by rw [chanOf_length]; exact hns) (encElemsEsc Rules.current cfg.bitDepth frames stale ts (c + 1) (m + 1) s ++ rest) (p + 3)
      rw [chanOf_length] at hm
      rw [hm]
      have hw1 : layoutWidth (0 :: ts) = 1 + layoutWidth ts := by simp [layoutWidth, ID_CPE]
      simp only [ID_SCE] at hc
      rw [hw1] at hc ⊢
      by_cases hnil : ts = []
      · subst hnil
        simp only [layoutWidth, encElemsEsc, List.nil_append, List.length_append, List.length_cons, List.length_nil, hw, Nat.add_zero] at hc ⊢
        have : cfg.numChannels ≤ c + 1 := by omega
        simp only [ge_iff_le, this, if_true, zeroFill, List.length_append, List.length_cons, List.length_nil, hw]
        have z : cfg.numChannels - (c + 0 + 1) = 0 := by omega
        simp only [z, List.replicate_zero, List.append_nil, chansFrom_succ, chansFrom_zero, encMonoEsc_length, bitsOf_length, chanOf_length,
          Res.mk.injEq, true_and]
        omega
      · have hwpos := layoutWidth_pos hnil
        have : ¬ (cfg.numChannels ≤ c + 1) := by omega
        simp only [ge_iff_le, List.length_append, List.length_cons, List.length_nil, hw, Nat.zero_add, this, if_false]
        rw [ih fuel (c + 1) (m + 1) s _ frames.length frames.length (written ++ [(chanOf frames c).map (trunc cfg.bitDepth)]) hnil hts'
          (by simp at hfuel; omega) (by simp [hw]) (by omega) (fun h => h)
          (by simp only [List.length_append, bitsOf_length, encMonoEsc_length, chanOf_length] at hpos ⊢; omega)]
        simp only [List.length_append, bitsOf_length, encMonoEsc_length, chanOf_length, List.append_assoc,
          List.cons_append, List.nil_append]
        rw [show 1 + layoutWidth ts = layoutWidth ts + 1 by omega, chansFrom_succ]
        congr 1
        omega
    · -- a channel pair
      have e : encElemsEsc Rules.current cfg.bitDepth frames stale (ID_CPE :: ts) c m s =
          bitsOf ID_CPE 3 ++ (bitsOf s 4 ++ (encPairEsc Rules.current cfg.bitDepth frames.length (chanOf frames c) (chanOf frames (c + 1)) (stale s) ++
            encElemsEsc Rules.current cfg.bitDepth frames stale ts (c + 2) m (s + 1))) := by
        rw [encElemsEsc]; simp
      rw [e] at hpos ⊢
      simp only [List.append_assoc, read_bitsOf]
      have hw2 : layoutWidth (ID_CPE :: ts) = 2 + layoutWidth ts := by simp [layoutWidth]
      rw [hw2] at hc ⊢
      have h2 : ¬ (written.length + 2 > cfg.numChannels) := by omega
      simp only [ID_SCE, ID_LFE, ID_CPE, Nat.one_mod, Nat.reducePow, Nat.reduceMod, one_ne_zero, Nat.succ_ne_self, or_self, if_false, if_true, h2,
        show ¬ ((1 : Nat) = 0) by decide, show ¬ ((1 : Nat) = 3) by decide]
      have hcl : (chanOf frames c).length = (chanOf frames (c + 1)).length := by simp [chanOf_length]
      have hm := decPair_esc cd hd s ns (chanOf frames c) (chanOf frames (c + 1)) (by simp [chanOf_length]) (hI c) (hI (c + 1))
        (by rw [chanOf_length]; exact hn) (by rw [chanOf_length]; exact hns) (stale s)
        (encElemsEsc Rules.current cfg.bitDepth frames stale ts (c + 2) m (s + 1) ++ rest) (p + 3)
      rw [chanOf_length] at hm
      rw [hm]
      by_cases hnil : ts = []
      · subst hnil
        simp only [layoutWidth, encElemsEsc, List.nil_append, List.length_append, List.length_cons, List.length_nil, hw, Nat.add_zero] at hc ⊢
        have : cfg.numChannels ≤ c + 2 := by omega
        simp only [ge_iff_le, this, if_true, zeroFill, List.length_append, List.length_cons, List.length_nil, hw]
        have z : cfg.numChannels - (c + (0 + 1 + 1)) = 0 := by omega
        simp only [z, List.replicate_zero, List.append_nil, chansFrom_succ, chansFrom_zero, encPairEsc_length _ _ _ _ _ hcl, bitsOf_length, chanOf_length,
          Res.mk.injEq, true_and]
        omega
      · have hwpos := layoutWidth_pos hnil
        have : ¬ (cfg.numChannels ≤ c + 2) := by omega
        simp only [ge_iff_le, List.length_append, List.length_cons, List.length_nil, hw, Nat.zero_add, this, if_false]
        rw [ih fuel (c + 2) m (s + 1) _ frames.length frames.length
          (written ++ [(chanOf frames c).map (trunc cfg.bitDepth), (chanOf frames (c + 1)).map (trunc cfg.bitDepth)]) hnil hts'
          (by simp at hfuel; omega) (by simp [hw]) (by omega) (fun h => h)
          (by simp only [List.length_append, bitsOf_length, encPairEsc_length _ _ _ _ _ hcl, chanOf_length] at hpos ⊢; omega)]
        simp only [List.length_append, bitsOf_length, encPairEsc_length _ _ _ _ _ hcl, chanOf_length, List.append_assoc, List.cons_append, List.nil_append]
        rw [show 2 + layoutWidth ts = layoutWidth ts + 1 + 1 by omega, chansFrom_succ, chansFrom_succ]
        congr 1
        omega

theorem encElemsEsc_length_ge (ru : Rules) (depth : Nat) (frames : List (List Int)) (stale : Nat → List Int × List Int) :
    ∀ (ts : List Nat) (c m s : Nat), 3 * ts.length ≤ (encElemsEsc ru depth frames stale ts c m s).length
  | [], _, _, _ => by simp
  | t :: ts, c, m, s => by
    unfold encElemsEsc
    split
    · have := encElemsEsc_length_ge ru depth frames stale ts (c + 2) m (s + 1)
      simp only [List.length_append, bitsOf_length, List.length_cons]; omega
    · have := encElemsEsc_length_ge ru depth frames stale ts (c + 1) (m + 1) s
      simp only [List.length_append, bitsOf_length, List.length_cons]; omega

theorem map_range_getD (g : Int → Int) (f : List Int) : (List.range f.length).map (fun i => g (f.getD i 0)) = f.map g := by
  apply List.ext_getElem
  · simp
  · intro i h1 h2
    simp at h1
    simp [List.getD_eq_getElem?_getD, List.getElem?_eq_getElem h1]

theorem applyOut_nil (nc : Nat) (w : List (List Int)) (h : w.length = nc) : applyOut [] nc w = w := by
  subst h
  apply List.ext_getElem
  · simp [applyOut]
  · intro i h1 h2
    simp [applyOut] at h1 ⊢
    simp [List.getD_eq_getElem?_getD, List.getElem?_eq_getElem h2]

theorem transpose_chans (g : Int → Int) (nc : Nat) : ∀ frames : List (List Int), (∀ f ∈ frames, f.length = nc) →
    transpose frames.length ((List.range nc).map fun i => (chanOf frames i).map g) = frames.map (·.map g)
  | [], _ => rfl
  | f :: fs, h => by
    have hf : f.length = nc := h f (by simp)
    have ih := transpose_chans g nc fs (fun f' h' => h f' (by simp [h']))
    simp only [List.length_cons, transpose, List.map_map, List.map_cons]
    congr 1
    · rw [← hf, ← map_range_getD g f]
      apply List.map_congr_left
      intro i _
      simp [chanOf]

theorem getD_I32 (f : List Int) (c : Nat) (h : ∀ x ∈ f, I32 x) : I32 (f.getD c 0) := by
  by_cases hc : c < f.length
  · rw [List.getD_eq_getElem?_getD, List.getElem?_eq_getElem hc]
    exact h _ (List.getElem_mem hc)
  · rw [List.getD_eq_getElem?_getD, List.getElem?_eq_none (by omega)]
    simp [I32]

theorem layout_facts (nc : Nat) (h1 : 1 ≤ nc) (h8 : nc ≤ 8) :
    layout nc ≠ [] ∧ (∀ t ∈ layout nc, t = ID_SCE ∨ t = ID_CPE) ∧ layoutWidth (layout nc) = nc := by
  have : nc = 1 ∨ nc = 2 ∨ nc = 3 ∨ nc = 4 ∨ nc = 5 ∨ nc = 6 ∨ nc = 7 ∨ nc = 8 := by omega
  rcases this with rfl | rfl | rfl | rfl | rfl | rfl | rfl | rfl <;> decide

end Sf.AlacCore
