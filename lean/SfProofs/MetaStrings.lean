/- Helper lemmas for SfProps/C12.lean: the string table. -/
import SfModel.Meta
import SfProofs.MetaBytes
namespace Sf.Meta
end Sf.Meta
