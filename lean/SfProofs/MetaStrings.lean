/- Helper lemmas for SfProps/C12.lean: the slot loop of psf_store_string and texts in the store. -/
import SfModel.Meta
import SfProofs.MetaBytes
namespace Sf.Meta

theorem scan_cons (ty : Int) (s : Slot) (rest : List Slot) :
    scan ty (s :: rest) =
      if s.type = ty then ({ s with type := -1 } :: (scan ty rest).1, (scan ty rest).2 + 1)
      else if s.type = 0 then (s :: rest, 0)
      else (s :: (scan ty rest).1, (scan ty rest).2 + 1) := by
  by_cases h : s.type = ty <;> simp [scan, h]

theorem scan_length (ty : Int) (l : List Slot) : (scan ty l).1.length = l.length := by
  induction l with
  | nil => simp [scan]
  | cons s t ih =>
    rw [scan_cons]
    split
    · simp [ih]
    · split <;> simp [ih]

theorem scan_index_le (ty : Int) (l : List Slot) : (scan ty l).2 ≤ l.length := by
  induction l with
  | nil => simp [scan]
  | cons s t ih =>
    rw [scan_cons]
    split
    · simp; omega
    · split <;> simp <;> omega

/-- the loop only ever turns a type into -1: a live slot after the loop is a slot of the table before it -/
theorem scan_live_mem (ty : Int) (l : List Slot) (s : Slot) (h : s ∈ (scan ty l).1) (hp : s.type > 0) : s ∈ l := by
  induction l with
  | nil => simp [scan] at h
  | cons a t ih =>
    rw [scan_cons] at h
    split at h
    · rcases List.mem_cons.mp h with h | h
      · subst h; simp at hp
      · exact List.mem_cons_of_mem _ (ih h)
    · split at h
      · exact h
      · rcases List.mem_cons.mp h with h | h
        · subst h; simp
        · exact List.mem_cons_of_mem _ (ih h)

/-- lookups of another (real) type do not see the loop's marks -/
theorem scan_find_other (ty ty' : Int) (l : List Slot) (hne : ty' ≠ ty) (hm : ty' ≠ -1) :
    (scan ty l).1.find? (fun s => decide (s.type = ty')) = l.find? (fun s => decide (s.type = ty')) := by
  induction l with
  | nil => simp [scan]
  | cons a t ih =>
    rw [scan_cons]
    split
    · rename_i ha
      have h1 : ¬ a.type = ty' := by rw [ha]; exact fun h => hne h.symm
      simp [List.find?_cons, h1, ih, Ne.symm hm]
    · split
      · rfl
      · simp [List.find?_cons, ih]

/-- a text that ends inside a buffer is not changed by bytes appended to the buffer -/
theorem takeWhile_append_of_lt {α} (p : α → Bool) (l m : List α) (h : (l.takeWhile p).length < l.length) :
    (l ++ m).takeWhile p = l.takeWhile p := by
  induction l with
  | nil => simp at h
  | cons a t ih =>
    simp only [List.cons_append, List.takeWhile_cons] at h ⊢
    split
    · rename_i hp
      simp only [hp, if_true, List.length_cons] at h
      rw [ih (by omega)]
    · rfl

theorem cstr_append_of_lt (l m : List Byte) (h : (cstr l).length < l.length) : cstr (l ++ m) = cstr l :=
  takeWhile_append_of_lt _ l m h

theorem cstr_length_le (l : List Byte) : (cstr l).length ≤ l.length := by
  unfold cstr
  induction l with
  | nil => simp
  | cons a t ih =>
    simp only [List.takeWhile_cons]
    split
    · simp only [List.length_cons]; omega
    · simp

/-- a text followed by its terminator: the C string is no longer than the text -/
theorem cstr_terminated_le (s r : List Byte) : (cstr (s ++ 0 :: r)).length ≤ s.length := by
  induction s with
  | nil => simp [cstr]
  | cons a t ih =>
    simp only [cstr, List.cons_append, List.takeWhile_cons] at ih ⊢
    split
    · simp only [List.length_cons]; omega
    · simp

/-! the slot search since the repair -/

theorem firstFree_le (l : List Slot) : firstFree l ≤ l.length := by
  induction l with
  | nil => simp [firstFree]
  | cons s t ih => simp only [firstFree]; split <;> simp <;> omega

theorem markBefore_length (ty : Int) (k : Nat) (l : List Slot) : (markBefore ty k l).length = l.length := by
  induction l generalizing k with
  | nil => cases k <;> simp [markBefore]
  | cons s t ih => cases k <;> simp [markBefore, ih]

theorem markBefore_live_mem (ty : Int) (k : Nat) (l : List Slot) (s : Slot) (h : s ∈ markBefore ty k l) (hp : s.type > 0) : s ∈ l := by
  induction l generalizing k with
  | nil => cases k <;> simp [markBefore] at h
  | cons a t ih =>
    cases k with
    | zero => simpa [markBefore] using h
    | succ k =>
      simp only [markBefore] at h
      rcases List.mem_cons.mp h with h | h
      · split at h
        · subst h; simp at hp
        · subst h; simp
      · exact List.mem_cons_of_mem _ (ih k h)

/-- lookups of another (real) type do not see the marks -/
theorem markBefore_find_other (ty ty' : Int) (k : Nat) (l : List Slot) (hne : ty' ≠ ty) (hm : ty' ≠ -1) :
    (markBefore ty k l).find? (fun s => decide (s.type = ty')) = l.find? (fun s => decide (s.type = ty')) := by
  induction l generalizing k with
  | nil => cases k <;> simp [markBefore]
  | cons a t ih =>
    cases k with
    | zero => simp [markBefore]
    | succ k =>
      simp only [markBefore]
      by_cases ha : a.type = ty
      · have h1 : ¬ a.type = ty' := by rw [ha]; exact fun h => hne h.symm
        have h2 : ¬ ty = ty' := fun h => hne h.symm
        simp [ha, List.find?_cons, h2, ih, Ne.symm hm]
      · simp [ha, List.find?_cons, ih]

end Sf.Meta
