/-
  DWVW encoder lemmas: the byte packer keeps the bit stream (`estream`), the stream of a sample sequence (`codes`),
  the arithmetic of `deltaOf` / `dwmOf` (wrap-around cases), every sample code is non-empty.
-/
import SfProofs.DwvwBits
namespace Sf.Dwvw.Proofs
open Sf Sf.Dwvw

/-! ### stream view of the writer -/

/-- everything the writer has produced so far, as bits: emitted bytes in file order, then the reservoir -/
def estream (e : ESt) : List Bool := bytesBits e.out.reverse ++ e.pend

theorem storeBits_spec (e : ESt) (bs : List Bool) :
    estream (storeBits e bs) = estream e ++ bs ∧ (storeBits e bs).pend.length < 8 ∧
      (storeBits e bs).ldw = e.ldw ∧ (storeBits e bs).last = e.last := by
  unfold storeBits estream
  have := drain_spec ((e.pend ++ bs).length / 8 + 1) (e.pend ++ bs) e.out (by omega)
  refine ⟨?_, this.2, rfl, rfl⟩
  simp only [List.append_assoc] at this ⊢
  exact this.1

/-- the bits of a sample sequence, with the encoder state threaded through -/
def codes (c : Cfg) : Int → Int → List Int → List Bool
  | _, _, [] => []
  | ldw, last, x :: xs => (encSample c ldw last x).bits ++ codes c (encSample c ldw last x).ldw (encSample c ldw last x).last xs

/-- `last_delta_width`, `last_sample` after a sample sequence -/
def endSt (c : Cfg) : Int → Int → List Int → Int × Int
  | ldw, last, [] => (ldw, last)
  | ldw, last, x :: xs => endSt c (encSample c ldw last x).ldw (encSample c ldw last x).last xs

theorem codes_append (c : Cfg) (ldw last : Int) (xs ys : List Int) :
    codes c ldw last (xs ++ ys) = codes c ldw last xs ++ codes c (endSt c ldw last xs).1 (endSt c ldw last xs).2 ys := by
  induction xs generalizing ldw last with
  | nil => rfl
  | cons x xs ih => simp [codes, endSt, ih]

theorem encStep_spec (c : Cfg) (e : ESt) (x : Int) :
    estream (encStep c e x) = estream e ++ (encSample c e.ldw e.last x).bits ∧
      (encStep c e x).ldw = (encSample c e.ldw e.last x).ldw ∧ (encStep c e x).last = (encSample c e.ldw e.last x).last := by
  unfold encStep
  have := storeBits_spec e (encSample c e.ldw e.last x).bits
  exact ⟨by simpa [estream] using this.1, rfl, rfl⟩

theorem encodeData_spec (c : Cfg) (e : ESt) (xs : List Int) :
    estream (encodeData c e xs) = estream e ++ codes c e.ldw e.last xs ∧
      ((encodeData c e xs).ldw, (encodeData c e xs).last) = endSt c e.ldw e.last xs := by
  induction xs generalizing e with
  | nil => simp [encodeData, codes, endSt]
  | cons x xs ih =>
    have h := encStep_spec c e x
    have := ih (encStep c e x)
    simp only [encodeData, List.foldl_cons] at this ⊢
    rw [this.1, this.2, h.1, h.2.1, h.2.2]
    simp [codes, endSt]

theorem encStep_pend (c : Cfg) (e : ESt) (x : Int) : (encStep c e x).pend.length < 8 := (storeBits_spec e _).2.1

theorem encodeData_pend (c : Cfg) (e : ESt) (xs : List Int) (h : e.pend.length < 8) : (encodeData c e xs).pend.length < 8 := by
  induction xs generalizing e with
  | nil => simpa [encodeData]
  | cons x xs ih => simpa [encodeData] using ih (encStep c e x) (encStep_pend c e x)

/-- the file after close: its bits, followed by fewer than eight bits that stay in the reservoir, are the codes of the
    samples and of the twelve zero samples -/
theorem encodeAll_bits (c : Cfg) (xs : List Int) :
    ∃ p : List Bool, p.length < 8 ∧
      bytesBits (encodeAll c xs) ++ p = codes c 0 0 xs ++ codes c (endSt c 0 0 xs).1 (endSt c 0 0 xs).2 (List.replicate 12 0) := by
  let e1 := encodeData c {} xs
  let e2 := encodeData c e1 (List.replicate 12 0)
  refine ⟨e2.pend, encodeData_pend c e1 _ (encodeData_pend c {} xs (by simp)), ?_⟩
  have h1 := encodeData_spec c {} xs
  have h2 := encodeData_spec c e1 (List.replicate 12 0)
  have : estream e2 = bytesBits (encodeAll c xs) ++ e2.pend := rfl
  rw [← this, h2.1, h1.1]
  have h3 : (e1.ldw, e1.last) = endSt c 0 0 xs := h1.2
  have h4 : e1.ldw = (endSt c 0 0 xs).1 := by rw [← h3]
  have h5 : e1.last = (endSt c 0 0 xs).2 := by rw [← h3]
  rw [h4, h5]
  simp [estream, bytesBits]

/-! ### arithmetic of one sample -/

theorem cmod_wrap (d0 M : Int) (h1 : -(2 * M) < d0) (h2 : d0 < -M) : cmod d0 M = d0 + M := by
  unfold cmod
  rw [if_neg (by omega)]
  have : (-d0) % M = -d0 - M := by
    rw [Int.emod_eq_sub_self_emod]
    exact Int.emod_eq_of_lt (by omega) (by omega)
  omega

/-- what the decoder rebuilds from the stored magnitude, sign and extra bit -/
def recon (c : Cfg) (last : Int) (r : Delta) : Int :=
  let D : Int := r.delta + (if r.delta = c.maxDelta - 1 then (if r.extra = 1 then 1 else 0) else 0)
  let s0 : Int := last + (if r.neg then -D else D)
  if s0 ≥ c.maxDelta then s0 - c.span else if s0 < -c.maxDelta then s0 + c.span else s0

set_option maxHeartbeats 4000000 in
theorem deltaOf_gen (c : Cfg) (M : Int) (hM : c.maxDelta = M) (hS : c.span = 2 * M) (hM2 : 2 ≤ M) (s last : Int)
    (hs : -M ≤ s ∧ s < M) (hl : -M ≤ last ∧ last < M) :
    0 ≤ (deltaOf c (s - last)).delta ∧ (deltaOf c (s - last)).delta ≤ M - 1 ∧
      ((deltaOf c (s - last)).extra = -1 ∨ (deltaOf c (s - last)).extra = 0 ∨ (deltaOf c (s - last)).extra = 1) ∧
      ((deltaOf c (s - last)).extra ≥ 0 ↔ (deltaOf c (s - last)).delta = M - 1) ∧
      recon c last (deltaOf c (s - last)) = s := by
  unfold recon deltaOf deltaMag deltaNeg extra0 iabs
  simp only [hM, hS]
  by_cases h1 : s - last < -M
  · have := cmod_wrap (s - last) M (by omega) h1
    simp only [if_pos h1, this]
    refine ⟨?_, ?_, ?_, ?_, ?_⟩ <;> first | omega | (split_ifs <;> first | contradiction | omega | (simp; done) | (constructor <;> intro <;> omega) | (simp_all; done))
  · simp only [if_neg h1]
    by_cases h2 : s - last = -M
    · simp only [if_pos h2]
      refine ⟨?_, ?_, ?_, ?_, ?_⟩ <;> first | omega | (split_ifs <;> first | contradiction | omega | (simp; done) | (constructor <;> intro <;> omega) | (simp_all; done))
    · simp only [if_neg h2]
      by_cases h3 : s - last > M
      · simp only [if_pos h3]
        refine ⟨?_, ?_, ?_, ?_, ?_⟩ <;> first | omega | (split_ifs <;> first | contradiction | omega | (simp; done) | (constructor <;> intro <;> omega) | (simp_all; done))
      · simp only [if_neg h3]
        by_cases h4 : s - last = M
        · simp only [if_pos h4]
          refine ⟨?_, ?_, ?_, ?_, ?_⟩ <;> first | omega | (split_ifs <;> first | contradiction | omega | (simp; done) | (constructor <;> intro <;> omega) | (simp_all; done))
        · simp only [if_neg h4]
          by_cases h5 : s - last < 0
          · simp only [if_pos h5]
            refine ⟨?_, ?_, ?_, ?_, ?_⟩ <;> first | omega | (split_ifs <;> first | contradiction | omega | (simp; done) | (constructor <;> intro <;> omega) | (simp_all; done))
          · simp only [if_neg h5]
            refine ⟨?_, ?_, ?_, ?_, ?_⟩ <;> first | omega | (split_ifs <;> first | contradiction | omega | (simp; done) | (constructor <;> intro <;> omega) | (simp_all; done))

theorem cfg_consts (c : Cfg) (hw : c.ok) :
    c.span = 2 * c.maxDelta ∧ 2 ≤ c.maxDelta ∧ c.maxDelta ≤ 2 ^ 23 ∧ (c.maxDelta = 2 ^ (c.w - 1)) ∧ 1 ≤ c.dwmMax ∧
      (c.dwmMax : Int) * 2 = c.w ∧ c.w ≤ 24 ∧ 12 ≤ c.w := by
  obtain ⟨w⟩ := c
  rcases hw with h | h | h <;> simp only at h <;> subst h <;> simp [Cfg.maxDelta, Cfg.span, Cfg.dwmMax]

theorem deltaOf_spec (c : Cfg) (hw : c.ok) (s last : Int) (hs : -c.maxDelta ≤ s ∧ s < c.maxDelta)
    (hl : -c.maxDelta ≤ last ∧ last < c.maxDelta) :
    0 ≤ (deltaOf c (s - last)).delta ∧ (deltaOf c (s - last)).delta ≤ c.maxDelta - 1 ∧
      ((deltaOf c (s - last)).extra = -1 ∨ (deltaOf c (s - last)).extra = 0 ∨ (deltaOf c (s - last)).extra = 1) ∧
      ((deltaOf c (s - last)).extra ≥ 0 ↔ (deltaOf c (s - last)).delta = c.maxDelta - 1) ∧
      recon c last (deltaOf c (s - last)) = s :=
  deltaOf_gen c c.maxDelta rfl (cfg_consts c hw).1 (cfg_consts c hw).2.1 s last hs hl

theorem dwmOf_spec (c : Cfg) (hw : c.ok) (dw ldw : Int) (h1 : 0 ≤ dw ∧ dw < c.w) (h2 : 0 ≤ ldw ∧ ldw < c.w) :
    iabs (dwmOf c dw ldw) ≤ c.dwmMax ∧ cmod (ldw + dwmOf c dw ldw + c.w) c.w = dw := by
  obtain ⟨w⟩ := c
  rcases hw with h | h | h <;> simp only at h <;> subst h <;>
  · simp only [Cfg.dwmMax] at h1 h2 ⊢
    unfold dwmOf cmod iabs
    simp only [Cfg.dwmMax]
    norm_num at h1 h2 ⊢
    split_ifs <;> omega

end Sf.Dwvw.Proofs
