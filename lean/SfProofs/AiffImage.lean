/-
  SfProofs.AiffImage — `parse` of an image  `hdrRaw … ++ body`  whose SSND size field describes `body`
  (closed files: body = audio ++ pad byte; header-update snapshots: body = audio).
-/
import SfModel.Aiff
import SfProofs.AiffRead
namespace Sf.Aiff

/-- finite facts about the 18 accepted (codec, endian) pairs -/
theorem cfg_facts (c : Cfg) (k : Kind) (ha : accepted c = true) (hk : kindOf c = some k) :
    (k.aifc = false → commFmt (mk4 "NONE") ((bytewidthOf c.codec * 8 : Nat) : Int) = (some (some c.fmtWord), ((bytewidthOf c.codec * 8 : Nat) : Int)) ∧ c.isFloat = false) ∧
    (k.aifc = true → k.enc.length = 4 ∧ commFmt k.enc ((bytewidthOf c.codec * 8 : Nat) : Int) = (some (some c.fmtWord), ((bytewidthOf c.codec * 8 : Nat) : Int))) ∧
    (∀ ch : Nat, blockwidthOf c.fmtWord ((bytewidthOf c.codec * 8 : Nat) : Int) ch = some (((bytewidthOf c.codec * ch : Nat)) : Int)) ∧
    0 < bytewidthOf c.codec ∧ bytewidthOf c.codec * 8 < 2 ^ 15 := by
  obtain ⟨codec, endian, ch0, sr0⟩ := c
  simp only [accepted, decide_eq_true_eq, Bool.or_eq_true, Bool.and_eq_true] at ha
  have hcases : (codec = 2 ∨ codec = 3 ∨ codec = 4) ∧ (endian = 0 ∨ endian = 1 ∨ endian = 2 ∨ endian = 3) ∨
      endian = 0 ∧ (codec = 1 ∨ codec = 5 ∨ codec = 6 ∨ codec = 7 ∨ codec = 0x10 ∨ codec = 0x11) := by
    rcases ha with ⟨h1, h2⟩ | h
    · left; exact ⟨h1, by omega⟩
    · right; exact h
  rcases hcases with ⟨hc, he⟩ | ⟨he, hc⟩
  · rcases hc with hc | hc | hc <;> rcases he with he | he | he | he <;> subst hc <;> subst he <;>
      (simp only [kindOf] at hk; cases hk; refine ⟨?_, ?_, ?_, ?_, ?_⟩) <;>
      first
        | decide
        | (intro h; exact absurd h (by decide))
        | (intro h; refine ⟨?_, ?_⟩ <;> (simp [Cfg.fmtWord, kindOf, bytewidthOf, Cfg.isFloat, mk4] <;> decide))
        | (intro ch; simp [blockwidthOf, pcmKeys, Cfg.fmtWord, kindOf, bytewidthOf, mk4]; try omega)
        | (simp [bytewidthOf])
  · rcases hc with hc | hc | hc | hc | hc | hc <;> subst hc <;> subst he <;>
      (simp only [kindOf] at hk; cases hk; refine ⟨?_, ?_, ?_, ?_, ?_⟩) <;>
      first
        | decide
        | (intro h; exact absurd h (by decide))
        | (intro h; refine ⟨?_, ?_⟩ <;> (simp [Cfg.fmtWord, kindOf, bytewidthOf, Cfg.isFloat, mk4] <;> decide))
        | (intro ch; simp [blockwidthOf, pcmKeys, Cfg.fmtWord, kindOf, bytewidthOf, mk4]; try omega)
        | (simp [bytewidthOf])

theorem ten2int_int2ten_pos (r : Nat) (h : 1 ≤ r) (h2 : r ≤ 0x7FFFFFFF) : 1 ≤ ten2int (int2ten r) := by
  rw [ten2int_int2ten_exact r h (by omega)]; omega

theorem tdiv_cast (a b : Nat) : Int.tdiv (a : Int) (b : Int) = ((a / b : Nat) : Int) := by
  rw [Int.tdiv_eq_ediv_of_nonneg (by omega)]; simp

/-- `finish` on the scanner state a written image leaves behind (`T` bytes — the pad — follow the audio) -/
theorem finish_ok (c : Cfg) (k : Kind) (hwf : c.wf) (hk : kindOf c = some k) (D B T : Nat) (hD : 0 < D) (s : Sc)
    (hs : s.ch = c.ch) (hf : s.fmt = c.fmtWord) (hss : s.sampleSize = ((bytewidthOf c.codec * 8 : Nat) : Int))
    (hc : s.haveComm = true) (hdo : s.dataoffset = (D : Int))
    (hde : s.dataend = if T > 0 then ((D + B : Nat) : Int) else 0) (hsr : s.sr = ten2int (int2ten c.sr)) :
    finish (D + B + T) s = .ok { ch := c.ch, fmt := c.fmtWord, sr := (ten2int (int2ten c.sr)).toNat, frames := B / c.bw } := by
  obtain ⟨ha, hch1, hch2, hsr1, hsr2⟩ := hwf
  obtain ⟨_, _, fB, fbw, _⟩ := cfg_facts c k ha hk
  have hpos := ten2int_int2ten_pos c.sr hsr1 hsr2
  unfold finish
  have g1 : ¬ (c.ch < 1 ∨ (!true) = true) := by simp; omega
  simp only [hs, hc, g1, if_false, hf, hss, fB c.ch, hdo, hsr]
  have hbwpos : 0 < bytewidthOf c.codec * c.ch := Nat.mul_pos fbw (by omega)
  have g4 : (((bytewidthOf c.codec * c.ch : Nat) : Int) > 0) := by omega
  have hdl : (if ((D + B + T : Nat) : Int) > (D : Int) then (if s.dataend > 0 then s.dataend - (D : Int) else ((D + B + T : Nat) : Int) - (D : Int)) else 0) = (B : Int) := by
    rw [hde]
    by_cases hT : T > 0
    · have h1 : ((D + B + T : Nat) : Int) > (D : Int) := by omega
      have h2 : ((D + B : Nat) : Int) > 0 := by omega
      simp only [hT, h1, h2, if_true]; omega
    · have hT0 : T = 0 := by omega
      subst hT0
      have g3 : ¬ ((0 : Int) > 0) := by decide
      simp only [Nat.lt_irrefl, if_false, g3, Nat.add_zero]
      by_cases h : ((D + B : Nat) : Int) > (D : Int)
      · simp only [h, if_true]; omega
      · simp only [h, if_false]; omega
  simp only [hdl, g4, if_true, tdiv_cast]
  have n1 : ¬ ten2int (int2ten c.sr) < 1 := by omega
  have n2 : ¬ ((B / (bytewidthOf c.codec * c.ch) : Nat) : Int) < 0 := Int.not_lt.mpr (Int.natCast_nonneg _)
  have n3 : ¬ (B : Int) < 0 := by omega
  have n4 : ¬ (D : Int) < 0 := by omega
  simp only [n1, n2, n3, n4, or_false, if_false, Int.toNat_natCast, Cfg.bw]

theorem mk4_length_FORM : (mk4 "FORM").length = 4 := by decide
theorem mk4_length_AIFF : (mk4 "AIFF").length = 4 := by decide
theorem mk4_length_AIFC : (mk4 "AIFC").length = 4 := by decide

theorem walk_succ (bs : List Byte) (n : Nat) (s : Sc) :
    walk bs (n + 1) s = (match step bs s with
      | .cont s' => walk bs n s'
      | .stop s' => some (some s')
      | .fail => some none
      | .unm => none) := rfl

theorem drop_zero_eq {bs x : List Byte} (h : x = bs) : bs.drop 0 = x := by rw [List.drop_zero, h]

theorem drop_cast {bs x : List Byte} {p q : Nat} (h : bs.drop p = x) (e : q = p) : bs.drop q = x := e ▸ h

/-! existential forms of the step lemmas (what the next step needs to know about the new state) -/

theorem step_comm18_ex (bs : List Byte) (s : Sc) (ch bits : Nat) (frames : Int) (ten rest : List Byte) (w : Nat) (ss : Int)
    (hd : bs.drop s.pos = mk4 "COMM" ++ (be32 18 ++ (be16 ch ++ (be32 frames ++ (be16 bits ++ (ten ++ rest))))))
    (hten : ten.length = 10) (hch : 1 ≤ ch ∧ ch ≤ 1024) (hbits : bits < 2 ^ 15)
    (hf : commFmt (mk4 "NONE") bits = (some (some w), ss))
    (hlen : s.pos + 26 + 8 < bs.length) (hc : s.csize % 2 = 0) (hu : s.used ≤ cacheLimit) :
    ∃ s', step bs s = .cont s' ∧ s'.pos = s.pos + 26 ∧ s'.used = s.used + 26 ∧ s'.csize = 18 ∧ s'.haveComm = true ∧ s'.ch = ch ∧
      s'.sr = ten2int ten ∧ s'.fmt = w ∧ s'.sampleSize = ss ∧ s'.dataend = s.dataend :=
  ⟨_, step_comm18 bs s ch bits frames ten rest w ss hd hten hch hbits hf hlen hc hu, by first | rfl | (simp only []; omega), by simp only [], rfl, rfl, rfl, rfl, rfl, rfl, rfl⟩

theorem step_comm24_ex (bs : List Byte) (s : Sc) (ch bits : Nat) (frames : Int) (ten enc rest : List Byte) (w : Nat) (ss : Int)
    (hd : bs.drop s.pos = mk4 "COMM" ++ (be32 24 ++ (be16 ch ++ (be32 frames ++ (be16 bits ++ (ten ++ (enc ++ ([0] ++ ([0] ++ rest)))))))))
    (hten : ten.length = 10) (henc : enc.length = 4) (hch : 1 ≤ ch ∧ ch ≤ 1024) (hbits : bits < 2 ^ 15)
    (hf : commFmt enc bits = (some (some w), ss))
    (hlen : s.pos + 32 + 8 < bs.length) (hc : s.csize % 2 = 0) (hu : s.used ≤ cacheLimit) :
    ∃ s', step bs s = .cont s' ∧ s'.pos = s.pos + 32 ∧ s'.used = s.used + 32 ∧ s'.csize = 24 ∧ s'.haveComm = true ∧ s'.ch = ch ∧
      s'.sr = ten2int ten ∧ s'.fmt = w ∧ s'.sampleSize = ss ∧ s'.dataend = s.dataend :=
  ⟨_, step_comm24 bs s ch bits frames ten enc rest w ss hd hten henc hch hbits hf hlen hc hu, by first | rfl | (simp only []; omega), by simp only [], rfl, rfl, rfl, rfl, rfl, rfl, rfl⟩

theorem step_fver_ex (bs : List Byte) (s : Sc) (rest : List Byte)
    (hd : bs.drop s.pos = mk4 "FVER" ++ (be32 4 ++ (be32 0xA2805140 ++ rest)))
    (hlen : s.pos + 12 + 8 < bs.length) (hc : s.csize % 2 = 0) (hu : s.used ≤ cacheLimit) :
    ∃ s', step bs s = .cont s' ∧ s'.pos = s.pos + 12 ∧ s'.used = s.used + 12 ∧ s'.csize = 4 ∧ s'.dataend = s.dataend :=
  ⟨_, step_fver bs s rest hd hlen hc hu, by first | rfl | (simp only []; omega), by simp only [], rfl, rfl⟩

theorem step_peak_ex (bs : List Byte) (s : Sc) (body rest : List Byte)
    (hd : bs.drop s.pos = mk4 "PEAK" ++ (be32 ((8 + 8 * s.ch : Nat) : Int) ++ (body ++ rest)))
    (hb : body.length = 8 + 8 * s.ch) (hch : s.ch ≤ 1024) (hcomm : s.haveComm = true)
    (hlen : s.pos + 8 + (8 + 8 * s.ch) + 8 < bs.length) (hc : s.csize % 2 = 0) (hu : s.used ≤ cacheLimit) :
    ∃ s', step bs s = .cont s' ∧ s'.pos = s.pos + 16 + 8 * s.ch ∧ s'.used = s.used + 16 + 8 * s.ch ∧ s'.csize = 8 + 8 * s.ch ∧
      s'.haveComm = true ∧ s'.ch = s.ch ∧ s'.sr = s.sr ∧ s'.fmt = s.fmt ∧ s'.sampleSize = s.sampleSize ∧ s'.dataend = s.dataend :=
  ⟨_, step_peak bs s body rest hd hb hch hcomm hlen hc hu, by first | rfl | (simp only []; omega), by first | rfl | (simp only []; omega), rfl, by simp only [hcomm], rfl, rfl, rfl, rfl, rfl⟩

theorem step_ssnd_ex (bs : List Byte) (s : Sc) (B : Nat) (body tl : List Byte)
    (hd : bs.drop s.pos = mk4 "SSND" ++ (be32 ((B : Int) + 8) ++ (be32 0 ++ (be32 0 ++ (body ++ tl)))))
    (hB : body.length = B) (htl : tl.length ≤ 8) (hB32 : B + 8 < 2 ^ 32) (hc : s.csize % 2 = 0) (hu : s.used ≤ cacheLimit) (he : s.dataend = 0) :
    ∃ s', step bs s = .stop s' ∧ s'.haveComm = s.haveComm ∧ s'.ch = s.ch ∧ s'.sr = s.sr ∧ s'.fmt = s.fmt ∧ s'.sampleSize = s.sampleSize ∧
      s'.dataoffset = ((s.pos + 16 : Nat) : Int) ∧ s'.dataend = (if tl.length > 0 then ((s.pos + 16 + B : Nat) : Int) else 0) :=
  ⟨_, (step_ssnd bs s B body tl hd hB htl hB32 hc hu he).2, rfl, rfl, rfl, rfl, rfl, rfl, rfl⟩

/-- the end of `parse` once the chunk walk is known -/
theorem parse_of_walk (bs : List Byte) (rest : List Byte) (fl : Int) (ty : List Byte) (hty : ty = mk4 "AIFF" ∨ ty = mk4 "AIFC")
    (hbs : bs = mk4 "FORM" ++ (be32 fl ++ (ty ++ rest))) (hlen : 21 ≤ bs.length) (s : Sc)
    (hw : walk bs bs.length { pos := 12 } = some (some s)) : parse bs = finish bs.length s := by
  have d0 := drop_zero_eq hbs.symm
  have t0 : bs.take 4 = mk4 "FORM" := by rw [hbs]; exact List.take_left' mk4_length_FORM
  have d1 := drop_at d0 mk4_length_FORM
  have d2 := drop_at d1 (be32_length _)
  have htl : ty.length = 4 := by rcases hty with h | h <;> rw [h] <;> decide
  have t2 : (bs.drop 8).take 4 = ty := by
    have : bs.drop 8 = _ := d2
    rw [this]; exact List.take_left' htl
  unfold parse
  have c1 : ¬ bs.length < 12 := by omega
  have c2 : ¬ (ty = mk4 "8SVX" ∨ ty = mk4 "16SV") := by rcases hty with h | h <;> rw [h] <;> decide
  have c3 : ¬ (ty ≠ mk4 "AIFF" ∧ ty ≠ mk4 "AIFC") := by rcases hty with h | h <;> rw [h] <;> decide
  have c4 : ¬ ((12 : Int) ≥ (bs.length : Int) - 8) := by omega
  simp only [c1, if_false, t0, ne_eq, not_true_eq_false, t2, c2, c3, c4, hw]

/-- plain AIFF (PCM with the default byte order): FORM, COMM (18), SSND -/
theorem parse_image_aiff (c : Cfg) (k : Kind) (hwf : c.wf) (hk : kindOf c = some k) (haifc : k.aifc = false)
    (frames : Int) (fl : Int) (body tl : List Byte) (htl : tl.length ≤ 8) (hB : body.length + 8 < 2 ^ 32) :
    parse (mk4 "FORM" ++ (be32 fl ++ (mk4 "AIFF" ++ (mk4 "COMM" ++ (be32 18 ++ (be16 c.ch ++ (be32 frames ++
      (be16 ((bytewidthOf c.codec * 8 : Nat) : Int) ++ (int2ten c.sr ++
      (mk4 "SSND" ++ (be32 ((body.length : Int) + 8) ++ (be32 0 ++ (be32 0 ++ (body ++ tl)))))))))))))) =
      .ok { ch := c.ch, fmt := c.fmtWord, sr := (ten2int (int2ten c.sr)).toNat, frames := body.length / c.bw } := by
  have hwf' := hwf
  obtain ⟨ha, hch1, hch2, hsr1, hsr2⟩ := hwf
  obtain ⟨fA, _, _, _, fbits⟩ := cfg_facts c k ha hk
  obtain ⟨hfmt, _⟩ := fA haifc
  obtain ⟨bs, hbs⟩ : ∃ bs, bs = (mk4 "FORM" ++ (be32 fl ++ (mk4 "AIFF" ++ (mk4 "COMM" ++ (be32 18 ++ (be16 c.ch ++ (be32 frames ++
      (be16 ((bytewidthOf c.codec * 8 : Nat) : Int) ++ (int2ten c.sr ++
      (mk4 "SSND" ++ (be32 ((body.length : Int) + 8) ++ (be32 0 ++ (be32 0 ++ (body ++ tl)))))))))))))) := ⟨_, rfl⟩
  rw [← hbs]
  have d0 := drop_zero_eq hbs.symm
  have d1 := drop_at d0 mk4_length_FORM
  have d2 := drop_at d1 (be32_length _)
  have d3 := drop_at d2 mk4_length_AIFF
  have hlen : bs.length = 54 + body.length + tl.length := by
    rw [hbs]; simp [mk4_length_FORM, mk4_length_AIFF, mk4_length_COMM, mk4_length_SSND, be32_length, be16_length, int2ten_length]; omega
  obtain ⟨s1, st1, p1, u1, cs1, hc1, ch1, sr1, f1, ss1, de1⟩ :=
    step_comm18_ex bs { pos := 12 } c.ch (bytewidthOf c.codec * 8) frames (int2ten c.sr) _ c.fmtWord _ d3 (int2ten_length _)
      ⟨hch1, hch2⟩ fbits hfmt (by show 12 + 26 + 8 < bs.length; omega) rfl (by decide)
  have d4 := drop_at d3 mk4_length_COMM
  have d5 := drop_at d4 (be32_length _)
  have d6 := drop_at d5 (be16_length _)
  have d7 := drop_at d6 (be32_length _)
  have d8 := drop_at d7 (be16_length _)
  have d9 := drop_at d8 (int2ten_length c.sr)
  have p1' : s1.pos = 38 := p1
  have hs1d := drop_cast (q := s1.pos) d9 (by rw [p1'])
  obtain ⟨s2, st2, hc2, ch2, sr2, f2, ss2, do2, de2⟩ :=
    step_ssnd_ex bs s1 body.length body tl hs1d rfl htl hB (by rw [cs1]) (by rw [u1]; decide) (by rw [de1])
  have hw : walk bs bs.length { pos := 12 } = some (some s2) := by
    obtain ⟨n, hn⟩ : ∃ n, bs.length = n + 1 + 1 := ⟨52 + body.length + tl.length, by omega⟩
    rw [hn, walk_succ, st1]
    simp only [walk_succ, st2]
  rw [parse_of_walk bs _ fl (mk4 "AIFF") (Or.inl rfl) hbs (by omega) s2 hw, hlen]
  exact finish_ok c k hwf' hk 54 body.length tl.length (by decide) s2 (by rw [ch2, ch1]) (by rw [f2, f1]) (by rw [ss2, ss1]) (by rw [hc2, hc1])
    (by rw [do2, p1']) (by rw [de2, p1']) (by rw [sr2, sr1])


/-- AIFF-C without PEAK: FORM, FVER, COMM (24), SSND -/
theorem parse_image_aifc (c : Cfg) (k : Kind) (hwf : c.wf) (hk : kindOf c = some k) (haifc : k.aifc = true)
    (frames : Int) (fl : Int) (body tl : List Byte) (htl : tl.length ≤ 8) (hB : body.length + 8 < 2 ^ 32) :
    parse (mk4 "FORM" ++ (be32 fl ++ (mk4 "AIFC" ++ (mk4 "FVER" ++ (be32 4 ++ (be32 0xA2805140 ++
      (mk4 "COMM" ++ (be32 24 ++ (be16 c.ch ++ (be32 frames ++
      (be16 ((bytewidthOf c.codec * 8 : Nat) : Int) ++ (int2ten c.sr ++ (k.enc ++ ([0] ++ ([0] ++
      (mk4 "SSND" ++ (be32 ((body.length : Int) + 8) ++ (be32 0 ++ (be32 0 ++ (body ++ tl)))))))))))))))))))) =
      .ok { ch := c.ch, fmt := c.fmtWord, sr := (ten2int (int2ten c.sr)).toNat, frames := body.length / c.bw } := by
  have hwf' := hwf
  obtain ⟨ha, hch1, hch2, hsr1, hsr2⟩ := hwf
  obtain ⟨_, fC, _, _, fbits⟩ := cfg_facts c k ha hk
  obtain ⟨henc, hfmt⟩ := fC haifc
  obtain ⟨bs, hbs⟩ : ∃ bs, bs = (mk4 "FORM" ++ (be32 fl ++ (mk4 "AIFC" ++ (mk4 "FVER" ++ (be32 4 ++ (be32 0xA2805140 ++
      (mk4 "COMM" ++ (be32 24 ++ (be16 c.ch ++ (be32 frames ++
      (be16 ((bytewidthOf c.codec * 8 : Nat) : Int) ++ (int2ten c.sr ++ (k.enc ++ ([0] ++ ([0] ++
      (mk4 "SSND" ++ (be32 ((body.length : Int) + 8) ++ (be32 0 ++ (be32 0 ++ (body ++ tl)))))))))))))))))))) := ⟨_, rfl⟩
  rw [← hbs]
  have d0 := drop_zero_eq hbs.symm
  have d1 := drop_at d0 mk4_length_FORM
  have d2 := drop_at d1 (be32_length _)
  have d3 := drop_at d2 mk4_length_AIFC
  have hlen : bs.length = 72 + body.length + tl.length := by
    rw [hbs]; simp [mk4_length_FORM, mk4_length_AIFC, mk4_length_FVER, mk4_length_COMM, mk4_length_SSND, be32_length, be16_length, int2ten_length, henc]; omega
  obtain ⟨s1, st1, p1, u1, cs1, de1⟩ := step_fver_ex bs { pos := 12 } _ d3 (by show 12 + 12 + 8 < bs.length; omega) rfl (by decide)
  have d4 := drop_at d3 mk4_length_FVER
  have d5 := drop_at d4 (be32_length _)
  have d6 := drop_at d5 (be32_length _)
  have p1' : s1.pos = 24 := p1
  have hs1d := drop_cast (q := s1.pos) d6 (by rw [p1'])
  obtain ⟨s2, st2, p2, u2, cs2, hc2, ch2, sr2, f2, ss2, de2⟩ :=
    step_comm24_ex bs s1 c.ch (bytewidthOf c.codec * 8) frames (int2ten c.sr) k.enc _ c.fmtWord _ hs1d (int2ten_length _) henc
      ⟨hch1, hch2⟩ fbits hfmt (by rw [p1']; omega) (by rw [cs1]) (by rw [u1]; decide)
  have e1 := drop_at d6 mk4_length_COMM
  have e2 := drop_at e1 (be32_length _)
  have e3 := drop_at e2 (be16_length _)
  have e4 := drop_at e3 (be32_length _)
  have e5 := drop_at e4 (be16_length _)
  have e6 := drop_at e5 (int2ten_length c.sr)
  have e7 := drop_at e6 henc
  have e8 := drop_at (x := [0]) (n := 1) e7 rfl
  have e9 := drop_at (x := [0]) (n := 1) e8 rfl
  have p2' : s2.pos = 56 := by rw [p2, p1']
  have hs2d := drop_cast (q := s2.pos) e9 (by rw [p2'])
  obtain ⟨s3, st3, hc3, ch3, sr3, f3, ss3, do3, de3⟩ :=
    step_ssnd_ex bs s2 body.length body tl hs2d rfl htl hB (by rw [cs2]) (by rw [u2, u1]; decide) (by rw [de2, de1])
  have hw : walk bs bs.length { pos := 12 } = some (some s3) := by
    obtain ⟨n, hn⟩ : ∃ n, bs.length = n + 1 + 1 + 1 := ⟨69 + body.length + tl.length, by omega⟩
    rw [hn, walk_succ, st1]
    simp only [walk_succ, st2, st3]
  rw [parse_of_walk bs _ fl (mk4 "AIFC") (Or.inr rfl) hbs (by omega) s3 hw, hlen]
  exact finish_ok c k hwf' hk 72 body.length tl.length (by decide) s3 (by rw [ch3, ch2]) (by rw [f3, f2]) (by rw [ss3, ss2]) (by rw [hc3, hc2])
    (by rw [do3, p2']) (by rw [de3, p2']) (by rw [sr3, sr2])

/-- AIFF-C with a PEAK chunk (FLOAT / DOUBLE written in SFM_WRITE): FORM, FVER, COMM (24), PEAK, SSND;
    `pk` is the PEAK body (version, time stamp, one (value, position) pair per channel) -/
theorem parse_image_peak (c : Cfg) (k : Kind) (hwf : c.wf) (hk : kindOf c = some k) (haifc : k.aifc = true)
    (frames : Int) (fl : Int) (pk body tl : List Byte) (hpk : pk.length = 8 + 8 * c.ch) (htl : tl.length ≤ 8) (hB : body.length + 8 < 2 ^ 32) :
    parse (mk4 "FORM" ++ (be32 fl ++ (mk4 "AIFC" ++ (mk4 "FVER" ++ (be32 4 ++ (be32 0xA2805140 ++
      (mk4 "COMM" ++ (be32 24 ++ (be16 c.ch ++ (be32 frames ++
      (be16 ((bytewidthOf c.codec * 8 : Nat) : Int) ++ (int2ten c.sr ++ (k.enc ++ ([0] ++ ([0] ++
      (mk4 "PEAK" ++ (be32 ((8 + 8 * c.ch : Nat) : Int) ++ (pk ++
      (mk4 "SSND" ++ (be32 ((body.length : Int) + 8) ++ (be32 0 ++ (be32 0 ++ (body ++ tl))))))))))))))))))))))) =
      .ok { ch := c.ch, fmt := c.fmtWord, sr := (ten2int (int2ten c.sr)).toNat, frames := body.length / c.bw } := by
  have hwf' := hwf
  obtain ⟨ha, hch1, hch2, hsr1, hsr2⟩ := hwf
  obtain ⟨_, fC, _, _, fbits⟩ := cfg_facts c k ha hk
  obtain ⟨henc, hfmt⟩ := fC haifc
  obtain ⟨bs, hbs⟩ : ∃ bs, bs = (mk4 "FORM" ++ (be32 fl ++ (mk4 "AIFC" ++ (mk4 "FVER" ++ (be32 4 ++ (be32 0xA2805140 ++
      (mk4 "COMM" ++ (be32 24 ++ (be16 c.ch ++ (be32 frames ++
      (be16 ((bytewidthOf c.codec * 8 : Nat) : Int) ++ (int2ten c.sr ++ (k.enc ++ ([0] ++ ([0] ++
      (mk4 "PEAK" ++ (be32 ((8 + 8 * c.ch : Nat) : Int) ++ (pk ++
      (mk4 "SSND" ++ (be32 ((body.length : Int) + 8) ++ (be32 0 ++ (be32 0 ++ (body ++ tl))))))))))))))))))))))) := ⟨_, rfl⟩
  rw [← hbs]
  have d0 := drop_zero_eq hbs.symm
  have d1 := drop_at d0 mk4_length_FORM
  have d2 := drop_at d1 (be32_length _)
  have d3 := drop_at d2 mk4_length_AIFC
  have hlen : bs.length = 88 + 8 * c.ch + body.length + tl.length := by
    rw [hbs]; simp [mk4_length_FORM, mk4_length_AIFC, mk4_length_FVER, mk4_length_COMM, mk4_length_SSND, mk4_length_PEAK, be32_length, be16_length, int2ten_length, henc, hpk]; omega
  obtain ⟨s1, st1, p1, u1, cs1, de1⟩ := step_fver_ex bs { pos := 12 } _ d3 (by show 12 + 12 + 8 < bs.length; omega) rfl (by decide)
  have d4 := drop_at d3 mk4_length_FVER
  have d5 := drop_at d4 (be32_length _)
  have d6 := drop_at d5 (be32_length _)
  have p1' : s1.pos = 24 := p1
  have hs1d := drop_cast (q := s1.pos) d6 (by rw [p1'])
  obtain ⟨s2, st2, p2, u2, cs2, hc2, ch2, sr2, f2, ss2, de2⟩ :=
    step_comm24_ex bs s1 c.ch (bytewidthOf c.codec * 8) frames (int2ten c.sr) k.enc _ c.fmtWord _ hs1d (int2ten_length _) henc
      ⟨hch1, hch2⟩ fbits hfmt (by rw [p1']; omega) (by rw [cs1]) (by rw [u1]; decide)
  have e1 := drop_at d6 mk4_length_COMM
  have e2 := drop_at e1 (be32_length _)
  have e3 := drop_at e2 (be16_length _)
  have e4 := drop_at e3 (be32_length _)
  have e5 := drop_at e4 (be16_length _)
  have e6 := drop_at e5 (int2ten_length c.sr)
  have e7 := drop_at e6 henc
  have e8 := drop_at (x := [0]) (n := 1) e7 rfl
  have e9 := drop_at (x := [0]) (n := 1) e8 rfl
  have p2' : s2.pos = 56 := by rw [p2, p1']
  have hs2d := drop_cast (q := s2.pos) e9 (by rw [p2'])
  rw [← ch2] at hs2d
  obtain ⟨s3, st3, p3, u3, cs3, hc3, ch3, sr3, f3, ss3, de3⟩ :=
    step_peak_ex bs s2 pk _ hs2d (by rw [hpk, ch2]) (by rw [ch2]; exact hch2) hc2 (by rw [p2', ch2]; omega) (by rw [cs2])
      (by rw [u2, u1]; decide)
  rw [ch2] at p3 u3 cs3 hs2d
  have g1 := drop_at hs2d mk4_length_PEAK
  have g2 := drop_at g1 (be32_length _)
  have g3 := drop_at g2 hpk
  have p3' : s3.pos = 72 + 8 * c.ch := by rw [p3, p2']
  have hs3d := drop_cast (q := s3.pos) g3 (by rw [p3', p2']; omega)
  obtain ⟨s4, st4, hc4, ch4, sr4, f4, ss4, do4, de4⟩ :=
    step_ssnd_ex bs s3 body.length body tl hs3d rfl htl hB (by rw [cs3]; omega) (by rw [u3, u2, u1]; simp only [cacheLimit]; omega)
      (by rw [de3, de2, de1])
  have hw : walk bs bs.length { pos := 12 } = some (some s4) := by
    obtain ⟨n, hn⟩ : ∃ n, bs.length = n + 1 + 1 + 1 + 1 := ⟨84 + 8 * c.ch + body.length + tl.length, by omega⟩
    rw [hn, walk_succ, st1]
    simp only [walk_succ, st2, st3, st4]
  rw [parse_of_walk bs _ fl (mk4 "AIFC") (Or.inr rfl) hbs (by omega) s4 hw, hlen]
  exact finish_ok c k hwf' hk (88 + 8 * c.ch) body.length tl.length (by omega) s4 (by rw [ch4, ch3, ch2]) (by rw [f4, f3, f2]) (by rw [ss4, ss3, ss2])
    (by rw [hc4, hc3]) (by rw [do4, p3']; omega) (by rw [de4, p3']; split <;> simp <;> omega) (by rw [sr4, sr3, sr2])

end Sf.Aiff
