/-
  Helper lemmas for the PAF container theorems (SfProps/C04Paf.lean): length of the header, the reader on
  `hdr c ++ body` for both byte orders.
-/
import SfModel.Paf
import SfProofs.SmallSession
namespace Sf.Paf
open Sf Sf.Small

theorem mk4_paf_length : (mk4 " paf").length = 4 := by decide
theorem mk4_fap_length : (mk4 "fap ").length = 4 := by decide

theorem hdr_length (c : Cfg) : (hdr c).length = hdrLen := by
  unfold hdr hdrLen
  split <;> simp only [List.length_append, List.length_replicate, be32_length, le32_length, mk4_paf_length, mk4_fap_length]

theorem spec_lenOk (c : Cfg) : (spec c).LenOk := fun _ _ _ => hdr_length c

theorem cfg_cases (c : Cfg) (h : c.wf) : (c.codec = 0x01 ∨ c.codec = 0x02 ∨ c.codec = 0x03) ∧ 1 ≤ c.ch ∧ c.ch ≤ 1024 := by
  obtain ⟨ha, h1, _, _⟩ := h
  unfold accepted at ha
  simp only [Bool.decide_and, Bool.decide_or, Bool.and_eq_true, Bool.or_eq_true, decide_eq_true_eq] at ha
  exact ⟨ha.1, h1, ha.2.2⟩

/-- a marker and six 4-byte fields, read back at their offsets -/
theorem six_fields (m f1 f2 f3 f4 f5 f6 rest : List Byte) (hm : m.length = 4) (h1 : f1.length = 4) (h2 : f2.length = 4)
    (h3 : f3.length = 4) (h4 : f4.length = 4) (h5 : f5.length = 4) (h6 : f6.length = 4) :
    (m ++ f1 ++ f2 ++ f3 ++ f4 ++ f5 ++ f6 ++ rest).take 4 = m ∧
    slice (m ++ f1 ++ f2 ++ f3 ++ f4 ++ f5 ++ f6 ++ rest) 4 4 = f1 ∧ slice (m ++ f1 ++ f2 ++ f3 ++ f4 ++ f5 ++ f6 ++ rest) 8 4 = f2 ∧
    slice (m ++ f1 ++ f2 ++ f3 ++ f4 ++ f5 ++ f6 ++ rest) 12 4 = f3 ∧ slice (m ++ f1 ++ f2 ++ f3 ++ f4 ++ f5 ++ f6 ++ rest) 16 4 = f4 ∧
    slice (m ++ f1 ++ f2 ++ f3 ++ f4 ++ f5 ++ f6 ++ rest) 20 4 = f5 := by
  refine ⟨?_, ?_, ?_, ?_, ?_, ?_⟩
  · simp only [List.append_assoc]; exact List.take_left' hm
  · have e : m ++ f1 ++ f2 ++ f3 ++ f4 ++ f5 ++ f6 ++ rest = m ++ (f1 ++ (f2 ++ f3 ++ f4 ++ f5 ++ f6 ++ rest)) := by simp only [List.append_assoc]
    rw [e]; exact slice_field _ _ _ 4 4 hm.symm h1.symm
  · have e : m ++ f1 ++ f2 ++ f3 ++ f4 ++ f5 ++ f6 ++ rest = (m ++ f1) ++ (f2 ++ (f3 ++ f4 ++ f5 ++ f6 ++ rest)) := by simp only [List.append_assoc]
    rw [e]; exact slice_field _ _ _ 8 4 (by simp only [List.length_append, hm, h1]) h2.symm
  · have e : m ++ f1 ++ f2 ++ f3 ++ f4 ++ f5 ++ f6 ++ rest = (m ++ f1 ++ f2) ++ (f3 ++ (f4 ++ f5 ++ f6 ++ rest)) := by simp only [List.append_assoc]
    rw [e]; exact slice_field _ _ _ 12 4 (by simp only [List.length_append, hm, h1, h2]) h3.symm
  · have e : m ++ f1 ++ f2 ++ f3 ++ f4 ++ f5 ++ f6 ++ rest = (m ++ f1 ++ f2 ++ f3) ++ (f4 ++ (f5 ++ f6 ++ rest)) := by simp only [List.append_assoc]
    rw [e]; exact slice_field _ _ _ 16 4 (by simp only [List.length_append, hm, h1, h2, h3]) h4.symm
  · have e : m ++ f1 ++ f2 ++ f3 ++ f4 ++ f5 ++ f6 ++ rest = (m ++ f1 ++ f2 ++ f3 ++ f4) ++ (f5 ++ (f6 ++ rest)) := by simp only [List.append_assoc]
    rw [e]; exact slice_field _ _ _ 20 4 (by simp only [List.length_append, hm, h1, h2, h3, h4]) h5.symm

/-- frames a re-open reports for `B` bytes behind the header: whole frames for PCM S8 / 16, ten per (started) block
    of 32 bytes per channel for the 24-bit encoding -/
def framesOf (c : Cfg) (B : Nat) : Nat := if c.codec = 0x03 then Paf24.spb * Paf24.maxBlocks c.ch B else B / c.bw

theorem finish_ok (c : Cfg) (hwf : c.wf) (B : Nat) (little : Bool) (hl : little = c.little) :
    finish (2048 + B) little c.ch (c.sr : Int) (pafFormat c.codec) =
      .ok { ch := c.ch, fmt := c.fmtWord, sr := c.sr, frames := framesOf c B } := by
  obtain ⟨hc, h1, _⟩ := cfg_cases c hwf
  obtain ⟨_, _, hs1, hs2⟩ := hwf
  unfold finish framesOf Cfg.fmtWord
  rcases hc with h | h | h
  · have hcf : codecFrames (2048 + B) 2048 0 (((1 * c.ch : Nat)) : Int) = ((B : Int), ((B / (1 * c.ch) : Nat) : Int)) := codecFrames_body 2048 B (1 * c.ch)
    have hnn := Int.natCast_nonneg (B / (1 * c.ch))
    simp only [h, pafFormat, hl, Cfg.bw, Cfg.bytewidth, show ¬ ((1 : Nat) = 2) by decide, show ¬ ((1 : Nat) = 3) by decide, if_false, if_true, true_or, hcf]
    rw [if_neg (by omega)]
    simp only [Int.toNat_natCast]
  · have hcf : codecFrames (2048 + B) 2048 0 (((2 * c.ch : Nat)) : Int) = ((B : Int), ((B / (2 * c.ch) : Nat) : Int)) := codecFrames_body 2048 B (2 * c.ch)
    have hnn := Int.natCast_nonneg (B / (2 * c.ch))
    simp only [h, pafFormat, hl, Cfg.bw, Cfg.bytewidth, show ¬ ((2 : Nat) = 3) by decide, show ¬ ((0 : Nat) = 2) by decide, if_false, if_true, or_true, hcf]
    rw [if_neg (by omega)]
    simp only [Int.toNat_natCast]
  · simp only [h, pafFormat, hl, show ¬ ((3 : Nat) = 2) by decide, show ¬ ((1 : Nat) = 2) by decide, show ¬ ((1 : Nat) = 0) by decide, if_false, if_true, or_self]
    rw [if_neg (by omega)]
    simp only [Int.toNat_natCast, Nat.add_sub_cancel_left]

theorem sext_nat (v : Nat) (h : v ≤ 0x7FFFFFFF) : sext 32 v = (v : Int) := by
  unfold sext; rw [if_pos (by simp; omega)]

/-- the reader on a header this writer produced, followed by any bytes -/
theorem parse_hdr (c : Cfg) (hwf : c.wf) (body : List Byte) :
    parse (hdr c ++ body) = .ok { ch := c.ch, fmt := c.fmtWord, sr := c.sr, frames := framesOf c body.length } := by
  obtain ⟨hc, h1, h1024⟩ := cfg_cases c hwf
  have hsr := hwf.2.2
  have hlen : (hdr c ++ body).length = 2048 + body.length := by rw [List.length_append, hdr_length]; rfl
  have hpf : pafFormat c.codec < 2 ^ 32 := by unfold pafFormat; split <;> (try split) <;> decide
  by_cases hl : c.little = true
  · have e : hdr c ++ body = mk4 "fap " ++ le32 0 ++ le32 1 ++ le32 c.sr ++ le32 (pafFormat c.codec) ++ le32 c.ch ++ le32 0 ++ (List.replicate 2020 0 ++ body) := by
      unfold hdr; rw [hl]; simp only [if_true, List.append_assoc]
    obtain ⟨t, s4, s8, s12, s16, s20⟩ := six_fields (mk4 "fap ") (le32 0) (le32 1) (le32 c.sr) (le32 (pafFormat c.codec)) (le32 c.ch) (le32 0)
      (List.replicate 2020 0 ++ body) mk4_fap_length (le32_length _) (le32_length _) (le32_length _) (le32_length _) (le32_length _) (le32_length _)
    rw [← e] at t s4 s8 s12 s16 s20
    unfold parse
    rw [if_neg (by omega)]
    simp only [t, s4, s8, s12, s16, s20]
    rw [if_neg (by decide), if_neg (by omega)]
    simp only [show ¬ (mk4 "fap " = mk4 " paf") by decide, if_false]
    have v4 : ofLE (le32 0) = 0 := by decide
    have v8 : ofLE (le32 1) = 1 := by decide
    have v12 : ofLE (le32 (c.sr : Int)) = c.sr := by rw [ofLE_le32, wrapU_nat 32 c.sr (by omega)]
    have v16 : ofLE (le32 (pafFormat c.codec : Int)) = pafFormat c.codec := by rw [ofLE_le32, wrapU_nat 32 _ hpf]
    have v20 : ofLE (le32 (c.ch : Int)) = c.ch := by rw [ofLE_le32, wrapU_nat 32 c.ch (by omega)]
    rw [v4, v8, v12, v16, v20, sext_nat c.ch (by omega), sext_nat c.sr (by omega)]
    simp only [ne_eq, not_true_eq_false, if_false, Int.toNat_natCast]
    rw [if_neg (by omega), hlen]
    have := finish_ok c hwf body.length true hl.symm
    simpa using this
  · have hl' : c.little = false := by simpa using hl
    have e : hdr c ++ body = mk4 " paf" ++ be32 0 ++ be32 0 ++ be32 c.sr ++ be32 (pafFormat c.codec) ++ be32 c.ch ++ be32 0 ++ (List.replicate 2020 0 ++ body) := by
      unfold hdr; rw [hl']; simp only [Bool.false_eq_true, if_false, List.append_assoc]
    obtain ⟨t, s4, s8, s12, s16, s20⟩ := six_fields (mk4 " paf") (be32 0) (be32 0) (be32 c.sr) (be32 (pafFormat c.codec)) (be32 c.ch) (be32 0)
      (List.replicate 2020 0 ++ body) mk4_paf_length (be32_length _) (be32_length _) (be32_length _) (be32_length _) (be32_length _) (be32_length _)
    rw [← e] at t s4 s8 s12 s16 s20
    unfold parse
    rw [if_neg (by omega)]
    simp only [t, s4, s8, s12, s16, s20]
    rw [if_neg (by decide), if_neg (by omega)]
    simp only [if_true]
    have v4 : ofBE (be32 0) = 0 := by decide
    have v12 : ofBE (be32 (c.sr : Int)) = c.sr := by rw [ofBE_be32, wrapU_nat 32 c.sr (by omega)]
    have v16 : ofBE (be32 (pafFormat c.codec : Int)) = pafFormat c.codec := by rw [ofBE_be32, wrapU_nat 32 _ hpf]
    have v20 : ofBE (be32 (c.ch : Int)) = c.ch := by rw [ofBE_be32, wrapU_nat 32 c.ch (by omega)]
    rw [v4, v12, v16, v20, sext_nat c.ch (by omega), sext_nat c.sr (by omega)]
    simp only [ne_eq, not_true_eq_false, if_false, Int.toNat_natCast]
    rw [if_neg (by omega), hlen]
    have := finish_ok c hwf body.length false hl'.symm
    simpa using this

end Sf.Paf
