/-
  SfProofs.AbsWriteBridgeFacts — the facts about Sf.Handle sessions the write-side bridge needs, each drawn from a property
  theorem: the closed bytes do not depend on the split (C07.file_bytes_partition_finite / _partial, through `toW`), the
  side condition on cells is the model's `lossless` (C01AbsW.side_condition_matches_model), an image
  header ++ data ++ tail re-opens with the session's parameters and frame count (C04 / C11: `au_image_reopen`,
  `wav_image_reopen`, `openHandle_raw_r`).
-/
import SfProofs.AbsWriteBridgeHandle
import SfProps.C01AbsW
namespace Sf.AbsWriteBridge
open Sf Sf.AbsWrite

/-! ## C07: the closed bytes of a session are those of the reference run -/

/-- the write calls of a session as writer operations of C01 / C07 (buffers cut to the request) -/
def toW (ch : Nat) : List SOp → List WOp
  | [] => []
  | .write w :: ops => .write w.ty w.frameCall w.n (w.data.take (w.items ch)) :: toW ch ops
  | _ :: ops => toW ch ops

theorem reqLen_items (h : H) (w : WCall) : (reqLen h w.frameCall w.n).toNat = w.items h.ch := by
  unfold reqLen WCall.items; rfl

theorem strip_runW {c : Cfg} : ∀ (ops : List SOp) {a : Sf.Abs} {h : H} {s : Store}, Inv c a h s → (∀ op ∈ ops, op.valid c.ch) →
    runS (h, s) (stripUpdates ops) = runW (h, s) (toW c.ch ops)
  | [], _, _, _, _, _ => rfl
  | .write w :: ops, a, h, s, i, hv => by
    have hw : w.valid c.ch := hv (.write w) (by simp)
    have i1 := stepS_inv i (.write w) hw
    have ih := strip_runW ops i1 (fun o ho => hv o (by simp [ho]))
    have e : stepS (h, s) (.write w) = stepW (h, s) (.write w.ty w.frameCall w.n (w.data.take (w.items c.ch))) := by
      simp only [stepS, stepW]
      rw [write_take_irrelevant h s w.ty w.frameCall w.n w.data (w.data.take (w.items c.ch))
        (by rw [reqLen_items, i.ch, List.take_take, Nat.min_self])]
    simp only [stripUpdates, List.filter, SOp.isWrite, runS, runW, List.foldl_cons, toW] at ih ⊢
    rw [← e]; exact ih
  | .update :: ops, a, h, s, i, hv => by
    have ih := strip_runW ops i (fun o ho => hv o (by simp [ho]))
    simpa [stripUpdates, List.filter, SOp.isWrite, toW] using ih
  | .auto b :: ops, a, h, s, i, hv => by
    have ih := strip_runW ops i (fun o ho => hv o (by simp [ho]))
    simpa [stripUpdates, List.filter, SOp.isWrite, toW] using ih

theorem toW_ok (h0 : H) (ch : Nat) (hch : h0.ch = ch) (hpos : 0 < ch) : ∀ (ops : List SOp), (∀ op ∈ ops, op.valid ch) →
    ∀ op ∈ toW ch ops, op.ok h0
  | [], _, op, hop => by simp [toW] at hop
  | .write w :: ops, hv, op, hop => by
    simp only [toW, List.mem_cons] at hop
    rcases hop with rfl | hop
    · have hw : w.valid ch := hv (.write w) (by simp)
      by_cases h0n : w.n = 0
      · exact Or.inl h0n
      · refine Or.inr ⟨by have := hw.1; omega, by rw [hch]; exact hw.2.1, ?_⟩
        rw [valid_xs w ch hw, callLen, hch]
        exact (items_eq w ch hpos hw).2.symm
    · exact toW_ok h0 ch hch hpos ops (fun o ho => hv o (by simp [ho])) op hop
  | .update :: ops, hv, op, hop => toW_ok h0 ch hch hpos ops (fun o ho => hv o (by simp [ho])) op (by simpa [toW] using hop)
  | .auto b :: ops, hv, op, hop => toW_ok h0 ch hch hpos ops (fun o ho => hv o (by simp [ho])) op (by simpa [toW] using hop)

theorem toW_hasTy (ty : Ty) (ch : Nat) : ∀ (ops : List SOp), (∀ op ∈ ops, SOp.hasTy ty op) → ∀ op ∈ toW ch ops, op.hasTy ty
  | [], _, op, hop => by simp [toW] at hop
  | .write w :: ops, hv, op, hop => by
    simp only [toW, List.mem_cons] at hop
    rcases hop with rfl | hop
    · exact hv (.write w) (by simp)
    · exact toW_hasTy ty ch ops (fun o ho => hv o (by simp [ho])) op hop
  | .update :: ops, hv, op, hop => toW_hasTy ty ch ops (fun o ho => hv o (by simp [ho])) op (by simpa [toW] using hop)
  | .auto b :: ops, hv, op, hop => toW_hasTy ty ch ops (fun o ho => hv o (by simp [ho])) op (by simpa [toW] using hop)

theorem toW_samples (ch : Nat) : ∀ (ops : List SOp), (toW ch ops).flatMap WOp.samples = sampleList ch ops
  | [] => rfl
  | .write w :: ops => by
    simp only [toW, List.flatMap_cons, WOp.samples, sampleList, toW_samples ch ops]
    split
    · rename_i h0; simp [items_zero w ch h0]
    · rfl
  | .update :: ops => by simpa [toW, sampleList] using toW_samples ch ops
  | .auto b :: ops => by simpa [toW, sampleList] using toW_samples ch ops

/-- the samples are finite in the file's sample type (the quantifier of C07 on PEAK-carrying files) -/
def FiniteSamples (h : H) (ty : Ty) (xs : List Int) : Prop :=
  ∀ x ∈ xs, (Peak.fileFmt h.enc).isFinite (Peak.convVal h.enc h.conv ty x) = true

/-- the closed bytes of a valid session of one caller type are a function of its samples (C07) -/
theorem closed_eq_oneCall (fmt : Nat) (ch sr : Int) (h : H) (s : Store) (ho : openHandle 0 {} .w fmt ch sr = .ok h s) (ty : Ty)
    (ops : List SOp) (hv : ∀ op ∈ ops, op.valid ch.toNat) (ht : ∀ op ∈ ops, SOp.hasTy ty op)
    (hfin : carriesPeak fmt = true → FiniteSamples h ty (sampleList ch.toNat ops)) :
    some (closedOf (h, s) ops) =
      closeBytes fmt ch sr [.write ty false (sampleList ch.toNat ops).length (sampleList ch.toNat ops)] := by
  obtain ⟨c, hcfg, h1, h2, h3, i0⟩ := open_ok ho
  have hcch : c.ch = ch.toNat := (openCfg_facts hcfg).2.2.2.1
  have hhch : h.ch = ch.toNat := by rw [i0.ch, hcch]
  have hpos : 0 < ch.toNat := by omega
  have hstrip : closedOf (h, s) ops = closedOf (h, s) (stripUpdates ops) := close_strip ops ho hv
  have hrun := strip_runW ops i0 (by rw [hcch]; exact hv)
  rw [hcch] at hrun
  have hcb : closeBytes fmt ch sr (toW ch.toNat ops) = some (closedOf (h, s) ops) := by
    unfold closeBytes; rw [ho]; simp only []; rw [hstrip]; unfold closedOf; rw [hrun]
  have hok := toW_ok h ch.toNat hhch hpos ops hv
  have hty := toW_hasTy ty ch.toNat ops ht
  rw [← hcb]
  have hone : C07.oneCall ty (toW ch.toNat ops) =
      .write ty false (sampleList ch.toNat ops).length (sampleList ch.toNat ops) := by
    unfold C07.oneCall; rw [toW_samples]
  rw [← hone]
  by_cases hp : carriesPeak fmt = true
  · exact C07.file_bytes_partition_finite fmt ch sr h s ho ty _ hok hty (by
      intro x hx; rw [toW_samples] at hx; exact hfin hp x hx)
  · exact C07.file_bytes_partition_partial fmt ch sr h s ho (by simpa using hp) ty _ hok hty

/-- C07 for the bridge: the split run and the reference run close to the same bytes -/
theorem closed_partition (S : Sess) (h : H) (s : Store) (ho : openHandle 0 {} .w S.fmt S.ch S.sr = .ok h s)
    (hv : ∀ op ∈ S.ops, op.valid S.ch.toNat) (ht : ∀ op ∈ S.ops, SOp.hasTy S.ty op)
    (hfin : carriesPeak S.fmt = true → FiniteSamples h S.ty (sampleList S.ch.toNat S.ops)) :
    closedOf (h, s) (refOps S) = closedOf (h, s) S.ops := by
  obtain ⟨h1, _, _⟩ := open_args 0 {} S.fmt S.ch S.sr h s ho
  have hpos : 0 < S.ch.toNat := by omega
  have e1 := closed_eq_oneCall S.fmt S.ch S.sr h s ho S.ty S.ops hv ht hfin
  have e2 := closed_eq_oneCall S.fmt S.ch S.sr h s ho S.ty (refOps S) (refOps_valid S hpos hv) (refOps_hasTy S)
    (by rw [refOps_samples S hpos hv]; exact hfin)
  rw [refOps_samples S hpos hv, ← e1] at e2
  exact Option.some.inj e2

/-! ## C01: the side condition on cells is the model's `lossless` -/

theorem encOf_intWidth {cont : Container} {codec : Nat} {big : Bool} {p : PcmFmt} (h : encOf cont codec big = some (.pcm p)) :
    intWidth codec = some p.w := by
  unfold encOf at h
  split at h <;> (try split at h) <;> (try cases h) <;> rfl

theorem encOf_flt {cont : Container} {codec : Nat} {big b : Bool} (h : encOf cont codec big = some (.flt b)) : codec = 0x06 := by
  unfold encOf at h
  split at h <;> (try split at h) <;> (try cases h) <;> rfl

theorem encOf_dbl {cont : Container} {codec : Nat} {big b : Bool} (h : encOf cont codec big = some (.dbl b)) : codec = 0x07 := by
  unfold encOf at h
  split at h <;> (try split at h) <;> (try cases h) <;> rfl

theorem encOf_law {cont : Container} {codec : Nat} {big : Bool} {e : Enc} (h : encOf cont codec big = some e)
    (hl : e = .ulaw ∨ e = .alaw) : codec = 0x10 ∨ codec = 0x11 := by
  unfold encOf at h
  split at h <;> (try split at h) <;> (try cases h) <;> (try (rcases hl with hl | hl <;> cases hl)) <;> simp

/-- `sampleOk` (the side condition of the predicate, per item) gives the model's `lossless` for the handle's encoding -/
theorem sampleOk_lossless {cont : Container} {codec : Nat} {big : Bool} {e : Enc} (he : encOf cont codec big = some e)
    (ty : Ty) (v : Int) (hv : ty.inRange v) (h : sampleOk codec ty v) : lossless e ty v := by
  obtain ⟨lz, hlz, hc⟩ := h
  cases e with
  | pcm p =>
    have hw := encOf_intWidth he
    cases ty with
    | s16 =>
      simp only [losslessLow, hw, Option.map_some, Option.some.injEq] at hlz
      subst hlz
      have := hc (wrapU 16 v) (by simp [cellOf])
      exact (C01AbsW.side_condition_matches_model p codec v).1.1 this
    | s32 =>
      simp only [losslessLow, hw, Option.map_some, Option.some.injEq] at hlz
      subst hlz
      have := hc (wrapU 32 v) (by simp [cellOf])
      exact (C01AbsW.side_condition_matches_model p codec v).2.1 this
    | f32 =>
      exfalso
      have : codec ≠ 0x06 ∧ codec ≠ 0x07 := by
        unfold encOf at he
        split at he <;> (try split at he) <;> (try cases he) <;> simp
      simp [losslessLow, this.1, this.2] at hlz
    | f64 =>
      exfalso
      have : codec ≠ 0x07 := by
        unfold encOf at he
        split at he <;> (try split at he) <;> (try cases he) <;> simp
      simp [losslessLow, this] at hlz
  | flt b =>
    have hcd := encOf_flt he
    subst hcd
    cases ty <;> first | trivial | (exfalso; simp [losslessLow, intWidth] at hlz)
  | dbl b =>
    have hcd := encOf_dbl he
    subst hcd
    cases ty with
    | s16 => exfalso; simp [losslessLow, intWidth] at hlz
    | s32 => exfalso; simp [losslessLow, intWidth] at hlz
    | f64 => trivial
    | f32 =>
      have := hc v.toNat (by simp [cellOf])
      show Float.f32.isFinite v.toNat = true
      simp only [cellOk, bne_self_eq_false, Bool.false_or] at this
      exact this
  | ulaw =>
    exfalso
    rcases encOf_law he (Or.inl rfl) with hcd | hcd <;> subst hcd <;> cases ty <;> simp [losslessLow, intWidth] at hlz
  | alaw =>
    exfalso
    rcases encOf_law he (Or.inr rfl) with hcd | hcd <;> subst hcd <;> cases ty <;> simp [losslessLow, intWidth] at hlz

end Sf.AbsWriteBridge
