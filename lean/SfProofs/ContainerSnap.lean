/-
  Snapshots after a header update, and independence of the closed bytes from header updates (C11).
-/
import SfProofs.ContainerWav
namespace Sf
set_option linter.unusedSimpArgs false

/-! ### header updates do not touch the session's audio -/

/-- the part of the session state the closed file depends on -/
def Abs.core (a : Abs) : Nat × List Byte × Option (List Peak) := (a.frames, a.data, a.peak)

def SOp.isWrite : SOp → Bool
  | .write _ => true
  | _ => false

/-- the same session without its header-update requests -/
def stripUpdates (ops : List SOp) : List SOp := ops.filter SOp.isWrite

theorem step_core (c : Cfg) (a a' : Abs) (op : SOp) (h : a.core = a'.core) :
    (a.step c op).core = (if op.isWrite then (a'.step c op).core else a'.core) := by
  simp only [Abs.core, Prod.mk.injEq] at h
  obtain ⟨h1, h2, h3⟩ := h
  cases op with
  | write w =>
    simp only [SOp.isWrite, if_true, Abs.step, Abs.write]
    split
    · simp [Abs.core, h1, h2, h3]
    · have hp : c.protoH a = c.protoH a' := by simp [Cfg.protoH, h1, h3]
      simp [Abs.core, Abs.writeNZ, h1, h2, hp]
  | update => simp [SOp.isWrite, Abs.step, Abs.core, h1, h2, h3]
  | auto b => simp [SOp.isWrite, Abs.step, Abs.core, h1, h2, h3]

theorem run_core (c : Cfg) (ops : List SOp) : ∀ a a' : Abs, a.core = a'.core →
    (a.run c ops).core = (a'.run c (stripUpdates ops)).core := by
  induction ops with
  | nil => intro a a' h; simpa [Abs.run, stripUpdates] using h
  | cons op ops ih =>
    intro a a' h
    have hs := step_core c a a' op h
    cases hw : op.isWrite with
    | true =>
      rw [hw] at hs; simp only [if_true] at hs
      have := ih _ _ hs
      simpa [Abs.run, stripUpdates, hw] using this
    | false =>
      rw [hw] at hs; simp only [Bool.false_eq_true, if_false] at hs
      have := ih _ _ hs
      simpa [Abs.run, stripUpdates, hw] using this

theorem closedImage_core (c : Cfg) (a a' : Abs) (h : a.core = a'.core) : closedImage c a = closedImage c a' := by
  simp only [Abs.core, Prod.mk.injEq] at h
  obtain ⟨h1, h2, h3⟩ := h
  unfold closedImage snapImage hdrBytes wavPad_ct
  simp only [h1, h2, h3]

theorem strip_valid (ch : Nat) (ops : List SOp) (hv : ∀ op ∈ ops, op.valid ch) : ∀ op ∈ stripUpdates ops, op.valid ch := by
  intro op ho
  exact hv op (List.mem_filter.mp ho).1

/-- final closed bytes with and without interleaved header updates are the same (RAW, AU, WAV) -/
theorem close_strip {ix fmt : Nat} {ch sr : Int} {h0 : H} {s0 : Store} (ops : List SOp)
    (ho : openHandle ix {} .w fmt ch sr = .ok h0 s0) (hv : ∀ op ∈ ops, op.valid ch.toNat) :
    (closeHandle (runS (h0, s0) ops).1 (runS (h0, s0) ops).2).bytes =
    (closeHandle (runS (h0, s0) (stripUpdates ops)).1 (runS (h0, s0) (stripUpdates ops)).2).bytes := by
  obtain ⟨c, hcfg, _, _, _, i⟩ := session_inv ops ho hv
  obtain ⟨c', hcfg', _, _, _, i'⟩ := session_inv (stripUpdates ops) ho (strip_valid _ _ hv)
  rw [hcfg] at hcfg'; cases hcfg'
  rw [close_bytes i, close_bytes i']
  exact closedImage_core c _ _ (run_core c ops _ _ rfl)

/-! ### a snapshot (fresh header ++ data) read by a second handle -/

theorem au_snapshot {fmt : Nat} {ch sr : Int} {c : Cfg} (a : Abs) (hcfg : openCfg fmt ch sr = some c)
    (hc : containerOf fmt = some .au) (h1 : 1 ≤ ch) (h2 : ch ≤ 1024) (h3 : 1 ≤ sr) (hsr : sr ≤ 0x7FFFFFFF)
    (hd : a.data.length = a.frames * c.bw) :
    ∃ p, auParse (snapImage c a) = .ok p ∧ (p.ch : Int) = ch ∧ p.sr = sr ∧
      p.fmtWord = (if dataBig .au fmt then 0 else 0x10000000) + 0x030000 + codecOf fmt ∧ p.dataoffset = 24 ∧
      (snapImage c a).drop 24 = a.data ∧
      ∀ (ix' pos fmt0 : Nat) (ch0 sr0 : Int), containerOf fmt0 ≠ some .raw →
        ∃ h' s', openHandle ix' ⟨snapImage c a, pos⟩ .r fmt0 ch0 sr0 = .ok h' s' ∧ h'.frames = a.frames ∧
          (h'.ch : Int) = ch ∧ h'.sr = sr ∧ h'.fmtWord = p.fmtWord ∧ h'.enc = c.enc ∧ s'.pos = 24 := by
  obtain ⟨f1, f2, f3, f4, f5, f6⟩ := openCfg_facts hcfg
  have hcc : c.container = .au := by rw [hc] at f1; exact (Option.some.inj f1).symm
  rw [hcc] at f5 f6
  obtain ⟨p, hp, p1, p2, p3, _, p5, p6, p7⟩ :=
    au_image_reopen c a hcc (by rw [f2]; exact encOf_au_codecs f6) (by omega) (by omega) (by rw [f2]; exact f6) hd
  refine ⟨p, hp, by rw [p1, f4]; omega, by rw [p2, f3], by rw [p3, f5, f2], p5, p6, ?_⟩
  intro ix' pos fmt0 ch0 sr0 hraw
  obtain ⟨h', s', q1, q2, q3, q4, q5, q6, _, q8⟩ := p7 ix' pos fmt0 ch0 sr0 hraw
  exact ⟨h', s', q1, q2, by rw [q3, f4]; omega, by rw [q4, f3], q5, q6, q8⟩

theorem wav_snapshot {fmt : Nat} {ch sr : Int} {c : Cfg} (a : Abs) (hcfg : openCfg fmt ch sr = some c)
    (hc : containerOf fmt = some .wav) (h1 : 1 ≤ ch) (h2 : ch ≤ 1024) (h3 : 1 ≤ sr) (hsr : sr ≤ 0x7FFFFFFF)
    (hd : a.data.length = a.frames * c.bw) (hpk : ∀ ps, a.peak = some ps → ps.length = c.ch)
    (hpkS : a.peak.isSome = c.hasPeak) (hguard : (snapImage c a).length < 2 ^ 32) :
    ∃ p, wavParse (snapImage c a) = .ok p ∧ (p.ch : Int) = ch ∧ p.sr = sr ∧
      p.fmtWord = (if dataBig .wav fmt then 0x20000000 else 0) + 0x010000 + codecOf fmt ∧ p.dataoffset = c.hdrLen ∧
      (snapImage c a).drop c.hdrLen = a.data ∧
      ∀ (ix' pos fmt0 : Nat) (ch0 sr0 : Int), containerOf fmt0 ≠ some .raw →
        ∃ h' s', openHandle ix' ⟨snapImage c a, pos⟩ .r fmt0 ch0 sr0 = .ok h' s' ∧ h'.frames = a.frames ∧
          (h'.ch : Int) = ch ∧ h'.sr = sr ∧ h'.fmtWord = p.fmtWord ∧ h'.enc = c.enc ∧ s'.pos = c.hdrLen := by
  obtain ⟨f1, f2, f3, f4, f5, f6⟩ := openCfg_facts hcfg
  have hcc : c.container = .wav := by rw [hc] at f1; exact (Option.some.inj f1).symm
  rw [hcc] at f5 f6
  have hlen : (snapImage c a).length = c.hdrLen + a.data.length := by
    simp [snapImage, hdrBytes_length c a _ _ hpkS hpk]
  have hg : a.data.length < 0xFFFFFFFF := by
    have hL : 0 < c.hdrLen := by simp [Cfg.hdrLen, hcc, wavHdrLen_ct]
    omega
  have himg : snapImage c a =
      hdrBytes c a ((c.hdrLen + a.data.length : Nat) : Int) a.data.length ++ a.data ++ [] := by simp [snapImage]
  obtain ⟨p, hp, p1, p2, p3, _, p5, p6, p7⟩ :=
    wav_image_reopen c a ((c.hdrLen + a.data.length : Nat) : Int) [] hcc (by omega) (by omega) (by rw [f2]; exact f6)
      hd hpk hpkS hg (by simp)
  rw [← himg] at hp p6 p7
  refine ⟨p, hp, by rw [p1, f4]; omega, by rw [p2, f3], by rw [p3, f5, f2], p5, by simpa using p6, ?_⟩
  intro ix' pos fmt0 ch0 sr0 hraw
  obtain ⟨h', s', q1, q2, q3, q4, q5, q6, _, q8⟩ := p7 ix' pos fmt0 ch0 sr0 hraw
  exact ⟨h', s', q1, q2, by rw [q3, f4]; omega, by rw [q4, f3], q5, q6, q8⟩

/-! ### the WAV size fields -/

theorem At.chain15 (l0 l1 l2 l3 l4 l5 l6 l7 l8 l9 l10 l11 l12 l13 l14 seg rest : List Byte) :
    At (l0 ++ (l1 ++ (l2 ++ (l3 ++ (l4 ++ (l5 ++ (l6 ++ (l7 ++ (l8 ++ (l9 ++ (l10 ++ (l11 ++ (l12 ++ (l13 ++ (l14 ++
        (seg ++ rest))))))))))))))))
      (l0.length + (l1.length + (l2.length + (l3.length + (l4.length + (l5.length + (l6.length + (l7.length + (l8.length +
        (l9.length + (l10.length + (l11.length + (l12.length + (l13.length + (l14.length + 0))))))))))))))) seg :=
  At.skip _ (At.skip _ (At.skip _ (At.skip _ (At.skip _ (At.skip _ (At.skip _ (At.skip _
    (At.skip _ (At.skip _ (At.skip _ (At.skip _ (At.skip _ (At.skip _ (At.skip _ (At.here _ _)))))))))))))))

/-- RIFF length field (offset 4) and data chunk size field (offset header length − 4) of any image
    header ++ rest, as `wav_write_header` clamps them -/
theorem wav_size_fields (c : Cfg) (a : Abs) (fl dl : Int) (rest : List Byte) (hc : c.container = .wav)
    (hpk : ∀ ps, a.peak = some ps → ps.length = c.ch) (hpkS : a.peak.isSome = c.hasPeak) :
    rd32 c.big (hdrBytes c a fl dl ++ rest) 4 =
      wrapU 32 (if fl < 8 then 8 else (if fl - 8 < 0xFFFFFFFF then fl - 8 else 0xFFFFFFFF)) ∧
    rd32 c.big (hdrBytes c a fl dl ++ rest) (c.hdrLen - 4) = wrapU 32 (if dl < 0xFFFFFFFF then dl else 0xFFFFFFFF) := by
  have hL : c.hdrLen = wavHdrLen_ct (codecOf c.fmtWord) c.ch c.hasPeak := by simp [Cfg.hdrLen, hc]
  have himg : hdrBytes c a fl dl ++ rest =
      wavChain c.big (codecOf c.fmtWord) c.enc.nbytes c.ch c.sr (wavFact c.big (codecOf c.fmtWord) a.frames)
        (wavPeakStart c.big c.ch a.peak true) fl dl rest := by
    rw [← wavHdr_chain]; simp [hdrBytes, hc]
  have hoff : 16 + wavFmtLen (codecOf c.fmtWord) + (wavFact c.big (codecOf c.fmtWord) a.frames).length +
      (wavPeakStart c.big c.ch a.peak true).length + 8 = c.hdrLen := by
    rw [hL, ← hpkS, wavFact_length]; unfold wavHdrLen_ct
    cases hp : a.peak with
    | none => simp [wavPeakStart]
    | some ps => simp [wavPeakStart, peakChk_length, hpk ps hp]
  have hR : (if c.big then marker "RIFX" else marker "RIFF").length = 4 := by cases c.big <;> rfl
  have hext : (if isG711 (codecOf c.fmtWord) then u16 c.big 0 else []).length + 20 = wavFmtLen (codecOf c.fmtWord) := by
    unfold wavFmtLen isG711; split <;> simp [u16_length_ct]
  rw [himg]; unfold wavChain
  constructor
  · exact rd32_of_At ((At.skip _ (At.here _ _)).cast (by rw [hR]))
  · refine rd32_of_At ((At.chain15 _ _ _ _ _ _ _ _ _ _ _ _ _ _ _ _ _).cast ?_)
    simp only [hR, u32_length_ct, u16_length_ct]
    have h1 : (marker "WAVE").length = 4 := rfl
    have h2 : (marker "fmt ").length = 4 := rfl
    have h3 : (marker "data").length = 4 := rfl
    rw [h1, h2, h3, ← hoff, ← hext]
    clear himg hL hpk hpkS hoff hext h1 h2 h3 hR
    omega

end Sf
