/-
  SfProofs.AbsSeq — what the two loops of SfModel/Abs.lean (`sliceEq`, `allOf`) decide, in terms of `Array.extract`.
-/
import SfModel.Abs
namespace Sf.Abs

theorem sliceEq_pointwise (a b : Array Item) (n : Nat) : ∀ (i j : Nat),
    sliceEq a i b j n = true ↔ ∀ k, k < n → i + k < a.size ∧ j + k < b.size ∧ a[i + k]? = b[j + k]? := by
  induction n with
  | zero => intro i j; simp [sliceEq]
  | succ n ih =>
    intro i j
    unfold sliceEq
    constructor
    · intro h
      split at h
      · rename_i hb
        rw [Bool.and_eq_true] at h
        obtain ⟨h0, h1⟩ := h
        have h0' : a[i]'hb.1 = b[j]'hb.2 := by simpa using h0
        have ih' := (ih (i + 1) (j + 1)).1 h1
        intro k hk
        cases k with
        | zero =>
          refine ⟨by simpa using hb.1, by simpa using hb.2, ?_⟩
          simp only [Nat.add_zero]
          rw [Array.getElem?_eq_getElem hb.1, Array.getElem?_eq_getElem hb.2, h0']
        | succ k =>
          have := ih' k (by omega)
          have e1 : i + (k + 1) = i + 1 + k := by omega
          have e2 : j + (k + 1) = j + 1 + k := by omega
          rw [e1, e2]; exact this
      · exact absurd h (by simp)
    · intro h
      have h0 := h 0 (by omega)
      simp only [Nat.add_zero] at h0
      obtain ⟨hA, hB, hE⟩ := h0
      rw [dif_pos ⟨hA, hB⟩, Bool.and_eq_true]
      constructor
      · rw [Array.getElem?_eq_getElem hA, Array.getElem?_eq_getElem hB] at hE
        simpa using hE
      · apply (ih (i + 1) (j + 1)).2
        intro k hk
        have := h (k + 1) (by omega)
        have e1 : i + (k + 1) = i + 1 + k := by omega
        have e2 : j + (k + 1) = j + 1 + k := by omega
        rw [e1, e2] at this; exact this

/-- an accepted comparison: the two slices are the same array (and exist, when non-empty) -/
theorem sliceEq_extract (a b : Array Item) (i j n : Nat) (h : sliceEq a i b j n = true) :
    a.extract i (i + n) = b.extract j (j + n) ∧ (0 < n → i + n ≤ a.size ∧ j + n ≤ b.size) := by
  have hp := (sliceEq_pointwise a b n i j).1 h
  have hb : 0 < n → i + n ≤ a.size ∧ j + n ≤ b.size := by
    intro hn
    have := hp (n - 1) (by omega)
    omega
  refine ⟨?_, hb⟩
  by_cases hn : n = 0
  · subst hn
    rw [Array.extract_eq_empty_of_le (by omega), Array.extract_eq_empty_of_le (by omega)]
  · obtain ⟨ha, hb'⟩ := hb (by omega)
    apply Array.ext
    · simp only [Array.size_extract]; omega
    · intro k h1 h2
      rw [Array.getElem_extract, Array.getElem_extract]
      have hk : k < n := by simp only [Array.size_extract] at h1; omega
      obtain ⟨hA, hB, hE⟩ := hp k hk
      rw [Array.getElem?_eq_getElem hA, Array.getElem?_eq_getElem hB] at hE
      exact Option.some.inj hE

/-- the converse: equal slices that exist are accepted -/
theorem sliceEq_of_extract (a b : Array Item) (i j n : Nat) (ha : i + n ≤ a.size) (hb : j + n ≤ b.size)
    (h : a.extract i (i + n) = b.extract j (j + n)) : sliceEq a i b j n = true := by
  apply (sliceEq_pointwise a b n i j).2
  intro k hk
  refine ⟨by omega, by omega, ?_⟩
  have h1 : k < (a.extract i (i + n)).size := by simp only [Array.size_extract]; omega
  have h2 : k < (b.extract j (j + n)).size := by simp only [Array.size_extract]; omega
  have e : (a.extract i (i + n))[k]'h1 = (b.extract j (j + n))[k]'h2 := by simp only [h]
  rw [Array.getElem_extract, Array.getElem_extract] at e
  rw [Array.getElem?_eq_getElem (by omega), Array.getElem?_eq_getElem (by omega), e]

theorem allOf_pointwise (a : Array Item) (v w : Item) (n : Nat) : ∀ (i : Nat),
    allOf a v w i n = true ↔ ∀ k, k < n → ∃ h : i + k < a.size, a[i + k] = v ∨ a[i + k] = w := by
  induction n with
  | zero => intro i; simp [allOf]
  | succ n ih =>
    intro i
    unfold allOf
    constructor
    · intro h
      split at h
      · rename_i hb
        rw [Bool.and_eq_true] at h
        obtain ⟨h0, h1⟩ := h
        have ih' := (ih (i + 1)).1 h1
        intro k hk
        cases k with
        | zero => exact ⟨by simpa using hb, by simpa using h0⟩
        | succ k =>
          obtain ⟨hh, hv⟩ := ih' k (by omega)
          have e1 : i + (k + 1) = i + 1 + k := by omega
          exact ⟨by omega, by simp only [e1]; exact hv⟩
      · exact absurd h (by simp)
    · intro h
      obtain ⟨h0, hv⟩ := h 0 (by omega)
      rw [dif_pos (by simpa using h0), Bool.and_eq_true]
      constructor
      · simpa using hv
      · apply (ih (i + 1)).2
        intro k hk
        obtain ⟨hh, hv⟩ := h (k + 1) (by omega)
        have e1 : i + (k + 1) = i + 1 + k := by omega
        exact ⟨by omega, by simp only [← e1]; exact hv⟩

/-- every cell of an all-zero region is zero -/
theorem allOf_zero (a : Array Item) (i n : Nat) (h : allOf a 0 0 i n = true) :
    i + n ≤ a.size ∨ n = 0 := by
  by_cases hn : n = 0
  · exact Or.inr hn
  · obtain ⟨hh, _⟩ := (allOf_pointwise a 0 0 n i).1 h (n - 1) (by omega)
    left; omega

theorem allOf_zero_get (a : Array Item) (i n : Nat) (h : allOf a 0 0 i n = true) (k : Nat) (hk : k < n) :
    a[i + k]? = some 0 := by
  obtain ⟨hh, hv⟩ := (allOf_pointwise a 0 0 n i).1 h k hk
  rw [Array.getElem?_eq_getElem hh]
  rcases hv with hv | hv <;> rw [hv]

theorem allOf_of_replicate (v w : Item) (n : Nat) (pre : Array Item) (i : Nat) (hi : i = pre.size) (x : Item) (hx : x = v ∨ x = w) :
    allOf (pre ++ Array.replicate n x) v w i n = true := by
  apply (allOf_pointwise _ v w n i).2
  intro k hk
  have hs : i + k < (pre ++ Array.replicate n x).size := by simp; omega
  refine ⟨hs, ?_⟩
  have : (pre ++ Array.replicate n x)[i + k]'hs = x := by
    rw [Array.getElem_append_right (by omega)]
    simp
  rw [this]; exact hx

end Sf.Abs
