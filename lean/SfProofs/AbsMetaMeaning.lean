/-
  SfProofs.AbsMetaMeaning — what an ACCEPTED record of the metadata campaign means, and the converse: for each clause of
  SfModel/AbsMeta.lean, `clause = []` holds EXACTLY when the sentence of the C12 statement holds in mathematical form, whatever
  produced the record.  `judgeRun_nil_iff` puts them together: `judgeRun g r = []` ⟺ `Holds g r`.  The direction → is the
  meaning of an accepted record; the direction ← is "never an alarm where the property holds" for the predicate itself.
-/
import SfModel.AbsMeta
namespace Sf.AbsMeta
open Sf Sf.Meta

/-! ## small list facts -/

theorem ite_nil_iff {α : Type} (c : Prop) [Decidable c] (x : α) : (if c then ([] : List α) else [x]) = [] ↔ c := by
  by_cases h : c <;> simp [h]

theorem ite_nil_iff_not {α : Type} (c : Prop) [Decidable c] (x : α) : (if c then [x] else ([] : List α)) = [] ↔ ¬ c := by
  by_cases h : c <;> simp [h]

theorem flatMap_nil_iff {α β : Type} (l : List α) (f : α → List β) : l.flatMap f = [] ↔ ∀ x ∈ l, f x = [] := by
  induction l with
  | nil => simp
  | cons a l ih => simp [List.flatMap_cons, ih]

theorem filter_map_nil_iff {α β : Type} (l : List α) (p : α → Bool) (f : α → β) : (l.filter p).map f = [] ↔ ∀ x ∈ l, p x = false := by
  simp [List.filter_eq_nil_iff]

/-! ## the item clauses -/

/-- C12, strings: the string comes back as stored, or it was set after the audio and is not there at all -/
theorem strFail_nil_iff (m : Got) (x : StrSlot) :
    strFail m x = [] ↔ (m.str x.1 = some x.2.1 ∨ (x.2.2 = true ∧ m.str x.1 = none)) := by
  unfold strFail
  by_cases h1 : (x.2.2 && (m.str x.1).isNone) = true
  · simp only [h1, if_true, true_iff]
    simp only [Bool.and_eq_true, Option.isNone_iff_eq_none] at h1
    exact Or.inr h1
  · by_cases h2 : (m.str x.1 == some x.2.1) = true
    · simp only [h1, h2, if_true, Bool.false_eq_true, if_false, true_iff]
      exact Or.inl (by simpa using h2)
    · simp only [h1, h2, Bool.false_eq_true, if_false]
      constructor
      · intro h; simp at h
      · intro h
        rcases h with h | ⟨ha, hb⟩
        · exact absurd (by simp [h]) h2
        · exact absurd (by simp [ha, hb]) h1

/-- C12, broadcast info: what comes back is `normBext` of the last accepted block -/
theorem bextFail_nil_iff (g : Geom) (e : Exp) (m : Got) :
    bextFail g e m = [] ↔ ∀ b, e.bext = some b → bextSupport g.cont = true → m.bext = some (normBext g b) := by
  unfold bextFail
  cases hb : e.bext with
  | none => simp
  | some b =>
    by_cases hs : bextSupport g.cont = true
    · simp only [hs, Bool.not_true, Bool.false_eq_true, if_false]
      cases hm : m.bext with
      | none => simp
      | some r =>
        by_cases hr : (r == normBext g b) = true
        · simp only [hr, if_true, true_iff]; intro b' hb' _; cases hb'; simpa using hr
        · simp only [hr, Bool.false_eq_true, if_false]
          constructor
          · intro h; simp at h
          · intro h; have := h b rfl trivial; simp at this; subst this; simp at hr
    · simp only [Bool.not_eq_true] at hs; simp [hs]

/-- C12, cart info: `normCart` of the last accepted block, up to the one byte cart_var_set never writes -/
theorem cartFail_nil_iff (g : Geom) (e : Exp) (m : Got) :
    cartFail g e m = [] ↔ ∀ b, e.cart = some b → cartSupport g.cont = true → ∃ r, m.cart = some r ∧ maskCart r = maskCart (normCart b) := by
  unfold cartFail
  cases hb : e.cart with
  | none => simp
  | some b =>
    by_cases hs : cartSupport g.cont = true
    · simp only [hs, Bool.not_true, Bool.false_eq_true, if_false]
      cases hm : m.cart with
      | none => simp
      | some r =>
        by_cases hr : (maskCart r == maskCart (normCart b)) = true
        · simp only [hr, if_true, true_iff]; intro b' hb' _; cases hb'; exact ⟨r, rfl, by simpa using hr⟩
        · simp only [hr, Bool.false_eq_true, if_false]
          constructor
          · intro h; simp at h
          · intro h; obtain ⟨r', h1, h2⟩ := h b rfl trivial; cases h1; simp [h2] at hr
    · simp only [Bool.not_eq_true] at hs; simp [hs]

/-- C12, cue points: count and the six numeric fields of every point as `normCues` says; the names too where the container can
    attach them -/
theorem cuesFail_nil_iff (g : Geom) (e : Exp) (m : Got) :
    cuesFail g e m = [] ↔ ∀ cs, e.cues = some cs → cueSupport g.cont = true →
      ∃ cnt got, m.cues = some (cnt, got) ∧ got.map cueNums = (normCues g.cont cs).map cueNums ∧ cnt = (normCues g.cont cs).length ∧
        m.cueCount = (1, (normCues g.cont cs).length) ∧
        (cueNamesJudged g.cont cs = true → got.map (·.name) = (normCues g.cont cs).map (·.name)) := by
  unfold cuesFail
  cases hb : e.cues with
  | none => simp
  | some cs =>
    by_cases hs : cueSupport g.cont = true
    · simp only [hs, Bool.not_true, Bool.false_eq_true, if_false]
      cases hm : m.cues with
      | none => simp
      | some p =>
        obtain ⟨cnt, got⟩ := p
        dsimp only
        by_cases h1 : (got.map cueNums != (normCues g.cont cs).map cueNums || cnt != (normCues g.cont cs).length ||
            m.cueCount != (1, (normCues g.cont cs).length)) = true
        · simp only [h1, if_true]
          constructor
          · intro h; simp at h
          · intro h
            obtain ⟨c', g', h0, ha, hb', hc, _⟩ := h cs rfl trivial
            cases h0
            simp [ha, hb', hc] at h1
        · simp only [h1, Bool.false_eq_true, if_false]
          simp only [Bool.or_eq_true, bne_iff_ne, ne_eq, not_or, Decidable.not_not] at h1
          obtain ⟨⟨ha, hb'⟩, hc⟩ := h1
          by_cases h2 : (got.map (·.name) != (normCues g.cont cs).map (·.name) && cueNamesJudged g.cont cs) = true
          · simp only [h2, if_true]
            constructor
            · intro h; simp at h
            · intro h
              obtain ⟨c', g', h0, _, _, _, hn⟩ := h cs rfl trivial
              cases h0
              simp only [Bool.and_eq_true, bne_iff_ne, ne_eq] at h2
              exact absurd (hn h2.2) h2.1
          · simp only [h2, Bool.false_eq_true, if_false, true_iff]
            intro cs' hcs _; cases hcs
            refine ⟨cnt, got, rfl, ha, hb', hc, ?_⟩
            intro hj
            simp only [Bool.and_eq_true, bne_iff_ne, ne_eq, not_and, Decidable.not_not] at h2
            by_cases hq : got.map (·.name) = (normCues g.cont cs).map (·.name)
            · exact hq
            · exact absurd hj (by simpa using h2 hq)
    · simp only [Bool.not_eq_true] at hs; simp [hs]

/-- C12, instrument: `normInst` of the last accepted block -/
theorem instFail_nil_iff (g : Geom) (e : Exp) (m : Got) :
    instFail g e m = [] ↔ ∀ b, e.inst = some b → instSupport g.cont = true → m.inst = some (normInst b) := by
  unfold instFail
  cases hb : e.inst with
  | none => simp
  | some b =>
    by_cases hs : instSupport g.cont = true
    · simp only [hs, Bool.not_true, Bool.false_eq_true, if_false]
      cases hm : m.inst with
      | none => simp
      | some r =>
        dsimp only
        by_cases hr : (r == normInst b) = true
        · simp only [hr, if_true, true_iff]; intro b' hb' _; cases hb'; simpa using hr
        · simp only [hr, Bool.false_eq_true, if_false]
          constructor
          · intro h; simp at h
          · intro h; have := h b rfl trivial; simp at this; subst this; simp at hr
    · simp only [Bool.not_eq_true] at hs; simp [hs]

/-- C12, channel map: comes back as set -/
theorem chmapFail_nil_iff (g : Geom) (e : Exp) (m : Got) :
    chmapFail g e m = [] ↔ ∀ b, e.chmap = some b → chmapSupport g.cont = true → m.chmap = some b := by
  unfold chmapFail
  cases hb : e.chmap with
  | none => simp
  | some b =>
    by_cases hs : chmapSupport g.cont = true
    · simp only [hs, Bool.not_true, Bool.false_eq_true, if_false]
      by_cases hr : (m.chmap == some b) = true
      · simp only [hr, if_true, true_iff]; intro b' hb' _; cases hb'; simpa using hr
      · simp only [hr, Bool.false_eq_true, if_false]
        constructor
        · intro h; simp at h
        · intro h; have := h b rfl trivial; simp [this] at hr
    · simp only [Bool.not_eq_true] at hs; simp [hs]

/-- the getters of kinds never set answer "absent" -/
structure Absent (c : Cont) (sets : List SetCall) (m : Got) : Prop where
  strs : ∀ ty ∈ STR_TYPES, everSet sets (· == .str (ty : Int)) = false → m.str ty = none
  bext : everSet sets (· == .bext) = false → m.bext = none
  cart : everSet sets (· == .cart) = false → m.cart = none
  cues : everSet sets (· == .cues) = false → m.cues = none ∧ m.cueCount.1 = 0
  inst : everSet sets (· == .inst) = false → m.inst = none
  chmap : hasDefaultChmap c = false → everSet sets (· == .chmap) = false → m.chmap = none

theorem absentFails_nil_iff (c : Cont) (sets : List SetCall) (m : Got) : absentFails c sets m = [] ↔ Absent c sets m := by
  unfold absentFails
  simp only [List.append_eq_nil_iff, filter_map_nil_iff, ite_nil_iff_not]
  constructor
  · rintro ⟨⟨⟨⟨⟨h1, h2⟩, h3⟩, h4⟩, h5⟩, h6⟩
    refine ⟨?_, ?_, ?_, ?_, ?_, ?_⟩
    · intro ty hty hn
      have := h1 ty hty
      simp only [hn, Bool.not_false, Bool.true_and] at this
      simpa using this
    · intro hn; simp only [hn, Bool.not_false, Bool.true_and] at h2; simpa using h2
    · intro hn; simp only [hn, Bool.not_false, Bool.true_and] at h3; simpa using h3
    · intro hn
      simp only [hn, Bool.not_false, Bool.true_and, Bool.or_eq_true, bne_iff_ne, ne_eq, not_or, Decidable.not_not] at h4
      exact ⟨by simpa using h4.1, h4.2⟩
    · intro hn; simp only [hn, Bool.not_false, Bool.true_and] at h5; simpa using h5
    · intro hd hn; simp only [hd, hn, Bool.not_false, Bool.true_and] at h6; simpa using h6
  · rintro ⟨a1, a2, a3, a4, a5, a6⟩
    refine ⟨⟨⟨⟨⟨?_, ?_⟩, ?_⟩, ?_⟩, ?_⟩, ?_⟩
    · intro ty hty
      cases hn : everSet sets (· == .str (ty : Int))
      · simp [a1 ty hty hn]
      · simp
    · cases hn : everSet sets (· == .bext)
      · simp [a2 hn]
      · simp
    · cases hn : everSet sets (· == .cart)
      · simp [a3 hn]
      · simp
    · cases hn : everSet sets (· == .cues)
      · simp [(a4 hn).1, (a4 hn).2]
      · simp
    · cases hn : everSet sets (· == .inst)
      · simp [a5 hn]
      · simp
    · cases hd : hasDefaultChmap c
      · cases hn : everSet sets (· == .chmap)
        · simp [a6 hd hn]
        · simp
      · simp

/-- C12 "audio samples unchanged" -/
theorem audioFails_nil_iff (g : Geom) (r : Run) (ri : ReInfo) :
    audioFails g r ri = [] ↔ (ri.frames = ((r.items.length / max 1 g.ch : Nat) : Int) ∧
      ∀ rb, r.read = some rb → rb.ret = (r.items.length : Int) ∧ rb.err = 0 ∧ rb.data.take r.items.length = r.items) := by
  unfold audioFails
  simp only [List.append_eq_nil_iff, ite_nil_iff]
  constructor
  · rintro ⟨h1, h2⟩
    refine ⟨by simpa using h1, ?_⟩
    intro rb hrb
    simp only [hrb, ite_nil_iff] at h2
    simpa [and_assoc] using h2
  · rintro ⟨h1, h2⟩
    refine ⟨by simpa using h1, ?_⟩
    cases hrb : r.read with
    | none => rfl
    | some rb =>
      obtain ⟨a, b, c⟩ := h2 rb hrb
      simp [a, b, c]

/-! ## "a valid item set before the audio on a container that stores the kind is accepted" -/

/-- the clause `refused-valid` does not fire on a call -/
def callFine (g : Geom) (room : Nat) (c : SetCall) : Prop :=
  c.late = false → c.ok = false → kindSupported g c.kind = true →
    (if isStrKind c.kind then validStrCall g c room else validBlock c) = false

/-- accepted string calls among `cs` -/
def strAccepted (cs : List SetCall) : Nat := (cs.filter fun c => isStrKind c.kind && c.ok).length

theorem refusedValidGo_nil_iff (g : Geom) : ∀ (cs : List SetCall) (room : Nat),
    refusedValidGo g room cs = [] ↔ ∀ pre c post, cs = pre ++ c :: post → callFine g (room + strAccepted pre) c
  | [], room => by
    simp only [refusedValidGo, true_iff]
    intro pre c post h
    exact absurd h (by simp)
  | c :: cs, room => by
    unfold refusedValidGo
    simp only [List.append_eq_nil_iff, ite_nil_iff_not]
    rw [refusedValidGo_nil_iff g cs]
    constructor
    · rintro ⟨h1, h2⟩ pre d post hsplit
      cases pre with
      | nil =>
        simp only [List.nil_append, List.cons.injEq] at hsplit
        obtain ⟨rfl, rfl⟩ := hsplit
        intro hl ho hs
        simp only [strAccepted, List.filter_nil, List.length_nil, Nat.add_zero]
        simp only [hl, ho, hs, Bool.not_false, Bool.true_and, Bool.not_eq_true] at h1
        exact h1
      | cons p pre =>
        simp only [List.cons_append, List.cons.injEq] at hsplit
        obtain ⟨hp1, hp2⟩ := hsplit
        subst hp1
        subst hp2
        have := h2 pre d post rfl
        have hroom : (if (isStrKind c.kind && c.ok) = true then room + 1 else room) + strAccepted pre = room + strAccepted (c :: pre) := by
          simp only [strAccepted, List.filter_cons]
          by_cases hp : (isStrKind c.kind && c.ok) = true <;> simp [hp] <;> omega
        rw [hroom] at this
        exact this
    · intro h
      refine ⟨?_, ?_⟩
      · have := h [] c cs rfl
        simp only [strAccepted, List.filter_nil, List.length_nil, Nat.add_zero] at this
        intro hbad
        simp only [Bool.and_eq_true, Bool.not_eq_true'] at hbad
        obtain ⟨⟨⟨hl, ho⟩, hs⟩, hv⟩ := hbad
        have := this hl ho hs
        rw [this] at hv
        exact absurd hv (by simp)
      · intro pre d post hsplit
        have := h (c :: pre) d post (by simp [hsplit])
        have hroom : (if (isStrKind c.kind && c.ok) = true then room + 1 else room) + strAccepted pre = room + strAccepted (c :: pre) := by
          simp only [strAccepted, List.filter_cons]
          by_cases hp : (isStrKind c.kind && c.ok) = true <;> simp [hp] <;> omega
        rw [hroom]
        exact this

/-! ## one run -/

/-- the item clauses, in mathematical form -/
def ItemsHold (g : Geom) (r : Run) (m : Got) : Prop :=
    (∀ x ∈ (expOf g r.sets).stored g, m.str x.1 = some x.2.1 ∨ (x.2.2 = true ∧ m.str x.1 = none)) ∧
    (∀ b, (expOf g r.sets).bext = some b → bextSupport g.cont = true → m.bext = some (normBext g b)) ∧
    (∀ b, (expOf g r.sets).cart = some b → cartSupport g.cont = true → ∃ q, m.cart = some q ∧ maskCart q = maskCart (normCart b)) ∧
    (∀ cs, (expOf g r.sets).cues = some cs → cueSupport g.cont = true →
      ∃ cnt got, m.cues = some (cnt, got) ∧ got.map cueNums = (normCues g.cont cs).map cueNums ∧ cnt = (normCues g.cont cs).length ∧
        m.cueCount = (1, (normCues g.cont cs).length) ∧
        (cueNamesJudged g.cont cs = true → got.map (·.name) = (normCues g.cont cs).map (·.name))) ∧
    (∀ b, (expOf g r.sets).inst = some b → instSupport g.cont = true → m.inst = some (normInst b)) ∧
    (∀ b, (expOf g r.sets).chmap = some b → chmapSupport g.cont = true → m.chmap = some b) ∧
    Absent g.cont r.sets m

/-- THE STATEMENT of C12 on one run, in mathematical form -/
structure Holds (g : Geom) (r : Run) : Prop where
  complete : r.complete = true
  opened : r.openOk = true
  /-- the audio write accepted what it was handed -/
  wrote : ∀ ret err, r.wret = some (ret, err) → ret = (r.items.length : Int) ∧ err = 0
  closed : ∀ c, r.close = some c → c = 0
  /-- the closed file re-opens -/
  reopened : ∃ ri, r.reopen = some ri ∧ ri.ok = true ∧
    /- "never alters the audio data": frame count and samples -/
    ri.frames = ((r.items.length / max 1 g.ch : Nat) : Int) ∧
    (∀ rb, r.read = some rb → rb.ret = (r.items.length : Int) ∧ rb.err = 0 ∧ rb.data.take r.items.length = r.items)
  /-- a valid item set before the audio on a container that stores the kind is accepted -/
  accepted : ∀ pre c post, r.sets = pre ++ c :: post → callFine g (strAccepted pre) c
  /-- "is returned unchanged by the matching get calls after close and re-open … only the documented normalisations apply" -/
  items : ∀ m, r.got = some m → ItemsHold g r m

theorem writeFails_nil_iff (r : Run) : writeFails r = [] ↔ ∀ ret err, r.wret = some (ret, err) → ret = (r.items.length : Int) ∧ err = 0 := by
  unfold writeFails
  cases h : r.wret with
  | none => simp
  | some p => obtain ⟨a, b⟩ := p; simp [ite_nil_iff]

theorem closeFails_nil_iff (r : Run) : closeFails r = [] ↔ ∀ c, r.close = some c → c = 0 := by
  unfold closeFails
  cases h : r.close with
  | none => simp
  | some c => simp [ite_nil_iff]

theorem itemFails_nil_iff (g : Geom) (r : Run) (m : Got) : itemFails g r m = [] ↔ ItemsHold g r m := by
  unfold itemFails ItemsHold
  simp only [List.append_eq_nil_iff, flatMap_nil_iff, strFail_nil_iff, bextFail_nil_iff, cartFail_nil_iff,
    cuesFail_nil_iff, instFail_nil_iff, chmapFail_nil_iff, absentFails_nil_iff]
  constructor
  · rintro ⟨⟨⟨⟨⟨⟨a, b⟩, c⟩, d⟩, e⟩, f⟩, k⟩; exact ⟨a, b, c, d, e, f, k⟩
  · rintro ⟨a, b, c, d, e, f, k⟩; exact ⟨⟨⟨⟨⟨⟨a, b⟩, c⟩, d⟩, e⟩, f⟩, k⟩

theorem gotFails_nil_iff (g : Geom) (r : Run) : gotFails g r = [] ↔ ∀ m, r.got = some m → ItemsHold g r m := by
  unfold gotFails
  cases h : r.got with
  | none => simp
  | some m => simp [itemFails_nil_iff]

/-- MEANING AND COMPLETENESS of the predicate on one run: no clause fails exactly when the statement holds -/
theorem judgeRun_nil_iff (g : Geom) (r : Run) : judgeRun g r = [] ↔ Holds g r := by
  unfold judgeRun
  by_cases hc' : r.complete = false
  · simp only [hc', Bool.not_false, if_true]
    constructor
    · intro h; simp at h
    · intro h; have := h.complete; simp [hc'] at this
  have hc : r.complete = true := by simpa using hc'
  by_cases ho' : r.openOk = false
  · simp only [hc, ho', Bool.not_true, Bool.not_false, Bool.false_eq_true, if_false, if_true]
    constructor
    · intro h; simp at h
    · intro h; have := h.opened; simp [ho'] at this
  have ho : r.openOk = true := by simpa using ho'
  simp only [hc, ho, Bool.not_true, Bool.false_eq_true, if_false, List.append_eq_nil_iff, writeFails_nil_iff, closeFails_nil_iff]
  unfold reopenFails
  cases hre : r.reopen with
  | none =>
    constructor
    · intro h; simp at h
    · intro h; obtain ⟨ri, h1, _⟩ := h.reopened; simp [hre] at h1
  | some ri =>
    by_cases hok' : ri.ok = false
    · simp only [hok', Bool.not_false, if_true]
      constructor
      · intro h; simp at h
      · intro h; obtain ⟨ri', h1, h2, _⟩ := h.reopened; rw [hre] at h1; cases h1; simp [hok'] at h2
    have hok : ri.ok = true := by simpa using hok'
    simp only [hok, Bool.not_true, Bool.false_eq_true, if_false, List.append_eq_nil_iff, audioFails_nil_iff, refusedValidGo_nil_iff,
      Nat.zero_add, gotFails_nil_iff]
    constructor
    · rintro ⟨⟨h1, h2⟩, ⟨⟨h3, h4⟩, h5⟩⟩
      exact ⟨hc, ho, h1, h2, ⟨ri, hre, hok, h3.1, h3.2⟩, h4, h5⟩
    · intro h
      obtain ⟨ri', e1, _, e3, e4⟩ := h.reopened
      rw [hre] at e1
      cases e1
      exact ⟨⟨h.wrote, h.closed⟩, ⟨⟨e3, e4⟩, h.accepted⟩, h.items⟩

end Sf.AbsMeta

namespace Sf.AbsMeta
open Sf Sf.Meta

/-! ## the twin run and the permuted run -/

/-- what the two re-opened files answer agrees on every item no accepted-but-removed call touched -/
def TwinItems (g : Geom) (sets : List SetCall) (a b : Got) : Prop :=
  (∀ ty ∈ STR_TYPES, touched g sets (.str (ty : Int)) = false → a.str ty = b.str ty) ∧
  (touched g sets .bext = false → a.bext = b.bext) ∧
  (touched g sets .cart = false → a.cart.map maskCart = b.cart.map maskCart) ∧
  (touched g sets .cues = false → a.cues = b.cues ∧ a.cueCount = b.cueCount) ∧
  (touched g sets .inst = false → a.inst = b.inst) ∧
  (touched g sets .chmap = false → a.chmap = b.chmap)

/-- C12: "Setting an item the container cannot store, or too late, is reported as failure or ignored, but never alters the audio
    data or other metadata" — against the run that does not make those calls at all -/
structure TwinHolds (g : Geom) (main twin : Run) : Prop where
  ran : twin.complete = true ∧ twin.openOk = true
  /-- the twin made exactly the calls of the main run that were accepted before the audio on a container that stores the kind -/
  calls : sameCalls (twinSets g main.sets) twin.sets = true
  /-- the same audio: frame count and delivered samples -/
  audio : sameAudio main.read twin.read = true ∧ main.reopen.map (·.frames) = twin.reopen.map (·.frames)
  /-- the same answers for every other item -/
  items : ∃ a b, main.got = some a ∧ twin.got = some b ∧ TwinItems g main.sets a b

theorem twinFails_nil_iff (g : Geom) (main twin : Run) : twinFails g main twin = [] ↔ TwinHolds g main twin := by
  unfold twinFails
  by_cases h1 : (!twin.complete || !twin.openOk) = true
  · simp only [h1, if_true]
    constructor
    · intro h; simp at h
    · intro h; obtain ⟨a, b⟩ := h.ran; simp [a, b] at h1
  simp only [h1, Bool.false_eq_true, if_false]
  by_cases h2 : (!sameCalls (twinSets g main.sets) twin.sets) = true
  · simp only [h2, if_true]
    constructor
    · intro h; simp at h
    · intro h; simp [h.calls] at h2
  simp only [h2, Bool.false_eq_true, if_false, List.append_eq_nil_iff, ite_nil_iff]
  have r1 : twin.complete = true ∧ twin.openOk = true := by
    simp only [Bool.or_eq_true, Bool.not_eq_true', not_or, Bool.not_eq_false] at h1; exact h1
  have r2 : sameCalls (twinSets g main.sets) twin.sets = true := by simpa using h2
  cases ha : main.got with
  | none =>
    constructor
    · intro h; simp at h
    · intro h; obtain ⟨a, b, e1, _⟩ := h.items; simp [ha] at e1
  | some a =>
    cases hb : twin.got with
    | none =>
      constructor
      · intro h; simp at h
      · intro h; obtain ⟨a', b, _, e2, _⟩ := h.items; simp [hb] at e2
    | some b =>
      simp only [List.append_eq_nil_iff, filter_map_nil_iff, ite_nil_iff_not]
      constructor
      · rintro ⟨hau, ⟨⟨⟨⟨⟨s1, s2⟩, s3⟩, s4⟩, s5⟩, s6⟩⟩
        refine ⟨r1, r2, by simpa using hau, a, b, ha, hb, ?_, ?_, ?_, ?_, ?_, ?_⟩
        · intro ty hty ht
          have := s1 ty hty
          simp only [ht, Bool.not_false, Bool.true_and] at this
          simpa using this
        · intro ht; simp only [ht, Bool.not_false, Bool.true_and] at s2; simpa using s2
        · intro ht; simp only [ht, Bool.not_false, Bool.true_and] at s3; simpa using s3
        · intro ht
          simp only [ht, Bool.not_false, Bool.true_and, Bool.or_eq_true, bne_iff_ne, ne_eq, not_or, Decidable.not_not] at s4
          exact s4
        · intro ht; simp only [ht, Bool.not_false, Bool.true_and] at s5; simpa using s5
        · intro ht; simp only [ht, Bool.not_false, Bool.true_and] at s6; simpa using s6
      · intro h
        obtain ⟨a', b', e1, e2, t1, t2, t3, t4, t5, t6⟩ := h.items
        rw [ha] at e1; rw [hb] at e2
        cases e1; cases e2
        refine ⟨by simpa using h.audio, ⟨⟨⟨⟨⟨?_, ?_⟩, ?_⟩, ?_⟩, ?_⟩, ?_⟩⟩
        · intro ty hty
          cases ht : touched g main.sets (.str (ty : Int))
          · simp [t1 ty hty ht]
          · simp
        · cases ht : touched g main.sets .bext
          · simp [t2 ht]
          · simp
        · cases ht : touched g main.sets .cart
          · simp [t3 ht]
          · simp
        · cases ht : touched g main.sets .cues
          · simp [(t4 ht).1, (t4 ht).2]
          · simp
        · cases ht : touched g main.sets .inst
          · simp [t5 ht]
          · simp
        · cases ht : touched g main.sets .chmap
          · simp [t6 ht]
          · simp

/-- C12: "forall orders of setting the items" — the permuted run made the same calls and every getter answers the same -/
structure PermHolds (main perm : Run) : Prop where
  ran : perm.complete = true ∧ perm.openOk = true
  calls : isReorder main.sets perm.sets = true
  audio : sameAudio main.read perm.read = true ∧ main.reopen.map (·.frames) = perm.reopen.map (·.frames)
  items : ∃ a b, main.got = some a ∧ perm.got = some b ∧ gotSame a b = true

theorem permFails_nil_iff (main perm : Run) : permFails main perm = [] ↔ PermHolds main perm := by
  unfold permFails
  by_cases h1 : (!perm.complete || !perm.openOk) = true
  · simp only [h1, if_true]
    constructor
    · intro h; simp at h
    · intro h; obtain ⟨a, b⟩ := h.ran; simp [a, b] at h1
  simp only [h1, Bool.false_eq_true, if_false]
  by_cases h2 : (!isReorder main.sets perm.sets) = true
  · simp only [h2, if_true]
    constructor
    · intro h; simp at h
    · intro h; simp [h.calls] at h2
  simp only [h2, Bool.false_eq_true, if_false, List.append_eq_nil_iff, ite_nil_iff]
  have r1 : perm.complete = true ∧ perm.openOk = true := by
    simp only [Bool.or_eq_true, Bool.not_eq_true', not_or, Bool.not_eq_false] at h1; exact h1
  have r2 : isReorder main.sets perm.sets = true := by simpa using h2
  cases ha : main.got with
  | none =>
    constructor
    · intro h; simp at h
    · intro h; obtain ⟨a, b, e1, _⟩ := h.items; simp [ha] at e1
  | some a =>
    cases hb : perm.got with
    | none =>
      constructor
      · intro h; simp at h
      · intro h; obtain ⟨a', b, _, e2, _⟩ := h.items; simp [hb] at e2
    | some b =>
      simp only [ite_nil_iff]
      constructor
      · rintro ⟨hau, hs⟩
        exact ⟨r1, r2, by simpa using hau, a, b, ha, hb, hs⟩
      · intro h
        obtain ⟨a', b', e1, e2, hs⟩ := h.items
        rw [ha] at e1; rw [hb] at e2
        cases e1; cases e2
        exact ⟨by simpa using h.audio, hs⟩

/-- the main run opened, re-opened: the twin and the permuted run are judged -/
def Record.judgedFurther (r : Record) : Bool :=
  r.main.complete && r.main.openOk && (r.main.reopen.map (·.ok)) == some true

/-- **accepted_iff** — MEANING AND COMPLETENESS of THE PREDICATE of C12: a record is accepted exactly when the statement holds on
    the main run, and (where they were made) on the twin run and on the permuted run -/
theorem accepted_iff (r : Record) :
    accepted r = true ↔ Holds r.g r.main ∧ (∀ t, r.twin = some t → TwinHolds r.g r.main t) ∧ (∀ p, r.perm = some p → PermHolds r.main p) := by
  unfold accepted judge
  simp only [List.isEmpty_iff, List.append_eq_nil_iff, judgeRun_nil_iff]
  constructor
  · rintro ⟨hm, hrest⟩
    have hj : (r.main.complete && r.main.openOk && (r.main.reopen.map (·.ok)) == some true) = true := by
      obtain ⟨ri, e1, e2, _⟩ := hm.reopened
      simp [hm.complete, hm.opened, e1, e2]
    simp only [hj, if_true, List.append_eq_nil_iff] at hrest
    refine ⟨hm, ?_, ?_⟩
    · intro t ht; have := hrest.1; simp only [ht] at this; exact (twinFails_nil_iff _ _ _).mp this
    · intro p hp; have := hrest.2; simp only [hp] at this; exact (permFails_nil_iff _ _).mp this
  · rintro ⟨hm, ht, hp⟩
    refine ⟨hm, ?_⟩
    have hj : (r.main.complete && r.main.openOk && (r.main.reopen.map (·.ok)) == some true) = true := by
      obtain ⟨ri, e1, e2, _⟩ := hm.reopened
      simp [hm.complete, hm.opened, e1, e2]
    simp only [hj, if_true, List.append_eq_nil_iff]
    constructor
    · cases h : r.twin with
      | none => rfl
      | some t => exact (twinFails_nil_iff _ _ _).mpr (ht t h)
    · cases h : r.perm with
      | none => rfl
      | some p => exact (permFails_nil_iff _ _).mpr (hp p h)

end Sf.AbsMeta
