/-
  The read / write contract lemmas cited by SfProps/C05.lean, C06.lean, C09.lean.
-/
import SfProofs.HandleOpen
namespace Sf

/-- a read request the wrapper accepts -/
def ReadValid (h : H) (fc : Bool) (n : Int) : Prop := 0 < n ∧ h.mode ≠ .w ∧ (fc = true ∨ n % (h.ch : Int) = 0)

/-- a write request the wrapper accepts -/
def WriteValid (h : H) (fc : Bool) (n : Int) : Prop := 0 < n ∧ h.mode ≠ .r ∧ (fc = true ∨ n % (h.ch : Int) = 0)

/-- frames a return value stands for -/
def framesOf (h : H) (fc : Bool) (ret : Int) : Int := if fc then ret else ret / (h.ch : Int)

/-- items a return value stands for -/
def itemsOf (h : H) (fc : Bool) (ret : Int) : Int := if fc then ret * (h.ch : Int) else ret

theorem reqLen_toNat_of_neg (h : H) (fc : Bool) (n : Int) (hn : n < 0) : (reqLen h fc n).toNat = 0 := by
  unfold reqLen; split
  · have : n * (h.ch : Int) ≤ 0 := Int.mul_nonpos_of_nonpos_of_nonneg (by omega) (by omega)
    omega
  · omega

theorem read_contract_any (h : H) (s : Store) (ty : Ty) (fc : Bool) (n : Int) (hi : HInv h s) :
    0 ≤ (stepRead h s ty fc n).2.2.ret ∧ (0 ≤ n → (stepRead h s ty fc n).2.2.ret ≤ n) ∧
    (n ≤ 0 → (stepRead h s ty fc n).2.2.ret = 0) ∧
    (stepRead h s ty fc n).2.2.data.length = (reqLen h fc n).toNat ∧
    (stepRead h s ty fc n).1.rpos = h.rpos + framesOf h fc (stepRead h s ty fc n).2.2.ret ∧
    (stepRead h s ty fc n).2.1.bytes = s.bytes := by
  have hch := hi.ch_pos
  have fz : framesOf h fc 0 = 0 := by unfold framesOf; split <;> simp
  by_cases h0 : n = 0
  · subst h0; rw [stepRead_zero]
    refine ⟨Int.le_refl _, fun _ => Int.le_refl _, fun _ => rfl, ?_, ?_, rfl⟩
    · simp [reqLen]
    · show h.rpos = h.rpos + framesOf h fc 0; rw [fz]; omega
  by_cases hneg : n < 0
  · rw [stepRead_neg _ _ _ _ _ hneg]
    refine ⟨Int.le_refl _, fun _ => by omega, fun _ => rfl, ?_, ?_, rfl⟩
    · rw [reqLen_toNat_of_neg h fc n hneg]; rfl
    · show h.rpos = h.rpos + framesOf h fc 0; rw [fz]; omega
  have hn : 0 < n := by omega
  by_cases hw : h.mode = .w
  · rw [stepRead_wmode _ _ _ _ _ hn hw]
    refine ⟨Int.le_refl _, fun _ => by omega, fun _ => by omega, by simp, ?_, rfl⟩
    show h.rpos = h.rpos + framesOf h fc 0; rw [fz]; omega
  by_cases ha : fc = true ∨ n % (h.ch : Int) = 0
  · by_cases he : h.frames ≤ h.rpos
    · rw [stepRead_eof _ _ _ _ _ hn hw ha he]
      refine ⟨Int.le_refl _, fun _ => by omega, fun _ => by omega, by simp, ?_, rfl⟩
      show h.rpos = h.rpos + framesOf h fc 0; rw [fz]; omega
    · obtain ⟨c, hc, e1, e2, e3, _, e5, _, _⟩ :=
        stepRead_main_general h s ty fc n hn hw ha (by omega) hi.nb_pos hch
      rw [e1, e2, e3, e5]
      have hcI : (0 : Int) < h.ch := by omega
      have hc0 : 0 ≤ (c : Int) / (h.ch : Int) := Int.ediv_nonneg (by omega) (by omega)
      cases fc with
      | true =>
        have hl : (reqLen h true n).toNat = n.toNat * h.ch := by
          simp only [reqLen, if_true]
          have : n * (h.ch : Int) = ((n.toNat * h.ch : Nat) : Int) := by
            push_cast; rw [Int.toNat_of_nonneg (by omega)]
          rw [this]; exact Int.toNat_natCast _
        rw [hl] at hc
        have hdiv : c / h.ch ≤ n.toNat := Nat.div_le_of_le_mul (by rw [Nat.mul_comm]; exact hc)
        have hcast : (c : Int) / (h.ch : Int) = ((c / h.ch : Nat) : Int) := by simp
        refine ⟨?_, fun _ => ?_, fun _ => ?_, rfl, ?_, rfl⟩
        · simp only [if_true]; exact hc0
        · simp only [if_true]; omega
        · omega
        · simp only [if_true, framesOf]
      | false =>
        have hl : (reqLen h false n).toNat = n.toNat := by simp [reqLen]
        rw [hl] at hc
        refine ⟨?_, fun _ => ?_, fun _ => ?_, rfl, ?_, rfl⟩
        · simp only [Bool.false_eq_true, if_false]; omega
        · simp only [Bool.false_eq_true, if_false]; omega
        · omega
        · simp only [Bool.false_eq_true, if_false, framesOf]
  · obtain ⟨hf, hna⟩ := not_aligned_of fc n h.ch ha
    subst hf
    rw [stepRead_align _ _ _ _ hn hw hna]
    refine ⟨Int.le_refl _, fun _ => by omega, fun _ => by omega, by simp [reqLen], ?_, rfl⟩
    show h.rpos = h.rpos + framesOf h false 0; rw [fz]; omega

theorem stepRead_frames (h : H) (s : Store) (ty : Ty) (fc : Bool) (n : Int) (hi : HInv h s) :
    (stepRead h s ty fc n).1.frames = h.frames ∧ (stepRead h s ty fc n).1.ch = h.ch ∧
    (stepRead h s ty fc n).1.enc = h.enc ∧ (stepRead h s ty fc n).1.conv = h.conv ∧
    (stepRead h s ty fc n).1.dataoffset = h.dataoffset ∧ (stepRead h s ty fc n).1.mode = h.mode ∧
    (stepRead h s ty fc n).1.wpos = h.wpos := by
  by_cases h0 : n = 0
  · subst h0; rw [stepRead_zero]; simp
  by_cases hneg : n < 0
  · rw [stepRead_neg _ _ _ _ _ hneg]; simp
  have hn : 0 < n := by omega
  by_cases hw : h.mode = .w
  · rw [stepRead_wmode _ _ _ _ _ hn hw]; simp
  by_cases ha : fc = true ∨ n % (h.ch : Int) = 0
  · by_cases he : h.frames ≤ h.rpos
    · rw [stepRead_eof _ _ _ _ _ hn hw ha he]; simp
    · obtain ⟨c, _, e1, _⟩ := stepRead_main_general h s ty fc n hn hw ha (by omega) hi.nb_pos hi.ch_pos
      rw [e1]; simp
  · obtain ⟨hf, hna⟩ := not_aligned_of fc n h.ch ha
    subst hf
    rw [stepRead_align _ _ _ _ hn hw hna]; simp

theorem read_valid_err (h : H) (s : Store) (ty : Ty) (fc : Bool) (n : Int) (hi : HInv h s)
    (hn : 0 < n) (hw : h.mode ≠ .w) (ha : fc = true ∨ n % (h.ch : Int) = 0) :
    (stepRead h s ty fc n).2.2.err = 0 ∧ (stepRead h s ty fc n).1.error = 0 := by
  by_cases he : h.frames ≤ h.rpos
  · rw [stepRead_eof _ _ _ _ _ hn hw ha he]; simp
  · obtain ⟨c, _, e1, _, _, e4, _⟩ := stepRead_main_general h s ty fc n hn hw ha (by omega) hi.nb_pos hi.ch_pos
    rw [e1, e4]; simp

theorem read_data_any (h : H) (s : Store) (ty : Ty) (fc : Bool) (n : Int) (hi : HInv h s)
    (hn : 0 < n) (hw : h.mode ≠ .w) (ha : fc = true ∨ n % (h.ch : Int) = 0) (he : h.rpos < h.frames) :
    (stepRead h s ty fc n).2.2.data.take (itemsOf h fc (stepRead h s ty fc n).2.2.ret).toNat =
      (h.enc.decodeAll h.conv ty ((s.bytes.drop (readPos h s)).take ((reqLen h fc n).toNat * h.enc.nbytes))).take
        (itemsOf h fc (stepRead h s ty fc n).2.2.ret).toNat := by
  obtain ⟨c, _, _, _, e3, _, _, e6, _⟩ := stepRead_main_general h s ty fc n hn hw ha he hi.nb_pos hi.ch_pos
  have hch := hi.ch_pos
  have hk : (itemsOf h fc (stepRead h s ty fc n).2.2.ret).toNat ≤ c := by
    rw [e3]; unfold itemsOf
    cases fc with
    | true =>
      simp only [if_true]
      have : (c : Int) / (h.ch : Int) * (h.ch : Int) ≤ c := Int.ediv_mul_le _ (by omega)
      omega
    | false => simp
  have key : ∀ (k : Nat) (l1 l2 : List Int), k ≤ c → l1.take c = l2.take c → l1.take k = l2.take k := by
    intro k l1 l2 hk hl
    have h1 : (l1.take c).take k = (l2.take c).take k := by rw [hl]
    rwa [List.take_take, List.take_take, Nat.min_eq_left hk] at h1
  exact key _ _ _ hk e6

/-- the full read statement on a read-only handle -/
theorem read_rmode_full (h : H) (s : Store) (ty : Ty) (fc : Bool) (n : Int) (hi : HInv h s) (hm : h.mode = .r)
    (hn : 0 < n) (ha : fc = true ∨ n % (h.ch : Int) = 0) :
    ∃ m d : Nat, reqLen h fc n = (m : Int) * (h.ch : Int) ∧ (d : Int) = min (m : Int) (h.frames - h.rpos) ∧
      (stepRead h s ty fc n).2.2.ret = (if fc then (d : Int) else (d : Int) * (h.ch : Int)) ∧
      (stepRead h s ty fc n).1.rpos = h.rpos + d ∧
      (stepRead h s ty fc n).2.2.err = 0 ∧
      (stepRead h s ty fc n).2.2.data.length = m * h.ch ∧
      (stepRead h s ty fc n).2.2.data.take (d * h.ch) =
        ((itemStream h s.bytes ty).drop (h.rpos.toNat * h.ch)).take (d * h.ch) := by
  obtain ⟨m, hm0, hlen, _, _⟩ := reqLen_frames h fc n hi.ch_pos hn ha
  have hw : h.mode ≠ .w := by rw [hm]; decide
  have hle := (hi.rd hm).rpos_le
  by_cases he : h.frames ≤ h.rpos
  · refine ⟨m, 0, hlen, by omega, ?_⟩
    rw [stepRead_eof _ _ _ _ _ hn hw ha he]
    refine ⟨by split <;> simp, by simp, rfl, ?_, by simp⟩
    simp only [List.length_replicate, hlen]
    exact Int.toNat_natCast (m * h.ch) ▸ (by push_cast; rfl)
  · obtain ⟨R, A, hR, hF, e1, _, _, e4, e5, e6, e7⟩ := stepRead_rmode h s ty fc n hi hm hn ha (by omega) m hlen
    refine ⟨m, min m A, hlen, ?_, ?_, ?_, e5, e6, ?_⟩
    · rw [hF, hR]; push_cast; omega
    · rw [e4]; split
      · rfl
      · push_cast; rfl
    · rw [e1, hR]; push_cast; rfl
    · rw [e7, hR, Int.toNat_natCast]

theorem read_short_rmode (h : H) (s : Store) (ty : Ty) (fc : Bool) (n : Int) (hi : HInv h s) (hm : h.mode = .r)
    (hn : 0 < n) (ha : fc = true ∨ n % (h.ch : Int) = 0) (hshort : (stepRead h s ty fc n).2.2.ret < n) :
    (stepRead h s ty fc n).1.rpos = (stepRead h s ty fc n).1.frames := by
  obtain ⟨m, d, hlen, hd, hret, hrp, _⟩ := read_rmode_full h s ty fc n hi hm hn ha
  rw [(stepRead_frames h s ty fc n hi).1, hrp]
  have hch := hi.ch_pos
  have hdm : d < m := by
    rw [hret] at hshort
    cases fc with
    | true =>
      simp only [reqLen, if_true] at hlen hshort
      have : n = m := Int.eq_of_mul_eq_mul_right (by omega) hlen
      omega
    | false =>
      simp only [reqLen, Bool.false_eq_true, if_false] at hlen hshort
      rw [hlen] at hshort
      have : (d : Int) < m := Int.lt_of_mul_lt_mul_right hshort (by omega)
      omega
  omega

/-- on a read-only handle the codec reads at the byte position of frame `rpos` -/
theorem readPos_rmode (h : H) (s : Store) (hi : HInv h s) (hm : h.mode = .r) (he : h.rpos < h.frames) :
    readPos h s = (h.dataoffset + h.rpos * (h.bw : Int)).toNat := by
  have hr := hi.rd hm
  have := hr.sync he
  simp only [readPos, hr.lastOp, ne_eq, not_true_eq_false, if_false]
  omega

/-! ## write -/

theorem write_contract_valid (h : H) (s : Store) (ty : Ty) (fc : Bool) (n : Int) (data : List Int) (hi : HInv h s)
    (hn : 0 < n) (hr : h.mode ≠ .r) (ha : fc = true ∨ n % (h.ch : Int) = 0) :
    (stepWrite h s ty fc n data).2.2.ret = n ∧ (stepWrite h s ty fc n data).2.2.err = 0 ∧
    (stepWrite h s ty fc n data).1.error = 0 ∧
    (stepWrite h s ty fc n data).1.wpos = h.wpos + framesOf h fc n ∧
    (stepWrite h s ty fc n data).1.frames = max h.frames (stepWrite h s ty fc n data).1.wpos ∧
    (stepWrite h s ty fc n data).1.rpos = h.rpos ∧ (stepWrite h s ty fc n data).1.ch = h.ch ∧
    (stepWrite h s ty fc n data).1.mode = h.mode ∧ (stepWrite h s ty fc n data).1.enc = h.enc := by
  obtain ⟨fl, dl, off, de, pk, e, _, eo⟩ := stepWrite_fields h s ty fc n data hn hr ha
  have hch : (0 : Int) < h.ch := by have := hi.ch_pos; omega
  have hq : reqLen h fc n / (h.ch : Int) = framesOf h fc n := by
    unfold reqLen framesOf; split
    · exact Int.mul_ediv_cancel _ (by omega)
    · rfl
  rw [e, eo]
  refine ⟨?_, rfl, rfl, ?_, ?_, rfl, rfl, rfl, rfl⟩
  · cases fc with
    | true => simp only [if_true, reqLen]; exact Int.mul_ediv_cancel _ (by omega)
    | false => simp [reqLen]
  · show h.wpos + reqLen h fc n / (h.ch : Int) = _; rw [hq]
  · rfl

theorem write_take_self (h : H) (s : Store) (ty : Ty) (fc : Bool) (n : Int) (data : List Int) :
    stepWrite h s ty fc n data = stepWrite h s ty fc n (data.take (reqLen h fc n).toNat) := by
  unfold stepWrite reqLen
  simp only [List.take_take, Nat.min_self]

theorem write_take_irrelevant (h : H) (s : Store) (ty : Ty) (fc : Bool) (n : Int) (data data' : List Int)
    (hd : data.take (reqLen h fc n).toNat = data'.take (reqLen h fc n).toNat) :
    stepWrite h s ty fc n data = stepWrite h s ty fc n data' := by
  rw [write_take_self h s ty fc n data, write_take_self h s ty fc n data', hd]

end Sf
