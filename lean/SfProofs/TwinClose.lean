/-
  SfProofs.TwinClose — the error field of the handle is read by nothing that produces file bytes: `writeHeader`, `wavTailer`,
  `closeHandle` give the same store for `{ h with error := e }` as for `h`; and every call of the handle model except a
  zero-count read / write starts by clearing it (`stepAny_error_blind`).  Used by SfProps/C09Twin.lean.
-/
import SfProofs.HandleErrors
namespace Sf.C09Twin
open Sf

theorem writeHeader_error (h : H) (s : Store) (c : Bool) (e : Int) :
    writeHeader { h with error := e } s c = ({ (writeHeader h s c).1 with error := e }, (writeHeader h s c).2) := by
  cases h
  rename_i st mode cont enc big ch sr fw frames rpos wpos lo hw ah er conv doff dlen dend flen pk pas ct
  cases cont
  · rfl
  · unfold writeHeader
    dsimp only
    cases c
    · rfl
    · rfl
  · unfold writeHeader
    dsimp only
    cases c
    · rfl
    · rfl

theorem wavTailer_error (h : H) (s : Store) (e : Int) :
    wavTailer { h with error := e } s = ({ (wavTailer h s).1 with error := e }, (wavTailer h s).2) := by
  cases h
  rename_i st mode cont enc big ch sr fw frames rpos wpos lo hw ah er conv doff dlen dend flen pk pas ct
  unfold wavTailer H.nb
  dsimp only
  by_cases c : doff + frames * ↑enc.nbytes * ↑ch > 0
  · simp only [c, if_true]; rfl
  · simp only [c, if_false]; rfl

theorem closeHandle_error (h : H) (s : Store) (e : Int) : closeHandle { h with error := e } s = closeHandle h s := by
  have key : ∀ (h' : H) (s' : Store), (writeHeader { h' with error := e } s' true).2 = (writeHeader h' s' true).2 :=
    fun h' s' => by rw [writeHeader_error]
  have key2 : ∀ (h' : H) (s' : Store) (c : Int), (writeHeader { h' with error := e, filelength := c } s' true).2 = (writeHeader { h' with filelength := c } s' true).2 :=
    fun h' s' c => key { h' with filelength := c } s'
  unfold closeHandle
  rw [wavTailer_error]
  dsimp only
  by_cases c2 : ((wavTailer h s).1.mode == Mode.rw) = true
  · by_cases c3 : (↑(wavTailer h s).2.pos : Int) < (wavTailer h s).1.filelength
    · simp only [c2, c3, if_true, key, key2]
    · simp only [c2, c3, if_true, if_false, key, key2]
  · simp only [c2, Bool.false_eq_true, if_false, key, key2]

/-- a call whose result does not depend on the error left by earlier calls: everything but `sf_read_* (…, 0)` /
    `sf_write_* (…, 0)` (which return before looking at the handle) and `sf_close` (which ends the history) -/
def ErrBlind : Op → Prop
  | .read _ _ _ n => n ≠ 0
  | .write _ _ _ n _ => n ≠ 0
  | .close _ => False
  | _ => True

theorem stepAny_error_blind (h : H) (s : Store) (op : Op) (e : Int) (hb : ErrBlind op) :
    stepAny { h with error := e } s op = stepAny h s op := by
  cases op with
  | read _ ty fc n => exact read_error_irrelevant h s ty fc n e hb
  | write _ ty fc n data => exact write_error_irrelevant h s ty fc n data e hb
  | seek _ off whence => rfl
  | cmdFlag _ cmd size => rfl
  | truncate _ f => rfl
  | close _ => exact absurd hb id

end Sf.C09Twin
