/-
  Lemmas for C06: what a read returns depends only on the frame position and the store bytes; seek results;
  partition invariance.
-/
import SfProofs.HandleContract
namespace Sf

/-- two handles describe the same opened file (everything a read looks at except the positions) -/
structure SameFile (h1 h2 : H) : Prop where
  enc : h1.enc = h2.enc
  conv : h1.conv = h2.conv
  ch : h1.ch = h2.ch
  frames : h1.frames = h2.frames
  dataoffset : h1.dataoffset = h2.dataoffset
  mode : h1.mode = h2.mode

theorem SameFile.refl (h : H) : SameFile h h := ⟨rfl, rfl, rfl, rfl, rfl, rfl⟩

theorem SameFile.itemStream {h1 h2 : H} (sf : SameFile h1 h2) (bytes : List Byte) (ty : Ty) :
    itemStream h1 bytes ty = itemStream h2 bytes ty := by
  unfold Sf.itemStream; rw [sf.enc, sf.conv, sf.dataoffset]

theorem stepRead_sameFile (h : H) (s : Store) (ty : Ty) (fc : Bool) (n : Int) (hi : HInv h s) :
    SameFile h (stepRead h s ty fc n).1 := by
  obtain ⟨a, b, c, d, e, f, _⟩ := stepRead_frames h s ty fc n hi
  exact ⟨c.symm, d.symm, b.symm, a.symm, e.symm, f.symm⟩

set_option linter.unusedSimpArgs false in
/-- On read-only handles the result of a read is a function of the frame position and the store bytes. -/
theorem read_out_depends (h1 h2 : H) (s1 s2 : Store) (ty : Ty) (fc : Bool) (n : Int)
    (hi1 : HInv h1 s1) (hi2 : HInv h2 s2) (hm : h1.mode = .r) (sf : SameFile h1 h2)
    (hpos : h1.rpos = h2.rpos) (hbytes : s1.bytes = s2.bytes) (herr : h1.error = h2.error) :
    (stepRead h1 s1 ty fc n).2.2 = (stepRead h2 s2 ty fc n).2.2 := by
  have hm2 : h2.mode = .r := by rw [← sf.mode]; exact hm
  have hlen : reqLen h1 fc n = reqLen h2 fc n := by unfold reqLen; rw [sf.ch]
  by_cases h0 : n = 0
  · subst h0; rw [stepRead_zero, stepRead_zero, herr]
  by_cases hneg : n < 0
  · rw [stepRead_neg _ _ _ _ _ hneg, stepRead_neg _ _ _ _ _ hneg]
  have hn : 0 < n := by omega
  have hw1 : h1.mode ≠ .w := by rw [hm]; decide
  have hw2 : h2.mode ≠ .w := by rw [hm2]; decide
  by_cases ha : fc = true ∨ n % (h1.ch : Int) = 0
  · have ha2 : fc = true ∨ n % (h2.ch : Int) = 0 := by rw [← sf.ch]; exact ha
    by_cases he : h1.frames ≤ h1.rpos
    · have he2 : h2.frames ≤ h2.rpos := by rw [← sf.frames, ← hpos]; exact he
      rw [stepRead_eof _ _ _ _ _ hn hw1 ha he, stepRead_eof _ _ _ _ _ hn hw2 ha2 he2, hlen]
    · have he1 : h1.rpos < h1.frames := by omega
      have he2 : h2.rpos < h2.frames := by rw [← sf.frames, ← hpos]; exact he1
      obtain ⟨R1, A1, O1, _, hR1, _, hO1, hp1, _, hrp1⟩ := rmode_nat h1 s1 hi1 hm he1
      obtain ⟨R2, A2, O2, _, hR2, _, hO2, hp2, _, hrp2⟩ := rmode_nat h2 s2 hi2 hm2 he2
      have hgot : readGot h1 s1 (reqLen h2 fc n) = readGot h2 s2 (reqLen h2 fc n) := by
        unfold readGot
        have : s1.pos = s2.pos := by
          rw [hp1, hp2, ← sf.enc, ← sf.ch]
          have : R1 = R2 := by have := hpos; rw [hR1, hR2] at this; omega
          have : O1 = O2 := by have := sf.dataoffset; rw [hO1, hO2] at this; omega
          subst_vars; rfl
        rw [hrp1, hrp2, this, hbytes]
        simp only [H.nb, sf.enc]
      rw [stepRead_main _ _ _ _ _ hn hw1 ha he1, stepRead_main _ _ _ _ _ hn hw2 ha2 he2]
      simp only [hlen, hgot, H.nb, sf.enc, sf.conv, sf.ch, sf.frames, hpos]
      split <;> rename_i hc <;> simp only [hc, if_true, if_false]
  · obtain ⟨hf, hna⟩ := not_aligned_of fc n h1.ch ha
    subst hf
    have hna2 : n % (h2.ch : Int) ≠ 0 := by rw [← sf.ch]; exact hna
    rw [stepRead_align _ _ _ _ hn hw1 hna, stepRead_align _ _ _ _ hn hw2 hna2]

/-! ## seek -/

theorem seek_result_any (h : H) (s : Store) (off whence : Int) :
    ((stepSeek h s off whence).2.2.ret = -1 ∧ (stepSeek h s off whence).2.2.err ≠ 0 ∧
      (stepSeek h s off whence).1 = { h with error := (stepSeek h s off whence).2.2.err } ∧
      (stepSeek h s off whence).2.1 = s) ∨
    (∃ b, seekBase h whence = some b ∧ (stepSeek h s off whence).2.2.ret = b + off ∧
      (stepSeek h s off whence).2.2.err = 0 ∧ (stepSeek h s off whence).1.error = 0 ∧
      (stepSeek h s off whence).2.1.bytes = s.bytes ∧ (HInv h s → 0 ≤ b + off)) := by
  rcases stepSeek_cases h s off whence with ⟨e, he, eq⟩ | ⟨b, hb, ht, _, _, eq⟩ | ⟨b, hb, _, h0, _, _, _, eq⟩
  · left; rw [eq]; exact ⟨rfl, he, rfl, rfl⟩
  · right; rw [eq]
    have hoff : off = 0 := ht.1
    refine ⟨b, hb, by simp [seekTell, hoff], rfl, rfl, rfl, fun hi => ?_⟩
    subst hoff
    have hr := hi.rpos_nn; have hw := hi.wpos_nn
    unfold seekBase at hb
    rcases ht.2 with ⟨w, _⟩ | w | w <;> subst w <;> simp at hb <;> (try split at hb) <;> omega
  · right; rw [eq]
    refine ⟨b, hb, rfl, rfl, ?_, rfl, fun _ => h0⟩
    rcases seekMoveH_cases h (seekWm whence) (b + off) (seekWm_cases whence) with ⟨_, _, e⟩ | ⟨_, _, e⟩ | ⟨_, _, e⟩ <;>
      rw [e]

/-- a successful seek on a read-only handle: the read position is the value returned, nothing else a read looks at
    changes -/
theorem seek_success_rmode (h : H) (s : Store) (off whence : Int) (hi : HInv h s) (hm : h.mode = .r)
    (hok : (stepSeek h s off whence).2.2.err = 0) :
    (stepSeek h s off whence).1.rpos = (stepSeek h s off whence).2.2.ret ∧
    SameFile h (stepSeek h s off whence).1 ∧ (stepSeek h s off whence).2.1.bytes = s.bytes ∧
    (stepSeek h s off whence).1.error = 0 ∧
    0 ≤ (stepSeek h s off whence).2.2.ret ∧ (stepSeek h s off whence).2.2.ret ≤ h.frames := by
  have hr := hi.rd hm
  rcases stepSeek_cases h s off whence with ⟨e, he, eq⟩ | ⟨b, hb, ht, n1, _, eq⟩ | ⟨b, hb, _, h0, hfr, n1, _, eq⟩
  · rw [eq] at hok; exact absurd hok he
  · rw [eq]
    have hb' : b = h.rpos := by
      unfold seekBase at hb
      rcases ht.2 with ⟨w, _⟩ | w | w
      · subst w; simp [hm] at hb; omega
      · subst w; simp at hb; omega
      · subst w; exfalso; exact n1 ⟨by unfold seekWm; decide, hm⟩
    subst hb'
    exact ⟨rfl, ⟨rfl, rfl, rfl, rfl, rfl, rfl⟩, rfl, rfl, hi.rpos_nn, hr.rpos_le⟩
  · rw [eq]
    rcases seekMoveH_cases h (seekWm whence) (b + off) (seekWm_cases whence) with ⟨_, _, e⟩ | ⟨nr, mw, e⟩ | ⟨_, _, e⟩
    · rw [e]; exact ⟨rfl, ⟨rfl, rfl, rfl, rfl, rfl, rfl⟩, rfl, rfl, h0, hfr hm⟩
    · exfalso
      rcases mw with mw | mw | mw
      · exact n1 ⟨mw, hm⟩
      · exact nr (Or.inr (Or.inl mw))
      · exact mw.2 hm
    · rw [e]; exact ⟨rfl, ⟨rfl, rfl, rfl, rfl, rfl, rfl⟩, rfl, rfl, h0, hfr hm⟩

theorem seek_cur_zero_r (h : H) (s : Store) (hm : h.mode = .r) :
    stepSeek h s 0 1 = ({ h with error := 0 }, s, { ret := h.rpos, err := 0 }) := by
  rw [stepSeek_eq_spec]; simp [seekSpec, seekWm, seekBase, seekIsTell, seekTell, hm]

theorem seek_cur_zero_w (h : H) (s : Store) (hm : h.mode = .w) :
    stepSeek h s 0 1 = ({ h with error := 0 }, s, { ret := h.wpos, err := 0 }) := by
  rw [stepSeek_eq_spec]; simp [seekSpec, seekWm, seekBase, seekIsTell, seekTell, hm]

theorem seek_cur_zero_read_qualified (h : H) (s : Store) (hm : h.mode ≠ .w) :
    stepSeek h s 0 0x11 = ({ h with error := 0 }, s, { ret := h.rpos, err := 0 }) := by
  rw [stepSeek_eq_spec]; simp [seekSpec, seekWm, seekBase, seekIsTell, seekTell, hm]

theorem seek_cur_zero_write_qualified (h : H) (s : Store) (hm : h.mode ≠ .r) :
    stepSeek h s 0 0x21 = ({ h with error := 0 }, s, { ret := h.wpos, err := 0 }) := by
  rw [stepSeek_eq_spec]; simp [seekSpec, seekWm, seekBase, seekIsTell, seekTell, hm]

/-- plain SEEK_CUR with offset 0 on a RDWR handle is a real seek to the *write* position: it moves the read
    position there too -/
theorem seek_cur_zero_rw (h : H) (s : Store) (hm : h.mode = .rw) (hw : 0 ≤ h.wpos) :
    stepSeek h s 0 1 = ({ h with error := 0, rpos := h.wpos, wpos := h.wpos, lastOp := .r }, defaultSeek h s h.wpos,
      { ret := h.wpos, err := 0 }) := by
  rw [stepSeek_eq_spec]
  have : ¬ h.wpos < 0 := by omega
  simp [seekSpec, seekWm, seekBase, seekIsTell, seekMoveH, modeBits, hm, this]

/-! ## partition invariance -/

/-- read-only handle, request of `m` whole frames given explicitly: everything in terms of natural numbers -/
theorem read_rmode_nat (h : H) (s : Store) (ty : Ty) (fc : Bool) (n : Int) (hi : HInv h s) (hm : h.mode = .r)
    (hn : 0 < n) (ha : fc = true ∨ n % (h.ch : Int) = 0) (m : Nat) (hlen : reqLen h fc n = (m : Int) * (h.ch : Int)) :
    ∃ R A : Nat, h.rpos = R ∧ h.frames = ((R + A : Nat) : Int) ∧
      (stepRead h s ty fc n).1.rpos = ((R + min m A : Nat) : Int) ∧
      (stepRead h s ty fc n).2.2.ret = (if fc then ((min m A : Nat) : Int) else ((min m A * h.ch : Nat) : Int)) ∧
      (stepRead h s ty fc n).2.2.data.take (min m A * h.ch) =
        ((itemStream h s.bytes ty).drop (R * h.ch)).take (min m A * h.ch) := by
  have hw : h.mode ≠ .w := by rw [hm]; decide
  have hle := (hi.rd hm).rpos_le
  by_cases he : h.frames ≤ h.rpos
  · obtain ⟨R, hR⟩ := Int.eq_ofNat_of_zero_le hi.rpos_nn
    refine ⟨R, 0, hR, by omega, ?_⟩
    rw [stepRead_eof _ _ _ _ _ hn hw ha he]
    have : min m 0 = 0 := by omega
    rw [this]
    exact ⟨hR, by split <;> simp, by simp⟩
  · obtain ⟨R, A, hR, hF, e1, _, _, e4, _, _, e7⟩ := stepRead_rmode h s ty fc n hi hm hn ha (by omega) m hlen
    exact ⟨R, A, hR, hF, by rw [e1], e4, e7⟩

theorem reqLen_add (h : H) (fc : Bool) (a b : Int) : reqLen h fc (a + b) = reqLen h fc a + reqLen h fc b := by
  unfold reqLen; split
  · exact Int.add_mul _ _ _
  · rfl

/-- reading `ma` frames and then `mb` frames = reading `ma + mb` frames, on a read-only handle -/
theorem partition_core (h : H) (s : Store) (ty : Ty) (fc : Bool) (a b : Int) (hi : HInv h s) (hm : h.mode = .r)
    (ha0 : 0 < a) (hb0 : 0 < b) (haa : fc = true ∨ a % (h.ch : Int) = 0) (hab : fc = true ∨ b % (h.ch : Int) = 0)
    (ma mb : Nat) (hla : reqLen h fc a = (ma : Int) * (h.ch : Int)) (hlb : reqLen h fc b = (mb : Int) * (h.ch : Int)) :
    let r1 := stepRead h s ty fc a
    let r2 := stepRead r1.1 r1.2.1 ty fc b
    let r3 := stepRead h s ty fc (a + b)
    ∃ d1 d2 : Nat,
      r1.2.2.ret = (if fc then (d1 : Int) else ((d1 * h.ch : Nat) : Int)) ∧
      r2.2.2.ret = (if fc then (d2 : Int) else ((d2 * h.ch : Nat) : Int)) ∧
      r3.2.2.ret = (if fc then ((d1 + d2 : Nat) : Int) else (((d1 + d2) * h.ch : Nat) : Int)) ∧
      r2.1.rpos = r3.1.rpos ∧
      r1.2.2.data.take (d1 * h.ch) ++ r2.2.2.data.take (d2 * h.ch) = r3.2.2.data.take ((d1 + d2) * h.ch) := by
  intro r1 r2 r3
  have hi1 : HInv r1.1 r1.2.1 := HInv_stepRead h s ty fc a hi
  have sf1 : SameFile h r1.1 := stepRead_sameFile h s ty fc a hi
  have hm1 : r1.1.mode = .r := by rw [← sf1.mode]; exact hm
  have hb1 : r1.2.1.bytes = s.bytes := (read_contract_any h s ty fc a hi).2.2.2.2.2
  have hab1 : fc = true ∨ b % (r1.1.ch : Int) = 0 := by rw [← sf1.ch]; exact hab
  have hlb1 : reqLen r1.1 fc b = (mb : Int) * (r1.1.ch : Int) := by
    rw [← sf1.ch, ← hlb]; unfold reqLen; rw [sf1.ch]
  have hab3 : fc = true ∨ (a + b) % (h.ch : Int) = 0 := by
    rcases haa with x | x
    · exact Or.inl x
    · rcases hab with y | y
      · exact Or.inl y
      · right; exact Int.emod_eq_zero_of_dvd (Int.dvd_add (Int.dvd_of_emod_eq_zero x) (Int.dvd_of_emod_eq_zero y))
  have hl3 : reqLen h fc (a + b) = ((ma + mb : Nat) : Int) * (h.ch : Int) := by
    rw [reqLen_add, hla, hlb]; push_cast; rw [Int.add_mul]
  obtain ⟨R, A, hR, hF, p1, q1, d1⟩ := read_rmode_nat h s ty fc a hi hm ha0 haa ma hla
  obtain ⟨R', A', hR', hF', p2, q2, d2⟩ := read_rmode_nat r1.1 r1.2.1 ty fc b hi1 hm1 hb0 hab1 mb hlb1
  obtain ⟨R3, A3, hR3, hF3, p3, q3, d3⟩ := read_rmode_nat h s ty fc (a + b) hi hm (by omega) hab3 (ma + mb) hl3
  have eR3 : R3 = R := by rw [hR] at hR3; omega
  have eA3 : A3 = A := by rw [hF] at hF3; omega
  subst eR3 eA3
  have eR' : R' = R3 + min ma A3 := by
    have : r1.1.rpos = ((R3 + min ma A3 : Nat) : Int) := p1
    rw [this] at hR'; omega
  have eA' : R' + A' = R3 + A3 := by
    have := sf1.frames; rw [hF] at this; rw [← this] at hF'; omega
  have hsum : min (ma + mb) A3 = min ma A3 + min mb A' := by omega
  refine ⟨min ma A3, min mb A', q1, ?_, ?_, ?_, ?_⟩
  · rw [q2, ← sf1.ch]
  · rw [q3, hsum]
  · rw [p2, p3, eR', hsum]; push_cast; omega
  · have d3' : r3.2.2.data.take ((min ma A3 + min mb A') * h.ch) =
        ((itemStream h s.bytes ty).drop (R3 * h.ch)).take ((min ma A3 + min mb A') * h.ch) := by
      rw [← hsum]; exact d3
    have d2' : r2.2.2.data.take (min mb A' * h.ch) =
        ((itemStream h s.bytes ty).drop (R3 * h.ch + min ma A3 * h.ch)).take (min mb A' * h.ch) := by
      have := d2
      rw [← sf1.ch, hb1, ← SameFile.itemStream sf1, eR', Nat.add_mul] at this
      exact this
    rw [d1, d2', d3', Nat.add_mul, List.take_add, List.drop_drop]

theorem partition_frames (h : H) (s : Store) (ty : Ty) (a b : Nat) (hi : HInv h s) (hm : h.mode = .r) :
    let r1 := stepRead h s ty true a
    let r2 := stepRead r1.1 r1.2.1 ty true b
    let r3 := stepRead h s ty true ((a + b : Nat) : Int)
    r1.2.2.ret + r2.2.2.ret = r3.2.2.ret ∧
    r2.1.rpos = r3.1.rpos ∧
    r1.2.2.data.take (r1.2.2.ret.toNat * h.ch) ++ r2.2.2.data.take (r2.2.2.ret.toNat * h.ch) =
      r3.2.2.data.take (r3.2.2.ret.toNat * h.ch) := by
  intro r1 r2 r3
  by_cases ha : a = 0
  · subst ha
    have e1 : r1 = (h, s, { ret := 0, err := h.error }) := stepRead_zero h s ty true
    have e3 : r3 = r2 := by
      show stepRead h s ty true ((0 + b : Nat) : Int) = stepRead r1.1 r1.2.1 ty true b
      rw [e1, Nat.zero_add]
    rw [e3, e1]; simp
  by_cases hb : b = 0
  · subst hb
    have e2 : r2 = (r1.1, r1.2.1, { ret := 0, err := r1.1.error }) := stepRead_zero r1.1 r1.2.1 ty true
    have e3 : r3 = r1 := rfl
    rw [e3, e2]; simp
  have key := partition_core h s ty true a b hi hm (by omega) (by omega) (Or.inl rfl) (Or.inl rfl) a b
    (by simp [reqLen]) (by simp [reqLen])
  obtain ⟨d1, d2, q1, q2, q3, hp, hd⟩ := key
  have e3 : r3 = stepRead h s ty true ((a : Int) + (b : Int)) := by
    show stepRead h s ty true ((a + b : Nat) : Int) = _
    rw [Int.natCast_add]
  simp only [if_true] at q1 q2 q3
  rw [e3]
  refine ⟨?_, hp, ?_⟩
  · show (stepRead h s ty true a).2.2.ret + (stepRead (stepRead h s ty true a).1 (stepRead h s ty true a).2.1 ty true b).2.2.ret = _
    rw [q1, q2, q3]; push_cast; rfl
  · show (stepRead h s ty true a).2.2.data.take ((stepRead h s ty true a).2.2.ret.toNat * h.ch) ++
      (stepRead (stepRead h s ty true a).1 (stepRead h s ty true a).2.1 ty true b).2.2.data.take
        ((stepRead (stepRead h s ty true a).1 (stepRead h s ty true a).2.1 ty true b).2.2.ret.toNat * h.ch) = _
    rw [q1, q2, q3]
    simp only [Int.toNat_natCast]
    exact hd

theorem partition_items (h : H) (s : Store) (ty : Ty) (a b : Nat) (hi : HInv h s) (hm : h.mode = .r) :
    let r1 := stepRead h s ty false ((a * h.ch : Nat) : Int)
    let r2 := stepRead r1.1 r1.2.1 ty false ((b * h.ch : Nat) : Int)
    let r3 := stepRead h s ty false (((a + b) * h.ch : Nat) : Int)
    r1.2.2.ret + r2.2.2.ret = r3.2.2.ret ∧
    r2.1.rpos = r3.1.rpos ∧
    r1.2.2.data.take r1.2.2.ret.toNat ++ r2.2.2.data.take r2.2.2.ret.toNat = r3.2.2.data.take r3.2.2.ret.toNat := by
  intro r1 r2 r3
  have hch := hi.ch_pos
  by_cases ha : a = 0
  · subst ha
    have e1 : r1 = (h, s, { ret := 0, err := h.error }) := by
      show stepRead h s ty false ((0 * h.ch : Nat) : Int) = _
      rw [Nat.zero_mul]; exact stepRead_zero h s ty false
    have e3 : r3 = r2 := by
      show stepRead h s ty false (((0 + b) * h.ch : Nat) : Int) = stepRead r1.1 r1.2.1 ty false ((b * h.ch : Nat) : Int)
      rw [e1, Nat.zero_add]
    rw [e3, e1]; simp
  by_cases hb : b = 0
  · subst hb
    have e2 : r2 = (r1.1, r1.2.1, { ret := 0, err := r1.1.error }) := by
      show stepRead r1.1 r1.2.1 ty false ((0 * h.ch : Nat) : Int) = _
      rw [Nat.zero_mul]; exact stepRead_zero r1.1 r1.2.1 ty false
    have e3 : r3 = r1 := rfl
    rw [e3, e2]; simp
  have pa : 0 < a * h.ch := Nat.mul_pos (by omega) hch
  have pb : 0 < b * h.ch := Nat.mul_pos (by omega) hch
  have key := partition_core h s ty false ((a * h.ch : Nat) : Int) ((b * h.ch : Nat) : Int) hi hm (by omega) (by omega)
    (Or.inr (by push_cast; exact Int.mul_emod_left _ _)) (Or.inr (by push_cast; exact Int.mul_emod_left _ _)) a b
    (by simp [reqLen]) (by simp [reqLen])
  obtain ⟨d1, d2, q1, q2, q3, hp, hd⟩ := key
  have e3 : r3 = stepRead h s ty false (((a * h.ch : Nat) : Int) + ((b * h.ch : Nat) : Int)) := by
    show stepRead h s ty false (((a + b) * h.ch : Nat) : Int) = _
    rw [Nat.add_mul, Int.natCast_add]
  simp only [Bool.false_eq_true, if_false] at q1 q2 q3
  rw [e3]
  refine ⟨?_, hp, ?_⟩
  · show (stepRead h s ty false ((a * h.ch : Nat) : Int)).2.2.ret +
      (stepRead (stepRead h s ty false ((a * h.ch : Nat) : Int)).1 (stepRead h s ty false ((a * h.ch : Nat) : Int)).2.1 ty false
        ((b * h.ch : Nat) : Int)).2.2.ret = _
    rw [q1, q2, q3, Nat.add_mul]; push_cast; rfl
  · show (stepRead h s ty false ((a * h.ch : Nat) : Int)).2.2.data.take
        (stepRead h s ty false ((a * h.ch : Nat) : Int)).2.2.ret.toNat ++
      (stepRead (stepRead h s ty false ((a * h.ch : Nat) : Int)).1 (stepRead h s ty false ((a * h.ch : Nat) : Int)).2.1 ty false
        ((b * h.ch : Nat) : Int)).2.2.data.take
        (stepRead (stepRead h s ty false ((a * h.ch : Nat) : Int)).1 (stepRead h s ty false ((a * h.ch : Nat) : Int)).2.1 ty
          false ((b * h.ch : Nat) : Int)).2.2.ret.toNat = _
    rw [q1, q2, q3]
    simp only [Int.toNat_natCast]
    exact hd

/-! ## the two call variants -/

/-- a frames call for `n` frames and an items call for `n·ch` items do the same thing; only the unit of the
    return value differs -/
theorem read_frames_vs_items (h : H) (s : Store) (ty : Ty) (n : Int) (hi : HInv h s) :
    (stepRead h s ty true n).1 = (stepRead h s ty false (n * (h.ch : Int))).1 ∧
    (stepRead h s ty true n).2.1 = (stepRead h s ty false (n * (h.ch : Int))).2.1 ∧
    (stepRead h s ty true n).2.2.data = (stepRead h s ty false (n * (h.ch : Int))).2.2.data ∧
    (stepRead h s ty true n).2.2.err = (stepRead h s ty false (n * (h.ch : Int))).2.2.err ∧
    (stepRead h s ty true n).2.2.ret = (stepRead h s ty false (n * (h.ch : Int))).2.2.ret / (h.ch : Int) := by
  have hch : (0 : Int) < h.ch := by have := hi.ch_pos; omega
  have hlen : reqLen h true n = reqLen h false (n * (h.ch : Int)) := by simp [reqLen]
  by_cases h0 : n = 0
  · subst h0; rw [Int.zero_mul, stepRead_zero, stepRead_zero]; simp
  by_cases hneg : n < 0
  · have : n * (h.ch : Int) < 0 := Int.mul_neg_of_neg_of_pos hneg hch
    rw [stepRead_neg _ _ _ _ _ hneg, stepRead_neg _ _ _ _ _ this]; simp
  have hn : 0 < n := by omega
  have hn' : 0 < n * (h.ch : Int) := Int.mul_pos hn hch
  have ha' : false = true ∨ n * (h.ch : Int) % (h.ch : Int) = 0 := Or.inr (Int.mul_emod_left _ _)
  by_cases hw : h.mode = .w
  · rw [stepRead_wmode _ _ _ _ _ hn hw, stepRead_wmode _ _ _ _ _ hn' hw, hlen]; simp
  by_cases he : h.frames ≤ h.rpos
  · rw [stepRead_eof _ _ _ _ _ hn hw (Or.inl rfl) he, stepRead_eof _ _ _ _ _ hn' hw ha' he, hlen]; simp
  · rw [stepRead_main _ _ _ _ _ hn hw (Or.inl rfl) (by omega), stepRead_main _ _ _ _ _ hn' hw ha' (by omega), hlen]
    simp only
    split <;> simp

end Sf
