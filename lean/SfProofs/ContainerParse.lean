/-
  The header parsers applied to the images the writers produce (C04, C11).
-/
import SfProofs.ContainerOpen
namespace Sf
set_option linter.unusedSimpArgs false

/-! ### AU -/

def auCodecs : List Nat := [0x01, 0x02, 0x03, 0x04, 0x06, 0x07, 0x10, 0x11]

theorem auCodec_auEncoding (codec : Nat) (h : codec ∈ auCodecs) : auCodec (auEncoding codec) = some codec := by
  simp [auCodecs] at h
  rcases h with h | h | h | h | h | h | h | h <;> subst h <;> rfl

theorem auEncoding_lt (codec : Nat) : auEncoding codec < 28 := by
  unfold auEncoding; split <;> omega

/-- `au_read_header` on header ++ data, whatever the length: the parser recovers every parameter, and the data
    length from the real file size -/
theorem auParse_image (big : Bool) (codec : Nat) (sr : Int) (ch : Nat) (data : List Byte)
    (hcodec : codec ∈ auCodecs) (hch : 1 ≤ ch ∧ ch ≤ 1024) (hsr : -0x80000000 ≤ sr ∧ sr ≤ 0x7FFFFFFF) :
    auParse (auHdr_ct big codec sr ch data.length ++ data) =
      .ok { fmtWord := (if big then 0 else 0x10000000) + 0x030000 + codec, ch := ch, sr := sr, big := big,
            dataoffset := 24, datalength := data.length, dataend := 0, filelength := ((24 + data.length : Nat) : Int) } := by
  generalize hM : (if big then marker ".snd" else marker "dns.") = M
  have hMl : M.length = 4 := by rw [← hM]; cases big <;> rfl
  generalize hdl : (if (data.length : Int) < 0 ∨ (data.length : Int) > 0x7FFFFFFF then (-1 : Int) else data.length) = dl'
  have hbs : auHdr_ct big codec sr ch data.length ++ data =
      M ++ (u32 big 24 ++ (u32 big dl' ++ (u32 big (auEncoding codec) ++ (u32 big sr ++ (u32 big ch ++ data))))) := by
    simp only [auHdr_ct, hdl, hM, List.append_assoc]
  rw [hbs]
  generalize hB : M ++ (u32 big 24 ++ (u32 big dl' ++ (u32 big (auEncoding codec) ++ (u32 big sr ++ (u32 big ch ++ data))))) = bs
  have hlen : bs.length = 24 + data.length := by rw [← hB]; simp [u32_length_ct, hMl]; omega
  have htake : bs.take 4 = M := by rw [← hB, ← hMl]; simp
  have r4 : rd32 big bs 4 = 24 := by
    rw [← hB]
    rw [rd32_of_At ((At.skip M (At.here _ _)).cast (by simp [hMl]))]; rfl
  have r8 : rd32 big bs 8 = wrapU 32 dl' := by
    rw [← hB]
    exact rd32_of_At ((At.skip M (At.skip _ (At.here _ _))).cast (by simp [hMl, u32_length_ct]))
  have r12 : rd32 big bs 12 = auEncoding codec := by
    rw [← hB]
    rw [rd32_of_At ((At.skip M (At.skip _ (At.skip _ (At.here _ _)))).cast (by simp [hMl, u32_length_ct]))]
    have := auEncoding_lt codec
    simp [wrapU]; omega
  have r16 : rd32 big bs 16 = wrapU 32 sr := by
    rw [← hB]
    exact rd32_of_At ((At.skip M (At.skip _ (At.skip _ (At.skip _ (At.here _ _))))).cast (by simp [hMl, u32_length_ct]))
  have r20 : rd32 big bs 20 = ch := by
    rw [← hB]
    rw [rd32_of_At ((At.skip M (At.skip _ (At.skip _ (At.skip _ (At.skip _ (At.here _ _)))))).cast (by simp [hMl, u32_length_ct]))]
    simp [wrapU]; omega
  have hsr' := sext32_wrapU sr hsr.1 hsr.2
  have hch' : sext 32 ch = ch := by unfold sext; simp; omega
  unfold auParse
  have hb1 : (M == marker ".snd") = big := by rw [← hM]; cases big <;> decide
  have hb2 : (M == marker "dns.") = !big := by rw [← hM]; cases big <;> decide
  have h24 : sext 32 24 = 24 := by decide
  simp only [htake, hlen, hb1, hb2, r4, r8, r12, r16, r20, auCodec_auEncoding codec hcodec, hsr', hch', h24]
  have hfl : ((sext 32 (wrapU 32 dl') == -1) = true ∨ ((24 : Int) + sext 32 (wrapU 32 dl') == ((24 + data.length : Nat) : Int)) = true) := by
    by_cases hbig : (data.length : Int) > 0x7FFFFFFF
    · left
      have : dl' = -1 := by rw [← hdl]; simp [hbig]
      rw [this]; decide
    · right
      have : dl' = data.length := by rw [← hdl]; simp; omega
      rw [this, sext32_wrapU _ (by omega) (by omega)]; simp
  simp only [hfl, if_true]
  have : ¬ (24 + data.length < 24) := by omega
  have hc1 : ¬ ((ch : Int) < 1 ∨ (ch : Int) > 1024) := by omega
  cases big <;> simp [this, hc1] <;> omega

/-! ### re-opening for read -/

/-- the header dispatch of `openHandle` for an existing file -/
def parseAny (bs : List Byte) : ParseRes :=
  let m := bs.take 4
  if m == marker "RIFF" ∨ m == marker "RIFX" then wavParse bs
  else if m == marker ".snd" ∨ m == marker "dns." then auParse bs
  else .unmodelled

/-- what `openHandle … .r` reports for a parsed header -/
theorem openHandle_r_parsed (ix : Nat) (bs : List Byte) (pos : Nat) (fmt0 : Nat) (ch0 sr0 : Int) (p : Parsed)
    (c : Container) (enc : Enc)
    (hraw : containerOf fmt0 ≠ some .raw) (hp : parseAny bs = .ok p) (hc : containerOf p.fmtWord = some c)
    (he : encOf c (codecOf p.fmtWord) p.big = some enc) (hsr : 1 ≤ p.sr) :
    ∃ h' s', openHandle ix ⟨bs, pos⟩ .r fmt0 ch0 sr0 = .ok h' s' ∧
      h'.frames = (initFrames p.dataoffset p.dataend p.filelength (enc.nbytes * p.ch)).2 ∧
      h'.ch = p.ch ∧ h'.sr = p.sr ∧ h'.fmtWord = p.fmtWord ∧ h'.enc = enc ∧ h'.container = c ∧ h'.mode = .r ∧
      h'.dataoffset = p.dataoffset ∧ h'.rpos = 0 ∧ s'.bytes = bs ∧ s'.pos = p.dataoffset := by
  have hraw' : (containerOf fmt0 == some Container.raw) = false := by simpa using hraw
  have hsr' : ¬ p.sr < 1 := by omega
  simp [parseAny] at hp
  unfold openHandle
  simp [Store.seekSet, hraw', hp, hc, he, hsr']
  exact ⟨_, _, ⟨rfl, rfl⟩, rfl, rfl, rfl, rfl, rfl, rfl, rfl, rfl, rfl, rfl, rfl⟩

/-! ### facts about an accepted configuration -/

theorem openCfg_facts {fmt : Nat} {ch sr : Int} {c : Cfg} (h : openCfg fmt ch sr = some c) :
    containerOf fmt = some c.container ∧ c.fmtWord = fmt ∧ c.sr = sr ∧ c.ch = ch.toNat ∧
    c.big = dataBig c.container fmt ∧ encOf c.container (codecOf fmt) c.big = some c.enc := by
  unfold openCfg at h
  split at h
  · cases h
  · rename_i cont hc
    split at h
    · cases h
    · rename_i enc he
      cases h
      exact ⟨hc, rfl, rfl, rfl, rfl, he⟩

/-- open for write succeeded: the configuration, its ranges, and the invariant -/
theorem open_ok {ix fmt : Nat} {ch sr : Int} {h : H} {s : Store} (ho : openHandle ix {} .w fmt ch sr = .ok h s) :
    ∃ c, openCfg fmt ch sr = some c ∧ 1 ≤ ch ∧ ch ≤ 1024 ∧ 1 ≤ sr ∧ Inv c c.init h s := by
  rw [openHandle_w] at ho
  cases hcfg : openCfg fmt ch sr with
  | none => rw [hcfg] at ho; simp only at ho; (repeat' split at ho) <;> cases ho
  | some c =>
    rw [hcfg] at ho; simp only at ho
    split at ho
    · cases ho
    · rename_i hr
      cases ho
      have hch : 0 < c.ch := by rw [(openCfg_facts hcfg).2.2.2.1]; omega
      exact ⟨c, rfl, by omega, by omega, by omega, openW_inv ix c hch⟩

theorem encOf_nbytes_pos_ct {c : Container} {codec : Nat} {big : Bool} {enc : Enc} (h : encOf c codec big = some enc) :
    0 < enc.nbytes := by
  unfold encOf at h
  split at h <;> (try split at h) <;> cases h <;> simp [Enc.nbytes, PcmFmt.nbytes]

theorem encOf_au_codecs {codec : Nat} {big : Bool} {enc : Enc} (h : encOf .au codec big = some enc) : codec ∈ auCodecs := by
  unfold encOf at h
  split at h <;> (try split at h) <;> (try cases h) <;> simp_all [auCodecs]

/-! ### session totals -/

def SOp.frames (ch : Nat) : SOp → Nat
  | .write w => w.frames ch
  | _ => 0

/-- the bytes a call adds to the data region -/
def SOp.bytes (c : Cfg) : SOp → List Byte
  | .write w => c.enc.encodeAll {} w.ty (w.data.take (w.items c.ch))
  | _ => []

/-- N: the frames accepted by the write calls of a session -/
def sessFrames (ch : Nat) (ops : List SOp) : Nat := (ops.map (SOp.frames ch)).sum

/-- the encoded audio of a session, in call order -/
def sessData (c : Cfg) (ops : List SOp) : List Byte := ops.flatMap (SOp.bytes c)

theorem items_zero (w : WCall) (ch : Nat) (h : w.n = 0) : w.items ch = 0 := by
  unfold WCall.items; rw [h]; split <;> simp

theorem step_frames (c : Cfg) (a : Abs) (op : SOp) : (a.step c op).frames = a.frames + op.frames c.ch := by
  cases op with
  | write w =>
    simp only [Abs.step, Abs.write, SOp.frames]
    split
    · rename_i h; simp [WCall.frames, items_zero w c.ch h]
    · rfl
  | update => rfl
  | auto b => rfl

theorem step_data (c : Cfg) (a : Abs) (op : SOp) : (a.step c op).data = a.data ++ op.bytes c := by
  cases op with
  | write w =>
    simp only [Abs.step, Abs.write, SOp.bytes]
    split
    · rename_i h; simp [items_zero w c.ch h, Enc.encodeAll]
    · rfl
  | update => simp [Abs.step, SOp.bytes]
  | auto b => simp [Abs.step, SOp.bytes]

theorem run_frames (c : Cfg) (ops : List SOp) : ∀ a : Abs, (a.run c ops).frames = a.frames + sessFrames c.ch ops := by
  induction ops with
  | nil => intro a; simp [Abs.run, sessFrames]
  | cons op ops ih =>
    intro a
    have := ih (a.step c op)
    simp only [Abs.run, List.foldl_cons, sessFrames, List.map_cons, List.sum_cons] at *
    rw [this, step_frames]; omega

theorem run_data (c : Cfg) (ops : List SOp) : ∀ a : Abs, (a.run c ops).data = a.data ++ sessData c ops := by
  induction ops with
  | nil => intro a; simp [Abs.run, sessData]
  | cons op ops ih =>
    intro a
    have := ih (a.step c op)
    simp only [Abs.run, List.foldl_cons, sessData, List.flatMap_cons] at *
    rw [this, step_data, List.append_assoc]

/-! ### AU: parse and re-open of header ++ data -/

theorem au_fmtWord_facts (big : Bool) (codec : Nat) (h : codec ∈ auCodecs) :
    containerOf ((if big then 0 else 0x10000000) + 0x030000 + codec) = some .au ∧
    codecOf ((if big then 0 else 0x10000000) + 0x030000 + codec) = codec := by
  simp [auCodecs] at h
  rcases h with h | h | h | h | h | h | h | h <;> subst h <;> cases big <;> decide

theorem parseAny_au (big : Bool) (codec : Nat) (sr : Int) (ch : Nat) (dl : Int) (data : List Byte) :
    parseAny (auHdr_ct big codec sr ch dl ++ data) = auParse (auHdr_ct big codec sr ch dl ++ data) := by
  unfold parseAny
  cases big <;> simp [auHdr_ct]

theorem initFrames_plain (off len bw : Nat) (hbw : 0 < bw) :
    (initFrames (off : Int) 0 ((off + len : Nat) : Int) bw).2 = ((len / bw : Nat) : Int) := by
  unfold initFrames
  by_cases h : len = 0
  · subst h; simp
  · have h1 : ((off + len : Nat) : Int) > (off : Int) := by omega
    have h2 : ((off + len : Nat) : Int) - (off : Int) = (len : Int) := by omega
    simp only [h1, if_true, gt_iff_lt, Int.lt_irrefl, if_false, hbw, h2]
    rfl

theorem au_image_reopen (c : Cfg) (a : Abs) (hc : c.container = .au) (hcodec : codecOf c.fmtWord ∈ auCodecs)
    (hch : 1 ≤ c.ch ∧ c.ch ≤ 1024) (hsr : 1 ≤ c.sr ∧ c.sr ≤ 0x7FFFFFFF)
    (henc : encOf .au (codecOf c.fmtWord) c.big = some c.enc) (hd : a.data.length = a.frames * c.bw) :
    ∃ p, auParse (snapImage c a) = .ok p ∧ p.ch = c.ch ∧ p.sr = c.sr ∧
      p.fmtWord = (if c.big then 0 else 0x10000000) + 0x030000 + codecOf c.fmtWord ∧ p.big = c.big ∧
      p.dataoffset = 24 ∧ (snapImage c a).drop 24 = a.data ∧
      ∀ (ix pos fmt0 : Nat) (ch0 sr0 : Int), containerOf fmt0 ≠ some .raw →
        ∃ h' s', openHandle ix ⟨snapImage c a, pos⟩ .r fmt0 ch0 sr0 = .ok h' s' ∧ h'.frames = a.frames ∧
          h'.ch = c.ch ∧ h'.sr = c.sr ∧ h'.fmtWord = p.fmtWord ∧ h'.enc = c.enc ∧ h'.container = .au ∧ s'.pos = 24 := by
  have himg : snapImage c a = auHdr_ct c.big (codecOf c.fmtWord) c.sr c.ch a.data.length ++ a.data := by
    simp [snapImage, hdrBytes, hc]
  have hparse := auParse_image c.big (codecOf c.fmtWord) c.sr c.ch a.data hcodec hch ⟨by omega, hsr.2⟩
  have hlen : (auHdr_ct c.big (codecOf c.fmtWord) c.sr c.ch a.data.length).length = 24 := by
    cases hb : c.big <;> simp [auHdr_ct, u32_length_ct]
  obtain ⟨hf1, hf2⟩ := au_fmtWord_facts c.big _ hcodec
  rw [himg]
  refine ⟨_, hparse, rfl, rfl, rfl, rfl, rfl, ?_, ?_⟩
  · rw [← hlen]; simp
  · intro ix pos fmt0 ch0 sr0 hraw
    have hbw : 0 < c.enc.nbytes * c.ch := Nat.mul_pos (encOf_nbytes_pos_ct henc) (by omega)
    obtain ⟨h', s', ho, hfr, h1, h2, h3, h4, h5, _, _, _, _, h6⟩ :=
      openHandle_r_parsed ix _ pos fmt0 ch0 sr0 _ .au c.enc hraw (by rw [parseAny_au]; exact hparse) hf1
        (by rw [hf2]; exact henc) hsr.1
    refine ⟨h', s', ho, ?_, h1, h2, h3, h4, h5, h6⟩
    rw [hfr]
    have := initFrames_plain 24 a.data.length (c.enc.nbytes * c.ch) hbw
    simp only at this ⊢
    rw [this, hd, Cfg.bw, Nat.mul_div_cancel _ hbw]

/-- the AU data-size field: the data length, or −1 once it exceeds 2^31 − 1 -/
theorem au_size_field_image (c : Cfg) (a : Abs) (hc : c.container = .au) :
    rd32 c.big (snapImage c a) 8 =
      wrapU 32 (if (a.data.length : Int) > 0x7FFFFFFF then -1 else (a.data.length : Int)) := by
  have himg : snapImage c a = auHdr_ct c.big (codecOf c.fmtWord) c.sr c.ch a.data.length ++ a.data := by
    simp [snapImage, hdrBytes, hc]
  rw [himg]
  have hdl : (if (a.data.length : Int) < 0 ∨ (a.data.length : Int) > 0x7FFFFFFF then (-1 : Int) else a.data.length) =
      (if (a.data.length : Int) > 0x7FFFFFFF then -1 else (a.data.length : Int)) := by
    have : ¬ (a.data.length : Int) < 0 := by omega
    simp [this]
  simp only [auHdr_ct, hdl, List.append_assoc]
  have hMl : (if c.big then marker ".snd" else marker "dns.").length = 4 := by cases c.big <;> rfl
  exact rd32_of_At ((At.skip _ (At.skip _ (At.here _ _))).cast (by simp only [hMl, u32_length_ct]))

/-! ### a whole session -/

theorem session_inv {ix fmt : Nat} {ch sr : Int} {h0 : H} {s0 : Store} (ops : List SOp)
    (ho : openHandle ix {} .w fmt ch sr = .ok h0 s0) (hv : ∀ op ∈ ops, op.valid ch.toNat) :
    ∃ c, openCfg fmt ch sr = some c ∧ 1 ≤ ch ∧ ch ≤ 1024 ∧ 1 ≤ sr ∧
      Inv c (c.init.run c ops) (runS (h0, s0) ops).1 (runS (h0, s0) ops).2 := by
  obtain ⟨c, hcfg, h1, h2, h3, i⟩ := open_ok ho
  have hch := (openCfg_facts hcfg).2.2.2.1
  exact ⟨c, hcfg, h1, h2, h3, runS_inv ops i (by rw [hch]; exact hv)⟩

/-! ### RAW -/

/-- RAW has no header: the frame count of a raw file is its byte length divided by the block width -/
theorem openHandle_raw_r (ix : Nat) (bs : List Byte) (pos fmt : Nat) (ch sr : Int) (enc : Enc)
    (hc : containerOf fmt = some .raw) (hch : 1 ≤ ch ∧ ch ≤ 1024) (hsr : 1 ≤ sr)
    (he : encOf .raw (codecOf fmt) (dataBig .raw fmt) = some enc) :
    ∃ h s', openHandle ix ⟨bs, pos⟩ .r fmt ch sr = .ok h s' ∧
      h.frames = ((bs.length / (enc.nbytes * ch.toNat) : Nat) : Int) ∧ (h.ch : Int) = ch ∧ h.sr = sr ∧ h.enc = enc ∧
      h.fmtWord = fmt ∧ s'.bytes = bs := by
  have h1 : ¬ (ch < 1 ∨ ch > 1024 ∨ sr < 0) := by omega
  have h2 : ¬ sr < 1 := by omega
  have hbw : 0 < enc.nbytes * ch.toNat := Nat.mul_pos (encOf_nbytes_pos_ct he) (by omega)
  have hfr := initFrames_plain 0 bs.length _ hbw
  simp only [Nat.zero_add, Int.natCast_zero] at hfr
  unfold openHandle
  simp only [hc, he, h1, h2, Store.seekSet]
  simp
  exact ⟨_, _, ⟨rfl, rfl⟩, by simpa using hfr, by simp; omega, rfl, rfl, rfl, rfl⟩

/-! ### executable summaries used by the non-vacuity examples -/

instance (w : WCall) (ch : Nat) : Decidable (w.valid ch) := by unfold WCall.valid; infer_instance
instance (op : SOp) (ch : Nat) : Decidable (op.valid ch) := by cases op <;> (simp only [SOp.valid]; infer_instance)

def OpenRes.isOk_ct : OpenRes → Bool
  | .ok _ _ => true
  | _ => false

theorem OpenRes.exists_of_isOk {r : OpenRes} (hr : r.isOk_ct = true) : ∃ h s, r = .ok h s := by
  cases r with
  | ok h s => exact ⟨h, s, rfl⟩
  | fail s => cases hr
  | unmodelled => cases hr

/-- the bytes of the closed file of a session on an empty store -/
def sessionBytes (ix fmt : Nat) (ch sr : Int) (ops : List SOp) : Option (List Byte) :=
  match openHandle ix {} .w fmt ch sr with
  | .ok h s => some (closeHandle (runS (h, s) ops).1 (runS (h, s) ops).2).bytes
  | _ => none

/-- the store of a session that is still open -/
def sessionStore (ix fmt : Nat) (ch sr : Int) (ops : List SOp) : Option (List Byte) :=
  match openHandle ix {} .w fmt ch sr with
  | .ok h s => some (runS (h, s) ops).2.bytes
  | _ => none

/-- frames reported by a reader of `bytes` (format word as given; 0 = detect) -/
def reopenFrames (bytes : List Byte) (fmt : Nat := 0) (ch sr : Int := 0) : Option Int :=
  match openHandle 0 ⟨bytes, 0⟩ .r fmt ch sr with
  | .ok h _ => some h.frames
  | _ => none

end Sf
