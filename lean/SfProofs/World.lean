/-
  Lemmas for SfProps/C19.lean: the binding of a handle to its store never changes; frame and locality of `wstep`.
-/
import SfModel.World
import SfProofs.HandleSteps
import SfProofs.HandleOpen
namespace Sf.World
open Sf

/-! ## a handle stays bound to the store it was opened on -/

theorem writeHeader_store (h : H) (s : Store) (b : Bool) : (writeHeader h s b).1.store = h.store := by
  obtain ⟨fl, dl, off, e, _⟩ := writeHeader_fst h s b
  rw [e]

theorem stepRead_store (h : H) (s : Store) (ty : Ty) (fc : Bool) (n : Int) : (stepRead h s ty fc n).1.store = h.store := by
  unfold stepRead
  simp only
  repeat' split
  all_goals rfl

theorem stepSeek_store (h : H) (s : Store) (off whence : Int) : (stepSeek h s off whence).1.store = h.store := by
  rw [stepSeek_eq_spec]
  unfold seekSpec
  repeat' split
  all_goals first
    | rfl
    | (simp only [seekFail, seekTell, seekMoveH]; repeat' split
       all_goals rfl)

theorem stepWrite_store (h : H) (s : Store) (ty : Ty) (fc : Bool) (n : Int) (data : List Int) :
    (stepWrite h s ty fc n data).1.store = h.store := by
  by_cases h0 : n = 0
  · subst h0; rw [stepWrite_zero]
  by_cases h1 : n < 0
  · rw [stepWrite_neg _ _ _ _ _ _ h1]
  have hn : 0 < n := by omega
  by_cases hm : h.mode = .r
  · rw [stepWrite_rmode _ _ _ _ _ _ hn hm]
  by_cases ha : fc = true ∨ n % (h.ch : Int) = 0
  · obtain ⟨fl, dl, off, de, pk, e, _, _⟩ := stepWrite_fields h s ty fc n data hn hm ha
    rw [e]
  · have hf : fc = false := by cases fc <;> simp_all
    subst hf
    have hx : n % (h.ch : Int) ≠ 0 := fun c => ha (Or.inr c)
    rw [stepWrite_align _ _ _ _ _ hn hm hx]

theorem stepCmdFlag_store (h : H) (s : Store) (cmd : Nat) (size : Int) : (stepCmdFlag h s cmd size).1.store = h.store := by
  obtain ⟨cv, ah, ⟨fl, dl, off, e, _⟩, _, _⟩ := stepCmdFlag_fields h s cmd size
  rw [e]

theorem stepTruncate_store (h : H) (s : Store) (f : Int) : (stepTruncate h s f).1.store = h.store := by
  unfold stepTruncate
  simp only
  have := stepSeek_store { h with error := 0 } s f 0
  repeat' split
  all_goals first
    | rfl
    | simpa using this

/-- every per-handle operation leaves the handle on the same store (or closes it) -/
theorem applyOp_store (h : H) (s : Store) (op : Op) (h' : H) (e : (applyOp h s op).1 = some h') : h'.store = h.store := by
  cases op <;> simp only [applyOp, Option.some.injEq] at e
  · rw [← e]; exact stepRead_store ..
  · rw [← e]; exact stepWrite_store ..
  · rw [← e]; exact stepSeek_store ..
  · rw [← e]; exact stepCmdFlag_store ..
  · rw [← e]; exact stepTruncate_store ..
  · cases e

/-- `openHandle` binds the new handle to the store index it was given -/
theorem openHandle_store (ix : Nat) (s0 : Store) (mode : Mode) (fmt : Nat) (ch sr : Int) (h : H) (s : Store)
    (ho : openHandle ix s0 mode fmt ch sr = .ok h s) : h.store = ix := by
  unfold openHandle at ho
  simp only at ho
  split at ho
  · split at ho
    · contradiction
    split at ho
    · contradiction
    split at ho
    · contradiction
    split at ho
    · contradiction
    split at ho
    · injection ho with e1 e2
      subst e1
      rfl
    · rw [writeHeader_au _ _ rfl] at ho
      injection ho with e1 e2
      subst e1
      rfl
    · rw [writeHeader_wav _ _ rfl] at ho
      injection ho with e1 e2
      subst e1
      rfl
  · split at ho
    · contradiction
    · contradiction
    split at ho
    · contradiction
    split at ho
    · contradiction
    split at ho
    · contradiction
    injection ho with e1 e2
    subst e1
    rfl

/-! ## frame: a call changes nothing outside its slot and its store -/

theorem wstep_handles_frame (w : W) (i : Nat) (op : WOp) (j : Nat) (hj : j ≠ i) :
    (wstep w (i, op)).1.handles j = w.handles j := by
  unfold wstep
  cases op <;> simp only <;> (try rfl) <;> split <;> (try rfl) <;> split <;> simp [upd, hj]

theorem wstep_uids_frame (w : W) (i : Nat) (op : WOp) (j : Nat) (hj : j ≠ i) :
    (wstep w (i, op)).1.uids j = w.uids j := by
  unfold wstep
  cases op <;> simp only <;> (try rfl) <;> split <;> (try rfl) <;> split <;> (try rfl) <;> simp only <;> split <;> simp [upd, hj]

theorem wstep_stores_frame (w : W) (i : Nat) (op : WOp) (k : Nat) (hk : touched (w.handles i) op ≠ some k) :
    (wstep w (i, op)).1.stores k = w.stores k := by
  unfold wstep
  cases op <;> simp only <;> (try rfl) <;> split <;> (try rfl) <;> split <;> (try rfl) <;>
    (rename_i k' hk'; simp only [upd]; split <;> (try rfl); rename_i e; subst e; exact absurd hk' hk)

/-! ## locality: what a call does and returns is a function of its slot and its store alone -/

theorem wstep_local (w w' : W) (i : Nat) (op : WOp)
    (hh : w.handles i = w'.handles i)
    (hs : ∀ k, touched (w.handles i) op = some k → w.stores k = w'.stores k) :
    (wstep w (i, op)).1.handles i = (wstep w' (i, op)).1.handles i ∧
    (∀ k, touched (w.handles i) op = some k → (wstep w (i, op)).1.stores k = (wstep w' (i, op)).1.stores k) ∧
    mask (wstep w (i, op)).2 = mask (wstep w' (i, op)).2 ∧
    (w.g = w'.g → (wstep w (i, op)).2 = (wstep w' (i, op)).2 ∧ (wstep w (i, op)).1.g = (wstep w' (i, op)).1.g) := by
  unfold wstep
  simp only [← hh]
  cases op <;> simp only
  all_goals first
    | exact ⟨hh, fun k hk => hs k hk, rfl, fun hg => by rw [hg]; exact ⟨rfl, rfl⟩⟩
    | skip
  all_goals
    split
    · refine ⟨hh, fun k hk => hs k hk, ?_, fun hg => by rw [hg]; exact ⟨rfl, rfl⟩⟩
      split <;> rfl
    · split
      · refine ⟨by simp, fun k hk => ?_, rfl, fun hg => by rw [hg]; exact ⟨rfl, rfl⟩⟩
        rename_i hn
        rw [hn] at hk
        cases hk
      · rename_i k0 hk0
        have e := hs k0 hk0
        rw [← e]
        refine ⟨by simp, fun k hk => ?_, rfl, fun hg => by rw [hg]; exact ⟨rfl, rfl⟩⟩
        rw [hk0] at hk
        cases hk
        simp

/-! ## name spaces: every slot works on stores of its own -/

/-- every live handle is bound to a store that belongs to its slot (`owner` maps a store to the slot that may use it) -/
def Owned (owner : Nat → Nat) (w : W) : Prop := ∀ i h, w.handles i = some h → owner h.store = i

/-- the call stays inside the caller's name space: an open names a store of the calling slot -/
def Scoped (owner : Nat → Nat) (ev : Ev) : Prop :=
  match ev.2 with
  | .open s .. => owner s = ev.1
  | _ => True

/-- the handle a call leaves in its slot is bound to the store the call reached, or is the handle that was there -/
theorem lstep_slot_store (slot : Option H) (st : Store) (op : WOp) (h' : H) (e : (lstep slot st op).1 = some h') :
    touched slot op = some h'.store ∨ slot = some h' := by
  cases op with
  | «open» store mode fmt ch sr ct =>
    unfold lstep at e
    simp only at e
    split at e
    · exact Or.inr e
    · cases e
    · rename_i h s ho
      left
      simp only [Option.some.injEq] at e
      subst e
      simp only [touched]
      rw [openHandle_store _ _ _ _ _ _ _ _ ho]
  | nullError => exact Or.inr e
  | nullLog => exact Or.inr e
  | call o =>
    cases slot with
    | none => cases o <;> cases e
    | some h =>
      left
      simp only [lstep] at e
      simp only [touched, Option.map]
      rw [applyOp_store h st o h' e]
  | info =>
    cases slot with
    | none => cases e
    | some h => left; simp only [lstep, Option.some.injEq] at e; subst e; rfl
  | infoBadSize =>
    cases slot with
    | none => cases e
    | some h => left; simp only [lstep, Option.some.injEq] at e; subst e; rfl
  | herror =>
    cases slot with
    | none => cases e
    | some h => exact Or.inr e

/-- what is in slot `i` after a call by slot `i` -/
theorem wstep_slot (w : W) (i : Nat) (op : WOp) :
    (wstep w (i, op)).1.handles i = w.handles i ∨
    ∃ st, (wstep w (i, op)).1.handles i = (lstep (w.handles i) st op).1 := by
  unfold wstep
  cases op <;> simp only <;> (try (first | exact Or.inl rfl | exact Or.inl trivial)) <;> split <;>
    (try (first | exact Or.inl rfl | exact Or.inl trivial))
  all_goals
    split
    · exact Or.inr ⟨{}, by simp⟩
    · rename_i k hk; exact Or.inr ⟨w.stores k, by simp⟩

theorem touched_owner (owner : Nat → Nat) (w : W) (i : Nat) (op : WOp) (ho : Owned owner w) (hsc : Scoped owner (i, op))
    (k : Nat) (hk : touched (w.handles i) op = some k) : owner k = i := by
  cases op with
  | «open» store mode fmt ch sr ct => simp only [touched, Option.some.injEq] at hk; subst hk; exact hsc
  | nullError => cases hk
  | nullLog => cases hk
  | _ =>
    simp only [touched] at hk
    cases hs : w.handles i with
    | none => rw [hs] at hk; cases hk
    | some h => rw [hs] at hk; simp only [Option.map, Option.some.injEq] at hk; subst hk; exact ho i h hs

theorem Owned_wstep (owner : Nat → Nat) (w : W) (ev : Ev) (ho : Owned owner w) (hsc : Scoped owner ev) :
    Owned owner (wstep w ev).1 := by
  obtain ⟨i, op⟩ := ev
  intro j h' hj
  by_cases e : j = i
  · subst e
    rcases wstep_slot w j op with e1 | ⟨st, e1⟩
    · rw [e1] at hj; exact ho j h' hj
    · rw [e1] at hj
      rcases lstep_slot_store _ _ _ _ hj with e2 | e2
      · exact touched_owner owner w j op ho hsc _ e2
      · exact ho j h' e2
  · rw [wstep_handles_frame w i op j e] at hj
    exact ho j h' hj

/-- two worlds look the same from slot `i`: same handle in the slot, same bytes in every store of the slot -/
def Agree (owner : Nat → Nat) (i : Nat) (w w' : W) : Prop :=
  w.handles i = w'.handles i ∧ ∀ k, owner k = i → w.stores k = w'.stores k

theorem Agree.refl (owner : Nat → Nat) (i : Nat) (w : W) : Agree owner i w w := ⟨rfl, fun _ _ => rfl⟩

theorem Agree.trans {owner : Nat → Nat} {i : Nat} {a b c : W} (h1 : Agree owner i a b) (h2 : Agree owner i b c) :
    Agree owner i a c := ⟨h1.1.trans h2.1, fun k hk => (h1.2 k hk).trans (h2.2 k hk)⟩

/-- a call by another slot is invisible from slot `i` -/
theorem agree_other (owner : Nat → Nat) (w : W) (i j : Nat) (op : WOp) (ho : Owned owner w) (hsc : Scoped owner (j, op))
    (hij : i ≠ j) : Agree owner i (wstep w (j, op)).1 w := by
  refine ⟨wstep_handles_frame w j op i hij, fun k hk => wstep_stores_frame w j op k ?_⟩
  intro ht
  have := touched_owner owner w j op ho hsc k ht
  omega

/-- a call by slot `i` itself, made in two worlds that look the same from slot `i` -/
theorem agree_own (owner : Nat → Nat) (w w' : W) (i : Nat) (op : WOp) (ho : Owned owner w) (hsc : Scoped owner (i, op))
    (ha : Agree owner i w w') :
    Agree owner i (wstep w (i, op)).1 (wstep w' (i, op)).1 ∧ mask (wstep w (i, op)).2 = mask (wstep w' (i, op)).2 := by
  have hs : ∀ k, touched (w.handles i) op = some k → w.stores k = w'.stores k :=
    fun k hk => ha.2 k (touched_owner owner w i op ho hsc k hk)
  obtain ⟨l1, l2, l3, _⟩ := wstep_local w w' i op ha.1 hs
  refine ⟨⟨l1, fun k hk => ?_⟩, l3⟩
  by_cases ht : touched (w.handles i) op = some k
  · exact l2 k ht
  · rw [wstep_stores_frame w i op k ht, wstep_stores_frame w' i op k (by rw [← ha.1]; exact ht)]
    exact ha.2 k hk

/-- `sf_error (h)` on a live handle answers the handle's own error field -/
theorem wstep_herror_live (w : W) (j : Nat) (h : H) (hl : w.handles j = some h) : (wstep w (j, .herror)).2 = .err h.error := by
  simp [wstep, hl, touched, lstep, isHerror, zeroLen]

/-! ## histories -/

theorem Owned_run (owner : Nat → Nat) : ∀ (evs : List Ev) (w : W), Owned owner w → (∀ ev ∈ evs, Scoped owner ev) →
    Owned owner (run w evs).1 := by
  intro evs
  induction evs with
  | nil => intro w ho _; exact ho
  | cons ev evs ih =>
    intro w ho hsc
    exact ih _ (Owned_wstep owner w ev ho (hsc ev (List.mem_cons_self ..))) (fun e he => hsc e (List.mem_cons_of_mem _ he))

/-- the masked transcript of slot `i` -/
def view (i : Nat) (tr : List (Nat × WOut)) : List WOut := (tr.filter (fun x => x.1 == i)).map (fun x => mask x.2)

/-- the calls of slot `i` -/
def proj (i : Nat) (evs : List Ev) : List Ev := evs.filter (fun ev => ev.1 == i)

/-- core of C19: running any history in `w` and running only slot `i`'s calls in a world `w'` that looks the same from
    slot `i` give slot `i` the same (masked) transcript, the same final handle and the same final bytes in its stores -/
theorem run_project (owner : Nat → Nat) (i : Nat) : ∀ (evs : List Ev) (w w' : W), Owned owner w → Owned owner w' →
    (∀ ev ∈ evs, Scoped owner ev) → Agree owner i w w' →
    Agree owner i (run w evs).1 (run w' (proj i evs)).1 ∧ view i (run w evs).2 = view i (run w' (proj i evs)).2 := by
  intro evs
  induction evs with
  | nil => intro w w' _ _ _ ha; exact ⟨ha, rfl⟩
  | cons ev evs ih =>
    intro w w' ho ho' hsc ha
    have hsc0 := hsc ev (List.mem_cons_self ..)
    have hsc1 : ∀ e ∈ evs, Scoped owner e := fun e he => hsc e (List.mem_cons_of_mem _ he)
    obtain ⟨j, op⟩ := ev
    by_cases hj : j = i
    · subst hj
      have hp : proj j ((j, op) :: evs) = (j, op) :: proj j evs := by simp [proj]
      rw [hp]
      obtain ⟨a1, a2⟩ := agree_own owner w w' j op ho hsc0 ha
      obtain ⟨r1, r2⟩ := ih (wstep w (j, op)).1 (wstep w' (j, op)).1 (Owned_wstep owner w _ ho hsc0)
        (Owned_wstep owner w' _ ho' hsc0) hsc1 a1
      refine ⟨r1, ?_⟩
      simp only [run, view, List.filter_cons, beq_self_eq_true, if_true, List.map_cons]
      simp only [view] at r2
      rw [a2, r2]
    · have hp : proj i ((j, op) :: evs) = proj i evs := by
        simp only [proj, List.filter_cons]
        have : ((j == i) = true) = False := by simp [hj]
        simp [hj]
      rw [hp]
      have a1 : Agree owner i (wstep w (j, op)).1 w' :=
        (agree_other owner w i j op ho hsc0 (fun e => hj e.symm)).trans ha
      obtain ⟨r1, r2⟩ := ih (wstep w (j, op)).1 w' (Owned_wstep owner w _ ho hsc0) ho' hsc1 a1
      refine ⟨r1, ?_⟩
      simp only [run, view, List.filter_cons]
      have : ((j == i) = true) = False := by simp [hj]
      simp only [this, if_false]
      exact r2

/-- two worlds with the same slots and stores (the process-wide state may differ) -/
def SameLocal (w w' : W) : Prop := (∀ i, w.handles i = w'.handles i) ∧ (∀ k, w.stores k = w'.stores k)

theorem SameLocal_wstep (w w' : W) (ev : Ev) (h : SameLocal w w') :
    SameLocal (wstep w ev).1 (wstep w' ev).1 ∧ mask (wstep w ev).2 = mask (wstep w' ev).2 := by
  obtain ⟨i, op⟩ := ev
  obtain ⟨l1, l2, l3, _⟩ := wstep_local w w' i op (h.1 i) (fun k _ => h.2 k)
  refine ⟨⟨fun j => ?_, fun k => ?_⟩, l3⟩
  · by_cases e : j = i
    · subst e; exact l1
    · rw [wstep_handles_frame w i op j e, wstep_handles_frame w' i op j e]; exact h.1 j
  · by_cases ht : touched (w.handles i) op = some k
    · exact l2 k ht
    · rw [wstep_stores_frame w i op k ht, wstep_stores_frame w' i op k (by rw [← h.1 i]; exact ht)]
      exact h.2 k

theorem SameLocal_run : ∀ (evs : List Ev) (w w' : W), SameLocal w w' →
    SameLocal (run w evs).1 (run w' evs).1 ∧
      (run w evs).2.map (fun x => (x.1, mask x.2)) = (run w' evs).2.map (fun x => (x.1, mask x.2)) := by
  intro evs
  induction evs with
  | nil => intro w w' h; exact ⟨h, rfl⟩
  | cons ev evs ih =>
    intro w w' h
    obtain ⟨s1, s2⟩ := SameLocal_wstep w w' ev h
    obtain ⟨r1, r2⟩ := ih _ _ s1
    refine ⟨r1, ?_⟩
    simp only [run, List.map_cons]
    rw [s2, r2]

theorem run_append (w : W) (a b : List Ev) :
    run w (a ++ b) = ((run (run w a).1 b).1, (run w a).2 ++ (run (run w a).1 b).2) := by
  induction a generalizing w with
  | nil => simp [run]
  | cons ev a ih => simp only [List.cons_append, run, ih, List.cons_append]

end Sf.World
