/-
  SfProofs.PeakFile — ties the writer model of SfProofs.CodecRun (`peakRun` over `WOp`s) to `Sf.Peak.run`, so that the
  PEAK theorems of SfProofs.Peak speak about the closed file (`closeBytes`).
-/
import SfProofs.CodecFile
import SfProofs.Peak
namespace Sf.Peak
open Sf Sf.Float

/-- the non-empty write calls of a writer history -/
def toCalls : List WOp → List (Ty × List Int)
  | [] => []
  | .write ty _ n data :: ops => if n = 0 then toCalls ops else (ty, data) :: toCalls ops
  | .updHeader _ :: ops => toCalls ops

theorem peakRun_eq_run (enc : Enc) (conv : Conv) (ch : Nat) :
    ∀ (ops : List WOp) (pk : Option (List Peak)) (wpos : Int),
      peakRun enc conv ch pk wpos ops = run enc conv ch pk wpos (toCalls ops) := by
  intro ops
  induction ops with
  | nil => intro pk wpos; rfl
  | cons op ops ih =>
    intro pk wpos
    cases op with
    | write ty fc n data =>
      by_cases hn : n = 0
      · simp only [peakRun, toCalls, hn, if_true]; exact ih _ _
      · simp only [peakRun, toCalls, hn, if_false, run]; exact ih _ _
    | updHeader sz => simp only [peakRun, toCalls]; exact ih _ _

theorem toCalls_fileVals (enc : Enc) (conv : Conv) (ty : Ty) (ops : List WOp) (ht : ∀ op ∈ ops, op.hasTy ty) :
    fileVals enc conv (toCalls ops) = (ops.flatMap WOp.samples).map (convVal enc conv ty) := by
  induction ops with
  | nil => rfl
  | cons op ops ih =>
    have hop := ht op (by simp)
    have ih' := ih (fun o ho => ht o (by simp [ho]))
    cases op with
    | write ty' fc n data =>
      simp only [WOp.hasTy] at hop
      subst hop
      by_cases hn : n = 0
      · simp only [toCalls, hn, if_true, List.flatMap_cons, WOp.samples, List.nil_append]; exact ih'
      · simp only [toCalls, hn, if_false, List.flatMap_cons, WOp.samples, List.map_append]
        rw [← ih']; simp [fileVals]
    | updHeader sz => simp only [toCalls, List.flatMap_cons, WOp.samples, List.nil_append]; exact ih'

theorem toCalls_wellFormed (h : H) (hch : 0 < h.ch) (ty : Ty) (ops : List WOp) (hok : ∀ op ∈ ops, op.ok h)
    (ht : ∀ op ∈ ops, op.hasTy ty)
    (hfin : ∀ x ∈ ops.flatMap WOp.samples, (fileFmt h.enc).isFinite (convVal h.enc h.conv ty x) = true) :
    ∀ call ∈ toCalls ops, WellFormed h.enc h.conv h.ch call := by
  induction ops with
  | nil => intro call hc; simp [toCalls] at hc
  | cons op ops ih =>
    have hop := ht op (by simp)
    have hoko := hok op (by simp)
    have ih' := ih (fun o ho => hok o (by simp [ho])) (fun o ho => ht o (by simp [ho]))
      (fun x hx => hfin x (by rw [List.flatMap_cons]; exact List.mem_append_right _ hx))
    cases op with
    | write ty' fc n data =>
      simp only [WOp.hasTy] at hop
      subst hop
      by_cases hn : n = 0
      · simp only [toCalls, hn, if_true]; exact ih'
      · simp only [toCalls, hn, if_false]
        intro call hc
        rcases List.mem_cons.mp hc with rfl | hc
        · rcases hoko with h0 | v
          · exact absurd h0 hn
          · have hlm := ValidW.len_mod h fc n data v
            have hlen : 0 < data.length := by
              have := v.len; have hp := v.pos
              unfold callLen at this
              cases fc
              · simp only [Bool.false_eq_true, if_false] at this; omega
              · simp only [if_true] at this
                have : 0 < n * (h.ch : Int) := Int.mul_pos hp (by exact_mod_cast hch)
                omega
            refine ⟨hlen, by exact_mod_cast hlm, ?_⟩
            intro x hx
            apply hfin x
            rw [List.flatMap_cons]
            apply List.mem_append_left
            simp only [WOp.samples, hn, if_false]; exact hx
        · exact ih' call hc
    | updHeader sz => simp only [toCalls]; exact ih'


/-- PEAK state after all calls of a well-formed history, with the invariant -/
theorem run_allInv0 (enc : Enc) (hfl : enc.isFloatData = true) (conv : Conv) (ch : Nat) (hch : 0 < ch)
    (calls : List (Ty × List Int)) (hgood : ∀ call ∈ calls, WellFormed enc conv ch call) :
    ∃ ps, run enc conv ch (some (mkPeaks ch)) 0 calls = some ps ∧
      AllInv (fileFmt enc) ch (fileVals enc conv calls) ((fileVals enc conv calls).length / ch) ps := by
  have h0 := run_inv enc hfl conv ch hch calls [] 0 [] (mkPeaks ch) hgood (by simp)
    (by simpa using allInv_init (fileFmt enc) ch (fileVals enc conv calls))
  obtain ⟨ps, hrun, hinv⟩ := h0
  simp only [List.nil_append, List.append_nil, Nat.zero_add] at hinv
  exact ⟨ps, by simpa using hrun, hinv⟩

/-- two well-formed histories that put the same patterns into the file end in the same PEAK state -/
theorem run_partition (enc : Enc) (hfl : enc.isFloatData = true) (conv : Conv) (ch : Nat) (hch : 0 < ch)
    (calls1 calls2 : List (Ty × List Int)) (hsame : fileVals enc conv calls1 = fileVals enc conv calls2)
    (hg1 : ∀ call ∈ calls1, WellFormed enc conv ch call) (hg2 : ∀ call ∈ calls2, WellFormed enc conv ch call) :
    run enc conv ch (some (mkPeaks ch)) 0 calls1 = run enc conv ch (some (mkPeaks ch)) 0 calls2 := by
  obtain ⟨ps1, hr1, hi1⟩ := run_allInv0 enc hfl conv ch hch calls1 hg1
  obtain ⟨ps2, hr2, hi2⟩ := run_allInv0 enc hfl conv ch hch calls2 hg2
  rw [hsame] at hi1
  rw [hr1, hr2, allInv_unique _ _ _ _ _ _ hi1 hi2]

end Sf.Peak
