/-
  SfProofs.NistImage — `Sf.Nist.parse` on the images the NIST writer leaves in the store: the header text is
  `flatten env (segs codec big)` (four literals around the three decimal numbers), every `strstr` of the reader is
  decided on the literals (SfProofs/NistSearch.lean) and every `sscanf` conversion ends inside a literal or on a
  decimal number the writer printed.
-/
import SfModel.Nist
import SfProofs.NistSearch
import SfProofs.Small2Session
namespace Sf.Nist
open Sf Sf.Small2
open Sf.Pvf (digits scanInt skipWs isWs isDigit scanDigits)

/-! ### the header text as segments -/

def mid (codec : Nat) (big : Bool) : List Byte := 0x0A :: (codecBlock codec big ++ headC)

def segs (codec : Nat) (big : Bool) : List Seg := [.lit headA, .digs 0, .lit headB, .digs 1, .lit (mid codec big), .digs 2, .lit headD]

def env (c : Cfg) (F : Nat) : Nat → List Byte := fun i => if i = 0 then digits c.ch else if i = 1 then digits c.sr else digits F

theorem goodEnv (c : Cfg) (F : Nat) : GoodEnv (env c F) := by
  intro i; unfold env
  split
  · exact ⟨Sf.Pvf.digits_ne_nil _, digits_isDig _⟩
  · split
    · exact ⟨Sf.Pvf.digits_ne_nil _, digits_isDig _⟩
    · exact ⟨Sf.Pvf.digits_ne_nil _, digits_isDig _⟩

theorem wrapS_small (F : Nat) (hF : F < 2 ^ 63) : wrapS 64 (F : Int) = F := by
  unfold wrapS
  have e : ((F : Int) % (2 ^ 64 : Int)) = F := Int.emod_eq_of_lt (Int.natCast_nonneg _) (by
    have : (F : Int) < ((2 ^ 63 : Nat) : Int) := by exact_mod_cast hF
    have e2 : ((2 ^ 63 : Nat) : Int) < (2 ^ 64 : Int) := by decide
    omega)
  simp only [e]
  have h2 : (F : Int) < (2 ^ 64 : Int) / 2 := by
    have : (F : Int) < ((2 ^ 63 : Nat) : Int) := by exact_mod_cast hF
    have e2 : (2 ^ 64 : Int) / 2 = ((2 ^ 63 : Nat) : Int) := by decide
    omega
  rw [if_pos h2]

theorem text_eq (c : Cfg) (F : Nat) (hF : F < 2 ^ 63) : text c (F : Int) = flatten (env c F) (segs c.codec c.big) := by
  have hs : sdigits (wrapS 64 (F : Int)) = digits F := by
    rw [wrapS_small F hF]; unfold sdigits
    have : ¬ ((F : Int) < 0) := by omega
    rw [if_neg this]; simp
  simp [text, segs, flatten, env, mid, hs]

/-- the ways the symbolic search is used -/
def litAfter (key : List Byte) (sg : List Seg) : Option (Option (List Byte × List Seg)) :=
  match ssearch key sg with
  | some (some (.lit suf :: rest)) => if isPrefix key suf then some (some (suf.drop key.length, rest)) else none
  | some none => some none
  | _ => none

theorem isPrefix_length (pat T : List Byte) (h : isPrefix pat T = true) : pat.length ≤ T.length := by
  induction pat generalizing T with
  | nil => simp
  | cons p ps ih =>
    cases T with
    | nil => simp [isPrefix] at h
    | cons b bs =>
      simp only [isPrefix, Bool.and_eq_true] at h
      have := ih bs h.2
      simp; omega

theorem after_of_litAfter (key : List Byte) (hk : key ≠ []) (ev : Nat → List Byte) (he : GoodEnv ev) (sg : List Seg)
    (l : List Byte) (rest : List Seg) (h : litAfter key sg = some (some (l, rest))) :
    after key (flatten ev sg) = some (l ++ flatten ev rest) := by
  unfold litAfter at h
  split at h
  · rename_i suf rest' hs
    split at h
    · rename_i hp
      simp only [Option.some.injEq, Prod.mk.injEq] at h
      obtain ⟨h1, h2⟩ := h
      subst h1; subst h2
      have := ssearch_sound key hk ev he sg _ hs
      unfold after
      rw [this]
      simp only [Option.map, flatten]
      rw [List.drop_append_of_le_length (isPrefix_length key suf hp)]
    · cases h
  · cases h
  · cases h

theorem after_none_of_litAfter (key : List Byte) (hk : key ≠ []) (ev : Nat → List Byte) (he : GoodEnv ev) (sg : List Seg)
    (h : litAfter key sg = some none) : after key (flatten ev sg) = none := by
  unfold litAfter at h
  split at h
  · split at h <;> cases h
  · rename_i hs
    have := ssearch_sound key hk ev he sg _ hs
    unfold after; rw [this]; rfl
  · cases h

/-! ### the facts about the literals, for the six encodings and both byte orders -/

def codecs : List Nat := [1, 2, 3, 4, 0x10, 0x11]

/-- what nist_read_header finds for the encoding `codec` -/
def nbytesOf (codec : Nat) : Int := if codec = 0x10 ∨ codec = 0x11 then 0 else bytewidth codec
def encOf (codec : Nat) : Nat := if codec = 0x10 ∨ codec = 0x11 then codec else 5
def wide (codec : Nat) : Bool := codec = 2 ∨ codec = 3 ∨ codec = 4

theorem fact_end : ∀ codec ∈ codecs, ∀ big ∈ [true, false],
    ssearch kEnd (segs codec big) = some (some [.lit (asc "end_head\n")]) := by decide +kernel

theorem fact_chan : ∀ codec ∈ codecs, ∀ big ∈ [true, false],
    litAfter kChan (segs codec big) = some (some ([], (segs codec big).drop 1)) := by decide +kernel

theorem fact_rate : ∀ codec ∈ codecs, ∀ big ∈ [true, false],
    litAfter kRate (segs codec big) = some (some ([], (segs codec big).drop 3)) := by decide +kernel

theorem fact_inter : ∀ codec ∈ codecs, ∀ big ∈ [true, false], ssearch kInter (segs codec big) = some none := by decide +kernel

/-! ### conversions that end inside a literal, decided on the literal -/

/-- `intField` for a key whose number (if the key occurs at all) lies inside a literal -/
def intLit (key : List Byte) (sg : List Seg) (dflt : Int) : Option Int :=
  match litAfter key sg with
  | some none => some dflt
  | some (some (l, _)) =>
    match scanInt l with
    | some (v, r) => if r ≠ [] ∧ inInt v = true then some v else none
    | none => none
  | none => none

theorem intLit_sound (key : List Byte) (hk : key ≠ []) (ev : Nat → List Byte) (he : GoodEnv ev) (sg : List Seg) (dflt v : Int)
    (h : intLit key sg dflt = some v) : intField key (flatten ev sg) dflt = some v := by
  unfold intLit at h
  split at h
  · rename_i hl
    unfold intField; rw [after_none_of_litAfter key hk ev he sg hl]; exact h
  · rename_i l rest hl
    unfold intField; rw [after_of_litAfter key hk ev he sg l rest hl]
    split at h
    · rename_i v' r hs
      split at h
      · rename_i hc
        simp only [scanInt_lit l _ v' r hs hc.1, hc.2, if_true]; exact h
      · cases h
    · cases h
  · cases h

def encLit (sg : List Seg) : Option Nat :=
  match litAfter kCoding sg with
  | some none => some 5
  | some (some (l, _)) =>
    match scanInt l with
    | some (_, r2) =>
      if r2 ≠ [] ∧ wordEnds r2 = true then
        let w := scanWord 63 r2
        some (if w = asc "pcm" then 5 else if w = asc "alaw" then 0x11 else if w = asc "ulaw" ∨ w = asc "mu-law" then 0x10 else 0)
      else none
    | none => none
  | none => none

theorem kCoding_ne : kCoding ≠ [] := by decide
theorem kOrder_ne : kOrder ≠ [] := by decide
theorem kChan_ne : kChan ≠ [] := by decide
theorem kRate_ne : kRate ≠ [] := by decide
theorem kBytes_ne : kBytes ≠ [] := by decide
theorem kEnd_ne : kEnd ≠ [] := by decide
theorem kInter_ne : kInter ≠ [] := by decide

theorem encLit_sound (ev : Nat → List Byte) (he : GoodEnv ev) (sg : List Seg) (e : Nat) (h : encLit sg = some e) :
    encodingOf (flatten ev sg) = e := by
  unfold encLit at h
  split at h
  · rename_i hl
    unfold encodingOf; rw [after_none_of_litAfter kCoding kCoding_ne ev he sg hl]
    injection h
  · rename_i l rest hl
    unfold encodingOf; rw [after_of_litAfter kCoding kCoding_ne ev he sg l rest hl]
    split at h
    · rename_i v' r2 hs
      split at h
      · rename_i hc
        simp only [scanInt_lit l _ v' r2 hs hc.1, scanWord_lit 63 r2 _ hc.2]
        injection h
      · cases h
    · cases h
  · cases h

def orderLit (sg : List Seg) (bytewidth : Int) : Option Order :=
  match litAfter kOrder sg with
  | some none => some (.ok bytewidth 0)
  | some (some (l, _)) =>
    match scanInt l with
    | some (bytes, r2) =>
      if r2 ≠ [] ∧ wordEnds r2 = true then
        some (if bytes < 0 ∨ bytes > 0x7FFFFFFF then .unmodelled else
          let w := scanWord 8 r2
          if w = [] then .ok bytewidth 0 else
          if bytes > 1 then
            if bytewidth ≠ 0 ∧ bytewidth ≠ bytes then .err
            else if w = asc "01" then .ok bytes 0x10000000
            else if w = asc "10" then .ok bytes 0x20000000
            else .err
          else .ok bytewidth 0x10000000)
      else none
    | none => none
  | none => none

theorem orderLit_sound (ev : Nat → List Byte) (he : GoodEnv ev) (sg : List Seg) (bw : Int) (o : Order) (h : orderLit sg bw = some o) :
    orderOf (flatten ev sg) bw = o := by
  unfold orderLit at h
  split at h
  · rename_i hl
    unfold orderOf; rw [after_none_of_litAfter kOrder kOrder_ne ev he sg hl]
    injection h
  · rename_i l rest hl
    unfold orderOf; rw [after_of_litAfter kOrder kOrder_ne ev he sg l rest hl]
    split at h
    · rename_i v' r2 hs
      split at h
      · rename_i hc
        simp only [scanInt_lit l _ v' r2 hs hc.1, scanWord_lit 8 r2 _ hc.2]
        injection h
      · cases h
    · cases h
  · cases h

theorem fact_bytes : ∀ codec ∈ codecs, ∀ big ∈ [true, false], intLit kBytes (segs codec big) 0 = some (nbytesOf codec) := by decide +kernel

theorem fact_enc : ∀ codec ∈ codecs, ∀ big ∈ [true, false], encLit (segs codec big) = some (encOf codec) := by decide +kernel

theorem fact_order : ∀ codec ∈ codecs, ∀ big ∈ [true, false],
    orderLit (segs codec big) (nbytesOf codec) =
      some (if wide codec then .ok (bytewidth codec) (if big then 0x20000000 else 0x10000000) else .ok (nbytesOf codec) 0) := by decide +kernel

end Sf.Nist
