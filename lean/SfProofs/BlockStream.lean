/-
  The item stream of a block reader as a flat list: when the reader's blocks come from a list of decoded blocks of
  uniform length, `Reader.slice p m` (what the read theorems deliver) is `(blocks.flatten.drop p).take m`.
  Helper lemmas for SfProps/C06CodecsWritten.lean.
-/
import SfModel.Block
import SfProofs.BlockReader
namespace Sf.Block.Stream
open Sf Sf.Block Sf.Block.Proofs

theorem flatten_getD (n : Nat) (hn : 0 < n) (d : Int) : ∀ (bs : List (List Int)) (j : Nat), (∀ b ∈ bs, b.length = n) →
    bs.flatten.getD j d = (bs.getD (j / n) []).getD (j % n) d := by
  intro bs
  induction bs with
  | nil => intro j _; simp
  | cons b bs ih =>
    intro j h
    have hb : b.length = n := h b (by simp)
    rw [List.flatten_cons]
    by_cases hj : j < n
    · rw [List.getD_eq_getElem?_getD, List.getElem?_append_left (by omega), Nat.div_eq_of_lt hj, Nat.mod_eq_of_lt hj,
        List.getD_eq_getElem?_getD]
      rfl
    · have hj' : n ≤ j := by omega
      have e : (b ++ bs.flatten).getD j d = bs.flatten.getD (j - n) d := by
        rw [List.getD_eq_getElem?_getD, List.getElem?_append_right (by omega), hb, List.getD_eq_getElem?_getD]
      rw [e, ih (j - n) (fun x hx => h x (by simp [hx]))]
      have h1 : j / n = (j - n) / n + 1 := by
        have : j = (j - n) + n := by omega
        conv => lhs; rw [this]
        exact Nat.add_div_right _ hn
      have h2 : j % n = (j - n) % n := Nat.mod_eq_sub_mod hj'
      rw [h1, h2]
      rfl

theorem headD_drop (l : List Int) (k : Nat) : (l.drop k).headD 0 = l.getD k 0 := by
  rw [List.headD_eq_head?_getD, List.head?_drop, List.getD_eq_getElem?_getD]

/-- the slice of a reader whose first `blocks.length` blocks are `blocks` (all of block length) is a piece of the flat
    list, as long as it ends inside those blocks -/
theorem slice_eq_flatten (r : Reader) (blocks : List (List Int)) (hpos : 0 < r.spb * r.ch)
    (hlen : ∀ b ∈ blocks, b.length = r.spb * r.ch) (hsrc : ∀ k, k < blocks.length → r.src k = blocks.getD k [])
    (p m : Nat) (h : p + m ≤ blocks.length * (r.spb * r.ch)) :
    r.slice p m = (blocks.flatten.drop p).take m := by
  have hfl : blocks.flatten.length = blocks.length * (r.spb * r.ch) := by
    clear hsrc h
    induction blocks with
    | nil => simp
    | cons b bs ih =>
      rw [List.flatten_cons, List.length_append, ih (fun x hx => hlen x (by simp [hx])), hlen b (by simp), List.length_cons,
        Nat.succ_mul, Nat.add_comm]
  apply List.ext_getElem
  · rw [slice_length, List.length_take, List.length_drop, hfl]; omega
  · intro i h1 h2
    simp only [Reader.slice, List.getElem_map, List.getElem_range, List.getElem_take, List.getElem_drop]
    unfold Reader.itemAt
    have hk : (p + i) / (r.spb * r.ch) < blocks.length := by
      rw [slice_length] at h1
      exact (Nat.div_lt_iff_lt_mul hpos).mpr (by omega)
    rw [hsrc _ hk, headD_drop, ← flatten_getD (r.spb * r.ch) hpos 0 blocks (p + i) hlen]
    rw [List.getD_eq_getElem?_getD, List.getElem?_eq_getElem (by rw [hfl]; rw [slice_length] at h1; omega)]
    rfl

end Sf.Block.Stream
