/-
  SfProofs.AlacBounds — sizes of what the ALAC decoder model stores: `dyn_decomp` never stores more than `numSamples`
  residuals (and exactly that many when it succeeds), `unpc_block` turns `num` residuals into `num` samples, an element
  header never yields more than 4095 frames of its own.
-/
import SfModel.AlacDec
namespace Sf.AlacCore

theorem dynLoop_length (p : AgParams) (ms off0 mp : Nat) :
    ∀ (fuel left : Nat) (cur : Bits) (q mb z : Nat) (acc : List Int),
      (dynLoop p ms off0 mp fuel left cur q mb z acc).out.length ≤ acc.length + left ∧
      ((dynLoop p ms off0 mp fuel left cur q mb z acc).ok = true →
        (dynLoop p ms off0 mp fuel left cur q mb z acc).out.length = acc.length + left) := by
  intro fuel
  induction fuel with
  | zero =>
    intro left cur q mb z acc
    simp [dynLoop]
  | succ fuel ih =>
    intro left cur q mb z acc
    rw [dynLoop]
    by_cases h0 : left = 0
    · simp [h0]
    · simp only [h0, if_false]
      by_cases h1 : off0 + q ≥ mp
      · simp only [h1, if_true]; simp
      · simp only [h1, if_false]
        rcases hg : dynGet32 cur ((off0 + q) % 8) (2 ^ min (lg3a (mb / 512)) p.kb - 1) (min (lg3a (mb / 512)) p.kb) ms with ⟨n, used⟩
        simp only []
        generalize mbNext p.pb n ((n + z) % 4294967296) mb = mb1
        by_cases hz : mb1 * 4 % 4294967296 < 512 ∧ left - 1 > 0
        · simp only [hz, and_self, if_true]
          rcases hg2 : dynGet (List.drop used cur) ((off0 + (q + used)) % 8) ((2 ^ (lead mb1 - 24 + (mb1 + 16) / 64) - 1) &&& p.wb)
            (lead mb1 - 24 + (mb1 + 16) / 64) with ⟨n2, used2⟩
          simp only []
          by_cases hle : n2 > left - 1
          · simp only [hle, if_true]; simp; omega
          · simp only [hle, if_false]
            have := ih (left - 1 - n2) (List.drop used2 (List.drop used cur)) (q + used + used2) 0 (if n2 ≥ 65535 then 0 else 1)
              (List.replicate n2 0 ++ delOf ((n + z) % 4294967296) :: acc)
            simp only [List.length_append, List.length_replicate, List.length_cons] at this
            constructor
            · have := this.1; omega
            · intro hok; have := this.2 hok; omega
        · simp only [hz, if_false]
          have := ih (left - 1) (List.drop used cur) (q + used) mb1 0 (delOf ((n + z) % 4294967296) :: acc)
          simp only [List.length_cons] at this
          constructor
          · have := this.1; omega
          · intro hok; have := this.2 hok; omega

/-- `dyn_decomp` stores at most `numSamples` residuals, exactly `numSamples` when it reports no error -/
theorem dynDecomp_length (p : AgParams) (r : Rd) (byteSize numSamples maxSize : Nat) :
    (dynDecomp p r byteSize numSamples maxSize).1.out.length ≤ numSamples ∧
    ((dynDecomp p r byteSize numSamples maxSize).1.ok = true → (dynDecomp p r byteSize numSamples maxSize).1.out.length = numSamples) := by
  have h := dynLoop_length p maxSize (r.pos % 8) (byteSize * 8) numSamples numSamples r.rest 0 p.mb0 0 []
  simp only [dynDecomp, List.length_nil, Nat.zero_add] at h ⊢
  refine ⟨h.1, ?_⟩
  intro hok
  simp only [Bool.and_eq_true] at hok
  exact h.2 hok.1

theorem unpcLoop_length (na cb ds : Nat) : ∀ (pcs : List Int) (j : Nat) (coefs hist : List Int),
    (unpcLoop na cb ds pcs j coefs hist).length = hist.length + pcs.length
  | [], _, _, _ => by simp [unpcLoop]
  | pc :: pcs, j, coefs, hist => by
    rw [unpcLoop]
    split
    · rw [unpcLoop_length]; simp; omega
    · rcases unpcStep na cb ds coefs hist pc with ⟨o, c⟩
      simp only []
      rw [unpcLoop_length]; simp; omega

theorem foldl_cons_length (f : List Int → Int → Int) : ∀ (pcs : List Int) (acc : List Int),
    (pcs.foldl (fun (acc : List Int) pc => f acc pc :: acc) acc).length = acc.length + pcs.length
  | [], acc => by simp
  | pc :: pcs, acc => by simp [foldl_cons_length f pcs]; omega

/-- `unpc_block` turns `num` residuals into `num` samples -/
theorem unpcBlock_length (pc1 coefs : List Int) (na cb ds : Nat) : (unpcBlock pc1 coefs na cb ds).length = pc1.length := by
  cases pc1 with
  | nil => rfl
  | cons p0 pcs =>
    simp only [unpcBlock]
    split
    · rfl
    · split
      · rw [List.length_reverse, foldl_cons_length (fun acc pc => sx cb (w32 (pc + acc.headD 0)))]; simp; omega
      · rw [List.length_reverse, unpcLoop_length]; simp; omega

/-- the element header: the frame count is the one asked for, or the header's own, which is below 4096;
    at most two bytes are shifted off -/
theorem rdHeader_bounds (numSamples : Nat) (r r' : Rd) (h : Hdr) (e : rdHeader numSamples r = (.ok h, r')) :
    (h.numSamples = numSamples ∨ h.numSamples < frameLen) ∧ h.bytesShifted ≤ 2 := by
  unfold rdHeader at e
  simp only [] at e
  split at e
  · simp at e
  · split at e
    · simp at e
    · rename_i hb3
      split at e
      · split at e
        · simp only [Prod.mk.injEq, Except.ok.injEq] at e
          obtain ⟨rfl, _⟩ := e
          simp only
          refine ⟨Or.inr (by assumption), by omega⟩
        · simp at e
      · simp only [Prod.mk.injEq, Except.ok.injEq] at e
        obtain ⟨rfl, _⟩ := e
        exact ⟨Or.inl rfl, by simp only; omega⟩

theorem rdMonoEsc_length (cb : Nat) : ∀ (n : Nat) (r : Rd), (rdMonoEsc cb n r).1.length = n
  | 0, _ => rfl
  | n + 1, r => by
    rw [rdMonoEsc]
    rcases rdEscSample cb r with ⟨v, r1⟩
    have ih := rdMonoEsc_length cb n r1
    rcases h : rdMonoEsc cb n r1 with ⟨vs, r2⟩
    rw [h] at ih
    simp only [h, List.length_cons]
    simpa using ih

theorem rdPairEsc_length (ru : Rules) (cb : Nat) : ∀ (n : Nat) (r : Rd),
    (rdPairEsc ru cb n r).1.length = n ∧ (rdPairEsc ru cb n r).2.1.length = n
  | 0, _ => ⟨rfl, rfl⟩
  | n + 1, r => by
    rw [rdPairEsc]
    rcases rdEscSample cb r with ⟨u, r1⟩
    simp only []
    rcases (if ru.decPairVShift = true then rdEscSample cb r1 else rdEscSampleVOld cb r1) with ⟨v, r2⟩
    have ih := rdPairEsc_length ru cb n r2
    rcases h : rdPairEsc ru cb n r2 with ⟨us, vs, r3⟩
    rw [h] at ih
    simp only [h, List.length_cons]
    simpa using ih

theorem outChan_length (ru : Rules) (depth bs : Nat) (mix : List Int) (sh : List Nat) (o : List Int)
    (e : outChan ru depth bs mix sh = some o) : o.length ≤ mix.length := by
  unfold outChan at e
  repeat' split at e
  all_goals first
    | (simp only [Option.some.injEq] at e; subst e; simp [List.length_zipWith]; try omega)
    | simp at e

theorem decChan_length (cfg : Config) (byteSize numSamples chanBits : Nat) (pr : Nat × Nat × Nat × List Int) (r r' : Rd) (mix : List Int)
    (e : decChan cfg byteSize numSamples chanBits pr r = (some mix, r')) : mix.length = numSamples := by
  obtain ⟨mode, denShift, pbFactor, coefs⟩ := pr
  simp only [decChan] at e
  have hl := dynDecomp_length (setAgParams cfg.mb (cfg.pb * pbFactor / 4) cfg.kb) r byteSize numSamples chanBits
  rcases hd : dynDecomp (setAgParams cfg.mb (cfg.pb * pbFactor / 4) cfg.kb) r byteSize numSamples chanBits with ⟨ag, r1⟩
  rw [hd] at e hl
  simp only [] at e hl
  split at e
  · simp at e
  · rename_i hok
    simp only [Bool.not_eq_true, Bool.not_eq_false] at hok
    simp only [Prod.mk.injEq, Option.some.injEq] at e
    obtain ⟨rfl, _⟩ := e
    rw [unpcBlock_length]
    split
    · exact hl.2 (by simpa using hok)
    · rw [unpcBlock_length]; exact hl.2 (by simpa using hok)

theorem compMono_bounds (ru : Rules) (byteSize : Nat) (cfg : Config) (h : Hdr) (r r' : Rd) (o : Option (List Int))
    (e : compMono ru byteSize cfg h r = (.ok o, r')) : (o.getD []).length ≤ h.numSamples := by
  simp only [compMono] at e
  split at e
  · simp at e
  · split at e
    · simp at e
    · rename_i mix r1 hdc
      simp only [Prod.mk.injEq, Except.ok.injEq] at e
      obtain ⟨rfl, _⟩ := e
      have hm := decChan_length _ _ _ _ _ _ _ _ hdc
      cases ho : outChan ru cfg.bitDepth h.bytesShifted mix _ with
      | none => simp
      | some o => have := outChan_length _ _ _ _ _ _ ho; simp; omega

theorem compPair_bounds (byteSize : Nat) (cfg : Config) (h : Hdr) (r r' : Rd) (a b : List Int)
    (e : compPair byteSize cfg h r = (.ok (some (a, b)), r')) : a.length ≤ h.numSamples ∧ b.length ≤ h.numSamples := by
  simp only [compPair] at e
  split at e
  · simp at e
  · split at e
    · simp at e
    · rename_i u r1 hu
      split at e
      · simp at e
      · rename_i v r2 hv
        have hul := decChan_length _ _ _ _ _ _ _ _ hu
        split at e
        · simp only [Prod.mk.injEq, Except.ok.injEq, Option.some.injEq] at e
          obtain ⟨⟨rfl, rfl⟩, _⟩ := e
          simp only [List.length_map, List.length_zip]
          omega
        · simp at e

/-- an ID_SCE / ID_LFE element: one channel of at most `n` samples, `n` the count asked for or the header's own (< 4096) -/
theorem decMono_bounds (ru : Rules) (byteSize : Nat) (cfg : Config) (reqN : Nat) (r r' : Rd) (n : Nat) (chans : List (List Int))
    (e : decMono (comp ru byteSize) ru cfg reqN r = .done n chans r') :
    (n = reqN ∨ n < frameLen) ∧ chans.length = 1 ∧ ∀ ch ∈ chans, ch.length ≤ n := by
  unfold decMono at e
  split at e
  · simp at e
  · rename_i h r1 hh
    have hb := rdHeader_bounds _ _ _ _ hh
    split at e
    · rcases hm : rdMonoEsc (cfg.bitDepth - 8 * h.bytesShifted) h.numSamples r1 with ⟨mix, r2⟩
      dsimp only at e
      rw [hm] at e
      simp only [ElemRes.done.injEq] at e
      obtain ⟨rfl, rfl, _⟩ := e
      refine ⟨hb.1, rfl, ?_⟩
      intro ch hch
      simp only [List.mem_cons, List.not_mem_nil, or_false] at hch
      subst hch
      have hl : mix.length = h.numSamples := by have := rdMonoEsc_length (cfg.bitDepth - 8 * h.bytesShifted) h.numSamples r1; rw [hm] at this; exact this
      cases ho : outChan ru cfg.bitDepth 0 mix [] with
      | none => simp
      | some o => have := outChan_length _ _ _ _ _ _ ho; simp; omega
    · split at e
      · simp at e
      · rename_i o r2 hc
        simp only [ElemRes.done.injEq] at e
        obtain ⟨rfl, rfl, _⟩ := e
        refine ⟨hb.1, rfl, ?_⟩
        intro ch hch
        simp only [List.mem_cons, List.not_mem_nil, or_false] at hch
        subst hch
        exact compMono_bounds ru byteSize cfg h r1 r2 o hc

/-- an ID_CPE element: two channels of at most `n` samples -/
theorem decPair_bounds (ru : Rules) (byteSize : Nat) (cfg : Config) (reqN : Nat) (r r' : Rd) (n : Nat) (chans : List (List Int))
    (e : decPair (comp ru byteSize) ru cfg reqN r = .done n chans r') :
    (n = reqN ∨ n < frameLen) ∧ chans.length = 2 ∧ ∀ ch ∈ chans, ch.length ≤ n := by
  unfold decPair at e
  split at e
  · simp at e
  · rename_i h r1 hh
    have hb := rdHeader_bounds _ _ _ _ hh
    split at e
    · rcases hm : rdPairEsc ru cfg.bitDepth h.numSamples r1 with ⟨u, v, r2⟩
      have hl := rdPairEsc_length ru cfg.bitDepth h.numSamples r1
      rw [hm] at e hl
      simp only [] at e hl
      unfold outPair0 at e
      cases hu : outChan Rules.current cfg.bitDepth 0 u [] with
      | none =>
        simp only [hu, ElemRes.done.injEq] at e
        obtain ⟨rfl, rfl, _⟩ := e
        exact ⟨hb.1, rfl, by simp⟩
      | some a =>
        cases hv : outChan Rules.current cfg.bitDepth 0 v [] with
        | none =>
          simp only [hu, hv, ElemRes.done.injEq] at e
          obtain ⟨rfl, rfl, _⟩ := e
          exact ⟨hb.1, rfl, by simp⟩
        | some b =>
          simp only [hu, hv, ElemRes.done.injEq] at e
          obtain ⟨rfl, rfl, _⟩ := e
          have h1 := outChan_length _ _ _ _ _ _ hu
          have h2 := outChan_length _ _ _ _ _ _ hv
          refine ⟨hb.1, rfl, ?_⟩
          intro ch hch
          simp only [List.mem_cons, List.not_mem_nil, or_false] at hch
          rcases hch with rfl | rfl <;> omega
    · split at e
      · simp at e
      · rename_i a b r2 hc
        simp only [ElemRes.done.injEq] at e
        obtain ⟨rfl, rfl, _⟩ := e
        have := compPair_bounds byteSize cfg h r1 r2 a b hc
        refine ⟨hb.1, rfl, ?_⟩
        intro ch hch
        simp only [List.mem_cons, List.not_mem_nil, or_false] at hch
        rcases hch with rfl | rfl <;> omega
      · simp only [ElemRes.done.injEq] at e
        obtain ⟨rfl, rfl, _⟩ := e
        exact ⟨hb.1, rfl, by simp⟩

end Sf.AlacCore
